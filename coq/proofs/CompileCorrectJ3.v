(* CompileCorrectJ3.v - compiler correctness for the fragment F4 (spec/Fragment4.v), part J3:
   the COLLECTION-FREE machine of part J1 simulates the intermediate evaluator of part J2 (under the
   literal policy "constant pool") on the compiled code.

   This is part F (CompileCorrectF.v, fragment F3) redone for F4.  As there, by structural induction
   on the tree with the fuel quantified inside; the behaviour of a CALL is a hypothesis of the
   induction (`CallOK prog f'` for every smaller fuel f') which is discharged at the end by induction
   on the fuel.  New with respect to part F:
     - the constant pool may grow by any constant; float / string literals are evaluated through the
       pool of the final program (`pl`, as in part H2);
     - array literals, indexing, index assignment, builtin calls (as in part H2, on activation states);
     - the output is part of the state, an error carries the text printed before it;
     - Return / ReturnValue need no condition on the collector (this machine does not collect);
     - a call with more arguments than the callee has parameters is the excluded event `overL`. *)
From Coq Require Import ZArith Lia Bool List String.
From NL.Model Require Import VM.
From NL.Spec Require Import Sem Fragment Fragment2 Fragment2h Fragment3 Fragment4 ArithSpec.
From NL.Spec Require ScopeSpec.
From NL.Proofs Require VMStepProofs CompilerNames SymbolsProofs PoolProofs CompileCorrectH3 CompileCorrectH4.
From NL.Proofs Require Import WordProofs OpsProofs AstInduction ControlProofs
  CompileCorrectA CompileCorrectB CompileCorrectC CompileCorrectH1 CompileCorrectJ1 CompileCorrectJ2.
Open Scope Z_scope.

(** * The symbol table: enclosing contexts, then the current one with its scopes *)

Definition ltab (pre : list context) (sc : scope) (k : nat) (outer : list (list text)) (cur : list text) : symtab :=
  pre ++ [mkContext sc k (outer ++ [cur])].

(* the contexts below the current one: the global one first, then those of enclosing functions *)
Definition pre_ok (pre : list context) (sc : scope) : Prop :=
  SymbolsProofs.wf_prefix pre (mkContext sc O []) /\ Forall ScopeSpec.wf_ctx pre.

Lemma concat_flat : forall outer cur, concat (outer ++ [cur]) = flat outer cur.
Proof. intros. unfold flat. rewrite concat_app. cbn [concat]. rewrite app_nil_r. reflexivity. Qed.

Lemma wf_ltab : forall pre sc k outer cur, pre_ok pre sc -> (length (flat outer cur) <= k)%nat ->
  ScopeSpec.wf_tab (ltab pre sc k outer cur).
Proof.
  intros pre sc k outer cur [H1 H2] Hk. unfold ltab. apply SymbolsProofs.wf_tab_snoc.
  split; [exact (SymbolsProofs.wf_prefix_scope pre _ _ H1 eq_refl)|]. split; [exact H2|].
  apply SymbolsProofs.wf_ctx_mk. split; [destruct outer; discriminate|]. rewrite concat_flat. exact Hk.
Qed.

Lemma define_ltab : forall pre sc k outer cur x,
  define (ltab pre sc k outer cur) x = (ltab pre sc (S k) outer (cur ++ [x]), mkSymbol sc (length (flat outer cur))).
Proof.
  intros. unfold ltab. rewrite SymbolsProofs.define_snoc, SymbolsProofs.context_define_snoc. reflexivity.
Qed.

Lemma enter_ltab : forall pre sc k outer cur,
  enter_scope (ltab pre sc k outer cur) = ltab pre sc k (outer ++ [cur]) [].
Proof. intros. unfold ltab. rewrite SymbolsProofs.enter_scope_snoc. reflexivity. Qed.

Lemma leave_ltab : forall pre sc k outer cur0 cur,
  leave_scope (ltab pre sc k (outer ++ [cur0]) cur) = ltab pre sc k outer cur0.
Proof.
  intros. unfold ltab. rewrite SymbolsProofs.leave_scope_snoc. cbn [c_scope c_max c_syms].
  rewrite removelast_last. reflexivity.
Qed.

Lemma new_context_ltab : forall pre sc k outer cur,
  new_context (ltab pre sc k outer cur) = ltab (ltab pre sc k outer cur) SLocal O [] [].
Proof. reflexivity. Qed.

Lemma defines_ltab : forall ps pre k cur,
  fold_left (fun t p => fst (define t p)) ps (ltab pre SLocal k [] cur) = ltab pre SLocal (length ps + k) [] (cur ++ ps).
Proof.
  induction ps as [|p ps IH]; intros pre k cur; cbn [fold_left length].
  - rewrite app_nil_r. reflexivity.
  - rewrite define_ltab. cbn [fst]. rewrite IH. rewrite <- app_assoc. cbn [app]. f_equal. lia.
Qed.

Lemma leave_context_ltab : forall pre sc k outer cur, leave_context (ltab pre sc k outer cur) = (pre, k).
Proof. intros. unfold ltab. apply SymbolsProofs.leave_context_snoc. Qed.

Lemma in_global_ltab : forall pre sc k outer cur,
  in_global_context (ltab pre sc k outer cur) = match pre with [] => true | _ => false end.
Proof.
  intros. unfold in_global_context, ltab. rewrite app_length. cbn [length].
  destruct pre as [|c r]; [reflexivity|]. cbn [length]. apply Nat.eqb_neq. lia.
Qed.

(* a local symbol is a slot below max_size of the current context *)
Lemma resolve_local_bound : forall pre sc k outer cur x sy, pre_ok pre sc -> (length (flat outer cur) <= k)%nat ->
  resolve (ltab pre sc k outer cur) x = Some sy -> s_scope sy = SLocal -> (s_index sy < k)%nat.
Proof.
  intros pre sc k outer cur x sy Hp Hk Hr Hs.
  pose proof (SymbolsProofs.slot_bound _ _ _ (wf_ltab _ _ _ _ _ Hp Hk) Hr) as Hb. rewrite Hs in Hb.
  cbn [ScopeSpec.context_of_kind] in Hb. unfold ltab in Hb. rewrite SymbolsProofs.current_snoc in Hb. exact Hb.
Qed.

Lemma pre_ok_scope : forall pre sc, pre_ok pre sc ->
  match pre with [] => sc = SGlobal | _ => sc = SLocal end.
Proof.
  intros pre sc [H _]. destruct pre as [|c0 r]; cbn [SymbolsProofs.wf_prefix] in H.
  - exact H.
  - destruct H as (_ & _ & H). exact H.
Qed.

(* the contexts below a new function context *)
Lemma pre_ok_new : forall pre sc k outer cur, pre_ok pre sc -> (length (flat outer cur) <= k)%nat ->
  pre_ok (ltab pre sc k outer cur) SLocal.
Proof.
  intros pre sc k outer cur Hp Hk. pose proof (wf_ltab _ _ _ _ _ Hp Hk) as W.
  destruct W as (HN & HG & HT & HF). split; [|exact HF].
  unfold ltab in *. destruct pre as [|c0 r]; cbn [app SymbolsProofs.wf_prefix] in *.
  - cbn [ScopeSpec.global hd] in HG. split; [exact HG|]. split; [constructor|reflexivity].
  - cbn [ScopeSpec.global hd] in HG. split; [exact HG|]. cbn [tl] in HT. split; [exact HT|reflexivity].
Qed.

(** * Constants: integers and functions *)

Definition is_k3 (k : const) : Prop := (exists z, k = KInt z) \/ (exists ip n, k = KFun ip n).
Definition kval (k : const) : val :=
  match k with KInt z => VInt z | KFun ip n => VFun ip n | _ => VNull end.

Definition consts_ok3 (prog : program) (ks : list const) : Prop :=
  forall i k, nth_error ks i = Some k -> is_k3 k -> nth_error (p_consts prog) i = Some (kval k).

Lemma consts_ok3_app : forall prog ks kx, consts_ok3 prog (ks ++ kx) -> consts_ok3 prog ks.
Proof.
  intros prog ks kx H i k Hi Hk. apply H; [|exact Hk]. rewrite nth_error_app1; [exact Hi|].
  apply nth_error_Some. rewrite Hi. discriminate.
Qed.

(* the pool only grows (by any constant) *)
Definition cext3 (st st' : cstate) : Prop := exists kx, c_constants st' = c_constants st ++ kx.

Lemma cext3_refl : forall st, cext3 st st.
Proof. intros. exists []. rewrite app_nil_r. reflexivity. Qed.
Lemma cext3_trans : forall a b c, cext3 a b -> cext3 b c -> cext3 a c.
Proof. intros a b c [k1 H1] [k2 H2]. exists (k1 ++ k2). rewrite H2, H1, app_assoc. reflexivity. Qed.
Lemma cext3_eq : forall a b, c_constants b = c_constants a -> cext3 a b.
Proof. intros a b H. exists []. rewrite app_nil_r. exact H. Qed.

Lemma consts_ok3_ext : forall prog st st', cext3 st st' -> consts_ok3 prog (c_constants st') ->
  consts_ok3 prog (c_constants st).
Proof. intros prog st st' [kx E] H. rewrite E in H. exact (consts_ok3_app _ _ _ H). Qed.

Lemma pool_at_cext : forall prog pl st st', cext3 st st' -> pool_at prog pl (c_constants st') ->
  pool_at prog pl (c_constants st).
Proof. intros prog pl st st' [kx E] H. rewrite E in H. exact (pool_at_ext _ _ _ _ H). Qed.

Lemma is_kint_k3 : forall kx, Forall is_kint kx -> Forall is_k3 kx.
Proof. intros kx H. induction H as [|k l [z ->] _ IH]; constructor; [left; exists z; reflexivity|exact IH]. Qed.

(* add_constant of an integer or a function *)
Lemma add_constant_k3 : forall k st st1 r, is_k3 k -> add_constant k st = (st1, r) ->
  c_symbols st1 = c_symbols st /\ c_code st1 = c_code st /\ c_loops st1 = c_loops st /\ c_last st1 = c_last st /\
  cext3 st st1 /\
  forall idx, r = Ok idx -> 0 <= idx < 65536 /\ nth_error (c_constants st1) (Z.to_nat idx) = Some k.
Proof.
  intros k st st1 r Hk H.
  assert (forall f, k <> KFloat f) as Hnf by (intros f E; destruct Hk as [[z Hz]|[ip [n Hz]]]; congruence).
  destruct (PoolProofs.pool_prefix _ _ _ _ H) as ([ext Hext] & (S1 & S2 & S3 & S4 & _) & _).
  split; [exact S1|]. split; [exact S2|]. split; [exact S4|]. split; [exact S3|]. split.
  - unfold add_constant in H. destruct (const_position k (c_constants st)); inversion H; subst.
    + apply cext3_refl.
    + exists [k]. reflexivity.
  - intros idx ->. destruct (PoolProofs.pool_stable _ _ _ _ H) as (R & _).
    split; [change (2 ^ 16) with 65536 in R; exact R|]. exact (PoolProofs.pool_stable_exact _ _ _ _ Hnf H).
Qed.

Lemma emit_const_k3 : forall k st st', is_k3 k -> emit_const k st = Ok st' ->
  c_symbols st' = c_symbols st /\ c_loops st' = c_loops st /\ cext3 st st' /\
  exists idx, c_code st' = c_code st ++ [byte_of_opcode OConst; idx mod 256; (idx / 256) mod 256] /\
    0 <= idx < 65536 /\ nth_error (c_constants st') (Z.to_nat idx) = Some k.
Proof.
  intros k st st' Hk H. unfold emit_const in H. destruct (add_constant k st) as [st1 r] eqn:E.
  destruct (add_constant_k3 k st st1 r Hk E) as [Hs [Hc [Hl [_ [Hx Hi]]]]].
  destruct r as [idx| | |]; try discriminate H. cbn [bind] in H. inversion H; subst; clear H.
  cbn [emit_u16 emit_opcode c_symbols c_code c_constants c_loops]. split; [exact Hs|]. split; [exact Hl|].
  split; [exact Hx|]. exists idx. destruct (Hi idx eq_refl) as [Hr Hn].
  rewrite Hc, <- app_assoc. cbn [app]. auto.
Qed.

(** * What a compilation step does to the compiler state *)

Record cfacts3 (st st' : cstate) (pre : list context) (sc : scope) (k' : nat) (outer : list (list text))
       (cur' : list text) (ce : list Z) (nb : list Z) : Prop := mkCF3 {
  cf3_syms : c_symbols st' = ltab pre sc k' outer cur';
  cf3_wf : (length (flat outer cur') <= k')%nat;
  cf3_code : c_code st' = c_code st ++ ce;
  cf3_consts : cext3 st st';
  cf3_loops : c_loops st' = add_breaks nb (c_loops st);
  cf3_nbnil : c_loops st = [] -> nb = [];
  cf3_brk : brk_ok (code_len st) nb (code_len st')
}.

Lemma cfacts3_len : forall st st' pre sc k outer cur ce nb, cfacts3 st st' pre sc k outer cur ce nb ->
  code_len st' = code_len st + zlength ce.
Proof. intros st st' pre sc k outer cur ce nb H. apply code_len_app. exact (cf3_code _ _ _ _ _ _ _ _ _ H). Qed.

Lemma cfacts3_trans : forall st st1 st2 pre sc k1 k2 outer cur1 cur2 ce1 ce2 nb1 nb2,
  cfacts3 st st1 pre sc k1 outer cur1 ce1 nb1 -> cfacts3 st1 st2 pre sc k2 outer cur2 ce2 nb2 ->
  cfacts3 st st2 pre sc k2 outer cur2 (ce1 ++ ce2) (nb1 ++ nb2).
Proof.
  intros st st1 st2 pre sc k1 k2 outer cur1 cur2 ce1 ce2 nb1 nb2 [S1 W1 C1 K1 L1 N1 B1] [S2 W2 C2 K2 L2 N2 B2].
  constructor.
  - exact S2.
  - exact W2.
  - rewrite C2, C1, app_assoc. reflexivity.
  - exact (cext3_trans _ _ _ K1 K2).
  - rewrite L2, L1. apply add_breaks_add.
  - intros H. rewrite (N1 H). rewrite N2; [reflexivity|]. rewrite L1, H. reflexivity.
  - apply (brk_ok_app nb1 nb2 _ (code_len st1)); assumption.
Qed.

(* a step that only appends bytes *)
Lemma cfacts3_emit : forall st st' pre sc k outer cur ce,
  c_symbols st = ltab pre sc k outer cur -> (length (flat outer cur) <= k)%nat ->
  c_symbols st' = c_symbols st -> c_constants st' = c_constants st ->
  c_loops st' = c_loops st -> c_code st' = c_code st ++ ce -> cfacts3 st st' pre sc k outer cur ce [].
Proof.
  intros st st' pre sc k outer cur ce Hs Hw Hs' Hk Hl Hc. constructor.
  - congruence.
  - exact Hw.
  - exact Hc.
  - apply cext3_eq. exact Hk.
  - rewrite add_breaks_nil. exact Hl.
  - reflexivity.
  - cbn [brk_ok]. rewrite (code_len_app _ _ _ Hc). pose proof (zlength_nonneg _ ce). lia.
Qed.

Lemma cfacts3_emit_opcode : forall op st pre sc k outer cur,
  c_symbols st = ltab pre sc k outer cur -> (length (flat outer cur) <= k)%nat ->
  cfacts3 st (emit_opcode op st) pre sc k outer cur [byte_of_opcode op] [].
Proof. intros. apply cfacts3_emit; auto. Qed.

Lemma cfacts3_emit_u16op : forall op v st pre sc k outer cur,
  c_symbols st = ltab pre sc k outer cur -> (length (flat outer cur) <= k)%nat ->
  cfacts3 st (emit_u16 v (emit_opcode op st)) pre sc k outer cur [byte_of_opcode op; v mod 256; (v / 256) mod 256] [].
Proof.
  intros. apply cfacts3_emit; auto. cbn [emit_u16 emit_opcode c_code]. rewrite <- app_assoc. reflexivity.
Qed.

Lemma cfacts3_emit_sym : forall op sy st st' pre sc k outer cur,
  c_symbols st = ltab pre sc k outer cur -> (length (flat outer cur) <= k)%nat ->
  emit_sym op sy st = Ok st' ->
  0 <= Z.of_nat (s_index sy) < 65536 /\
  cfacts3 st st' pre sc k outer cur
    [byte_of_opcode op; Z.of_nat (s_index sy) mod 256; (Z.of_nat (s_index sy) / 256) mod 256] [].
Proof.
  intros op sy st st' pre sc k outer cur Hs Hw H. pose proof (emit_sym_loops _ _ _ _ H) as Hl.
  destruct (emit_sym_spec _ _ _ _ H) as [Hsy [Hk [Hr Hcode]]]. split; [exact Hr|].
  apply cfacts3_emit; auto.
Qed.

Lemma cfacts3_eq : forall st st' pre sc k outer cur ce nb ce' nb', cfacts3 st st' pre sc k outer cur ce nb ->
  ce = ce' -> nb = nb' -> cfacts3 st st' pre sc k outer cur ce' nb'.
Proof. intros; subst; assumption. Qed.

Lemma cfacts3_in : forall st t st1 pre sc k outer cur ce nb,
  cfacts3 (set_symbols st t) st1 pre sc k outer cur ce nb -> cfacts3 st st1 pre sc k outer cur ce nb.
Proof. intros st t st1 pre sc k outer cur ce nb [S W C K L N B]. constructor; assumption. Qed.

Lemma cfacts3_out : forall st st1 t pre0 sc0 k0 outer0 cur0 pre sc k outer cur ce nb,
  cfacts3 st st1 pre0 sc0 k0 outer0 cur0 ce nb -> t = ltab pre sc k outer cur -> (length (flat outer cur) <= k)%nat ->
  cfacts3 st (set_symbols st1 t) pre sc k outer cur ce nb.
Proof.
  intros st st1 t pre0 sc0 k0 outer0 cur0 pre sc k outer cur ce nb [S W C K L N B] Ht Hw. constructor; assumption.
Qed.

Lemma cfacts3_patch_at : forall stA stB stC pre sc k outer cur pre_ce x y z rest nb v,
  cfacts3 stA stB pre sc k outer cur (pre_ce ++ x :: y :: z :: rest) nb ->
  change_jump_operand_at (code_len stA + zlength pre_ce) v stB = Ok stC ->
  cfacts3 stA stC pre sc k outer cur (pre_ce ++ x :: v mod 256 :: (v / 256) mod 256 :: rest) nb /\
  code_len stC = code_len stB /\ c_last stC = c_last stB /\ c_constants stC = c_constants stB.
Proof.
  intros stA stB stC pre sc k outer cur pre_ce x y z rest nb v [S W C K L N B] H.
  assert (0 <= code_len stA + zlength pre_ce) as Hpos.
  { pose proof (code_len_nonneg stA). pose proof (zlength_nonneg _ pre_ce). lia. }
  destruct (change_jump_spec _ _ _ _ Hpos H) as [A1 [A2 [A3 [A4 [_ [A6 [_ A8]]]]]]].
  pose proof (code_len_length _ _ A6) as Hlen. split; [|split; [exact Hlen|split; [exact A4|exact A2]]].
  constructor.
  - congruence.
  - exact W.
  - rewrite A8, C. unfold code_len, zlength.
    replace (Z.to_nat (Z.of_nat (length (c_code stA)) + Z.of_nat (length pre_ce))) with (length (c_code stA ++ pre_ce))
      by (rewrite app_length; lia).
    rewrite app_assoc, patch_operand, <- app_assoc. reflexivity.
  - destruct K as [kx K1]. exists kx. congruence.
  - congruence.
  - exact N.
  - rewrite Hlen. exact B.
Qed.

(** * The fragment, unfolded *)

Lemma f4e_infix : forall lp fa fn l o r,
  f4e lp fa fn (EInfix l o r) = is_binop o && f4e false fa fn l && f4e false fa fn r.
Proof. reflexivity. Qed.
Lemma f4e_prefix : forall lp fa fn o r, f4e lp fa fn (EPrefix o r) = is_prefix_op o && f4e false fa fn r.
Proof. reflexivity. Qed.
Lemma f4e_assign : forall lp fa fn x r, f4e lp fa fn (EAssign (EIdent x) r) = f4e false fa fn r.
Proof. reflexivity. Qed.
Lemma f4e_assign_index : forall lp fa fn b i r,
  f4e lp fa fn (EAssign (EIndex b i) r) = f4e false fa fn b && f4e false fa fn i && f4e false fa fn r.
Proof. reflexivity. Qed.
Lemma f4e_array : forall lp fa fn vs, f4e lp fa fn (EArray vs) = f4es fa fn vs.
Proof. reflexivity. Qed.
Lemma f4e_index : forall lp fa fn l i, f4e lp fa fn (EIndex l i) = f4e false fa fn l && f4e false fa fn i.
Proof. reflexivity. Qed.
Lemma f4e_if : forall lp fa fn c t alt,
  f4e lp fa fn (EIf c t alt) =
  f4e false fa fn c && f4b lp fn fn t && match alt with Some b => f4b lp fn fn b | None => true end.
Proof. reflexivity. Qed.
Lemma f4e_while : forall lp fa fn c b, f4e lp fa fn (EWhile c b) = f4e false fa fn c && f4b true fn fn b.
Proof. reflexivity. Qed.
Lemma f4e_function : forall lp fa fn name ps body,
  f4e lp fa fn (EFunction name ps body) = fa && is_nil name && f4b false true true body.
Proof. reflexivity. Qed.
Lemma f4e_call : forall lp fa fn f args,
  f4e lp fa fn (ECall f args) = f4es fa fn args && (is_builtin_callee f || f4e false fa fn f).
Proof. reflexivity. Qed.
Lemma f4s_block : forall lp fa fn b, f4s lp fa fn (SBlock b) = f4b lp fn fn b.
Proof. reflexivity. Qed.
Lemma f4s_let : forall lp fa fn x e,
  f4s lp fa fn (SLet x e) = f4e false fa fn e && (negb (mentions x e) || is_funlit e).
Proof. reflexivity. Qed.
Lemma f4s_return : forall lp fa fn e, f4s lp fa fn (SReturn e) = f4e false fa fn e.
Proof. reflexivity. Qed.
Lemma f4s_expr_named : forall lp fa fn c nm ps body,
  f4s lp fa fn (SExpr (EFunction (c :: nm) ps body)) = fa && f4b false true true body.
Proof. reflexivity. Qed.
Lemma f4s_expr_other : forall lp fa fn e, (forall c nm ps body, e <> EFunction (c :: nm) ps body) ->
  f4s lp fa fn (SExpr e) = f4e lp fa fn e.
Proof.
  intros lp fa fn e H. destruct e; try reflexivity. destruct name as [|c nm]; [reflexivity|].
  exfalso. exact (H c nm params body eq_refl).
Qed.
Lemma f4b_cons : forall lp fa fn s r, f4b lp fa fn (s :: r) = f4s lp fa fn s && f4b lp fa fn r.
Proof. reflexivity. Qed.
Lemma f4es_cons : forall fa fn x r, f4es fa fn (x :: r) = f4e false fa fn x && f4es fa fn r.
Proof. reflexivity. Qed.

Lemma stmt_ret_block : forall b, stmt_ret (SBlock b) = ends_ret b.
Proof.
  intros b. cbn [stmt_ret]. induction b as [|s r IH]; [reflexivity|].
  destruct r as [|s' r']; [reflexivity|]. cbn [ends_ret]. exact IH.
Qed.

(** * Facts about the evaluator alone *)

Definition nosig {A} (r : yres A) : Prop :=
  match r with YBrk _ | YCnt _ => False | _ => True end.

Definition yres_loc {A} (n : nat) (r : yres A) : Prop :=
  match r with
  | YOk _ y' | YBrk y' | YCnt y' | YRet _ y' => length (y_loc y') = n
  | _ => True
  end.

Lemma nosig_ylift_o : forall y r, nosig (ylift_o y r).
Proof. intros y r. destruct r; exact I. Qed.
Lemma yres_loc_lift_o : forall y r, yres_loc (length (y_loc y)) (ylift_o y r).
Proof. intros y r. destruct r; cbn [ylift_o yres_loc y_loc]; auto. Qed.

Lemma nosig_lit_pool : forall pl0 k y, nosig (lit_pool pl0 k y).
Proof. intros. unfold lit_pool. destruct (pool_find k pl0); [apply nosig_ylift_o|exact I]. Qed.
Lemma yres_loc_lit_pool : forall pl0 k y, yres_loc (length (y_loc y)) (lit_pool pl0 k y).
Proof. intros. unfold lit_pool. destruct (pool_find k pl0); [apply yres_loc_lift_o|exact I]. Qed.
Lemma nosig_lit_fresh : forall k y, nosig (lit_fresh k y).
Proof. intros. unfold lit_fresh. destruct k; try exact I; apply nosig_ylift_o. Qed.
Lemma yres_loc_lit_fresh : forall k y, yres_loc (length (y_loc y)) (lit_fresh k y).
Proof. intros. unfold lit_fresh. destruct k; try exact I; apply yres_loc_lift_o. Qed.

Section YFacts.
  Variable orc : oracle.
  Variable lit : const -> yst -> yres val.
  Hypothesis lit_nosig : forall k y, nosig (lit k y).
  Hypothesis lit_loc : forall k y, yres_loc (length (y_loc y)) (lit k y).

  Lemma nosig_ybind : forall A B (x : yres A) (k : A -> yst -> yres B),
    nosig x -> (forall a y, nosig (k a y)) -> nosig (ybind x k).
  Proof. intros A B x k Hx Hk. destruct x; cbn [ybind nosig] in *; auto. Qed.

  Lemma nosig_ylift_h : forall y r, nosig (ylift_h y r).
  Proof. intros y r. apply nosig_ylift_o. Qed.
  Lemma nosig_ylift_p : forall y r, nosig (ylift_p y r).
  Proof. intros y r. apply nosig_ylift_o. Qed.

  Lemma nosig_ycall : forall f fv vs y, nosig (ycall orc lit f fv vs y).
  Proof.
    intros f fv vs y. unfold ycall, ycall_g. destruct fv; try exact I.
    destruct (n <? zlength vs); [exact I|]. destruct (find_fun ip (y_funs y)) as [fe|]; [|exact I].
    destruct (negb (fe_n fe =? n)); [exact I|].
    destruct (Z.of_nat (length (fe_ps fe)) <? zlength vs); [exact I|].
    destruct (yblock_g _ _ _ _) as [v y3|y3|y3|v y3|e|x| |]; exact I.
  Qed.

  Lemma nosig_yfused : forall st name v op y, nosig (yfused orc st name v op y).
  Proof.
    intros. unfold yfused. destruct (resolve (c_symbols st) name); [|exact I].
    destruct (assoc operator_eqb op fused_table) as [opc|]; [|exact I].
    destruct (assoc opcode_eqb opc fused_dispatch); [apply nosig_ylift_h|exact I].
  Qed.

  Lemma nosig_ybinop : forall op a b y, nosig (ybinop orc op a b y).
  Proof.
    intros. unfold ybinop. destruct (is_fun a && is_fun b && is_eqop op); [exact I|].
    destruct (Sem.method_of op); [apply nosig_ylift_h|exact I].
  Qed.

  Lemma nosig_yfunction : forall name ps body st y, nosig (yfunction name ps body st y).
  Proof.
    intros. unfold yfunction. destruct (fun_st1 name st) as [st1 sym].
    destruct (c_block_statement body (fun_st3 ps st1)); exact I.
  Qed.

  (* where no stop / volgende of an enclosing loop may be written, none is reported *)
  Lemma yeval_nosig : forall fuel,
    (forall e fa fn st y, f4e false fa fn e = true -> nosig (yeval orc lit fuel st e y)) /\
    (forall c body fa fn st2 st4 last y, f4e false fa fn c = true -> nosig (ywhile orc lit fuel st2 st4 c body last y)) /\
    (forall l fa fn st last y, f4b false fa fn l = true -> nosig (ystmts orc lit fuel st l last y)).
  Proof.
    induction fuel as [|f [IHe [IHw IHs]]].
    - repeat split; intros; exact I.
    - assert (forall b fa fn st y, f4b false fa fn b = true -> nosig (yblock orc lit f st b y)) as IHb.
      { intros b fa fn st y Hb. unfold yblock, yblock_g. destruct (is_nil b); [|apply (IHs b fa fn); exact Hb].
        apply (IHs [] fa fn). reflexivity. }
      assert (forall args fa fn st y, f4es fa fn args = true -> nosig (yargs orc lit f st args y)) as IHa.
      { induction args as [|x r IHr]; intros fa fn st y Ha; [exact I|].
        rewrite ya_cons. rewrite f4es_cons in Ha. apply andb_prop in Ha. destruct Ha as [Hx Hr].
        apply nosig_ybind; [apply (IHe x fa fn); exact Hx|]. intros v y1.
        destruct (compile_expression x st); try exact I.
        apply nosig_ybind; [apply (IHr fa fn); exact Hr|]. intros; exact I. }
      split; [|split].
      + intros e fa fn st y HF. destruct e as [e1 o e2|o e1|z|fl|bb|c t alt|x|name ps body|fn_ args|e1 e2|str|vs|e1 e2|c body]; try discriminate HF; try exact I.
        * (* EInfix *) rewrite ye_infix. rewrite f4e_infix in HF.
          apply andb_prop in HF. destruct HF as [HF Hr]. apply andb_prop in HF. destruct HF as [_ Hl].
          assert (forall st0, nosig (ygeneric orc lit f e1 o e2 st0 y)) as Hg.
          { intros st0. unfold ygeneric. apply nosig_ybind; [apply (IHe e1 fa fn); exact Hl|]. intros a y1.
            destruct (compile_expression e1 st0); try exact I.
            apply nosig_ybind; [apply (IHe e2 fa fn); exact Hr|]. intros b y2. apply nosig_ybinop. }
          destruct (fused_candidate e1 e2 o) as [[[nm v] op']|]; [|apply Hg].
          destruct (compile_const_var_infix nm v op' st) as [st1 done]. destruct done; [apply nosig_yfused|apply Hg].
        * (* EPrefix *) rewrite ye_prefix. rewrite f4e_prefix in HF. apply andb_prop in HF. destruct HF as [_ Hr].
          apply nosig_ybind; [apply (IHe e1 fa fn); exact Hr|]. intros v y1.
          destruct o; try exact I; try apply nosig_ylift_h; apply nosig_ylift_p.
        * (* EFloat *) rewrite ye_float. apply lit_nosig.
        * (* EIf *) rewrite ye_if. rewrite f4e_if in HF.
          apply andb_prop in HF. destruct HF as [HF Ha]. apply andb_prop in HF. destruct HF as [Hc Ht].
          apply nosig_ybind; [apply (IHe c fa fn); exact Hc|]. intros b y1.
          destruct (compile_expression c st) as [st1| | |]; try exact I.
          destruct b as [|[|]| | | | |]; try exact I.
          -- apply (IHb t fn fn); exact Ht.
          -- destruct alt as [bl|]; [|exact I]. destruct (if_st5 st1 t); try exact I. apply (IHb bl fn fn); exact Ha.
        * (* EIdent *) rewrite ye_ident. destruct (resolve (c_symbols st) x); exact I.
        * (* EFunction *) rewrite ye_function. apply nosig_yfunction.
        * (* ECall *) rewrite ye_call. rewrite f4e_call in HF.
          apply andb_prop in HF. destruct HF as [Ha Hf].
          apply nosig_ybind; [apply (IHa args fa fn); exact Ha|]. intros vs y1.
          destruct (builtin_of fn_) as [b|] eqn:Eb; [apply nosig_ylift_o|].
          destruct (CompilerNames.compile_exprs args st); try exact I.
          assert (f4e false fa fn fn_ = true) as Hf'.
          { apply orb_prop in Hf. destruct Hf as [Hf|Hf]; [|exact Hf].
            destruct fn_; try discriminate Hf. cbn [is_builtin_callee] in Hf. unfold is_builtin_name in Hf.
            cbn [builtin_of] in Eb. rewrite Eb in Hf. discriminate Hf. }
          apply nosig_ybind; [apply (IHe fn_ fa fn); exact Hf'|]. intros fv y2. apply nosig_ycall.
        * (* EAssign *) cbn [f4e] in HF. destruct e1; try discriminate HF.
          -- rewrite ye_assign. destruct (resolve (c_symbols st) s); [|exact I].
             apply nosig_ybind; [apply (IHe e2 fa fn); exact HF|]. intros; exact I.
          -- rewrite ye_assign_index.
             apply andb_prop in HF. destruct HF as [HF H3]. apply andb_prop in HF. destruct HF as [H1 H2].
             apply nosig_ybind; [apply (IHe e1_1 fa fn); exact H1|]. intros a y1.
             destruct (compile_expression e1_1 st) as [st1| | |]; try exact I.
             apply nosig_ybind; [apply (IHe e1_2 fa fn); exact H2|]. intros ix y2.
             destruct (compile_expression e1_2 st1) as [st2| | |]; try exact I.
             apply nosig_ybind; [apply (IHe e2 fa fn); exact H3|]. intros v y3. apply nosig_ylift_o.
        * (* EString *) rewrite ye_string. apply lit_nosig.
        * (* EArray *) rewrite ye_array. rewrite f4e_array in HF.
          apply nosig_ybind; [apply (IHa vs fa fn); exact HF|]. intros xs y1. apply nosig_ylift_o.
        * (* EIndex *) rewrite ye_index. rewrite f4e_index in HF. apply andb_prop in HF. destruct HF as [H1 H2].
          apply nosig_ybind; [apply (IHe e1 fa fn); exact H1|]. intros a y1.
          destruct (compile_expression e1 st) as [st1| | |]; try exact I.
          apply nosig_ybind; [apply (IHe e2 fa fn); exact H2|]. intros ix y2. apply nosig_ylift_o.
        * (* EWhile *) rewrite ye_while. rewrite f4e_while in HF. apply andb_prop in HF. destruct HF as [Hc _].
          destruct (compile_expression c (wh_st2 st)); try exact I. apply (IHw c body fa fn); exact Hc.
      + intros c body fa fn st2 st4 last y Hc. rewrite yw_step.
        apply nosig_ybind; [apply (IHe c fa fn); exact Hc|]. intros b y1.
        destruct b as [|[|]| | | | |]; try exact I.
        destruct (yblock orc lit f st4 body y1) eqn:E; try exact I; apply (IHw c body fa fn); exact Hc.
      + intros l fa fn st last y HF. destruct l as [|s r]; [exact I|].
        rewrite f4b_cons in HF. apply andb_prop in HF. destruct HF as [Hs Hr].
        destruct s as [x e|e|e|b| |]; try discriminate Hs.
        * rewrite ys_let. destruct (define (c_symbols st) x) as [t sym].
          rewrite f4s_let in Hs. apply andb_prop in Hs. destruct Hs as [He _].
          apply nosig_ybind; [apply (IHe e fa fn); exact He|]. intros v y1.
          destruct (compile_statement (SLet x e) st); try exact I. apply (IHs r fa fn); exact Hr.
        * rewrite ys_return. rewrite f4s_return in Hs.
          apply nosig_ybind; [apply (IHe e fa fn); exact Hs|]. intros v y1. exact I.
        * rewrite ys_expr.
          assert (nosig (yeval orc lit f st e y)) as He.
          { destruct e as [e1 o e2|o e1|z|fl|bb|c t alt|x|name ps body|fn_ args|e1 e2|str|vs|e1 e2|c body];
              try (apply (IHe _ fa fn); exact Hs).
            destruct f as [|f']; [exact I|]. rewrite ye_function. apply nosig_yfunction. }
          apply nosig_ybind; [exact He|]. intros v y1.
          destruct (compile_statement (SExpr e) st); try exact I. apply (IHs r fa fn); exact Hr.
        * rewrite ys_block. rewrite f4s_block in Hs.
          apply nosig_ybind; [apply (IHb b fn fn); exact Hs|]. intros v y1.
          destruct (compile_statement (SBlock b) st); try exact I. apply (IHs r fa fn); exact Hr.
  Qed.

  Lemma yargs_nosig : forall f args fa fn st y, f4es fa fn args = true -> nosig (yargs orc lit f st args y).
  Proof.
    intros f. induction args as [|x r IHr]; intros fa fn st y Ha; [exact I|].
    rewrite ya_cons. rewrite f4es_cons in Ha. apply andb_prop in Ha. destruct Ha as [Hx Hr].
    apply nosig_ybind; [apply (proj1 (yeval_nosig f) x fa fn); exact Hx|]. intros v y1.
    destruct (compile_expression x st); try exact I.
    apply nosig_ybind; [apply (IHr fa fn); exact Hr|]. intros; exact I.
  Qed.

  (* a block that does not end in a value-leaving statement has the value null (if it has one) *)
  Lemma ystmts_no_pop_null : forall fuel l st last y v y',
    l <> [] -> ends_pop l = false -> ystmts orc lit fuel st l last y = YOk v y' -> v = VNull.
  Proof.
    induction fuel as [|f IH]; intros l st last y v y' Hne Hp H; [discriminate H|].
    destruct l as [|s r]; [contradiction|].
    destruct r as [|s' r'].
    - (* last statement *)
      cbn [ends_pop] in Hp. destruct s as [x e|e|e|b| |]; try discriminate Hp.
      + rewrite ys_let in H. destruct (define (c_symbols st) x) as [t sym].
        destruct (yeval orc lit f (set_symbols st t) e y) as [a y1| | | | | | |]; try discriminate H.
        cbn [ybind] in H. destruct (compile_statement (SLet x e) st); try discriminate H.
        destruct f; [discriminate H|]. rewrite ys_nil in H. inversion H; reflexivity.
      + rewrite ys_return in H. destruct (yeval orc lit f st e y) as [a y1| | | | | | |]; discriminate H.
      + rewrite ys_block in H. rewrite stmt_pop_block in Hp. destruct b as [|sb rb]; [discriminate Hp|].
        unfold yblock, yblock_g in H. cbn [is_nil] in H.
        destruct (ystmts orc lit f _ (sb :: rb) VNull y) as [a y1| | | | | | |] eqn:E; try discriminate H.
        cbn [ybind] in H. destruct (compile_statement (SBlock (sb :: rb)) st); try discriminate H.
        destruct f; [discriminate H|]. rewrite ys_nil in H. inversion H; subst.
        eapply (IH (sb :: rb)); [discriminate|exact Hp|exact E].
      + rewrite ys_break in H. discriminate H.
      + rewrite ys_continue in H. discriminate H.
    - assert (ends_pop (s' :: r') = false) as Hp' by exact Hp.
      destruct s as [x e|e|e|b| |].
      + rewrite ys_let in H. destruct (define (c_symbols st) x) as [t sym].
        destruct (yeval orc lit f (set_symbols st t) e y) as [a y1| | | | | | |]; try discriminate H.
        cbn [ybind] in H. destruct (compile_statement (SLet x e) st); try discriminate H.
        eapply (IH (s' :: r')); [discriminate|exact Hp'|exact H].
      + rewrite ys_return in H. destruct (yeval orc lit f st e y) as [a y1| | | | | | |]; discriminate H.
      + rewrite ys_expr in H. destruct (yeval orc lit f st e y) as [a y1| | | | | | |]; try discriminate H.
        cbn [ybind] in H. destruct (compile_statement (SExpr e) st); try discriminate H.
        eapply (IH (s' :: r')); [discriminate|exact Hp'|exact H].
      + rewrite ys_block in H. destruct (yblock orc lit f st b y) as [a y1| | | | | | |]; try discriminate H.
        cbn [ybind] in H. destruct (compile_statement (SBlock b) st); try discriminate H.
        eapply (IH (s' :: r')); [discriminate|exact Hp'|exact H].
      + rewrite ys_break in H. discriminate H.
      + rewrite ys_continue in H. discriminate H.
  Qed.

  (* a block that ends in `antwoord` has no value of its own *)
  Lemma ystmts_ends_ret : forall fuel l st last y v y',
    ends_ret l = true -> ystmts orc lit fuel st l last y <> YOk v y'.
  Proof.
    induction fuel as [|f IH]; intros l st last y v y' Hp H; [discriminate H|].
    destruct l as [|s r]; [discriminate Hp|].
    destruct r as [|s' r'].
    - cbn [ends_ret] in Hp. destruct s as [x e|e|e|b| |]; try discriminate Hp.
      + rewrite ys_return in H. destruct (yeval orc lit f st e y) as [a y1| | | | | | |]; discriminate H.
      + rewrite ys_block in H. rewrite stmt_ret_block in Hp. destruct b as [|sb rb]; [discriminate Hp|].
        unfold yblock, yblock_g in H. cbn [is_nil] in H.
        destruct (ystmts orc lit f _ (sb :: rb) VNull y) as [a y1| | | | | | |] eqn:E; try discriminate H.
        exact (IH (sb :: rb) _ VNull y a y1 Hp E).
    - assert (ends_ret (s' :: r') = true) as Hp' by exact Hp.
      destruct s as [x e|e|e|b| |].
      + rewrite ys_let in H. destruct (define (c_symbols st) x) as [t sym].
        destruct (yeval orc lit f (set_symbols st t) e y) as [a y1| | | | | | |]; try discriminate H.
        cbn [ybind] in H. destruct (compile_statement (SLet x e) st); try discriminate H.
        exact (IH (s' :: r') _ _ _ v y' Hp' H).
      + rewrite ys_return in H. destruct (yeval orc lit f st e y) as [a y1| | | | | | |]; discriminate H.
      + rewrite ys_expr in H. destruct (yeval orc lit f st e y) as [a y1| | | | | | |]; try discriminate H.
        cbn [ybind] in H. destruct (compile_statement (SExpr e) st); try discriminate H.
        exact (IH (s' :: r') _ _ _ v y' Hp' H).
      + rewrite ys_block in H. destruct (yblock orc lit f st b y) as [a y1| | | | | | |]; try discriminate H.
        cbn [ybind] in H. destruct (compile_statement (SBlock b) st); try discriminate H.
        exact (IH (s' :: r') _ _ _ v y' Hp' H).
      + rewrite ys_break in H. discriminate H.
      + rewrite ys_continue in H. discriminate H.
  Qed.

  (** ** The number of slots of the activation never changes *)

  Lemma yres_loc_bind : forall A B n (x : yres A) (k : A -> yst -> yres B),
    yres_loc n x -> (forall a y1, length (y_loc y1) = n -> yres_loc n (k a y1)) -> yres_loc n (ybind x k).
  Proof. intros A B n x k Hx Hk. destruct x; cbn [ybind yres_loc] in *; auto. Qed.

  Lemma y_set_loc_len : forall sy v y, length (y_loc (y_set sy v y)) = length (y_loc y).
  Proof. intros. unfold y_set. destruct (s_scope sy); cbn [y_loc]; [apply length_replace_nth|reflexivity]. Qed.

  Lemma yres_loc_lift_h : forall y r, yres_loc (length (y_loc y)) (ylift_h y r).
  Proof. intros y r. apply yres_loc_lift_o. Qed.
  Lemma yres_loc_lift_p : forall y r, yres_loc (length (y_loc y)) (ylift_p y r).
  Proof. intros y r. apply yres_loc_lift_o. Qed.

  Lemma yres_loc_ycall : forall f fv vs y, yres_loc (length (y_loc y)) (ycall orc lit f fv vs y).
  Proof.
    intros f fv vs y. unfold ycall, ycall_g. destruct fv; try exact I.
    destruct (n <? zlength vs); [exact I|]. destruct (find_fun ip (y_funs y)) as [fe|]; [|exact I].
    destruct (negb (fe_n fe =? n)); [exact I|].
    destruct (Z.of_nat (length (fe_ps fe)) <? zlength vs); [exact I|].
    destruct (yblock_g _ _ _ _) as [v y3|y3|y3|v y3|e|x| |]; try exact I; reflexivity.
  Qed.

  Lemma yres_loc_yfunction : forall name ps body st y,
    yres_loc (length (y_loc y)) (yfunction name ps body st y).
  Proof.
    intros. unfold yfunction. destruct (fun_st1 name st) as [st1 sym].
    destruct (c_block_statement body (fun_st3 ps st1)); try exact I. cbn [yres_loc].
    destruct sym; [rewrite y_set_loc_len|]; reflexivity.
  Qed.

  Lemma yeval_loc_len : forall fuel,
    (forall e st y, yres_loc (length (y_loc y)) (yeval orc lit fuel st e y)) /\
    (forall c body st2 st4 last y, yres_loc (length (y_loc y)) (ywhile orc lit fuel st2 st4 c body last y)) /\
    (forall l st last y, yres_loc (length (y_loc y)) (ystmts orc lit fuel st l last y)).
  Proof.
    induction fuel as [|f [IHe [IHw IHs]]].
    - repeat split; intros; exact I.
    - assert (forall b st y, yres_loc (length (y_loc y)) (yblock orc lit f st b y)) as IHb.
      { intros b st y. unfold yblock, yblock_g. destruct (is_nil b); apply IHs. }
      assert (forall args st y, yres_loc (length (y_loc y)) (yargs orc lit f st args y)) as IHa.
      { induction args as [|x r IHr]; intros st y; [reflexivity|].
        rewrite ya_cons. apply yres_loc_bind; [apply IHe|]. intros v y1 L1.
        destruct (compile_expression x st); try exact I.
        apply yres_loc_bind; [rewrite <- L1; apply IHr|]. intros vs y2 L2. exact L2. }
      split; [|split].
      + intros e st y. destruct e as [e1 o e2|o e1|z|fl|bb|c t alt|x|name ps body|fn_ args|e1 e2|str|vs|e1 e2|c body]; try exact I.
        * (* EInfix *) rewrite ye_infix.
          assert (forall st0, yres_loc (length (y_loc y)) (ygeneric orc lit f e1 o e2 st0 y)) as Hg.
          { intros st0. unfold ygeneric. apply yres_loc_bind; [apply IHe|]. intros a y1 L1.
            destruct (compile_expression e1 st0); try exact I.
            apply yres_loc_bind; [rewrite <- L1; apply IHe|]. intros b y2 L2.
            unfold ybinop. destruct (is_fun a && is_fun b && is_eqop o); [exact I|].
            destruct (Sem.method_of o); [rewrite <- L2; apply yres_loc_lift_h|exact I]. }
          destruct (fused_candidate e1 e2 o) as [[[nm v] op']|]; [|apply Hg].
          destruct (compile_const_var_infix nm v op' st) as [st1 done]. destruct done; [|apply Hg].
          unfold yfused. destruct (resolve (c_symbols st) nm); [|exact I].
          destruct (assoc operator_eqb op' fused_table) as [opc|]; [|exact I].
          destruct (assoc opcode_eqb opc fused_dispatch); [apply yres_loc_lift_h|exact I].
        * (* EPrefix *) rewrite ye_prefix. apply yres_loc_bind; [apply IHe|]. intros v y1 L1.
          destruct o; try exact I; rewrite <- L1; try apply yres_loc_lift_h; apply yres_loc_lift_p.
        * reflexivity.
        * (* EFloat *) rewrite ye_float. apply lit_loc.
        * reflexivity.
        * (* EIf *) rewrite ye_if. apply yres_loc_bind; [apply IHe|]. intros b y1 L1.
          destruct (compile_expression c st) as [st1| | |]; try exact I.
          destruct b as [|[|]| | | | |]; try exact I.
          -- rewrite <- L1. apply IHb.
          -- destruct alt as [bl|]; [|exact L1]. destruct (if_st5 st1 t); try exact I. rewrite <- L1. apply IHb.
        * (* EIdent *) rewrite ye_ident. destruct (resolve (c_symbols st) x); [reflexivity|exact I].
        * (* EFunction *) rewrite ye_function. apply yres_loc_yfunction.
        * (* ECall *) rewrite ye_call. apply yres_loc_bind; [apply IHa|]. intros vs y1 L1.
          destruct (builtin_of fn_); [rewrite <- L1; apply yres_loc_lift_o|].
          destruct (CompilerNames.compile_exprs args st); try exact I.
          apply yres_loc_bind; [rewrite <- L1; apply IHe|]. intros fv y2 L2. rewrite <- L2. apply yres_loc_ycall.
        * (* EAssign *) destruct e1; try exact I.
          -- rewrite ye_assign. destruct (resolve (c_symbols st) s); [|exact I].
             apply yres_loc_bind; [apply IHe|]. intros v y1 L1. cbn [yres_loc]. rewrite y_set_loc_len. exact L1.
          -- rewrite ye_assign_index. apply yres_loc_bind; [apply IHe|]. intros a y1 L1.
             destruct (compile_expression e1_1 st) as [st1| | |]; try exact I.
             apply yres_loc_bind; [rewrite <- L1; apply IHe|]. intros ix y2 L2.
             destruct (compile_expression e1_2 st1) as [st2| | |]; try exact I.
             apply yres_loc_bind; [rewrite <- L2; apply IHe|]. intros v y3 L3. rewrite <- L3. apply yres_loc_lift_o.
        * (* EString *) rewrite ye_string. apply lit_loc.
        * (* EArray *) rewrite ye_array. apply yres_loc_bind; [apply IHa|]. intros xs y1 L1.
          rewrite <- L1. apply yres_loc_lift_o.
        * (* EIndex *) rewrite ye_index. apply yres_loc_bind; [apply IHe|]. intros a y1 L1.
          destruct (compile_expression e1 st) as [st1| | |]; try exact I.
          apply yres_loc_bind; [rewrite <- L1; apply IHe|]. intros ix y2 L2. rewrite <- L2. apply yres_loc_lift_o.
        * (* EWhile *) rewrite ye_while. destruct (compile_expression c (wh_st2 st)); try exact I. apply IHw.
      + intros c body st2 st4 last y. rewrite yw_step.
        apply yres_loc_bind; [apply IHe|]. intros b y1 L1.
        destruct b as [|[|]| | | | |]; try exact I; [|exact L1].
        pose proof (IHb body st4 y1) as Hb. rewrite L1 in Hb.
        destruct (yblock orc lit f st4 body y1) as [v y2|y2|y2|v y2|e|x| |]; cbn [yres_loc] in Hb |- *; try exact Hb; try exact I.
        -- rewrite <- Hb. apply IHw.
        -- rewrite <- Hb. apply IHw.
      + intros l st last y. destruct l as [|s r]; [reflexivity|].
        destruct s as [x e|e|e|b| |].
        * rewrite ys_let. destruct (define (c_symbols st) x) as [t sym].
          apply yres_loc_bind; [apply IHe|]. intros v y1 L1.
          destruct (compile_statement (SLet x e) st); try exact I.
          rewrite <- L1, <- (y_set_loc_len sym v y1). apply IHs.
        * rewrite ys_return. apply yres_loc_bind; [apply IHe|]. intros v y1 L1. exact L1.
        * rewrite ys_expr. apply yres_loc_bind; [apply IHe|]. intros v y1 L1.
          destruct (compile_statement (SExpr e) st); try exact I. rewrite <- L1. apply IHs.
        * rewrite ys_block. apply yres_loc_bind; [apply IHb|]. intros v y1 L1.
          destruct (compile_statement (SBlock b) st); try exact I. rewrite <- L1. apply IHs.
        * reflexivity.
        * reflexivity.
  Qed.

  Lemma yargs_loc_len : forall f args st y, yres_loc (length (y_loc y)) (yargs orc lit f st args y).
  Proof.
    intros f. induction args as [|x r IHr]; intros st y; [reflexivity|].
    rewrite ya_cons. apply yres_loc_bind; [apply (proj1 (yeval_loc_len f))|]. intros v y1 L1.
    destruct (compile_expression x st); try exact I.
    apply yres_loc_bind; [rewrite <- L1; apply IHr|]. intros vs y2 L2. exact L2.
  Qed.

  Lemma yblock_loc_len : forall f b st y, yres_loc (length (y_loc y)) (yblock orc lit f st b y).
  Proof. intros. unfold yblock, yblock_g. destruct (is_nil b); apply (proj2 (proj2 (yeval_loc_len f))). Qed.
End YFacts.

(** * The heap of the evaluator only grows (any literal policy that grows; no fragment hypothesis) *)

Definition yn (y : yst) : Z := n_alloc (hs_heap (y_m y)).

Definition ygrow {A} (n0 : Z) (r : yres A) : Prop :=
  match r with
  | YOk _ y' | YBrk y' | YCnt y' | YRet _ y' => n0 <= yn y'
  | YErr _ m | YFault _ m | YExcl _ m => n0 <= n_alloc (hs_heap m)
  | YFuel => True
  end.

Lemma ygrow_weaken : forall A n0 n1 (r : yres A), n0 <= n1 -> ygrow n1 r -> ygrow n0 r.
Proof. intros A n0 n1 r H Hr. destruct r; cbn [ygrow] in *; try exact I; lia. Qed.

Lemma ygrow_bind : forall A B n0 (x : yres A) (k : A -> yst -> yres B),
  ygrow n0 x -> (forall a y1, ygrow (yn y1) (k a y1)) -> ygrow n0 (ybind x k).
Proof.
  intros A B n0 x k Hx Hk. destruct x as [a y1|y1|y1|v y1|e m|f m|o m|]; cbn [ybind ygrow] in *; try exact Hx.
  exact (ygrow_weaken _ _ _ _ Hx (Hk a y1)).
Qed.

(* the value-level functions of part H1 *)
Definition hgrow (m : hst) (r : outcome (val * hst)) : Prop :=
  match r with Ok x => n_alloc (hs_heap m) <= n_alloc (hs_heap (snd x)) | _ => True end.

Lemma ygrow_lift_o : forall y r, hgrow (y_m y) r -> ygrow (yn y) (ylift_o y r).
Proof.
  intros y r H. destruct r as [[v m]| | |]; cbn [ylift_o ygrow hgrow snd fst] in *; unfold yn, y_out; cbn [y_m]; try lia; exact I.
Qed.

Lemma hgrow_lift_h : forall m r, CompileCorrectH3.nalloc_le (hs_heap m) r -> hgrow m (lift_h m r).
Proof.
  intros m r H. destruct r as [[v h]| | |]; cbn [lift_h bind hgrow snd fst CompileCorrectH3.nalloc_le] in *; try exact I.
  unfold with_new_h. cbn [hs_heap]. exact H.
Qed.

Lemma hgrow_lift_p : forall m r, hgrow m (lift_p m r).
Proof. intros m r. destruct r; cbn [lift_p bind hgrow snd]; try exact I. lia. Qed.

Lemma hgrow_const : forall m v, hgrow m (h_const m v).
Proof.
  intros m v. unfold h_const. destruct v; try (cbn [hgrow snd]; lia).
  apply hgrow_lift_h. apply CompileCorrectH3.nalloc_le_bind. intros t. apply CompileCorrectH3.alloc_str_grows.
Qed.

Lemma hgrow_array : forall m vs, hgrow m (Ok (h_array m vs)).
Proof. intros m vs. unfold h_array. cbn [h_alloc hgrow snd hs_heap n_alloc]. lia. Qed.

Lemma hgrow_bind : forall A m (e : outcome A) k, (forall a, hgrow m (k a)) -> hgrow m (bind e k).
Proof. intros A m e k Hk. destruct e; cbn [bind hgrow]; try exact I. apply Hk. Qed.

Lemma hgrow_index_get : forall m a i, hgrow m (h_index_get m a i).
Proof.
  intros m a i. unfold h_index_get. destruct i; try exact I. destruct a; try exact I.
  - apply hgrow_bind. intros t. apply hgrow_bind. intros j. destruct (nth_error t (Z.to_nat j)); [|exact I].
    apply hgrow_lift_h. apply CompileCorrectH3.alloc_str_grows.
  - apply hgrow_bind. intros vs. apply hgrow_bind. intros j. destruct (nth_error vs (Z.to_nat j)); [|exact I].
    cbn [hgrow snd]. lia.
Qed.

Lemma hgrow_index_set : forall m a i v, hgrow m (h_index_set m a i v).
Proof.
  intros m a i v. unfold h_index_set. destruct i; try exact I. destruct a; try exact I.
  - apply hgrow_bind. intros t. apply hgrow_bind. intros j. destruct v; try exact I.
    apply hgrow_bind. intros repl.
    destruct (h_set (hs_heap m) l (OStr (firstn (Z.to_nat j) t ++ repl ++ skipn (S (Z.to_nat j)) t))) as [h'| | |] eqn:E;
      cbn [bind hgrow snd set_heap_h hs_heap]; try exact I. rewrite (CompileCorrectH4.h_set_nalloc _ _ _ _ E). lia.
  - apply hgrow_bind. intros vs. apply hgrow_bind. intros j.
    destruct (h_set (hs_heap m) l (OArr (replace_nth (Z.to_nat j) v vs))) as [h'| | |] eqn:E;
      cbn [bind hgrow snd set_heap_h hs_heap]; try exact I. rewrite (CompileCorrectH4.h_set_nalloc _ _ _ _ E). lia.
Qed.

Lemma hgrow_builtin : forall orc m b vs, hgrow m (h_builtin orc m b vs).
Proof.
  intros orc m b vs. unfold h_builtin. pose proof (CompileCorrectH3.call_builtin_grows orc b (hs_heap m) vs) as H.
  destruct (call_builtin orc b (hs_heap m) vs) as [[[v h] t]| | |]; cbn [bind hgrow snd fst add_out with_new_h hs_heap] in *;
    try exact I. exact H.
Qed.

Lemma yn_set : forall sy v y, yn (y_set sy v y) = yn y.
Proof. intros sy v y. unfold y_set, yn. destruct (s_scope sy); reflexivity. Qed.

Definition lit_grows (lit : const -> yst -> yres val) : Prop := forall k y, ygrow (yn y) (lit k y).

Lemma lit_pool_grows : forall pl0, lit_grows (lit_pool pl0).
Proof.
  intros pl0 k y. unfold lit_pool. destruct (pool_find k pl0); [|exact I]. apply ygrow_lift_o. apply hgrow_const.
Qed.

Lemma lit_fresh_grows : lit_grows lit_fresh.
Proof.
  intros k y. unfold lit_fresh. destruct k; try exact I; apply ygrow_lift_o; apply hgrow_lift_h.
  - apply CompileCorrectH3.alloc_float_grows.
  - apply CompileCorrectH3.alloc_str_grows.
Qed.

Section YGrows.
  Variable orc : oracle.
  Variable lit : const -> yst -> yres val.
  Hypothesis Hlit : lit_grows lit.

  Ltac yg := solve [cbn [ygrow]; unfold yn, y_out; cbn [y_m]; lia | exact I].

  Lemma ygrow_args : forall f, (forall st e y, ygrow (yn y) (yeval orc lit f st e y)) ->
    forall l st y, ygrow (yn y) (yargs orc lit f st l y).
  Proof.
    intros f IHe. induction l as [|x r IH]; intros st y; [rewrite ya_nil; yg|].
    rewrite ya_cons. apply ygrow_bind; [apply IHe|]. intros v y1.
    destruct (compile_expression x st); try exact I. apply ygrow_bind; [apply IH|]. intros vs y2. yg.
  Qed.

  Lemma ygrow_block : forall f, (forall st l last y, ygrow (yn y) (ystmts orc lit f st l last y)) ->
    forall st b y, ygrow (yn y) (yblock orc lit f st b y).
  Proof. intros f IHs st b y. unfold yblock, yblock_g. destruct (is_nil b); apply IHs. Qed.

  Lemma ygrow_call : forall f, (forall st l last y, ygrow (yn y) (ystmts orc lit f st l last y)) ->
    forall fv vs y, ygrow (yn y) (ycall orc lit f fv vs y).
  Proof.
    intros f IHs fv vs y. unfold ycall, ycall_g. destruct fv as [| | |fip fnn| | |]; try yg.
    destruct (fnn <? zlength vs); [yg|]. destruct (find_fun fip (y_funs y)) as [fe|]; [|exact I].
    destruct (negb (fe_n fe =? fnn)); [exact I|]. destruct (Z.of_nat (length (fe_ps fe)) <? zlength vs); [yg|].
    set (y0 := mkY (y_m y) (vs ++ repeat_val VNull (Z.to_nat (fnn - zlength vs))) (y_funs y)).
    pose proof (ygrow_block f IHs (fe_st fe) (fe_body fe) y0) as Hb. unfold yblock in Hb.
    destruct (yblock_g (ystmts orc lit f) (fe_st fe) (fe_body fe) y0); cbn [ygrow] in *; try exact I; exact Hb.
  Qed.

  Theorem yeval_grows : forall f,
    (forall st e y, ygrow (yn y) (yeval orc lit f st e y)) /\
    (forall st2 st4 c body last y, ygrow (yn y) (ywhile orc lit f st2 st4 c body last y)) /\
    (forall st l last y, ygrow (yn y) (ystmts orc lit f st l last y)).
  Proof.
    induction f as [|f [IHe [IHw IHs]]].
    - repeat split; intros; exact I.
    - split; [|split].
      + intros st e y.
        destruct e as [e1 o e2|o e|z|fl|bb|cnd t alt|s|n ps body|h args|e1 e2|str|vs|bs i|cnd body].
        * rewrite ye_infix.
          assert (forall st0, ygrow (yn y) (ygeneric orc lit f e1 o e2 st0 y)) as Hg.
          { intros st0. unfold ygeneric. apply ygrow_bind; [apply IHe|]. intros a y1.
            destruct (compile_expression e1 st0); try exact I. apply ygrow_bind; [apply IHe|]. intros b y2.
            unfold ybinop. destruct (is_fun a && is_fun b && is_eqop o); [yg|].
            destruct (Sem.method_of o); [|yg]. apply ygrow_lift_o. apply hgrow_lift_h. apply CompileCorrectH3.binop_grows. }
          destruct (fused_candidate e1 e2 o) as [[[name v] op']|]; [|apply Hg].
          destruct (compile_const_var_infix name v op' st) as [st1 done]. destruct done; [|apply Hg].
          unfold yfused. destruct (resolve (c_symbols st) name); [|exact I].
          destruct (assoc operator_eqb op' fused_table); [|exact I].
          destruct (assoc opcode_eqb o0 fused_dispatch); [|exact I].
          apply ygrow_lift_o. apply hgrow_lift_h. apply CompileCorrectH3.binop_grows.
        * rewrite ye_prefix. apply ygrow_bind; [apply IHe|]. intros v y1.
          destruct o; try yg; try (apply ygrow_lift_o; apply hgrow_lift_h; apply CompileCorrectH3.negate_grows).
          apply ygrow_lift_o. apply hgrow_lift_p.
        * rewrite ye_int. yg.
        * rewrite ye_float. apply Hlit.
        * rewrite ye_bool. yg.
        * rewrite ye_if. apply ygrow_bind; [apply IHe|]. intros b y1.
          destruct (compile_expression cnd st) as [st1| | |]; try exact I.
          destruct b as [|[|]| | | | |]; try yg.
          -- apply ygrow_block. exact IHs.
          -- destruct alt as [bl|]; [|yg]. destruct (if_st5 st1 t); try exact I. apply ygrow_block. exact IHs.
        * rewrite ye_ident. destruct (resolve (c_symbols st) s); yg.
        * rewrite ye_function. unfold yfunction. destruct (fun_st1 n st) as [st1 sym].
          destruct (c_block_statement body (fun_st3 ps st1)); try exact I.
          destruct sym; cbn [ygrow]; [rewrite yn_set|]; unfold yn; cbn [y_m]; lia.
        * rewrite ye_call. apply ygrow_bind; [apply ygrow_args; exact IHe|]. intros vs y1.
          destruct (builtin_of h); [apply ygrow_lift_o; apply hgrow_builtin|].
          destruct (CompilerNames.compile_exprs args st); try exact I.
          apply ygrow_bind; [apply IHe|]. intros fv y2. apply ygrow_call. exact IHs.
        * destruct e1 as [| | | | | |x| | | | | |bs i|]; try (cbn [yeval]; yg).
          -- rewrite ye_assign. destruct (resolve (c_symbols st) x); [|yg].
             apply ygrow_bind; [apply IHe|]. intros v y1. cbn [ygrow]. rewrite yn_set. lia.
          -- rewrite ye_assign_index. apply ygrow_bind; [apply IHe|]. intros a y1.
             destruct (compile_expression bs st) as [st1| | |]; try exact I. apply ygrow_bind; [apply IHe|]. intros ix y2.
             destruct (compile_expression i st1); try exact I. apply ygrow_bind; [apply IHe|]. intros v y3.
             apply ygrow_lift_o. apply hgrow_index_set.
        * rewrite ye_string. apply Hlit.
        * rewrite ye_array. apply ygrow_bind; [apply ygrow_args; exact IHe|]. intros xs y1.
          apply ygrow_lift_o. apply hgrow_array.
        * rewrite ye_index. apply ygrow_bind; [apply IHe|]. intros a y1.
          destruct (compile_expression bs st); try exact I. apply ygrow_bind; [apply IHe|]. intros ix y2.
          apply ygrow_lift_o. apply hgrow_index_get.
        * rewrite ye_while. destruct (compile_expression cnd (wh_st2 st)); try exact I. apply IHw.
      + intros st2 st4 c body last y. rewrite yw_step. apply ygrow_bind; [apply IHe|]. intros b y1.
        destruct b as [|[|]| | | | |]; try yg.
        pose proof (ygrow_block f IHs st4 body y1) as Hb.
        destruct (yblock orc lit f st4 body y1) as [v y2|y2|y2|v y2|e m|x m|o m|]; cbn [ygrow] in Hb |- *; try exact Hb.
        * exact (ygrow_weaken _ _ _ _ Hb (IHw st2 st4 c body v y2)).
        * exact (ygrow_weaken _ _ _ _ Hb (IHw st2 st4 c body VNull y2)).
      + intros st l last y. destruct l as [|s r]; [rewrite ys_nil; yg|].
        destruct s as [x e|e|e|b| |].
        * rewrite ys_let. destruct (define (c_symbols st) x) as [t sym].
          apply ygrow_bind; [apply IHe|]. intros v y1. destruct (compile_statement (SLet x e) st); try exact I.
          rewrite <- (yn_set sym v y1). apply IHs.
        * rewrite ys_return. apply ygrow_bind; [apply IHe|]. intros v y1. yg.
        * rewrite ys_expr. apply ygrow_bind; [apply IHe|]. intros v y1.
          destruct (compile_statement (SExpr e) st); try exact I. apply IHs.
        * rewrite ys_block. apply ygrow_bind; [apply ygrow_block; exact IHs|]. intros v y1.
          destruct (compile_statement (SBlock b) st); try exact I. apply IHs.
        * rewrite ys_break. yg.
        * rewrite ys_continue. yg.
  Qed.
End YGrows.

Section WithPool.
Variable pl : list (const * val).      (* the pool of the final program, with its run-time values *)

(* the environment of a piece of code inside the final program *)
Record env3 (prog : program) (st st' : cstate) (ce : list Z) (nb : list Z) (lexit : Z) : Prop := mkEnv3 {
  e3_code : code_x prog (code_len st) ce (brk_holes nb);
  e3_consts : consts_ok3 prog (c_constants st');
  e3_brk : brk_target prog nb lexit;
  e3_pool : pool_at prog pl (c_constants st');
  e3_wf : pool_wf pl
}.

Lemma env3_split : forall prog st st1 st2 c1 X nb1 nb2 lexit hi,
  code_len st1 = code_len st + zlength c1 ->
  brk_ok (code_len st) nb1 (code_len st1) -> brk_ok (code_len st1) nb2 hi ->
  cext3 st1 st2 ->
  env3 prog st st2 (c1 ++ X) (nb1 ++ nb2) lexit ->
  env3 prog st st1 c1 nb1 lexit /\ env3 prog st1 st2 X nb2 lexit.
Proof.
  intros prog st st1 st2 c1 X nb1 nb2 lexit hi Hlen B1 B2 HK [E1 E2 E3 E4 E5].
  apply code_x_app in E1. destruct E1 as [E1a E1b]. rewrite <- Hlen in E1b.
  destruct (brk_target_app _ _ _ _ E3) as [T1 T2].
  split; constructor.
  - apply (code_x_restrict prog _ c1 _ _ E1a). intros p Hp Hin.
    rewrite brk_holes_app in Hin. apply in_app_or in Hin. destruct Hin as [Hin|Hin]; [exact Hin|].
    pose proof (brk_holes_range _ _ _ _ B2 Hin) as R. lia.
  - exact (consts_ok3_ext prog _ _ HK E2).
  - exact T1.
  - exact (pool_at_cext prog pl _ _ HK E4).
  - exact E5.
  - apply (code_x_restrict prog _ X _ _ E1b). intros p Hp Hin.
    rewrite brk_holes_app in Hin. apply in_app_or in Hin. destruct Hin as [Hin|Hin]; [|exact Hin].
    pose proof (brk_holes_range _ _ _ _ B1 Hin) as R. lia.
  - exact E2.
  - exact T2.
  - exact E4.
  - exact E5.
Qed.

(* two consecutive pieces *)
Lemma env3_two : forall prog st st1 st2 pre sc k1 k2 outer cur1 cur2 ce1 ce2 nb1 nb2 lexit,
  cfacts3 st st1 pre sc k1 outer cur1 ce1 nb1 -> cfacts3 st1 st2 pre sc k2 outer cur2 ce2 nb2 ->
  env3 prog st st2 (ce1 ++ ce2) (nb1 ++ nb2) lexit ->
  env3 prog st st1 ce1 nb1 lexit /\ env3 prog st1 st2 ce2 nb2 lexit.
Proof.
  intros prog st st1 st2 pre sc k1 k2 outer cur1 cur2 ce1 ce2 nb1 nb2 lexit F1 F2 E.
  exact (env3_split prog st st1 st2 ce1 ce2 nb1 nb2 lexit _ (cfacts3_len _ _ _ _ _ _ _ _ _ F1)
           (cf3_brk _ _ _ _ _ _ _ _ _ F1) (cf3_brk _ _ _ _ _ _ _ _ _ F2) (cf3_consts _ _ _ _ _ _ _ _ _ F2) E).
Qed.

Lemma env3_in : forall prog st t st1 ce nb lexit,
  env3 prog st st1 ce nb lexit -> env3 prog (set_symbols st t) st1 ce nb lexit.
Proof. intros prog st t st1 ce nb lexit [E1 E2 E3 E4 E5]. constructor; assumption. Qed.

Lemma env3_out : forall prog st st1 t ce nb lexit,
  env3 prog st (set_symbols st1 t) ce nb lexit -> env3 prog st st1 ce nb lexit.
Proof. intros prog st st1 t ce nb lexit [E1 E2 E3 E4 E5]. constructor; assumption. Qed.

Lemma env3_consts_eq : forall prog st st1 st2 ce nb lexit, c_constants st2 = c_constants st1 ->
  env3 prog st st1 ce nb lexit -> env3 prog st st2 ce nb lexit.
Proof. intros prog st st1 st2 ce nb lexit H [E1 E2 E3 E4 E5]. constructor; try assumption; rewrite H; assumption. Qed.

(** * The table of evaluated function literals *)

(* the end of a function body: the trailing Pop becomes ReturnValue; an `antwoord` at the end needs
   nothing; otherwise Return *)
Definition epilogue (pop ret : bool) (ce : list Z) : list Z :=
  if pop then removelast ce ++ [byte_of_opcode OReturnValue]
  else if ret then ce else ce ++ [byte_of_opcode OReturn].

Record fentry_ok (prog : program) (fe : fentry) : Prop := mkFO {
  fo_pre : exists pre, pre_ok pre SLocal /\
             c_symbols (fe_st fe) = ltab pre SLocal (length (fe_ps fe)) [] (fe_ps fe);
  fo_loops : c_loops (fe_st fe) = [];
  fo_ip : fe_ip fe = code_len (fe_st fe);
  fo_f3 : f4b false true true (fe_body fe) = true;
  fo_body : exists st4 ce,
      c_block_statement (fe_body fe) (fe_st fe) = Ok st4 /\
      c_code st4 = c_code (fe_st fe) ++ ce /\
      fe_n fe = Z.of_nat (snd (leave_context (c_symbols st4))) /\ fe_n fe < 65536 /\
      consts_ok3 prog (c_constants st4) /\ pool_at prog pl (c_constants st4) /\ pool_wf pl /\
      code_x prog (fe_ip fe)
             (epilogue (last_instruction_is OPop st4) (last_instruction_is OReturnValue st4) ce) []
}.

Definition funs_ok (prog : program) (funs : list fentry) : Prop := Forall (fentry_ok prog) funs.

Lemma find_fun_ok : forall prog funs ip fe, funs_ok prog funs -> find_fun ip funs = Some fe ->
  fentry_ok prog fe /\ fe_ip fe = ip.
Proof.
  intros prog funs ip fe H. induction H as [|x l Hx Hl IH]; intros Hf; [discriminate Hf|].
  cbn [find_fun] in Hf. destruct (fe_ip x =? ip) eqn:E.
  - inversion Hf; subst. split; [exact Hx|apply Z.eqb_eq; exact E].
  - exact (IH Hf).
Qed.

Lemma funs_ok_snoc : forall prog funs fe, funs_ok prog funs -> fentry_ok prog fe -> funs_ok prog (funs ++ [fe]).
Proof. intros prog funs fe H1 H2. apply Forall_app. split; [exact H1|constructor; [exact H2|constructor]]. Qed.

(** * Simulation statements *)

Section Sim.
  Variable orc : oracle.

  Notation lit := (lit_pool pl).

  Ltac stop_mk :=
    unfold y_out;
    first [ match goal with |- stopsL _ _ ?s _ _ =>
              is_var s; eapply (stopsL_mk_eq _ _ _ _ _ _ _ _ _ s); [unfold s; reflexivity|] end
          | apply stopsL_mk ].

  (* the run reaches an excluded state: a stack / frame limit or == on two functions; or the call of
     the literal fe with argc arguments *)
  Definition xl (prog : program) (o : option (fentry * Z)) (m : hst) (s : vm) : Prop :=
    exclL orc prog (n_alloc (hs_heap m)) s \/
    match o with
    | Some (fe, argc) => overL orc prog (n_alloc (hs_heap m)) argc (fe_ip fe) (fe_n fe) s
    | None => False
    end.

  Lemma reachesL_xl : forall prog o m s1 s2, reachesL orc prog s1 s2 -> xl prog o m s2 -> xl prog o m s1.
  Proof.
    intros prog o m s1 s2 H [Hx|Hx].
    - left. exact (reachesL_excl orc prog _ _ _ H Hx).
    - destruct o as [[fe argc]|]; [|contradiction].
      destruct (reachesL_overL orc prog _ _ _ _ _ _ H Hx) as [A|A]; [right; exact A|left; exact A].
  Qed.

  (* what the machine does with the code of an expression, started in s = mk B tip ops y ip fin *)
  Definition sim2 (prog : program) (B : base) (s : vm) (ops : list val) (ip' lstart lexit : Z) (r : yres val) : Prop :=
    match r with
    | YOk v y' => exists fin' tip', reachesL orc prog s (mk B tip' (v :: ops) y' ip' fin') /\ funs_ok prog (y_funs y')
    | YBrk y' => exists fin' tip', reachesL orc prog s (mk B tip' (VNull :: ops) y' lexit fin') /\ funs_ok prog (y_funs y')
    | YCnt y' => exists fin' tip', reachesL orc prog s (mk B tip' (VNull :: ops) y' lstart fin') /\ funs_ok prog (y_funs y')
    | YRet v y' => forall ret cbp rest, b_rest B = mkFrame ret cbp :: rest ->
                   exists fin', reachesL orc prog s (ret_state B ret cbp rest v y' fin') /\ funs_ok prog (y_funs y')
    | YErr k out => stopsL orc prog s (Err k) out
    | YFault f out => stopsL orc prog s (Fault f) out
    | YExcl o m => xl prog o m s
    | YFuel => True
    end.

  (* statement lists, canonical form: if the list ends in a value-leaving statement, the machine is
     followed up to (not including) the trailing Pop, with the value on the stack *)
  Definition sim_l (prog : program) (B : base) (s : vm) (ops : list val) (pop : bool) (ipend lstart lexit : Z)
             (r : yres val) : Prop :=
    match r with
    | YOk v y' =>
        if pop then exists fin' tip', reachesL orc prog s (mk B tip' (v :: ops) y' (ipend - 1) fin') /\ funs_ok prog (y_funs y')
        else exists fin' tip', reachesL orc prog s (mk B tip' ops y' ipend fin') /\ funs_ok prog (y_funs y')
    | YBrk y' => exists fin' tip', reachesL orc prog s (mk B tip' (VNull :: ops) y' lexit fin') /\ funs_ok prog (y_funs y')
    | YCnt y' => exists fin' tip', reachesL orc prog s (mk B tip' (VNull :: ops) y' lstart fin') /\ funs_ok prog (y_funs y')
    | YRet v y' => forall ret cbp rest, b_rest B = mkFrame ret cbp :: rest ->
                   exists fin', reachesL orc prog s (ret_state B ret cbp rest v y' fin') /\ funs_ok prog (y_funs y')
    | YErr k out => stopsL orc prog s (Err k) out
    | YFault f out => stopsL orc prog s (Fault f) out
    | YExcl o m => xl prog o m s
    | YFuel => True
    end.

  (* the body of a function, started at its entry point in a fresh frame: it returns to the caller *)
  Definition body_res (prog : program) (B : base) (s : vm) (r : yres val) : Prop :=
    match r with
    | YOk v y3 => forall ret cbp rest, b_rest B = mkFrame ret cbp :: rest ->
                  exists fin', reachesL orc prog s (ret_state B ret cbp rest v y3 fin') /\ funs_ok prog (y_funs y3)
    | YRet v y3 => forall ret cbp rest, b_rest B = mkFrame ret cbp :: rest ->
                   exists fin', reachesL orc prog s (ret_state B ret cbp rest v y3 fin') /\ funs_ok prog (y_funs y3)
    | YBrk _ | YCnt _ => True
    | YErr k out => stopsL orc prog s (Err k) out
    | YFault f out => stopsL orc prog s (Fault f) out
    | YExcl o m => xl prog o m s
    | YFuel => True
    end.

  Definition CallOK (prog : program) (f : nat) : Prop :=
    forall fe, fentry_ok prog fe ->
    forall B tip y0 fin, funs_ok prog (y_funs y0) -> Z.of_nat (length (y_loc y0)) = fe_n fe ->
    body_res prog B (mk B tip [] y0 (fe_ip fe) fin) (yblock orc lit f (fe_st fe) (fe_body fe) y0).

  Definition callsok (prog : program) (fuel : nat) : Prop := forall f', (f' < fuel)%nat -> CallOK prog f'.

  Lemma callsok_S : forall prog f, callsok prog (S f) -> callsok prog f.
  Proof. intros prog f H f' Hlt. apply H. lia. Qed.

  (* the slots of the activation cover max_size of the function's context *)
  Definition loc_ok (sc : scope) (k' : nat) (y : yst) : Prop :=
    sc = SLocal -> (k' <= length (y_loc y))%nat /\ Z.of_nat (length (y_loc y)) < 65536.

  Lemma loc_ok_len : forall sc k y y1, length (y_loc y1) = length (y_loc y) -> loc_ok sc k y -> loc_ok sc k y1.
  Proof. intros sc k y y1 H L E. rewrite H. exact (L E). Qed.

  Lemma loc_ok_le : forall sc k k' y, (k <= k')%nat -> loc_ok sc k' y -> loc_ok sc k y.
  Proof. intros sc k k' y H L E. destruct (L E). split; lia. Qed.

  Definition esim (e : expr) : Prop :=
    forall lp fa fn st st' pre sc k outer cur, f4e lp fa fn e = true ->
    c_symbols st = ltab pre sc k outer cur -> pre_ok pre sc -> (length (flat outer cur) <= k)%nat ->
    compile_expression e st = Ok st' ->
    exists ce nb k', cfacts3 st st' pre sc k' outer cur ce nb /\ (k <= k')%nat /\
      forall prog lexit, env3 prog st st' ce nb lexit -> 0 <= lexit < 65536 ->
      0 <= cur_start (c_loops st) ->
      forall fuel, callsok prog fuel ->
      forall B tip ops y fin, funs_ok prog (y_funs y) -> loc_ok sc k' y ->
      sim2 prog B (mk B tip ops y (code_len st) fin) ops (code_len st') (cur_start (c_loops st)) lexit
           (yeval orc lit fuel st e y).

  (* the names a statement list declares in its own scope *)
  Fixpoint decl_names3 (l : list stmt) : list text :=
    match l with
    | [] => []
    | SLet x _ :: r => x :: decl_names3 r
    | SExpr (EFunction (c :: nm) _ _) :: r => (c :: nm) :: decl_names3 r
    | _ :: r => decl_names3 r
    end.

  Definition lconcl (l : list stmt) (st st' : cstate) (pre : list context) (sc : scope) (k' : nat)
             (outer : list (list text)) (cur : list text) (ce : list Z) (nb : list Z) : Prop :=
    cfacts3 st st' pre sc k' outer (cur ++ decl_names3 l) ce nb /\
    (l <> [] -> last_instruction_is OPop st' = ends_pop l) /\
    (l <> [] -> last_instruction_is OReturnValue st' = ends_ret l) /\
    (ends_pop l = true -> (exists ce', ce = ce' ++ [byte_of_opcode OPop]) /\
                          brk_ok (code_len st) nb (code_len st' - 1)) /\
    forall prog lexit, env3 prog st st' (canon (ends_pop l) ce) nb lexit -> 0 <= lexit < 65536 ->
    0 <= cur_start (c_loops st) ->
    forall fuel, callsok prog fuel ->
    forall B tip ops y fin last, funs_ok prog (y_funs y) -> loc_ok sc k' y ->
    sim_l prog B (mk B tip ops y (code_len st) fin) ops (ends_pop l) (code_len st') (cur_start (c_loops st)) lexit
          (ystmts orc lit fuel st l last y).

  Definition lsim (l : list stmt) : Prop :=
    forall lp fa fn st st' pre sc k outer cur, f4b lp fa fn l = true ->
    c_symbols st = ltab pre sc k outer cur -> pre_ok pre sc -> (length (flat outer cur) <= k)%nat ->
    compile_statements l st = Ok st' ->
    exists ce nb k', lconcl l st st' pre sc k' outer cur ce nb /\ (k <= k')%nat.

  (* the step property of one statement in front of a list *)
  Definition ssim (s0 : stmt) : Prop := forall r, lsim r -> lsim (s0 :: r).

  (** ** Small helpers *)

  (* results that end the evaluation of the enclosing construct whatever is pending *)
  Definition yexc {A} (r : yres A) : Prop :=
    match r with YOk _ _ | YBrk _ | YCnt _ => False | _ => True end.

  Lemma sim2_exc : forall prog B s sa ops opsa ip ipa ls le ls' le' (r : yres val),
    yexc r -> reachesL orc prog s sa ->
    sim2 prog B sa opsa ipa ls le r -> sim2 prog B s ops ip ls' le' r.
  Proof.
    intros prog B s sa ops opsa ip ipa ls le ls' le' r Hx Hr H.
    destruct r as [a y1|y1|y1|a y1|k0 o0|x0 o0|o0|]; cbn [yexc sim2] in *; try contradiction.
    - intros ret cbp rest Hb. destruct (H ret cbp rest Hb) as [fin' [R F]]. exists fin'.
      split; [exact (reachesL_trans orc prog _ _ _ Hr R)|exact F].
    - exact (reachesL_stopsL orc prog _ _ _ _ Hr H).
    - exact (reachesL_stopsL orc prog _ _ _ _ Hr H).
    - exact (reachesL_xl prog _ _ _ _ Hr H).
    - exact I.
  Qed.

  Lemma sim2_exc0 : forall prog B s ops opsa ip ipa ls le ls' le' (r : yres val),
    yexc r -> sim2 prog B s opsa ipa ls le r -> sim2 prog B s ops ip ls' le' r.
  Proof.
    intros prog B s ops opsa ip ipa ls le ls' le' r Hx H.
    exact (sim2_exc prog B s s ops opsa ip ipa ls le ls' le' r Hx (reachesL_refl orc prog s) H).
  Qed.

  (* one instruction that pushes the result of a value-level function *)
  Lemma sim2_res : forall prog B s tip1 ops0 ops y1 ip0 ip' fin1 ls le (r : outcome (val * hst)),
    reachesL orc prog s (mk B tip1 ops0 y1 ip0 fin1) ->
    step_ng orc prog (mk B tip1 ops0 y1 ip0 fin1) = mk_res B tip1 ops y1 ip' fin1 r ->
    funs_ok prog (y_funs y1) ->
    sim2 prog B s ops ip' ls le (ylift_o y1 r).
  Proof.
    intros prog B s tip1 ops0 ops y1 ip0 ip' fin1 ls le r Hr Hstep Hfo.
    destruct r as [[v m]| | |]; cbn [mk_res ylift_o sim2 fst snd y_funs] in *.
    - exists fin1, tip1. split; [|exact Hfo]. apply (reachesL_trans orc prog _ _ _ Hr). apply reachesL_step. exact Hstep.
    - refine (reachesL_stopsL orc _ _ _ _ _ Hr _). stop_mk. exact Hstep.
    - refine (reachesL_stopsL orc _ _ _ _ _ Hr _). stop_mk. exact Hstep.
    - exact I.
  Qed.

  Lemma holes_nil : forall off n, holes_free off n [].
  Proof. intros off n p _ []. Qed.

  Lemma emit_const_loops3 : forall k st st', emit_const k st = Ok st' -> c_loops st' = c_loops st.
  Proof.
    intros k st st' H. unfold emit_const in H. destruct (add_constant k st) as [st1 r] eqn:E.
    apply add_constant_loops in E. apply bind_ok in H. destruct H as [idx [_ H]]. inversion H; subst.
    cbn [emit_u16 emit_opcode c_loops]. exact E.
  Qed.

  (* a resolved local symbol: the current context is a function's, and the slot exists *)
  Lemma resolve_local : forall pre sc k outer cur x sy, pre_ok pre sc -> (length (flat outer cur) <= k)%nat ->
    resolve (ltab pre sc k outer cur) x = Some sy -> s_scope sy = SLocal -> sc = SLocal /\ (s_index sy < k)%nat.
  Proof.
    intros pre sc k outer cur x sy Hp Hk Hr Hs. split; [|exact (resolve_local_bound _ _ _ _ _ _ _ Hp Hk Hr Hs)].
    destruct (SymbolsProofs.resolve_found _ _ _ (wf_ltab _ _ _ _ _ Hp Hk) Hr) as (_ & H2 & _).
    rewrite Hs in H2. cbn [ScopeSpec.context_of_kind] in H2. unfold ltab in H2.
    rewrite SymbolsProofs.current_snoc in H2. exact H2.
  Qed.

  Lemma y_get_set_same : forall sy v y, (s_scope sy = SLocal -> (s_index sy < length (y_loc y))%nat) ->
    y_get sy (y_set sy v y) = v.
  Proof.
    intros sy v y H. unfold y_get, y_set. destruct (s_scope sy) eqn:E; cbn [y_m y_loc].
    - apply nth_replace_nth_same. exact (H eq_refl).
    - unfold set_global_h. cbn [hs_gl]. apply nth_set_global_same.
  Qed.

  (** ** Literals and variables *)

  Lemma esim_int : forall z, esim (EInt z).
  Proof.
    intros z lp fa fn st st' pre sc k outer cur HF Hs Hp Hw Hc. rewrite ce_int in Hc.
    pose proof (emit_const_loops3 _ _ _ Hc) as Hl.
    destruct (emit_const_k3 (KInt z) st st' (or_introl (ex_intro _ z eq_refl)) Hc) as [Hsy [_ [Hx [idx [Hcode [Hr Hn]]]]]].
    exists [byte_of_opcode OConst; idx mod 256; (idx / 256) mod 256], [], k.
    split; [|split; [lia|]].
    { constructor; try assumption.
      - congruence.
      - rewrite add_breaks_nil. exact Hl.
      - reflexivity.
      - cbn [brk_ok]. rewrite (code_len_app _ _ _ Hcode). rewrite zlength3. lia. }
    intros prog lexit [E1 E2 _ Epl Ewf] _ _ fuel HC B tip ops y fin Hfo Hloc. destruct fuel as [|f]; [exact I|].
    rewrite ye_int. cbn [sim2]. exists fin, tip. split; [|exact Hfo]. apply reachesL_step.
    pose proof (code_x_at3 _ _ _ _ _ _ _ E1 (holes_nil _ _)) as Hat.
    rewrite (mk_step_const_int orc prog B tip ops y (code_len st) fin idx z [] Hat Hr
               (E2 _ _ Hn (or_introl (ex_intro _ z eq_refl)))).
    rewrite (code_len_app _ _ _ Hcode), zlength3. reflexivity.
  Qed.

  Lemma esim_bool : forall b, esim (EBool b).
  Proof.
    intros b lp fa fn st st' pre sc k outer cur HF Hs Hp Hw Hc. rewrite ce_bool in Hc. inversion Hc; subst st'; clear Hc.
    exists [byte_of_opcode (if b then OTrue else OFalse)], [], k.
    split; [apply cfacts3_emit_opcode; assumption|]. split; [lia|].
    intros prog lexit [E1 E2 _ Epl Ewf] _ _ fuel HC B tip ops y fin Hfo Hloc. destruct fuel as [|f]; [exact I|].
    rewrite ye_bool. cbn [sim2]. exists fin, tip. split; [|exact Hfo]. apply reachesL_step.
    pose proof (code_x_at1 _ _ _ _ _ E1 (fun x => x)) as Hat.
    rewrite (mk_step_bool orc prog B tip ops y (code_len st) fin b [] Hat).
    rewrite code_len_emit_opcode. reflexivity.
  Qed.

  Lemma esim_ident : forall x, esim (EIdent x).
  Proof.
    intros x lp fa fn st st' pre sc k outer cur HF Hs Hp Hw Hc. rewrite ce_ident in Hc.
    destruct (resolve (c_symbols st) x) as [sy|] eqn:Er; [|discriminate Hc].
    destruct (cfacts3_emit_sym _ _ _ _ pre sc k outer cur Hs Hw Hc) as [Hr CF].
    pose proof (cfacts3_len _ _ _ _ _ _ _ _ _ CF) as Ln. rewrite zlength3 in Ln.
    eexists; exists [], k. split; [exact CF|]. split; [lia|].
    intros prog lexit [E1 E2 _ Epl Ewf] _ _ fuel HC B tip ops y fin Hfo Hloc. destruct fuel as [|f]; [exact I|].
    rewrite ye_ident, Er. cbn [sim2]. exists fin, tip. split; [|exact Hfo]. apply reachesL_step.
    pose proof (code_x_at3 _ _ _ _ _ _ _ E1 (holes_nil _ _)) as Hat. rewrite Ln.
    unfold scoped in Hat. unfold y_get. rewrite Hs in Er. destruct (s_scope sy) eqn:Es.
    - destruct (resolve_local _ _ _ _ _ _ _ Hp Hw Er Es) as [Esc Hlt]. destruct (Hloc Esc) as [Hk _].
      exact (mk_step_get_local orc prog B tip ops y (code_len st) fin (s_index sy) [] Hat Hr ltac:(lia)).
    - rewrite (mk_step_get_global orc prog B tip ops y (code_len st) fin _ [] Hat Hr). rewrite Nat2Z.id. reflexivity.
  Qed.

  (** ** Assignment, prefix and infix operators *)

  Ltac loclen f e st y E LL :=
    pose proof (proj1 (yeval_loc_len orc lit (yres_loc_lit_pool pl) f) e st y) as LL; rewrite E in LL; cbn [yres_loc] in LL.

  Ltac exc0 H := (eapply sim2_exc0; [exact I|exact H]).
  Ltac exc1 Hreach H := (eapply sim2_exc; [exact I|exact Hreach|exact H]).

  (* the machine reaches sa (Hreach) and fails there (Hstep) *)
  Ltac stops_via Hreach Hstep :=
    refine (reachesL_stopsL orc _ _ _ _ _ Hreach _); stop_mk; exact Hstep.

  Ltac nosig_contra f e fa fn st y HF E :=
    let N := fresh "N" in
    pose proof (proj1 (yeval_nosig orc lit (nosig_lit_pool pl) f) e fa fn st y HF) as N; rewrite E in N; destruct N.

  Lemma esim_assign : forall x r, esim r -> esim (EAssign (EIdent x) r).
  Proof.
    intros x r IHr lp fa fn st st' pre sc k outer cur HF Hs Hp Hw Hc. rewrite f4e_assign in HF.
    rewrite ce_assign_ident in Hc.
    destruct (resolve (c_symbols st) x) as [sy|] eqn:Er; [|discriminate Hc].
    apply bind_ok in Hc. destruct Hc as [st1 [H1 Hc]]. apply bind_ok in Hc. destruct Hc as [st2 [H2 H3]].
    destruct (IHr false fa fn st st1 pre sc k outer cur HF Hs Hp Hw H1) as [ce1 [nb1 [k1 [CF1 [Hk1 Hsim1]]]]].
    pose proof (cf3_syms _ _ _ _ _ _ _ _ _ CF1) as Hs1. pose proof (cf3_wf _ _ _ _ _ _ _ _ _ CF1) as Hw1.
    destruct (cfacts3_emit_sym _ _ _ _ pre sc k1 outer cur Hs1 Hw1 H2) as [Hr CF2].
    pose proof (cf3_syms _ _ _ _ _ _ _ _ _ CF2) as Hs2.
    destruct (cfacts3_emit_sym _ _ _ _ pre sc k1 outer cur Hs2 Hw1 H3) as [_ CF3].
    pose proof (cfacts3_trans _ _ _ _ _ _ _ _ _ _ _ _ _ _ CF2 CF3) as CF23.
    pose proof (cfacts3_trans _ _ _ _ _ _ _ _ _ _ _ _ _ _ CF1 CF23) as CF.
    eexists; eexists; exists k1. split; [exact CF|]. split; [exact Hk1|].
    intros prog lexit E Hle Hst fuel HC B tip ops y fin Hfo Hloc. destruct fuel as [|f]; [exact I|].
    rewrite ye_assign, Er.
    destruct (env3_two _ _ _ _ _ _ _ _ _ _ _ _ _ _ _ _ CF1 CF23 E) as [EL ER].
    destruct (env3_two _ _ _ _ _ _ _ _ _ _ _ _ _ _ _ _ CF2 CF3 ER) as [ER1 ER2].
    specialize (Hsim1 prog lexit EL Hle Hst f (callsok_S _ _ HC) B tip ops y fin Hfo Hloc).
    destruct (yeval orc lit f st r y) as [a y1|y1|y1|a y1|k0|x0| |] eqn:E1; cbn [ybind];
      try (nosig_contra f r fa fn st y HF E1); try (exc0 Hsim1).
    loclen f r st y E1 LL.
    cbn [sim2] in Hsim1. destruct Hsim1 as [fin1 [tip1 [Hsim1 Hfo1]]].
    cbn [sim2]. exists fin1, tip1. split.
    2:{ unfold y_set. destruct (s_scope sy); exact Hfo1. }
    apply (reachesL_trans orc prog _ _ _ Hsim1).
    destruct ER1 as [ERc1 _ _ _ _]. destruct ER2 as [ERc2 _ _ _ _]. cbn [brk_holes flat_map] in ERc1, ERc2.
    pose proof (cfacts3_len _ _ _ _ _ _ _ _ _ CF2) as L2. pose proof (cfacts3_len _ _ _ _ _ _ _ _ _ CF3) as L3.
    rewrite zlength3 in L2, L3.
    pose proof (code_x_at3 _ _ _ _ _ _ _ ERc1 (holes_nil _ _)) as Hat1.
    pose proof (code_x_at3 _ _ _ _ _ _ _ ERc2 (holes_nil _ _)) as Hat2.
    unfold scoped in Hat1, Hat2. rewrite Hs in Er.
    assert (s_scope sy = SLocal -> (s_index sy < length (y_loc y1))%nat) as Hidx.
    { intros Es. destruct (resolve_local _ _ _ _ _ _ _ Hp Hw Er Es) as [Esc Hlt]. destruct (Hloc Esc) as [Hk _]. lia. }
    set (y2 := y_set sy a y1).
    assert (step_ng orc prog (mk B tip1 (a :: ops) y1 (code_len st1) fin1)
            = Ok (Continue (mk B tip1 ops y2 (code_len st2) fin1))) as Hstep1.
    { unfold y2, y_set. rewrite L2. destruct (s_scope sy) eqn:Es.
      - exact (mk_step_set_local orc prog B tip1 ops y1 (code_len st1) fin1 (s_index sy) a [] Hat1 Hr (Hidx eq_refl)).
      - rewrite (mk_step_set_global orc prog B tip1 ops y1 (code_len st1) fin1 _ a [] Hat1 Hr).
        rewrite Nat2Z.id. reflexivity. }
    apply (reachesL_trans orc prog _ _ _ (reachesL_step orc prog _ _ Hstep1)).
    apply reachesL_step. rewrite L3.
    assert (y_get sy y2 = a) as Hget.
    { unfold y2. apply y_get_set_same. exact Hidx. }
    rewrite <- Hget at 1. unfold y_get. destruct (s_scope sy) eqn:Es.
    - apply (mk_step_get_local orc prog B tip1 ops y2 (code_len st2) fin1 (s_index sy) [] Hat2 Hr).
      unfold y2. rewrite y_set_loc_len. exact (Hidx eq_refl).
    - rewrite (mk_step_get_global orc prog B tip1 ops y2 (code_len st2) fin1 _ [] Hat2 Hr).
      rewrite Nat2Z.id. reflexivity.
  Qed.

  Lemma esim_prefix : forall op r, esim r -> esim (EPrefix op r).
  Proof.
    intros op r IHr lp fa fn st st' pre sc k outer cur HF Hs Hp Hw Hc. rewrite f4e_prefix in HF.
    apply andb_prop in HF. destruct HF as [Hop HF].
    rewrite ce_prefix in Hc. apply bind_ok in Hc. destruct Hc as [st1 [H1 Hc]].
    destruct (IHr false fa fn st st1 pre sc k outer cur HF Hs Hp Hw H1) as [ce1 [nb1 [k1 [CF1 [Hk1 Hsim1]]]]].
    pose proof (cf3_syms _ _ _ _ _ _ _ _ _ CF1) as Hs1. pose proof (cf3_wf _ _ _ _ _ _ _ _ _ CF1) as Hw1.
    assert (exists opc, st' = emit_opcode opc st1 /\
              ((opc = ONot /\ op = OpNot) \/ (opc = ONegate /\ (op = OpSubtract \/ op = OpNegate)))) as [opc [-> Hopc]].
    { destruct op; try discriminate Hop; inversion Hc; eexists; split; try reflexivity; tauto. }
    clear Hc. pose proof (cfacts3_emit_opcode opc st1 pre sc k1 outer cur Hs1 Hw1) as CF2.
    pose proof (cfacts3_trans _ _ _ _ _ _ _ _ _ _ _ _ _ _ CF1 CF2) as CF.
    eexists; eexists; exists k1. split; [exact CF|]. split; [exact Hk1|].
    intros prog lexit E Hle Hst fuel HC B tip ops y fin Hfo Hloc. destruct fuel as [|f]; [exact I|].
    rewrite ye_prefix.
    destruct (env3_two _ _ _ _ _ _ _ _ _ _ _ _ _ _ _ _ CF1 CF2 E) as [EL ER].
    specialize (Hsim1 prog lexit EL Hle Hst f (callsok_S _ _ HC) B tip ops y fin Hfo Hloc).
    destruct (yeval orc lit f st r y) as [a y1|y1|y1|a y1|k0|x0| |] eqn:E1; cbn [ybind];
      try (nosig_contra f r fa fn st y HF E1); try (exc0 Hsim1).
    cbn [sim2] in Hsim1. destruct Hsim1 as [fin1 [tip1 [Hsim1 Hfo1]]].
    set (sa := mk B tip1 (a :: ops) y1 (code_len st1) fin1) in *.
    destruct ER as [ERc _ _ _ _]. cbn [brk_holes flat_map] in ERc.
    pose proof (code_x_at1 _ _ _ _ _ ERc (fun x => x)) as Hat.
    pose proof (code_len_emit_opcode opc st1) as L3.
    destruct Hopc as [[-> ->]|[-> Hop2]].
    - pose proof (mk_step_not orc prog B tip1 ops y1 (code_len st1) fin1 a [] Hat) as Hstep.
      rewrite L3. exact (sim2_res prog B _ tip1 _ ops y1 _ _ fin1 _ _ _ Hsim1 Hstep Hfo1).
    - pose proof (mk_step_negate orc prog B tip1 ops y1 (code_len st1) fin1 a [] Hat) as Hstep.
      assert (match op with
              | OpNegate | OpSubtract => ylift_h y1 (negate (hs_heap (y_m y1)) a)
              | OpNot => ylift_p y1 (lognot a)
              | _ => YErr ETypeError (y_out y1)
              end = ylift_h y1 (negate (hs_heap (y_m y1)) a)) as ->.
      { destruct Hop2 as [-> | ->]; reflexivity. }
      rewrite L3. exact (sim2_res prog B _ tip1 _ ops y1 _ _ fin1 _ _ _ Hsim1 Hstep Hfo1).
  Qed.

  (** ** Binary operators: the generic code and the fused instruction *)

  Lemma eqop_opcode : forall op opc, is_eqop op = true ->
    assoc operator_eqb op compile_operator_table = Some opc -> opc = OEq \/ opc = ONeq.
  Proof.
    intros op opc Ho H. destruct op; try discriminate Ho; vm_compute in H; inversion H; auto.
  Qed.

  Lemma generic_infix_sim3 : forall l op r, esim l -> esim r -> is_binop op = true ->
    forall fa fn, f4e false fa fn l = true -> f4e false fa fn r = true ->
    forall st st' pre sc k outer cur, c_symbols st = ltab pre sc k outer cur -> pre_ok pre sc ->
    (length (flat outer cur) <= k)%nat ->
    generic_infix l op r st = Ok st' ->
    exists ce nb k', cfacts3 st st' pre sc k' outer cur ce nb /\ (k <= k')%nat /\
      forall prog lexit, env3 prog st st' ce nb lexit -> 0 <= lexit < 65536 ->
      0 <= cur_start (c_loops st) ->
      forall f, callsok prog f ->
      forall B tip ops y fin, funs_ok prog (y_funs y) -> loc_ok sc k' y ->
      sim2 prog B (mk B tip ops y (code_len st) fin) ops (code_len st') (cur_start (c_loops st)) lexit
           (ygeneric orc lit f l op r st y).
  Proof.
    intros l op r IHl IHr Hop fa fn Hl Hr st st' pre sc k outer cur Hs Hp Hw Hc. unfold generic_infix in Hc.
    apply bind_ok in Hc. destruct Hc as [st1 [H1 Hc]]. apply bind_ok in Hc. destruct Hc as [st2 [H2 Hc]].
    destruct (assoc operator_eqb op compile_operator_table) as [opc|] eqn:Eopc; [|discriminate Hc].
    inversion Hc; subst st'; clear Hc.
    destruct (binop_chain op opc Hop Eopc) as [mth [Hmth Hmeth]].
    destruct (IHl false fa fn st st1 pre sc k outer cur Hl Hs Hp Hw H1) as [ce1 [nb1 [k1 [CF1 [Hk1 Hsim1]]]]].
    pose proof (cf3_syms _ _ _ _ _ _ _ _ _ CF1) as Hs1. pose proof (cf3_wf _ _ _ _ _ _ _ _ _ CF1) as Hw1.
    destruct (IHr false fa fn st1 st2 pre sc k1 outer cur Hr Hs1 Hp Hw1 H2) as [ce2 [nb2 [k2 [CF2 [Hk2 Hsim2]]]]].
    pose proof (cf3_syms _ _ _ _ _ _ _ _ _ CF2) as Hs2. pose proof (cf3_wf _ _ _ _ _ _ _ _ _ CF2) as Hw2.
    pose proof (cfacts3_emit_opcode opc st2 pre sc k2 outer cur Hs2 Hw2) as CF3.
    pose proof (cfacts3_trans _ _ _ _ _ _ _ _ _ _ _ _ _ _ CF2 CF3) as CF23.
    pose proof (cfacts3_trans _ _ _ _ _ _ _ _ _ _ _ _ _ _ CF1 CF23) as CF.
    eexists; eexists; exists k2. split; [exact CF|]. split; [lia|].
    intros prog lexit E Hle Hst f HC B tip ops y fin Hfo Hloc. unfold ygeneric. rewrite H1.
    destruct (env3_two _ _ _ _ _ _ _ _ _ _ _ _ _ _ _ _ CF1 CF23 E) as [EL ER].
    destruct (env3_two _ _ _ _ _ _ _ _ _ _ _ _ _ _ _ _ CF2 CF3 ER) as [ERL ERR].
    specialize (Hsim1 prog lexit EL Hle Hst f HC B tip ops y fin Hfo (loc_ok_le _ _ _ _ Hk2 Hloc)).
    destruct (yeval orc lit f st l y) as [a y1|y1|y1|a y1|k0|x0| |] eqn:E1; cbn [ybind];
      try (nosig_contra f l fa fn st y Hl E1); try (exc0 Hsim1).
    loclen f l st y E1 LL1.
    cbn [sim2] in Hsim1. destruct Hsim1 as [fin1 [tip1 [Hsim1 Hfo1]]].
    set (sa := mk B tip1 (a :: ops) y1 (code_len st1) fin1) in *.
    assert (0 <= cur_start (c_loops st1)) as Hst1.
    { rewrite (cf3_loops _ _ _ _ _ _ _ _ _ CF1), cur_start_add. exact Hst. }
    specialize (Hsim2 prog lexit ERL Hle Hst1 f HC B tip1 (a :: ops) y1 fin1 Hfo1 (loc_ok_len _ _ _ _ LL1 Hloc)).
    rewrite (cf3_loops _ _ _ _ _ _ _ _ _ CF1), cur_start_add in Hsim2. fold sa in Hsim2.
    destruct (yeval orc lit f st1 r y1) as [b y2|y2|y2|b y2|k0|x0| |] eqn:E2; cbn [ybind];
      try (nosig_contra f r fa fn st1 y1 Hr E2);
      try (exc1 Hsim1 Hsim2).
    cbn [sim2] in Hsim2. destruct Hsim2 as [fin2 [tip2 [Hsim2 Hfo2]]].
    set (sb := mk B tip2 (b :: a :: ops) y2 (code_len st2) fin2) in *.
    destruct ERR as [ERc _ _ _ _]. cbn [brk_holes flat_map] in ERc.
    pose proof (code_x_at1 _ _ _ _ _ ERc (fun x => x)) as Hat.
    pose proof (code_len_emit_opcode opc st2) as L3.
    assert (reachesL orc prog (mk B tip ops y (code_len st) fin) sb) as Hsb
      by exact (reachesL_trans orc prog _ _ _ Hsim1 Hsim2).
    unfold ybinop. destruct (is_fun a && is_fun b && is_eqop op) eqn:Efe.
    - (* == / != on two function values: an excluded state *)
      cbn [sim2]. left. apply (reachesL_excl orc prog _ _ sb Hsb). apply (exclL_now orc prog sb). right.
      apply andb_prop in Efe. destruct Efe as [Efe Eo]. apply andb_prop in Efe. destruct Efe as [Fa Fb].
      destruct a as [| | |ia na| | |]; try discriminate Fa. destruct b as [| | |ib nb| | |]; try discriminate Fb.
      exists opc, ia, na, ib, nb, (ops ++ rev (y_loc y2) ++ b_below B).
      split; [exact (code_at_0 _ _ _ _ Hat)|]. split; [exact (eqop_opcode op opc Eo Eopc)|]. reflexivity.
    - rewrite Hmeth.
      pose proof (mk_step_binary orc prog B tip2 ops y2 (code_len st2) fin2 opc mth a b [] Hat Hmth) as Hstep.
      rewrite L3. exact (sim2_res prog B _ tip2 _ ops y2 _ _ fin2 _ _ _ Hsb Hstep Hfo2).
  Qed.

  Lemma const_var_infix3 : forall name v op st st1 done,
    compile_const_var_infix name v op st = (st1, done) ->
    c_symbols st1 = c_symbols st /\ c_loops st1 = c_loops st /\ cext3 st st1 /\
    ((done = true /\ exists sy opc idx,
        resolve (c_symbols st) name = Some sy /\ s_scope sy = SLocal /\
        assoc operator_eqb op fused_table = Some opc /\
        0 <= Z.of_nat (s_index sy) < 65536 /\ 0 <= idx < 65536 /\
        nth_error (c_constants st1) (Z.to_nat idx) = Some (KInt v) /\
        c_code st1 = c_code st ++ [byte_of_opcode opc; Z.of_nat (s_index sy) mod 256;
                                   (Z.of_nat (s_index sy) / 256) mod 256; idx mod 256; (idx / 256) mod 256])
     \/ (done = false /\ c_code st1 = c_code st)
     \/ (done = false /\ exists sy opc, resolve (c_symbols st) name = Some sy /\ s_scope sy = SLocal /\
           ~ (Z.of_nat (s_index sy) < 65536) /\ c_code st1 = c_code st ++ [byte_of_opcode opc])).
  Proof.
    intros name v op st st1 done H. unfold compile_const_var_infix in H.
    destruct (add_constant (KInt v) st) as [st0 r] eqn:E.
    destruct (add_constant_k3 (KInt v) st st0 r (or_introl (ex_intro _ v eq_refl)) E) as [Hs [Hc [Hl [_ [Hx Hi]]]]].
    assert (forall A B : Prop, A -> B -> A /\ B) as conj' by auto.
    destruct r as [idx| | |]; try (inversion H; subst; repeat (apply conj'; [assumption|]); right; left; auto; fail).
    destruct (resolve (c_symbols st0) name) as [sy|] eqn:Er;
      [|inversion H; subst; repeat (apply conj'; [assumption|]); right; left; auto].
    rewrite Hs in Er.
    destruct (s_scope sy) eqn:Es; [|inversion H; subst; repeat (apply conj'; [assumption|]); right; left; auto].
    destruct (assoc operator_eqb op fused_table) as [opc|] eqn:Eo;
      [|inversion H; subst; repeat (apply conj'; [assumption|]); right; left; auto].
    destruct (Hi idx eq_refl) as [Hr Hn].
    destruct (operand 16 (Z.of_nat (s_index sy))) as [i| | |] eqn:Ei.
    - apply operand16_ok in Ei; [|lia]. destruct Ei as [-> Ri]. inversion H; subst; clear H.
      cbn [emit_u16 emit_opcode c_symbols c_loops c_code c_constants].
      split; [exact Hs|]. split; [exact Hl|]. split; [exact Hx|]. left. split; [reflexivity|].
      exists sy, opc, idx. split; [exact Er|]. split; [exact Es|]. split; [reflexivity|]. split; [exact Ri|].
      split; [exact Hr|]. split; [exact Hn|]. rewrite Hc, <- !app_assoc. reflexivity.
    - inversion H; subst; clear H. cbn [emit_opcode c_symbols c_loops c_code c_constants].
      split; [exact Hs|]. split; [exact Hl|]. split; [exact Hx|]. right. right. split; [reflexivity|].
      exists sy, opc. split; [exact Er|]. split; [exact Es|]. split; [|rewrite Hc; reflexivity].
      unfold operand in Ei. change (2 ^ 16) with 65536 in Ei.
      destruct (Z.of_nat (s_index sy) <? 65536) eqn:El; [discriminate Ei|]. apply Z.ltb_ge in El. lia.
    - unfold operand in Ei. destruct (Z.of_nat (s_index sy) <? 2 ^ 16); discriminate Ei.
    - unfold operand in Ei. destruct (Z.of_nat (s_index sy) <? 2 ^ 16); discriminate Ei.
  Qed.

  Lemma fused_method : forall op opc, assoc operator_eqb op fused_table = Some opc ->
    exists m, assoc opcode_eqb opc fused_dispatch = Some m.
  Proof.
    intros op opc H. destruct op; vm_compute in H; try discriminate H; inversion H; subst;
      eexists; vm_compute; reflexivity.
  Qed.

  Lemma esim_infix : forall l op r, esim l -> esim r -> esim (EInfix l op r).
  Proof.
    intros l op r IHl IHr lp fa fn st st' pre sc k outer cur HF Hs Hp Hw Hc. rewrite f4e_infix in HF.
    apply andb_prop in HF. destruct HF as [HF Hr]. apply andb_prop in HF. destruct HF as [Hop Hl].
    rewrite ce_infix in Hc.
    destruct (fused_candidate l r op) as [[[name v] op']|] eqn:Ef.
    - destruct (compile_const_var_infix name v op' st) as [st0 done] eqn:Ec.
      destruct (const_var_infix3 _ _ _ _ _ _ Ec) as [Hs0 [Hl0 [Hx0 Hcases]]].
      destruct Hcases as [[-> [sy [opc [idx [Er [Es [Eo [Ri [Rx [Hn Hcode]]]]]]]]]]|[[-> Hcode]|[-> [sy [opc [Er [Es [Hbig Hcode]]]]]]]].
      + (* the fused instruction *)
        inversion Hc; subst st0; clear Hc.
        destruct (fused_method _ _ Eo) as [m Hm].
        eexists; exists [], k. split; [|split; [lia|]].
        { constructor; try eassumption.
          - congruence.
          - rewrite add_breaks_nil. exact Hl0.
          - reflexivity.
          - cbn [brk_ok]. rewrite (code_len_app _ _ _ Hcode). unfold zlength. cbn [length]. lia. }
        intros prog lexit [E1 E2 _ Epl Ewf] _ _ fuel HC B tip ops y fin Hfo Hloc. destruct fuel as [|f]; [exact I|].
        rewrite ye_infix, Ef, Ec. unfold yfused. rewrite Er, Eo, Hm.
        rewrite Hs in Er. destruct (resolve_local _ _ _ _ _ _ _ Hp Hw Er Es) as [Esc Hlt]. destruct (Hloc Esc) as [Hk _].
        cbn [brk_holes flat_map] in E1.
        pose proof (mk_step_fused orc prog B tip ops y (code_len st) fin opc m (s_index sy) idx (VInt v) []
                      (code_x_V _ _ _ E1) Hm Ri ltac:(lia) Rx (E2 _ _ Hn (or_introl (ex_intro _ v eq_refl)))) as Hstep.
        unfold y_get. rewrite Es. rewrite (code_len_app _ _ _ Hcode).
        exact (sim2_res prog B _ tip _ ops y _ _ fin _ _ _ (reachesL_refl orc prog _) Hstep Hfo).
      + (* the generic code, after the constant has been added *)
        assert (c_symbols st0 = ltab pre sc k outer cur) as Hs0' by congruence.
        destruct (generic_infix_sim3 l op r IHl IHr Hop fa fn Hl Hr st0 st' pre sc k outer cur Hs0' Hp Hw Hc)
          as [ce [nb [k' [CF [Hk Hsim]]]]].
        assert (code_len st0 = code_len st) as L0 by (unfold code_len; rewrite Hcode; reflexivity).
        exists ce, nb, k'. split.
        { destruct CF as [S W C K L N B]. constructor; try assumption.
          - rewrite C, Hcode. reflexivity.
          - exact (cext3_trans _ _ _ Hx0 K).
          - rewrite L, Hl0. reflexivity.
          - intros HN. apply N. rewrite Hl0. exact HN.
          - rewrite <- L0. exact B. }
        split; [exact Hk|].
        intros prog lexit [E1 E2 E3 Epl Ewf] Hle Hst fuel HC B tip ops y fin Hfo Hloc. destruct fuel as [|f]; [exact I|].
        rewrite ye_infix, Ef, Ec. rewrite <- L0, <- Hl0. apply Hsim; try assumption.
        * constructor; try assumption. rewrite L0. exact E1.
        * rewrite Hl0. exact Hst.
        * exact (callsok_S _ _ HC).
      + (* a local slot beyond 16 bits: impossible *)
        assert (c_symbols st0 = ltab pre sc k outer cur) as Hs0' by congruence.
        assert (cfacts3 st st0 pre sc k outer cur [byte_of_opcode opc] []) as CF0.
        { constructor; try assumption.
          - rewrite add_breaks_nil. exact Hl0.
          - reflexivity.
          - cbn [brk_ok]. rewrite (code_len_app _ _ _ Hcode). unfold zlength. cbn [length]. lia. }
        destruct (generic_infix_sim3 l op r IHl IHr Hop fa fn Hl Hr st0 st' pre sc k outer cur Hs0' Hp Hw Hc)
          as [ce [nb [k' [CF [Hk Hsim]]]]].
        eexists; eexists; exists k'. split; [exact (cfacts3_trans _ _ _ _ _ _ _ _ _ _ _ _ _ _ CF0 CF)|].
        split; [exact Hk|].
        intros prog lexit E Hle Hst fuel HC B tip ops y fin Hfo Hloc. exfalso.
        rewrite Hs in Er. destruct (resolve_local _ _ _ _ _ _ _ Hp Hw Er Es) as [Esc Hlt].
        destruct (Hloc Esc) as [Hk' Hn']. apply Hbig. lia.
    - destruct (generic_infix_sim3 l op r IHl IHr Hop fa fn Hl Hr st st' pre sc k outer cur Hs Hp Hw Hc)
        as [ce [nb [k' [CF [Hk Hsim]]]]].
      exists ce, nb, k'. split; [exact CF|]. split; [exact Hk|].
      intros prog lexit E Hle Hst fuel HC B tip ops y fin Hfo Hloc. destruct fuel as [|f]; [exact I|].
      rewrite ye_infix, Ef. exact (Hsim prog lexit E Hle Hst f (callsok_S _ _ HC) B tip ops y fin Hfo Hloc).
  Qed.

  (* shorthands with implicit arguments *)
  Definition cf_tr {st st1 st2 pre sc k1 k2 outer cur1 cur2 ce1 ce2 nb1 nb2} :=
    @cfacts3_trans st st1 st2 pre sc k1 k2 outer cur1 cur2 ce1 ce2 nb1 nb2.
  Definition cf_len {st st' pre sc k outer cur ce nb} := @cfacts3_len st st' pre sc k outer cur ce nb.
  Definition cf_sy {st st' pre sc k outer cur ce nb} := @cf3_syms st st' pre sc k outer cur ce nb.
  Definition cf_w {st st' pre sc k outer cur ce nb} := @cf3_wf st st' pre sc k outer cur ce nb.
  Definition cf_lp {st st' pre sc k outer cur ce nb} := @cf3_loops st st' pre sc k outer cur ce nb.
  Definition cf_bk {st st' pre sc k outer cur ce nb} := @cf3_brk st st' pre sc k outer cur ce nb.
  Definition cf_cx {st st' pre sc k outer cur ce nb} := @cf3_consts st st' pre sc k outer cur ce nb.
  Definition cf_cd {st st' pre sc k outer cur ce nb} := @cf3_code st st' pre sc k outer cur ce nb.
  Definition cf_nn {st st' pre sc k outer cur ce nb} := @cf3_nbnil st st' pre sc k outer cur ce nb.
  Definition env_two {prog st st1 st2 pre sc k1 k2 outer cur1 cur2 ce1 ce2 nb1 nb2 lexit} :=
    @env3_two prog st st1 st2 pre sc k1 k2 outer cur1 cur2 ce1 ce2 nb1 nb2 lexit.

  (** ** compile_block_value *)

  Lemma sim_l_sim2 : forall prog B s ops pop ipend ip' ls le (r : yres val),
    match r with YOk _ _ => False | _ => True end ->
    sim_l prog B s ops pop ipend ls le r -> sim2 prog B s ops ip' ls le r.
  Proof. intros prog B s ops pop ipend ip' ls le r Hr H. destruct r; try contradiction; exact H. Qed.

  Lemma bv_sim : forall b, lsim b ->
    forall lp fa fn st st' pre sc k outer cur, f4b lp fa fn b = true ->
    c_symbols st = ltab pre sc k outer cur -> pre_ok pre sc -> (length (flat outer cur) <= k)%nat ->
    c_block_value b st = Ok st' ->
    exists ce nb k', cfacts3 st st' pre sc k' outer cur ce nb /\ (k <= k')%nat /\
      forall prog lexit, env3 prog st st' ce nb lexit -> 0 <= lexit < 65536 ->
      0 <= cur_start (c_loops st) ->
      forall fuel, callsok prog fuel ->
      forall B tip ops y fin, funs_ok prog (y_funs y) -> loc_ok sc k' y ->
      sim2 prog B (mk B tip ops y (code_len st) fin) ops (code_len st') (cur_start (c_loops st)) lexit
           (yblock orc lit fuel st b y).
  Proof.
    intros b IHb lp fa fn st st' pre sc k outer cur HF Hs Hp Hw Hc. unfold c_block_value, c_block_statement in Hc.
    destruct b as [|s0 r].
    - (* the empty block: Null *)
      cbn [is_nil bind] in Hc. inversion Hc; subst st'; clear Hc.
      exists [byte_of_opcode ONull], [], k. split; [apply cfacts3_emit_opcode; assumption|]. split; [lia|].
      intros prog lexit [E1 _ _ Epl Ewf] _ _ fuel HC B tip ops y fin Hfo Hloc. unfold yblock, yblock_g. cbn [is_nil].
      destruct fuel as [|f]; [exact I|]. rewrite ys_nil. cbn [sim2]. exists fin, tip. split; [|exact Hfo].
      apply reachesL_step. pose proof (code_x_at1 _ _ _ _ _ E1 (fun x => x)) as Hat.
      rewrite (mk_step_null orc prog B tip ops y (code_len st) fin [] Hat). rewrite code_len_emit_opcode. reflexivity.
    - cbn [is_nil] in Hc. apply bind_ok in Hc. destruct Hc as [st1' [Hc1 Hc]].
      apply bind_ok in Hc1. destruct Hc1 as [st1 [Hc1 Hc1']]. inversion Hc1'; subst st1'; clear Hc1'.
      set (st0 := set_symbols st (enter_scope (c_symbols st))) in *.
      assert (c_symbols st0 = ltab pre sc k (outer ++ [cur]) []) as Hs0
        by (unfold st0; cbn [set_symbols c_symbols]; rewrite Hs; apply enter_ltab).
      assert (length (flat (outer ++ [cur]) []) <= k)%nat as Hw0 by (rewrite flat_enter; exact Hw).
      destruct (IHb lp fa fn st0 st1 pre sc k (outer ++ [cur]) [] HF Hs0 Hp Hw0 Hc1)
        as [ce [nb [k1 [[CFb [Hlast [_ [Hpop Hsim]]]] Hk1]]]].
      destruct CFb as [S1 W1 C1 K1 L1 N1 B1]. cbn [app] in S1.
      set (st1' := set_symbols st1 (leave_scope (c_symbols st1))) in *.
      assert (c_symbols st1' = ltab pre sc k1 outer cur) as Hs1'.
      { unfold st1'. cbn [set_symbols c_symbols]. rewrite S1. apply leave_ltab. }
      assert (length (flat outer cur) <= k1)%nat as Hw1 by lia.
      assert (last_instruction_is OPop st1' = ends_pop (s0 :: r)) as Hlast'.
      { rewrite <- Hlast by discriminate. reflexivity. }
      rewrite Hlast' in Hc.
      change (c_code st0) with (c_code st) in C1. change (c_loops st0) with (c_loops st) in L1, N1.
      change (code_len st0) with (code_len st) in B1.
      assert (cext3 st st1) as K1' by exact K1.
      destruct (ends_pop (s0 :: r)) eqn:Ep.
      + (* the trailing Pop is removed *)
        inversion Hc; subst st'; clear Hc.
        destruct (Hpop eq_refl) as [[ce' Hce'] Bp].
        assert (c_code st1' = (c_code st ++ ce') ++ [byte_of_opcode OPop]) as Hcode1.
        { unfold st1'. cbn [set_symbols c_code]. rewrite C1, Hce', app_assoc. reflexivity. }
        destruct (code_len_remove_last st1' _ Hcode1) as [Hcode' Hlen'].
        change (code_len st1') with (code_len st1) in Hlen'.
        change (code_len st0) with (code_len st) in Bp.
        exists ce', nb, k1. split; [|split; [exact Hk1|]].
        * constructor; try assumption. rewrite Hlen'. exact Bp.
        * intros prog lexit [E1 E2 E3 Epl Ewf] Hle Hst fuel HC B tip ops y fin Hfo Hloc.
          assert (env3 prog st0 st1 (canon true ce) nb lexit) as E0.
          { constructor; [|exact E2|exact E3|exact Epl|exact Ewf]. unfold canon. rewrite Hce', removelast_last. exact E1. }
          specialize (Hsim prog lexit E0 Hle Hst fuel HC B tip ops y fin VNull Hfo Hloc).
          unfold yblock, yblock_g. cbn [is_nil]. fold st0. rewrite Hlen'.
          change (code_len st0) with (code_len st) in Hsim. change (c_loops st0) with (c_loops st) in Hsim.
          destruct (ystmts orc lit fuel st0 (s0 :: r) VNull y); exact Hsim.
      + (* no value on the stack: Null *)
        inversion Hc; subst st'; clear Hc.
        assert (cfacts3 st st1' pre sc k1 outer cur ce nb) as CF1 by (constructor; assumption).
        pose proof (cfacts3_emit_opcode ONull st1' pre sc k1 outer cur Hs1' Hw1) as CF2.
        pose proof (cf_tr CF1 CF2) as CF.
        eexists; eexists; exists k1. split; [exact CF|]. split; [exact Hk1|].
        intros prog lexit E Hle Hst fuel HC B tip ops y fin Hfo Hloc.
        destruct (env_two CF1 CF2 E) as [[EL1 EL2 EL3 EL4 EL5] [ERc _ _ _ _]].
        assert (env3 prog st0 st1 (canon false ce) nb lexit) as E0 by (constructor; assumption).
        specialize (Hsim prog lexit E0 Hle Hst fuel HC B tip ops y fin VNull Hfo Hloc).
        unfold yblock, yblock_g. cbn [is_nil]. fold st0.
        change (code_len st0) with (code_len st) in Hsim. change (c_loops st0) with (c_loops st) in Hsim.
        destruct (ystmts orc lit fuel st0 (s0 :: r) VNull y) as [v y'|y'|y'|v y'|e|x| |] eqn:Ex;
          try exact Hsim.
        cbn [sim_l sim2] in *. destruct Hsim as [fin1 [tip1 [Hsim Hfo1]]].
        assert (v = VNull) as -> by (apply (ystmts_no_pop_null orc lit fuel (s0 :: r) _ _ _ _ _ ltac:(discriminate) Ep Ex)).
        exists fin1, tip1. split; [|exact Hfo1]. apply (reachesL_trans orc prog _ _ _ Hsim). apply reachesL_step.
        cbn [brk_holes flat_map] in ERc.
        pose proof (code_x_at1 _ _ _ _ _ ERc (fun x => x)) as Hat.
        change (code_len st1') with (code_len st1) in Hat.
        rewrite (mk_step_null orc prog B tip1 ops y' (code_len st1) fin1 [] Hat).
        rewrite code_len_emit_opcode. reflexivity.
  Qed.

  (** ** als *)

  Lemma operand16_cl : forall st t, operand 16 (code_len st) = Ok t -> t = code_len st /\ 0 <= t < 65536.
  Proof.
    intros st t H. destruct (operand16_ok _ _ (code_len_nonneg st) H) as [-> R]. split; [reflexivity|exact R].
  Qed.

  Lemma esim_if : forall c t alt, esim c -> lsim t ->
    match alt with Some b => lsim b | None => True end -> esim (EIf c t alt).
  Proof.
    intros c t alt IHc IHt IHa lp fa fn st st' pre sc k outer cur HF Hs Hp Hw Hc.
    rewrite f4e_if in HF. apply andb_prop in HF. destruct HF as [HF Hfa].
    apply andb_prop in HF. destruct HF as [Hfc Hft].
    rewrite ce_if in Hc. cbv zeta in Hc.
    apply bind_ok in Hc. destruct Hc as [st1 [H1 Hc]].
    apply bind_ok in Hc. destruct Hc as [st3 [H3 Hc]].
    apply bind_ok in Hc. destruct Hc as [t1 [Ht1 Hc]].
    apply bind_ok in Hc. destruct Hc as [st5 [H5 Hc]].
    apply bind_ok in Hc. destruct Hc as [st6 [H6 Hc]].
    apply bind_ok in Hc. destruct Hc as [t2 [Ht2 Hc]].
    (* the pieces *)
    destruct (IHc false fa fn st st1 pre sc k outer cur Hfc Hs Hp Hw H1) as [ce_c [nb_c [k1 [CF1 [Hk1 Hsimc]]]]].
    pose proof (cf_sy CF1) as Hs1. pose proof (cf_w CF1) as Hw1.
    change (emit_u16 JUMP_PLACEHOLDER (emit_opcode OJumpIfFalse st1)) with (if_st2 st1) in *.
    set (st2 := if_st2 st1) in *.
    pose proof (cfacts3_emit_u16op OJumpIfFalse JUMP_PLACEHOLDER st1 pre sc k1 outer cur Hs1 Hw1) as CF2.
    change (emit_u16 JUMP_PLACEHOLDER (emit_opcode OJumpIfFalse st1)) with st2 in CF2.
    assert (c_symbols st2 = ltab pre sc k1 outer cur) as Hs2 by exact Hs1.
    destruct (bv_sim t IHt lp fn fn st2 st3 pre sc k1 outer cur Hft Hs2 Hp Hw1 H3) as [ce_t [nb_t [k3 [CF3 [Hk3 Hsimt]]]]].
    pose proof (cf_sy CF3) as Hs3. pose proof (cf_w CF3) as Hw3.
    set (st4 := emit_u16 JUMP_PLACEHOLDER (emit_opcode OJump st3)) in *.
    pose proof (cfacts3_emit_u16op OJump JUMP_PLACEHOLDER st3 pre sc k3 outer cur Hs3 Hw3) as CF4. fold st4 in CF4.
    destruct (operand16_cl _ _ Ht1) as [-> Rt1].
    pose proof (cf_len CF1) as L1. pose proof (cf_len CF2) as L2.
    pose proof (cf_len CF3) as L3. pose proof (cf_len CF4) as L4.
    rewrite zlength3 in L2, L4.
    pose proof (cf_tr CF1 (cf_tr CF2 (cf_tr CF3 CF4))) as CF14.
    cbn [app] in CF14.
    assert (if_st5 st1 t = Ok st5) as Hif5.
    { unfold if_st5. fold st2. rewrite H3. cbn [bind]. fold st4. exact H5. }
    rewrite L1 in H5.
    destruct (cfacts3_patch_at _ _ _ _ _ _ _ _ _ _ _ _ _ _ (code_len st4) CF14 H5) as [CF15 [L5 [_ K5]]].
    pose proof (cf_sy CF15) as Hs5.
    (* the alternative *)
    assert (exists ce_a nb_a k6, cfacts3 st5 st6 pre sc k6 outer cur ce_a nb_a /\ (k3 <= k6)%nat /\
              forall prog lexit, env3 prog st5 st6 ce_a nb_a lexit -> 0 <= lexit < 65536 ->
              0 <= cur_start (c_loops st5) ->
              forall f, callsok prog f ->
              forall B tip ops y fin, funs_ok prog (y_funs y) -> loc_ok sc k6 y ->
              sim2 prog B (mk B tip ops y (code_len st5) fin) ops (code_len st6) (cur_start (c_loops st5)) lexit
                   (match alt with
                    | Some bl => yblock orc lit f st5 bl y
                    | None => YOk VNull y
                    end)) as [ce_a [nb_a [k6 [CF6 [Hk6 Hsima]]]]].
    { destruct alt as [bl|].
      - exact (bv_sim bl IHa lp fn fn st5 st6 pre sc k3 outer cur Hfa Hs5 Hp Hw3 H6).
      - inversion H6; subst st6. exists [byte_of_opcode ONull], [], k3.
        split; [exact (cfacts3_emit_opcode ONull st5 pre sc k3 outer cur Hs5 Hw3)|]. split; [lia|].
        intros prog lexit [E1 _ _ Epl Ewf] _ _ f HC B tip ops y fin Hfo Hloc. cbn [sim2]. exists fin, tip. split; [|exact Hfo].
        apply reachesL_step. pose proof (code_x_at1 _ _ _ _ _ E1 (fun x => x)) as Hat.
        rewrite (mk_step_null orc prog B tip ops y (code_len st5) fin [] Hat). rewrite code_len_emit_opcode. reflexivity. }
    clear H6.
    destruct (operand16_cl _ _ Ht2) as [-> Rt2].
    pose proof (cf_len CF6) as L6.
    pose proof (cf_tr CF15 CF6) as CF16.
    set (T1 := code_len st4) in *. set (T2 := code_len st6) in *.
    set (jif3 := [byte_of_opcode OJumpIfFalse; T1 mod 256; (T1 / 256) mod 256]).
    set (PHlo := JUMP_PLACEHOLDER mod 256) in *. set (PHhi := (JUMP_PLACEHOLDER / 256) mod 256) in *.
    assert ((ce_c ++ byte_of_opcode OJumpIfFalse :: T1 mod 256 :: (T1 / 256) mod 256
                   :: ce_t ++ [byte_of_opcode OJump; PHlo; PHhi]) ++ ce_a
            = (ce_c ++ jif3 ++ ce_t) ++ byte_of_opcode OJump :: PHlo :: PHhi :: ce_a) as Ereassoc.
    { unfold jif3. rewrite <- !app_assoc. cbn [app]. rewrite <- !app_assoc. reflexivity. }
    rewrite Ereassoc in CF16.
    assert (code_len st3 = code_len st + zlength (ce_c ++ jif3 ++ ce_t)) as Lpre.
    { rewrite !zlength_app. unfold jif3. rewrite zlength3. lia. }
    rewrite Lpre in Hc.
    destruct (cfacts3_patch_at _ _ _ _ _ _ _ _ _ _ _ _ _ _ T2 CF16 Hc) as [CF [L' [_ K']]].
    set (jmp3 := [byte_of_opcode OJump; T2 mod 256; (T2 / 256) mod 256]).
    assert ((ce_c ++ jif3 ++ ce_t) ++ byte_of_opcode OJump :: T2 mod 256 :: (T2 / 256) mod 256 :: ce_a
            = ce_c ++ jif3 ++ ce_t ++ jmp3 ++ ce_a) as Efinal.
    { unfold jmp3. rewrite <- !app_assoc. reflexivity. }
    exists (ce_c ++ jif3 ++ ce_t ++ jmp3 ++ ce_a), (nb_c ++ nb_t ++ nb_a), k6.
    assert (cfacts3 st st' pre sc k6 outer cur (ce_c ++ jif3 ++ ce_t ++ jmp3 ++ ce_a) (nb_c ++ nb_t ++ nb_a)) as CF'.
    { rewrite Efinal in CF. apply (cfacts3_eq _ _ _ _ _ _ _ _ _ _ _ CF); [reflexivity|].
      rewrite <- ?app_assoc; cbn [app]; rewrite <- ?app_assoc, ?app_nil_r; reflexivity. }
    clear CF. rename CF' into CF.
    split; [exact CF|]. split; [lia|].
    (* the run *)
    intros prog lexit E Hle Hst fuel HC B tip ops y fin Hfo Hloc. destruct fuel as [|f]; [exact I|].
    rewrite ye_if, H1. fold st2. pose proof (callsok_S _ _ HC) as HC'.
    (* loop contexts along the way *)
    pose proof (cf_lp CF1) as Lp1.
    assert (c_loops st2 = c_loops st1) as Lp2 by reflexivity.
    pose proof (cf_lp CF3) as Lp3.
    pose proof (cf_lp CF15) as Lp5.
    assert (cur_start (c_loops st2) = cur_start (c_loops st)) as Cs2 by (rewrite Lp2, Lp1; apply cur_start_add).
    assert (cur_start (c_loops st5) = cur_start (c_loops st)) as Cs5 by (rewrite Lp5; apply cur_start_add).
    (* constants *)
    assert (cext3 st6 st') as X6 by (apply cext3_eq; exact K').
    assert (cext3 st5 st') as X5 by (exact (cext3_trans _ _ _ (cf_cx CF6) X6)).
    assert (cext3 st3 st') as X3.
    { apply (cext3_trans _ st4); [exact (cf_cx CF4)|].
      apply (cext3_trans _ st5); [apply cext3_eq; exact K5|exact X5]. }
    assert (cext3 st2 st') as X2 by (exact (cext3_trans _ _ _ (cf_cx CF3) X3)).
    assert (cext3 st1 st') as X1 by (exact (cext3_trans _ _ _ (cf_cx CF2) X2)).
    (* pending stops *)
    pose proof (cf_bk CF1) as B1. pose proof (cf_bk CF3) as B3. pose proof (cf_bk CF6) as B6.
    assert (brk_ok (code_len st3) nb_a (code_len st6)) as B36 by (apply (brk_ok_widen _ _ _ _ _ B6); lia).
    assert (brk_ok (code_len st2) (nb_t ++ nb_a) (code_len st6)) as B26 by (exact (brk_ok_app _ _ _ _ _ B3 B36)).
    assert (brk_ok (code_len st1) (nb_t ++ nb_a) (code_len st6)) as B16 by (apply (brk_ok_widen _ _ _ _ _ B26); lia).
    (* the environments of the pieces *)
    cbn [app] in E.
    destruct (env3_split prog st st1 st' ce_c _ nb_c (nb_t ++ nb_a) lexit _ L1 B1 B16 X1 E) as [Ec E1].
    assert (code_len st2 = code_len st1 + zlength jif3) as L2' by (unfold jif3; rewrite zlength3; exact L2).
    destruct (env3_split prog st1 st2 st' jif3 _ [] (nb_t ++ nb_a) lexit _ L2'
                ltac:(cbn [brk_ok]; lia) B26 X2 E1) as [Ej E2].
    destruct (env3_split prog st2 st3 st' ce_t _ nb_t nb_a lexit _ L3 B3 B36 X3 E2) as [Et E3].
    assert (code_len st5 = code_len st3 + zlength jmp3) as L5' by (unfold jmp3; rewrite zlength3; lia).
    destruct (env3_split prog st3 st5 st' jmp3 _ [] nb_a lexit _ L5'
                ltac:(cbn [brk_ok]; lia) B6 X5 E3) as [Em E4].
    assert (env3 prog st5 st6 ce_a nb_a lexit) as Ea.
    { destruct E4 as [A1 A2 A3 A4 A5]. constructor; try assumption; rewrite <- K'; assumption. }
    assert (loc_ok sc k1 y) as Hloc1 by (apply (loc_ok_le _ _ k6); [lia|exact Hloc]).
    (* condition *)
    specialize (Hsimc prog lexit Ec Hle Hst f HC' B tip ops y fin Hfo Hloc1).
    destruct (yeval orc lit f st c y) as [b y1|y1|y1|b y1|k0|x0| |] eqn:E1c; cbn [ybind];
      try (nosig_contra f c fa fn st y Hfc E1c); try (exc0 Hsimc).
    loclen f c st y E1c LL1.
    cbn [sim2] in Hsimc. destruct Hsimc as [fin1 [tip1 [Hsimc Hfo1]]].
    set (sa := mk B tip1 (b :: ops) y1 (code_len st1) fin1) in *.
    destruct Ej as [Ejc _ _ _ _]. cbn [brk_holes flat_map] in Ejc.
    pose proof (code_x_at3 _ _ _ _ _ _ _ Ejc (holes_nil _ _)) as Hjif.
    pose proof (mk_step_jif orc prog B tip1 ops y1 (code_len st1) fin1 T1 b [] Hjif Rt1) as Hstepj. fold sa in Hstepj.
    destruct b as [|bb| | | | |]; try (cbn [sim2]; stops_via Hsimc Hstepj).
    destruct bb.
    - (* the consequence *)
      set (sb := mk B tip1 ops y1 (code_len st2) fin1).
      assert (reachesL orc prog (mk B tip ops y (code_len st) fin) sb) as Hsb.
      { apply (reachesL_trans orc prog _ sa _ Hsimc). apply reachesL_step. rewrite Hstepj. unfold sb. rewrite L2.
        reflexivity. }
      assert (0 <= cur_start (c_loops st2)) as Hst2 by (rewrite Cs2; exact Hst).
      specialize (Hsimt prog lexit Et Hle Hst2 f HC' B tip1 ops y1 fin1 Hfo1
                        (loc_ok_len _ _ _ _ LL1 (loc_ok_le sc k3 k6 y Hk6 Hloc))).
      rewrite Cs2 in Hsimt. fold sb in Hsimt.
      pose proof (yblock_loc_len orc lit (yres_loc_lit_pool pl) f t st2 y1) as LL2.
      destruct (yblock orc lit f st2 t y1) as [v y2|y2|y2|v y2|e|x| |]; try (exc1 Hsb Hsimt);
        cbn [sim2 yres_loc] in *.
      + destruct Hsimt as [fin2 [tip2 [Hsimt Hfo2]]].
        set (sc0 := mk B tip2 (v :: ops) y2 (code_len st3) fin2) in *.
        exists fin2, tip2. split; [|exact Hfo2].
        apply (reachesL_trans orc prog _ sb _ Hsb). apply (reachesL_trans orc prog sb sc0 _ Hsimt).
        destruct Em as [Emc _ _ _ _]. cbn [brk_holes flat_map] in Emc.
        pose proof (code_x_at3 _ _ _ _ _ _ _ Emc (holes_nil _ _)) as Hjmp.
        apply reachesL_step. unfold sc0. rewrite (mk_step_jump orc prog B tip2 (v :: ops) y2 (code_len st3) fin2 T2 [] Hjmp Rt2).
        rewrite L'. reflexivity.
      + destruct Hsimt as [fin2 [tip2 [Hsimt Hfo2]]]. exists fin2, tip2. split; [|exact Hfo2].
        exact (reachesL_trans orc prog _ sb _ Hsb Hsimt).
      + destruct Hsimt as [fin2 [tip2 [Hsimt Hfo2]]]. exists fin2, tip2. split; [|exact Hfo2].
        exact (reachesL_trans orc prog _ sb _ Hsb Hsimt).
    - (* the alternative *)
      set (sb := mk B tip1 ops y1 (code_len st5) fin1).
      assert (reachesL orc prog (mk B tip ops y (code_len st) fin) sb) as Hsb.
      { apply (reachesL_trans orc prog _ sa _ Hsimc). apply reachesL_step. rewrite Hstepj. unfold sb. rewrite L5.
        reflexivity. }
      assert (0 <= cur_start (c_loops st5)) as Hst5 by (rewrite Cs5; exact Hst).
      specialize (Hsima prog lexit Ea Hle Hst5 f HC' B tip1 ops y1 fin1 Hfo1 (loc_ok_len _ _ _ _ LL1 Hloc)).
      rewrite Cs5 in Hsima. fold sb in Hsima. rewrite L'.
      assert (match alt with
              | Some bl => match if_st5 st1 t with Ok st5 => yblock orc lit f st5 bl y1 | _ => YFuel end
              | None => YOk VNull y1
              end = match alt with Some bl => yblock orc lit f st5 bl y1 | None => YOk VNull y1 end) as ->.
      { rewrite Hif5. reflexivity. }
      destruct (match alt with
                | Some bl => yblock orc lit f st5 bl y1
                | None => YOk VNull y1
                end) as [v y2|y2|y2|v y2|e|x| |]; try (exc1 Hsb Hsima); cbn [sim2] in *;
        (destruct Hsima as [fin2 [tip2 [Hsima Hfo2]]]; exists fin2, tip2; split; [|exact Hfo2];
         exact (reachesL_trans orc prog _ sb _ Hsb Hsima)).
  Qed.

  (** ** From the canonical form to statement mode: the trailing Pop is executed *)

  Definition sim_full (prog : program) (B : base) (s : vm) (ops : list val) (pop : bool) (ipend lstart lexit : Z)
             (r : yres val) : Prop :=
    match r with
    | YOk v y' => exists fin' tip', reachesL orc prog s (mk B tip' ops y' ipend fin') /\ funs_ok prog (y_funs y')
                                    /\ (pop = true -> fin' = v)
    | YBrk y' => exists fin' tip', reachesL orc prog s (mk B tip' (VNull :: ops) y' lexit fin') /\ funs_ok prog (y_funs y')
    | YCnt y' => exists fin' tip', reachesL orc prog s (mk B tip' (VNull :: ops) y' lstart fin') /\ funs_ok prog (y_funs y')
    | YRet v y' => forall ret cbp rest, b_rest B = mkFrame ret cbp :: rest ->
                   exists fin', reachesL orc prog s (ret_state B ret cbp rest v y' fin') /\ funs_ok prog (y_funs y')
    | YErr k out => stopsL orc prog s (Err k) out
    | YFault f out => stopsL orc prog s (Fault f) out
    | YExcl o m => xl prog o m s
    | YFuel => True
    end.

  (* the canonical simulation of something that evaluates as R *)
  Definition gconcl (pop : bool) (R : nat -> yst -> yres val) (st st' : cstate) (sc : scope) (k' : nat)
             (ce nb : list Z) : Prop :=
    (pop = true -> (exists ce', ce = ce' ++ [byte_of_opcode OPop]) /\
                   brk_ok (code_len st) nb (code_len st' - 1)) /\
    forall prog lexit, env3 prog st st' (canon pop ce) nb lexit -> 0 <= lexit < 65536 ->
    0 <= cur_start (c_loops st) ->
    forall fuel, callsok prog fuel ->
    forall B tip ops y fin, funs_ok prog (y_funs y) -> loc_ok sc k' y ->
    sim_l prog B (mk B tip ops y (code_len st) fin) ops pop (code_len st') (cur_start (c_loops st)) lexit (R fuel y).

  Lemma stmt_mode_g : forall pop R st st' pre sc k outer cur ce nb, cfacts3 st st' pre sc k outer cur ce nb ->
    gconcl pop R st st' sc k ce nb ->
    forall prog lexit, env3 prog st st' ce nb lexit -> 0 <= lexit < 65536 ->
    0 <= cur_start (c_loops st) ->
    forall fuel, callsok prog fuel ->
    forall B tip ops y fin, funs_ok prog (y_funs y) -> loc_ok sc k y ->
    sim_full prog B (mk B tip ops y (code_len st) fin) ops pop (code_len st') (cur_start (c_loops st)) lexit (R fuel y).
  Proof.
    intros pop R st st' pre sc k outer cur ce nb CF [Hpop Hsim] prog lexit E Hle Hst fuel HC B tip ops y fin Hfo Hloc.
    destruct pop.
    - destruct (Hpop eq_refl) as [[ce' Hce'] Bp].
      pose proof (cf_cd CF) as Hcode. rewrite Hce', app_assoc in Hcode.
      destruct (code_len_remove_last st' _ Hcode) as [Hcm Hlm].
      set (stm := remove_last_instruction st') in *.
      assert (code_len stm = code_len st + zlength ce') as Hlen.
      { unfold code_len at 1. rewrite Hcm, zlength_app. reflexivity. }
      rewrite <- Hlm in Bp. rewrite <- (app_nil_r nb), Hce' in E.
      destruct (env3_split prog st stm st' ce' _ nb [] lexit (code_len st') Hlen Bp
                  ltac:(cbn [brk_ok]; lia) (cext3_eq stm st' eq_refl) E) as [Ec Ep'].
      assert (env3 prog st st' (canon true ce) nb lexit) as E0.
      { unfold canon. rewrite Hce', removelast_last. exact (env3_consts_eq _ _ stm st' _ _ _ eq_refl Ec). }
      specialize (Hsim prog lexit E0 Hle Hst fuel HC B tip ops y fin Hfo Hloc).
      destruct (R fuel y) as [v y'|y'|y'|v y'|e|x| |]; try exact Hsim.
      cbn [sim_l sim_full] in *. destruct Hsim as [fin1 [tip1 [Hsim Hfo1]]].
      exists v, tip1. split; [|split; [exact Hfo1|reflexivity]].
      apply (reachesL_trans orc prog _ _ _ Hsim). apply reachesL_step.
      destruct Ep' as [Epc _ _ _ _]. cbn [brk_holes flat_map] in Epc. rewrite Hlm in Epc.
      pose proof (code_x_at1 _ _ _ _ _ Epc (fun x => x)) as Hat.
      rewrite (mk_step_pop orc prog B tip1 ops y' (code_len st' - 1) fin1 v [] Hat).
      replace (code_len st' - 1 + 1) with (code_len st') by lia. reflexivity.
    - specialize (Hsim prog lexit E Hle Hst fuel HC B tip ops y fin Hfo Hloc).
      destruct (R fuel y) as [v y'|y'|y'|v y'|e|x| |]; try exact Hsim.
      cbn [sim_l sim_full] in *. destruct Hsim as [fin1 [tip1 [Hsim Hfo1]]]. exists fin1, tip1.
      split; [exact Hsim|]. split; [exact Hfo1|discriminate].
  Qed.

  (* a whole list in statement mode *)
  Lemma stmt_mode : forall l st st' pre sc k outer cur ce nb, lconcl l st st' pre sc k outer cur ce nb ->
    forall prog lexit, env3 prog st st' ce nb lexit -> 0 <= lexit < 65536 ->
    0 <= cur_start (c_loops st) ->
    forall fuel, callsok prog fuel ->
    forall B tip ops y fin last, funs_ok prog (y_funs y) -> loc_ok sc k y ->
    sim_full prog B (mk B tip ops y (code_len st) fin) ops (ends_pop l) (code_len st') (cur_start (c_loops st)) lexit
             (ystmts orc lit fuel st l last y).
  Proof.
    intros l st st' pre sc k outer cur ce nb [CF [_ [_ [Hpop Hsim]]]] prog lexit E Hle Hst fuel HC B tip ops y fin last Hfo Hloc.
    apply (stmt_mode_g (ends_pop l) (fun f y0 => ystmts orc lit f st l last y0) st st' pre sc k outer _ ce nb CF); try assumption.
    split; [exact Hpop|]. intros prog0 lexit0 E0 Hle0 Hst0 fuel0 HC0 B0 tip0 ops0 y0 fin0 Hfo0 Hloc0.
    exact (Hsim prog0 lexit0 E0 Hle0 Hst0 fuel0 HC0 B0 tip0 ops0 y0 fin0 last Hfo0 Hloc0).
  Qed.

  (** ** Statement lists *)

  Lemma lsim_nil : lsim [].
  Proof.
    intros lp fa fn st st' pre sc k outer cur HF Hs Hp Hw Hc. cbn [compile_statements] in Hc.
    inversion Hc; subst st'; clear Hc.
    exists [], [], k. split; [|lia].
    split; [|split; [intros N; contradiction|split; [intros N; contradiction|split; [intros N; discriminate N|]]]].
    - cbn [decl_names3]. rewrite app_nil_r. apply cfacts3_emit; auto. rewrite app_nil_r. reflexivity.
    - intros prog lexit _ _ _ fuel HC B tip ops y fin last Hfo Hloc. destruct fuel as [|f]; [exact I|]. rewrite ys_nil.
      cbn [ends_pop sim_l]. exists fin, tip. split; [apply reachesL_refl|exact Hfo].
  Qed.

  Lemma decl_names3_cons : forall s0 r, decl_names3 (s0 :: r) = decl_names3 [s0] ++ decl_names3 r.
  Proof.
    intros s0 r. destruct s0 as [x e|e|e|b| |]; try reflexivity.
    destruct e as [e1 o e2|o e1|z|fl|bb|c t alt|x|name ps body|fn_ args|e1 e2|str|vs|e1 e2|c body]; try reflexivity.
    destruct name; reflexivity.
  Qed.

  Lemma ends_pop_cons2 : forall s0 s1 r, ends_pop (s0 :: s1 :: r) = ends_pop (s1 :: r).
  Proof. reflexivity. Qed.
  Lemma ends_ret_cons2 : forall s0 s1 r, ends_ret (s0 :: s1 :: r) = ends_ret (s1 :: r).
  Proof. reflexivity. Qed.

  (** ** One statement in front of a list: the generic step *)

  Lemma cons_sim : forall s0 r ph Hd st st1 st' pre sc k1 outer cur ce_h nb_h lp fa fn,
    cfacts3 st st1 pre sc k1 outer (cur ++ decl_names3 [s0]) ce_h nb_h ->
    last_instruction_is OPop st1 = ph -> ph = stmt_pop s0 ->
    last_instruction_is OReturnValue st1 = stmt_ret s0 ->
    gconcl ph Hd st st1 sc k1 ce_h nb_h ->
    (forall f y, yres_loc (length (y_loc y)) (Hd f y)) ->
    (forall f last y, ystmts orc lit (S f) st (s0 :: r) last y =
                      ybind (Hd f y) (fun v y1 => ystmts orc lit f st1 r v y1)) ->
    lsim r -> f4b lp fa fn r = true -> pre_ok pre sc -> compile_statements r st1 = Ok st' ->
    exists ce nb k', lconcl (s0 :: r) st st' pre sc k' outer cur ce nb /\ (k1 <= k')%nat.
  Proof.
    intros s0 r ph Hd st st1 st' pre sc k1 outer cur ce_h nb_h lp fa fn CFh Hlast Hph Hret Gh HdL Heq IHr HFr Hp Hc.
    pose proof (cf_sy CFh) as Hs1. pose proof (cf_w CFh) as Hw1.
    destruct r as [|s1 r'].
    - (* the last statement: its canonical form is the list's *)
      cbn [compile_statements] in Hc. inversion Hc; subst st'; clear Hc.
      exists ce_h, nb_h, k1. split; [|lia]. destruct Gh as [Gpop Gsim].
      split; [|split; [|split; [|split]]].
      + rewrite decl_names3_cons. cbn [decl_names3]. rewrite app_nil_r. exact CFh.
      + intros _. cbn [ends_pop]. rewrite Hlast. exact Hph.
      + intros _. cbn [ends_ret]. exact Hret.
      + cbn [ends_pop]. rewrite <- Hph. exact Gpop.
      + intros prog lexit E Hle Hst fuel HC B tip ops y fin last Hfo Hloc. cbn [ends_pop] in *. rewrite <- Hph in *.
        destruct fuel as [|f]; [exact I|]. rewrite Heq.
        specialize (Gsim prog lexit E Hle Hst f (callsok_S _ _ HC) B tip ops y fin Hfo Hloc).
        destruct (Hd f y) as [v y1|y1|y1|v y1|e|x| |]; cbn [ybind]; try exact Gsim.
        destruct f as [|f']; [exact I|]. rewrite ys_nil. exact Gsim.
    - (* more statements follow: the head in statement mode, then the rest *)
      destruct (IHr lp fa fn st1 st' pre sc k1 outer (cur ++ decl_names3 [s0]) HFr Hs1 Hp Hw1 Hc)
        as [ce_r [nb_r [k' [Lr Hk']]]].
      pose proof Lr as [CFr [Hlastr [Hretr [Hpopr Hsimr]]]].
      exists (ce_h ++ ce_r), (nb_h ++ nb_r), k'. split; [|exact Hk'].
      pose proof (cf_tr CFh CFr) as CF.
      split; [|split; [|split; [|split]]].
      + rewrite decl_names3_cons, app_assoc. exact CF.
      + intros _. rewrite ends_pop_cons2. apply Hlastr. discriminate.
      + intros _. rewrite ends_ret_cons2. apply Hretr. discriminate.
      + rewrite ends_pop_cons2. intros Ep. destruct (Hpopr Ep) as [[ce' Hce'] Bp]. split.
        * exists (ce_h ++ ce'). rewrite Hce', app_assoc. reflexivity.
        * apply (brk_ok_app _ _ _ (code_len st1)); [exact (cf_bk CFh)|exact Bp].
      + intros prog lexit E Hle Hst fuel HC B tip ops y fin last Hfo Hloc. rewrite ends_pop_cons2 in *.
        assert (canon (ends_pop (s1 :: r')) (ce_h ++ ce_r) = ce_h ++ canon (ends_pop (s1 :: r')) ce_r) as Ecanon.
        { unfold canon. destruct (ends_pop (s1 :: r')) eqn:Ep; [|reflexivity].
          destruct (Hpopr eq_refl) as [[ce' Hce'] _]. apply removelast_app. rewrite Hce'.
          destruct ce'; discriminate. }
        rewrite Ecanon in E.
        destruct (env3_split prog st st1 st' ce_h _ nb_h nb_r lexit _ (cf_len CFh)
                    (cf_bk CFh) (cf_bk CFr) (cf_cx CFr) E) as [Eh Er].
        destruct fuel as [|f]; [exact I|]. rewrite Heq. pose proof (callsok_S _ _ HC) as HC'.
        pose proof (stmt_mode_g ph Hd st st1 pre sc k1 outer _ ce_h nb_h CFh Gh prog lexit Eh Hle Hst f HC'
                      B tip ops y fin Hfo (loc_ok_le _ _ _ _ Hk' Hloc)) as Hh.
        pose proof (HdL f y) as LLh.
        destruct (Hd f y) as [v y1|y1|y1|v y1|e|x| |]; cbn [ybind]; try exact Hh.
        cbn [sim_full yres_loc] in Hh, LLh. destruct Hh as [fin1 [tip1 [Hh [Hfo1 _]]]].
        set (sb := mk B tip1 ops y1 (code_len st1) fin1) in *.
        assert (0 <= cur_start (c_loops st1)) as Hst1.
        { rewrite (cf_lp CFh), cur_start_add. exact Hst. }
        specialize (Hsimr prog lexit Er Hle Hst1 f HC' B tip1 ops y1 fin1 v Hfo1 (loc_ok_len _ _ _ _ LLh Hloc)).
        rewrite (cf_lp CFh), cur_start_add in Hsimr. fold sb in Hsimr.
        destruct (ystmts orc lit f st1 (s1 :: r') v y1) as [v2 y2|y2|y2|v2 y2|e|x| |];
          cbn [sim_l] in *.
        * destruct (ends_pop (s1 :: r')); destruct Hsimr as [fin2 [tip2 [Hsimr Hfo2]]]; exists fin2, tip2;
            (split; [exact (reachesL_trans orc prog _ sb _ Hh Hsimr)|exact Hfo2]).
        * destruct Hsimr as [fin2 [tip2 [Hsimr Hfo2]]]; exists fin2, tip2;
            (split; [exact (reachesL_trans orc prog _ sb _ Hh Hsimr)|exact Hfo2]).
        * destruct Hsimr as [fin2 [tip2 [Hsimr Hfo2]]]; exists fin2, tip2;
            (split; [exact (reachesL_trans orc prog _ sb _ Hh Hsimr)|exact Hfo2]).
        * intros ret cbp rest Hb. destruct (Hsimr ret cbp rest Hb) as [fin2 [Hsimr2 Hfo2]]. exists fin2.
          split; [exact (reachesL_trans orc prog _ sb _ Hh Hsimr2)|exact Hfo2].
        * exact (reachesL_stopsL orc prog _ _ _ _ Hh Hsimr).
        * exact (reachesL_stopsL orc prog _ _ _ _ Hh Hsimr).
        * exact (reachesL_xl prog _ _ _ sb Hh Hsimr).
        * exact I.
  Qed.

  (** ** The kinds of statement *)

  Lemma emit_sym_last3 : forall op sy st st', emit_sym op sy st = Ok st' -> c_last st' = Some op.
  Proof.
    intros op sy st st' H. unfold emit_sym in H. apply bind_ok in H. destruct H as [idx [_ H]].
    inversion H; subst. reflexivity.
  Qed.

  Lemma last_is : forall op op' st, c_last st = Some op -> last_instruction_is op' st = opcode_eqb op op'.
  Proof. intros op op' st H. unfold last_instruction_is. rewrite H. reflexivity. Qed.

  Lemma ssim_expr : forall e, (forall c nm ps body, e <> EFunction (c :: nm) ps body) -> esim e -> ssim (SExpr e).
  Proof.
    intros e Hnn IHe r IHr lp fa fn st st' pre sc k outer cur HF Hs Hp Hw Hc.
    rewrite f4b_cons in HF. apply andb_prop in HF. destruct HF as [HFe HFr].
    rewrite (f4s_expr_other lp fa fn e Hnn) in HFe.
    cbn [compile_statements] in Hc. apply bind_ok in Hc. destruct Hc as [st2 [H2 Hc]].
    pose proof H2 as H2'. rewrite cs_expr in H2. apply bind_ok in H2. destruct H2 as [st1 [H1 H2]].
    inversion H2; subst st2; clear H2.
    destruct (IHe lp fa fn st st1 pre sc k outer cur HFe Hs Hp Hw H1) as [ce_e [nb_e [k1 [CFe [Hk1 Hsime]]]]].
    pose proof (cf_sy CFe) as Hs1. pose proof (cf_w CFe) as Hw1.
    pose proof (cfacts3_emit_opcode OPop st1 pre sc k1 outer cur Hs1 Hw1) as CFp.
    pose proof (cf_tr CFe CFp) as CFh. rewrite app_nil_r in CFh.
    assert (decl_names3 [SExpr e] = []) as Hdn.
    { destruct e as [e1 o e2|o e1|z|fl|bb|c t alt|x|name ps body|fn_ args|e1 e2|str|vs|e1 e2|c body]; try reflexivity.
      destruct name as [|c nm]; [reflexivity|]. exfalso. exact (Hnn c nm ps body eq_refl). }
    destruct (cons_sim (SExpr e) r true (fun f y => yeval orc lit f st e y)
                    st (emit_opcode OPop st1) st' pre sc k1 outer cur (ce_e ++ [byte_of_opcode OPop]) nb_e lp fa fn)
      as [ce [nb [k' [L Hk']]]]; try assumption; try reflexivity.
    - rewrite Hdn, app_nil_r. exact CFh.
    - split.
      + intros _. split; [exists ce_e; reflexivity|]. rewrite code_len_emit_opcode.
        replace (code_len st1 + 1 - 1) with (code_len st1) by lia. exact (cf_bk CFe).
      + intros prog lexit E Hle Hst fuel HC B tip ops y fin Hfo Hloc. unfold canon in E. rewrite removelast_last in E.
        assert (env3 prog st st1 ce_e nb_e lexit) as Ee.
        { destruct E as [A1 A2 A3 A4 A5]. constructor; assumption. }
        specialize (Hsime prog lexit Ee Hle Hst fuel HC B tip ops y fin Hfo Hloc). rewrite code_len_emit_opcode.
        destruct (yeval orc lit fuel st e y); try exact Hsime.
        cbn [sim_l sim2] in *. replace (code_len st1 + 1 - 1) with (code_len st1) by lia. exact Hsime.
    - intros f y. apply (proj1 (yeval_loc_len orc lit (yres_loc_lit_pool pl) f)).
    - intros f last y. rewrite ys_expr, H2'. reflexivity.
    - exists ce, nb, k'. split; [exact L|lia].
  Qed.

  Lemma ssim_let : forall x e, esim e -> ssim (SLet x e).
  Proof.
    intros x e IHe r IHr lp fa fn st st' pre sc k outer cur HF Hs Hp Hw Hc.
    rewrite f4b_cons in HF. apply andb_prop in HF. destruct HF as [HFe HFr]. rewrite f4s_let in HFe.
    apply andb_prop in HFe. destruct HFe as [HFe _].
    cbn [compile_statements] in Hc. apply bind_ok in Hc. destruct Hc as [st2 [H2 Hc]].
    pose proof H2 as H2'. rewrite cs_let, Hs, define_ltab in H2.
    set (st0 := set_symbols st (ltab pre sc (S k) outer (cur ++ [x]))) in *.
    set (sym := mkSymbol sc (length (flat outer cur))) in *.
    apply bind_ok in H2. destruct H2 as [st1 [H1 H2]].
    assert (length (flat outer (cur ++ [x])) <= S k)%nat as Hw0.
    { rewrite flat_snoc, app_length. cbn [length]. lia. }
    destruct (IHe false fa fn st0 st1 pre sc (S k) outer (cur ++ [x]) HFe eq_refl Hp Hw0 H1)
      as [ce_e [nb_e [k1 [CFe0 [Hk1 Hsime]]]]].
    pose proof (cfacts3_in _ _ _ _ _ _ _ _ _ _ CFe0) as CFe.
    pose proof (cf_sy CFe) as Hs1. pose proof (cf_w CFe) as Hw1.
    destruct (cfacts3_emit_sym _ _ _ _ pre sc k1 outer (cur ++ [x]) Hs1 Hw1 H2) as [Hr CFs].
    pose proof (cf_tr CFe CFs) as CFh. rewrite app_nil_r in CFh.
    destruct (cons_sim (SLet x e) r false
             (fun f y => ybind (yeval orc lit f st0 e y) (fun v y1 => YOk VNull (y_set sym v y1)))
             st st2 st' pre sc k1 outer cur _ nb_e lp fa fn CFh)
      as [ce [nb [k' [L Hk']]]]; try assumption; try reflexivity.
    - rewrite (last_is _ _ _ (emit_sym_last3 _ _ _ _ H2)). unfold scoped. destruct (s_scope sym); reflexivity.
    - rewrite (last_is _ _ _ (emit_sym_last3 _ _ _ _ H2)). unfold scoped. destruct (s_scope sym); reflexivity.
    - split; [intros N; discriminate N|].
      intros prog lexit E Hle Hst fuel HC B tip ops y fin Hfo Hloc. unfold canon in E.
      rewrite <- (app_nil_r nb_e) in E.
      destruct (env3_split prog st st1 st2 ce_e _ nb_e [] lexit (code_len st2) (cf_len CFe)
                  (cf_bk CFe) (cf_bk CFs) (cf_cx CFs) E) as [Ee Es].
      specialize (Hsime prog lexit (env3_in _ _ _ _ _ _ _ Ee) Hle Hst fuel HC B tip ops y fin Hfo Hloc).
      change (cur_start (c_loops st0)) with (cur_start (c_loops st)) in Hsime.
      change (code_len st0) with (code_len st) in Hsime.
      destruct (yeval orc lit fuel st0 e y) as [v y1|y1|y1|v y1|e1|x1| |] eqn:E1; cbn [ybind];
        try (nosig_contra fuel e fa fn st0 y HFe E1);
        try (exact (sim_l_sim2 _ _ _ _ false (code_len st2) (code_len st2) _ _ _ I Hsime)); try exact Hsime.
      loclen fuel e st0 y E1 LL.
      cbn [sim2 sim_l] in *. destruct Hsime as [fin1 [tip1 [Hsime Hfo1]]].
      exists fin1, tip1. split.
      2:{ unfold y_set. destruct (s_scope sym); exact Hfo1. }
      apply (reachesL_trans orc prog _ _ _ Hsime). apply reachesL_step.
      destruct Es as [Esc _ _ _ _]. cbn [brk_holes flat_map] in Esc.
      pose proof (code_x_at3 _ _ _ _ _ _ _ Esc (holes_nil _ _)) as Hat.
      pose proof (cf_len CFs) as Ls. rewrite zlength3 in Ls. rewrite Ls.
      unfold scoped in Hat. unfold y_set. destruct (s_scope sym) eqn:Es.
      + assert (sc = SLocal) as Esc' by exact Es. destruct (Hloc Esc') as [Hk _].
        apply (mk_step_set_local orc prog B tip1 ops y1 (code_len st1) fin1 (s_index sym) v [] Hat Hr).
        unfold sym. cbn [s_index]. lia.
      + rewrite (mk_step_set_global orc prog B tip1 ops y1 (code_len st1) fin1 _ v [] Hat Hr).
        rewrite Nat2Z.id. reflexivity.
    - intros f y. apply yres_loc_bind; [apply (proj1 (yeval_loc_len orc lit (yres_loc_lit_pool pl) f))|]. intros v y1 L1. cbn [yres_loc].
      rewrite y_set_loc_len. exact L1.
    - intros f last y. rewrite ys_let, Hs, define_ltab. fold st0 sym. rewrite H2'.
      destruct (yeval orc lit f st0 e y); reflexivity.
    - exists ce, nb, k'. split; [exact L|lia].
  Qed.

  Lemma ssim_break : ssim SBreak.
  Proof.
    intros r IHr lp fa fn st st' pre sc k outer cur HF Hs Hp Hw Hc.
    rewrite f4b_cons in HF. apply andb_prop in HF. destruct HF as [_ HFr].
    cbn [compile_statements] in Hc. apply bind_ok in Hc. destruct Hc as [st2 [H2 Hc]].
    pose proof (break_last _ _ H2) as Hlast.
    destruct (break_innermost _ _ H2) as [outer_l [ctx [Hl [Hl2 [Hcode [Hsy Hk]]]]]].
    set (ip := code_len st + 1) in *.
    assert (code_len st2 = code_len st + 4) as L2.
    { rewrite (code_len_app _ _ _ Hcode). reflexivity. }
    assert (cfacts3 st st2 pre sc k outer cur break_code [ip]) as CFh.
    { constructor.
      - congruence.
      - exact Hw.
      - exact Hcode.
      - apply cext3_eq. exact Hk.
      - rewrite Hl2, Hl, add_breaks_snoc. reflexivity.
      - intros N. rewrite N in Hl. destruct outer_l; discriminate Hl.
      - cbn [brk_ok]. unfold ip. lia. }
    destruct (cons_sim SBreak r false (fun f y => YBrk y) st st2 st' pre sc k outer cur break_code [ip] lp fa fn)
      as [ce [nb [k' [L Hk']]]]; try assumption; try reflexivity.
    - cbn [decl_names3]. rewrite app_nil_r. exact CFh.
    - rewrite (last_is _ _ _ Hlast). reflexivity.
    - rewrite (last_is _ _ _ Hlast). reflexivity.
    - split; [intros N; discriminate N|].
      intros prog lexit [E1 _ E3 Epl Ewf] Hle _ fuel HC B tip ops y fin Hfo Hloc. cbn [sim_l]. unfold canon in E1.
      destruct E1 as [E0 E1].
      assert (~ In (code_len st) (brk_holes [ip])) as Hn0.
      { cbn [brk_holes flat_map app In]. unfold ip. lia. }
      assert (~ In (code_len st + 1) (brk_holes [ip])) as Hn1.
      { cbn [brk_holes flat_map app In]. unfold ip. lia. }
      pose proof (E1 0%nat _ eq_refl) as B0. rewrite Z.add_0_r in B0. specialize (B0 Hn0).
      pose proof (E1 1%nat _ eq_refl Hn1) as B1. change (Z.of_nat 1) with 1 in B1.
      destruct (E3 ip (or_introl eq_refl)) as [B2 B3].
      exists fin, tip. split; [|exact Hfo].
      pose proof (mk_step_null orc prog B tip ops y (code_len st) fin [] (code_at_bytes1 _ _ _ B0)) as Hstep1.
      apply (reachesL_trans orc prog _ _ _ (reachesL_step orc prog _ _ Hstep1)).
      apply reachesL_step. fold ip. fold ip in B1.
      exact (mk_step_jump orc prog B tip (VNull :: ops) y ip fin lexit [] (code_at_bytes3 _ _ _ _ _ B1 B2 B3) Hle).
    - exists ce, nb, k'. split; [exact L|lia].
  Qed.

  Lemma ssim_continue : ssim SContinue.
  Proof.
    intros r IHr lp fa fn st st' pre sc k outer cur HF Hs Hp Hw Hc.
    rewrite f4b_cons in HF. apply andb_prop in HF. destruct HF as [_ HFr].
    cbn [compile_statements] in Hc. apply bind_ok in Hc. destruct Hc as [st2 [H2 Hc]].
    pose proof (continue_last _ _ H2) as Hlast.
    destruct (continue_innermost _ _ H2) as [outer_l [ctx [Hl [Hl2 [Hlt [Hcode [Hsy Hk]]]]]]].
    assert (cur_start (c_loops st) = l_start ctx) as Hcs by (rewrite Hl; apply cur_start_snoc).
    set (T := l_start ctx) in *.
    pose proof (cfacts3_emit st st2 pre sc k outer cur _ Hs Hw Hsy Hk Hl2 Hcode) as CFh.
    destruct (cons_sim SContinue r false (fun f y => YCnt y) st st2 st' pre sc k outer cur
             [byte_of_opcode ONull; byte_of_opcode OJump; T mod 256; (T / 256) mod 256] [] lp fa fn)
      as [ce [nb [k' [L Hk']]]]; try assumption; try reflexivity.
    - cbn [decl_names3]. rewrite app_nil_r. exact CFh.
    - rewrite (last_is _ _ _ Hlast). reflexivity.
    - rewrite (last_is _ _ _ Hlast). reflexivity.
    - split; [intros N; discriminate N|].
      intros prog lexit [E1 _ _ Epl Ewf] _ Hst fuel HC B tip ops y fin Hfo Hloc. cbn [sim_l]. unfold canon in E1.
      cbn [brk_holes flat_map] in E1.
      change [byte_of_opcode ONull; byte_of_opcode OJump; T mod 256; (T / 256) mod 256]
        with ([byte_of_opcode ONull] ++ [byte_of_opcode OJump; T mod 256; (T / 256) mod 256]) in E1.
      apply code_x_app in E1. destruct E1 as [Ea Eb].
      exists fin, tip. split; [|exact Hfo].
      pose proof (mk_step_null orc prog B tip ops y (code_len st) fin [] (code_x_at1 _ _ _ _ _ Ea (fun x => x))) as Hstep1.
      apply (reachesL_trans orc prog _ _ _ (reachesL_step orc prog _ _ Hstep1)).
      change (zlength [byte_of_opcode ONull]) with 1 in Eb.
      assert (0 <= T < 65536) as RT by (rewrite <- Hcs; change (2 ^ 16) with 65536 in Hlt; rewrite Hcs; lia).
      apply reachesL_step. rewrite Hcs.
      exact (mk_step_jump orc prog B tip (VNull :: ops) y (code_len st + 1) fin T []
               (code_x_at3 _ _ _ _ _ _ _ Eb (holes_nil _ _)) RT).
    - exists ce, nb, k'. split; [exact L|lia].
  Qed.

  Lemma ssim_block : forall b, lsim b -> ssim (SBlock b).
  Proof.
    intros b IHb r IHr lp fa fn st st' pre sc k outer cur HF Hs Hp Hw Hc.
    rewrite f4b_cons in HF. apply andb_prop in HF. destruct HF as [HFb HFr]. rewrite f4s_block in HFb.
    cbn [compile_statements] in Hc. apply bind_ok in Hc. destruct Hc as [st2 [H2 Hc]].
    pose proof H2 as H2'. rewrite cs_block in H2.
    destruct b as [|s0 b'].
    - (* the empty block: Null; Pop *)
      cbn [is_nil] in H2. inversion H2; subst st2; clear H2.
      pose proof (cfacts3_emit_opcode ONull st pre sc k outer cur Hs Hw) as CF1.
      pose proof (cfacts3_emit_opcode OPop (emit_opcode ONull st) pre sc k outer cur Hs Hw) as CF2.
      pose proof (cf_tr CF1 CF2) as CFh. cbn [app] in CFh.
      destruct (cons_sim (SBlock []) r true (fun f y => yblock orc lit f st [] y)
               st (emit_opcode OPop (emit_opcode ONull st)) st' pre sc k outer cur
               [byte_of_opcode ONull; byte_of_opcode OPop] [] lp fa fn)
        as [ce [nb [k' [L Hk']]]]; try assumption; try reflexivity.
      + cbn [decl_names3]. rewrite app_nil_r. exact CFh.
      + split.
        * intros _. split; [exists [byte_of_opcode ONull]; reflexivity|]. cbn [brk_ok].
          rewrite !code_len_emit_opcode. lia.
        * intros prog lexit [E1 _ _ Epl Ewf] _ _ fuel HC B tip ops y fin Hfo Hloc. unfold yblock, yblock_g. cbn [is_nil].
          destruct fuel as [|f]; [exact I|]. rewrite ys_nil.
          cbn [sim_l]. unfold canon in E1. cbn [removelast brk_holes flat_map] in E1.
          exists fin, tip. split; [|exact Hfo]. apply reachesL_step.
          rewrite (mk_step_null orc prog B tip ops y (code_len st) fin [] (code_x_at1 _ _ _ _ _ E1 (fun x => x))).
          rewrite !code_len_emit_opcode. replace (code_len st + 1 + 1 - 1) with (code_len st + 1) by lia. reflexivity.
      + intros f y. apply (yblock_loc_len orc lit (yres_loc_lit_pool pl)).
      + exists ce, nb, k'. split; [exact L|lia].
    - cbn [is_nil] in H2. apply bind_ok in H2. destruct H2 as [st1 [H1 H2]]. inversion H2; subst st2; clear H2.
      set (st0 := set_symbols st (enter_scope (c_symbols st))) in *.
      assert (c_symbols st0 = ltab pre sc k (outer ++ [cur]) []) as Hs0
        by (unfold st0; cbn [set_symbols c_symbols]; rewrite Hs; apply enter_ltab).
      assert (length (flat (outer ++ [cur]) []) <= k)%nat as Hw0 by (rewrite flat_enter; exact Hw).
      destruct (IHb lp fn fn st0 st1 pre sc k (outer ++ [cur]) [] HFb Hs0 Hp Hw0 H1)
        as [ce [nb [k1 [[CFb [Hlastb [Hretb [Hpopb Hsimb]]]] Hk1]]]].
      pose proof (cf_sy CFb) as S1. cbn [app] in S1.
      set (st1' := set_symbols st1 (leave_scope (c_symbols st1))) in *.
      assert (leave_scope (c_symbols st1) = ltab pre sc k1 outer cur) as Hleave by (rewrite S1; apply leave_ltab).
      assert (length (flat outer cur) <= k1)%nat as Hw1 by lia.
      pose proof (cfacts3_out _ _ _ _ _ _ _ _ pre sc k1 outer cur _ _ (cfacts3_in _ _ _ _ _ _ _ _ _ _ CFb) Hleave Hw1) as CFh.
      fold st1' in CFh.
      destruct (cons_sim (SBlock (s0 :: b')) r (ends_pop (s0 :: b'))
               (fun f y => yblock orc lit f st (s0 :: b') y) st st1' st' pre sc k1 outer cur ce nb lp fa fn)
        as [ce2 [nb2 [k' [L Hk']]]]; try assumption.
      + cbn [decl_names3]. rewrite app_nil_r. exact CFh.
      + rewrite <- Hlastb by discriminate. reflexivity.
      + rewrite stmt_pop_block. reflexivity.
      + rewrite stmt_ret_block. rewrite <- Hretb by discriminate. reflexivity.
      + split.
        * intros Ep. exact (Hpopb Ep).
        * intros prog lexit E Hle Hst fuel HC B tip ops y fin Hfo Hloc.
          exact (Hsimb prog lexit (env3_in _ _ _ _ _ _ _ (env3_out _ _ _ _ _ _ _ E)) Hle Hst fuel HC B tip ops y fin VNull Hfo Hloc).
      + intros f y. apply (yblock_loc_len orc lit (yres_loc_lit_pool pl)).
      + intros f last y. rewrite ys_block, H2'. reflexivity.
      + exists ce2, nb2, k'. split; [exact L|lia].
  Qed.

  (* antwoord: the value is returned to the caller, whatever is pending in the activation *)
  Lemma ssim_return : forall e, esim e -> ssim (SReturn e).
  Proof.
    intros e IHe r IHr lp fa fn st st' pre sc k outer cur HF Hs Hp Hw Hc.
    rewrite f4b_cons in HF. apply andb_prop in HF. destruct HF as [HFe HFr]. rewrite f4s_return in HFe.
    cbn [compile_statements] in Hc. apply bind_ok in Hc. destruct Hc as [st2 [H2 Hc]].
    rewrite CompilerNames.cs_return in H2.
    destruct (in_global_context (c_symbols st)); [discriminate H2|].
    apply bind_ok in H2. destruct H2 as [st1 [H1 H2]]. inversion H2; subst st2; clear H2.
    destruct (IHe false fa fn st st1 pre sc k outer cur HFe Hs Hp Hw H1) as [ce_e [nb_e [k1 [CFe [Hk1 Hsime]]]]].
    pose proof (cf_sy CFe) as Hs1. pose proof (cf_w CFe) as Hw1.
    pose proof (cfacts3_emit_opcode OReturnValue st1 pre sc k1 outer cur Hs1 Hw1) as CFp.
    pose proof (cf_tr CFe CFp) as CFh. rewrite app_nil_r in CFh.
    destruct (cons_sim (SReturn e) r false
               (fun f y => ybind (yeval orc lit f st e y) (fun v y1 => YRet v y1))
               st (emit_opcode OReturnValue st1) st' pre sc k1 outer cur
               (ce_e ++ [byte_of_opcode OReturnValue]) nb_e lp fa fn)
      as [ce [nb [k' [L Hk']]]]; try assumption; try reflexivity.
    - cbn [decl_names3]. rewrite app_nil_r. exact CFh.
    - split; [intros N; discriminate N|].
      intros prog lexit E Hle Hst fuel HC B tip ops y fin Hfo Hloc. unfold canon in E.
      rewrite <- (app_nil_r nb_e) in E. destruct (env_two CFe CFp E) as [Ee [Erc _ _ _ _]].
      specialize (Hsime prog lexit Ee Hle Hst fuel HC B tip ops y fin Hfo Hloc).
      destruct (yeval orc lit fuel st e y) as [v y1|y1|y1|v y1|e1|x1| |] eqn:E1; cbn [ybind];
        try (nosig_contra fuel e fa fn st y HFe E1);
        try (exact (sim_l_sim2 _ _ _ _ false (code_len st1) (code_len st1) _ _ _ I Hsime)); try exact Hsime.
      cbn [sim2] in Hsime. destruct Hsime as [fin1 [tip1 [Hsime Hfo1]]].
      cbn [sim_l]. intros ret cbp rest Hb. exists fin1. split; [|exact Hfo1].
      apply (reachesL_trans orc prog _ _ _ Hsime). apply reachesL_step.
      cbn [brk_holes flat_map] in Erc.
      exact (mk_step_return_value orc prog B tip1 ops y1 (code_len st1) fin1 v ret cbp rest [] (code_x_V _ _ _ Erc) Hb).
    - intros f y. apply yres_loc_bind; [apply (proj1 (yeval_loc_len orc lit (yres_loc_lit_pool pl) f))|]. intros v y1 L1.
      exact L1.
    - intros f last y. rewrite ys_return. destruct (yeval orc lit f st e y) as [v y1| | | | | | |]; reflexivity.
    - exists ce, nb, k'. split; [exact L|lia].
  Qed.

  (** ** zolang *)

  (* what the machine does from the loop head sh, with the value of the last iteration on top of ops *)
  Definition loop_post (prog : program) (B : base) (sh : vm) (ops : list val) (lexit : Z) (r : yres val) : Prop :=
    match r with
    | YOk v y' => exists fin' tip', reachesL orc prog sh (mk B tip' (v :: ops) y' lexit fin') /\ funs_ok prog (y_funs y')
    | YBrk _ | YCnt _ => False
    | YRet v y' => forall ret cbp rest, b_rest B = mkFrame ret cbp :: rest ->
                   exists fin', reachesL orc prog sh (ret_state B ret cbp rest v y' fin') /\ funs_ok prog (y_funs y')
    | YErr k out => stopsL orc prog sh (Err k) out
    | YFault f out => stopsL orc prog sh (Fault f) out
    | YExcl o m => xl prog o m sh
    | YFuel => True
    end.

  Lemma loop_post_reach : forall prog B s sh ops lexit r, reachesL orc prog s sh ->
    loop_post prog B sh ops lexit r -> loop_post prog B s ops lexit r.
  Proof.
    intros prog B s sh ops lexit r Hr H. destruct r as [v y'|y'|y'|v y'|e o0|x o0|o0|]; cbn [loop_post] in *; try contradiction.
    - destruct H as [fin' [tip' [H F]]]. exists fin', tip'. split; [exact (reachesL_trans orc prog _ _ _ Hr H)|exact F].
    - intros ret cbp rest Hb. destruct (H ret cbp rest Hb) as [fin' [H' F]]. exists fin'.
      split; [exact (reachesL_trans orc prog _ _ _ Hr H')|exact F].
    - exact (reachesL_stopsL orc prog _ _ _ _ Hr H).
    - exact (reachesL_stopsL orc prog _ _ _ _ Hr H).
    - exact (reachesL_xl prog _ _ _ _ Hr H).
    - exact I.
  Qed.

  Lemma esim_while : forall c body, esim c -> lsim body -> esim (EWhile c body).
  Proof.
    intros c body IHc IHb lp fa fn st st' pre sc k outer cur HF Hs Hp Hw Hc.
    rewrite f4e_while in HF. apply andb_prop in HF. destruct HF as [Hfc Hfb].
    rewrite ce_while in Hc. cbv zeta in Hc.
    set (st1 := emit_opcode ONull st) in *.
    pose proof (code_len_emit_opcode ONull st) as L1. fold st1 in L1.
    set (start := code_len st1) in *.
    change (set_loops st1 (c_loops st1 ++ [mkLoop start []])) with (wh_st2 st) in Hc.
    set (st2 := wh_st2 st) in *.
    apply bind_ok in Hc. destruct Hc as [st3 [H3 Hc]].
    apply bind_ok in Hc. destruct Hc as [st5 [H5 Hc]].
    apply bind_ok in Hc. destruct Hc as [back [Hb Hc]].
    apply bind_ok in Hc. destruct Hc as [target [Ht Hc]].
    apply bind_ok in Hc. destruct Hc as [st8 [H8 Hc]].
    assert (c_symbols st2 = ltab pre sc k outer cur) as Hs2 by exact Hs.
    destruct (IHc false fa fn st2 st3 pre sc k outer cur Hfc Hs2 Hp Hw H3) as [ce_c [nb_c [k3 [CF3 [Hk3 Hsimc]]]]].
    pose proof (cf_sy CF3) as Hs3. pose proof (cf_w CF3) as Hw3.
    set (PHlo := JUMP_PLACEHOLDER mod 256) in *. set (PHhi := (JUMP_PLACEHOLDER / 256) mod 256) in *.
    change (emit_opcode OPop (emit_u16 JUMP_PLACEHOLDER (emit_opcode OJumpIfFalse st3))) with (wh_st4 st3) in H5.
    set (st4 := wh_st4 st3) in *.
    assert (cfacts3 st3 st4 pre sc k3 outer cur [byte_of_opcode OJumpIfFalse; PHlo; PHhi; byte_of_opcode OPop] []) as CF34.
    { apply cfacts3_emit; auto. unfold st4, wh_st4. cbn [emit_opcode emit_u16 c_code].
      rewrite <- !app_assoc. reflexivity. }
    assert (c_symbols st4 = ltab pre sc k3 outer cur) as Hs4 by exact Hs3.
    destruct (bv_sim body IHb true fn fn st4 st5 pre sc k3 outer cur Hfb Hs4 Hp Hw3 H5) as [ce_b [nb_b [k5 [CF5 [Hk5 Hsimb]]]]].
    pose proof (cf_sy CF5) as Hs5. pose proof (cf_w CF5) as Hw5.
    destruct (operand16_cl _ _ Hb) as [-> Rs]. clear Hb.
    set (st7 := emit_u16 start (emit_opcode OJump st5)) in *.
    pose proof (cfacts3_emit_u16op OJump start st5 pre sc k5 outer cur Hs5 Hw5) as CF57. fold st7 in CF57.
    destruct (operand16_cl _ _ Ht) as [-> Re]. clear Ht.
    set (lexit_in := code_len st7) in *.
    pose proof (cf_tr CF3 (cf_tr CF34 (cf_tr CF5 CF57))) as CF27.
    set (jmp3 := [byte_of_opcode OJump; start mod 256; (start / 256) mod 256]) in *.
    set (nbi := nb_c ++ nb_b).
    assert (cfacts3 st2 st7 pre sc k5 outer cur
              (ce_c ++ byte_of_opcode OJumpIfFalse :: PHlo :: PHhi :: (byte_of_opcode OPop :: ce_b ++ jmp3)) nbi) as CF27'.
    { apply (cfacts3_eq _ _ _ _ _ _ _ _ _ _ _ CF27); unfold nbi; cbn [app]; rewrite ?app_nil_r; reflexivity. }
    clear CF27.
    pose proof (cf_len CF3) as L3. rewrite L3 in H8.
    destruct (cfacts3_patch_at _ _ _ _ _ _ _ _ _ _ _ _ _ _ lexit_in CF27' H8) as [CF28 [L8 [_ K8]]].
    set (jif4 := [byte_of_opcode OJumpIfFalse; lexit_in mod 256; (lexit_in / 256) mod 256; byte_of_opcode OPop]) in *.
    set (W8 := ce_c ++ jif4 ++ ce_b ++ jmp3).
    assert (cfacts3 st2 st8 pre sc k5 outer cur W8 nbi) as CF28' by exact CF28. clear CF28.
    (* the innermost context is popped *)
    pose proof (cf_lp CF28') as Lp8.
    assert (c_loops st2 = c_loops st ++ [mkLoop start []]) as Lp2 by reflexivity.
    rewrite Lp2, add_breaks_snoc in Lp8. cbn [l_start l_breaks app] in Lp8.
    rewrite Lp8, rev_unit in Hc. cbn [l_breaks] in Hc. rewrite rev_involutive in Hc.
    pose proof (cf_bk CF28') as B28.
    assert (0 <= code_len st2) as Hpos2 by apply code_len_nonneg.
    assert (Forall (fun ip => 0 <= ip) nbi) as Hposn.
    { apply Forall_forall. intros ip Hin. destruct (brk_ok_in _ _ _ _ B28 Hin). lia. }
    destruct (patch_breaks_spec _ _ _ Hposn Hc) as [P1 [P2 [P3 [P4 [P5 [_ P7]]]]]].
    cbn [set_loops c_symbols c_constants c_loops c_last c_code] in P1, P2, P3, P5, P7.
    assert (code_len (set_loops st8 (c_loops st)) = lexit_in) as Lx by (unfold lexit_in; rewrite <- L8; reflexivity).
    rewrite Lx in P7.
    pose proof (cf_cd CF28') as C8.
    assert (c_code st2 = c_code st ++ [byte_of_opcode ONull]) as C2 by reflexivity.
    rewrite C2, <- app_assoc in C8. set (W8f := [byte_of_opcode ONull] ++ W8) in *.
    assert (code_len st2 = code_len st + 1) as L2 by exact L1.
    assert (forall ip, In ip nbi -> (length (c_code st) <= Z.to_nat ip)%nat) as Hpre.
    { intros ip Hin. destruct (brk_ok_in _ _ _ _ B28 Hin) as [Q _]. unfold code_len, zlength in L2, Q. lia. }
    rewrite C8 in P7. destruct (wt_prefix lexit_in nbi (c_code st) W8f Hpre) as [W' [EW' LW']].
    rewrite EW' in P7.
    assert (code_len st' = lexit_in) as L'.
    { rewrite <- Lx. apply code_len_length. exact P5. }
    (* constants *)
    assert (cext3 st2 st8) as X28 by exact (cf_cx CF28').
    assert (cext3 st8 st') as X8' by (apply cext3_eq; exact P2).
    assert (cext3 st2 st') as X2' by exact (cext3_trans _ _ _ X28 X8').
    exists W', [], k5. split; [|split; [lia|]].
    { constructor.
      - rewrite P1. exact (cf_sy CF28').
      - exact Hw5.
      - exact P7.
      - exact (cext3_trans st st2 st' (cext3_eq st st2 eq_refl) X2').
      - rewrite add_breaks_nil. exact P3.
      - reflexivity.
      - cbn [brk_ok]. rewrite L'. unfold lexit_in. rewrite (cf_len CF57).
        pose proof (brk_ok_le _ _ _ (cf_bk CF5)). pose proof (brk_ok_le _ _ _ (cf_bk CF34)).
        pose proof (brk_ok_le _ _ _ (cf_bk CF3)). unfold jmp3. rewrite zlength3. lia. }
    (* the run *)
    intros prog lexit E Hle Hst fuel HC B tip ops y fin Hfo Hloc. destruct fuel as [|f]; [exact I|].
    rewrite ye_while. fold st2. rewrite H3. fold st4.
    destruct E as [[E0 Ecode] Econsts _ Epool Ewf].
    (* the final program, seen as the unpatched loop code with the stop jumps pending *)
    assert (forall i b, nth_error W8f i = Some b -> ~ In (code_len st + Z.of_nat i) (brk_holes nbi) ->
                        byte_at prog (code_len st + Z.of_nat i) = Some b) as Hbytes.
    { intros i b Hi Hn. apply Ecode; [|intros []].
      assert (nth_error (c_code st') (length (c_code st) + i) = Some b) as Hc'.
      { rewrite P7, <- EW'. rewrite wt_other.
        - rewrite nth_error_app2 by lia. replace (length (c_code st) + i - length (c_code st))%nat with i by lia.
          exact Hi.
        - intros ip Hin. pose proof (Hpre ip Hin) as Q. destruct (brk_ok_in _ _ _ _ B28 Hin) as [Q1 _].
          assert (~ (code_len st + Z.of_nat i = ip + 1 \/ code_len st + Z.of_nat i = ip + 2)) as Hn'.
          { intros Hor. apply Hn. apply in_brk_holes. exists ip. split; [exact Hin|exact Hor]. }
          unfold code_len, zlength in Hn'. lia. }
      rewrite P7, nth_error_app2 in Hc' by lia.
      replace (length (c_code st) + i - length (c_code st))%nat with i in Hc' by lia. exact Hc'. }
    assert (brk_target prog nbi lexit_in) as Htarget.
    { intros ip Hin. destruct (brk_ok_in _ _ _ _ B28 Hin) as [Q1 Q2]. pose proof (Hpre ip Hin) as Q.
      assert (lexit_in <= Z.of_nat (length (c_code st ++ W8f))) as Hhi.
      { rewrite <- C8. unfold lexit_in. rewrite <- L8. unfold code_len, zlength. lia. }
      rewrite L8 in B28. fold lexit_in in B28.
      destruct (wt_at lexit_in nbi _ _ (c_code st ++ W8f) ip B28 Hpos2 Hhi Hin) as [A1 A2].
      rewrite EW' in A1, A2.
      rewrite nth_error_app2 in A1, A2 by lia.
      pose proof (Ecode _ _ A1 (fun x => match x with end)) as B1.
      pose proof (Ecode _ _ A2 (fun x => match x with end)) as B2.
      unfold code_len, zlength in B1, B2, L2, Q1.
      replace (Z.of_nat (length (c_code st)) + Z.of_nat (Z.to_nat ip + 1 - length (c_code st))) with (ip + 1) in B1 by lia.
      replace (Z.of_nat (length (c_code st)) + Z.of_nat (Z.to_nat ip + 2 - length (c_code st))) with (ip + 2) in B2 by lia.
      split; assumption. }
    assert (env3 prog st st' W8f ([] ++ nbi) lexit_in) as E8.
    { constructor; [split; [exact E0|exact Hbytes]|exact Econsts|exact Htarget|exact Epool|exact Ewf]. }
    (* the pieces *)
    pose proof (cf_bk CF3) as B3. pose proof (cf_bk CF5) as B5.
    pose proof (cf_len CF34) as L4. pose proof (cf_len CF5) as L5.
    pose proof (cf_len CF57) as L7. unfold jmp3 in L7. rewrite zlength3 in L7.
    change (zlength [byte_of_opcode OJumpIfFalse; PHlo; PHhi; byte_of_opcode OPop]) with 4 in L4.
    assert (brk_ok (code_len st2) nbi (code_len st5)) as B25.
    { apply (brk_ok_app _ _ _ (code_len st3) _ B3). apply (brk_ok_widen _ _ _ _ _ B5); lia. }
    assert (code_len st2 = code_len st + zlength [byte_of_opcode ONull]) as L2' by exact L2.
    destruct (env3_split prog st st2 st' [byte_of_opcode ONull] W8 [] nbi lexit_in _ L2'
                ltac:(cbn [brk_ok]; lia) B25 X2' E8) as [Enull E2].
    assert (cext3 st3 st') as X3'.
    { apply (cext3_trans _ st4); [exact (cf_cx CF34)|].
      apply (cext3_trans _ st5); [exact (cf_cx CF5)|].
      apply (cext3_trans _ st7); [exact (cf_cx CF57)|].
      apply (cext3_trans _ st8); [apply cext3_eq; exact K8|exact X8']. }
    assert (cext3 st4 st') as X4'.
    { destruct X3' as [kx A]. exists kx. exact A. }
    assert (cext3 st5 st') as X5'.
    { apply (cext3_trans _ st7); [exact (cf_cx CF57)|].
      apply (cext3_trans _ st8); [apply cext3_eq; exact K8|exact X8']. }
    assert (brk_ok (code_len st3) nb_b (code_len st5)) as B35 by (apply (brk_ok_widen _ _ _ _ _ B5); lia).
    destruct (env3_split prog st2 st3 st' ce_c _ nb_c nb_b lexit_in _ L3 B3 B35 X3' E2) as [Ec E3].
    assert (code_len st4 = code_len st3 + zlength jif4) as L4' by exact L4.
    destruct (env3_split prog st3 st4 st' jif4 _ [] nb_b lexit_in _ L4'
                ltac:(cbn [brk_ok]; lia) B5 X4' E3) as [Ejif E4].
    rewrite <- (app_nil_r nb_b) in E4.
    destruct (env3_split prog st4 st5 st' ce_b jmp3 nb_b [] lexit_in (code_len st') L5 B5
                ltac:(cbn [brk_ok]; lia) X5' E4) as [Eb Ejmp].
    (* instructions of the loop skeleton *)
    destruct Enull as [Enullc _ _ _ _]. cbn [brk_holes flat_map] in Enullc.
    pose proof (code_x_at1 _ _ _ _ _ Enullc (fun x => x)) as Hnull.
    destruct Ejif as [Ejifc _ _ _ _]. cbn [brk_holes flat_map] in Ejifc.
    change jif4 with ([byte_of_opcode OJumpIfFalse; lexit_in mod 256; (lexit_in / 256) mod 256] ++ [byte_of_opcode OPop]) in Ejifc.
    apply code_x_app in Ejifc. destruct Ejifc as [Ejc Epc]. rewrite zlength3 in Epc.
    pose proof (code_x_at3 _ _ _ _ _ _ _ Ejc (holes_nil _ _)) as Hjif.
    pose proof (code_x_at1 _ _ _ _ _ Epc (fun x => x)) as Hpop.
    destruct Ejmp as [Ejmpc _ _ _ _]. cbn [brk_holes flat_map] in Ejmpc.
    pose proof (code_x_at3 _ _ _ _ _ _ _ Ejmpc (holes_nil _ _)) as Hjmp.
    (* loop contexts of the pieces *)
    assert (cur_start (c_loops st2) = start) as Cs2 by (rewrite Lp2; apply cur_start_snoc).
    assert (cur_start (c_loops st4) = start) as Cs4.
    { change (c_loops st4) with (c_loops st3). rewrite (cf_lp CF3), cur_start_add. exact Cs2. }
    assert (0 <= start) as Hstart by lia.
    (* the loop invariant *)
    assert (forall fuel, callsok prog fuel -> forall lastv y0 fin0 tip0, funs_ok prog (y_funs y0) ->
              length (y_loc y0) = length (y_loc y) ->
              loop_post prog B (mk B tip0 (lastv :: ops) y0 start fin0) ops lexit_in
                        (ywhile orc lit fuel st2 st4 c body lastv y0)) as Hloop.
    { induction fuel as [|f' IHf]; intros HCf lastv y0 fin0 tip0 Hfo0 Hlen0; [exact I|].
      pose proof (callsok_S _ _ HCf) as HCf'. specialize (IHf HCf').
      rewrite yw_step. set (sh := mk B tip0 (lastv :: ops) y0 start fin0).
      assert (loc_ok sc k5 y0) as Hloc0 by exact (loc_ok_len _ _ _ _ Hlen0 Hloc).
      pose proof (Hsimc prog lexit_in Ec Re ltac:(rewrite Cs2; exact Hstart) f' HCf' B tip0 (lastv :: ops) y0 fin0 Hfo0
                    (loc_ok_le _ _ _ _ Hk5 Hloc0)) as Hc1.
      rewrite Cs2 in Hc1. change (code_len st2) with start in Hc1. fold sh in Hc1.
      destruct (yeval orc lit f' st2 c y0) as [b y1|y1|y1|b y1|e|x| |] eqn:E1; cbn [ybind loop_post];
        try (nosig_contra f' c fa fn st2 y0 Hfc E1); try exact Hc1.
      loclen f' c st2 y0 E1 LL1.
      cbn [sim2] in Hc1. destruct Hc1 as [fin1 [tip1 [Hc1 Hfo1]]].
      set (sa := mk B tip1 (b :: lastv :: ops) y1 (code_len st3) fin1) in *.
      pose proof (mk_step_jif orc prog B tip1 (lastv :: ops) y1 (code_len st3) fin1 lexit_in b [] Hjif Re) as Hstepj.
      fold sa in Hstepj.
      destruct b as [|bb| | | | |];
        try (cbn [loop_post]; refine (reachesL_stopsL orc _ _ _ _ _ Hc1 _); stop_mk; exact Hstepj).
      destruct bb.
      - (* another iteration: Pop the previous value, run the body *)
        set (sb := mk B tip1 ops y1 (code_len st4) lastv).
        assert (reachesL orc prog sh sb) as Hsb.
        { apply (reachesL_trans orc prog sh sa _ Hc1).
          apply (reachesL_trans orc prog sa _ _ (reachesL_step orc prog _ _ Hstepj)).
          apply reachesL_step.
          rewrite (mk_step_pop orc prog B tip1 ops y1 (code_len st3 + 3) fin1 lastv [] Hpop).
          unfold sb. rewrite L4. replace (code_len st3 + 3 + 1) with (code_len st3 + 4) by lia. reflexivity. }
        pose proof (Hsimb prog lexit_in Eb Re ltac:(rewrite Cs4; exact Hstart) f' HCf' B tip1 ops y1 lastv Hfo1
                      (loc_ok_len _ _ _ _ LL1 Hloc0)) as Hb1.
        rewrite Cs4 in Hb1. fold sb in Hb1.
        pose proof (yblock_loc_len orc lit (yres_loc_lit_pool pl) f' body st4 y1) as LL2.
        destruct (yblock orc lit f' st4 body y1) as [v y2|y2|y2|v y2|e|x| |]; cbn [sim2 loop_post yres_loc] in *.
        + destruct Hb1 as [fin2 [tip2 [Hb1 Hfo2]]].
          set (sc0 := mk B tip2 (v :: ops) y2 (code_len st5) fin2) in *.
          assert (reachesL orc prog sh (mk B tip2 (v :: ops) y2 start fin2)) as Hback.
          { apply (reachesL_trans orc prog sh sb _ Hsb). apply (reachesL_trans orc prog sb sc0 _ Hb1).
            apply reachesL_step. exact (mk_step_jump orc prog B tip2 (v :: ops) y2 (code_len st5) fin2 start [] Hjmp Rs). }
          apply (loop_post_reach prog B sh _ ops lexit_in _ Hback).
          apply IHf; [exact Hfo2|lia].
        + (* stop *)
          destruct Hb1 as [fin2 [tip2 [Hb1 Hfo2]]]. exists fin2, tip2.
          split; [exact (reachesL_trans orc prog sh sb _ Hsb Hb1)|exact Hfo2].
        + (* volgende *)
          destruct Hb1 as [fin2 [tip2 [Hb1 Hfo2]]].
          assert (reachesL orc prog sh (mk B tip2 (VNull :: ops) y2 start fin2)) as Hback
            by exact (reachesL_trans orc prog sh sb _ Hsb Hb1).
          apply (loop_post_reach prog B sh _ ops lexit_in _ Hback).
          apply IHf; [exact Hfo2|lia].
        + intros ret cbp rest Hbr. destruct (Hb1 ret cbp rest Hbr) as [fin2 [Hb2 Hfo2]]. exists fin2.
          split; [exact (reachesL_trans orc prog sh sb _ Hsb Hb2)|exact Hfo2].
        + exact (reachesL_stopsL orc prog _ _ _ _ Hsb Hb1).
        + exact (reachesL_stopsL orc prog _ _ _ _ Hsb Hb1).
        + exact (reachesL_xl prog _ _ _ _ Hsb Hb1).
        + exact I.
      - (* the condition is false: the loop's value is the value of the last iteration *)
        exists fin1, tip1. split; [|exact Hfo1]. apply (reachesL_trans orc prog sh sa _ Hc1). apply reachesL_step.
        exact Hstepj. }
    (* enter the loop *)
    pose proof (mk_step_null orc prog B tip ops y (code_len st) fin [] Hnull) as Hstep0.
    rewrite <- L1 in Hstep0. fold start in Hstep0.
    specialize (Hloop f (callsok_S _ _ HC) VNull y fin tip Hfo eq_refl). rewrite L'.
    pose proof (loop_post_reach prog B _ _ ops lexit_in _ (reachesL_step orc prog _ _ Hstep0) Hloop) as Hfin.
    destruct (ywhile orc lit f st2 st4 c body VNull y) as [v3 y3|y3|y3|v3 y3|e|x| |]; cbn [loop_post sim2] in *;
      try contradiction; exact Hfin.
  Qed.

  (** ** The body of a function, from its entry point to the return *)

  Lemma flat_nil : forall ps : list text, flat [] ps = ps.
  Proof. reflexivity. Qed.

  Lemma body_all : forall body, lsim body -> f4b false true true body = true ->
    forall st3 st4 pre' kp ps', c_symbols st3 = ltab pre' SLocal kp [] ps' -> pre_ok pre' SLocal ->
    (length ps' <= kp)%nat -> c_loops st3 = [] -> c_block_statement body st3 = Ok st4 ->
    exists ce_b k4,
      c_symbols st4 = ltab pre' SLocal k4 [] ps' /\ (kp <= k4)%nat /\
      c_code st4 = c_code st3 ++ ce_b /\ cext3 st3 st4 /\ c_loops st4 = [] /\
      (last_instruction_is OPop st4 = true -> exists ce', ce_b = ce' ++ [byte_of_opcode OPop]) /\
      forall prog,
        code_x prog (code_len st3)
               (epilogue (last_instruction_is OPop st4) (last_instruction_is OReturnValue st4) ce_b) [] ->
        consts_ok3 prog (c_constants st4) -> pool_at prog pl (c_constants st4) -> pool_wf pl ->
        forall fuel, callsok prog fuel ->
        forall B tip y0 fin, funs_ok prog (y_funs y0) -> (k4 <= length (y_loc y0))%nat ->
        Z.of_nat (length (y_loc y0)) < 65536 ->
        body_res prog B (mk B tip [] y0 (code_len st3) fin) (yblock orc lit fuel st3 body y0).
  Proof.
    intros body IHb HF st3 st4 pre' kp ps' Hs Hp Hw Hl Hc. unfold c_block_statement in Hc.
    destruct body as [|s0 r].
    - (* the empty body: Null; Return *)
      cbn [is_nil] in Hc. inversion Hc; subst st4; clear Hc.
      exists [byte_of_opcode ONull], kp. split; [exact Hs|]. split; [lia|]. split; [reflexivity|].
      split; [apply cext3_eq; reflexivity|]. split; [exact Hl|].
      split; [intros N; discriminate N|].
      intros prog Hcode _ _ _ fuel HC B tip y0 fin Hfo Hk Hn. unfold yblock, yblock_g. cbn [is_nil].
      destruct fuel as [|f]; [exact I|]. rewrite ys_nil. cbn [body_res].
      intros ret cbp rest Hb. exists fin. split; [|exact Hfo].
      cbn [epilogue last_instruction_is emit_opcode c_last opcode_eqb app] in Hcode.
      change [byte_of_opcode ONull; byte_of_opcode OReturn] with ([byte_of_opcode ONull] ++ [byte_of_opcode OReturn]) in Hcode.
      apply code_x_app in Hcode. destruct Hcode as [Ha Hb2]. change (zlength [byte_of_opcode ONull]) with 1 in Hb2.
      pose proof (mk_step_null orc prog B tip [] y0 (code_len st3) fin [] (code_x_at1 _ _ _ _ _ Ha (fun x => x))) as Hstep1.
      apply (reachesL_trans orc prog _ _ _ (reachesL_step orc prog _ _ Hstep1)). apply reachesL_step.
      exact (mk_step_return orc prog B tip [VNull] y0 (code_len st3 + 1) fin ret cbp rest [] (code_x_V _ _ _ Hb2) Hb).
    - cbn [is_nil] in Hc. apply bind_ok in Hc. destruct Hc as [st4a [Hc1 Hc]]. inversion Hc; subst st4; clear Hc.
      set (st0 := set_symbols st3 (enter_scope (c_symbols st3))) in *.
      assert (c_symbols st0 = ltab pre' SLocal kp ([] ++ [ps']) []) as Hs0
        by (unfold st0; cbn [set_symbols c_symbols]; rewrite Hs; apply enter_ltab).
      assert (length (flat ([] ++ [ps']) []) <= kp)%nat as Hw0 by (rewrite flat_enter, flat_nil; exact Hw).
      destruct (IHb false true true st0 st4a pre' SLocal kp ([] ++ [ps']) [] HF Hs0 Hp Hw0 Hc1)
        as [ce [nb [k4 [[CFb [Hlast [Hret [Hpop Hsim]]]] Hk4]]]].
      assert (nb = []) as -> by (apply (cf_nn CFb); exact Hl).
      pose proof (cf_sy CFb) as S4. cbn [app] in S4.
      set (st4 := set_symbols st4a (leave_scope (c_symbols st4a))) in *.
      assert (c_symbols st4 = ltab pre' SLocal k4 [] ps') as Hs4.
      { unfold st4. cbn [set_symbols c_symbols]. rewrite S4. apply (leave_ltab pre' SLocal k4 [] ps'). }
      assert (last_instruction_is OPop st4 = ends_pop (s0 :: r)) as Hlast' by (rewrite <- Hlast by discriminate; reflexivity).
      assert (last_instruction_is OReturnValue st4 = ends_ret (s0 :: r)) as Hret' by (rewrite <- Hret by discriminate; reflexivity).
      exists ce, k4. split; [exact Hs4|]. split; [exact Hk4|]. split; [exact (cf_cd CFb)|].
      split; [exact (cf_cx CFb)|]. split.
      { change (c_loops st4) with (c_loops st4a). rewrite (cf_lp CFb). unfold add_breaks. change (c_loops st0) with (c_loops st3).
        rewrite Hl. reflexivity. }
      split.
      { intros Hpp. rewrite Hlast' in Hpp. exact (proj1 (Hpop Hpp)). }
      intros prog Hcode Hconsts Hpool Hpwf fuel HC B tip y0 fin Hfo Hk Hn. rewrite Hlast', Hret' in Hcode.
      assert (loc_ok SLocal k4 y0) as Hloc by (intros _; split; assumption).
      assert (0 <= cur_start (c_loops st0)) as Hst by (change (c_loops st0) with (c_loops st3); rewrite Hl; cbn; lia).
      assert (forall ce0, code_x prog (code_len st3) ce0 [] -> env3 prog st0 st4a ce0 [] 0) as Henv.
      { intros ce0 Hx. constructor; [exact Hx|exact Hconsts|intros ip []|exact Hpool|exact Hpwf]. }
      unfold yblock, yblock_g. cbn [is_nil]. fold st0.
      pose proof (cf_len CFb) as Lb. change (code_len st0) with (code_len st3) in Lb.
      change (code_len st4) with (code_len st4a) in *.
      destruct (ends_pop (s0 :: r)) eqn:Ep.
      + (* the value of the last statement is returned: ReturnValue in place of the Pop *)
        destruct (Hpop eq_refl) as [[ce' Hce'] _]. cbn [epilogue] in Hcode. rewrite Hce', removelast_last in Hcode.
        apply code_x_app in Hcode. destruct Hcode as [Ha Hrv].
        assert (env3 prog st0 st4a (canon true ce) [] 0) as E0.
        { apply Henv. unfold canon. rewrite Hce', removelast_last. exact Ha. }
        specialize (Hsim prog 0 E0 ltac:(lia) Hst fuel HC B tip [] y0 fin VNull Hfo Hloc).
        change (code_len st0) with (code_len st3) in Hsim.
        destruct (ystmts orc lit fuel st0 (s0 :: r) VNull y0) as [v y3|y3|y3|v y3|e|x| |]; cbn [sim_l body_res] in *;
          try exact Hsim; try exact I.
        destruct Hsim as [fin1 [tip1 [Hsim Hfo1]]].
        intros ret cbp rest Hb. exists fin1. split; [|exact Hfo1].
        apply (reachesL_trans orc prog _ _ _ Hsim). apply reachesL_step.
        assert (code_len st4a - 1 = code_len st3 + zlength ce') as Lr.
        { rewrite Lb, Hce', zlength_app. change (zlength [byte_of_opcode OPop]) with 1. lia. }
        rewrite Lr.
        exact (mk_step_return_value orc prog B tip1 [] y3 _ fin1 v ret cbp rest [] (code_x_V _ _ _ Hrv) Hb).
      + destruct (ends_ret (s0 :: r)) eqn:Er.
        * (* the body ends in antwoord *)
          cbn [epilogue] in Hcode.
          assert (env3 prog st0 st4a (canon false ce) [] 0) as E0 by (apply Henv; exact Hcode).
          specialize (Hsim prog 0 E0 ltac:(lia) Hst fuel HC B tip [] y0 fin VNull Hfo Hloc).
          change (code_len st0) with (code_len st3) in Hsim.
          destruct (ystmts orc lit fuel st0 (s0 :: r) VNull y0) as [v y3|y3|y3|v y3|e|x| |] eqn:Ey; cbn [sim_l body_res] in *;
            try exact Hsim; try exact I.
          exfalso. exact (ystmts_ends_ret orc lit fuel (s0 :: r) st0 VNull y0 v y3 Er Ey).
        * (* no value: Return *)
          cbn [epilogue] in Hcode. apply code_x_app in Hcode. destruct Hcode as [Ha Hrt].
          assert (env3 prog st0 st4a (canon false ce) [] 0) as E0 by (apply Henv; exact Ha).
          specialize (Hsim prog 0 E0 ltac:(lia) Hst fuel HC B tip [] y0 fin VNull Hfo Hloc).
          change (code_len st0) with (code_len st3) in Hsim.
          destruct (ystmts orc lit fuel st0 (s0 :: r) VNull y0) as [v y3|y3|y3|v y3|e|x| |] eqn:Ey; cbn [sim_l body_res] in *;
            try exact Hsim; try exact I.
          destruct Hsim as [fin1 [tip1 [Hsim Hfo1]]].
          assert (v = VNull) as -> by (apply (ystmts_no_pop_null orc lit fuel (s0 :: r) _ _ _ _ _ ltac:(discriminate) Ep Ey)).
          intros ret cbp rest Hb. exists fin1. split; [|exact Hfo1].
          apply (reachesL_trans orc prog _ _ _ Hsim). apply reachesL_step.
          rewrite Lb.
          exact (mk_step_return orc prog B tip1 [] y3 _ fin1 ret cbp rest [] (code_x_V _ _ _ Hrt) Hb).
  Qed.

  (** ** Function literals *)

  (* compile_expression (EFunction ..) after the name has been declared *)
  Definition fun_tail (ps : list text) (body : list stmt) (sym : option symbol) (st1 : cstate) : outcome cstate :=
    let pos_jump := code_len st1 in
    let st2 := emit_u16 JUMP_PLACEHOLDER (emit_opcode OJump st1) in
    let t3 := fold_left (fun t p => fst (define t p)) ps (new_context (c_symbols st2)) in
    let st3 := set_symbols st2 t3 in
    let pos_start := code_len st3 in
    let outer_loops := c_loops st3 in
    do st4 <- c_block_statement body (set_loops st3 []);
    let st5 := set_loops st4 outer_loops in
    let st6 := if last_instruction_is OPop st5 then emit_opcode OReturnValue (remove_last_instruction st5)
               else if last_instruction_is OReturnValue st5 then st5
               else emit_opcode OReturn st5 in
    do target <- operand 16 (code_len st6);
    do st7 <- change_jump_operand_at pos_jump target st6;
    let '(t8, num_locals) := leave_context (c_symbols st7) in
    let st8 := set_symbols st7 t8 in
    do ip <- operand 32 pos_start;
    do nl <- operand 16 (Z.of_nat num_locals);
    let '(st9, r) := add_constant (KFun ip nl) st8 in
    do idx <- r;
    let st10 := emit_u16 idx (emit_opcode OConst st9) in
    match sym with
    | Some s =>
        do st11 <- emit_sym (scoped s OSetGlobal OSetLocal) s st10;
        Ok (emit_u16 idx (emit_opcode OConst st11))
    | None => Ok st10
    end.

  Lemma ce_function3 : forall name ps body st,
    compile_expression (EFunction name ps body) st =
    let '(st1, sym) := fun_st1 name st in fun_tail ps body sym st1.
  Proof.
    intros name ps body st. rewrite ce_function. unfold fun_st1.
    destruct (is_nil name); [reflexivity|]. destruct (define (c_symbols st) name) as [t s]. reflexivity.
  Qed.

  (* the value of the literal and the state after it *)
  Definition yfun_tail (ps : list text) (body : list stmt) (sym : option symbol) (st1 : cstate) (y : yst) : yres val :=
    let st3 := fun_st3 ps st1 in
    match c_block_statement body st3 with
    | Ok st4 =>
        let nl := Z.of_nat (snd (leave_context (c_symbols st4))) in
        let v := VFun (code_len st3) nl in
        let y1 := mkY (y_m y) (y_loc y) (y_funs y ++ [mkFE (code_len st3) nl ps body st3]) in
        YOk v (match sym with Some s => y_set s v y1 | None => y1 end)
    | _ => YFuel
    end.

  Lemma yfunction_tail : forall name ps body st y,
    yfunction name ps body st y = let '(st1, sym) := fun_st1 name st in yfun_tail ps body sym st1 y.
  Proof. intros. unfold yfunction. destruct (fun_st1 name st) as [st1 sym]. reflexivity. Qed.

  Lemma operand32_ok : forall v i, operand 32 v = Ok i -> i = v.
  Proof. intros v i H. exact (proj1 (PoolProofs.operand_ok _ _ _ H)). Qed.

  Lemma function_tail_sim : forall ps body sym, lsim body -> f4b false true true body = true ->
    forall st1 st' pre sc k1 outer cur1, c_symbols st1 = ltab pre sc k1 outer cur1 -> pre_ok pre sc ->
    (length (flat outer cur1) <= k1)%nat ->
    (forall s, sym = Some s -> s_scope s = sc /\ (s_index s < k1)%nat) ->
    fun_tail ps body sym st1 = Ok st' ->
    exists ce, cfacts3 st1 st' pre sc k1 outer cur1 ce [] /\
      forall prog lexit, env3 prog st1 st' ce [] lexit ->
      forall B tip ops y fin, funs_ok prog (y_funs y) -> loc_ok sc k1 y ->
      forall ls, sim2 prog B (mk B tip ops y (code_len st1) fin) ops (code_len st') ls lexit
                      (yfun_tail ps body sym st1 y).
  Proof.
    intros ps body sym IHb HFb st1 st' pre sc k1 outer cur1 Hs1 Hp Hw1 Hsym Hc. unfold fun_tail in Hc.
    set (st2 := emit_u16 JUMP_PLACEHOLDER (emit_opcode OJump st1)) in *.
    set (pre' := ltab pre sc k1 outer cur1).
    assert (fold_left (fun t p => fst (define t p)) ps (new_context (c_symbols st2)) = ltab pre' SLocal (length ps) [] ps) as Et3.
    { change (c_symbols st2) with (c_symbols st1). rewrite Hs1, new_context_ltab, defines_ltab.
      rewrite Nat.add_0_r. reflexivity. }
    rewrite Et3 in Hc.
    change (set_loops (set_symbols st2 (ltab pre' SLocal (length ps) [] ps)) []) with
      (set_loops (set_symbols st2 (ltab pre' SLocal (length ps) [] ps)) []) in Hc.
    assert (fun_st3 ps st1 = set_loops (set_symbols st2 (ltab pre' SLocal (length ps) [] ps)) []) as Est3.
    { unfold fun_st3. fold st2. rewrite Et3. reflexivity. }
    set (st3 := set_loops (set_symbols st2 (ltab pre' SLocal (length ps) [] ps)) []) in *.
    cbv zeta in Hc.
    apply bind_ok in Hc. destruct Hc as [st4 [H4 Hc]].
    assert (pre_ok pre' SLocal) as Hp'. { unfold pre'. apply pre_ok_new; assumption. }
    destruct (body_all body IHb HFb st3 st4 pre' (length ps) ps eq_refl Hp' (Nat.le_refl _) eq_refl H4)
      as [ce_b [k4 [Hs4 [Hk4 [Hcode4 [Hx4 [Hl4 [Hpop4 Hbody]]]]]]]].
    change (c_loops (set_symbols st2 (ltab pre' SLocal (length ps) [] ps))) with (c_loops st1) in Hc.
    set (st5 := set_loops st4 (c_loops st1)) in *.
    set (pop := last_instruction_is OPop st4). set (ret := last_instruction_is OReturnValue st4).
    change (last_instruction_is OPop st5) with pop in Hc. change (last_instruction_is OReturnValue st5) with ret in Hc.
    set (st6 := if pop then emit_opcode OReturnValue (remove_last_instruction st5)
                else if ret then st5 else emit_opcode OReturn st5) in *.
    set (epi := epilogue pop ret ce_b).
    assert (c_code st6 = c_code st3 ++ epi /\ c_symbols st6 = c_symbols st4 /\ c_constants st6 = c_constants st4 /\
            c_loops st6 = c_loops st1) as [Hcode6 [Hs6 [Hk6 Hl6]]].
    { unfold st6, epi, epilogue. destruct pop eqn:Epop.
      - destruct (Hpop4 Epop) as [ce' Hce']. cbn [emit_opcode remove_last_instruction c_code c_symbols c_constants c_loops set_loops].
        unfold st5. cbn [set_loops c_code c_symbols c_constants c_loops].
        rewrite Hcode4, Hce', app_assoc, !removelast_last, <- app_assoc. auto.
      - destruct ret; cbn [emit_opcode c_code c_symbols c_constants c_loops set_loops st5];
          rewrite Hcode4, <- ?app_assoc; auto. }
    apply bind_ok in Hc. destruct Hc as [target [Ht Hc]]. destruct (operand16_cl _ _ Ht) as [-> Rt]. clear Ht.
    apply bind_ok in Hc. destruct Hc as [st7 [H7 Hc]].
    destruct (change_jump_spec _ _ _ _ (code_len_nonneg st1) H7) as [A1 [A2 [A3 [_ [_ [A6 [_ A8]]]]]]].
    pose proof (code_len_length _ _ A6) as L7.
    set (PHlo := JUMP_PLACEHOLDER mod 256) in *. set (PHhi := (JUMP_PLACEHOLDER / 256) mod 256) in *.
    assert (c_code st3 = c_code st1 ++ [byte_of_opcode OJump; PHlo; PHhi]) as Hcode3.
    { unfold st3, st2. cbn [set_loops set_symbols emit_u16 emit_opcode c_code]. rewrite <- app_assoc. reflexivity. }
    set (T := code_len st6) in *.
    assert (c_code st7 = c_code st1 ++ [byte_of_opcode OJump; T mod 256; (T / 256) mod 256] ++ epi) as Hcode7.
    { rewrite A8, Hcode6, Hcode3, <- app_assoc. cbn [app]. unfold code_len, zlength. rewrite Nat2Z.id.
      apply patch_operand. }
    rewrite A1, Hs6, Hs4, leave_context_ltab in Hc.
    set (st8 := set_symbols st7 pre') in *.
    apply bind_ok in Hc. destruct Hc as [ip [Hip Hc]]. apply operand32_ok in Hip. subst ip.
    apply bind_ok in Hc. destruct Hc as [nl [Hnl Hc]].
    apply operand16_ok in Hnl; [|lia]. destruct Hnl as [-> Rnl].
    change (code_len (set_symbols st2 (ltab pre' SLocal (length ps) [] ps))) with (code_len st3) in Hc.
    destruct (add_constant (KFun (code_len st3) (Z.of_nat k4)) st8) as [st9 r] eqn:E9.
    destruct (add_constant_k3 _ st8 st9 r (or_intror (ex_intro _ _ (ex_intro _ _ eq_refl))) E9)
      as [Hs9 [Hcode9 [Hl9 [_ [Hx9 Hi9]]]]].
    apply bind_ok in Hc. destruct Hc as [idx [-> Hc]]. destruct (Hi9 idx eq_refl) as [Ridx Hnth9].
    set (st10 := emit_u16 idx (emit_opcode OConst st9)) in *.
    set (J3 := [byte_of_opcode OJump; T mod 256; (T / 256) mod 256]).
    set (C3 := [byte_of_opcode OConst; idx mod 256; (idx / 256) mod 256]).
    assert (c_code st10 = c_code st1 ++ J3 ++ epi ++ C3) as Hcode10.
    { unfold st10. cbn [emit_u16 emit_opcode c_code]. rewrite Hcode9. change (c_code st8) with (c_code st7).
      rewrite Hcode7. unfold J3, C3. rewrite <- !app_assoc. reflexivity. }
    assert (c_symbols st10 = ltab pre sc k1 outer cur1) as Hs10.
    { unfold st10. cbn [emit_u16 emit_opcode c_symbols]. rewrite Hs9. unfold st8. cbn [set_symbols c_symbols]. reflexivity. }
    assert (c_loops st10 = c_loops st1) as Hl10.
    { unfold st10. cbn [emit_u16 emit_opcode c_loops]. rewrite Hl9. unfold st8. cbn [set_symbols c_loops]. congruence. }
    assert (cext3 st1 st10) as Hx10.
    { apply (cext3_trans _ st4).
      - exact Hx4.
      - apply (cext3_trans _ st8); [apply cext3_eq; unfold st8; cbn [set_symbols c_constants]; congruence|].
        exact Hx9. }
    assert (code_len st6 = code_len st3 + zlength epi) as L6 by (apply code_len_app; exact Hcode6).
    assert (code_len st3 = code_len st1 + 3) as L3.
    { rewrite (code_len_app _ _ _ Hcode3). rewrite zlength3. reflexivity. }
    assert (code_len st10 = T + 3) as L10.
    { rewrite (code_len_app _ _ _ Hcode10). unfold J3, C3. rewrite !zlength_app, !zlength3. unfold T. lia. }
    (* the new entry of the table *)
    set (fe := mkFE (code_len st3) (Z.of_nat k4) ps body st3).
    assert (forall prog, code_x prog (code_len st3) epi [] -> consts_ok3 prog (c_constants st4) ->
              pool_at prog pl (c_constants st4) -> pool_wf pl -> fentry_ok prog fe) as Hfe.
    { intros prog Hx Hk Hpa Hpw. constructor; cbn [fe fe_st fe_ps fe_ip fe_body fe_n].
      - exists pre'. split; [exact Hp'|reflexivity].
      - reflexivity.
      - reflexivity.
      - exact HFb.
      - exists st4, ce_b. split; [exact H4|]. split; [exact Hcode4|]. split; [rewrite Hs4, leave_context_ltab; reflexivity|].
        split; [lia|]. split; [exact Hk|]. split; [exact Hpa|]. split; [exact Hpw|exact Hx]. }
    assert (yfun_tail ps body sym st1 =
            fun y => let v := VFun (code_len st3) (Z.of_nat k4) in
                     let y1 := mkY (y_m y) (y_loc y) (y_funs y ++ [fe]) in
                     YOk v (match sym with Some s => y_set s v y1 | None => y1 end)) as Eyf.
    { unfold yfun_tail. rewrite Est3, H4, Hs4, leave_context_ltab. reflexivity. }
    rewrite Eyf.
    (* the common part of the run: Jump over the body, Const *)
    assert (forall prog lexit st'' X, cext3 st10 st'' -> env3 prog st1 st'' (J3 ++ epi ++ C3 ++ X) [] lexit ->
              fentry_ok prog fe /\
              forall B tip ops y fin,
                reachesL orc prog (mk B tip ops y (code_len st1) fin)
                         (mk B tip (VFun (code_len st3) (Z.of_nat k4) :: ops) y (code_len st10) fin) /\
                code_x prog (code_len st10) X []) as Hrun.
    { intros prog lexit st'' X Hx'' [E1 E2 _ Epl Ewf]. cbn [brk_holes flat_map] in E1.
      apply code_x_app in E1. destruct E1 as [EJ E1]. unfold J3 in E1 at 1. rewrite zlength3, <- L3 in E1.
      apply code_x_app in E1. destruct E1 as [Eepi E1]. rewrite <- L6 in E1. fold T in E1.
      apply code_x_app in E1. destruct E1 as [EC EX]. unfold C3 in EX at 1. rewrite zlength3, <- L10 in EX.
      assert (consts_ok3 prog (c_constants st10)) as E10 by exact (consts_ok3_ext prog _ _ Hx'' E2).
      split.
      - assert (cext3 st4 st10) as Hx410.
        { apply (cext3_trans _ st8); [apply cext3_eq; unfold st8; cbn [set_symbols c_constants]; congruence|exact Hx9]. }
        apply Hfe; [exact Eepi| | |exact Ewf].
        + apply (consts_ok3_ext prog st4 st10); [exact Hx410|exact E10].
        + apply (pool_at_cext prog pl st4 st''); [exact (cext3_trans _ _ _ Hx410 Hx'')|exact Epl].
      - intros B tip ops y fin. split; [|exact EX].
        pose proof (mk_step_jump orc prog B tip ops y (code_len st1) fin T []
                      (code_x_at3 _ _ _ _ _ _ _ EJ (holes_nil _ _)) Rt) as Hj.
        apply (reachesL_trans orc prog _ _ _ (reachesL_step orc prog _ _ Hj)). apply reachesL_step.
        rewrite L10.
        apply (mk_step_const_fun orc prog B tip ops y T fin idx _ _ [] (code_x_at3 _ _ _ _ _ _ _ EC (holes_nil _ _)) Ridx).
        assert (nth_error (c_constants st10) (Z.to_nat idx) = Some (KFun (code_len st3) (Z.of_nat k4))) as Hn10 by exact Hnth9.
        exact (E10 _ _ Hn10 (or_intror (ex_intro _ _ (ex_intro _ _ eq_refl)))). }
    destruct sym as [s|].
    - (* a named function: store it in its variable, push it again *)
      apply bind_ok in Hc. destruct Hc as [st11 [H11 Hc]]. inversion Hc; subst st'; clear Hc.
      destruct (Hsym s eq_refl) as [Esc Hidx].
      destruct (cfacts3_emit_sym _ _ _ _ pre sc k1 outer cur1 Hs10 Hw1 H11) as [Rs CF11].
      set (S3 := [byte_of_opcode (scoped s OSetGlobal OSetLocal); Z.of_nat (s_index s) mod 256;
                  (Z.of_nat (s_index s) / 256) mod 256]) in *.
      pose proof (cf_sy CF11) as Hs11. pose proof (cf_len CF11) as L11. unfold S3 in L11. rewrite zlength3 in L11.
      pose proof (cfacts3_emit_u16op OConst idx st11 pre sc k1 outer cur1 Hs11 Hw1) as CF12. fold C3 in CF12.
      pose proof (cf_tr CF11 CF12) as CF1012.
      exists (J3 ++ epi ++ C3 ++ S3 ++ C3). split.
      { constructor.
        - exact (cf_sy CF1012).
        - exact Hw1.
        - rewrite (cf_cd CF1012), Hcode10, <- !app_assoc. reflexivity.
        - exact (cext3_trans _ _ _ Hx10 (cf_cx CF1012)).
        - rewrite add_breaks_nil, (cf_lp CF1012), add_breaks_nil. exact Hl10.
        - reflexivity.
        - cbn [brk_ok]. rewrite (cf_len CF1012). pose proof (zlength_nonneg _ (S3 ++ C3)).
          pose proof (zlength_nonneg _ epi). unfold T in L10. lia. }
      intros prog lexit E B tip ops y fin Hfo Hloc ls.
      destruct (Hrun prog lexit _ (S3 ++ C3) (cf_cx CF1012) E) as [Hfeok Hrun'].
      destruct (Hrun' B tip ops y fin) as [Hreach EX].
      apply code_x_app in EX. destruct EX as [ES EC2]. unfold S3 in EC2 at 1. rewrite zlength3, <- L11 in EC2.
      cbv zeta. cbn [sim2]. exists fin, tip. split.
      2:{ unfold y_set. destruct (s_scope s); cbn [y_funs]; apply funs_ok_snoc; assumption. }
      apply (reachesL_trans orc prog _ _ _ Hreach).
      set (v := VFun (code_len st3) (Z.of_nat k4)). set (y1 := mkY (y_m y) (y_loc y) (y_funs y ++ [fe])).
      assert (mk B tip (v :: ops) y (code_len st10) fin = mk B tip (v :: ops) y1 (code_len st10) fin) as -> by reflexivity.
      pose proof (code_x_at3 _ _ _ _ _ _ _ ES (holes_nil _ _)) as Hat1.
      pose proof (code_x_at3 _ _ _ _ _ _ _ EC2 (holes_nil _ _)) as Hat2.
      assert (step_ng orc prog (mk B tip (v :: ops) y1 (code_len st10) fin)
              = Ok (Continue (mk B tip ops (y_set s v y1) (code_len st11) fin))) as Hstep1.
      { unfold y_set. rewrite L11. unfold S3, scoped in Hat1. destruct (s_scope s) eqn:Es.
        - assert (sc = SLocal) as Esc' by congruence. destruct (Hloc Esc') as [Hk _].
          apply (mk_step_set_local orc prog B tip ops y1 (code_len st10) fin (s_index s) v [] Hat1 Rs).
          cbn [y1 y_loc]. lia.
        - rewrite (mk_step_set_global orc prog B tip ops y1 (code_len st10) fin _ v [] Hat1 Rs).
          rewrite Nat2Z.id. reflexivity. }
      apply (reachesL_trans orc prog _ _ _ (reachesL_step orc prog _ _ Hstep1)). apply reachesL_step.
      rewrite (cf_len CF12). unfold C3. rewrite zlength3.
      apply (mk_step_const_fun orc prog B tip ops (y_set s v y1) (code_len st11) fin idx _ _ [] Hat2 Ridx).
      destruct E as [_ E2 _ _ _].
      assert (nth_error (c_constants (emit_u16 idx (emit_opcode OConst st11))) (Z.to_nat idx)
              = Some (KFun (code_len st3) (Z.of_nat k4))) as Hn12.
      { destruct (cf_cx CF1012) as [kx Ek]. rewrite Ek. rewrite nth_error_app1; [exact Hnth9|].
        apply nth_error_Some. change (c_constants st10) with (c_constants st9). rewrite Hnth9. discriminate. }
      exact (E2 _ _ Hn12 (or_intror (ex_intro _ _ (ex_intro _ _ eq_refl)))).
    - (* an anonymous function *)
      inversion Hc; subst st'; clear Hc.
      exists (J3 ++ epi ++ C3 ++ []). split.
      { constructor.
        - exact Hs10.
        - exact Hw1.
        - rewrite Hcode10, app_nil_r. reflexivity.
        - exact Hx10.
        - rewrite add_breaks_nil. exact Hl10.
        - reflexivity.
        - cbn [brk_ok]. pose proof (zlength_nonneg _ epi). unfold T in L10. lia. }
      intros prog lexit E B tip ops y fin Hfo Hloc ls.
      destruct (Hrun prog lexit _ [] (cext3_refl st10) E) as [Hfeok Hrun'].
      destruct (Hrun' B tip ops y fin) as [Hreach _].
      cbv zeta. cbn [sim2]. exists fin, tip. split; [exact Hreach|]. cbn [y_funs]. apply funs_ok_snoc; assumption.
  Qed.

  Lemma esim_function : forall name ps body, lsim body -> esim (EFunction name ps body).
  Proof.
    intros name ps body IHb lp fa fn st st' pre sc k outer cur HF Hs Hp Hw Hc.
    rewrite f4e_function in HF. apply andb_prop in HF. destruct HF as [HF HFb]. apply andb_prop in HF.
    destruct HF as [_ Hnil]. destruct name as [|c0 nm]; [|discriminate Hnil].
    rewrite ce_function3 in Hc. cbn [fun_st1 is_nil] in Hc.
    destruct (function_tail_sim ps body None IHb HFb st st' pre sc k outer cur Hs Hp Hw
                ltac:(intros s0 N; discriminate N) Hc) as [ce [CF Hsim]].
    exists ce, [], k. split; [exact CF|]. split; [lia|].
    intros prog lexit E Hle Hst fuel HC B tip ops y fin Hfo Hloc. destruct fuel as [|f]; [exact I|].
    rewrite ye_function, yfunction_tail. cbn [fun_st1 is_nil].
    exact (Hsim prog lexit E B tip ops y fin Hfo Hloc _).
  Qed.

  (* a named function as a statement declares its name in the scope of the statement list *)
  Lemma ssim_fundecl : forall c0 nm ps body, lsim body -> ssim (SExpr (EFunction (c0 :: nm) ps body)).
  Proof.
    intros c0 nm ps body IHb r IHr lp fa fn st st' pre sc k outer cur HF Hs Hp Hw Hc.
    rewrite f4b_cons in HF. apply andb_prop in HF. destruct HF as [HFe HFr].
    rewrite f4s_expr_named in HFe. apply andb_prop in HFe. destruct HFe as [_ HFb].
    set (name := c0 :: nm) in *.
    cbn [compile_statements] in Hc. apply bind_ok in Hc. destruct Hc as [st2 [H2 Hc]].
    pose proof H2 as H2'. rewrite cs_expr in H2. apply bind_ok in H2. destruct H2 as [stF [H1 H2]].
    inversion H2; subst st2; clear H2.
    rewrite ce_function3 in H1.
    assert (fun_st1 name st = (set_symbols st (ltab pre sc (S k) outer (cur ++ [name])),
                               Some (mkSymbol sc (length (flat outer cur))))) as Est1.
    { unfold fun_st1, name. cbn [is_nil]. fold name. rewrite Hs, define_ltab. reflexivity. }
    rewrite Est1 in H1.
    set (st1 := set_symbols st (ltab pre sc (S k) outer (cur ++ [name]))) in *.
    set (sym := mkSymbol sc (length (flat outer cur))) in *.
    assert (length (flat outer (cur ++ [name])) <= S k)%nat as Hw1.
    { rewrite flat_snoc, app_length. cbn [length]. lia. }
    destruct (function_tail_sim ps body (Some sym) IHb HFb st1 stF pre sc (S k) outer (cur ++ [name]) eq_refl Hp Hw1
                ltac:(intros s0 N; inversion N; subst s0; unfold sym; cbn [s_scope s_index]; split; [reflexivity|lia]) H1)
      as [ce [CF0 Hsim]].
    pose proof (cfacts3_in _ _ _ _ _ _ _ _ _ _ CF0) as CFe.
    pose proof (cf_sy CFe) as HsF.
    pose proof (cfacts3_emit_opcode OPop stF pre sc (S k) outer (cur ++ [name]) HsF Hw1) as CFp.
    pose proof (cf_tr CFe CFp) as CFh. rewrite app_nil_r in CFh.
    destruct (cons_sim (SExpr (EFunction name ps body)) r true (fun f y => yeval orc lit f st (EFunction name ps body) y)
                st (emit_opcode OPop stF) st' pre sc (S k) outer cur (ce ++ [byte_of_opcode OPop]) [] lp fa fn)
      as [ce2 [nb2 [k' [L Hk']]]]; try assumption; try reflexivity.
    - split.
      + intros _. split; [exists ce; reflexivity|]. rewrite code_len_emit_opcode.
        replace (code_len stF + 1 - 1) with (code_len stF) by lia. exact (cf_bk CFe).
      + intros prog lexit E Hle Hst fuel HC B tip ops y fin Hfo Hloc. unfold canon in E. rewrite removelast_last in E.
        assert (env3 prog st1 stF ce [] lexit) as Ee.
        { destruct E as [A1 A2 A3 A4 A5]. constructor; assumption. }
        destruct fuel as [|f]; [exact I|].
        rewrite ye_function, yfunction_tail, Est1. fold st1 sym.
        specialize (Hsim prog lexit Ee B tip ops y fin Hfo Hloc (cur_start (c_loops st))).
        change (code_len st1) with (code_len st) in Hsim. rewrite code_len_emit_opcode.
        destruct (yfun_tail ps body (Some sym) st1 y); try exact Hsim.
        cbn [sim_l sim2] in *. replace (code_len stF + 1 - 1) with (code_len stF) by lia. exact Hsim.
    - intros f y. apply (proj1 (yeval_loc_len orc lit (yres_loc_lit_pool pl) f)).
    - intros f last y. rewrite ys_expr. fold name. rewrite H2'. reflexivity.
    - exists ce2, nb2, k'. split; [exact L|lia].
  Qed.

  (** ** Calls *)

  (* the arguments, left to right: their values end up on the stack, the last one on top *)
  Definition sim_a (prog : program) (B : base) (s : vm) (ops : list val) (ip' : Z) (r : yres (list val)) : Prop :=
    match r with
    | YOk vs y' => exists fin' tip', reachesL orc prog s (mk B tip' (rev vs ++ ops) y' ip' fin') /\ funs_ok prog (y_funs y')
    | YBrk _ | YCnt _ => False
    | YRet v y' => forall ret cbp rest, b_rest B = mkFrame ret cbp :: rest ->
                   exists fin', reachesL orc prog s (ret_state B ret cbp rest v y' fin') /\ funs_ok prog (y_funs y')
    | YErr k out => stopsL orc prog s (Err k) out
    | YFault f out => stopsL orc prog s (Fault f) out
    | YExcl o m => xl prog o m s
    | YFuel => True
    end.

  Definition asim (args : list expr) : Prop :=
    forall fa fn st st' pre sc k outer cur, f4es fa fn args = true ->
    c_symbols st = ltab pre sc k outer cur -> pre_ok pre sc -> (length (flat outer cur) <= k)%nat ->
    CompilerNames.compile_exprs args st = Ok st' ->
    exists ce nb k', cfacts3 st st' pre sc k' outer cur ce nb /\ (k <= k')%nat /\
      forall prog lexit, env3 prog st st' ce nb lexit -> 0 <= lexit < 65536 ->
      0 <= cur_start (c_loops st) ->
      forall fuel, callsok prog fuel ->
      forall B tip ops y fin, funs_ok prog (y_funs y) -> loc_ok sc k' y ->
      sim_a prog B (mk B tip ops y (code_len st) fin) ops (code_len st') (yargs orc lit fuel st args y).

  Lemma yargs_len : forall f args st y vs y', yargs orc lit f st args y = YOk vs y' -> length vs = length args.
  Proof.
    intros f. induction args as [|x r IH]; intros st y vs y' H.
    - rewrite ya_nil in H. inversion H; reflexivity.
    - rewrite ya_cons in H. destruct (yeval orc lit f st x y) as [v y1| | | | | | |]; try discriminate H. cbn [ybind] in H.
      destruct (compile_expression x st) as [st1| | |]; try discriminate H.
      destruct (yargs orc lit f st1 r y1) as [vs1 y2| | | | | | |] eqn:E; try discriminate H. cbn [ybind] in H.
      inversion H; subst. cbn [length]. rewrite (IH _ _ _ _ E). reflexivity.
  Qed.

  Lemma asim_all : forall args, Forall esim args -> asim args.
  Proof.
    intros args H. induction H as [|x r IHx Hr IHr]; intros fa fn st st' pre sc k outer cur HF Hs Hp Hw Hc.
    - cbn [CompilerNames.compile_exprs] in Hc. inversion Hc; subst st'; clear Hc.
      exists [], [], k. split; [apply cfacts3_emit; auto; rewrite app_nil_r; reflexivity|]. split; [lia|].
      intros prog lexit _ _ _ fuel HC B tip ops y fin Hfo Hloc. rewrite ya_nil. cbn [sim_a rev app].
      exists fin, tip. split; [apply reachesL_refl|exact Hfo].
    - rewrite f4es_cons in HF. apply andb_prop in HF. destruct HF as [HFx HFr].
      cbn [CompilerNames.compile_exprs] in Hc. apply bind_ok in Hc. destruct Hc as [st1 [H1 Hc]].
      destruct (IHx false fa fn st st1 pre sc k outer cur HFx Hs Hp Hw H1) as [ce1 [nb1 [k1 [CF1 [Hk1 Hsim1]]]]].
      destruct (IHr fa fn st1 st' pre sc k1 outer cur HFr (cf_sy CF1) Hp (cf_w CF1) Hc) as [ce2 [nb2 [k2 [CF2 [Hk2 Hsim2]]]]].
      exists (ce1 ++ ce2), (nb1 ++ nb2), k2. split; [exact (cf_tr CF1 CF2)|]. split; [lia|].
      intros prog lexit E Hle Hst fuel HC B tip ops y fin Hfo Hloc. rewrite ya_cons, H1.
      destruct (env_two CF1 CF2 E) as [EL ER].
      specialize (Hsim1 prog lexit EL Hle Hst fuel HC B tip ops y fin Hfo (loc_ok_le _ _ _ _ Hk2 Hloc)).
      destruct (yeval orc lit fuel st x y) as [a y1|y1|y1|a y1|k0|x0| |] eqn:E1; cbn [ybind sim_a];
        try (nosig_contra fuel x fa fn st y HFx E1); try exact Hsim1.
      loclen fuel x st y E1 LL1.
      cbn [sim2] in Hsim1. destruct Hsim1 as [fin1 [tip1 [Hsim1 Hfo1]]].
      assert (0 <= cur_start (c_loops st1)) as Hst1 by (rewrite (cf_lp CF1), cur_start_add; exact Hst).
      specialize (Hsim2 prog lexit ER Hle Hst1 fuel HC B tip1 (a :: ops) y1 fin1 Hfo1 (loc_ok_len _ _ _ _ LL1 Hloc)).
      destruct (yargs orc lit fuel st1 r y1) as [vs y2|y2|y2|v y2|k0|x0| |]; cbn [ybind sim_a] in *.
      + destruct Hsim2 as [fin2 [tip2 [Hsim2 Hfo2]]]. exists fin2, tip2. split; [|exact Hfo2].
        cbn [rev]. rewrite <- app_assoc. cbn [app]. exact (reachesL_trans orc prog _ _ _ Hsim1 Hsim2).
      + contradiction.
      + contradiction.
      + intros ret cbp rest Hb. destruct (Hsim2 ret cbp rest Hb) as [fin2 [Hsim2' Hfo2]]. exists fin2.
        split; [exact (reachesL_trans orc prog _ _ _ Hsim1 Hsim2')|exact Hfo2].
      + exact (reachesL_stopsL orc prog _ _ _ _ Hsim1 Hsim2).
      + exact (reachesL_stopsL orc prog _ _ _ _ Hsim1 Hsim2).
      + exact (reachesL_xl prog _ _ _ _ Hsim1 Hsim2).
      + exact I.
  Qed.

  Lemma yblock_nosig : forall f b fa fn st y, f4b false fa fn b = true -> nosig (yblock orc lit f st b y).
  Proof.
    intros f b fa fn st y Hb. unfold yblock, yblock_g. destruct (is_nil b).
    - apply (proj2 (proj2 (yeval_nosig orc lit (nosig_lit_pool pl) f)) [] fa fn). reflexivity.
    - apply (proj2 (proj2 (yeval_nosig orc lit (nosig_lit_pool pl) f)) b fa fn). exact Hb.
  Qed.

  Lemma esim_call_fun : forall fn_ args, builtin_of fn_ = None -> esim fn_ -> Forall esim args -> esim (ECall fn_ args).
  Proof.
    intros fn_ args Enb IHf IHa0 lp fa fn st st' pre sc k outer cur HF Hs Hp Hw Hc.
    pose proof (asim_all args IHa0) as IHa.
    rewrite f4e_call in HF. apply andb_prop in HF. destruct HF as [HFa HFf].
    assert (f4e false fa fn fn_ = true) as HFf'.
    { apply orb_prop in HFf. destruct HFf as [Hb|Hb]; [|exact Hb].
      destruct fn_; try discriminate Hb. cbn [is_builtin_callee] in Hb. unfold is_builtin_name in Hb.
      cbn [builtin_of] in Enb. rewrite Enb in Hb. discriminate Hb. }
    clear HFf. rename HFf' into HFf.
    rewrite CompilerNames.ce_call in Hc. apply bind_ok in Hc. destruct Hc as [st1 [H1 Hc]].
    cbv zeta in Hc. change (match fn_ with EIdent name => assoc_text name builtin_names | _ => None end) with (builtin_of fn_) in Hc.
    rewrite Enb in Hc.
    apply bind_ok in Hc. destruct Hc as [st2 [H2 Hc]]. apply bind_ok in Hc. destruct Hc as [n [Hn Hc]].
    inversion Hc; subst st'; clear Hc.
    destruct (PoolProofs.operand_ok _ _ _ Hn) as [-> Rn]. clear Hn.
    destruct (IHa fa fn st st1 pre sc k outer cur HFa Hs Hp Hw H1) as [ce1 [nb1 [k1 [CF1 [Hk1 Hsim1]]]]].
    destruct (IHf false fa fn st1 st2 pre sc k1 outer cur HFf (cf_sy CF1) Hp (cf_w CF1) H2) as [ce2 [nb2 [k2 [CF2 [Hk2 Hsim2]]]]].
    set (st3 := emit_opcode OCall st2) in *.
    assert (cfacts3 st2 (emit_u8 (zlength args) st3) pre sc k2 outer cur [byte_of_opcode OCall; zlength args] []) as CF3.
    { apply cfacts3_emit; try reflexivity; [exact (cf_sy CF2)|exact (cf_w CF2)|].
      unfold st3. cbn [emit_u8 emit_opcode c_code]. rewrite <- app_assoc. reflexivity. }
    pose proof (cf_tr CF2 CF3) as CF23. pose proof (cf_tr CF1 CF23) as CF.
    eexists; eexists; exists k2. split; [exact CF|]. split; [lia|].
    intros prog lexit E Hle Hst fuel HC B tip ops y fin Hfo Hloc. destruct fuel as [|f]; [exact I|].
    rewrite ye_call, Enb, H1. pose proof (callsok_S _ _ HC) as HC'.
    destruct (env_two CF1 CF23 E) as [EL ER]. destruct (env_two CF2 CF3 ER) as [ERL [ERc _ _ _ _]].
    specialize (Hsim1 prog lexit EL Hle Hst f HC' B tip ops y fin Hfo (loc_ok_le _ _ _ _ Hk2 Hloc)).
    pose proof (yargs_nosig orc lit (nosig_lit_pool pl) f args fa fn st y HFa) as Nsa.
    pose proof (yargs_loc_len orc lit (yres_loc_lit_pool pl) f args st y) as LLa.
    destruct (yargs orc lit f st args y) as [vs y1|y1|y1|v y1|k0 o0|x0 o0|o0|] eqn:Ea; cbn [ybind sim_a nosig yres_loc] in *;
      try contradiction; try exact Hsim1.
    pose proof (yargs_len f args st y vs y1 Ea) as Lvs.
    destruct Hsim1 as [fin1 [tip1 [Hsim1 Hfo1]]].
    assert (0 <= cur_start (c_loops st1)) as Hst1 by (rewrite (cf_lp CF1), cur_start_add; exact Hst).
    specialize (Hsim2 prog lexit ERL Hle Hst1 f HC' B tip1 (rev vs ++ ops) y1 fin1 Hfo1 (loc_ok_len _ _ _ _ LLa Hloc)).
    rewrite (cf_lp CF1), cur_start_add in Hsim2.
    destruct (yeval orc lit f st1 fn_ y1) as [fv y2|y2|y2|fv y2|k0 o0|x0 o0|o0|] eqn:Ef; cbn [ybind];
      try (nosig_contra f fn_ fa fn st1 y1 HFf Ef); try (exc1 Hsim1 Hsim2).
    loclen f fn_ st1 y1 Ef LLf.
    cbn [sim2] in Hsim2. destruct Hsim2 as [fin2 [tip2 [Hsim2 Hfo2]]].
    set (sc0 := mk B tip2 (fv :: rev vs ++ ops) y2 (code_len st2) fin2) in *.
    assert (reachesL orc prog (mk B tip ops y (code_len st) fin) sc0) as Hsc
      by exact (reachesL_trans orc prog _ _ _ Hsim1 Hsim2).
    cbn [brk_holes flat_map] in ERc. pose proof (code_x_V _ _ _ ERc) as Hcall.
    assert (zlength args = zlength vs) as Lz by (unfold zlength; rewrite Lvs; reflexivity).
    rewrite Lz in Hcall.
    assert (code_len (emit_u8 (zlength args) st3) = code_len st2 + 2) as L'.
    { rewrite (cf_len CF3). reflexivity. }
    assert (step_ng orc prog sc0 = step orc prog sc0) as Hng.
    { apply (step_ng_eq orc prog sc0 OCall _ Hcall); discriminate. }
    unfold ycall, ycall_g.
    destruct fv as [| | |fip n| | |];
      try (cbn [sim2]; refine (reachesL_stopsL orc _ _ _ _ _ Hsc _); stop_mk; rewrite Hng;
           apply (VMStepProofs.call_non_function orc prog sc0 (zlength vs) _ ((rev vs ++ ops) ++ rev (y_loc y2) ++ b_below B) []
                    Hcall eq_refl); intros; discriminate).
    destruct (n <? zlength vs) eqn:En.
    { apply Z.ltb_lt in En. cbn [sim2]. refine (reachesL_stopsL orc _ _ _ _ _ Hsc _). stop_mk. rewrite Hng.
      exact (VMStepProofs.arity_checked orc prog sc0 (zlength vs) fip n ((rev vs ++ ops) ++ rev (y_loc y2) ++ b_below B) []
               Hcall eq_refl En). }
    apply Z.ltb_ge in En.
    destruct (find_fun fip (y_funs y2)) as [fe|] eqn:Eff; [|exact I].
    destruct (find_fun_ok prog _ _ _ Hfo2 Eff) as [Hfe Hfip].
    destruct (fe_n fe =? n) eqn:Een; cbn [negb]; [|exact I]. apply Z.eqb_eq in Een.
    destruct (Z.of_nat (length (fe_ps fe)) <? zlength vs) eqn:Eov.
    { (* more arguments than parameters: the excluded call *)
      cbn [sim2]. apply (reachesL_xl prog _ _ _ sc0 Hsc). right. exists O, sc0. split; [reflexivity|].
      rewrite Hfip, Een. split; [exact (mk_at_call prog B tip2 ops y2 (code_len st2) fin2 fip n vs [] Hcall En)|].
      unfold sc0, y_out. mkcbn. lia. }
    set (y0 := mkY (y_m y2) (vs ++ repeat_val VNull (Z.to_nat (n - zlength vs))) (y_funs y2)).
    set (B' := mkB (ops ++ rev (y_loc y2) ++ b_below B) (mkFrame (code_len st2 + 2) (zlength (b_below B)) :: b_rest B)).
    set (s0 := mk B' fip [] y0 fip fin2).
    assert (Z.of_nat (length (y_loc y0)) = fe_n fe) as Ly0.
    { unfold y0. cbn [y_loc]. rewrite app_length, length_repeat_val. unfold zlength in *.
      pose proof (Zle_0_nat (length vs)). lia. }
    pose proof (HC f ltac:(lia) fe Hfe B' fip y0 fin2 Hfo2 Ly0) as Hbody. rewrite Hfip in Hbody. fold s0 in Hbody.
    pose proof (yblock_nosig f (fe_body fe) true true (fe_st fe) y0 (fo_f3 _ _ Hfe)) as Nsb.
    change (yblock_g (ystmts orc lit f) (fe_st fe) (fe_body fe) y0) with (yblock orc lit f (fe_st fe) (fe_body fe) y0).
    destruct (mk_step_call orc prog B tip2 ops y2 (code_len st2) fin2 fip n vs [] Hcall En) as [Hlim|Hstep].
    { (* the stack / frame limit: an excluded state *)
      fold sc0 in Hlim.
      pose proof (ygrow_block orc lit f (proj2 (proj2 (yeval_grows orc lit (lit_pool_grows pl) f)))
                    (fe_st fe) (fe_body fe) y0) as Hgb.
      assert (forall Bd, yn y0 <= Bd -> exclL orc prog Bd (mk B tip ops y (code_len st) fin)) as Hx.
      { intros Bd HB. apply (reachesL_excl orc prog _ _ sc0 Hsc).
        apply (exclL_weaken orc prog (n_alloc (v_heap sc0)) Bd sc0 HB). apply exclL_now. left. exact Hlim. }
      destruct (yblock orc lit f (fe_st fe) (fe_body fe) y0) as [v y3|y3|y3|v y3|e o0|x o0|o0 m0|]; cbn [body_res nosig ygrow] in *;
        try contradiction.
      - cbn [sim2].
        destruct (Hbody (code_len st2 + 2) (zlength (b_below B)) (b_rest B) eq_refl) as [fin3 [_ Hfo3]].
        exists fin, tip. split; [right; apply Hx; exact Hgb|exact Hfo3].
      - cbn [sim2].
        destruct (Hbody (code_len st2 + 2) (zlength (b_below B)) (b_rest B) eq_refl) as [fin3 [_ Hfo3]].
        exists fin, tip. split; [right; apply Hx; exact Hgb|exact Hfo3].
      - right. apply Hx. exact Hgb.
      - right. apply Hx. exact Hgb.
      - left. apply Hx. exact Hgb.
      - exact I. }
    fold sc0 y0 B' s0 in Hstep.
    assert (reachesL orc prog (mk B tip ops y (code_len st) fin) s0) as Hs0
      by exact (reachesL_trans orc prog _ _ _ Hsc (reachesL_step orc prog _ _ Hstep)).
    destruct (yblock orc lit f (fe_st fe) (fe_body fe) y0) as [v y3|y3|y3|v y3|e o0|x o0|o0|]; cbn [body_res nosig] in *;
      try contradiction.
    - cbn [sim2].
      destruct (Hbody (code_len st2 + 2) (zlength (b_below B)) (b_rest B) eq_refl) as [fin3 [Hret Hfo3]].
      exists fin3, (code_len st2 + 2). split; [|exact Hfo3]. rewrite L'.
      unfold B' in Hret. rewrite (ret_state_caller B ops (y_loc y2) (code_len st2 + 2) v y3 fin3 (y_funs y3)) in Hret.
      exact (reachesL_trans orc prog _ _ _ Hs0 Hret).
    - cbn [sim2].
      destruct (Hbody (code_len st2 + 2) (zlength (b_below B)) (b_rest B) eq_refl) as [fin3 [Hret Hfo3]].
      exists fin3, (code_len st2 + 2). split; [|exact Hfo3]. rewrite L'.
      unfold B' in Hret. rewrite (ret_state_caller B ops (y_loc y2) (code_len st2 + 2) v y3 fin3 (y_funs y3)) in Hret.
      exact (reachesL_trans orc prog _ _ _ Hs0 Hret).
    - cbn [sim2]. exact (reachesL_stopsL orc prog _ _ _ _ Hs0 Hbody).
    - cbn [sim2]. exact (reachesL_stopsL orc prog _ _ _ _ Hs0 Hbody).
    - cbn [sim2]. exact (reachesL_xl prog _ _ _ _ Hs0 Hbody).
    - exact I.
  Qed.

  (** ** The constructs of F2h: literals through the pool, arrays, indexing, builtin calls *)

  Lemma esim_lit : forall e c, (forall st, compile_expression e st = emit_const c (count_alloc st)) ->
    const_eqb c c = true -> (forall f st y, yeval orc lit (S f) st e y = lit c y) -> esim e.
  Proof.
    intros e c Hce Hrefl Hev lp fa fn st st' pre sc k outer cur HF Hs Hp Hw Hc. rewrite Hce in Hc.
    pose proof (emit_const_loops3 _ _ _ Hc) as Hl.
    destruct (emit_const_spec c (count_alloc st) st' Hc) as [Hsy [_ [idx [kx [Hcode [Hk [_ [Hr Hpos]]]]]]]].
    cbn [count_alloc c_symbols c_loops c_code c_constants] in Hsy, Hl, Hcode, Hk, Hpos.
    exists [byte_of_opcode OConst; idx mod 256; (idx / 256) mod 256], [], k.
    split; [|split; [lia|]].
    { constructor; try assumption.
      - congruence.
      - exists kx. exact Hk.
      - rewrite add_breaks_nil. exact Hl.
      - reflexivity.
      - cbn [brk_ok]. rewrite (code_len_app _ _ _ Hcode). rewrite zlength3. lia. }
    intros prog lexit [E1 E2 _ Epl Ewf] _ _ fuel HC B tip ops y fin Hfo Hloc. destruct fuel as [|f]; [exact I|].
    rewrite Hev. unfold lit_pool.
    pose proof (code_x_at3 _ _ _ _ _ _ _ E1 (holes_nil _ _)) as Hat.
    rewrite Hk in Epl.
    destruct (pool_find_emitted prog pl c st idx kx Epl Hrefl Hpos) as [Hfind Hlt].
    destruct (nth_error (p_consts prog) (Z.to_nat idx)) as [v|] eqn:En; [|apply nth_error_None in En; lia].
    rewrite Hfind.
    pose proof (mk_step_const orc prog B tip ops y (code_len st) fin idx v [] Hat Hr En) as Hstep.
    rewrite (code_len_app _ _ _ Hcode), zlength3.
    exact (sim2_res prog B _ tip _ ops y _ _ fin _ _ _ (reachesL_refl orc prog _) Hstep Hfo).
  Qed.

  Lemma esim_float : forall x, esim (EFloat x).
  Proof.
    intros x lp fa fn st st' pre sc k outer cur HF.
    exact (esim_lit (EFloat x) (KFloat x) (ce_float x) HF (fun f st y => ye_float orc lit f st x y)
                    lp fa fn st st' pre sc k outer cur HF).
  Qed.

  Lemma esim_string : forall t, esim (EString t).
  Proof.
    exact (fun t => esim_lit (EString t) (KStr t) (ce_string t) (const_eqb_str_refl t)
                             (fun f st y => ye_string orc lit f st t y)).
  Qed.

  Lemma esim_array : forall vs, Forall esim vs -> esim (EArray vs).
  Proof.
    intros vs IH0 lp fa fn st st' pre sc k outer cur HF Hs Hp Hw Hc. pose proof (asim_all vs IH0) as IH.
    rewrite f4e_array in HF.
    rewrite CompilerNames.ce_array in Hc. apply bind_ok in Hc. destruct Hc as [st1 [H1 Hc]]. cbv zeta in Hc.
    apply bind_ok in Hc. destruct Hc as [n [Hn Hc]]. inversion Hc; subst st'; clear Hc.
    destruct (operand16_ok _ _ (zlength_nonneg _ vs) Hn) as [-> Hr]. clear Hn.
    destruct (IH fa fn st st1 pre sc k outer cur HF Hs Hp Hw H1) as [ce1 [nb1 [k1 [CF1 [Hk1 Hsim1]]]]].
    pose proof (cfacts3_emit_u16op OArray (zlength vs) st1 pre sc k1 outer cur (cf_sy CF1) (cf_w CF1)) as CF2.
    pose proof (cf_tr CF1 CF2) as CF.
    eexists; eexists; exists k1. split; [exact CF|]. split; [exact Hk1|].
    intros prog lexit E Hle Hst fuel HC B tip ops y fin Hfo Hloc. destruct fuel as [|f]; [exact I|].
    rewrite ye_array.
    destruct (env_two CF1 CF2 E) as [EL [ERc _ _ _ _]].
    specialize (Hsim1 prog lexit EL Hle Hst f (callsok_S _ _ HC) B tip ops y fin Hfo Hloc).
    pose proof (yargs_nosig orc lit (nosig_lit_pool pl) f vs fa fn st y HF) as Nsa.
    destruct (yargs orc lit f st vs y) as [xs y1|y1|y1|v y1|k0 o0|x0 o0|o0|] eqn:Ea; cbn [ybind sim_a sim2 nosig] in *;
      try contradiction; try exact Hsim1.
    destruct Hsim1 as [fin1 [tip1 [Hsim1 Hfo1]]].
    pose proof (yargs_len f vs st y xs y1 Ea) as Lxs.
    cbn [brk_holes flat_map] in ERc. pose proof (code_x_at3 _ _ _ _ _ _ _ ERc (holes_nil _ _)) as Hat.
    assert (zlength xs = zlength vs) as Hlen by (unfold zlength; rewrite Lxs; reflexivity).
    pose proof (mk_step_array orc prog B tip1 ops y1 (code_len st1) fin1 (zlength vs) xs [] Hat Hr Hlen) as Hstep.
    rewrite (cf_len CF2), zlength3.
    exact (sim2_res prog B _ tip1 _ ops y1 _ _ fin1 _ _ _ Hsim1 Hstep Hfo1).
  Qed.

  Lemma esim_index : forall l i, esim l -> esim i -> esim (EIndex l i).
  Proof.
    intros l i IHl IHi lp fa fn st st' pre sc k outer cur HF Hs Hp Hw Hc. rewrite f4e_index in HF.
    apply andb_prop in HF. destruct HF as [Hl Hi].
    rewrite CompilerNames.ce_index in Hc. apply bind_ok in Hc. destruct Hc as [st1 [H1 Hc]].
    apply bind_ok in Hc. destruct Hc as [st2 [H2 Hc]]. inversion Hc; subst st'; clear Hc.
    destruct (IHl false fa fn st st1 pre sc k outer cur Hl Hs Hp Hw H1) as [ce1 [nb1 [k1 [CF1 [Hk1 Hsim1]]]]].
    destruct (IHi false fa fn st1 st2 pre sc k1 outer cur Hi (cf_sy CF1) Hp (cf_w CF1) H2) as [ce2 [nb2 [k2 [CF2 [Hk2 Hsim2]]]]].
    pose proof (cfacts3_emit_opcode OIndexGet st2 pre sc k2 outer cur (cf_sy CF2) (cf_w CF2)) as CF3.
    pose proof (cf_tr CF2 CF3) as CF23. pose proof (cf_tr CF1 CF23) as CF.
    eexists; eexists; exists k2. split; [exact CF|]. split; [lia|].
    intros prog lexit E Hle Hst fuel HC B tip ops y fin Hfo Hloc. destruct fuel as [|f]; [exact I|].
    rewrite ye_index, H1. pose proof (callsok_S _ _ HC) as HC'.
    destruct (env_two CF1 CF23 E) as [EL ER]. destruct (env_two CF2 CF3 ER) as [ERL [ERc _ _ _ _]].
    specialize (Hsim1 prog lexit EL Hle Hst f HC' B tip ops y fin Hfo (loc_ok_le _ _ _ _ Hk2 Hloc)).
    destruct (yeval orc lit f st l y) as [a y1|y1|y1|a y1|k0 o0|x0 o0|o0|] eqn:E1; cbn [ybind];
      try (nosig_contra f l fa fn st y Hl E1); try (exc0 Hsim1).
    loclen f l st y E1 LL1.
    cbn [sim2] in Hsim1. destruct Hsim1 as [fin1 [tip1 [Hsim1 Hfo1]]].
    assert (0 <= cur_start (c_loops st1)) as Hst1 by (rewrite (cf_lp CF1), cur_start_add; exact Hst).
    specialize (Hsim2 prog lexit ERL Hle Hst1 f HC' B tip1 (a :: ops) y1 fin1 Hfo1 (loc_ok_len _ _ _ _ LL1 Hloc)).
    rewrite (cf_lp CF1), cur_start_add in Hsim2.
    destruct (yeval orc lit f st1 i y1) as [b y2|y2|y2|b y2|k0 o0|x0 o0|o0|] eqn:E2; cbn [ybind];
      try (nosig_contra f i fa fn st1 y1 Hi E2); try (exc1 Hsim1 Hsim2).
    cbn [sim2] in Hsim2. destruct Hsim2 as [fin2 [tip2 [Hsim2 Hfo2]]].
    cbn [brk_holes flat_map] in ERc. pose proof (code_x_at1 _ _ _ _ _ ERc (fun x => x)) as Hat.
    pose proof (mk_step_index_get orc prog B tip2 ops y2 (code_len st2) fin2 b a [] Hat) as Hstep.
    rewrite (code_len_emit_opcode OIndexGet st2).
    exact (sim2_res prog B _ tip2 _ ops y2 _ _ fin2 _ _ _ (reachesL_trans orc prog _ _ _ Hsim1 Hsim2) Hstep Hfo2).
  Qed.

  Lemma esim_assign_index : forall l i r, esim l -> esim i -> esim r -> esim (EAssign (EIndex l i) r).
  Proof.
    intros l i r IHl IHi IHr lp fa fn st st' pre sc k outer cur HF Hs Hp Hw Hc. rewrite f4e_assign_index in HF.
    apply andb_prop in HF. destruct HF as [HF Hr]. apply andb_prop in HF. destruct HF as [Hl Hi].
    rewrite ce_assign_index in Hc. apply bind_ok in Hc. destruct Hc as [st1 [H1 Hc]].
    apply bind_ok in Hc. destruct Hc as [st2 [H2 Hc]].
    apply bind_ok in Hc. destruct Hc as [st3 [H3 Hc]]. inversion Hc; subst st'; clear Hc.
    destruct (IHl false fa fn st st1 pre sc k outer cur Hl Hs Hp Hw H1) as [ce1 [nb1 [k1 [CF1 [Hk1 Hsim1]]]]].
    destruct (IHi false fa fn st1 st2 pre sc k1 outer cur Hi (cf_sy CF1) Hp (cf_w CF1) H2) as [ce2 [nb2 [k2 [CF2 [Hk2 Hsim2]]]]].
    destruct (IHr false fa fn st2 st3 pre sc k2 outer cur Hr (cf_sy CF2) Hp (cf_w CF2) H3) as [ce3 [nb3 [k3 [CF3 [Hk3 Hsim3]]]]].
    pose proof (cfacts3_emit_opcode OIndexSet st3 pre sc k3 outer cur (cf_sy CF3) (cf_w CF3)) as CF4.
    pose proof (cf_tr CF3 CF4) as CF34. pose proof (cf_tr CF2 CF34) as CF24. pose proof (cf_tr CF1 CF24) as CF.
    eexists; eexists; exists k3. split; [exact CF|]. split; [lia|].
    intros prog lexit E Hle Hst fuel HC B tip ops y fin Hfo Hloc. destruct fuel as [|f]; [exact I|].
    rewrite ye_assign_index, H1. pose proof (callsok_S _ _ HC) as HC'.
    destruct (env_two CF1 CF24 E) as [EL ER]. destruct (env_two CF2 CF34 ER) as [ERL ERR].
    destruct (env_two CF3 CF4 ERR) as [ERRL [ERc _ _ _ _]].
    specialize (Hsim1 prog lexit EL Hle Hst f HC' B tip ops y fin Hfo (loc_ok_le sc k1 k3 y ltac:(lia) Hloc)).
    destruct (yeval orc lit f st l y) as [a y1|y1|y1|a y1|k0 o0|x0 o0|o0|] eqn:E1; cbn [ybind];
      try (nosig_contra f l fa fn st y Hl E1); try (exc0 Hsim1).
    loclen f l st y E1 LL1.
    cbn [sim2] in Hsim1. destruct Hsim1 as [fin1 [tip1 [Hsim1 Hfo1]]].
    assert (cur_start (c_loops st1) = cur_start (c_loops st)) as Cs1 by (rewrite (cf_lp CF1), cur_start_add; reflexivity).
    assert (cur_start (c_loops st2) = cur_start (c_loops st)) as Cs2 by (rewrite (cf_lp CF2), cur_start_add; exact Cs1).
    specialize (Hsim2 prog lexit ERL Hle ltac:(rewrite Cs1; exact Hst) f HC' B tip1 (a :: ops) y1 fin1 Hfo1
                      (loc_ok_len _ _ _ _ LL1 (loc_ok_le _ _ _ _ Hk3 Hloc))).
    rewrite Cs1 in Hsim2. rewrite H2.
    destruct (yeval orc lit f st1 i y1) as [b y2|y2|y2|b y2|k0 o0|x0 o0|o0|] eqn:E2; cbn [ybind];
      try (nosig_contra f i fa fn st1 y1 Hi E2); try (exc1 Hsim1 Hsim2).
    loclen f i st1 y1 E2 LL2.
    cbn [sim2] in Hsim2. destruct Hsim2 as [fin2 [tip2 [Hsim2 Hfo2]]].
    assert (reachesL orc prog (mk B tip ops y (code_len st) fin) (mk B tip2 (b :: a :: ops) y2 (code_len st2) fin2)) as Hsb
      by exact (reachesL_trans orc prog _ _ _ Hsim1 Hsim2).
    specialize (Hsim3 prog lexit ERRL Hle ltac:(rewrite Cs2; exact Hst) f HC' B tip2 (b :: a :: ops) y2 fin2 Hfo2
                      (loc_ok_len _ _ _ _ (eq_trans LL2 LL1) Hloc)).
    rewrite Cs2 in Hsim3.
    destruct (yeval orc lit f st2 r y2) as [c y3|y3|y3|c y3|k0 o0|x0 o0|o0|] eqn:E3; cbn [ybind];
      try (nosig_contra f r fa fn st2 y2 Hr E3); try (exc1 Hsb Hsim3).
    cbn [sim2] in Hsim3. destruct Hsim3 as [fin3 [tip3 [Hsim3 Hfo3]]].
    cbn [brk_holes flat_map] in ERc. pose proof (code_x_at1 _ _ _ _ _ ERc (fun x => x)) as Hat.
    pose proof (mk_step_index_set orc prog B tip3 ops y3 (code_len st3) fin3 c b a [] Hat) as Hstep.
    rewrite (code_len_emit_opcode OIndexSet st3).
    exact (sim2_res prog B _ tip3 _ ops y3 _ _ fin3 _ _ _ (reachesL_trans orc prog _ _ _ Hsb Hsim3) Hstep Hfo3).
  Qed.

  Lemma esim_call_builtin : forall fn_ b args, builtin_of fn_ = Some b -> Forall esim args -> esim (ECall fn_ args).
  Proof.
    intros fn_ b args Eb IH0 lp fa fn st st' pre sc k outer cur HF Hs Hp Hw Hc. pose proof (asim_all args IH0) as IH.
    rewrite f4e_call in HF. apply andb_prop in HF. destruct HF as [HF _].
    rewrite CompilerNames.ce_call in Hc. apply bind_ok in Hc. destruct Hc as [st1 [H1 Hc]].
    cbv zeta in Hc. change (match fn_ with EIdent name => assoc_text name builtin_names | _ => None end) with (builtin_of fn_) in Hc.
    rewrite Eb in Hc. apply bind_ok in Hc. destruct Hc as [n [Hn Hc]]. inversion Hc; subst st'; clear Hc.
    destruct (operand8_ok _ _ (zlength_nonneg _ args) Hn) as [-> Hr]. clear Hn.
    destruct (IH fa fn st st1 pre sc k outer cur HF Hs Hp Hw H1) as [ce1 [nb1 [k1 [CF1 [Hk1 Hsim1]]]]].
    set (n := zlength args) in *.
    set (st2 := emit_u8 n (emit_u8 (byte_of_builtin b) (emit_opcode OCallBuiltin st1))) in *.
    assert (cfacts3 st1 st2 pre sc k1 outer cur [byte_of_opcode OCallBuiltin; byte_of_builtin b; n] []) as CF2.
    { apply cfacts3_emit; try reflexivity; [exact (cf_sy CF1)|exact (cf_w CF1)|].
      unfold st2. cbn [emit_u8 emit_opcode c_code]. rewrite <- !app_assoc. reflexivity. }
    pose proof (cf_tr CF1 CF2) as CF.
    eexists; eexists; exists k1. split; [exact CF|]. split; [exact Hk1|].
    intros prog lexit E Hle Hst fuel HC B tip ops y fin Hfo Hloc. destruct fuel as [|f]; [exact I|].
    rewrite ye_call, Eb.
    destruct (env_two CF1 CF2 E) as [EL [ERc _ _ _ _]].
    specialize (Hsim1 prog lexit EL Hle Hst f (callsok_S _ _ HC) B tip ops y fin Hfo Hloc).
    pose proof (yargs_nosig orc lit (nosig_lit_pool pl) f args fa fn st y HF) as Nsa.
    destruct (yargs orc lit f st args y) as [xs y1|y1|y1|v y1|k0 o0|x0 o0|o0|] eqn:Ea; cbn [ybind sim_a sim2 nosig] in *;
      try contradiction; try exact Hsim1.
    destruct Hsim1 as [fin1 [tip1 [Hsim1 Hfo1]]].
    pose proof (yargs_len f args st y xs y1 Ea) as Lxs.
    cbn [brk_holes flat_map] in ERc. pose proof (code_x_at3 _ _ _ _ _ _ _ ERc (holes_nil _ _)) as Hat.
    assert (zlength xs = n) as Hlen by (unfold n, zlength; rewrite Lxs; reflexivity).
    pose proof (mk_step_builtin orc prog B tip1 ops y1 (code_len st1) fin1 b n xs [] Hat Hlen) as Hstep.
    rewrite (cf_len CF2), zlength3.
    exact (sim2_res prog B _ tip1 _ ops y1 _ _ fin1 _ _ _ Hsim1 Hstep Hfo1).
  Qed.

  Lemma esim_call : forall fn_ args, esim fn_ -> Forall esim args -> esim (ECall fn_ args).
  Proof.
    intros fn_ args IHf IHa. destruct (builtin_of fn_) as [b|] eqn:Eb.
    - exact (esim_call_builtin fn_ b args Eb IHa).
    - exact (esim_call_fun fn_ args Eb IHf IHa).
  Qed.

  (** ** All expressions and statements of the fragment *)

  Lemma lsim_of_forall : forall l, Forall ssim l -> lsim l.
  Proof. intros l H. induction H as [|s r Hs Hr IH]; [exact lsim_nil|exact (Hs r IH)]. Qed.

  Lemma esim_outside : forall e, (forall lp fa fn, f4e lp fa fn e = false) -> esim e.
  Proof. intros e H lp fa fn st st' pre sc k outer cur HF. rewrite H in HF. discriminate HF. Qed.

  (* for a function literal the induction also carries the simulation of its body *)
  Definition esim' (e : expr) : Prop :=
    esim e /\ match e with EFunction _ _ body => lsim body | EIndex b i => esim b /\ esim i | _ => True end.

  Theorem sim_all3 : (forall e, esim' e) /\ (forall s, ssim s).
  Proof.
    apply expr_stmt_ind.
    - intros l o r [Hl _] [Hr _]. split; [exact (esim_infix l o r Hl Hr)|exact I].
    - intros o r [Hr _]. split; [exact (esim_prefix o r Hr)|exact I].
    - intros z. split; [exact (esim_int z)|exact I].
    - intros x. split; [exact (esim_float x)|exact I].
    - intros b. split; [exact (esim_bool b)|exact I].
    - intros c t alt [Hc _] Ht Ha. split; [|exact I]. apply (esim_if c t alt Hc (lsim_of_forall t Ht)).
      destruct alt as [b|]; [exact (lsim_of_forall b Ha)|exact I].
    - intros x. split; [exact (esim_ident x)|exact I].
    - intros n ps body Hb. pose proof (lsim_of_forall body Hb) as Lb. split; [exact (esim_function n ps body Lb)|exact Lb].
    - intros h args [Hh _] Ha. split; [|exact I]. apply (esim_call h args Hh).
      apply Forall_forall. intros x Hx. exact (proj1 (proj1 (Forall_forall _ _) Ha x Hx)).
    - intros l r [_ Hl] [Hr _]. split; [|exact I].
      destruct l as [e1 o e2|o e1|z|fl|bb|c t alt|x|name ps body|fn_ args|e1 e2|str|vs|e1 e2|c body];
        try (apply esim_outside; reflexivity); [exact (esim_assign x r Hr)|].
      destruct Hl as [Hb Hi]. exact (esim_assign_index e1 e2 r Hb Hi Hr).
    - intros x. split; [exact (esim_string x)|exact I].
    - intros vs Hvs. split; [|exact I]. apply esim_array.
      apply Forall_forall. intros x Hx. exact (proj1 (proj1 (Forall_forall _ _) Hvs x Hx)).
    - intros b i [Hb _] [Hi _]. split; [exact (esim_index b i Hb Hi)|split; assumption].
    - intros c b [Hc _] Hb. split; [exact (esim_while c b Hc (lsim_of_forall b Hb))|exact I].
    - intros n e [He _]. exact (ssim_let n e He).
    - intros e [He _]. exact (ssim_return e He).
    - intros e [He Hb].
      destruct e as [e1 o e2|o e1|z|fl|bb|c t alt|x|name ps body|fn_ args|e1 e2|str|vs|e1 e2|c body];
        try (apply ssim_expr; [intros; discriminate|exact He]).
      destruct name as [|c0 nm].
      + apply ssim_expr; [intros; discriminate|exact He].
      + exact (ssim_fundecl c0 nm ps body Hb).
    - intros b Hb. exact (ssim_block b (lsim_of_forall b Hb)).
    - exact ssim_break.
    - exact ssim_continue.
  Qed.

  Theorem lsim_all : forall l, lsim l.
  Proof. intros l. apply lsim_of_forall. apply Forall_forall. intros s _. apply (proj2 sim_all3). Qed.

  Theorem esim_all : forall e, esim e.
  Proof. intros e. exact (proj1 (proj1 sim_all3 e)). Qed.

  (** ** Every call is simulated: the hypothesis of the structural induction, by induction on the fuel *)

  Theorem calls_ok : forall prog f, CallOK prog f.
  Proof.
    intros prog f. induction f as [f IH] using (well_founded_induction lt_wf).
    intros fe Hfe B tip y0 fin Hfo Ly.
    destruct Hfe as [[pre' [Hp' Hs3]] Hl Hip HF [st4 [ce [Hc [Hcode [Hn [Hn65 [Hk [Hpa [Hpw Hx]]]]]]]]]].
    destruct (body_all (fe_body fe) (lsim_all _) HF (fe_st fe) st4 pre' (length (fe_ps fe)) (fe_ps fe) Hs3 Hp'
                (Nat.le_refl _) Hl Hc) as [ce_b [k4 [Hs4 [Hk4 [Hcode4 [_ [_ [_ Hbody]]]]]]]].
    assert (ce_b = ce) as -> by (rewrite Hcode in Hcode4; exact (eq_sym (app_inv_head _ _ _ Hcode4))).
    rewrite Hs4, leave_context_ltab in Hn. cbn [snd] in Hn.
    rewrite Hip in *. apply Hbody; try assumption.
    - lia.
    - lia.
  Qed.

End Sim.

End WithPool.

Print Assumptions sim_all3.
Print Assumptions calls_ok.
