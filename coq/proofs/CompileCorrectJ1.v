(* CompileCorrectJ1.v - compiler correctness for the fragment F4 (functions AND heap values AND builtins;
   spec/Fragment4.v), part J1: THE COLLECTOR IS UNOBSERVABLE AT THE MACHINE LEVEL.

   The machine of model/VM.v runs the collector at every OReturn / OReturnValue.  Here it is compared
   with the COLLECTION-FREE machine `step_ng`: the same dispatch loop, except that the two return
   instructions do not call the collector and Halt does not untrace.  Facts used:
     - Value.h_alloc always takes `next_loc`, which only grows, and a released box stays in the
       cell map flagged dead: a location is NEVER reused;
     - a collection only flips the alive flag of boxes that are unreachable from the root list
       (GCProofs.run_char), and the root list of VM.roots contains everything the machine holds
       (VMGCProofs: VMInv is kept by every step, collect_ok: a collection point never fails).
   So along a run the heap of the real machine is the heap of the collection-free machine with some
   boxes flagged dead (`hle`), all other components of the state are EQUAL (`vsim`), and - because
   every value-level function of Ops.v / Builtins.v / VM.v only READS live boxes (monotonicity in
   `hle`, relation `ole`) and the real machine never reads a dead box (VMGCProofs.vm_no_heap_fault) -
   the two machines run in lockstep: same instruction pointer, same stack, same output, same error.

   Main results:  `gc_lockstep` (one instruction), `collect_hle` (the collection lemma: what a
   collection does to the relation), `gc_unobservable_steps` / `gc_unobservable_stop` (runs),
   `ng_alloc_mono`. *)
From Coq Require Import ZArith Lia Bool List String.
From NL.Model Require Import VM.
From NL.Spec Require Import GCInv VMInv.
From NL.Proofs Require Import GCProofs VMGCLedger VMGCProofs.
From NL.Proofs Require CompileCorrectH3 CompileCorrectA.
Open Scope Z_scope.

(** * The real heap is the collection-free heap with some boxes flagged dead *)

Record hle (hr hn : heap) : Prop := mkHle {
  hle_next : next_loc hr = next_loc hn;
  hle_nalloc : n_alloc hr = n_alloc hn;
  hle_cells : forall l, h_alive hr l = true -> PM.find l (cells hn) = PM.find l (cells hr)
}.

Lemma hle_refl : forall h, hle h h.
Proof. intros h. constructor; auto. Qed.

Lemma hle_alive : forall hr hn l, hle hr hn -> h_alive hr l = true -> h_alive hn l = true.
Proof.
  intros hr hn l H Ha. unfold h_alive. rewrite (hle_cells _ _ H l Ha). exact Ha.
Qed.

Lemma hle_trans : forall h1 h2 h3, hle h1 h2 -> hle h2 h3 -> hle h1 h3.
Proof.
  intros h1 h2 h3 A B. constructor.
  - rewrite (hle_next _ _ A). exact (hle_next _ _ B).
  - rewrite (hle_nalloc _ _ A). exact (hle_nalloc _ _ B).
  - intros l Ha. rewrite (hle_cells _ _ B l (hle_alive _ _ _ A Ha)). exact (hle_cells _ _ A l Ha).
Qed.

(** * Outcomes: what the real side computes without touching a dead box, the other side computes too *)

Definition ole {A B} (P : A -> B -> Prop) (x : outcome A) (y : outcome B) : Prop :=
  match x with
  | Ok a => exists b, y = Ok b /\ P a b
  | Err k => y = Err k
  | Fault f => f = FUseAfterFree \/ y = Fault f
  | OutOfFuel => y = OutOfFuel
  end.

Lemma ole_bind : forall A B A' B' (P : A -> B -> Prop) (Q : A' -> B' -> Prop)
  (x : outcome A) (y : outcome B) (k : A -> outcome A') (k' : B -> outcome B'),
  ole P x y -> (forall a b, P a b -> ole Q (k a) (k' b)) -> ole Q (bind x k) (bind y k').
Proof.
  intros A B A' B' P Q x y k k' H Hk. destruct x as [a|e|f|]; cbn [ole bind] in *.
  - destruct H as [b [-> Hp]]. cbn [bind]. exact (Hk a b Hp).
  - rewrite H. reflexivity.
  - destruct H as [H|H]; [left; exact H|right; rewrite H; reflexivity].
  - rewrite H. reflexivity.
Qed.

Lemma ole_refl : forall A (P : A -> A -> Prop) (x : outcome A), (forall a, P a a) -> ole P x x.
Proof. intros A P x H. destruct x; cbn [ole]; auto. eexists; split; [reflexivity|apply H]. Qed.

Lemma ole_weaken : forall A B (P Q : A -> B -> Prop) x y, (forall a b, P a b -> Q a b) -> ole P x y -> ole Q x y.
Proof.
  intros A B P Q x y H Ho. destruct x; cbn [ole] in *; auto.
  destruct Ho as [b [E Hp]]. exists b. split; [exact E|apply H; exact Hp].
Qed.

Lemma ole_ok : forall A B (P : A -> B -> Prop) a b, P a b -> ole P (Ok a) (Ok b).
Proof. intros. exists b. split; [reflexivity|assumption]. Qed.

(** * Reading and writing boxes *)

Section Heaps.
  Variables hr hn : heap.
  Hypothesis H : hle hr hn.

  Lemma hle_get : forall l, ole eq (h_get hr l) (h_get hn l).
  Proof.
    intros l. unfold h_get. destruct (PM.find l (cells hr)) as [[[|] o]|] eqn:E; cbn [ole]; auto.
    assert (h_alive hr l = true) as Ha by (unfold h_alive; rewrite E; reflexivity).
    rewrite (hle_cells _ _ H l Ha), E. exists o. auto.
  Qed.

  Lemma hle_get_float : forall l, ole eq (get_float hr l) (get_float hn l).
  Proof.
    intros l. unfold get_float. apply (ole_bind _ _ _ _ eq eq _ _ _ _ (hle_get l)).
    intros a b <-. apply ole_refl. reflexivity.
  Qed.
  Lemma hle_get_str : forall l, ole eq (get_str hr l) (get_str hn l).
  Proof.
    intros l. unfold get_str. apply (ole_bind _ _ _ _ eq eq _ _ _ _ (hle_get l)).
    intros a b <-. apply ole_refl. reflexivity.
  Qed.
  Lemma hle_get_arr : forall l, ole eq (get_arr hr l) (get_arr hn l).
  Proof.
    intros l. unfold get_arr. apply (ole_bind _ _ _ _ eq eq _ _ _ _ (hle_get l)).
    intros a b <-. apply ole_refl. reflexivity.
  Qed.

  Lemma hle_alloc : forall o, hle (snd (h_alloc hr o)) (snd (h_alloc hn o)) /\ fst (h_alloc hr o) = fst (h_alloc hn o).
  Proof.
    intros o. unfold h_alloc. cbn [fst snd]. split; [|exact (hle_next _ _ H)].
    constructor; cbn [next_loc n_alloc cells].
    - rewrite (hle_next _ _ H). reflexivity.
    - rewrite (hle_nalloc _ _ H). reflexivity.
    - intros l Ha. unfold h_alive in Ha. cbn [cells] in Ha. rewrite <- (hle_next _ _ H).
      destruct (Pos.eq_dec l (next_loc hr)) as [->|N].
      + rewrite !PM.gss. reflexivity.
      + rewrite PM.gso in Ha by exact N. rewrite !PM.gso by exact N. apply (hle_cells _ _ H). exact Ha.
  Qed.

  Lemma hle_set : forall l o, ole hle (h_set hr l o) (h_set hn l o).
  Proof.
    intros l o. unfold h_set. destruct (PM.find l (cells hr)) as [[[|] o0]|] eqn:E; cbn [ole]; auto.
    assert (h_alive hr l = true) as Ha by (unfold h_alive; rewrite E; reflexivity).
    rewrite (hle_cells _ _ H l Ha), E. eexists. split; [reflexivity|].
    constructor; cbn [next_loc n_alloc cells]; [exact (hle_next _ _ H)|exact (hle_nalloc _ _ H)|].
    intros k Hk. unfold h_alive in Hk. cbn [cells] in Hk.
    destruct (Pos.eq_dec k l) as [->|N]; [rewrite !PM.gss; reflexivity|].
    rewrite PM.gso in Hk by exact N. rewrite !PM.gso by exact N. apply (hle_cells _ _ H). exact Hk.
  Qed.

  Lemma hle_deref : forall w o, deref_heap hr w = Some o -> deref_heap hn w = Some o.
  Proof.
    intros w o. unfold deref_heap. destruct (loc_of_addr (w_as_ptr w)) as [l|]; [|discriminate].
    pose proof (hle_get l) as G. destruct (h_get hr l) as [x| | |]; try discriminate.
    cbn [ole] in G. destruct G as [b [-> <-]]. auto.
  Qed.
End Heaps.

(** * Results of the value-level functions: value and new heap *)

Definition rle (x y : val * heap) : Prop := fst x = fst y /\ hle (snd x) (snd y).

Lemma rle_same : forall hr hn v, hle hr hn -> rle (v, hr) (v, hn).
Proof. intros. split; [reflexivity|assumption]. Qed.

Lemma rle_alloc_str : forall hr hn s, hle hr hn -> rle (alloc_str hr s) (alloc_str hn s).
Proof.
  intros hr hn s H. destruct (hle_alloc hr hn H (OStr s)) as [A B]. unfold alloc_str.
  destruct (h_alloc hr (OStr s)) as [l h1]. destruct (h_alloc hn (OStr s)) as [l' h2]. cbn [fst snd] in *.
  subst l'. split; [reflexivity|exact A].
Qed.

Lemma rle_alloc_float : forall hr hn s, hle hr hn -> rle (alloc_float hr s) (alloc_float hn s).
Proof.
  intros hr hn s H. destruct (hle_alloc hr hn H (OFloat s)) as [A B]. unfold alloc_float.
  destruct (h_alloc hr (OFloat s)) as [l h1]. destruct (h_alloc hn (OFloat s)) as [l' h2]. cbn [fst snd] in *.
  subst l'. split; [reflexivity|exact A].
Qed.

(** ** Operators *)

Definition wle (x y : wres) : Prop := x = WFault FUseAfterFree \/ y = x.

Section Words.
  Variables dr dn : Z -> option obj.
  Variable orc : oracle.
  Hypothesis D : forall w o, dr w = Some o -> dn w = Some o.

  Lemma w_arith_mono : forall sym chk a b, wle (w_arith dr orc sym chk a b) (w_arith dn orc sym chk a b).
  Proof.
    intros sym chk a b. unfold w_arith.
    destruct (w_tag a) as [ta|]; [|right; reflexivity]. destruct (w_tag b) as [tb|]; [|right; reflexivity].
    destruct (negb (tag_eqb ta tb)); [right; reflexivity|].
    destruct ta; try (right; reflexivity).
    destruct (dr a) as [oa|] eqn:Ea; [rewrite (D _ _ Ea)|left; reflexivity].
    destruct (dr b) as [ob|] eqn:Eb; [rewrite (D _ _ Eb); right; reflexivity|].
    left. destruct oa; reflexivity.
  Qed.

  Lemma w_eq_mono : forall ta a b r, w_eq dr ta a b = Some r -> w_eq dn ta a b = Some r.
  Proof.
    intros ta a b r. unfold w_eq. destruct ta; auto.
    - destruct (dr a) as [oa|] eqn:Ea; [rewrite (D _ _ Ea)|discriminate].
      destruct (dr b) as [ob|] eqn:Eb; [rewrite (D _ _ Eb); auto|]. destruct oa; discriminate.
    - destruct (dr a) as [oa|] eqn:Ea; [rewrite (D _ _ Ea)|discriminate].
      destruct (dr b) as [ob|] eqn:Eb; [rewrite (D _ _ Eb); auto|]. destruct oa; discriminate.
  Qed.

  Lemma w_pcmp_mono : forall ta a b r, w_partial_cmp dr ta a b = Some r -> w_partial_cmp dn ta a b = Some r.
  Proof.
    intros ta a b r. unfold w_partial_cmp. destruct ta; auto.
    - destruct (dr a) as [oa|] eqn:Ea; [rewrite (D _ _ Ea)|discriminate].
      destruct (dr b) as [ob|] eqn:Eb; [rewrite (D _ _ Eb); auto|]. destruct oa; discriminate.
    - destruct (dr a) as [oa|] eqn:Ea; [rewrite (D _ _ Ea)|discriminate].
      destruct (dr b) as [ob|] eqn:Eb; [rewrite (D _ _ Eb); auto|]. destruct oa; discriminate.
  Qed.

  Lemma cmp_sym_mono : forall sym ta a b r, cmp_sym dr sym ta a b = Some r -> cmp_sym dn sym ta a b = Some r.
  Proof.
    intros sym ta a b r. unfold cmp_sym.
    destruct (String.eqb sym "=="); [apply w_eq_mono|].
    destruct (String.eqb sym "!=").
    { destruct (w_eq dr ta a b) as [x|] eqn:E; [|discriminate]. rewrite (w_eq_mono _ _ _ _ E). auto. }
    destruct (w_partial_cmp dr ta a b) as [c|] eqn:E; [|discriminate]. rewrite (w_pcmp_mono _ _ _ _ E). auto.
  Qed.

  Lemma w_cmp_mono : forall sym ord a b, wle (w_cmp dr sym ord a b) (w_cmp dn sym ord a b).
  Proof.
    intros sym ord a b. unfold w_cmp.
    destruct (w_tag a) as [ta|]; [|right; reflexivity]. destruct (w_tag b) as [tb|]; [|right; reflexivity].
    destruct (negb (tag_eqb ta tb)); [right; reflexivity|].
    destruct (tag_eqb ta TArray || (ord && tag_eqb ta TFunction)); [right; reflexivity|].
    destruct (cmp_sym dr sym ta a b) as [r|] eqn:E; [rewrite (cmp_sym_mono _ _ _ _ _ E); right; reflexivity|].
    left. reflexivity.
  Qed.

  Lemma w_method_mono : forall m a b, wle (w_method dr orc m a b) (w_method dn orc m a b).
  Proof.
    intros m a b. unfold w_method.
    destruct (assoc3 m arith_methods) as [[sym chk]|]; [apply w_arith_mono|].
    destruct (assoc3 m cmp_methods) as [[sym ord]|]; [apply w_cmp_mono|].
    right. reflexivity.
  Qed.
End Words.

Lemma lift_wres_mono : forall hr hn x y, hle hr hn -> wle x y -> ole rle (lift_wres hr x) (lift_wres hn y).
Proof.
  intros hr hn x y H [-> | ->]; [left; reflexivity|].
  destruct x as [w|f|k|f]; cbn [lift_wres ole]; auto.
  - destruct (decode w) as [v|]; cbn [ole]; auto. eexists. split; [reflexivity|apply rle_same; exact H].
  - destruct (hle_alloc hr hn H (OFloat f)) as [A B].
    destruct (h_alloc hr (OFloat f)) as [l h1]. destruct (h_alloc hn (OFloat f)) as [l' h2]. cbn [fst snd] in *.
    subst l'. eexists. split; [reflexivity|]. split; [reflexivity|exact A].
Qed.

Lemma binop_mono : forall orc m hr hn a b, hle hr hn -> ole rle (binop orc m hr a b) (binop orc m hn a b).
Proof.
  intros orc m hr hn a b H. unfold binop. apply lift_wres_mono; [exact H|].
  apply w_method_mono. intros w o. apply hle_deref. exact H.
Qed.

Lemma negate_mono : forall hr hn v, hle hr hn -> ole rle (negate hr v) (negate hn v).
Proof.
  intros hr hn v H. unfold negate. destruct v; cbn [ole]; auto.
  - destruct (checked_int _) as [w|]; cbn [ole]; auto.
    destruct (decode w) as [r|]; cbn [ole]; auto. eexists. split; [reflexivity|apply rle_same; exact H].
  - apply (ole_bind _ _ _ _ eq rle _ _ _ _ (hle_get_float hr hn H l)). intros f f' <-.
    destruct (hle_alloc hr hn H (OFloat (- f)%float)) as [A B].
    destruct (h_alloc hr (OFloat (- f)%float)) as [k h1]. destruct (h_alloc hn (OFloat (- f)%float)) as [k' h2].
    cbn [fst snd] in *. subst k'. eexists. split; [reflexivity|]. split; [reflexivity|exact A].
Qed.

(** ** Builtins *)

Section BuiltinsMono.
  Variable orc : oracle.
  Variables hr hn : heap.
  Hypothesis H : hle hr hn.

  Lemma show_val_mono : forall f v, ole eq (show_val orc f hr v) (show_val orc f hn v).
  Proof.
    induction f as [|f IH]; intros v; [reflexivity|]. cbn [show_val].
    destruct v; try (apply ole_refl; reflexivity).
    - apply (ole_bind _ _ _ _ eq eq _ _ _ _ (hle_get_float hr hn H l)). intros x y <-. apply ole_refl; reflexivity.
    - apply hle_get_str; exact H.
    - apply (ole_bind _ _ _ _ eq eq _ _ _ _ (hle_get_arr hr hn H l)). intros vs vs' <-.
      apply (ole_bind _ _ _ _ eq eq).
      + generalize true. induction vs as [|x r IHr]; intros first; [apply ole_refl; reflexivity|].
        apply (ole_bind _ _ _ _ eq eq _ _ _ _ (IH x)). intros t t' <-.
        apply (ole_bind _ _ _ _ eq eq _ _ _ _ (IHr false)). intros rest rest' <-. apply ole_refl; reflexivity.
      + intros b b' <-. apply ole_refl; reflexivity.
  Qed.

  Lemma display_mono : forall v, ole eq (display orc hr v) (display orc hn v).
  Proof. intros v. apply show_val_mono. Qed.

  Lemma fill_mono : forall args rest, ole eq (fill orc hr rest args) (fill orc hn rest args).
  Proof.
    induction args as [|a more IH]; intros rest; cbn [fill]; [apply ole_refl; reflexivity|].
    destruct (find_placeholder rest) as [[before after]|]; [|apply ole_refl; reflexivity].
    apply (ole_bind _ _ _ _ eq eq _ _ _ _ (display_mono a)). intros t t' <-.
    apply (ole_bind _ _ _ _ eq eq _ _ _ _ (IH after)). intros x x' <-. apply ole_refl; reflexivity.
  Qed.

  Lemma call_print_mono : forall args, ole eq (call_print orc hr args) (call_print orc hn args).
  Proof.
    intros args. unfold call_print. destruct args as [|a0 rest]; [apply ole_refl; reflexivity|].
    apply (ole_bind _ _ _ _ eq eq _ _ _ _ (display_mono a0)). intros t t' <-.
    apply (ole_bind _ _ _ _ eq eq _ _ _ _ (fill_mono rest t)). intros x x' <-. apply ole_refl; reflexivity.
  Qed.

  Lemma one_arg_mono : forall A B (P : A -> B -> Prop) args (k : val -> outcome A) (k' : val -> outcome B),
    (forall a, ole P (k a) (k' a)) -> ole P (one_arg args k) (one_arg args k').
  Proof.
    intros A B P args k k' Hk. unfold one_arg. destruct args as [|a [|b r]]; cbn [ole]; auto.
  Qed.

  Lemma ok_same : forall v, ole rle (Ok (v, hr)) (Ok (v, hn)).
  Proof. intros v. apply ole_ok. apply rle_same. exact H. Qed.

  Lemma ranged_int_mono : forall z, ole rle (ranged_int hr z) (ranged_int hn z).
  Proof. intros z. unfold ranged_int. destruct (in_int_range z); [apply ok_same|reflexivity]. Qed.

  Lemma call_type_mono : forall args, ole rle (call_type hr args) (call_type hn args).
  Proof. intros. unfold call_type. apply one_arg_mono. intros a. apply ole_ok. apply rle_alloc_str. exact H. Qed.

  Lemma call_string_mono : forall args, ole rle (call_string orc hr args) (call_string orc hn args).
  Proof.
    intros. unfold call_string. apply one_arg_mono. intros a.
    destruct a; try reflexivity; try (apply ole_ok; apply rle_alloc_str; exact H); try apply ok_same.
    apply (ole_bind _ _ _ _ eq _ _ _ _ _ (hle_get_float hr hn H l)). intros x x' <-. apply ole_ok. apply rle_alloc_str. exact H.
  Qed.

  Lemma call_bool_mono : forall args, ole rle (call_bool hr args) (call_bool hn args).
  Proof.
    intros. unfold call_bool. apply one_arg_mono. intros a.
    destruct a; try reflexivity; try apply ok_same.
    - apply (ole_bind _ _ _ _ eq _ _ _ _ _ (hle_get_float hr hn H l)). intros x x' <-. apply ok_same.
    - apply (ole_bind _ _ _ _ eq _ _ _ _ _ (hle_get_str hr hn H l)). intros x x' <-. apply ok_same.
    - apply (ole_bind _ _ _ _ eq _ _ _ _ _ (hle_get_arr hr hn H l)). intros x x' <-. apply ok_same.
  Qed.

  Lemma call_float_mono : forall args, ole rle (call_float orc hr args) (call_float orc hn args).
  Proof.
    intros. unfold call_float. apply one_arg_mono. intros a.
    destruct a; try reflexivity; try (apply ole_ok; apply rle_alloc_float; exact H); try apply ok_same.
    apply (ole_bind _ _ _ _ eq _ _ _ _ _ (hle_get_str hr hn H l)). intros x x' <-.
    destruct (parse_float orc x); [apply ole_ok; apply rle_alloc_float; exact H|reflexivity].
  Qed.

  Lemma call_int_mono : forall args, ole rle (call_int hr args) (call_int hn args).
  Proof.
    intros. unfold call_int. apply one_arg_mono. intros a.
    destruct a; try reflexivity; try apply ranged_int_mono; try apply ok_same.
    - apply (ole_bind _ _ _ _ eq _ _ _ _ _ (hle_get_float hr hn H l)). intros x x' <-. apply ranged_int_mono.
    - apply (ole_bind _ _ _ _ eq _ _ _ _ _ (hle_get_str hr hn H l)). intros x x' <-.
      destruct (parse_isize (trim x)); [apply ranged_int_mono|reflexivity].
  Qed.

  Lemma call_length_mono : forall args, ole rle (call_length hr args) (call_length hn args).
  Proof.
    intros. unfold call_length. apply one_arg_mono. intros a.
    destruct a; try reflexivity.
    - apply (ole_bind _ _ _ _ eq _ _ _ _ _ (hle_get_str hr hn H l)). intros x x' <-. apply ok_same.
    - apply (ole_bind _ _ _ _ eq _ _ _ _ _ (hle_get_arr hr hn H l)). intros x x' <-. apply ok_same.
  Qed.

  Definition brle (x y : val * heap * text) : Prop := rle (fst x) (fst y) /\ snd x = snd y.

  Lemma call_builtin_mono : forall b args, ole brle (call_builtin orc b hr args) (call_builtin orc b hn args).
  Proof.
    intros b args.
    assert (forall (x y : outcome (val * heap)), ole rle x y ->
              ole brle (do r <- x; Ok (r, [])) (do r <- y; Ok (r, []))) as W.
    { intros x y Hxy. apply (ole_bind _ _ _ _ rle _ _ _ _ _ Hxy). intros r r' Hr. apply ole_ok. split; cbn [fst snd]; auto. }
    destruct b; cbn [call_builtin];
      first [ apply W; first [apply call_type_mono|apply call_string_mono|apply call_bool_mono
                             |apply call_float_mono|apply call_int_mono|apply call_length_mono]
            | idtac ].
    apply (ole_bind _ _ _ _ eq _ _ _ _ _ (call_print_mono args)). intros t t' <-. apply ole_ok. split; cbn [fst snd].
    - apply rle_same; exact H.
    - reflexivity.
  Qed.
End BuiltinsMono.

(** * The collection-free machine *)

Section Machine.
  Variable orc : oracle.
  Variable prog : program.

  (* VM.step, except: the two return instructions do not collect, Halt does not untrace *)
  Definition step_ng (s : vm) : outcome stepres :=
    match byte_at prog (v_ip s) with
    | Some b =>
        match opcode_of_byte b with
        | Some OReturnValue =>
            let s := upd_ip s (v_ip s + 1) in
            do s' <- (do (result, s1) <- pop s; do s2 <- popframe s1; Ok (push result s2)); Ok (Continue s')
        | Some OReturn =>
            let s := upd_ip s (v_ip s + 1) in
            do s' <- (do s1 <- popframe s; Ok (push VNull s1)); Ok (Continue s')
        | Some OHalt => let s := upd_ip s (v_ip s + 1) in Ok (Halted (v_final s) s)
        | _ => step orc prog s
        end
    | None => step orc prog s
    end.

  Fixpoint run_loop_ng (budget : nat) (s : vm) : outcome val * vm * nat :=
    match budget with
    | O => (OutOfFuel, s, O)
    | S b =>
        match step_ng s with
        | Ok (Continue s') => run_loop_ng b s'
        | Ok (Halted v s') => (Ok v, s', b)
        | Err k => (Err k, s, b)
        | Fault f => (Fault f, s, b)
        | OutOfFuel => (OutOfFuel, s, b)
        end
    end.

  (** ** States: equal except for the heap and the collector *)

  Definition vsim (r n : vm) : Prop := exists hn gn, n = upd_heap r hn gn /\ hle (v_heap r) hn.

  Definition prel {A} (a b : A * vm) : Prop := fst a = fst b /\ vsim (snd a) (snd b).

  Definition srel (x y : stepres) : Prop :=
    match x, y with
    | Continue r, Continue n => vsim r n
    | Halted v r, Halted w n => v = w /\ vsim r n
    | _, _ => False
    end.

  Ltac vcbn := cbn [v_stack v_slen v_globals v_frames v_ip v_bp v_final v_heap v_gc v_out
                    upd_stack upd_ip upd_heap upd_globals upd_final upd_out push fst snd] in *.

  Lemma vsim_refl : forall s, vsim s s.
  Proof. intros s. exists (v_heap s), (v_gc s). split; [destruct s; reflexivity|apply hle_refl]. Qed.

  Lemma vsim_fields : forall r n, vsim r n ->
    v_stack n = v_stack r /\ v_slen n = v_slen r /\ v_globals n = v_globals r /\ v_frames n = v_frames r /\
    v_ip n = v_ip r /\ v_bp n = v_bp r /\ v_final n = v_final r /\ v_out n = v_out r /\ hle (v_heap r) (v_heap n).
  Proof. intros r n [hn [gn [-> H]]]. vcbn. do 8 (split; [reflexivity|]). exact H. Qed.

  Lemma vsim_upd_ip : forall r n ip, vsim r n -> vsim (upd_ip r ip) (upd_ip n ip).
  Proof. intros r n ip [hn [gn [-> H]]]. exists hn, gn. split; [reflexivity|exact H]. Qed.
  Lemma vsim_push : forall r n v, vsim r n -> vsim (push v r) (push v n).
  Proof. intros r n v [hn [gn [-> H]]]. exists hn, gn. split; [reflexivity|exact H]. Qed.
  Lemma vsim_upd_final : forall r n v, vsim r n -> vsim (upd_final r v) (upd_final n v).
  Proof. intros r n v [hn [gn [-> H]]]. exists hn, gn. split; [reflexivity|exact H]. Qed.
  Lemma vsim_upd_globals : forall r n gl, vsim r n -> vsim (upd_globals r gl) (upd_globals n gl).
  Proof. intros r n v [hn [gn [-> H]]]. exists hn, gn. split; [reflexivity|exact H]. Qed.
  Lemma vsim_upd_stack : forall r n st k, vsim r n -> vsim (upd_stack r st k) (upd_stack n st k).
  Proof. intros r n st k [hn [gn [-> H]]]. exists hn, gn. split; [reflexivity|exact H]. Qed.
  Lemma vsim_upd_out : forall r n o, vsim r n -> vsim (upd_out r o) (upd_out n o).
  Proof. intros r n o [hn [gn [-> H]]]. exists hn, gn. split; [reflexivity|exact H]. Qed.
  Lemma vsim_upd_heap : forall r n h h' g g', vsim r n -> hle h h' -> vsim (upd_heap r h g) (upd_heap n h' g').
  Proof. intros r n h h' g g' [hn [gn [-> H]]] Hh. exists h', g'. split; [reflexivity|exact Hh]. Qed.

  Lemma vsim_with_new : forall r n x y, vsim r n -> rle x y -> vsim (with_new r x) (with_new n y).
  Proof.
    intros r n [v h1] [w h2] V [E Hh]. cbn [fst snd] in *. subst w.
    destruct (vsim_fields r n V) as [_ [_ [_ [_ [_ [_ [_ [_ Hrn]]]]]]]].
    unfold with_new. rewrite (hle_next _ _ Hh), (hle_next _ _ Hrn).
    destruct (Pos.eqb (next_loc h2) (next_loc (v_heap n))); apply vsim_upd_heap; assumption.
  Qed.

  Lemma read_u8_sim : forall r n, vsim r n -> ole prel (read_u8 prog r) (read_u8 prog n).
  Proof.
    intros r n V. destruct V as [hn [gn [-> H]]]. unfold read_u8. vcbn.
    destruct (byte_at prog (v_ip r)); [|right; reflexivity].
    apply ole_ok. split; [reflexivity|]. exists hn, gn. split; [reflexivity|exact H].
  Qed.

  Lemma read_u16_sim : forall r n, vsim r n -> ole prel (read_u16 prog r) (read_u16 prog n).
  Proof.
    intros r n V. destruct V as [hn [gn [-> H]]]. unfold read_u16. vcbn.
    destruct (byte_at prog (v_ip r)); [|right; reflexivity].
    destruct (byte_at prog (v_ip r + 1)); [|right; reflexivity].
    apply ole_ok. split; [reflexivity|]. exists hn, gn. split; [reflexivity|exact H].
  Qed.

  Lemma pop_sim : forall r n, vsim r n -> ole prel (pop r) (pop n).
  Proof.
    intros r n V. destruct V as [hn [gn [-> H]]]. unfold pop. vcbn.
    destruct (v_stack r); [right; reflexivity|].
    apply ole_ok. split; [reflexivity|]. exists hn, gn. split; [reflexivity|exact H].
  Qed.

  Lemma pop_n_sim : forall k r n acc, vsim r n -> ole prel (pop_n k r acc) (pop_n k n acc).
  Proof.
    induction k as [|k IH]; intros r n acc V; cbn [pop_n].
    - apply ole_ok. split; [reflexivity|exact V].
    - apply (ole_bind _ _ _ _ prel prel _ _ _ _ (pop_sim r n V)).
      intros [v r1] [w n1] [E V1]. cbn [fst snd] in *. subst w. apply IH. exact V1.
  Qed.

  Lemma get_local_sim : forall r n i, vsim r n -> get_local i n = get_local i r.
  Proof. intros r n i [hn [gn [-> H]]]. reflexivity. Qed.

  Lemma set_local_sim : forall r n i v, vsim r n -> ole vsim (set_local i v r) (set_local i v n).
  Proof.
    intros r n i v [hn [gn [-> H]]]. unfold set_local. vcbn.
    destruct (v_bp r + i <? v_slen r); [|right; reflexivity].
    apply ole_ok. exists hn, gn. split; [reflexivity|exact H].
  Qed.

  Lemma popframe_sim : forall r n, vsim r n -> ole vsim (popframe r) (popframe n).
  Proof.
    intros r n [hn [gn [-> H]]]. unfold popframe. vcbn.
    destruct (v_frames r) as [|fr rest]; [right; reflexivity|].
    destruct rest as [|cur rest']; [right; reflexivity|].
    apply ole_ok. exists hn, gn. split; [reflexivity|exact H].
  Qed.

  Lemma pushframe_sim : forall r n ip bp, vsim r n -> ole vsim (pushframe ip bp r) (pushframe ip bp n).
  Proof.
    intros r n ip bp [hn [gn [-> H]]]. unfold pushframe. vcbn.
    destruct (v_frames r) as [|cur rest]; [right; reflexivity|].
    apply ole_ok. exists hn, gn. split; [reflexivity|exact H].
  Qed.

  Lemma cont_sim : forall x y, ole vsim x y ->
    ole srel (do s' <- x; Ok (Continue s')) (do s' <- y; Ok (Continue s')).
  Proof.
    intros x y H. apply (ole_bind _ _ _ _ vsim srel _ _ _ _ H). intros a b V. apply ole_ok. exact V.
  Qed.

  (* the result of a value-level function pushed on the stack *)
  Lemma push_new_sim : forall r n (x y : outcome (val * heap)), vsim r n -> ole rle x y ->
    ole vsim (do a <- x; Ok (push (fst a) (with_new r a))) (do a <- y; Ok (push (fst a) (with_new n a))).
  Proof.
    intros r n x y V H. apply (ole_bind _ _ _ _ rle vsim _ _ _ _ H). intros a b Hab. apply ole_ok.
    rewrite (proj1 Hab). apply vsim_push. apply vsim_with_new; assumption.
  Qed.

  Ltac bd16 V idx r1 n1 V1 :=
    apply (ole_bind _ _ _ _ prel _ _ _ _ _ (read_u16_sim _ _ V));
    let w := fresh "w" in let E := fresh "E" in
    intros [idx r1] [w n1] [E V1]; cbn [fst snd] in E, V1; subst w.
  Ltac bd8 V idx r1 n1 V1 :=
    apply (ole_bind _ _ _ _ prel _ _ _ _ _ (read_u8_sim _ _ V));
    let w := fresh "w" in let E := fresh "E" in
    intros [idx r1] [w n1] [E V1]; cbn [fst snd] in E, V1; subst w.
  Ltac bdpop V v r1 n1 V1 :=
    apply (ole_bind _ _ _ _ prel _ _ _ _ _ (pop_sim _ _ V));
    let w := fresh "w" in let E := fresh "E" in
    intros [v r1] [w n1] [E V1]; cbn [fst snd] in E, V1; subst w.

  Lemma heap_of : forall r n, vsim r n -> hle (v_heap r) (v_heap n).
  Proof. intros r n V. exact (proj2 (proj2 (proj2 (proj2 (proj2 (proj2 (proj2 (proj2 (vsim_fields r n V))))))))). Qed.

  Lemma c_const : forall r n, vsim r n ->
    ole vsim
      (do (idx, s1) <- read_u16 prog r;
       do v <- get_const prog idx;
       match v with
       | VStr l => do t <- get_str (v_heap s1) l;
                   let x := alloc_str (v_heap s1) t in Ok (push (fst x) (with_new s1 x))
       | _ => Ok (push v s1)
       end)
      (do (idx, s1) <- read_u16 prog n;
       do v <- get_const prog idx;
       match v with
       | VStr l => do t <- get_str (v_heap s1) l;
                   let x := alloc_str (v_heap s1) t in Ok (push (fst x) (with_new s1 x))
       | _ => Ok (push v s1)
       end).
  Proof.
    intros r n V. bd16 V idx r1 n1 V1.
    destruct (get_const prog idx) as [v| | |]; cbn [bind ole]; auto.
    destruct v; try (apply ole_ok; apply vsim_push; exact V1).
    apply (ole_bind _ _ _ _ eq _ _ _ _ _ (hle_get_str _ _ (heap_of _ _ V1) l)). intros t t' <-.
    cbv zeta. apply ole_ok.
    pose proof (rle_alloc_str _ _ t (heap_of _ _ V1)) as Hr. rewrite (proj1 Hr).
    apply vsim_push. apply vsim_with_new; assumption.
  Qed.

  Lemma c_binary : forall m r n, vsim r n -> ole vsim (binary orc m r) (binary orc m n).
  Proof.
    intros m r n V. unfold binary. bdpop V rhs r1 n1 V1. bdpop V1 lhs r2 n2 V2.
    apply push_new_sim; [exact V2|]. apply binop_mono. exact (heap_of _ _ V2).
  Qed.

  Lemma c_fused : forall m r n, vsim r n -> ole vsim (fused orc prog m r) (fused orc prog m n).
  Proof.
    intros m r n V. unfold fused. bd16 V li r1 n1 V1. rewrite (get_local_sim _ _ li V1).
    destruct (get_local li r1) as [lhs| | |]; cbn [bind ole]; auto.
    bd16 V1 ci r2 n2 V2.
    destruct (get_const prog ci) as [rhs| | |]; cbn [bind ole]; auto.
    apply push_new_sim; [exact V2|]. apply binop_mono. exact (heap_of _ _ V2).
  Qed.

  Lemma c_index_get : forall r n lhs index, vsim r n -> ole vsim (index_get r lhs index) (index_get n lhs index).
  Proof.
    intros r n lhs index V. unfold index_get. destruct index; cbn [ole]; auto.
    destruct lhs; cbn [ole]; auto.
    - apply (ole_bind _ _ _ _ eq _ _ _ _ _ (hle_get_str _ _ (heap_of _ _ V) l)). intros t t' <-.
      destruct (norm_index z (zlength t)) as [i| | |]; cbn [bind ole]; auto.
      destruct (nth_error t (Z.to_nat i)) as [c|]; cbn [ole]; auto.
      cbv zeta. apply ole_ok. pose proof (rle_alloc_str _ _ [c] (heap_of _ _ V)) as Hr. rewrite (proj1 Hr).
      apply vsim_push. apply vsim_with_new; assumption.
    - apply (ole_bind _ _ _ _ eq _ _ _ _ _ (hle_get_arr _ _ (heap_of _ _ V) l)). intros vs vs' <-.
      destruct (norm_index z (zlength vs)) as [i| | |]; cbn [bind ole]; auto.
      destruct (nth_error vs (Z.to_nat i)) as [c|]; cbn [ole]; auto.
      apply ole_ok. apply vsim_push. exact V.
  Qed.

  Lemma c_index_set : forall r n lhs index value, vsim r n ->
    ole vsim (index_set r lhs index value) (index_set n lhs index value).
  Proof.
    intros r n lhs index value V. unfold index_set. destruct index; cbn [ole]; auto.
    pose proof (vsim_fields r n V) as [_ [_ [_ [_ [_ [_ [_ [_ Hh]]]]]]]].
    destruct lhs; cbn [ole]; auto.
    - apply (ole_bind _ _ _ _ eq _ _ _ _ _ (hle_get_str _ _ Hh l)). intros t t' <-.
      destruct (norm_index z (zlength t)) as [i| | |]; cbn [bind ole]; auto.
      destruct value; cbn [ole]; auto.
      apply (ole_bind _ _ _ _ eq _ _ _ _ _ (hle_get_str _ _ Hh l0)). intros rp rp' <-.
      apply (ole_bind _ _ _ _ hle _ _ _ _ _ (hle_set _ _ Hh l _)). intros h1 h2 H12.
      apply ole_ok. apply vsim_push. destruct V as [hn [gn [-> H]]]. vcbn. exists h2, gn. split; [reflexivity|exact H12].
    - apply (ole_bind _ _ _ _ eq _ _ _ _ _ (hle_get_arr _ _ Hh l)). intros vs vs' <-.
      destruct (norm_index z (zlength vs)) as [i| | |]; cbn [bind ole]; auto.
      apply (ole_bind _ _ _ _ hle _ _ _ _ _ (hle_set _ _ Hh l _)). intros h1 h2 H12.
      apply ole_ok. apply vsim_push. destruct V as [hn [gn [-> H]]]. vcbn. exists h2, gn. split; [reflexivity|exact H12].
  Qed.

  (** ** THE COLLECTION LEMMA: a collection only flags boxes dead *)

  Lemma gc_run_hle : forall h g roots g' h', GCInv h g -> gc_run h g roots = Ok (g', h') -> hle h' h.
  Proof.
    intros h g roots g' h' Hinv Hrun.
    pose proof (run_next_loc h g roots g' h' Hinv Hrun) as Hnx.
    destruct (run_char h g roots g' h' Hinv Hrun) as [bits [_ [_ [_ [_ [_ [Hna [Hdead Hsame]]]]]]]].
    constructor; [exact Hnx|exact Hna|].
    intros l Ha. symmetry. apply Hsame. intros v Hv Heq. rewrite (Hdead v l Hv Heq) in Ha. discriminate Ha.
  Qed.

  (* what a collection does to the relation: the state after it is still below the collection-free state *)
  Theorem collect_hle : forall r n extra r', SInv prog r -> vsim r n -> collect prog r extra = Ok r' -> vsim r' n.
  Proof.
    intros r n extra r' HS [hn [gn [-> H]]] E. unfold collect in E.
    destruct (gc_run (v_heap r) (v_gc r) (roots prog r extra)) as [[g' h']| | |] eqn:Er; cbn [bind] in E; try discriminate E.
    inversion E; subst r'. exists hn, gn. split; [reflexivity|]. vcbn.
    apply (hle_trans _ (v_heap r)); [|exact H].
    exact (gc_run_hle _ _ _ _ _ (hi_gc _ _ (si_heap _ _ HS)) Er).
  Qed.

  Lemma c_return : forall r n, SInv prog r -> vsim r n ->
    ole vsim (do s1 <- popframe r; do s2 <- collect prog s1 [v_final s1]; Ok (push VNull s2))
             (do s1 <- popframe n; Ok (push VNull s1)).
  Proof.
    intros r n HS V.
    pose proof (popframe_sim r n V) as Hp. pose proof (popframe_inv prog r) as Hinv.
    destruct (popframe r) as [r1| | |]; cbn [ole bind] in *; auto; try (rewrite Hp; reflexivity).
    - destruct Hp as [n1 [-> V1]]. cbn [bind].
      destruct (Hinv r1 HS eq_refl) as [H1 _].
      assert (oks (v_heap r1) [v_final r1]) as Hex.
      { intros v [<-|[]]. apply (si_final _ _ H1). }
      destruct (collect_ok prog r1 _ H1 Hex) as [r2 E2]. rewrite E2. cbn [bind ole].
      eexists. split; [reflexivity|]. apply vsim_push. exact (collect_hle r1 n1 _ r2 H1 V1 E2).
    - destruct Hp as [Hp|Hp]; [left; exact Hp|right; rewrite Hp; reflexivity].
  Qed.

  Lemma c_return_value : forall r n, SInv prog r -> vsim r n ->
    ole vsim (do (result, s1) <- pop r; do s2 <- popframe s1;
              do s3 <- collect prog s2 [v_final s2; result]; Ok (push result s3))
             (do (result, s1) <- pop n; do s2 <- popframe s1; Ok (push result s2)).
  Proof.
    intros r n HS V.
    pose proof (pop_sim r n V) as Hp. pose proof (pop_inv prog r) as Hinv0.
    destruct (pop r) as [[result r1]| | |]; cbn [ole bind] in *; auto; try (rewrite Hp; reflexivity).
    2:{ destruct Hp as [Hp|Hp]; [left; exact Hp|right; rewrite Hp; reflexivity]. }
    destruct Hp as [[w n1] [-> [E V1]]]. cbn [fst snd bind] in *. subst w.
    destruct (Hinv0 result r1 HS eq_refl) as [H1 [Hh1 Hres]].
    pose proof (popframe_sim r1 n1 V1) as Hp. pose proof (popframe_inv prog r1) as Hinv.
    destruct (popframe r1) as [r2| | |]; cbn [ole bind] in *; auto; try (rewrite Hp; reflexivity).
    2:{ destruct Hp as [Hp|Hp]; [left; exact Hp|right; rewrite Hp; reflexivity]. }
    destruct Hp as [n2 [-> V2]]. cbn [bind].
    destruct (Hinv r2 H1 eq_refl) as [H2 [Hh2 _]].
    assert (oks (v_heap r2) [v_final r2; result]) as Hex.
    { intros v [<-|[<-|[]]]; [apply (si_final _ _ H2)|congruence]. }
    destruct (collect_ok prog r2 _ H2 Hex) as [r3 E3]. rewrite E3. cbn [bind ole].
    eexists. split; [reflexivity|]. apply vsim_push. exact (collect_hle r2 n2 _ r3 H2 V2 E3).
  Qed.

  Lemma c_halt : forall r n, SInv prog r -> vsim r n ->
    ole srel (do g' <- untrace (v_heap r) (v_gc r) (v_final r); Ok (Halted (v_final r) (upd_heap r (v_heap r) g')))
             (Ok (Halted (v_final n) n)).
  Proof.
    intros r n H V.
    assert (Hok : roots_ok (v_heap r) [v_final r]).
    { intros v [<-|[]]. apply (si_final _ _ H). }
    destruct (untrace_strong _ _ (v_final r) (hi_gc _ _ (si_heap _ _ H))
                (oks_roots_managed _ _ _ (si_heap _ _ H) Hok) Hok) as [g' [E _]].
    rewrite E. cbn [bind ole]. eexists. split; [reflexivity|]. cbn [srel].
    destruct V as [hn [gn [-> Hh]]]. vcbn. split; [reflexivity|]. exists hn, gn. split; [reflexivity|exact Hh].
  Qed.

  Lemma c_call : forall r n, vsim r n ->
    ole vsim
     (do (argc, s1) <- read_u8 prog r;
      do (f, s2) <- pop s1;
      match f with
      | VFun ip n0 =>
          if n0 <? argc then Err EArgumentError
          else if (MAX_STACK_SIZE <? v_slen s2 + n0) || (MAX_FRAMES <=? zlength (v_frames s2)) then Err ETypeError
          else if v_slen s2 <? argc then Fault FCallUnderflow
          else pushframe ip (v_slen s2 - argc)
                 (upd_stack s2 (repeat_val VNull (Z.to_nat (n0 - argc)) ++ v_stack s2) (v_slen s2 + (n0 - argc)))
      | _ => Err ETypeError
      end)
     (do (argc, s1) <- read_u8 prog n;
      do (f, s2) <- pop s1;
      match f with
      | VFun ip n0 =>
          if n0 <? argc then Err EArgumentError
          else if (MAX_STACK_SIZE <? v_slen s2 + n0) || (MAX_FRAMES <=? zlength (v_frames s2)) then Err ETypeError
          else if v_slen s2 <? argc then Fault FCallUnderflow
          else pushframe ip (v_slen s2 - argc)
                 (upd_stack s2 (repeat_val VNull (Z.to_nat (n0 - argc)) ++ v_stack s2) (v_slen s2 + (n0 - argc)))
      | _ => Err ETypeError
      end).
  Proof.
    intros r n V. bd8 V argc r1 n1 V1. bdpop V1 f r2 n2 V2.
    destruct f; cbn [ole]; auto.
    destruct (vsim_fields r2 n2 V2) as [E1 [E2 [_ [E4 _]]]]. rewrite E1, E2, E4.
    destruct (n0 <? argc); cbn [ole]; auto.
    destruct ((MAX_STACK_SIZE <? v_slen r2 + n0) || (MAX_FRAMES <=? zlength (v_frames r2))); cbn [ole]; auto.
    destruct (v_slen r2 <? argc); cbn [ole]; auto.
    apply pushframe_sim. apply vsim_upd_stack. exact V2.
  Qed.

  Lemma c_builtin : forall r n, vsim r n ->
    ole vsim
     (do (bb, s1) <- read_u8 prog r;
      do (argc, s2) <- read_u8 prog s1;
      do (args, s3) <- pop_n (Z.to_nat argc) s2 [];
      match builtin_of_byte bb with
      | None => Fault FBadBuiltin
      | Some bi =>
          do (x, printed) <- call_builtin orc bi (v_heap s3) args;
          let s4 := with_new s3 x in Ok (push (fst x) (upd_out s4 (v_out s4 ++ printed)))
      end)
     (do (bb, s1) <- read_u8 prog n;
      do (argc, s2) <- read_u8 prog s1;
      do (args, s3) <- pop_n (Z.to_nat argc) s2 [];
      match builtin_of_byte bb with
      | None => Fault FBadBuiltin
      | Some bi =>
          do (x, printed) <- call_builtin orc bi (v_heap s3) args;
          let s4 := with_new s3 x in Ok (push (fst x) (upd_out s4 (v_out s4 ++ printed)))
      end).
  Proof.
    intros r n V. bd8 V bb r1 n1 V1. bd8 V1 argc r2 n2 V2.
    apply (ole_bind _ _ _ _ prel _ _ _ _ _ (pop_n_sim _ _ _ [] V2)).
    intros [args r3] [w n3] [E V3]. cbn [fst snd] in E, V3. subst w.
    destruct (builtin_of_byte bb) as [bi|]; [|right; reflexivity].
    apply (ole_bind _ _ _ _ (brle) _ _ _ _ _ (call_builtin_mono orc _ _ (heap_of _ _ V3) bi args)).
    intros [x pr] [y pr'] [Hxy Epr]. cbn [fst snd] in Hxy, Epr. subst pr'. cbv zeta.
    apply ole_ok. rewrite (proj1 Hxy). apply vsim_push.
    pose proof (vsim_with_new _ _ _ _ V3 Hxy) as V4.
    destruct (vsim_fields _ _ V4) as [_ [_ [_ [_ [_ [_ [_ [Eo _]]]]]]]]. rewrite Eo.
    apply vsim_upd_out. exact V4.
  Qed.

  (** ** One instruction in lockstep *)

  Theorem gc_lockstep_s : forall r n, SInv prog r -> vsim r n -> ole srel (step orc prog r) (step_ng n).
  Proof.
    intros r0 n0 H0 V0.
    destruct (vsim_fields r0 n0 V0) as [_ [_ [_ [_ [Eip _]]]]].
    unfold step_ng, step. rewrite Eip.
    destruct (byte_at prog (v_ip r0)) as [b|] eqn:Eb; [|right; reflexivity].
    destruct (opcode_of_byte b) as [op|] eqn:Eo; [|right; reflexivity].
    pose proof (vsim_upd_ip r0 n0 (v_ip r0 + 1) V0) as V.
    pose proof (sinv_upd_ip prog r0 (v_ip r0 + 1) H0) as HS.
    generalize dependent (upd_ip r0 (v_ip r0 + 1)). generalize dependent (upd_ip n0 (v_ip r0 + 1)).
    intros n r V HS.
    destruct op; cbv beta zeta iota.
    all: try solve [ apply c_halt; assumption ].
    all: apply cont_sim.
    all: try solve [ apply c_return; assumption | apply c_return_value; assumption ].
      all: try (first [ apply c_const | apply c_call | apply c_builtin ]; exact V).
      all: try (apply ole_ok; apply vsim_push; exact V).
      all: try solve [ (* SetGlobal *) bd16 V idx r1 n1 V1; bdpop V1 v r2 n2 V2; apply ole_ok;
                       destruct (vsim_fields _ _ V2) as [_ [_ [Eg _]]]; rewrite Eg; apply vsim_upd_globals; exact V2 ].
      all: try solve [ (* GetGlobal *) bd16 V idx r1 n1 V1; apply ole_ok;
                       destruct (vsim_fields _ _ V1) as [_ [_ [Eg _]]]; rewrite Eg; apply vsim_push; exact V1 ].
      all: try solve [ (* SetLocal *) bd16 V idx r1 n1 V1; bdpop V1 v r2 n2 V2; apply set_local_sim; exact V2 ].
      all: try solve [ (* GetLocal *) bd16 V idx r1 n1 V1; rewrite (get_local_sim _ _ idx V1);
                       destruct (get_local idx r1) as [v| | |]; cbn [bind ole]; auto;
                       eexists; split; [reflexivity|]; apply vsim_push; exact V1 ].
      all: try solve [ (* Jump *) bd16 V pos r1 n1 V1; apply ole_ok; apply vsim_upd_ip; exact V1 ].
      all: try solve [ (* JumpIfFalse *) bdpop V c r1 n1 V1; destruct c; cbn [ole]; auto;
                       bd16 V1 pos r2 n2 V2; apply ole_ok;
                       match goal with |- vsim (if ?b then _ else _) _ => destruct b end;
                       [exact V2|apply vsim_upd_ip; exact V2] ].
      all: try solve [ (* Pop *) bdpop V v r1 n1 V1; apply ole_ok; apply vsim_upd_final; exact V1 ].
      all: try solve [ (* Not *) bdpop V v r1 n1 V1; destruct (lognot v) as [x| | |]; cbn [bind ole]; auto;
                       eexists; split; [reflexivity|]; apply vsim_push; exact V1 ].
      all: try solve [ (* Negate *) bdpop V v r1 n1 V1; apply push_new_sim; [exact V1|]; apply negate_mono;
                       exact (heap_of _ _ V1) ].
      all: try solve [ (* Array *) bd16 V k r1 n1 V1;
                       apply (ole_bind _ _ _ _ prel _ _ _ _ _ (pop_n_sim _ _ _ [] V1));
                       intros [vs r2] [w n2] [E V2]; cbn [fst snd] in E, V2; subst w;
                       destruct (hle_alloc _ _ (heap_of _ _ V2) (OArr vs)) as [A B];
                       destruct (h_alloc (v_heap r2) (OArr vs)) as [l h1]; destruct (h_alloc (v_heap n2) (OArr vs)) as [l' h2];
                       cbn [fst snd] in A, B; subst l'; apply ole_ok; apply vsim_push; apply vsim_upd_heap; assumption ].
      all: try solve [ (* IndexGet *) bdpop V ix r1 n1 V1; bdpop V1 lhs r2 n2 V2; apply c_index_get; exact V2 ].
      all: try solve [ (* IndexSet *) bdpop V vv r1 n1 V1; bdpop V1 ix r2 n2 V2; bdpop V2 lhs r3 n3 V3;
                       apply c_index_set; exact V3 ].
      all: try solve [ apply c_binary; exact V | apply c_fused; exact V ].
  Qed.

  (** ** The collection-free machine never lowers the allocation counter *)

  Definition hp (h0 : heap) (r : outcome vm) : Prop :=
    match r with Ok s' => n_alloc h0 <= n_alloc (v_heap s') | _ => True end.
  Definition hpp {A} (h0 : heap) (r : outcome (A * vm)) : Prop :=
    match r with Ok x => v_heap (snd x) = h0 | _ => True end.

  Lemma hp_bind_p : forall A h0 (e : outcome (A * vm)) (k : A * vm -> outcome vm),
    hpp h0 e -> (forall a s', v_heap s' = h0 -> hp h0 (k (a, s'))) -> hp h0 (bind e k).
  Proof. intros A h0 e k He Hk. destruct e as [[a s']| | |]; cbn [bind hp hpp snd] in *; auto. Qed.

  Lemma hp_bind_v : forall h0 (e : outcome vm) (k : vm -> outcome vm),
    (forall s', e = Ok s' -> v_heap s' = h0) -> (forall s', v_heap s' = h0 -> hp h0 (k s')) -> hp h0 (bind e k).
  Proof. intros h0 e k He Hk. destruct e as [s'| | |]; cbn [bind hp] in *; auto. Qed.

  Lemma hp_same : forall h0 s', v_heap s' = h0 -> hp h0 (Ok s').
  Proof. intros h0 s' <-. cbn [hp]. lia. Qed.

  Lemma hpp_read_u8 : forall s, hpp (v_heap s) (read_u8 prog s).
  Proof. intros s. unfold read_u8. destruct (byte_at prog (v_ip s)); cbn [hpp snd]; auto. Qed.
  Lemma hpp_read_u16 : forall s, hpp (v_heap s) (read_u16 prog s).
  Proof.
    intros s. unfold read_u16. destruct (byte_at prog (v_ip s)); cbn [hpp]; auto.
    destruct (byte_at prog (v_ip s + 1)); cbn [hpp snd]; auto.
  Qed.
  Lemma hpp_pop : forall s, hpp (v_heap s) (pop s).
  Proof. intros s. unfold pop. destruct (v_stack s); cbn [hpp snd]; auto. Qed.
  Lemma hpp_pop_n : forall k s acc, hpp (v_heap s) (pop_n k s acc).
  Proof.
    induction k as [|k IH]; intros s acc; cbn [pop_n]; [reflexivity|].
    pose proof (hpp_pop s) as Hp. destruct (pop s) as [[v s1]| | |]; cbn [bind hpp snd] in *; auto.
    rewrite <- Hp. apply IH.
  Qed.
  Lemma popframe_heap : forall s s', popframe s = Ok s' -> v_heap s' = v_heap s.
  Proof.
    intros s s' E. unfold popframe in E. destruct (v_frames s) as [|fr [|cur rest]]; try discriminate E.
    inversion E. reflexivity.
  Qed.
  Lemma pushframe_heap : forall ip bp s s', pushframe ip bp s = Ok s' -> v_heap s' = v_heap s.
  Proof.
    intros ip bp s s' E. unfold pushframe in E. destruct (v_frames s); try discriminate E. inversion E. reflexivity.
  Qed.
  Lemma set_local_heap : forall i v s s', set_local i v s = Ok s' -> v_heap s' = v_heap s.
  Proof.
    intros i v s s' E. unfold set_local in E. destruct (v_bp s + i <? v_slen s); try discriminate E. inversion E. reflexivity.
  Qed.

  Lemma hp_with_new : forall s (x : outcome (val * heap)),
    match x with Ok a => n_alloc (v_heap s) <= n_alloc (snd a) | _ => True end ->
    hp (v_heap s) (do a <- x; Ok (push (fst a) (with_new s a))).
  Proof.
    intros s x Hx. destruct x as [[v h']| | |]; cbn [bind hp] in *; auto.
    unfold with_new. destruct (Pos.eqb _ _); exact Hx.
  Qed.

  Ltac h16 idx s1 E1 := apply hp_bind_p; [apply hpp_read_u16|]; intros idx s1 E1.
  Ltac h8 idx s1 E1 := apply hp_bind_p; [apply hpp_read_u8|]; intros idx s1 E1.
  Ltac hpop H v s1 E1 := apply hp_bind_p; [rewrite <- H; apply hpp_pop|]; intros v s1 E1.

  Lemma hp_binary : forall m s, hp (v_heap s) (binary orc m s).
  Proof.
    intros m s. unfold binary. apply hp_bind_p; [apply hpp_pop|]. intros rhs s1 E1.
    hpop E1 lhs s2 E2. rewrite <- E2. apply hp_with_new.
    exact (CompileCorrectH3.binop_grows orc m (v_heap s2) lhs rhs).
  Qed.

  Lemma hp_fused : forall m s, hp (v_heap s) (fused orc prog m s).
  Proof.
    intros m s. unfold fused. h16 li s1 E1.
    destruct (get_local li s1) as [lhs| | |]; cbn [bind hp]; auto.
    apply hp_bind_p; [rewrite <- E1; apply hpp_read_u16|]. intros ci s2 E2.
    destruct (get_const prog ci) as [rhs| | |]; cbn [bind hp]; auto.
    rewrite <- E2. apply hp_with_new. exact (CompileCorrectH3.binop_grows orc m (v_heap s2) lhs rhs).
  Qed.

  Lemma hp_index_get : forall s lhs index, hp (v_heap s) (index_get s lhs index).
  Proof.
    intros s lhs index. unfold index_get. destruct index; cbn [hp]; auto. destruct lhs; cbn [hp]; auto.
    - destruct (get_str (v_heap s) l) as [t| | |]; cbn [bind hp]; auto.
      destruct (norm_index z (zlength t)) as [i| | |]; cbn [bind hp]; auto.
      destruct (nth_error t (Z.to_nat i)); cbn [hp]; auto.
      unfold with_new, alloc_str. cbn [h_alloc fst snd next_loc].
      destruct (Pos.eqb _ _); cbn [push upd_stack upd_heap v_heap n_alloc]; lia.
    - destruct (get_arr (v_heap s) l) as [t| | |]; cbn [bind hp]; auto.
      destruct (norm_index z (zlength t)) as [i| | |]; cbn [bind hp]; auto.
      destruct (nth_error t (Z.to_nat i)); cbn [hp]; auto. cbn [push upd_stack v_heap]. lia.
  Qed.

  Lemma h_set_nalloc : forall h l o h', h_set h l o = Ok h' -> n_alloc h' = n_alloc h.
  Proof.
    intros h l o h' E. unfold h_set in E. destruct (PM.find l (cells h)) as [[[|] x]|]; try discriminate E.
    inversion E. reflexivity.
  Qed.

  Lemma hp_index_set : forall s lhs index value, hp (v_heap s) (index_set s lhs index value).
  Proof.
    intros s lhs index value. unfold index_set. destruct index; cbn [hp]; auto. destruct lhs; cbn [hp]; auto.
    - destruct (get_str (v_heap s) l) as [t| | |]; cbn [bind hp]; auto.
      destruct (norm_index z (zlength t)) as [i| | |]; cbn [bind hp]; auto.
      destruct value; cbn [hp]; auto.
      destruct (get_str (v_heap s) l0) as [rp| | |]; cbn [bind hp]; auto.
      match goal with |- hp _ (do h' <- h_set ?a ?b ?c; _) =>
        pose proof (h_set_nalloc a b c) as Hs; destruct (h_set a b c); cbn [bind hp]; auto end.
      cbn [push upd_stack upd_heap v_heap]. rewrite (Hs _ eq_refl). lia.
    - destruct (get_arr (v_heap s) l) as [t| | |]; cbn [bind hp]; auto.
      destruct (norm_index z (zlength t)) as [i| | |]; cbn [bind hp]; auto.
      match goal with |- hp _ (do h' <- h_set ?a ?b ?c; _) =>
        pose proof (h_set_nalloc a b c) as Hs; destruct (h_set a b c); cbn [bind hp]; auto end.
      cbn [push upd_stack upd_heap v_heap]. rewrite (Hs _ eq_refl). lia.
  Qed.

  Theorem ng_alloc_mono : forall n n', step_ng n = Ok (Continue n') -> n_alloc (v_heap n) <= n_alloc (v_heap n').
  Proof.
    intros s0 n' E.
    assert (forall x : outcome vm, hp (v_heap s0) x -> (do s' <- x; Ok (Continue s')) = Ok (Continue n') ->
              n_alloc (v_heap s0) <= n_alloc (v_heap n')) as K.
    { intros x Hx Ex. destruct x; cbn [bind] in Ex; try discriminate Ex. inversion Ex; subst. exact Hx. }
    unfold step_ng, step in E.
    destruct (byte_at prog (v_ip s0)) as [b|]; [|discriminate E].
    destruct (opcode_of_byte b) as [op|]; [|discriminate E].
    change (v_heap s0) with (v_heap (upd_ip s0 (v_ip s0 + 1))) in K |- *.
    generalize dependent (upd_ip s0 (v_ip s0 + 1)). intros s E K.
    destruct op; cbv beta zeta iota in E; try discriminate E; refine (K _ _ E); clear E K.
    all: try solve [ apply hp_binary | apply hp_fused ].
    all: try solve [ apply hp_same; reflexivity ].
    all: try solve [ (* Const *) h16 idx s1 E1; destruct (get_const prog idx) as [v| | |]; cbn [bind hp]; auto;
                     destruct v; try (apply hp_same; exact E1);
                     destruct (get_str (v_heap s1) l) as [t| | |]; cbn [bind hp]; auto;
                     unfold with_new, alloc_str; cbn [h_alloc fst snd next_loc]; rewrite <- E1;
                     destruct (Pos.eqb _ _); cbn [push upd_stack upd_heap v_heap n_alloc]; lia ].
    all: try solve [ (* Set/GetGlobal, Jump *) h16 idx s1 E1; try (hpop E1 v s2 E2); apply hp_same; assumption ].
    all: try solve [ (* SetLocal *) h16 idx s1 E1; hpop E1 v s2 E2;
                     pose proof (set_local_heap idx v s2) as Hs; destruct (set_local idx v s2); cbn [hp]; auto;
                     rewrite (Hs _ eq_refl), E2; lia ].
    all: try solve [ (* GetLocal *) h16 idx s1 E1; destruct (get_local idx s1); cbn [bind hp]; auto; rewrite E1; lia ].
    all: try solve [ (* JumpIfFalse *) apply hp_bind_p; [apply hpp_pop|]; intros c s1 E1; destruct c; cbn [hp]; auto;
                     apply hp_bind_p; [rewrite <- E1; apply hpp_read_u16|]; intros pos s2 E2;
                     match goal with |- hp _ (Ok (if ?b then _ else _)) => destruct b end; apply hp_same; assumption ].
    all: try solve [ (* Pop *) apply hp_bind_p; [apply hpp_pop|]; intros v s1 E1; apply hp_same; exact E1 ].
    all: try solve [ (* Not *) apply hp_bind_p; [apply hpp_pop|]; intros v s1 E1;
                     destruct (lognot v); cbn [bind hp]; auto; rewrite E1; lia ].
    all: try solve [ (* Negate *) apply hp_bind_p; [apply hpp_pop|]; intros v s1 E1; rewrite <- E1; apply hp_with_new;
                     exact (CompileCorrectH3.negate_grows (v_heap s1) v) ].
    all: try solve [ (* Call *) h8 argc s1 E1; hpop E1 f s2 E2; destruct f; cbn [hp]; auto;
                     repeat match goal with |- hp _ (if ?c then _ else _) => destruct c; cbn [hp]; auto end;
                     match goal with |- hp _ ?e => pose proof (pushframe_heap ip _ _) as Hs; destruct e eqn:Ee; cbn [hp]; auto end ].
    all: try solve [ (* Not *) apply hp_bind_p; [apply hpp_pop|]; intros v s1 E1;
                     destruct (lognot v); cbn [bind hp]; auto; cbn [push upd_stack v_heap]; rewrite E1; lia ].
    all: try solve [ (* Return *) apply hp_bind_v; [apply popframe_heap|]; intros s1 E1; apply hp_same; exact E1 ].
    all: try solve [ (* ReturnValue *) apply hp_bind_p; [apply hpp_pop|]; intros v s1 E1;
                     apply hp_bind_v; [intros s2 E2; rewrite (popframe_heap _ _ E2); exact E1|];
                     intros s2 E2; apply hp_same; exact E2 ].
    all: try solve [ (* Call *) h8 argc s1 E1; hpop E1 f s2 E2; destruct f; cbn [hp]; auto;
                     repeat match goal with |- hp _ (if ?c then _ else _) => destruct c; cbn [hp]; auto end;
                     match goal with |- hp _ (pushframe ?a ?b ?c) =>
                       pose proof (pushframe_heap a b c) as Hs; destruct (pushframe a b c); cbn [hp]; auto;
                       rewrite (Hs _ eq_refl); cbn [upd_stack v_heap]; rewrite E2; lia end ].
    all: try solve [ (* Builtin *) h8 bb s1 E1; apply hp_bind_p; [rewrite <- E1; apply hpp_read_u8|]; intros argc s2 E2;
                     apply hp_bind_p; [rewrite <- E2; apply hpp_pop_n|]; intros args s3 E3;
                     destruct (builtin_of_byte bb) as [bi|]; cbn [hp]; auto;
                     pose proof (CompileCorrectH3.call_builtin_grows orc bi (v_heap s3) args) as Hg;
                     destruct (call_builtin orc bi (v_heap s3) args) as [[[v h'] pr]| | |]; cbn [bind hp fst snd] in *; auto;
                     unfold with_new; rewrite <- E3; destruct (Pos.eqb _ _); exact Hg ].
    all: try solve [ (* GetLocal *) h16 idx s1 E1; destruct (get_local idx s1); cbn [bind hp]; auto;
                     cbn [push upd_stack v_heap]; rewrite E1; lia ].
    all: try solve [ (* Array *) h16 k s1 E1; apply hp_bind_p; [rewrite <- E1; apply hpp_pop_n|]; intros vs s2 E2;
                     cbn [h_alloc hp push upd_stack upd_heap v_heap n_alloc]; rewrite E2; lia ].
    all: try solve [ (* IndexGet *) apply hp_bind_p; [apply hpp_pop|]; intros ix s1 E1; hpop E1 lhs s2 E2;
                     rewrite <- E2; apply hp_index_get ].
    all: try solve [ (* IndexSet *) apply hp_bind_p; [apply hpp_pop|]; intros vv s1 E1; hpop E1 ix s2 E2; hpop E2 lhs s3 E3;
                     rewrite <- E3; apply hp_index_set ].
  Qed.

  (** ** Lockstep, in symmetric form *)

  Definition same_step (x y : outcome stepres) : Prop :=
    match x, y with
    | Ok (Continue r'), Ok (Continue n') => vsim r' n'
    | Ok (Halted v r'), Ok (Halted w n') => v = w /\ vsim r' n'
    | Err k, Err k' => k = k'
    | Fault f, Fault f' => f = f'
    | OutOfFuel, OutOfFuel => True
    | _, _ => False
    end.

  Lemma vsim_nalloc : forall r n, vsim r n -> n_alloc (v_heap r) = n_alloc (v_heap n).
  Proof. intros r n V. exact (hle_nalloc _ _ (heap_of r n V)). Qed.

  (* GC_UNOBSERVABLE, one instruction: under the collector invariant and the address-space bound the
     real machine and the collection-free machine do the same thing *)
  Theorem gc_lockstep : forall r n, VMInv prog r -> addr_bounded r -> vsim r n ->
    same_step (step orc prog r) (step_ng n).
  Proof.
    intros r n HI Hb V.
    pose proof (gc_lockstep_s r n (proj1 (vminv_sinv prog r) HI) V) as L.
    pose proof (vm_no_heap_fault orc prog r HI Hb) as NF.
    destruct (step orc prog r) as [[r'|v r']|k|f|]; cbn [ole same_step] in *.
    - destruct L as [[n'|w n'] [-> S]]; cbn [srel] in S; [exact S|contradiction].
    - destruct L as [[n'|w n'] [-> S]]; cbn [srel] in S; [contradiction|exact S].
    - rewrite L. reflexivity.
    - destruct L as [-> | ->]; [|reflexivity]. destruct (NF _ eq_refl) as [N _]. exfalso. apply N. reflexivity.
    - rewrite L. exact I.
  Qed.

  (** ** Runs *)

  Fixpoint steps_ng (k : nat) (s : vm) : outcome vm :=
    match k with
    | O => Ok s
    | S k' =>
        match step_ng s with
        | Ok (Continue s1) => steps_ng k' s1
        | Ok (Halted _ _) => Fault FUnwrap
        | Err e => Err e
        | Fault f => Fault f
        | OutOfFuel => OutOfFuel
        end
    end.

  Lemma steps_ng_mono : forall k n n', steps_ng k n = Ok n' -> n_alloc (v_heap n) <= n_alloc (v_heap n').
  Proof.
    induction k as [|k IH]; intros n n' E; cbn [steps_ng] in E.
    - inversion E. lia.
    - destruct (step_ng n) as [[n1|v n1]| | |] eqn:E1; try discriminate E.
      pose proof (ng_alloc_mono n n1 E1). pose proof (IH n1 n' E). lia.
  Qed.

  (* GC_UNOBSERVABLE for runs: whatever the collection-free machine reaches in k instructions, within
     the address space, the real machine reaches in k instructions, in a state that differs only by
     boxes flagged dead; the collector invariant holds there *)
  Theorem gc_unobservable_steps : forall k r n n', VMInv prog r -> vsim r n ->
    steps_ng k n = Ok n' -> n_alloc (v_heap n') + 1 < 2 ^ 60 ->
    exists r', CompileCorrectA.steps orc prog k r = Ok r' /\ vsim r' n' /\ VMInv prog r'.
  Proof.
    induction k as [|k IH]; intros r n n' HI V E Hb; cbn [steps_ng CompileCorrectA.steps] in *.
    - inversion E; subst n'. exists r. auto.
    - destruct (step_ng n) as [[n1|v n1]| | |] eqn:E1; try discriminate E.
      pose proof (ng_alloc_mono n n1 E1) as M1. pose proof (steps_ng_mono k n1 n' E) as M2.
      assert (addr_bounded r) as Hbr by (unfold addr_bounded; rewrite (vsim_nalloc r n V); lia).
      pose proof (gc_lockstep r n HI Hbr V) as L. rewrite E1 in L.
      destruct (step orc prog r) as [[r1|w r1]|e|f|] eqn:Er; cbn [same_step] in L; try contradiction.
      exact (IH r1 n1 n' (vm_inv_step orc prog r r1 HI Er) L E Hb).
  Qed.

  (* ... and what stops the one stops the other, in the same way *)
  Theorem gc_unobservable_stop : forall r n, VMInv prog r -> vsim r n -> n_alloc (v_heap n) + 1 < 2 ^ 60 ->
    same_step (step orc prog r) (step_ng n).
  Proof.
    intros r n HI V Hb. apply gc_lockstep; [exact HI| |exact V].
    unfold addr_bounded. rewrite (vsim_nalloc r n V). exact Hb.
  Qed.
End Machine.

(** * Reachability seen through the relation *)

(* a box that is alive in the real heap has the same contents in both heaps, so what the real
   machine can reach from a set of roots whose boxes are alive and closed under contents is
   what the collection-free machine reaches *)
Lemma hle_find_alive : forall hr hn l o, hle hr hn -> PM.find l (cells hr) = Some (true, o) ->
  PM.find l (cells hn) = Some (true, o).
Proof.
  intros hr hn l o H E. rewrite (hle_cells _ _ H l); [exact E|]. unfold h_alive. rewrite E. reflexivity.
Qed.

Lemma hle_h_get : forall hr hn l o, hle hr hn -> h_get hr l = Ok o -> h_get hn l = Ok o.
Proof.
  intros hr hn l o H E. pose proof (hle_get hr hn H l) as G. rewrite E in G. destruct G as [b [G <-]]. exact G.
Qed.

Print Assumptions gc_lockstep.
Print Assumptions collect_hle.
Print Assumptions gc_unobservable_steps.
Print Assumptions ng_alloc_mono.
