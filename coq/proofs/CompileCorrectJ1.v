(* CompileCorrectJ1.v - compiler correctness for the fragment F4 (functions AND heap values AND builtins;
   spec/Fragment4.v), part J1: THE COLLECTOR IS UNOBSERVABLE AT THE MACHINE LEVEL.

   The machine of model/VM.v runs the collector at every OReturn / OReturnValue.  Here it is compared
   with the COLLECTION-FREE machine `step_ng`: the same dispatch loop, except that the two return
   instructions do not call the collector and Halt does not untrace.  Facts used:
     - Value.h_alloc always takes `next_loc`, which only grows, and a released box stays in the
       cell map flagged dead: a location is NEVER reused;
     - a collection only flips the alive flag of boxes that are unreachable from the root list
       (GCProofs.run_char), and the root list of VM.roots contains everything the machine holds
       (VMGCProofs: VMInv is kept by every step, collect_ok: a collection point never fails).
   So along a run the heap of the real machine is the heap of the collection-free machine with some
   boxes flagged dead (`hle`), all other components of the state are EQUAL (`vsim`), and - because
   every value-level function of Ops.v / Builtins.v / VM.v only READS live boxes (monotonicity in
   `hle`, relation `ole`) and the real machine never reads a dead box (VMGCProofs.vm_no_heap_fault) -
   the two machines run in lockstep: same instruction pointer, same stack, same output, same error.

   Main results:  `gc_lockstep` (one instruction), `collect_hle` (the collection lemma: what a
   collection does to the relation), `gc_unobservable_steps` / `gc_unobservable_stop` (runs),
   `ng_alloc_mono`. *)
From Coq Require Import ZArith Lia Bool List String.
From NL.Model Require Import VM.
From NL.Spec Require Import GCInv VMInv.
From NL.Proofs Require Import GCProofs VMGCLedger VMGCProofs.
Open Scope Z_scope.

(** * The real heap is the collection-free heap with some boxes flagged dead *)

Record hle (hr hn : heap) : Prop := mkHle {
  hle_next : next_loc hr = next_loc hn;
  hle_nalloc : n_alloc hr = n_alloc hn;
  hle_cells : forall l, h_alive hr l = true -> PM.find l (cells hn) = PM.find l (cells hr)
}.

Lemma hle_refl : forall h, hle h h.
Proof. intros h. constructor; auto. Qed.

Lemma hle_alive : forall hr hn l, hle hr hn -> h_alive hr l = true -> h_alive hn l = true.
Proof.
  intros hr hn l H Ha. unfold h_alive. rewrite (hle_cells _ _ H l Ha). exact Ha.
Qed.

Lemma hle_trans : forall h1 h2 h3, hle h1 h2 -> hle h2 h3 -> hle h1 h3.
Proof.
  intros h1 h2 h3 A B. constructor.
  - rewrite (hle_next _ _ A). exact (hle_next _ _ B).
  - rewrite (hle_nalloc _ _ A). exact (hle_nalloc _ _ B).
  - intros l Ha. rewrite (hle_cells _ _ B l (hle_alive _ _ _ A Ha)). exact (hle_cells _ _ A l Ha).
Qed.

(** * Outcomes: what the real side computes without touching a dead box, the other side computes too *)

Definition ole {A B} (P : A -> B -> Prop) (x : outcome A) (y : outcome B) : Prop :=
  match x with
  | Ok a => exists b, y = Ok b /\ P a b
  | Err k => y = Err k
  | Fault f => f = FUseAfterFree \/ y = Fault f
  | OutOfFuel => y = OutOfFuel
  end.

Lemma ole_bind : forall A B A' B' (P : A -> B -> Prop) (Q : A' -> B' -> Prop)
  (x : outcome A) (y : outcome B) (k : A -> outcome A') (k' : B -> outcome B'),
  ole P x y -> (forall a b, P a b -> ole Q (k a) (k' b)) -> ole Q (bind x k) (bind y k').
Proof.
  intros A B A' B' P Q x y k k' H Hk. destruct x as [a|e|f|]; cbn [ole bind] in *.
  - destruct H as [b [-> Hp]]. cbn [bind]. exact (Hk a b Hp).
  - rewrite H. reflexivity.
  - destruct H as [H|H]; [left; exact H|right; rewrite H; reflexivity].
  - rewrite H. reflexivity.
Qed.

Lemma ole_refl : forall A (P : A -> A -> Prop) (x : outcome A), (forall a, P a a) -> ole P x x.
Proof. intros A P x H. destruct x; cbn [ole]; auto. eexists; split; [reflexivity|apply H]. Qed.

Lemma ole_weaken : forall A B (P Q : A -> B -> Prop) x y, (forall a b, P a b -> Q a b) -> ole P x y -> ole Q x y.
Proof.
  intros A B P Q x y H Ho. destruct x; cbn [ole] in *; auto.
  destruct Ho as [b [E Hp]]. exists b. split; [exact E|apply H; exact Hp].
Qed.

Lemma ole_ok : forall A B (P : A -> B -> Prop) a b, P a b -> ole P (Ok a) (Ok b).
Proof. intros. exists b. split; [reflexivity|assumption]. Qed.

(** * Reading and writing boxes *)

Section Heaps.
  Variables hr hn : heap.
  Hypothesis H : hle hr hn.

  Lemma hle_get : forall l, ole eq (h_get hr l) (h_get hn l).
  Proof.
    intros l. unfold h_get. destruct (PM.find l (cells hr)) as [[[|] o]|] eqn:E; cbn [ole]; auto.
    assert (h_alive hr l = true) as Ha by (unfold h_alive; rewrite E; reflexivity).
    rewrite (hle_cells _ _ H l Ha), E. exists o. auto.
  Qed.

  Lemma hle_get_float : forall l, ole eq (get_float hr l) (get_float hn l).
  Proof.
    intros l. unfold get_float. apply (ole_bind _ _ _ _ eq eq _ _ _ _ (hle_get l)).
    intros a b <-. apply ole_refl. reflexivity.
  Qed.
  Lemma hle_get_str : forall l, ole eq (get_str hr l) (get_str hn l).
  Proof.
    intros l. unfold get_str. apply (ole_bind _ _ _ _ eq eq _ _ _ _ (hle_get l)).
    intros a b <-. apply ole_refl. reflexivity.
  Qed.
  Lemma hle_get_arr : forall l, ole eq (get_arr hr l) (get_arr hn l).
  Proof.
    intros l. unfold get_arr. apply (ole_bind _ _ _ _ eq eq _ _ _ _ (hle_get l)).
    intros a b <-. apply ole_refl. reflexivity.
  Qed.

  Lemma hle_alloc : forall o, hle (snd (h_alloc hr o)) (snd (h_alloc hn o)) /\ fst (h_alloc hr o) = fst (h_alloc hn o).
  Proof.
    intros o. unfold h_alloc. cbn [fst snd]. split; [|exact (hle_next _ _ H)].
    constructor; cbn [next_loc n_alloc cells].
    - rewrite (hle_next _ _ H). reflexivity.
    - rewrite (hle_nalloc _ _ H). reflexivity.
    - intros l Ha. unfold h_alive in Ha. cbn [cells] in Ha. rewrite <- (hle_next _ _ H).
      destruct (Pos.eq_dec l (next_loc hr)) as [->|N].
      + rewrite !PM.gss. reflexivity.
      + rewrite PM.gso in Ha by exact N. rewrite !PM.gso by exact N. apply (hle_cells _ _ H). exact Ha.
  Qed.

  Lemma hle_set : forall l o, ole hle (h_set hr l o) (h_set hn l o).
  Proof.
    intros l o. unfold h_set. destruct (PM.find l (cells hr)) as [[[|] o0]|] eqn:E; cbn [ole]; auto.
    assert (h_alive hr l = true) as Ha by (unfold h_alive; rewrite E; reflexivity).
    rewrite (hle_cells _ _ H l Ha), E. eexists. split; [reflexivity|].
    constructor; cbn [next_loc n_alloc cells]; [exact (hle_next _ _ H)|exact (hle_nalloc _ _ H)|].
    intros k Hk. unfold h_alive in Hk. cbn [cells] in Hk.
    destruct (Pos.eq_dec k l) as [->|N]; [rewrite !PM.gss; reflexivity|].
    rewrite PM.gso in Hk by exact N. rewrite !PM.gso by exact N. apply (hle_cells _ _ H). exact Hk.
  Qed.

  Lemma hle_deref : forall w o, deref_heap hr w = Some o -> deref_heap hn w = Some o.
  Proof.
    intros w o. unfold deref_heap. destruct (loc_of_addr (w_as_ptr w)) as [l|]; [|discriminate].
    pose proof (hle_get l) as G. destruct (h_get hr l) as [x| | |]; try discriminate.
    cbn [ole] in G. destruct G as [b [-> <-]]. auto.
  Qed.
End Heaps.

(** * Results of the value-level functions: value and new heap *)

Definition rle (x y : val * heap) : Prop := fst x = fst y /\ hle (snd x) (snd y).

Lemma rle_same : forall hr hn v, hle hr hn -> rle (v, hr) (v, hn).
Proof. intros. split; [reflexivity|assumption]. Qed.

Lemma rle_alloc_str : forall hr hn s, hle hr hn -> rle (alloc_str hr s) (alloc_str hn s).
Proof.
  intros hr hn s H. destruct (hle_alloc hr hn H (OStr s)) as [A B]. unfold alloc_str.
  destruct (h_alloc hr (OStr s)) as [l h1]. destruct (h_alloc hn (OStr s)) as [l' h2]. cbn [fst snd] in *.
  subst l'. split; [reflexivity|exact A].
Qed.

Lemma rle_alloc_float : forall hr hn s, hle hr hn -> rle (alloc_float hr s) (alloc_float hn s).
Proof.
  intros hr hn s H. destruct (hle_alloc hr hn H (OFloat s)) as [A B]. unfold alloc_float.
  destruct (h_alloc hr (OFloat s)) as [l h1]. destruct (h_alloc hn (OFloat s)) as [l' h2]. cbn [fst snd] in *.
  subst l'. split; [reflexivity|exact A].
Qed.

(** ** Operators *)

Definition wle (x y : wres) : Prop := x = WFault FUseAfterFree \/ y = x.

Section Words.
  Variables dr dn : Z -> option obj.
  Variable orc : oracle.
  Hypothesis D : forall w o, dr w = Some o -> dn w = Some o.

  Lemma w_arith_mono : forall sym chk a b, wle (w_arith dr orc sym chk a b) (w_arith dn orc sym chk a b).
  Proof.
    intros sym chk a b. unfold w_arith.
    destruct (w_tag a) as [ta|]; [|right; reflexivity]. destruct (w_tag b) as [tb|]; [|right; reflexivity].
    destruct (negb (tag_eqb ta tb)); [right; reflexivity|].
    destruct ta; try (right; reflexivity).
    destruct (dr a) as [oa|] eqn:Ea; [rewrite (D _ _ Ea)|left; reflexivity].
    destruct (dr b) as [ob|] eqn:Eb; [rewrite (D _ _ Eb); right; reflexivity|].
    left. destruct oa; reflexivity.
  Qed.

  Lemma w_eq_mono : forall ta a b r, w_eq dr ta a b = Some r -> w_eq dn ta a b = Some r.
  Proof.
    intros ta a b r. unfold w_eq. destruct ta; auto.
    - destruct (dr a) as [oa|] eqn:Ea; [rewrite (D _ _ Ea)|discriminate].
      destruct (dr b) as [ob|] eqn:Eb; [rewrite (D _ _ Eb); auto|]. destruct oa; discriminate.
    - destruct (dr a) as [oa|] eqn:Ea; [rewrite (D _ _ Ea)|discriminate].
      destruct (dr b) as [ob|] eqn:Eb; [rewrite (D _ _ Eb); auto|]. destruct oa; discriminate.
  Qed.

  Lemma w_pcmp_mono : forall ta a b r, w_partial_cmp dr ta a b = Some r -> w_partial_cmp dn ta a b = Some r.
  Proof.
    intros ta a b r. unfold w_partial_cmp. destruct ta; auto.
    - destruct (dr a) as [oa|] eqn:Ea; [rewrite (D _ _ Ea)|discriminate].
      destruct (dr b) as [ob|] eqn:Eb; [rewrite (D _ _ Eb); auto|]. destruct oa; discriminate.
    - destruct (dr a) as [oa|] eqn:Ea; [rewrite (D _ _ Ea)|discriminate].
      destruct (dr b) as [ob|] eqn:Eb; [rewrite (D _ _ Eb); auto|]. destruct oa; discriminate.
  Qed.

  Lemma cmp_sym_mono : forall sym ta a b r, cmp_sym dr sym ta a b = Some r -> cmp_sym dn sym ta a b = Some r.
  Proof.
    intros sym ta a b r. unfold cmp_sym.
    destruct (String.eqb sym "=="); [apply w_eq_mono|].
    destruct (String.eqb sym "!=").
    { destruct (w_eq dr ta a b) as [x|] eqn:E; [|discriminate]. rewrite (w_eq_mono _ _ _ _ E). auto. }
    destruct (w_partial_cmp dr ta a b) as [c|] eqn:E; [|discriminate]. rewrite (w_pcmp_mono _ _ _ _ E). auto.
  Qed.

  Lemma w_cmp_mono : forall sym ord a b, wle (w_cmp dr sym ord a b) (w_cmp dn sym ord a b).
  Proof.
    intros sym ord a b. unfold w_cmp.
    destruct (w_tag a) as [ta|]; [|right; reflexivity]. destruct (w_tag b) as [tb|]; [|right; reflexivity].
    destruct (negb (tag_eqb ta tb)); [right; reflexivity|].
    destruct (tag_eqb ta TArray || (ord && tag_eqb ta TFunction)); [right; reflexivity|].
    destruct (cmp_sym dr sym ta a b) as [r|] eqn:E; [rewrite (cmp_sym_mono _ _ _ _ _ E); right; reflexivity|].
    left. reflexivity.
  Qed.

  Lemma w_method_mono : forall m a b, wle (w_method dr orc m a b) (w_method dn orc m a b).
  Proof.
    intros m a b. unfold w_method.
    destruct (assoc3 m arith_methods) as [[sym chk]|]; [apply w_arith_mono|].
    destruct (assoc3 m cmp_methods) as [[sym ord]|]; [apply w_cmp_mono|].
    right. reflexivity.
  Qed.
End Words.

Lemma lift_wres_mono : forall hr hn x y, hle hr hn -> wle x y -> ole rle (lift_wres hr x) (lift_wres hn y).
Proof.
  intros hr hn x y H [->|->]; [left; reflexivity|].
  destruct x as [w|f|k|f]; cbn [lift_wres ole]; auto.
  - destruct (decode w) as [v|]; cbn [ole]; auto. eexists. split; [reflexivity|apply rle_same; exact H].
  - destruct (hle_alloc hr hn H (OFloat f)) as [A B].
    destruct (h_alloc hr (OFloat f)) as [l h1]. destruct (h_alloc hn (OFloat f)) as [l' h2]. cbn [fst snd] in *.
    subst l'. eexists. split; [reflexivity|]. split; [reflexivity|exact A].
Qed.

Lemma binop_mono : forall orc m hr hn a b, hle hr hn -> ole rle (binop orc m hr a b) (binop orc m hn a b).
Proof.
  intros orc m hr hn a b H. unfold binop. apply lift_wres_mono; [exact H|].
  apply w_method_mono. intros w o. apply hle_deref. exact H.
Qed.

Lemma negate_mono : forall hr hn v, hle hr hn -> ole rle (negate hr v) (negate hn v).
Proof.
  intros hr hn v H. unfold negate. destruct v; cbn [ole]; auto.
  - destruct (checked_int _) as [w|]; cbn [ole]; auto.
    destruct (decode w) as [r|]; cbn [ole]; auto. eexists. split; [reflexivity|apply rle_same; exact H].
  - apply (ole_bind _ _ _ _ eq rle _ _ _ _ (hle_get_float hr hn H l)). intros f f' <-.
    destruct (hle_alloc hr hn H (OFloat (- f)%float)) as [A B].
    destruct (h_alloc hr (OFloat (- f)%float)) as [k h1]. destruct (h_alloc hn (OFloat (- f)%float)) as [k' h2].
    cbn [fst snd] in *. subst k'. eexists. split; [reflexivity|]. split; [reflexivity|exact A].
Qed.
