(* CertifyProofs.v - property C02 at the level of the compiler, part 1: the typing discipline, its
   combinators, and the expressions without jumps (statements and blocks: CertifyProofsB.v; als, zolang,
   functie, the induction over the tree and the theorem compile_certifies: CertifyProofsC.v).

   Every expression's code, entered with a bound h, reaches its end with h + 1; every statement's code
   reaches its end with h.  The judgement `seg st st' m LH hin E C` says: the compiler went from st to
   st', the instructions emitted in between are described by the entries C (one per instruction:
   pc, width, mode, bound), and each of them is acceptable to Verify.check_instr in ANY final program
   (F, K, G) whose code F agrees with the buffer of st' on the instruction's bytes, whose pool K is at
   least as long as the pool of st', whose certificate G claims no more than C at the pcs of C and
   satisfies the exit condition E (normally: the pc after the last instruction is certified with a
   bound justified by the bound reached there), the start of the innermost open loop being certified
   with a bound justified by LH + 1.  Operands of `stop` jumps that are still recorded as pending in
   st' are not compared with the buffer: for them `pend_ok` is assumed. *)
From Coq Require Import ZArith Lia Bool List.
From NL.Model Require Import Compiler VM.
From NL.Spec Require Import Verify Printer ScopeSpec.
From NL.Proofs Require Import AstInduction SymbolsProofs.
From NL.Proofs Require PoolProofs ControlProofs CompilerNames.
From NL.Proofs Require Import CompilerTotal CertifyBase.
Import ListNotations.
Open Scope Z_scope.

Notation wfe := (wf_expr (fun _ => true)).
Notation wfs := (wf_stmt (fun _ => true)).

(** * 1. Vocabulary *)

(* function mode <-> the symbol table has more than the global context *)
Definition mode_of (st : cstate) : bool := negb (in_global_context (c_symbols st)).

(* inside a function the bound covers the local slots handed out so far *)
Definition lb (t : symtab) (h : Z) : Prop :=
  c_scope (current t) = SLocal -> Z.of_nat (c_max (current t)) <= h.

Definition loop_ok (G : cert) (st : cstate) (m : bool) (LH : Z) : Prop :=
  forall s rest, rev (map l_start (c_loops st)) = s :: rest -> succ_ok G m s (LH + 1) = true.

Definition kfun_new (st st' : cstate) (C : list centry) : Prop :=
  forall ip n, In (KFun ip n) (c_constants st') ->
    In (KFun ip n) (c_constants st) \/ (0 <= n /\ exists w, In (ip, w, true, n) C).

Definition brk_new (st st' : cstate) (m : bool) (C : list centry) : Prop :=
  forall p, brk (c_loops st') p -> code_len st <= p -> exists hp, In (p, 3, m, hp) C.

(* exit condition: pc is certified in mode m with a bound that hh justifies *)
Definition ex (m : bool) (pc hh : Z) : cert -> Prop := fun G => succ_ok G m pc hh = true.
Definition noex : cert -> Prop := fun _ => True.

Definition tyE (st' : cstate) (m : bool) (LH : Z) (E : cert -> Prop) (C : list centry) : Prop :=
  forall F K G, zlength (c_constants st') <= zlength K -> (forall x, In x C -> gle G x) -> E G ->
    loop_ok G st' m LH -> forall x, In x C -> ent_ok F K G st' m LH x.

Record seg (st st' : cstate) (m : bool) (LH hin : Z) (E : cert -> Prop) (C : list centry) : Prop := mk_seg {
  sg_contig : contig (code_len st) C (code_len st');
  sg_hd : hd_ok m hin C;
  sg_kfun : kfun_new st st' C;
  sg_brk : brk_new st st' m C;
  sg_typed : tyE st' m LH E C }.

(* what a statement (list) gives: the normal form, the form for compile_block_value / the end of a function
   body when the last instruction is the OPop of an expression statement (which is then removed), and the
   form when it is an OReturnValue (nothing reaches the end) *)
Record sspec (st st' : cstate) (m : bool) (h LH : Z) (C : list centry) : Prop := mk_sspec {
  ss_seg : seg st st' m LH h (ex m (code_len st') h) C;
  ss_pop : c_last st' = Some OPop -> forall C0 x, C = C0 ++ [x] ->
           x = (code_len st' - 1, 1, m, h + 1) /\ C0 <> [] /\ kfun_new st st' C0 /\
           tyE st' m LH (ex m (code_len st' - 1) (h + 1)) C0;
  ss_ret : c_last st' = Some OReturnValue -> tyE st' m LH noex C }.

Record pre (st st' : cstate) (m : bool) (h LH : Z) : Prop := mk_pre {
  pr_inv : code_inv st;
  pr_wf : wf_tab (c_symbols st);
  pr_mode : m = mode_of st;
  pr_h : 0 <= h;
  pr_LH : LH <= h;
  pr_lb : lb (c_symbols st') h }.

(** * 2. Frames *)

Lemma mode_mono : forall st st', mono st st' -> mode_of st' = mode_of st.
Proof.
  intros st st' [M _]. destruct (sgrow_facts _ _ M) as (L & _). unfold mode_of, in_global_context. rewrite L. reflexivity.
Qed.

Lemma lb_mono : forall st st' h h', mono st st' -> lb (c_symbols st') h -> h <= h' -> lb (c_symbols st) h'.
Proof.
  intros st st' h h' [M _] H L S. destruct (sgrow_facts _ _ M) as (_ & A & B). rewrite <- A in S.
  specialize (H S). lia.
Qed.

Lemma lb_same : forall t t' h, c_scope (current t') = c_scope (current t) -> c_max (current t') = c_max (current t) ->
  lb t h -> lb t' h.
Proof. intros t t' h A B H S. rewrite A in S. rewrite B. exact (H S). Qed.

Record frame (d : Z) (st st' : cstate) : Prop := mk_frame {
  fr_inv : code_inv st';
  fr_ps : pstep (code_len st) st st';
  fr_len : code_len st + d <= code_len st';
  fr_mono : mono st st';
  fr_wf : wf_tab (c_symbols st') }.

Lemma wfe_ops : forall e, wfe e = true -> ops_ok_e e = true.
Proof. intros e. exact (proj1 (wf_ops_ok (fun _ => true)) e). Qed.
Lemma wfs_ops : forall s, wfs s = true -> ops_ok_s s = true.
Proof. intros s. exact (proj2 (wf_ops_ok (fun _ => true)) s). Qed.
Lemma wfs_ops_all : forall b, forallb wfs b = true -> forallb ops_ok_s b = true.
Proof. intros b H. eapply forallb_imp; [|exact H]. apply Forall_forall. intros s _. apply wfs_ops. Qed.
Lemma wfe_ops_all : forall l, forallb wfe l = true -> forallb ops_ok_e l = true.
Proof. intros b H. eapply forallb_imp; [|exact H]. apply Forall_forall. intros s _. apply wfe_ops. Qed.

Lemma all_Gs : forall b, Forall Gs b.
Proof. intros b. apply Forall_forall. intros s _. exact (proj2 compile_good_all s). Qed.
Lemma all_Ge : forall l, Forall (fun e => Ge e /\ sub_ok e) l.
Proof. intros l. apply Forall_forall. intros e _. exact (proj1 compile_good_all e). Qed.
Lemma all_Ms : forall b, Forall Ms b.
Proof. intros b. apply Forall_forall. intros s _. exact (proj2 compile_mono s). Qed.
Lemma all_Me : forall l, Forall (fun e => Me e /\ Msub e) l.
Proof. intros l. apply Forall_forall. intros e _. exact (proj1 compile_mono e). Qed.

Lemma frame_of_good : forall d st st', good d st (Ok st') -> wf_tab (c_symbols st) -> mono st st' -> frame d st st'.
Proof.
  intros d st st' (A & B & C) W M. split; [exact A|exact B|exact C|exact M|eapply mono_wf; eassumption].
Qed.

Lemma expr_frame : forall e st st', wfe e = true -> code_inv st -> wf_tab (c_symbols st) ->
  compile_expression e st = Ok st' -> frame 1 st st'.
Proof.
  intros e st st' We I W H. apply frame_of_good; [|exact W|exact (proj1 (proj1 compile_mono e) _ _ H W)].
  rewrite <- H. apply compile_expression_inv; [apply wfe_ops; exact We|exact I].
Qed.

Lemma stmt_frame : forall s st st', wfs s = true -> code_inv st -> wf_tab (c_symbols st) ->
  compile_statement s st = Ok st' -> frame 1 st st'.
Proof.
  intros s st st' Ws I W H. apply frame_of_good; [|exact W|exact (proj2 compile_mono s _ _ H W)].
  rewrite <- H. apply compile_statement_inv; [apply wfs_ops; exact Ws|exact I].
Qed.

Lemma stmts_frame : forall b st st', forallb wfs b = true -> code_inv st -> wf_tab (c_symbols st) ->
  compile_statements b st = Ok st' -> frame (if is_nil b then 0 else 1) st st'.
Proof.
  intros b st st' Wb I W H. apply frame_of_good; [|exact W|exact (stmts_mono b (all_Ms b) _ _ H W)].
  rewrite <- H. apply stmts_good; [apply all_Gs|apply wfs_ops_all; exact Wb|exact I].
Qed.

Lemma exprs_frame : forall l st st', forallb wfe l = true -> code_inv st -> wf_tab (c_symbols st) ->
  compile_exprs l st = Ok st' -> frame 0 st st'.
Proof.
  intros l st st' Wl I W H. apply frame_of_good; [|exact W|exact (exprs_mono l (all_Me l) _ _ H W)].
  rewrite <- H. apply exprs_good; [apply all_Ge|apply wfe_ops_all; exact Wl|exact I].
Qed.

Lemma block_value_frame : forall b st st', forallb wfs b = true -> code_inv st -> wf_tab (c_symbols st) ->
  block_value b st = Ok st' -> frame 0 st st'.
Proof.
  intros b st st' Wb I W H. apply frame_of_good; [|exact W|exact (block_value_mono b (all_Ms b) _ _ H W)].
  rewrite <- H. apply bvalue_good; [apply all_Gs|apply wfs_ops_all; exact Wb|exact I].
Qed.

Lemma block_statement_frame : forall b st st', forallb wfs b = true -> code_inv st -> wf_tab (c_symbols st) ->
  block_statement b st = Ok st' -> frame 1 st st'.
Proof.
  intros b st st' Wb I W H. apply frame_of_good; [|exact W|exact (block_statement_mono b (all_Ms b) _ _ H W)].
  rewrite <- H. apply block_good; [apply all_Gs|apply wfs_ops_all; exact Wb|exact I].
Qed.

(* appending bytes *)
Lemma app_frame : forall st st' l, app_of st st' l -> 1 <= zlength l -> code_inv st -> wf_tab (c_symbols st) ->
  c_symbols st' = c_symbols st -> c_constants st' = c_constants st -> frame (zlength l) st st'.
Proof.
  intros st st' l A L I W Es Ek. destruct (app_facts _ _ _ A L I) as (X & Y & Z1 & _).
  split; [exact X|exact Y|lia|apply mono_same; assumption|rewrite Es; exact W].
Qed.

Lemma frame_trans : forall d1 d2 a b c, frame d1 a b -> frame d2 b c -> frame (d1 + d2) a c.
Proof.
  intros d1 d2 a b c [A1 A2 A3 A4 A5] [B1 B2 B3 B4 B5].
  split; [exact B1|eapply pstep_then; eassumption|lia|eapply mono_trans; eassumption|exact B5].
Qed.

Lemma frame_weaken : forall d d' a b, d' <= d -> frame d a b -> frame d' a b.
Proof. intros d d' a b L [A1 A2 A3 A4 A5]. split; try assumption. lia. Qed.

Lemma loop_ok_starts : forall G st st' m LH, map l_start (c_loops st') = map l_start (c_loops st) ->
  loop_ok G st m LH -> loop_ok G st' m LH.
Proof. intros G st st' m LH E H s rest R. rewrite E in R. exact (H s rest R). Qed.

Lemma loop_ok_pstep : forall G n st st' m LH, pstep n st st' -> loop_ok G st' m LH -> loop_ok G st m LH.
Proof.
  intros G n st st' m LH S H. eapply loop_ok_starts; [|exact H]. symmetry.
  exact (loops_ext_starts _ _ _ (sp_loops _ _ _ S)).
Qed.

Lemma klen_frame : forall d st st' (K : list val), frame d st st' -> zlength (c_constants st') <= zlength K ->
  zlength (c_constants st) <= zlength K.
Proof. intros d st st' K Fr H. pose proof (pool_ext_len _ _ (mo_pool _ _ (fr_mono _ _ _ Fr))). lia. Qed.

(** * 3. Windows: what a later step leaves alone *)

Record pwin (a b : Z) (st st' : cstate) : Prop := mk_pwin {
  pw_bytes : forall i, a <= i < b -> byte_at st' i = byte_at st i;
  pw_brk : forall p, a <= p < b -> (brk (c_loops st') p <-> brk (c_loops st) p) }.

Lemma pwin_refl : forall a b st, pwin a b st st.
Proof. intros. split; [reflexivity|tauto]. Qed.

Lemma pwin_trans : forall a b s1 s2 s3, pwin a b s1 s2 -> pwin a b s2 s3 -> pwin a b s1 s3.
Proof.
  intros a b s1 s2 s3 [A1 A2] [B1 B2]. split.
  - intros i Hi. rewrite B1, A1 by exact Hi. reflexivity.
  - intros p Hp. rewrite B2, A2 by exact Hp. tauto.
Qed.

Lemma pwin_pstep : forall a b n st st', pstep n st st' -> 0 <= a -> b <= n -> pwin a b st st'.
Proof.
  intros a b n st st' [S1 S2 S3] A0 L. split.
  - intros i Hi. apply S2. lia.
  - intros p Hp. split.
    + intros X. destruct (loops_ext_brk _ _ _ _ S3 X) as [Y|Y]; [exact Y|lia].
    + apply (loops_ext_brk_mono _ _ _ _ S3).
Qed.

Lemma pwin_patched : forall a b pos st st', patched pos st st' -> 0 <= a -> pos + 2 < a \/ b <= pos + 1 ->
  pwin a b st st'.
Proof.
  intros a b pos st st' [L1 L2 L3 L4] A0 D. split.
  - intros i Hi. apply L4; lia.
  - intros p Hp. rewrite L2. tauto.
Qed.

Lemma pwin_same : forall a b st st', c_code st' = c_code st -> c_loops st' = c_loops st -> pwin a b st st'.
Proof. intros a b st st' E1 E2. split; [intros i _; unfold byte_at; rewrite E1; reflexivity|intros p _; rewrite E2; tauto]. Qed.

Lemma pwin_frame : forall a b d st st', frame d st st' -> 0 <= a -> b <= code_len st -> pwin a b st st'.
Proof. intros a b d st st' Fr A0 L. eapply pwin_pstep; [exact (fr_ps _ _ _ Fr)|exact A0|exact L]. Qed.

Section Transport.
  Variable F : list Z.
  Variable K : list val.
  Variable G : cert.

  (* the general transport: the bytes of the instruction are the same; a position pending now was pending
     before; a position that was pending before is still pending, and what is assumed of it now implies
     what was assumed of it before *)
  Lemma ent_ok_gen : forall st st' mc LH mc' LH' x,
    (forall i, e_pc x <= i < e_pc x + e_w x -> byte_at st' i = byte_at st i) ->
    1 <= e_w x ->
    (brk (c_loops st') (e_pc x) -> brk (c_loops st) (e_pc x)) ->
    (brk (c_loops st) (e_pc x) ->
       brk (c_loops st') (e_pc x) /\ (pend_ok F G mc' LH' (e_pc x) -> pend_ok F G mc LH (e_pc x))) ->
    ent_ok F K G st mc LH x -> ent_ok F K G st' mc' LH' x.
  Proof.
    intros st st' mc LH mc' LH' x B W I1 I2 H A1 A2 A3 A4. apply H.
    - unfold agree in *. rewrite A1. apply B. lia.
    - intros N i Hi. unfold agree in *. rewrite (A2 (fun X => N (I1 X)) i Hi). apply B. exact Hi.
    - intros X. destruct (I2 X) as [Y Z]. apply Z. apply A3. exact Y.
    - exact A4.
  Qed.

  Lemma ents_ok_pwin : forall a C b st st' mc LH, pwin a b st st' -> contig a C b ->
    (forall x, In x C -> ent_ok F K G st mc LH x) -> forall x, In x C -> ent_ok F K G st' mc LH x.
  Proof.
    intros a C b st st' mc LH [P1 P2] Hc H x Hx. pose proof (contig_range _ _ _ _ Hc Hx) as R.
    apply (ent_ok_keeps F K G st); [|lia| |apply H; exact Hx].
    - intros i Hi. apply P1. lia.
    - apply P2. lia.
  Qed.
End Transport.

(** * 4. Combinators *)

Lemma kfun_new_refl : forall st, kfun_new st st [].
Proof. intros st ip n H. left. exact H. Qed.

Lemma kfun_new_app : forall a b c C1 C2, kfun_new a b C1 -> kfun_new b c C2 -> kfun_new a c (C1 ++ C2).
Proof.
  intros a b c C1 C2 H1 H2 ip n H. destruct (H2 ip n H) as [X|(N & w & X)].
  - destruct (H1 ip n X) as [Y|(N & w & Y)]; [left; exact Y|right]. split; [exact N|].
    exists w. apply in_or_app. left. exact Y.
  - right. split; [exact N|]. exists w. apply in_or_app. right. exact X.
Qed.

Lemma kfun_new_same : forall a b C, (forall ip n, In (KFun ip n) (c_constants b) -> In (KFun ip n) (c_constants a)) ->
  kfun_new a b C.
Proof. intros a b C H ip n X. left. apply H. exact X. Qed.

Lemma kfun_new_mono : forall a b C C', kfun_new a b C -> (forall x, In x C -> In x C') -> kfun_new a b C'.
Proof.
  intros a b C C' H S ip n X. destruct (H ip n X) as [Y|(N & w & Y)]; [left; exact Y|right].
  split; [exact N|]. exists w. apply S. exact Y.
Qed.

Lemma brk_new_app : forall n a b c m C1 C2, brk_new a b m C1 -> brk_new b c m C2 ->
  loops_ext n (c_loops b) (c_loops c) -> code_len b <= n ->
  brk_new a c m (C1 ++ C2).
Proof.
  intros n a b c m C1 C2 H1 H2 S L p Hp Lp. destruct (Z_lt_le_dec p (code_len b)) as [X|X].
  - destruct (loops_ext_brk _ _ _ _ S Hp) as [Y|Y]; [|lia].
    destruct (H1 p Y Lp) as [hp Z]. exists hp. apply in_or_app. left. exact Z.
  - destruct (H2 p Hp X) as [hp Z]. exists hp. apply in_or_app. right. exact Z.
Qed.

(* nothing pending was recorded: the loop contexts are those of st, whose positions lie below *)
Lemma brk_new_none : forall st st' m C, code_inv st -> c_loops st' = c_loops st -> brk_new st st' m C.
Proof.
  intros st st' m C I E p Hp Lp. rewrite E in Hp. destruct (bi_at _ _ I p Hp) as (_ & X & _). lia.
Qed.

Lemma seg_nil : forall st m LH h (E : cert -> Prop), code_inv st -> seg st st m LH h E [].
Proof.
  intros st m LH h E Hi. split; [constructor|exact I|apply kfun_new_refl|apply brk_new_none; [exact Hi|reflexivity]|].
  intros F K G _ _ _ _ x [].
Qed.

Lemma seg_app : forall st st1 st2 m LH h0 h1 (E : cert -> Prop) C1 C2,
  seg st st1 m LH h0 (ex m (code_len st1) h1) C1 ->
  seg st1 st2 m LH h1 E C2 ->
  frame 0 st1 st2 ->
  (C1 = [] -> h0 = h1) ->
  (code_len st2 = code_len st1 -> forall G, E G -> ex m (code_len st1) h1 G) ->
  seg st st2 m LH h0 E (C1 ++ C2).
Proof.
  intros st st1 st2 m LH h0 h1 E C1 C2 [A1 A2 A3 A4 A5] [B1 B2 B3 B4 B5] Fr N0 N2.
  pose proof (code_len_nonneg st) as P0. pose proof (contig_le _ _ _ A1) as L1. pose proof (contig_le _ _ _ B1) as L2.
  split.
  - eapply contig_app; eassumption.
  - destruct C1 as [|x C1]; [rewrite (N0 eq_refl); exact B2|exact A2].
  - eapply kfun_new_app; eassumption.
  - eapply brk_new_app; [exact A4|exact B4|exact (sp_loops _ _ _ (fr_ps _ _ _ Fr))|lia].
  - intros F K G KL GL HE LO x Hx. apply in_app_or in Hx. destruct Hx as [Hx|Hx].
    + apply (ents_ok_pstep F K G (code_len st1) (code_len st) C1 (code_len st1) st1);
        [exact (fr_ps _ _ _ Fr)|exact A1|exact P0|lia| |exact Hx].
      apply A5.
      * eapply klen_frame; eassumption.
      * intros y Hy. apply GL. apply in_or_app. left. exact Hy.
      * destruct (Z_lt_le_dec (code_len st1) (code_len st2)) as [X|X].
        -- destruct (contig_hd _ _ _ _ _ B1 X B2) as (w & C' & ->).
           apply (GL (code_len st1, w, m, h1)). apply in_or_app. right. left. reflexivity.
        -- apply N2; [lia|exact HE].
      * eapply loop_ok_pstep; [exact (fr_ps _ _ _ Fr)|exact LO].
    + apply B5; [exact KL| |exact HE|exact LO|exact Hx].
      intros y Hy. apply GL. apply in_or_app. right. exact Hy.
Qed.

Lemma seg_emit : forall st st' bs m LH h (E : cert -> Prop),
  app_of st st' bs -> ibytes bs -> code_inv st ->
  (forall ip n, In (KFun ip n) (c_constants st') -> In (KFun ip n) (c_constants st)) ->
  (forall F K G, has_bytes F (code_len st) bs -> code_len st + zlength bs <= zlength F ->
     zlength (c_constants st') <= zlength K -> E G -> loop_ok G st' m LH -> iok F K G (code_len st) m h) ->
  seg st st' m LH h E [(code_len st, zlength bs, m, h)].
Proof.
  intros st st' bs m LH h E A IB I HK H.
  assert (L : 1 <= zlength bs).
  { destruct IB as (op & _ & W). rewrite W. unfold opwidth. lia. }
  split.
  - rewrite (app_of_len _ _ _ A). apply contig_single. exact L.
  - split; reflexivity.
  - apply kfun_new_same. exact HK.
  - apply brk_new_none; [exact I|apply A].
  - intros F K G KL GL HE LO x [<-|[]]. apply (ent_ok_emit F K G st st' bs); [exact A|exact I|exact IB|].
    intros HB LF. apply H; assumption.
Qed.

Lemma seg_weaken_E : forall st st' m LH h (E E' : cert -> Prop) C, (forall G, E' G -> E G) ->
  seg st st' m LH h E C -> seg st st' m LH h E' C.
Proof.
  intros st st' m LH h E E' C HE [A1 A2 A3 A4 A5]. split; try assumption.
  intros F K G KL GL X LO. apply A5; auto.
Qed.

(* the start state may be replaced by one with the same code and the same function constants *)
Lemma seg_same_start : forall st0 st st' m LH h (E : cert -> Prop) C, c_code st0 = c_code st ->
  (forall ip n, In (KFun ip n) (c_constants st) -> In (KFun ip n) (c_constants st0)) ->
  seg st st' m LH h E C -> seg st0 st' m LH h E C.
Proof.
  intros st0 st st' m LH h E C E1 E2 [A1 A2 A3 A4 A5].
  assert (EL : code_len st0 = code_len st) by (unfold code_len; rewrite E1; reflexivity).
  split; try assumption.
  - rewrite EL. exact A1.
  - intros ip n X. destruct (A3 ip n X) as [Y|Y]; [left; apply E2; exact Y|right; exact Y].
  - intros p Hp Lp. apply A4; [exact Hp|lia].
Qed.

Lemma pre_sub : forall st st' m h LH sa sb h', pre st st' m h LH -> code_inv sa -> wf_tab (c_symbols sa) ->
  mode_of sa = mode_of st -> mono sb st' -> h <= h' -> pre sa sb m h' LH.
Proof.
  intros st st' m h LH sa sb h' [P1 P2 P3 P4 P5 P6] I W Em M L.
  split; [exact I|exact W|congruence|lia|lia|eapply lb_mono; eassumption].
Qed.

(* the single-byte instructions that go on *)
Lemma seg_simple : forall op k d st m LH h hout,
  simple_eff op = Some (k, d) -> code_inv st -> k <= h -> hout = h + d ->
  seg st (emit_opcode op st) m LH h (ex m (code_len (emit_opcode op st)) hout) [(code_len st, 1, m, h)].
Proof.
  intros op k d st m LH h hout E I Hk ->.
  apply (seg_emit st (emit_opcode op st) [byte_of_opcode op]);
    [apply app_emit_opcode|apply ibytes_1; exact (simple_width _ _ _ E)|exact I|auto|].
  intros F K G HB LF KL HE LO. eapply iok_simple; [exact E|exact HB|exact LF|exact Hk|].
  unfold ex in HE. rewrite (app_of_len _ _ _ (app_emit_opcode op st)) in HE. exact HE.
Qed.

(** * 5. Leaves *)

Definition Pe (e : expr) : Prop := forall st st' m h LH, wfe e = true -> compile_expression e st = Ok st' ->
  pre st st' m h LH -> exists C, seg st st' m LH h (ex m (code_len st') (h + 1)) C.
Definition Ps (s : stmt) : Prop := forall st st' m h LH, wfs s = true -> compile_statement s st = Ok st' ->
  pre st st' m h LH -> exists C, sspec st st' m h LH C.
Definition Psub (e : expr) : Prop := match e with EIndex a b => Pe a /\ Pe b | _ => True end.

Lemma len_emit3 : forall op v st, code_len (emit_u16 v (emit_opcode op st)) = code_len st + 3.
Proof. intros. rewrite (app_of_len _ _ _ (app_emit3 op v st)). reflexivity. Qed.
Lemma len_emit1 : forall op st, code_len (emit_opcode op st) = code_len st + 1.
Proof. intros. rewrite (app_of_len _ _ _ (app_emit_opcode op st)). reflexivity. Qed.

Ltac zl3 := unfold zlength, u16b; cbn [length]; lia.

(* Const idx *)
Lemma seg_const_at : forall st st' idx m LH h,
  app_of st st' (u16b OConst idx) -> 0 <= idx < 2 ^ 16 -> idx < zlength (c_constants st') -> code_inv st ->
  (forall ip n, In (KFun ip n) (c_constants st') -> In (KFun ip n) (c_constants st)) ->
  seg st st' m LH h (ex m (code_len st') (h + 1)) [(code_len st, 3, m, h)].
Proof.
  intros st st' idx m LH h A Hi Hk I HK.
  apply (seg_emit st st' (u16b OConst idx)); [exact A|apply ibytes_3; reflexivity|exact I|exact HK|].
  intros F K G HB LF KL HE LO. eapply iok_const; [exact HB|exact LF|exact Hi|lia|].
  unfold ex in HE. rewrite (app_of_len _ _ _ A) in HE. exact HE.
Qed.

Lemma emit_const_seg : forall k st st' m LH h, (forall ip n, k <> KFun ip n) -> emit_const k st = Ok st' ->
  code_inv st -> seg st st' m LH h (ex m (code_len st') (h + 1)) [(code_len st, 3, m, h)].
Proof.
  intros k st st' m LH h Hk H I. unfold emit_const in H.
  destruct (add_constant k st) as [st1 r] eqn:EA. bok H idx Hi. injection H as <-. subst r.
  destruct (PoolProofs.pool_stable _ _ _ _ EA) as (R & (k' & Hn & _) & (ext & Ee & Hext) & (_ & S2 & S3 & S4 & _)).
  assert (EL : code_len st1 = code_len st) by (unfold code_len; rewrite S2; reflexivity).
  rewrite <- EL.
  apply (seg_same_start st st1); [symmetry; exact S2| |].
  { intros ip n X. rewrite Ee in X. apply in_app_or in X. destruct X as [X|X]; [exact X|].
    destruct Hext as [->| ->]; [destruct X|]. destruct X as [X|[]]. exfalso. exact (Hk ip n X). }
  apply seg_const_at with (idx := idx).
  - apply app_emit3.
  - exact R.
  - cbn [emit_u16 emit_opcode c_constants]. assert (X : (Z.to_nat idx < length (c_constants st1))%nat).
    { apply nth_error_Some. rewrite Hn. discriminate. } unfold zlength. lia.
  - exact (code_inv_same st st1 I S2 S3 S4).
  - auto.
Qed.


(* symbols *)
Lemma resolve_local : forall t x s, wf_tab t -> resolve t x = Some s -> s_scope s = SLocal ->
  c_scope (current t) = SLocal /\ (s_index s < c_max (current t))%nat.
Proof.
  intros t x s W R S. pose proof (slot_bound _ _ _ W R) as B. rewrite S in B. cbn [context_of_kind] in B.
  split; [|exact B]. unfold resolve in R. unfold current.
  destruct (context_resolve (current_context t) x) as [s0|] eqn:E.
  - injection R as <-. unfold context_resolve in E.
    destruct (resolve_scopes x (rev (c_syms (current_context t))) (total_len (current_context t))); [|discriminate E].
    cbn [option_map] in E. injection E as <-. exact S.
  - destruct (Nat.ltb 1 (length t)); [|discriminate R]. destruct t as [|c0 r]; [discriminate R|].
    unfold context_resolve in R. destruct (resolve_scopes x (rev (c_syms c0)) (total_len c0)); [|discriminate R].
    cbn [option_map] in R. injection R as <-. cbn [s_scope] in S.
    destruct W as (_ & W2 & _). cbn [global hd] in W2. congruence.
Qed.

Lemma emit_sym_app : forall op s st st', emit_sym op s st = Ok st' ->
  app_of st st' (u16b op (Z.of_nat (s_index s))) /\ 0 <= Z.of_nat (s_index s) < 2 ^ 16 /\
  c_symbols st' = c_symbols st /\ c_constants st' = c_constants st /\ c_last st' = Some op.
Proof.
  intros op s st st' H. unfold emit_sym in H. bok H idx Hi. apply operand_ok in Hi. destruct Hi as [-> L].
  injection H as <-. split; [apply app_emit3|]. split; [lia|]. auto.
Qed.

Lemma seg_get_sym : forall s st st' m LH h, emit_sym (scoped s OGetGlobal OGetLocal) s st = Ok st' -> code_inv st ->
  (s_scope s = SLocal -> Z.of_nat (s_index s) < h) ->
  seg st st' m LH h (ex m (code_len st') (h + 1)) [(code_len st, 3, m, h)].
Proof.
  intros s st st' m LH h H I B. destruct (emit_sym_app _ _ _ _ H) as (A & R & _ & Ek & _).
  apply (seg_emit st st' _ m LH h _ A); [apply ibytes_3; unfold scoped; destruct (s_scope s); reflexivity|exact I|rewrite Ek; auto|].
  intros F K G HB LF KL HE LO. unfold ex in HE. rewrite (app_of_len _ _ _ A) in HE.
  replace (zlength (u16b (scoped s OGetGlobal OGetLocal) (Z.of_nat (s_index s)))) with 3 in * by reflexivity.
  unfold scoped in *. destruct (s_scope s).
  - eapply iok_get_local; [exact HB|exact LF|exact R|apply B; reflexivity|exact HE].
  - eapply iok_get_global; [exact HB|exact LF|exact R|exact HE].
Qed.

Lemma seg_set_sym : forall s st st' m LH h, emit_sym (scoped s OSetGlobal OSetLocal) s st = Ok st' -> code_inv st ->
  1 <= h -> (s_scope s = SLocal -> Z.of_nat (s_index s) < h - 1) ->
  seg st st' m LH h (ex m (code_len st') (h - 1)) [(code_len st, 3, m, h)].
Proof.
  intros s st st' m LH h H I Hh B. destruct (emit_sym_app _ _ _ _ H) as (A & R & _ & Ek & _).
  apply (seg_emit st st' _ m LH h _ A); [apply ibytes_3; unfold scoped; destruct (s_scope s); reflexivity|exact I|rewrite Ek; auto|].
  intros F K G HB LF KL HE LO. unfold ex in HE. rewrite (app_of_len _ _ _ A) in HE.
  replace (zlength (u16b (scoped s OSetGlobal OSetLocal) (Z.of_nat (s_index s)))) with 3 in * by reflexivity.
  unfold scoped in *. destruct (s_scope s).
  - eapply iok_set_local; [exact HB|exact LF|exact R|apply B; reflexivity|exact HE].
  - eapply iok_set_global; [exact HB|exact LF|exact R|exact Hh|exact HE].
Qed.

(* the bound a resolved / defined local slot obeys *)
Lemma resolve_bound : forall st st' x s h, wf_tab (c_symbols st) -> resolve (c_symbols st) x = Some s ->
  sgrow (c_symbols st) (c_symbols st') -> lb (c_symbols st') h -> s_scope s = SLocal -> Z.of_nat (s_index s) < h.
Proof.
  intros st st' x s h W R M L S. destruct (resolve_local _ _ _ W R S) as [A B].
  destruct (sgrow_facts _ _ M) as (_ & C & D). rewrite <- C in A. specialize (L A). lia.
Qed.

Lemma define_bound : forall t x t' s st' h, wf_tab t -> define t x = (t', s) ->
  sgrow t' (c_symbols st') -> lb (c_symbols st') h -> s_scope s = SLocal -> Z.of_nat (s_index s) < h.
Proof.
  intros t x t' s st' h W D M L S. pose proof (define_slot_bound _ _ _ _ W D) as B.
  destruct (define_spec _ _ _ _ W D) as (_ & _ & _ & _ & Sc & _ & Ss & _).
  destruct (sgrow_facts _ _ M) as (_ & C & D').
  assert (X : c_scope (current (c_symbols st')) = SLocal) by (rewrite C, Sc, <- Ss; exact S).
  specialize (L X). lia.
Qed.

Lemma pre_frame_mode : forall d st st', frame d st st' -> mode_of st' = mode_of st.
Proof. intros d st st' Fr. apply mode_mono. exact (fr_mono _ _ _ Fr). Qed.

(** * 6. Expressions without jumps *)

Lemma case_bool : forall b, Pe (EBool b).
Proof.
  intros b st st' m h LH _ H P. rewrite ce_bool in H. injection H as <-. eexists.
  apply (seg_simple _ 0 1); [destruct b; reflexivity|exact (pr_inv _ _ _ _ _ P)|exact (pr_h _ _ _ _ _ P)|reflexivity].
Qed.

Lemma case_int : forall z, Pe (EInt z).
Proof.
  intros z st st' m h LH _ H P. rewrite ce_int in H. eexists.
  apply emit_const_seg with (k := KInt z); [discriminate|exact H|exact (pr_inv _ _ _ _ _ P)].
Qed.

Lemma case_float : forall x, Pe (EFloat x).
Proof.
  intros x st st' m h LH _ H P. rewrite ce_float in H. eexists.
  apply (seg_same_start st (count_alloc st)); [reflexivity|auto|].
  apply emit_const_seg with (k := KFloat x); [discriminate|exact H|].
  eapply code_inv_same; [exact (pr_inv _ _ _ _ _ P)|reflexivity..].
Qed.

Lemma case_string : forall x, Pe (EString x).
Proof.
  intros x st st' m h LH _ H P. rewrite ce_string in H. eexists.
  apply (seg_same_start st (count_alloc st)); [reflexivity|auto|].
  apply emit_const_seg with (k := KStr x); [discriminate|exact H|].
  eapply code_inv_same; [exact (pr_inv _ _ _ _ _ P)|reflexivity..].
Qed.

Lemma case_ident : forall x, Pe (EIdent x).
Proof.
  intros x st st' m h LH _ H P. rewrite ce_ident in H.
  destruct (resolve (c_symbols st) x) as [s|] eqn:R; [|discriminate H]. eexists.
  apply (seg_get_sym s); [exact H|exact (pr_inv _ _ _ _ _ P)|]. intros S.
  eapply resolve_bound; [exact (pr_wf _ _ _ _ _ P)|exact R| |exact (pr_lb _ _ _ _ _ P)|exact S].
  apply mo_sym. eapply mono_emit_sym; [exact (pr_wf _ _ _ _ _ P)|exact H].
Qed.

(* both parts emit something *)
Lemma seg_app1 : forall d st st1 st2 m LH h0 h1 (E : cert -> Prop) C1 C2,
  seg st st1 m LH h0 (ex m (code_len st1) h1) C1 ->
  seg st1 st2 m LH h1 E C2 ->
  frame d st1 st2 -> 1 <= d -> code_len st < code_len st1 ->
  seg st st2 m LH h0 E (C1 ++ C2).
Proof.
  intros d st st1 st2 m LH h0 h1 E C1 C2 S1 S2 Fr D L.
  apply (seg_app st st1 st2 m LH h0 h1); [exact S1|exact S2|eapply frame_weaken; [|exact Fr]; lia| |].
  - intros ->. pose proof (sg_contig _ _ _ _ _ _ _ S1) as X. inversion X. lia.
  - intros X. pose proof (fr_len _ _ _ Fr). lia.
Qed.

Lemma use_ih : forall e st st' m h LH sa sb h', Pe e -> wfe e = true -> compile_expression e sa = Ok sb ->
  pre st st' m h LH -> code_inv sa -> wf_tab (c_symbols sa) -> mode_of sa = mode_of st -> mono sb st' -> h <= h' ->
  (exists C, seg sa sb m LH h' (ex m (code_len sb) (h' + 1)) C) /\ frame 1 sa sb.
Proof.
  intros e st st' m h LH sa sb h' IH We H P I W Em M L. split.
  - apply IH; [exact We|exact H|]. eapply pre_sub; eassumption.
  - eapply expr_frame; eassumption.
Qed.

Lemma emit1_frame : forall op st, code_inv st -> wf_tab (c_symbols st) -> frame 1 st (emit_opcode op st).
Proof.
  intros op st I W. apply (app_frame st _ [byte_of_opcode op]); [apply app_emit_opcode|reflexivity|exact I|exact W|reflexivity..].
Qed.

Lemma mono_emit1 : forall op st, wf_tab (c_symbols st) -> mono st (emit_opcode op st).
Proof. intros. apply mono_same; [assumption|reflexivity..]. Qed.

(* e followed by one single-byte instruction *)
Lemma seg_then_simple : forall op k d st st1 m LH h h1 hout C1,
  seg st st1 m LH h (ex m (code_len st1) h1) C1 -> code_len st < code_len st1 ->
  code_inv st1 -> wf_tab (c_symbols st1) ->
  simple_eff op = Some (k, d) -> k <= h1 -> hout = h1 + d ->
  seg st (emit_opcode op st1) m LH h (ex m (code_len (emit_opcode op st1)) hout) (C1 ++ [(code_len st1, 1, m, h1)]).
Proof.
  intros op k d st st1 m LH h h1 hout C1 S1 L I W E Hk Eh.
  eapply seg_app1; [exact S1|eapply seg_simple; eassumption|apply emit1_frame; assumption|lia|exact L].
Qed.

Lemma case_prefix : forall o r, Pe r -> Pe (EPrefix o r).
Proof.
  intros o r IH st st' m h LH We H P. cbn [wf_expr] in We. apply andb_prop in We. destruct We as [_ Wr].
  rewrite ce_prefix in H. bok H st1 H1.
  assert (E' : exists op, (op = ONegate \/ op = ONot) /\ st' = emit_opcode op st1).
  { destruct o; try discriminate H; injection H as <-; eauto. }
  destruct E' as (op & Hop & ->).
  pose proof (expr_frame r st st1 Wr (pr_inv _ _ _ _ _ P) (pr_wf _ _ _ _ _ P) H1) as F1.
  destruct (use_ih r st _ m h LH st st1 h IH Wr H1 P (pr_inv _ _ _ _ _ P) (pr_wf _ _ _ _ _ P) eq_refl) as [[C1 S1] _];
    [apply mono_emit1; exact (fr_wf _ _ _ F1)|lia|].
  eexists. apply (seg_then_simple op 1 0 st st1 m LH h (h + 1) (h + 1));
    [exact S1|pose proof (fr_len _ _ _ F1); lia|exact (fr_inv _ _ _ F1)|exact (fr_wf _ _ _ F1)| |pose proof (pr_h _ _ _ _ _ P); lia|lia].
  destruct Hop as [-> | ->]; reflexivity.
Qed.

Lemma case_index : forall b i, Pe b -> Pe i -> Pe (EIndex b i).
Proof.
  intros b i IHb IHi st st' m h LH We H P. cbn [wf_expr] in We. apply andb_prop in We. destruct We as [We Wi].
  apply andb_prop in We. destruct We as [_ Wb].
  rewrite ce_index in H. bok H st1 H1. bok H st2 H2. injection H as <-.
  pose proof (pr_inv _ _ _ _ _ P) as I0. pose proof (pr_wf _ _ _ _ _ P) as W0. pose proof (pr_h _ _ _ _ _ P) as H0.
  pose proof (expr_frame b st st1 Wb I0 W0 H1) as F1.
  pose proof (expr_frame i st1 st2 Wi (fr_inv _ _ _ F1) (fr_wf _ _ _ F1) H2) as F2.
  pose proof (mono_emit1 OIndexGet st2 (fr_wf _ _ _ F2)) as M3.
  destruct (use_ih b st _ m h LH st st1 h IHb Wb H1 P I0 W0 eq_refl) as [[C1 S1] _];
    [eapply mono_trans; [exact (fr_mono _ _ _ F2)|exact M3]|lia|].
  destruct (use_ih i st _ m h LH st1 st2 (h + 1) IHi Wi H2 P (fr_inv _ _ _ F1) (fr_wf _ _ _ F1)
              (pre_frame_mode _ _ _ F1) M3) as [[C2 S2] _]; [lia|].
  eexists. apply (seg_then_simple OIndexGet 2 (-1) st st2 m LH h (h + 1 + 1) (h + 1));
    [|pose proof (fr_len _ _ _ F1); pose proof (fr_len _ _ _ F2); lia|exact (fr_inv _ _ _ F2)|exact (fr_wf _ _ _ F2)|reflexivity|lia|lia].
  eapply seg_app1; [exact S1|exact S2|exact F2|lia|pose proof (fr_len _ _ _ F1); lia].
Qed.

Lemma zlength_cons' : forall A (x : A) l, zlength (x :: l) = zlength l + 1.
Proof. intros. unfold zlength. cbn [length]. lia. Qed.

Lemma exprs_seg : forall l, Forall (fun e => Pe e /\ Psub e) l -> forall st st' m h LH sa sb h',
  forallb wfe l = true -> compile_exprs l sa = Ok sb -> pre st st' m h LH ->
  code_inv sa -> wf_tab (c_symbols sa) -> mode_of sa = mode_of st -> mono sb st' -> h <= h' ->
  exists C, seg sa sb m LH h' (ex m (code_len sb) (h' + zlength l)) C.
Proof.
  induction 1 as [|e l [He _] _ IH]; intros st st' m h LH sa sb h' Wl H P I W Em M L.
  - cbn [compile_exprs] in H. injection H as <-. exists []. apply seg_nil. exact I.
  - cbn [forallb] in Wl. apply andb_prop in Wl. destruct Wl as [We Wl]. cbn [compile_exprs] in H. bok H s1 H1.
    pose proof (expr_frame e sa s1 We I W H1) as F1.
    pose proof (exprs_frame l s1 sb Wl (fr_inv _ _ _ F1) (fr_wf _ _ _ F1) H) as F2.
    destruct (use_ih e st st' m h LH sa s1 h' He We H1 P I W Em) as [[C1 S1] _];
      [eapply mono_trans; [exact (fr_mono _ _ _ F2)|exact M]|exact L|].
    destruct (IH st st' m h LH s1 sb (h' + 1) Wl H P (fr_inv _ _ _ F1) (fr_wf _ _ _ F1)) as [C2 S2];
      [rewrite (pre_frame_mode _ _ _ F1); exact Em|exact M|lia|].
    exists (C1 ++ C2). rewrite zlength_cons'. replace (h' + (zlength l + 1)) with (h' + 1 + zlength l) by lia.
    eapply seg_app; [exact S1|exact S2|exact F2| |].
    + intros ->. pose proof (sg_contig _ _ _ _ _ _ _ S1) as X. inversion X. pose proof (fr_len _ _ _ F1). lia.
    + intros EL G HE. unfold ex in *. rewrite <- EL.
      pose proof (sg_contig _ _ _ _ _ _ _ S2) as X. rewrite EL in X.
      destruct l as [|e2 l2].
      * rewrite Z.add_0_r in HE. exact HE.
      * exfalso. cbn [compile_exprs] in H. bok H s2 H2. cbn [forallb] in Wl. apply andb_prop in Wl. destruct Wl as [We2 Wl2].
        pose proof (expr_frame e2 s1 s2 We2 (fr_inv _ _ _ F1) (fr_wf _ _ _ F1) H2) as F3.
        pose proof (exprs_frame l2 s2 sb Wl2 (fr_inv _ _ _ F3) (fr_wf _ _ _ F3) H) as F4.
        pose proof (fr_len _ _ _ F3). pose proof (fr_len _ _ _ F4). lia.
Qed.

Lemma infix_simple : forall o opc, is_infix_op o = true -> assoc operator_eqb o compile_operator_table = Some opc ->
  simple_eff opc = Some (2, -1).
Proof. intros o opc. destruct o; vm_compute; intros H E; try discriminate H; injection E as <-; reflexivity. Qed.

Lemma fused_has_method : forall op opc, assoc operator_eqb op fused_table = Some opc ->
  exists mth, assoc opcode_eqb opc fused_dispatch = Some mth.
Proof. intros op opc. destruct op; vm_compute; intros E; try discriminate E; injection E as <-; eauto. Qed.

Lemma case_assign_index : forall a i r, Pe a -> Pe i -> Pe r -> Pe (EAssign (EIndex a i) r).
Proof.
  intros a i r IHa IHi IHr st st' m h LH We H P. cbn [wf_expr] in We.
  apply andb_prop in We. destruct We as [We Wr]. apply andb_prop in We. destruct We as [_ We].
  apply andb_prop in We. destruct We as [We Wi]. apply andb_prop in We. destruct We as [_ Wa].
  rewrite ce_assign_index in H. bok H st1 H1. bok H st2 H2. bok H st3 H3. injection H as <-.
  pose proof (pr_inv _ _ _ _ _ P) as I0. pose proof (pr_wf _ _ _ _ _ P) as W0. pose proof (pr_h _ _ _ _ _ P) as H0.
  pose proof (expr_frame a st st1 Wa I0 W0 H1) as F1.
  pose proof (expr_frame i st1 st2 Wi (fr_inv _ _ _ F1) (fr_wf _ _ _ F1) H2) as F2.
  pose proof (expr_frame r st2 st3 Wr (fr_inv _ _ _ F2) (fr_wf _ _ _ F2) H3) as F3.
  pose proof (mono_emit1 OIndexSet st3 (fr_wf _ _ _ F3)) as M4.
  pose proof (mono_trans _ _ _ (fr_mono _ _ _ F3) M4) as M3.
  pose proof (mono_trans _ _ _ (fr_mono _ _ _ F2) M3) as M2.
  destruct (use_ih a st _ m h LH st st1 h IHa Wa H1 P I0 W0 eq_refl M2) as [[C1 S1] _]; [lia|].
  destruct (use_ih i st _ m h LH st1 st2 (h + 1) IHi Wi H2 P (fr_inv _ _ _ F1) (fr_wf _ _ _ F1)
              (pre_frame_mode _ _ _ F1) M3) as [[C2 S2] _]; [lia|].
  assert (Em2 : mode_of st2 = mode_of st) by (rewrite (pre_frame_mode _ _ _ F2); exact (pre_frame_mode _ _ _ F1)).
  destruct (use_ih r st _ m h LH st2 st3 (h + 1 + 1) IHr Wr H3 P (fr_inv _ _ _ F2) (fr_wf _ _ _ F2) Em2 M4)
    as [[C3 S3] _]; [lia|].
  pose proof (fr_len _ _ _ F1). pose proof (fr_len _ _ _ F2). pose proof (fr_len _ _ _ F3).
  eexists. apply (seg_then_simple OIndexSet 3 (-2) st st3 m LH h (h + 1 + 1 + 1) (h + 1));
    [|lia|exact (fr_inv _ _ _ F3)|exact (fr_wf _ _ _ F3)|reflexivity|lia|lia].
  eapply seg_app1; [|exact S3|exact F3|lia|lia].
  eapply seg_app1; [exact S1|exact S2|exact F2|lia|lia].
Qed.

Lemma emit_sym_frame : forall op s st st', emit_sym op s st = Ok st' -> code_inv st -> wf_tab (c_symbols st) ->
  frame 3 st st'.
Proof.
  intros op s st st' H I W. destruct (emit_sym_app _ _ _ _ H) as (A & _ & Es & Ek & _).
  exact (app_frame _ _ _ A ltac:(zl3) I W Es Ek).
Qed.

Lemma case_assign_ident : forall x r, Pe r -> Pe (EAssign (EIdent x) r).
Proof.
  intros x r IHr st st' m h LH We H P. cbn [wf_expr] in We. apply andb_prop in We. destruct We as [_ Wr].
  rewrite ce_assign_ident in H. destruct (resolve (c_symbols st) x) as [s|] eqn:R; [|discriminate H].
  bok H st1 H1. bok H st2 H2.
  pose proof (pr_inv _ _ _ _ _ P) as I0. pose proof (pr_wf _ _ _ _ _ P) as W0. pose proof (pr_h _ _ _ _ _ P) as H0.
  pose proof (expr_frame r st st1 Wr I0 W0 H1) as F1.
  pose proof (emit_sym_frame _ _ _ _ H2 (fr_inv _ _ _ F1) (fr_wf _ _ _ F1)) as F2.
  pose proof (emit_sym_frame _ _ _ _ H (fr_inv _ _ _ F2) (fr_wf _ _ _ F2)) as F3.
  pose proof (mono_trans _ _ _ (fr_mono _ _ _ F2) (fr_mono _ _ _ F3)) as M2.
  destruct (use_ih r st _ m h LH st st1 h IHr Wr H1 P I0 W0 eq_refl M2) as [[C1 S1] _]; [lia|].
  assert (B : s_scope s = SLocal -> Z.of_nat (s_index s) < h).
  { intros S. eapply resolve_bound; [exact W0|exact R| |exact (pr_lb _ _ _ _ _ P)|exact S].
    apply mo_sym. eapply mono_trans; [exact (fr_mono _ _ _ F1)|exact M2]. }
  pose proof (fr_len _ _ _ F1). pose proof (fr_len _ _ _ F2).
  eexists. eapply seg_app1; [|apply (seg_get_sym s); [exact H|exact (fr_inv _ _ _ F2)|exact B]|exact F3|lia|lia].
  eapply seg_app1; [exact S1| |exact F2|lia|lia].
  replace h with (h + 1 - 1) at 2 by lia.
  apply (seg_set_sym s); [exact H2|exact (fr_inv _ _ _ F1)|lia|]. intros S. specialize (B S). lia.
Qed.

(** * 7. Infix expressions *)

Lemma generic_seg : forall l o r, Pe l -> Pe r -> forall st st' m h LH sa,
  wfe l = true -> wfe r = true -> is_infix_op o = true ->
  generic_infix l o r sa = Ok st' -> pre st st' m h LH ->
  code_inv sa -> wf_tab (c_symbols sa) -> mode_of sa = mode_of st ->
  exists C, seg sa st' m LH h (ex m (code_len st') (h + 1)) C.
Proof.
  intros l o r IHl IHr st st' m h LH sa Wl Wr Ho H P I W Em. unfold generic_infix in H. bok H st1 H1. bok H st2 H2.
  destruct (assoc operator_eqb o compile_operator_table) as [opc|] eqn:Eo; [|discriminate H]. injection H as <-.
  pose proof (pr_h _ _ _ _ _ P) as H0.
  pose proof (expr_frame l sa st1 Wl I W H1) as F1.
  pose proof (expr_frame r st1 st2 Wr (fr_inv _ _ _ F1) (fr_wf _ _ _ F1) H2) as F2.
  pose proof (mono_emit1 opc st2 (fr_wf _ _ _ F2)) as M3.
  destruct (use_ih l st _ m h LH sa st1 h IHl Wl H1 P I W Em) as [[C1 S1] _];
    [eapply mono_trans; [exact (fr_mono _ _ _ F2)|exact M3]|lia|].
  destruct (use_ih r st _ m h LH st1 st2 (h + 1) IHr Wr H2 P (fr_inv _ _ _ F1) (fr_wf _ _ _ F1)) as [[C2 S2] _];
    [rewrite (pre_frame_mode _ _ _ F1); exact Em|exact M3|lia|].
  pose proof (fr_len _ _ _ F1). pose proof (fr_len _ _ _ F2).
  eexists. apply (seg_then_simple opc 2 (-1) sa st2 m LH h (h + 1 + 1) (h + 1));
    [|lia|exact (fr_inv _ _ _ F2)|exact (fr_wf _ _ _ F2)|exact (infix_simple _ _ Ho Eo)|lia|lia].
  eapply seg_app1; [exact S1|exact S2|exact F2|lia|lia].
Qed.

(* what compile_const_var_infix did *)
Inductive ccvi_case (name : text) (op : operator) (st st1 : cstate) (done : bool) : Prop :=
| ccvi_plain : done = false -> c_code st1 = c_code st -> c_loops st1 = c_loops st -> c_last st1 = c_last st ->
    c_symbols st1 = c_symbols st ->
    (forall ip n, In (KFun ip n) (c_constants st1) -> In (KFun ip n) (c_constants st)) ->
    ccvi_case name op st st1 done
| ccvi_broken : forall sA opc s, done = false -> st1 = emit_opcode opc sA -> c_symbols sA = c_symbols st ->
    resolve (c_symbols st) name = Some s -> (forall i, operand 16 (Z.of_nat (s_index s)) <> Ok i) ->
    ccvi_case name op st st1 done
| ccvi_fused : forall sA opc s idx, done = true ->
    st1 = emit_u16 idx (emit_u16 (Z.of_nat (s_index s)) (emit_opcode opc sA)) ->
    c_code sA = c_code st -> c_loops sA = c_loops st -> c_last sA = c_last st -> c_symbols sA = c_symbols st ->
    (forall ip n, In (KFun ip n) (c_constants sA) -> In (KFun ip n) (c_constants st)) ->
    0 <= idx < 2 ^ 16 -> idx < zlength (c_constants sA) ->
    resolve (c_symbols st) name = Some s -> s_scope s = SLocal -> Z.of_nat (s_index s) < 2 ^ 16 ->
    assoc operator_eqb op fused_table = Some opc ->
    ccvi_case name op st st1 done.

Lemma add_constant_kfun : forall k st st1 r, add_constant k st = (st1, r) -> (forall ip n, k <> KFun ip n) ->
  forall ip n, In (KFun ip n) (c_constants st1) -> In (KFun ip n) (c_constants st).
Proof.
  intros k st st1 r H Hk ip n X. unfold add_constant in H. destruct (const_position k (c_constants st)).
  - injection H as <- _. exact X.
  - injection H as <- _. cbn [c_constants] in X. apply in_app_or in X. destruct X as [X|[X|[]]]; [exact X|].
    exfalso. exact (Hk ip n X).
Qed.

Lemma ccvi_cases : forall name v op st st1 done, compile_const_var_infix name v op st = (st1, done) ->
  ccvi_case name op st st1 done.
Proof.
  intros name v op st st1 done H. unfold compile_const_var_infix in H.
  destruct (add_constant (KInt v) st) as [sA r] eqn:EA.
  destruct (PoolProofs.pool_prefix _ _ _ _ EA) as (_ & (S1 & S2 & S3 & S4 & _) & _).
  pose proof (add_constant_kfun _ _ _ _ EA ltac:(discriminate)) as HK.
  assert (Plain : (sA, false) = (st1, done) -> ccvi_case name op st st1 done).
  { intros X. injection X as <- <-. apply ccvi_plain; auto. }
  destruct r as [idx| | |]; try (apply Plain; exact H).
  rewrite S1 in H. destruct (resolve (c_symbols st) name) as [s|] eqn:R; [|apply Plain; exact H].
  destruct (s_scope s) eqn:Sc; [|apply Plain; exact H].
  destruct (assoc operator_eqb op fused_table) as [opc|] eqn:Eo; [|apply Plain; exact H].
  destruct (PoolProofs.pool_stable _ _ _ _ EA) as (Ri & (k' & Hn & _) & _).
  assert (Li : idx < zlength (c_constants sA)).
  { assert (X : (Z.to_nat idx < length (c_constants sA))%nat) by (apply nth_error_Some; rewrite Hn; discriminate).
    unfold zlength. lia. }
  destruct (operand 16 (Z.of_nat (s_index s))) as [i| | |] eqn:Ei.
  - apply operand_ok in Ei. destruct Ei as [-> Li']. injection H as <- <-.
    eapply ccvi_fused; try eassumption; reflexivity.
  - injection H as <- <-. eapply ccvi_broken; [reflexivity|reflexivity|exact S1|exact R|]. intros i X. rewrite Ei in X. discriminate X.
  - injection H as <- <-. eapply ccvi_broken; [reflexivity|reflexivity|exact S1|exact R|]. intros i X. rewrite Ei in X. discriminate X.
  - injection H as <- <-. eapply ccvi_broken; [reflexivity|reflexivity|exact S1|exact R|]. intros i X. rewrite Ei in X. discriminate X.
Qed.

Lemma ident_fails : forall name s sX st', resolve (c_symbols sX) name = Some s ->
  (forall i, operand 16 (Z.of_nat (s_index s)) <> Ok i) -> compile_expression (EIdent name) sX <> Ok st'.
Proof.
  intros name s sX st' R N H. rewrite ce_ident, R in H. unfold emit_sym in H. bok H i Hi. exact (N i Hi).
Qed.

Lemma broken_fails : forall l r o name v op' s sX st', fused_candidate l r o = Some (name, v, op') ->
  resolve (c_symbols sX) name = Some s -> (forall i, operand 16 (Z.of_nat (s_index s)) <> Ok i) ->
  generic_infix l o r sX <> Ok st'.
Proof.
  intros l r o name v op' s sX st' EF R N H. unfold generic_infix in H. bok H s1 H1. bok H s2 H2.
  destruct (CompilerNames.fused_candidate_shape _ _ _ _ _ _ EF) as [[-> ->]|[-> ->]].
  - exact (ident_fails _ _ _ _ R N H1).
  - rewrite ce_int in H1. apply CompilerNames.emit_const_pres in H1. destruct H1 as [E1 _].
    rewrite <- E1 in R. exact (ident_fails _ _ _ _ R N H2).
Qed.

Lemma case_infix : forall l o r, Pe l -> Pe r -> Pe (EInfix l o r).
Proof.
  intros l o r IHl IHr st st' m h LH We H P. cbn [wf_expr] in We.
  apply andb_prop in We. destruct We as [We Wr]. apply andb_prop in We. destruct We as [We Wl].
  apply andb_prop in We. destruct We as [Ho _].
  pose proof (pr_inv _ _ _ _ _ P) as I0. pose proof (pr_wf _ _ _ _ _ P) as W0. pose proof (pr_h _ _ _ _ _ P) as H0.
  rewrite ce_infix in H.
  destruct (fused_candidate l r o) as [[[name v] op']|] eqn:EF;
    [|exact (generic_seg l o r IHl IHr st st' m h LH st Wl Wr Ho H P I0 W0 eq_refl)].
  destruct (compile_const_var_infix name v op' st) as [st1 done] eqn:EC.
  destruct (ccvi_cases _ _ _ _ _ _ EC) as [-> E1 E2 E3 E4 HK | sA opc s -> -> Es R N
                                           | sA opc s idx -> -> E1 E2 E3 E4 HK Ri Li R Sc Ls Eo].
  - destruct (generic_seg l o r IHl IHr st st' m h LH st1 Wl Wr Ho H P) as [C S].
    + exact (code_inv_same st st1 I0 E1 E3 E2).
    + rewrite E4. exact W0.
    + unfold mode_of. rewrite E4. reflexivity.
    + exists C. apply (seg_same_start st st1); [symmetry; exact E1|exact HK|exact S].
  - exfalso. eapply broken_fails; [exact EF| |exact N|exact H].
    cbn [emit_opcode c_symbols]. rewrite Es. exact R.
  - injection H as <-. destruct (fused_has_method _ _ Eo) as [mth Em].
    set (li := Z.of_nat (s_index s)) in *.
    assert (A : app_of sA (emit_u16 idx (emit_u16 li (emit_opcode opc sA)))
                  ([byte_of_opcode opc; li mod 256; (li / 256) mod 256] ++ [idx mod 256; (idx / 256) mod 256])).
    { eapply app_of_trans; [apply app_emit3|apply app_emit_u16]. }
    cbn [app] in A.
    assert (IA : code_inv sA) by exact (code_inv_same st sA I0 E1 E3 E2).
    assert (B : li < h).
    { eapply resolve_bound; [exact W0|exact R| |exact (pr_lb _ _ _ _ _ P)|exact Sc].
      cbn [emit_u16 emit_opcode c_symbols]. rewrite E4. apply sgrow_refl. exact W0. }
    assert (EL : code_len sA = code_len st) by (unfold code_len; rewrite E1; reflexivity).
    eexists. apply (seg_same_start st sA); [symmetry; exact E1|exact HK|].
    apply (seg_emit sA _ _ m LH h _ A); [exists opc; split; [reflexivity|rewrite (fused_width _ _ Em); reflexivity]|exact IA|auto|].
    intros F K G HB LF KL HE LO. unfold ex in HE. rewrite (app_of_len _ _ _ A) in HE.
    change (zlength [byte_of_opcode opc; li mod 256; (li / 256) mod 256; idx mod 256; (idx / 256) mod 256]) with 5 in *.
    eapply iok_fused; [exact Em|exact HB|exact LF|unfold li; lia|exact B|exact Ri| |exact HE].
    cbn [emit_u16 emit_opcode c_constants] in KL. lia.
Qed.

(** * 8. Calls and array literals *)

Lemma exprs_len : forall l sa sb, forallb wfe l = true -> code_inv sa -> wf_tab (c_symbols sa) ->
  compile_exprs l sa = Ok sb -> l <> [] -> code_len sa < code_len sb.
Proof.
  intros [|e l] sa sb Wl I W H N; [contradiction|]. cbn [compile_exprs] in H. bok H s1 H1.
  cbn [forallb] in Wl. apply andb_prop in Wl. destruct Wl as [We Wl].
  pose proof (expr_frame e sa s1 We I W H1) as F1.
  pose proof (exprs_frame l s1 sb Wl (fr_inv _ _ _ F1) (fr_wf _ _ _ F1) H) as F2.
  pose proof (fr_len _ _ _ F1). pose proof (fr_len _ _ _ F2). lia.
Qed.

(* the operands, then something that emits *)
Lemma seg_after_exprs : forall (l : list expr) d st s1 s2 m LH h (E : cert -> Prop) C1 C2,
  seg st s1 m LH h (ex m (code_len s1) (h + zlength l)) C1 ->
  (l <> [] -> code_len st < code_len s1) ->
  seg s1 s2 m LH (h + zlength l) E C2 -> frame d s1 s2 -> 1 <= d ->
  seg st s2 m LH h E (C1 ++ C2).
Proof.
  intros l d st s1 s2 m LH h E C1 C2 S1 Hl S2 Fr D.
  apply (seg_app st s1 s2 m LH h (h + zlength l)); [exact S1|exact S2|eapply frame_weaken; [|exact Fr]; lia| |].
  - intros ->. pose proof (sg_contig _ _ _ _ _ _ _ S1) as X. inversion X as [a Ea Eb|]; subst.
    destruct l as [|e l]; [cbn; lia|]. exfalso. assert (N : e :: l <> []) by discriminate. specialize (Hl N). lia.
  - intros X. pose proof (fr_len _ _ _ Fr). lia.
Qed.

Lemma zlength_nonneg' : forall A (l : list A), 0 <= zlength l.
Proof. intros. unfold zlength. lia. Qed.

Lemma case_array : forall vs, Forall (fun e => Pe e /\ Psub e) vs -> Pe (EArray vs).
Proof.
  intros vs IH st st' m h LH We H P. cbn [wf_expr] in We. rewrite ce_array in H. bok H st1 H1. bok H n Hn.
  injection H as <-. apply operand_ok in Hn. destruct Hn as [-> Ln].
  pose proof (pr_inv _ _ _ _ _ P) as I0. pose proof (pr_wf _ _ _ _ _ P) as W0. pose proof (pr_h _ _ _ _ _ P) as H0.
  pose proof (exprs_frame vs st st1 We I0 W0 H1) as F1.
  pose proof (app_emit3 OArray (zlength vs) st1) as A.
  pose proof (app_frame _ _ _ A ltac:(zl3) (fr_inv _ _ _ F1) (fr_wf _ _ _ F1) eq_refl eq_refl) as F2.
  destruct (exprs_seg vs IH st _ m h LH st st1 h We H1 P I0 W0 eq_refl (fr_mono _ _ _ F2)) as [C1 S1]; [lia|].
  pose proof (zlength_nonneg' _ vs) as N0.
  eexists. eapply (seg_after_exprs vs); [exact S1|intros N; exact (exprs_len vs st st1 We I0 W0 H1 N)| |exact F2|zl3].
  apply (seg_emit st1 _ _ m LH (h + zlength vs) _ A); [apply ibytes_3; reflexivity|exact (fr_inv _ _ _ F1)|auto|].
  intros F K G HB LF KL HE LO. unfold ex in HE. rewrite (app_of_len _ _ _ A) in HE.
  eapply iok_array; [exact HB|exact LF|lia|lia|].
  replace (h + zlength vs - zlength vs + 1) with (h + 1) by lia. exact HE.
Qed.

Lemma case_call : forall f args, Pe f -> Forall (fun e => Pe e /\ Psub e) args -> Pe (ECall f args).
Proof.
  intros f args IHf IHa st st' m h LH We H P. cbn [wf_expr] in We.
  apply andb_prop in We. destruct We as [We Wa]. apply andb_prop in We. destruct We as [_ Wf].
  rewrite ce_call in H. bok H st1 H1.
  pose proof (pr_inv _ _ _ _ _ P) as I0. pose proof (pr_wf _ _ _ _ _ P) as W0. pose proof (pr_h _ _ _ _ _ P) as H0.
  pose proof (exprs_frame args st st1 Wa I0 W0 H1) as F1.
  pose proof (zlength_nonneg' _ args) as N0.
  destruct (match f with EIdent name => assoc_text name builtin_names | _ => None end) as [b|].
  - bok H n Hn. injection H as <-. apply operand_ok in Hn. destruct Hn as [-> Ln].
    assert (A : app_of st1 (emit_u8 (zlength args) (emit_u8 (byte_of_builtin b) (emit_opcode OCallBuiltin st1)))
                  [byte_of_opcode OCallBuiltin; byte_of_builtin b; zlength args]).
    { exact (app_of_trans _ _ _ _ _ (app_of_trans _ _ _ _ _ (app_emit_opcode _ _) (app_emit_u8 _ _)) (app_emit_u8 _ _)). }
    pose proof (app_frame _ _ _ A ltac:(unfold zlength; cbn [length]; lia) (fr_inv _ _ _ F1) (fr_wf _ _ _ F1) eq_refl eq_refl) as F2.
    destruct (exprs_seg args IHa st _ m h LH st st1 h Wa H1 P I0 W0 eq_refl (fr_mono _ _ _ F2)) as [C1 S1]; [lia|].
    eexists. eapply (seg_after_exprs args); [exact S1|intros N; exact (exprs_len args st st1 Wa I0 W0 H1 N)| |exact F2|unfold zlength; cbn [length]; lia].
    apply (seg_emit st1 _ _ m LH (h + zlength args) _ A); [exists OCallBuiltin; split; reflexivity|exact (fr_inv _ _ _ F1)|auto|].
    intros F K G HB LF KL HE LO. unfold ex in HE. rewrite (app_of_len _ _ _ A) in HE.
    change (zlength [byte_of_opcode OCallBuiltin; byte_of_builtin b; zlength args]) with 3 in *.
    eapply iok_call_builtin; [exact HB|exact LF|lia|].
    replace (h + zlength args - zlength args + 1) with (h + 1) by lia. exact HE.
  - bok H st2 H2. bok H n Hn. injection H as <-. apply operand_ok in Hn. destruct Hn as [-> Ln].
    pose proof (expr_frame f st1 st2 Wf (fr_inv _ _ _ F1) (fr_wf _ _ _ F1) H2) as F2.
    assert (A : app_of st2 (emit_u8 (zlength args) (emit_opcode OCall st2)) [byte_of_opcode OCall; zlength args]).
    { exact (app_of_trans _ _ _ _ _ (app_emit_opcode _ _) (app_emit_u8 _ _)). }
    pose proof (app_frame _ _ _ A ltac:(unfold zlength; cbn [length]; lia) (fr_inv _ _ _ F2) (fr_wf _ _ _ F2) eq_refl eq_refl) as F3.
    destruct (exprs_seg args IHa st _ m h LH st st1 h Wa H1 P I0 W0 eq_refl
                (mono_trans _ _ _ (fr_mono _ _ _ F2) (fr_mono _ _ _ F3))) as [C1 S1]; [lia|].
    destruct (use_ih f st _ m h LH st1 st2 (h + zlength args) IHf Wf H2 P (fr_inv _ _ _ F1) (fr_wf _ _ _ F1)
                (pre_frame_mode _ _ _ F1) (fr_mono _ _ _ F3)) as [[C2 S2] _]; [lia|].
    pose proof (fr_len _ _ _ F2).
    eexists. eapply (seg_after_exprs args); [exact S1|intros N; exact (exprs_len args st st1 Wa I0 W0 H1 N)|
                                             |exact (frame_trans _ _ _ _ _ F2 F3)|unfold zlength; cbn [length]; lia].
    eapply seg_app1; [exact S2| |exact F3|unfold zlength; cbn [length]; lia|lia].
    apply (seg_emit st2 _ _ m LH (h + zlength args + 1) _ A); [exists OCall; split; reflexivity|exact (fr_inv _ _ _ F2)|auto|].
    intros F K G HB LF KL HE LO. unfold ex in HE. rewrite (app_of_len _ _ _ A) in HE.
    change (zlength [byte_of_opcode OCall; zlength args]) with 2 in *.
    eapply iok_call; [exact HB|exact LF|lia|lia|].
    replace (h + zlength args + 1 - zlength args) with (h + 1) by lia. exact HE.
Qed.

Print Assumptions case_infix.
Print Assumptions case_call.
