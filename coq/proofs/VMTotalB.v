(* VMTotalB.v - property C05, the end-to-end statement: lib.rs::eval returns a value or one of the
   documented error kinds for every input text (modulo: the compiled code has a certificate of the
   bytecode verifier - "compile_certifies", proved elsewhere).
   Part 1: the integer constants the compiler puts into the pool are literals of the tree, and the
           parser only produces literals 0 <= z <= MAX_INT: so the pool satisfies VMTotal.kints_ok.
   Part 2: eval_total. *)
From NL.Model Require Import VM Pipeline.
From NL.Spec Require Import Verify VMInv Printer.
From NL.Proofs Require Import WordProofs AstInduction PrinterProofs CompilerTotal VerifyProofs VMTotal.
From Coq Require Import Lia.
Open Scope Z_scope.

(** * 1. The constant pool of compiled code *)

Definition kp (st : cstate) : Prop := kints_ok (c_constants st).
Definition kout (o : outcome cstate) : Prop := match o with Ok st' => kp st' | _ => True end.

Lemma kp_same : forall st st', c_constants st' = c_constants st -> kp st -> kp st'.
Proof. intros st st' E H. unfold kp. rewrite E. exact H. Qed.

Lemma kout_bind : forall (e : outcome cstate) k, kout e -> (forall st1, kp st1 -> kout (k st1)) -> kout (bind e k).
Proof. intros [st1|er|f|] k He Hk; cbn [bind kout] in *; try exact I. apply Hk, He. Qed.

Lemma kout_operand : forall bits v (k : Z -> outcome cstate), (forall x, kout (k x)) -> kout (bind (operand bits v) k).
Proof. intros bits v k Hk. unfold operand. destruct (v <? 2 ^ bits); cbn [bind]; [apply Hk|exact I]. Qed.

Lemma kp_add_constant : forall k st, kint_lb k = true -> kp st -> kp (fst (add_constant k st)).
Proof.
  intros k st Hk H. unfold add_constant. destruct (const_position k (c_constants st)); cbn [fst]; [exact H|].
  unfold kp, kints_ok in *. cbn [c_constants]. apply Forall_app. split; [exact H|].
  constructor; [exact Hk|constructor].
Qed.

Lemma kout_emit_const : forall k st, kint_lb k = true -> kp st -> kout (emit_const k st).
Proof.
  intros k st Hk H. unfold emit_const. pose proof (kp_add_constant k st Hk H) as H1.
  destruct (add_constant k st) as [st1 r]. cbn [fst] in H1.
  destruct r as [idx| | |]; cbn [bind kout]; try exact I. apply (kp_same st1); [reflexivity|exact H1].
Qed.

Lemma kout_emit_sym : forall op s st, kp st -> kout (emit_sym op s st).
Proof.
  intros op s st H. unfold emit_sym. apply kout_operand. intros x. cbn [kout].
  apply (kp_same st); [reflexivity|exact H].
Qed.

Lemma kout_cjo : forall idx v st, kp st -> kout (change_jump_operand_at idx v st).
Proof.
  intros idx v st H. unfold change_jump_operand_at. destruct (nth_error _ _); [|exact I].
  destruct (_ || _); [|exact I]. cbn [kout]. apply (kp_same st); [reflexivity|exact H].
Qed.

Lemma kout_fold_patch : forall bs acc, kout acc -> kout (fold_left patch_step bs acc).
Proof.
  induction bs as [|b bs IH]; intros acc H; cbn [fold_left]; [exact H|].
  apply IH. unfold patch_step. apply kout_bind; [exact H|]. intros s Hs.
  apply kout_operand. intros tg. apply kout_cjo; exact Hs.
Qed.

Lemma kp_ccvi : forall name v op st, MIN_INT <= v -> kp st -> kp (fst (compile_const_var_infix name v op st)).
Proof.
  intros name v op st Hv H. unfold compile_const_var_infix.
  assert (Hk : kint_lb (KInt v) = true) by (cbn [kint_lb]; apply Z.leb_le; exact Hv).
  pose proof (kp_add_constant (KInt v) st Hk H) as H1.
  destruct (add_constant (KInt v) st) as [st1 r]. cbn [fst] in H1.
  destruct r as [idx| | |]; cbn [fst]; try exact H1.
  destruct (resolve (c_symbols st1) name) as [s|]; [|exact H1].
  destruct (s_scope s); destruct (assoc operator_eqb op fused_table) as [opc|]; try exact H1.
  destruct (operand 16 (Z.of_nat (s_index s))); cbn [fst]; (apply (kp_same st1); [reflexivity|exact H1]).
Qed.

Lemma fused_candidate_int : forall fok l r op name v op',
  fused_candidate l r op = Some (name, v, op') ->
  wf_expr fok l = true -> wf_expr fok r = true -> 0 <= v.
Proof.
  intros fok l r op name v op' H Hl Hr. unfold fused_candidate in H.
  destruct l; try discriminate H; destruct r; try discriminate H.
  - destruct (assoc operator_eqb op mirror_table); inversion H; subst.
    cbn [wf_expr] in Hl. apply andb_true_iff in Hl. destruct Hl as [A _]. apply Z.leb_le in A. exact A.
  - inversion H; subst. cbn [wf_expr] in Hr. apply andb_true_iff in Hr. destruct Hr as [A _].
    apply Z.leb_le in A. exact A.
Qed.

Lemma min_int_neg : MIN_INT <= 0.
Proof. rewrite MIN_INT_val. lia. Qed.

Section PoolInv.
  Variable fok : float -> bool.

  Definition Pe (e : expr) : Prop :=
    forall st, wf_expr fok e = true -> kp st -> kout (compile_expression e st).
  Definition Ps (s : stmt) : Prop :=
    forall st, wf_stmt fok s = true -> kp st -> kout (compile_statement s st).

  Lemma stmts_kout : forall b, Forall Ps b -> forallb (wf_stmt fok) b = true ->
    forall st, kp st -> kout (compile_statements b st).
  Proof.
    induction b as [|s r IH]; intros HF Hw st H; cbn [compile_statements]; [exact H|].
    inversion HF; subst. cbn [forallb] in Hw. apply andb_true_iff in Hw. destruct Hw as [W1 W2].
    apply kout_bind; [apply H2; assumption|]. intros st1 H1. apply IH; assumption.
  Qed.

  Lemma exprs_kout : forall l, Forall Pe l -> forallb (wf_expr fok) l = true ->
    forall st, kp st -> kout (compile_exprs l st).
  Proof.
    induction l as [|e r IH]; intros HF Hw st H; cbn [compile_exprs]; [exact H|].
    inversion HF; subst. cbn [forallb] in Hw. apply andb_true_iff in Hw. destruct Hw as [W1 W2].
    apply kout_bind; [apply H2; assumption|]. intros st1 H1. apply IH; assumption.
  Qed.

  Lemma block_statement_kout : forall b, Forall Ps b -> forallb (wf_stmt fok) b = true ->
    forall st, kp st -> kout (block_statement b st).
  Proof.
    intros b HF Hw st H. unfold block_statement. destruct (is_nil b).
    - cbn [kout]. apply (kp_same st); [reflexivity|exact H].
    - apply kout_bind; [apply stmts_kout; assumption|].
      intros st1 H1. cbn [kout]. apply (kp_same st1); [reflexivity|exact H1].
  Qed.

  Lemma block_value_kout : forall b, Forall Ps b -> forallb (wf_stmt fok) b = true ->
    forall st, kp st -> kout (block_value b st).
  Proof.
    intros b HF Hw st H. unfold block_value. apply kout_bind; [apply block_statement_kout; assumption|].
    intros st1 H1. destruct (is_nil b); [exact H1|].
    destruct (last_instruction_is OPop st1); cbn [kout]; (apply (kp_same st1); [reflexivity|exact H1]).
  Qed.

  Ltac wsplit H :=
    repeat match type of H with
    | (_ && _) = true => let A := fresh "W" in apply andb_true_iff in H; destruct H as [H A]
    end.

  Ltac same st := (apply (kp_same st); [reflexivity|assumption]).

  Theorem pool_inv_all : (forall e, Pe e) /\ (forall s, Ps s).
  Proof.
    apply expr_stmt_ind.
    - (* EInfix *)
      intros l o r IHl IHr st Hw H. cbn [wf_expr] in Hw. wsplit Hw.
      assert (Hgen : forall st0, kp st0 -> kout (generic_infix l o r st0)).
      { intros st0 H0. unfold generic_infix. apply kout_bind; [apply IHl; assumption|]. intros st1 H1.
        apply kout_bind; [apply IHr; assumption|]. intros st2 H2.
        destruct (assoc operator_eqb o compile_operator_table); [|exact I]. cbn [kout]. same st2. }
      rewrite ce_infix. destruct (fused_candidate l r o) as [[[name v] op']|] eqn:Ef; [|apply Hgen; exact H].
      pose proof (fused_candidate_int fok l r o name v op' Ef W0 W) as Hv.
      pose proof (kp_ccvi name v op' st ltac:(pose proof min_int_neg; lia) H) as H1.
      destruct (compile_const_var_infix name v op' st) as [st1 done]. cbn [fst] in H1.
      destruct done; [exact H1|apply Hgen; exact H1].
    - (* EPrefix *)
      intros o r IHr st Hw H. cbn [wf_expr] in Hw. wsplit Hw. rewrite ce_prefix.
      apply kout_bind; [apply IHr; assumption|]. intros st1 H1.
      destruct o; try exact I; cbn [kout]; same st1.
    - (* EInt *)
      intros z st Hw H. cbn [wf_expr] in Hw. wsplit Hw. apply Z.leb_le in Hw.
      change (compile_expression (EInt z) st) with (emit_const (KInt z) st).
      apply kout_emit_const; [|exact H]. cbn [kint_lb]. apply Z.leb_le. pose proof min_int_neg; lia.
    - (* EFloat *)
      intros x st Hw H. change (compile_expression (EFloat x) st) with (emit_const (KFloat x) (count_alloc st)).
      apply kout_emit_const; [reflexivity|]. same st.
    - (* EBool *)
      intros b st Hw H. cbn [compile_expression kout]. same st.
    - (* EIf *)
      intros c t alt IHc IHt IHa st Hw H. cbn [wf_expr] in Hw. wsplit Hw. rewrite ce_if.
      apply kout_bind; [apply IHc; assumption|]. intros st1 H1.
      apply kout_bind; [apply block_value_kout; try assumption; unfold jump_ph; same st1|]. intros st3 H3.
      apply kout_operand. intros target.
      apply kout_bind; [apply kout_cjo; unfold jump_ph; same st3|]. intros st5 H5.
      apply kout_bind.
      + destruct alt as [a|]; [apply block_value_kout; assumption|cbn [kout]; same st5].
      + intros st6 H6. apply kout_operand. intros t2. apply kout_cjo; exact H6.
    - (* EIdent *)
      intros name st Hw H.
      change (compile_expression (EIdent name) st)
        with (match resolve (c_symbols st) name with
              | Some s => emit_sym (scoped s OGetGlobal OGetLocal) s st
              | None => Err EReferenceError
              end).
      destruct (resolve (c_symbols st) name); [apply kout_emit_sym; exact H|exact I].
    - (* EFunction *)
      intros name ps body IHb st Hw H. cbn [wf_expr] in Hw. rewrite ce_function.
      assert (H1 : kp (fst (fun_enter name st))).
      { unfold fun_enter. destruct (is_nil name); [exact H|].
        destruct (define (c_symbols st) name) as [t s]. cbn [fst]. same st. }
      destruct (fun_enter name st) as [st1 sym]. cbn [fst] in H1.
      cbv zeta.
      apply kout_bind; [apply block_statement_kout; try assumption; unfold jump_ph; same st1|]. intros st4 H4.
      apply kout_operand. intros target.
      apply kout_bind.
      { apply kout_cjo. unfold fun_finish.
        destruct (last_instruction_is OPop _); [same st4|].
        destruct (last_instruction_is OReturnValue _); same st4. }
      intros st7 H7. unfold fun_tail.
      destruct (leave_context (c_symbols st7)) as [t8 nl].
      apply kout_operand. intros ip. apply kout_operand. intros n.
      assert (H8 : kp (set_symbols st7 t8)) by same st7.
      pose proof (kp_add_constant (KFun ip n) _ eq_refl H8) as H9.
      destruct (add_constant (KFun ip n) (set_symbols st7 t8)) as [st9 r]. cbn [fst] in H9.
      destruct r as [idx| | |]; cbn [bind kout]; try exact I.
      destruct sym as [s|]; [|cbn [kout]; same st9].
      apply kout_bind; [apply kout_emit_sym; same st9|]. intros st11 H11. cbn [kout]. same st11.
    - (* ECall *)
      intros h args IHh IHargs st Hw H. cbn [wf_expr] in Hw. wsplit Hw. rewrite ce_call.
      apply kout_bind; [apply exprs_kout; assumption|]. intros st1 H1.
      destruct (match h with EIdent name => assoc_text name builtin_names | _ => None end).
      + apply kout_operand. intros n. cbn [kout]. same st1.
      + apply kout_bind; [apply IHh; assumption|]. intros st2 H2.
        apply kout_operand. intros n. cbn [kout]. same st2.
    - (* EAssign *)
      intros l r IHl IHr st Hw H. cbn [wf_expr] in Hw. wsplit Hw.
      destruct l; try discriminate Hw.
      + rewrite ce_assign_ident. destruct (resolve (c_symbols st) s) as [sy|]; [|exact I].
        apply kout_bind; [apply IHr; assumption|]. intros st1 H1.
        apply kout_bind; [apply kout_emit_sym; exact H1|]. intros st2 H2. apply kout_emit_sym; exact H2.
      + rewrite ce_assign_index.
        pose proof (IHl st W0 H) as Hl. rewrite ce_index in Hl.
        destruct (compile_expression l1 st) as [st1| | |]; cbn [bind kout] in *; try exact I.
        destruct (compile_expression l2 st1) as [st2| | |]; cbn [bind kout] in *; try exact I.
        apply kout_bind; [apply IHr; [assumption|same st2]|]. intros st3 H3. cbn [kout]. same st3.
    - (* EString *)
      intros s st Hw H. change (compile_expression (EString s) st) with (emit_const (KStr s) (count_alloc st)).
      apply kout_emit_const; [reflexivity|]. same st.
    - (* EArray *)
      intros vs IHvs st Hw H. cbn [wf_expr] in Hw. rewrite ce_array.
      apply kout_bind; [apply exprs_kout; assumption|]. intros st1 H1.
      apply kout_operand. intros n. cbn [kout]. same st1.
    - (* EIndex *)
      intros b i IHb IHi st Hw H. cbn [wf_expr] in Hw. wsplit Hw. rewrite ce_index.
      apply kout_bind; [apply IHb; assumption|]. intros st1 H1.
      apply kout_bind; [apply IHi; assumption|]. intros st2 H2. cbn [kout]. same st2.
    - (* EWhile *)
      intros c b IHc IHb st Hw H. cbn [wf_expr] in Hw. wsplit Hw. rewrite ce_while.
      apply kout_bind; [apply IHc; [assumption|unfold while_enter; same st]|]. intros st3 H3.
      apply kout_bind; [apply block_value_kout; try assumption; unfold jump_ph; same st3|]. intros st5 H5.
      apply kout_operand. intros back. apply kout_operand. intros target.
      apply kout_bind; [apply kout_cjo; same st5|]. intros st8 H8.
      unfold while_exit. destruct (rev (c_loops st8)) as [|ctx rest]; [exact I|].
      apply kout_fold_patch. cbn [kout]. same st8.
    - (* SLet *)
      intros n e IHe st Hw H. cbn [wf_stmt] in Hw. rewrite cs_let.
      destruct (define (c_symbols st) n) as [t sym].
      apply kout_bind; [apply IHe; [assumption|same st]|]. intros st1 H1. apply kout_emit_sym; exact H1.
    - (* SReturn *)
      intros e IHe st Hw H. cbn [wf_stmt] in Hw.
      change (compile_statement (SReturn e) st)
        with (if in_global_context (c_symbols st) then Err ESyntaxError
              else do st1 <- compile_expression e st; Ok (emit_opcode OReturnValue st1)).
      destruct (in_global_context (c_symbols st)); [exact I|].
      apply kout_bind; [apply IHe; assumption|]. intros st1 H1. cbn [kout]. same st1.
    - (* SExpr *)
      intros e IHe st Hw H. cbn [wf_stmt] in Hw.
      change (compile_statement (SExpr e) st)
        with (do st1 <- compile_expression e st; Ok (emit_opcode OPop st1)).
      apply kout_bind; [apply IHe; assumption|]. intros st1 H1. cbn [kout]. same st1.
    - (* SBlock *)
      intros b IHb st Hw H. cbn [wf_stmt] in Hw. rewrite cs_block. destruct (is_nil b).
      + cbn [kout]. same st.
      + apply kout_bind; [apply stmts_kout; try assumption; same st|]. intros st1 H1. cbn [kout]. same st1.
    - (* SBreak *)
      intros st Hw H. rewrite cs_break. cbv zeta. destruct (rev (c_loops st)); [exact I|].
      cbn [kout]. unfold jump_ph. same st.
    - (* SContinue *)
      intros st Hw H. rewrite cs_continue. destruct (rev (c_loops st)); [exact I|].
      apply kout_operand. intros pos. cbn [kout]. same st.
  Qed.
End PoolInv.

(* every integer constant of compiled code is a literal of the tree *)
Theorem compile_kints : forall b st bc st', wf_tree b = true -> kints_ok (c_constants st) ->
  compile_ast b st = (st', Ok bc) -> kints_ok (b_constants bc).
Proof.
  intros b st bc st' Hw H E. unfold compile_ast in E.
  pose proof (stmts_kout (fun _ => true) b) as Hs.
  assert (HF : Forall (Ps (fun _ => true)) b).
  { apply Forall_forall. intros s _. apply (proj2 (pool_inv_all (fun _ => true))). }
  specialize (Hs HF Hw st H).
  destruct (compile_statements b st) as [st1| | |]; inversion E; subst. cbn [b_constants c_constants emit_opcode].
  exact Hs.
Qed.

Theorem front_kints : forall u orc src bc, front u orc src = Ok bc -> kints_ok (b_constants bc).
Proof.
  intros u orc src bc E. unfold front, parse in E.
  destruct (parse_tokens (parse_float orc) (tokens u src)) as [b| | |] eqn:Ep; cbn [bind] in E; try discriminate E.
  unfold parse_tokens in Ep. pose proof (PrinterProofs.wf_complete (parse_float orc) _ _ b Ep) as W.
  unfold compile in E. destruct (compile_ast b compiler_new) as [st' r] eqn:Ec. cbn [snd] in E. subst r.
  eapply compile_kints; [exact W| |exact Ec]. constructor.
Qed.

(** * 2. The property *)

Lemma eval_ran : forall u orc src budget x o, eval u orc src budget = Ran x o ->
  exists bc, front u orc src = Ok bc /\ o = run_program orc bc budget.
Proof.
  intros u orc src budget x o E. unfold eval in E. unfold front.
  destruct (parse u (parse_float orc) src) as [ast| | |]; try discriminate E. cbn [bind].
  unfold compile. destruct (compile_ast ast compiler_new) as [st [bc| | |]]; try discriminate E.
  inversion E; subst. exists bc. split; reflexivity.
Qed.

(* C05.  For every text: what is rejected before anything runs is rejected with one of the error
   kinds, and what runs ends with a value, an error kind, or OutOfFuel (the instruction budget, or
   print on an array nested deeper than show_depth) - never with a Fault, the model's stand-in for
   a panic or an unchecked access.
   Hypotheses: (a) str::parse::<f64> accepts digits.digits (as in front_end_no_panic);
               (b) compiled code has a verifier certificate (compile_certifies, proved elsewhere);
               (c) fewer than 2^60 boxes are allocated (VMInv.addr_bounded). *)
Theorem eval_total : forall u orc src budget,
  (forall s, CompilerTotal.float_shape s -> parse_float orc s <> None) ->
  (forall bc, front u orc src = Ok bc ->
     exists c, check (mkProgram (b_code bc) (fst (load_consts (b_constants bc) empty_heap))) c = true) ->
  (forall bc, front u orc src = Ok bc ->
     Z.of_nat (length (b_constants bc)) + Z.of_nat budget + 1 < 2 ^ 60) ->
  match eval u orc src budget with
  | FrontError r => exists k, r = Err k
  | Ran _ o => match o_result o with Fault _ => False | _ => True end
  end.
Proof.
  intros u orc src budget Hpf Hcert Hsize.
  destruct (eval u orc src budget) as [r|x o] eqn:E.
  - eapply CompilerTotal.eval_front_no_panic; eassumption.
  - destruct (eval_ran _ _ _ _ _ _ E) as (bc & Hf & ->).
    apply run_total; [apply Hcert; exact Hf|eapply front_kints; exact Hf|apply Hsize; exact Hf].
Qed.

(* the same with the executable verifier in place of (b): whenever Verify.verify accepts the
   compiled code, nothing can go wrong *)
Corollary eval_total_verified : forall u orc src budget,
  (forall s, CompilerTotal.float_shape s -> parse_float orc s <> None) ->
  (forall bc, front u orc src = Ok bc ->
     verify (mkProgram (b_code bc) (fst (load_consts (b_constants bc) empty_heap))) = true) ->
  (forall bc, front u orc src = Ok bc ->
     Z.of_nat (length (b_constants bc)) + Z.of_nat budget + 1 < 2 ^ 60) ->
  match eval u orc src budget with
  | FrontError r => exists k, r = Err k
  | Ran _ o => match o_result o with Fault _ => False | _ => True end
  end.
Proof.
  intros u orc src budget Hpf Hv Hsize. apply eval_total; [exact Hpf| |exact Hsize].
  intros bc Hf. apply verify_check. apply Hv; exact Hf.
Qed.

(** * 3. Non-vacuity *)

(* an oracle that accepts every float text *)
Definition tb_orc : oracle := mkOracle (fun _ => []) (fun _ => Some 1.5%float) (fun x _ => x).

Definition tb_source : text := str_cps VMTotal.tot_source.
Definition tb_bad_source : text := str_cps "stel a = [1]; a[1]".

Lemma tb_front_det : forall src bc0, front VerifyProofs.ex_unicode tb_orc src = Ok bc0 ->
  forall bc, front VerifyProofs.ex_unicode tb_orc src = Ok bc -> bc = bc0.
Proof. intros src bc0 E bc E'. rewrite E in E'. inversion E'. reflexivity. Qed.

(* all three hypotheses of eval_total_verified hold for the example program, which runs to a value ... *)
Example eval_total_nonvacuous :
  (forall s, CompilerTotal.float_shape s -> parse_float tb_orc s <> None)
  /\ (exists bc, front VerifyProofs.ex_unicode tb_orc tb_source = Ok bc
        /\ verify (mkProgram (b_code bc) (fst (load_consts (b_constants bc) empty_heap))) = true
        /\ Z.of_nat (length (b_constants bc)) + 1000 + 1 < 2 ^ 60)
  /\ (exists x o, eval VerifyProofs.ex_unicode tb_orc tb_source 1000 = Ran x o /\ o_result o = Ok (VInt 7)).
Proof.
  split; [intros s _; discriminate|]. split.
  - destruct (front VerifyProofs.ex_unicode tb_orc tb_source) as [bc| | |] eqn:E; try (vm_compute in E; discriminate E).
    exists bc. split; [reflexivity|]. vm_compute in E. inversion E; subst. clear E.
    split; vm_compute; reflexivity.
  - destruct (eval VerifyProofs.ex_unicode tb_orc tb_source 1000) as [r|x o] eqn:E; [vm_compute in E; discriminate E|].
    exists x, o. split; [reflexivity|]. vm_compute in E. inversion E; subst. vm_compute. reflexivity.
Qed.

(* ... and a run-time failure is an error VALUE *)
Example eval_error_is_value :
  exists x o, eval VerifyProofs.ex_unicode tb_orc tb_bad_source 1000 = Ran x o /\ o_result o = Err EIndexError.
Proof.
  destruct (eval VerifyProofs.ex_unicode tb_orc tb_bad_source 1000) as [r|x o] eqn:E; [vm_compute in E; discriminate E|].
  exists x, o. split; [reflexivity|]. vm_compute in E. inversion E; subst. vm_compute. reflexivity.
Qed.

(* the OutOfFuel branch is inhabited: printing a cyclic array (finding D26) stops the run with budget
   to spare, and the code is verified, so this is the Display depth and nothing else *)
Definition tb_cyclic_source : text := str_cps "stel a = [1]; a[0] = a; print(a)".
Example eval_cyclic_print_out_of_fuel :
  exists x o, eval VerifyProofs.ex_unicode tb_orc tb_cyclic_source 1000 = Ran x o
    /\ o_result o = OutOfFuel /\ (o_steps o < 1000)%nat.
Proof.
  destruct (eval VerifyProofs.ex_unicode tb_orc tb_cyclic_source 1000) as [r|x o] eqn:E; [vm_compute in E; discriminate E|].
  exists x, o. split; [reflexivity|]. vm_compute in E. inversion E; subst.
  split; [vm_compute; reflexivity|]. vm_compute. repeat constructor.
Qed.

Print Assumptions compile_kints.
Print Assumptions front_kints.
Print Assumptions eval_total.
Print Assumptions eval_total_verified.
Print Assumptions eval_total_nonvacuous.
