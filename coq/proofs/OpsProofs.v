(* OpsProofs.v - the operator methods of Ops.v meet the specification ArithSpec.v (property C06).
   Plan: (1) the chain operator -> opcode -> method name -> macro instance, by computation on
   the regenerated tables; (2) the three macros on encoded operands, using only the word lemmas
   of WordProofs.v; (3) one lemma per operand type; (4) the theorems of props/C06.v. *)
From Coq Require Import ZArith Lia Bool List String Floats.
From NL.Model Require Import Ops.
From NL.Spec Require Import ArithSpec.
From NL.Proofs Require Import WordProofs.
Open Scope Z_scope.

(** * 1. The dispatch chain *)

Definition method_of (o : operator) : option string :=
  match assoc operator_eqb o compile_operator_table with
  | Some c => assoc opcode_eqb c binary_dispatch
  | None => None
  end.

Lemma chain_method : forall o c m,
  assoc operator_eqb o compile_operator_table = Some c ->
  assoc opcode_eqb c binary_dispatch = Some m -> method_of o = Some m.
Proof. intros o c m Hc Hm. unfold method_of. rewrite Hc. exact Hm. Qed.

(* case analysis on the operator, with the method name computed from the tables *)
Ltac method_cases o Hm m :=
  destruct o; vm_compute in Hm; try discriminate Hm; inversion Hm; subst m; clear Hm.

Lemma method_arith : forall m sym chk, assoc3 m arith_methods = Some (sym, chk) ->
  forall d orc a b, w_method d orc m a b = w_arith d orc sym chk a b.
Proof. intros m sym chk H d orc a b. unfold w_method. rewrite H. reflexivity. Qed.

Lemma method_cmp : forall m sym ord,
  assoc3 m arith_methods = None -> assoc3 m cmp_methods = Some (sym, ord) ->
  forall d orc a b, w_method d orc m a b = w_cmp d sym ord a b.
Proof. intros m sym ord H1 H2 d orc a b. unfold w_method. rewrite H1, H2. reflexivity. Qed.

Lemma method_logical : forall m sym,
  assoc3 m arith_methods = None -> assoc3 m cmp_methods = None ->
  assoc2 m logical_methods = Some sym ->
  forall d orc a b, w_method d orc m a b = w_logical sym a b.
Proof. intros m sym H1 H2 H3 d orc a b. unfold w_method. rewrite H1, H2, H3. reflexivity. Qed.

(* replaces w_method on a concrete method name by the macro instance the tables give *)
Ltac red_method :=
  unfold binop;
  match goal with
  | |- context [w_method ?d ?orc ?m ?a ?b] =>
      let r1 := eval vm_compute in (assoc3 m arith_methods) in
      match r1 with
      | Some (?sym, ?chk) => rewrite (method_arith m sym chk eq_refl d orc a b)
      | None =>
          let r2 := eval vm_compute in (assoc3 m cmp_methods) in
          match r2 with
          | Some (?sym, ?ord) => rewrite (method_cmp m sym ord eq_refl eq_refl d orc a b)
          | None =>
              let r3 := eval vm_compute in (assoc2 m logical_methods) in
              match r3 with
              | Some ?sym => rewrite (method_logical m sym eq_refl eq_refl eq_refl d orc a b)
              end
          end
      end
  end.

(** * 2. The macros on encoded operands *)

Lemma encode_int : forall z, encode (VInt z) = w_int z.
Proof. reflexivity. Qed.

Lemma lift_bool : forall h r, lift_wres h (WWord (w_bool r)) = Ok (VBool r, h).
Proof. intros h r. destruct r; reflexivity. Qed.

Lemma lift_int : forall h z, in_int_range z = true ->
  lift_wres h (WWord (w_int z)) = Ok (VInt z, h).
Proof.
  intros h z Hz. unfold lift_wres. rewrite <- encode_int.
  rewrite (decode_encode (VInt z) Hz). reflexivity.
Qed.

Lemma in_range_fits : forall z, in_int_range z = true -> fits_isize z = true.
Proof.
  intros z Hz. apply in_int_range_iff in Hz. rewrite MIN_INT_val, MAX_INT_val in Hz.
  apply fits_isize_iff. rewrite HALF_val. lia.
Qed.

(* Object::checked_int after a checked isize operation = the range check of the specification *)
Lemma lift_ret : forall h z,
  lift_wres h (match checked_int (if fits_isize z then Some z else None) with
               | Some w => WWord w
               | None => WErr ETypeError
               end) = lift_sres h (int_result z).
Proof.
  intros h z. unfold int_result. destruct (in_int_range z) eqn:Hr.
  - rewrite (in_range_fits z Hr). unfold checked_int. rewrite Hr.
    rewrite (lift_int h z Hr). reflexivity.
  - destruct (fits_isize z); unfold checked_int; try rewrite Hr; reflexivity.
Qed.

Section Macros.
  Variable d : Z -> option obj.
  Variable orc : oracle.

  (* operands of different type: every macro answers TypeError *)
  Lemma w_arith_mismatch : forall sym chk a b, wf_val a = true -> wf_val b = true ->
    val_tag a <> val_tag b -> w_arith d orc sym chk (encode a) (encode b) = WErr ETypeError.
  Proof.
    intros sym chk a b Ha Hb Hne. unfold w_arith. rewrite (tag_valid a Ha), (tag_valid b Hb).
    rewrite (tag_eqb_neq _ _ Hne). reflexivity.
  Qed.

  Lemma w_cmp_mismatch : forall sym ord a b, wf_val a = true -> wf_val b = true ->
    val_tag a <> val_tag b -> w_cmp d sym ord (encode a) (encode b) = WErr ETypeError.
  Proof.
    intros sym ord a b Ha Hb Hne. unfold w_cmp. rewrite (tag_valid a Ha), (tag_valid b Hb).
    rewrite (tag_eqb_neq _ _ Hne). reflexivity.
  Qed.

  Lemma w_logical_not_bool : forall sym a b, wf_val a = true -> wf_val b = true ->
    val_tag a <> TBool \/ val_tag b <> TBool ->
    w_logical sym (encode a) (encode b) = WErr ETypeError.
  Proof.
    intros sym a b Ha Hb Hne. unfold w_logical. rewrite (tag_valid a Ha), (tag_valid b Hb).
    destruct (val_tag a); destruct (val_tag b); try reflexivity.
    exfalso. destruct Hne as [H|H]; apply H; reflexivity.
  Qed.

  (* operands of the same type *)
  Lemma w_arith_same : forall sym chk a b, wf_val a = true -> wf_val b = true ->
    val_tag a = val_tag b ->
    w_arith d orc sym chk (encode a) (encode b) =
    match val_tag a with
    | TInt => match checked_int (checked chk (w_as_int (encode a)) (w_as_int (encode b))) with
              | Some w => WWord w
              | None => WErr ETypeError
              end
    | TFloat => match d (encode a), d (encode b) with
                | Some (OFloat x), Some (OFloat y) =>
                    match float_arith orc sym x y with
                    | Some f => WNewFloat f
                    | None => WFault FUnwrap
                    end
                | _, _ => WFault FUseAfterFree
                end
    | _ => WErr ETypeError
    end.
  Proof.
    intros sym chk a b Ha Hb Ht. unfold w_arith. rewrite (tag_valid a Ha), (tag_valid b Hb).
    rewrite <- Ht. rewrite tag_eqb_refl. reflexivity.
  Qed.

  Lemma w_cmp_same : forall sym ord a b, wf_val a = true -> wf_val b = true ->
    val_tag a = val_tag b ->
    w_cmp d sym ord (encode a) (encode b) =
    if tag_eqb (val_tag a) TArray || (ord && tag_eqb (val_tag a) TFunction) then WErr ETypeError
    else match cmp_sym d sym (val_tag a) (encode a) (encode b) with
         | Some r => WWord (w_bool r)
         | None => WFault FUseAfterFree
         end.
  Proof.
    intros sym ord a b Ha Hb Ht. unfold w_cmp. rewrite (tag_valid a Ha), (tag_valid b Hb).
    rewrite <- Ht. rewrite tag_eqb_refl. reflexivity.
  Qed.

  (* the comparison symbols, given what == and partial_cmp answer *)
  Definition cmp_abs (sym : string) (e : bool) (c : option comparison) : option bool :=
    if String.eqb sym "==" then Some e
    else if String.eqb sym "!=" then Some (negb e)
    else if String.eqb sym "<" then Some (match c with Some Lt => true | _ => false end)
    else if String.eqb sym "<=" then Some (match c with Some Lt | Some Eq => true | _ => false end)
    else if String.eqb sym ">" then Some (match c with Some Gt => true | _ => false end)
    else if String.eqb sym ">=" then Some (match c with Some Gt | Some Eq => true | _ => false end)
    else None.

  Lemma cmp_sym_abs : forall sym t a b e c,
    w_eq d t a b = Some e -> w_partial_cmp d t a b = Some c ->
    cmp_sym d sym t a b = cmp_abs sym e c.
  Proof.
    intros sym t a b e c He Hc. unfold cmp_sym, cmp_abs. rewrite He, Hc. reflexivity.
  Qed.

  (* functions have == but no order *)
  Lemma cmp_sym_eq_only : forall sym t a b e, w_eq d t a b = Some e ->
    (String.eqb sym "==" || String.eqb sym "!=") = true ->
    cmp_sym d sym t a b = cmp_abs sym e None.
  Proof.
    intros sym t a b e He Hs. unfold cmp_sym, cmp_abs. rewrite He.
    destruct (String.eqb sym "=="); [reflexivity|].
    destruct (String.eqb sym "!="); [reflexivity|]. discriminate Hs.
  Qed.
End Macros.

Lemma compare_tagged : forall x y t, (8 * x + t ?= 8 * y + t) = (x ?= y).
Proof.
  intros x y t. destruct (Z.compare_spec x y) as [E|L|G].
  - rewrite E. apply Z.compare_refl.
  - apply Z.compare_lt_iff. lia.
  - apply Z.compare_gt_iff. lia.
Qed.

Lemma text_cmp_lex : forall a b, text_cmp a b = lex_cmp a b.
Proof.
  intros a. induction a as [|x a IH]; intros b; destruct b as [|y b]; simpl; try reflexivity.
  all: rewrite IH; reflexivity.
Qed.

Lemma text_eqb_lex : forall a b,
  text_eqb a b = match lex_cmp a b with Eq => true | _ => false end.
Proof.
  intros a. induction a as [|x a IH]; intros b; destruct b as [|y b]; simpl; try reflexivity.
  rewrite IH. destruct (N.compare_spec x y) as [E|L|G].
  - rewrite E, N.eqb_refl. reflexivity.
  - assert ((x =? y)%N = false) as -> by (apply N.eqb_neq; lia). reflexivity.
  - assert ((x =? y)%N = false) as -> by (apply N.eqb_neq; lia). reflexivity.
Qed.

(** * 3. One lemma per operand type *)

Section PerType.
  Variable orc : oracle.
  Variable h : heap.

  (* different types *)
  Lemma binop_mismatch : forall o m a b, method_of o = Some m ->
    wf_val a = true -> wf_val b = true -> val_tag a <> val_tag b ->
    binop orc m h a b = Err ETypeError.
  Proof.
    intros o m a b Hm Ha Hb Hne.
    assert (val_tag a <> TBool \/ val_tag b <> TBool) as Hnb.
    { destruct (val_tag a); destruct (val_tag b);
        try (left; discriminate); try (right; discriminate). exfalso. apply Hne. reflexivity. }
    method_cases o Hm m; red_method;
      first [ rewrite (w_arith_mismatch _ _ _ _ a b Ha Hb Hne)
            | rewrite (w_cmp_mismatch _ _ _ a b Ha Hb Hne)
            | rewrite (w_logical_not_bool _ a b Ha Hb Hnb) ]; reflexivity.
  Qed.

  (* same type, neither int nor float nor bool: arithmetic and logic are TypeErrors *)
  Lemma binop_arith_other : forall m sym chk a b, assoc3 m arith_methods = Some (sym, chk) ->
    wf_val a = true -> wf_val b = true -> val_tag a = val_tag b ->
    val_tag a <> TInt -> val_tag a <> TFloat ->
    binop orc m h a b = Err ETypeError.
  Proof.
    intros m sym chk a b Hm Ha Hb Ht Hi Hf. unfold binop.
    rewrite (method_arith m sym chk Hm). rewrite (w_arith_same _ _ _ _ a b Ha Hb Ht).
    destruct (val_tag a); try reflexivity; exfalso; [apply Hi | apply Hf]; reflexivity.
  Qed.

  Lemma binop_logical_other : forall m sym a b,
    assoc3 m arith_methods = None -> assoc3 m cmp_methods = None ->
    assoc2 m logical_methods = Some sym ->
    wf_val a = true -> wf_val b = true -> val_tag a <> TBool ->
    binop orc m h a b = Err ETypeError.
  Proof.
    intros m sym a b H1 H2 H3 Ha Hb Hnb. unfold binop.
    rewrite (method_logical m sym H1 H2 H3).
    rewrite (w_logical_not_bool sym a b Ha Hb (or_introl Hnb)). reflexivity.
  Qed.

  (* comparison of two operands of the same type, from what == and partial_cmp answer *)
  Lemma binop_cmp_same : forall m sym ord a b e c,
    assoc3 m arith_methods = None -> assoc3 m cmp_methods = Some (sym, ord) ->
    wf_val a = true -> wf_val b = true -> val_tag a = val_tag b ->
    tag_eqb (val_tag a) TArray || (ord && tag_eqb (val_tag a) TFunction) = false ->
    w_eq (deref_heap h) (val_tag a) (encode a) (encode b) = Some e ->
    w_partial_cmp (deref_heap h) (val_tag a) (encode a) (encode b) = Some c ->
    forall r, cmp_abs sym e c = Some r ->
    binop orc m h a b = Ok (VBool r, h).
  Proof.
    intros m sym ord a b e c H1 H2 Ha Hb Ht Hok He Hc r Hr. unfold binop.
    rewrite (method_cmp m sym ord H1 H2). rewrite (w_cmp_same _ _ _ a b Ha Hb Ht). rewrite Hok.
    rewrite (cmp_sym_abs _ sym _ _ _ e c He Hc). rewrite Hr. apply lift_bool.
  Qed.

  (* types with == but without an order (functions) *)
  Lemma binop_cmp_eq_only : forall m sym ord a b e,
    assoc3 m arith_methods = None -> assoc3 m cmp_methods = Some (sym, ord) ->
    wf_val a = true -> wf_val b = true -> val_tag a = val_tag b ->
    tag_eqb (val_tag a) TArray || (ord && tag_eqb (val_tag a) TFunction) = false ->
    w_eq (deref_heap h) (val_tag a) (encode a) (encode b) = Some e ->
    (String.eqb sym "==" || String.eqb sym "!=") = true ->
    forall r, cmp_abs sym e None = Some r ->
    binop orc m h a b = Ok (VBool r, h).
  Proof.
    intros m sym ord a b e H1 H2 Ha Hb Ht Hok He Hs r Hr. unfold binop.
    rewrite (method_cmp m sym ord H1 H2). rewrite (w_cmp_same _ _ _ a b Ha Hb Ht). rewrite Hok.
    rewrite (cmp_sym_eq_only _ sym _ _ _ e He Hs). rewrite Hr. apply lift_bool.
  Qed.

  Lemma binop_cmp_reject : forall m sym ord a b,
    assoc3 m arith_methods = None -> assoc3 m cmp_methods = Some (sym, ord) ->
    wf_val a = true -> wf_val b = true -> val_tag a = val_tag b ->
    tag_eqb (val_tag a) TArray || (ord && tag_eqb (val_tag a) TFunction) = true ->
    binop orc m h a b = Err ETypeError.
  Proof.
    intros m sym ord a b H1 H2 Ha Hb Ht Hrej. unfold binop.
    rewrite (method_cmp m sym ord H1 H2). rewrite (w_cmp_same _ _ _ a b Ha Hb Ht). rewrite Hrej.
    reflexivity.
  Qed.

End PerType.

(* tactics that pick the macro instance of the method name in the goal from the tables *)
Ltac by_cmp_same Ha Hb He Hc :=
  match goal with
  | |- binop ?orc ?m ?h ?a ?b = _ =>
      let r := eval vm_compute in (assoc3 m cmp_methods) in
      match r with
      | Some (?sym, ?ord) =>
          rewrite (binop_cmp_same orc h m sym ord a b _ _ eq_refl eq_refl Ha Hb eq_refl eq_refl
                     He Hc _ eq_refl)
      end
  end.

Ltac by_cmp_eq_only Ha Hb He :=
  match goal with
  | |- binop ?orc ?m ?h ?a ?b = _ =>
      let r := eval vm_compute in (assoc3 m cmp_methods) in
      match r with
      | Some (?sym, ?ord) =>
          rewrite (binop_cmp_eq_only orc h m sym ord a b _ eq_refl eq_refl Ha Hb eq_refl eq_refl
                     He eq_refl _ eq_refl)
      end
  end.

Ltac by_cmp_reject Ha Hb :=
  match goal with
  | |- binop ?orc ?m ?h ?a ?b = _ =>
      let r := eval vm_compute in (assoc3 m cmp_methods) in
      match r with
      | Some (?sym, ?ord) =>
          rewrite (binop_cmp_reject orc h m sym ord a b eq_refl eq_refl Ha Hb eq_refl eq_refl)
      end
  end.

Ltac by_arith_other Ha Hb :=
  match goal with
  | |- binop ?orc ?m ?h ?a ?b = _ =>
      let r := eval vm_compute in (assoc3 m arith_methods) in
      match r with
      | Some (?sym, ?chk) =>
          rewrite (binop_arith_other orc h m sym chk a b eq_refl Ha Hb eq_refl
                     ltac:(discriminate) ltac:(discriminate))
      end
  end.

Ltac by_logical_other Ha Hb :=
  match goal with
  | |- binop ?orc ?m ?h ?a ?b = _ =>
      let r := eval vm_compute in (assoc2 m logical_methods) in
      match r with
      | Some ?sym =>
          rewrite (binop_logical_other orc h m sym a b eq_refl eq_refl eq_refl Ha Hb
                     ltac:(discriminate))
      end
  end.

(** ** int *)

Lemma int_eq_word : forall h x y, wf_val (VInt x) = true -> wf_val (VInt y) = true ->
  w_eq (deref_heap h) TInt (encode (VInt x)) (encode (VInt y)) = Some (x =? y).
Proof.
  intros h x y Hx Hy.
  exact (eq_agrees h (VInt x) (VInt y) Hx Hy eq_refl ltac:(discriminate)).
Qed.

Lemma int_cmp_word : forall h x y, wf_val (VInt x) = true -> wf_val (VInt y) = true ->
  w_partial_cmp (deref_heap h) TInt (encode (VInt x)) (encode (VInt y)) = Some (Some (x ?= y)).
Proof.
  intros h x y Hx Hy. unfold w_partial_cmp. rewrite !encode_int.
  rewrite (w_int_signed x (wf_int x Hx)), (w_int_signed y (wf_int y Hy)).
  rewrite compare_tagged. reflexivity.
Qed.

Ltac int_arith x y Hx Hy Rx Ry Hnh :=
  red_method; rewrite (w_arith_same _ _ _ _ _ _ Hx Hy eq_refl);
  unfold val_tag; rewrite !encode_int, (w_as_int_w_int x Rx), (w_as_int_w_int y Ry);
  unfold spec_int, checked; cbn [String.eqb Ascii.eqb Bool.eqb andb];
  rewrite ?Hnh; cbn [andb];
  try (destruct (y =? 0); [reflexivity|]); apply lift_ret.

Lemma binop_int : forall orc h o m x y, method_of o = Some m ->
  wf_val (VInt x) = true -> wf_val (VInt y) = true ->
  binop orc m h (VInt x) (VInt y) = lift_sres h (spec_int o x y).
Proof.
  intros orc h o m x y Hm Hx Hy.
  pose proof (wf_int x Hx) as Rx. pose proof (wf_int y Hy) as Ry.
  assert ((x =? - HALF) = false) as Hnh.
  { apply Z.eqb_neq. rewrite HALF_val. rewrite MIN_INT_val in Rx. lia. }
  method_cases o Hm m;
    first [ int_arith x y Hx Hy Rx Ry Hnh
          | by_cmp_same Hx Hy (int_eq_word h x y Hx Hy) (int_cmp_word h x y Hx Hy);
            unfold spec_int, cmp_holds, lift_sres; rewrite ?Z.eqb_compare;
            destruct (x ?= y); reflexivity
          | by_logical_other Hx Hy; reflexivity ].
Qed.

(** ** null, bool: finitely many operands, by computation *)

Lemma binop_null : forall orc h o m, method_of o = Some m ->
  binop orc m h VNull VNull = lift_sres h (spec_null o).
Proof. intros orc h o m Hm. method_cases o Hm m; vm_compute; reflexivity. Qed.

Lemma binop_bool : forall orc h o m x y, method_of o = Some m ->
  binop orc m h (VBool x) (VBool y) = lift_sres h (spec_bool o x y).
Proof.
  intros orc h o m x y Hm. method_cases o Hm m; destruct x; destruct y; vm_compute; reflexivity.
Qed.

(** ** functions *)

Lemma fun_eq_word : forall h i n j k, wf_val (VFun i n) = true -> wf_val (VFun j k) = true ->
  w_eq (deref_heap h) TFunction (encode (VFun i n)) (encode (VFun j k))
  = Some ((i =? j) && (n =? k)).
Proof.
  intros h i n j k Ha Hb.
  exact (eq_agrees h (VFun i n) (VFun j k) Ha Hb eq_refl ltac:(discriminate)).
Qed.

Lemma binop_fun : forall orc h o m i n j k, method_of o = Some m ->
  wf_val (VFun i n) = true -> wf_val (VFun j k) = true ->
  binop orc m h (VFun i n) (VFun j k) = lift_sres h (spec_fun o ((i =? j) && (n =? k))).
Proof.
  intros orc h o m i n j k Hm Ha Hb.
  method_cases o Hm m;
    first [ by_arith_other Ha Hb; reflexivity
          | by_cmp_eq_only Ha Hb (fun_eq_word h i n j k Ha Hb); reflexivity
          | by_cmp_reject Ha Hb; reflexivity
          | by_logical_other Ha Hb; reflexivity ].
Qed.

(** ** arrays *)

Lemma binop_arr : forall orc h o m l k, method_of o = Some m ->
  wf_val (VArr l) = true -> wf_val (VArr k) = true ->
  binop orc m h (VArr l) (VArr k) = Err ETypeError.
Proof.
  intros orc h o m l k Hm Ha Hb.
  method_cases o Hm m;
    first [ by_arith_other Ha Hb; reflexivity
          | by_cmp_reject Ha Hb; reflexivity
          | by_logical_other Ha Hb; reflexivity ].
Qed.

(** ** text *)

Lemma str_eq_word : forall h l k x y, wf_val (VStr l) = true -> wf_val (VStr k) = true ->
  h_get h l = Ok (OStr x) -> h_get h k = Ok (OStr y) ->
  w_eq (deref_heap h) TString (encode (VStr l)) (encode (VStr k)) = Some (text_eqb x y).
Proof.
  intros h l k x y Ha Hb Hl Hk.
  pose proof (eq_agrees h (VStr l) (VStr k) Ha Hb eq_refl ltac:(discriminate)) as E.
  unfold val_tag in E. rewrite E. unfold EqSpec.content_eq. rewrite Hl, Hk. reflexivity.
Qed.

Lemma str_cmp_word : forall h l k x y, wf_val (VStr l) = true -> wf_val (VStr k) = true ->
  h_get h l = Ok (OStr x) -> h_get h k = Ok (OStr y) ->
  w_partial_cmp (deref_heap h) TString (encode (VStr l)) (encode (VStr k))
  = Some (Some (text_cmp x y)).
Proof.
  intros h l k x y Ha Hb Hl Hk. unfold w_partial_cmp.
  rewrite (deref_heap_encode h (VStr l) l Ha eq_refl), (deref_heap_encode h (VStr k) k Hb eq_refl).
  rewrite Hl, Hk. reflexivity.
Qed.

Lemma binop_str : forall orc h o m l k x y, method_of o = Some m ->
  wf_val (VStr l) = true -> wf_val (VStr k) = true ->
  h_get h l = Ok (OStr x) -> h_get h k = Ok (OStr y) ->
  binop orc m h (VStr l) (VStr k) = lift_sres h (spec_text o x y).
Proof.
  intros orc h o m l k x y Hm Ha Hb Hl Hk.
  method_cases o Hm m;
    first [ by_arith_other Ha Hb; reflexivity
          | by_cmp_same Ha Hb (str_eq_word h l k x y Ha Hb Hl Hk) (str_cmp_word h l k x y Ha Hb Hl Hk);
            unfold spec_text, cmp_holds, lift_sres; rewrite ?text_eqb_lex, ?text_cmp_lex;
            destruct (lex_cmp x y); reflexivity
          | by_logical_other Ha Hb; reflexivity ].
Qed.

(** ** floats *)

(* Both the model (f64::partial_cmp) and the specification (f_lt, f_le, f_gt, f_ge) read the four
   ordering operators off the kernel's comparison primitive PrimFloat.compare. *)
Definition float_order_coherent_at (x y : float) : Prop :=
  f_lt x y = match PrimFloat.compare x y with FLt => true | _ => false end
  /\ f_le x y = match PrimFloat.compare x y with FLt | FEq => true | _ => false end
  /\ f_gt x y = match PrimFloat.compare x y with FGt => true | _ => false end
  /\ f_ge x y = match PrimFloat.compare x y with FGt | FEq => true | _ => false end.

Lemma float_order_coherent : forall x y, float_order_coherent_at x y.
Proof. intros x y. unfold float_order_coherent_at, f_lt, f_le, f_gt, f_ge. repeat split. Qed.

Definition is_order (o : operator) : bool :=
  match o with OpLt | OpLte | OpGt | OpGte => true | _ => false end.

Lemma float_eq_word : forall h l k x y, wf_val (VFloat l) = true -> wf_val (VFloat k) = true ->
  h_get h l = Ok (OFloat x) -> h_get h k = Ok (OFloat y) ->
  w_eq (deref_heap h) TFloat (encode (VFloat l)) (encode (VFloat k)) = Some (PrimFloat.eqb x y).
Proof.
  intros h l k x y Ha Hb Hl Hk.
  pose proof (eq_agrees h (VFloat l) (VFloat k) Ha Hb eq_refl ltac:(discriminate)) as E.
  unfold val_tag in E. rewrite E. unfold EqSpec.content_eq. rewrite Hl, Hk. reflexivity.
Qed.

Lemma float_cmp_word : forall h l k x y, wf_val (VFloat l) = true -> wf_val (VFloat k) = true ->
  h_get h l = Ok (OFloat x) -> h_get h k = Ok (OFloat y) ->
  w_partial_cmp (deref_heap h) TFloat (encode (VFloat l)) (encode (VFloat k))
  = Some (float_cmp x y).
Proof.
  intros h l k x y Ha Hb Hl Hk. unfold w_partial_cmp.
  rewrite (deref_heap_encode h (VFloat l) l Ha eq_refl), (deref_heap_encode h (VFloat k) k Hb eq_refl).
  rewrite Hl, Hk. reflexivity.
Qed.

Lemma binop_float : forall orc h o m l k x y, method_of o = Some m ->
  wf_val (VFloat l) = true -> wf_val (VFloat k) = true ->
  h_get h l = Ok (OFloat x) -> h_get h k = Ok (OFloat y) ->
  (is_order o = true -> float_order_coherent_at x y) ->
  binop orc m h (VFloat l) (VFloat k) = lift_sres h (spec_float (float_rem orc) o x y).
Proof.
  intros orc h o m l k x y Hm Ha Hb Hl Hk Hcoh.
  method_cases o Hm m;
    first [ red_method; rewrite (w_arith_same _ _ _ _ _ _ Ha Hb eq_refl); unfold val_tag;
            rewrite (deref_heap_encode h (VFloat l) l Ha eq_refl),
                    (deref_heap_encode h (VFloat k) k Hb eq_refl), Hl, Hk;
            reflexivity
          | by_cmp_same Ha Hb (float_eq_word h l k x y Ha Hb Hl Hk) (float_cmp_word h l k x y Ha Hb Hl Hk);
            unfold spec_float, lift_sres, float_cmp;
            first [ reflexivity
                  | destruct (Hcoh eq_refl) as (E1 & E2 & E3 & E4);
                    rewrite ?E1, ?E2, ?E3, ?E4; destruct (PrimFloat.compare x y); reflexivity ]
          | by_logical_other Ha Hb; reflexivity ].
Qed.

(** * 4. The theorems of props/C06.v *)

Ltac inv_sval H :=
  unfold sval_of in H;
  repeat match type of H with
         | context [h_get ?h ?l] =>
             let E := fresh "Hget" in
             destruct (h_get h l) as [[?|?|?]| | |] eqn:E; try discriminate H
         end;
  inversion H; subst; clear H.

(* ops_exact for all operand types and operators; the premise is used for (float, float)
   operands of the four ordering operators only *)
Lemma ops_exact_core : forall orc o c m h a b xa xb,
  assoc operator_eqb o compile_operator_table = Some c ->
  assoc opcode_eqb c binary_dispatch = Some m ->
  wf_val a = true -> wf_val b = true ->
  sval_of h a = Some xa -> sval_of h b = Some xb ->
  (forall x y, xa = XFloat x -> xb = XFloat y -> is_order o = true ->
               float_order_coherent_at x y) ->
  binop orc m h a b = lift_sres h (spec_binop (float_rem orc) o xa xb).
Proof.
  intros orc o c m h a b xa xb Hc Hd Ha Hb Hsa Hsb Hcoh.
  pose proof (chain_method o c m Hc Hd) as Hm. clear Hc Hd.
  destruct a as [|x|x|i n|l|l|l]; inv_sval Hsa;
    destruct b as [|y|y|j k|k|k|k]; inv_sval Hsb;
    try (rewrite (binop_mismatch orc h o m _ _ Hm Ha Hb ltac:(discriminate)); reflexivity).
  - exact (binop_null orc h o m Hm).
  - exact (binop_bool orc h o m x y Hm).
  - exact (binop_int orc h o m x y Hm Ha Hb).
  - exact (binop_fun orc h o m i n j k Hm Ha Hb).
  - match goal with
    | Hl : h_get h l = Ok (OFloat ?x), Hk : h_get h k = Ok (OFloat ?y) |- _ =>
        exact (binop_float orc h o m l k x y Hm Ha Hb Hl Hk (Hcoh x y eq_refl eq_refl))
    end.
  - match goal with
    | Hl : h_get h l = Ok (OStr ?x), Hk : h_get h k = Ok (OStr ?y) |- _ =>
        exact (binop_str orc h o m l k x y Hm Ha Hb Hl Hk)
    end.
  - rewrite (binop_arr orc h o m l k Hm Ha Hb). reflexivity.
Qed.

(* axiom-free form 1: everything except float operands of < <= > >= *)
Theorem ops_exact_except_float_order : forall orc o c m h a b xa xb,
  assoc operator_eqb o compile_operator_table = Some c ->
  assoc opcode_eqb c binary_dispatch = Some m ->
  wf_val a = true -> wf_val b = true ->
  sval_of h a = Some xa -> sval_of h b = Some xb ->
  ~ (val_tag a = TFloat /\ val_tag b = TFloat /\ is_order o = true) ->
  binop orc m h a b = lift_sres h (spec_binop (float_rem orc) o xa xb).
Proof.
  intros orc o c m h a b xa xb Hc Hd Ha Hb Hsa Hsb Hn.
  apply (ops_exact_core orc o c m h a b xa xb Hc Hd Ha Hb Hsa Hsb).
  intros x y Ea Eb Ho. exfalso. apply Hn. subst xa xb.
  split; [|split; [|exact Ho]].
  - destruct a; inv_sval Hsa; reflexivity.
  - destruct b; inv_sval Hsb; reflexivity.
Qed.

(* axiom-free form 2: the full statement, given that ltb/leb agree with compare *)
Theorem ops_exact_modulo_float_order :
  (forall x y, float_order_coherent_at x y) ->
  forall orc o c m h a b xa xb,
  assoc operator_eqb o compile_operator_table = Some c ->
  assoc opcode_eqb c binary_dispatch = Some m ->
  wf_val a = true -> wf_val b = true ->
  sval_of h a = Some xa -> sval_of h b = Some xb ->
  binop orc m h a b = lift_sres h (spec_binop (float_rem orc) o xa xb).
Proof.
  intros Hall orc o c m h a b xa xb Hc Hd Ha Hb Hsa Hsb.
  apply (ops_exact_core orc o c m h a b xa xb Hc Hd Ha Hb Hsa Hsb).
  intros x y _ _ _. apply Hall.
Qed.

Theorem ops_exact : forall orc o c m h a b xa xb,
  assoc operator_eqb o compile_operator_table = Some c ->
  assoc opcode_eqb c binary_dispatch = Some m ->
  wf_val a = true -> wf_val b = true ->
  sval_of h a = Some xa -> sval_of h b = Some xb ->
  binop orc m h a b = lift_sres h (spec_binop (float_rem orc) o xa xb).
Proof. exact (ops_exact_modulo_float_order float_order_coherent). Qed.

Theorem ops_chain_total : forall o,
  In o [OpAdd; OpSubtract; OpMultiply; OpDivide; OpModulo; OpLt; OpLte; OpGt; OpGte; OpEq; OpNeq; OpAnd; OpOr] ->
  exists c m, assoc operator_eqb o compile_operator_table = Some c
              /\ assoc opcode_eqb c binary_dispatch = Some m.
Proof.
  intros o H. simpl in H.
  repeat (destruct H as [H|H]; [subst o; eexists; eexists; split; reflexivity|]).
  contradiction.
Qed.

Theorem int_ops_exact : forall orc o c m h a b,
  assoc operator_eqb o compile_operator_table = Some c ->
  assoc opcode_eqb c binary_dispatch = Some m ->
  MIN_INT <= a <= MAX_INT -> MIN_INT <= b <= MAX_INT ->
  binop orc m h (VInt a) (VInt b) = lift_sres h (spec_int o a b).
Proof.
  intros orc o c m h a b Hc Hd Ra Rb.
  apply (binop_int orc h o m a b (chain_method o c m Hc Hd)); apply in_int_range_iff; assumption.
Qed.

Theorem int_order_agrees : forall orc h a b,
  MIN_INT <= a <= MAX_INT -> MIN_INT <= b <= MAX_INT ->
  binop orc "lt" h (VInt a) (VInt b) = Ok (VBool (a <? b), h)
  /\ binop orc "lte" h (VInt a) (VInt b) = Ok (VBool (a <=? b), h)
  /\ binop orc "gt" h (VInt a) (VInt b) = Ok (VBool (b <? a), h)
  /\ binop orc "gte" h (VInt a) (VInt b) = Ok (VBool (b <=? a), h)
  /\ binop orc "eq" h (VInt a) (VInt b) = Ok (VBool (a =? b), h)
  /\ binop orc "neq" h (VInt a) (VInt b) = Ok (VBool (negb (a =? b)), h).
Proof.
  intros orc h a b Ra Rb.
  assert (wf_val (VInt a) = true) as Ha by (apply in_int_range_iff; exact Ra).
  assert (wf_val (VInt b) = true) as Hb by (apply in_int_range_iff; exact Rb).
  rewrite (binop_int orc h OpLt "lt" a b eq_refl Ha Hb).
  rewrite (binop_int orc h OpLte "lte" a b eq_refl Ha Hb).
  rewrite (binop_int orc h OpGt "gt" a b eq_refl Ha Hb).
  rewrite (binop_int orc h OpGte "gte" a b eq_refl Ha Hb).
  rewrite (binop_int orc h OpEq "eq" a b eq_refl Ha Hb).
  rewrite (binop_int orc h OpNeq "neq" a b eq_refl Ha Hb).
  unfold spec_int, cmp_holds, lift_sres, Z.ltb, Z.leb.
  rewrite (Z.compare_antisym a b), (Z.eqb_compare a b).
  destruct (a ?= b); repeat split; reflexivity.
Qed.

Theorem negate_exact : forall h z, MIN_INT <= z <= MAX_INT ->
  negate h (VInt z) = if in_int_range (- z) then Ok (VInt (- z), h) else Err ETypeError.
Proof.
  intros h z Rz. unfold negate.
  assert (fits_isize (- z) = true) as ->.
  { apply fits_isize_iff. rewrite HALF_val. rewrite MIN_INT_val, MAX_INT_val in Rz. lia. }
  unfold checked_int. destruct (in_int_range (- z)) eqn:Hr; [|reflexivity].
  rewrite <- encode_int. rewrite (decode_encode (VInt (- z)) Hr). reflexivity.
Qed.

Theorem fused_same_method : forall o c1 c2 m1,
  assoc operator_eqb o compile_operator_table = Some c1 ->
  assoc operator_eqb o fused_table = Some c2 ->
  assoc opcode_eqb c1 binary_dispatch = Some m1 ->
  assoc opcode_eqb c2 fused_dispatch = Some m1.
Proof.
  intros o c1 c2 m1 H1 H2 H3.
  destruct o; vm_compute in H1; vm_compute in H2; try discriminate H1; try discriminate H2;
    inversion H1; subst c1; inversion H2; subst c2; vm_compute in H3; inversion H3; subst m1;
    reflexivity.
Qed.

Theorem mirror_sound : forall frem o o' c b,
  assoc operator_eqb o mirror_table = Some o' ->
  spec_binop frem o (XInt c) b = spec_binop frem o' b (XInt c).
Proof.
  intros frem o o' c b H.
  destruct o; vm_compute in H; try discriminate H; inversion H; subst o'; clear H;
    destruct b as [|y|y|i n|y|y|]; try reflexivity;
    unfold spec_binop, spec_int, cmp_holds;
    first [ rewrite (Z.add_comm c y); reflexivity
          | rewrite (Z.mul_comm c y); reflexivity
          | rewrite (Z.compare_antisym c y); destruct (c ?= y); reflexivity ].
Qed.
