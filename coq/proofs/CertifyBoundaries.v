(* CertifyBoundaries.v - corollaries of CertifyProofsC.compile_certifies_explicit about the LAYOUT of
   compiled code (what CompilerTotal.v lists as "jump_targets_in_code"):
   - `boundaries code`: the instruction start offsets obtained by decoding the code from offset 0 with the
     operand widths of gen/Tables.v;
   - compile_decodes: compiled code decodes completely (the last boundary's instruction ends exactly at
     the end of the code);
   - jump_targets_in_code: in compiled code the operand of every OJump / OJumpIfFalse (after all patches)
     is itself an instruction boundary, and is < 2^16;
   - compile_bytes: every element of the compiled code is a byte. *)
From Coq Require Import ZArith Lia Bool List.
From NL.Model Require Import Compiler VM Pipeline.
From NL.Spec Require Import Verify Printer.
From NL.Proofs Require Import AstInduction.
From NL.Proofs Require VerifyProofs.
From NL.Proofs Require Import CompilerTotal CertifyBase CertifyProofs CertifyProofsC.
Import ListNotations.
Open Scope Z_scope.

(** * 1. Boundaries *)

Fixpoint scan (fuel : nat) (code : list Z) (pc : Z) : list Z :=
  match fuel with
  | O => []
  | S f => match instr_width code pc with
           | Some w => pc :: scan f code (pc + w)
           | None => []
           end
  end.

(* every instruction has at least one byte: length code iterations suffice *)
Definition boundaries (code : list Z) : list Z := scan (length code) code 0.

Lemma instr_width_end : forall code, instr_width code (zlength code) = None.
Proof.
  intros code. unfold instr_width, fbyte, zlength.
  replace (Z.of_nat (length code) <? 0) with false by (symmetry; apply Z.ltb_ge; lia).
  rewrite Nat2Z.id. replace (nth_error code (length code)) with (@None Z); [reflexivity|].
  symmetry. apply nth_error_None. lia.
Qed.

Lemma scan_tiling : forall code a C, contig a C (zlength code) ->
  (forall x, In x C -> instr_width code (e_pc x) = Some (e_w x)) ->
  forall fuel, (length C <= fuel)%nat -> scan fuel code a = map e_pc C.
Proof.
  intros code a C H. remember (zlength code) as b eqn:Eb. induction H as [a|a w m h C b Hw Hc IH]; intros HW fuel Lf.
  - destruct fuel as [|f]; [reflexivity|]. cbn [scan map]. subst a. rewrite instr_width_end. reflexivity.
  - destruct fuel as [|f]; [cbn [length] in Lf; lia|]. cbn [scan map].
    pose proof (HW (a, w, m, h) (or_introl eq_refl)) as X. cbn [e_pc e_w fst snd] in X. rewrite X. cbn [e_pc fst].
    f_equal. apply IH; [exact Eb|intros x Hx; apply HW; right; exact Hx|cbn [length] in Lf; lia].
Qed.

Lemma contig_length : forall a C b, contig a C b -> Z.of_nat (length C) <= b - a.
Proof. induction 1; cbn [length]; lia. Qed.

Lemma boundaries_tiling : forall code C, contig 0 C (zlength code) ->
  (forall x, In x C -> instr_width code (e_pc x) = Some (e_w x)) -> boundaries code = map e_pc C.
Proof.
  intros code C Hc HW. unfold boundaries. apply scan_tiling; [exact Hc|exact HW|].
  pose proof (contig_length _ _ _ Hc) as L. unfold zlength in L. lia.
Qed.

(** * 2. Compiled code: boundaries and jump targets *)

Lemma cert_of_lookup_inv : forall a C b pc e, contig a C b -> 0 <= a -> lookup (cert_of C) pc = Some e ->
  exists x, In x C /\ e_pc x = pc.
Proof.
  intros a C b pc e Hc A0 H. unfold lookup in H. destruct (pc <? 0) eqn:E; [discriminate H|]. apply Z.ltb_ge in E.
  unfold cert_of in H. apply cert_of_find_inv in H. destruct H as [H|(x & Hx & Hk & _)].
  - rewrite PM.gempty in H. discriminate H.
  - exists x. split; [exact Hx|]. pose proof (contig_range _ _ _ _ Hc Hx). unfold key in Hk. lia.
Qed.

Theorem compile_decodes : forall b bc, wf_tree b = true -> compile b = Ok bc ->
  exists C, contig 0 C (zlength (b_code bc)) /\ boundaries (b_code bc) = map e_pc C /\
            forall x, In x C -> instr_width (b_code bc) (e_pc x) = Some (e_w x).
Proof.
  intros b bc W H. destruct (compile_certifies_explicit b bc W H) as (C & Hc & HW & Hk).
  exists C. split; [exact Hc|]. split; [|exact HW]. apply boundaries_tiling; [exact Hc|exact HW].
Qed.

Definition is_jump (bt : Z) : Prop := bt = byte_of_opcode OJump \/ bt = byte_of_opcode OJumpIfFalse.

Theorem jump_targets_are_boundaries : forall b bc, wf_tree b = true -> compile b = Ok bc ->
  forall pc bt, In pc (boundaries (b_code bc)) -> fbyte (b_code bc) pc = Some bt -> is_jump bt ->
  exists t, rd16 (fbyte (b_code bc)) (pc + 1) = Some t /\ In t (boundaries (b_code bc)).
Proof.
  intros b bc W H pc bt Hin Hb Hj. destruct (compile_certifies_explicit b bc W H) as (C & Hc & HW & Hk).
  rewrite (boundaries_tiling _ C Hc HW) in *. apply in_map_iff in Hin. destruct Hin as (x & <- & Hx).
  set (p := mkProgram (b_code bc) (fst (load_consts (b_constants bc) empty_heap))) in *.
  pose proof (VerifyProofs.check_at p (cert_of C) (e_pc x) _ Hk (cert_of_lookup _ _ _ _ Hc ltac:(lia) Hx)) as X.
  unfold check_instr in X.
  change (VM.byte_at p) with (fbyte (b_code bc)) in X. cbn [p p_code p_consts] in X.
  destruct (instr_succs (fbyte (b_code bc)) (zlength (b_code bc)) (fst (load_consts (b_constants bc) empty_heap))
              (e_pc x) (e_m x) (e_h x)) as [l|] eqn:E; [|discriminate X].
  rewrite forallb_forall in X. unfold instr_succs in E. rewrite Hb in E.
  assert (T : forall t h', In (t, h') l -> exists y, In y C /\ e_pc y = t).
  { intros t h' Ht. specialize (X _ Ht). cbv beta iota in X. unfold succ_ok in X.
    destruct (lookup (cert_of C) t) as [e|] eqn:El; [|discriminate X].
    exact (cert_of_lookup_inv _ _ _ _ _ Hc ltac:(lia) El). }
  destruct Hj as [-> | ->]; rewrite opcode_of_byte_of_opcode in E;
    destruct (negb (e_pc x + 1 + _ <=? zlength (b_code bc))); try discriminate E;
    destruct (rd16 (fbyte (b_code bc)) (e_pc x + 1)) as [pos|] eqn:Er; try discriminate E.
  - injection E as <-. exists pos. split; [reflexivity|]. destruct (T pos _ (or_introl eq_refl)) as (y & Hy & <-).
    apply in_map. exact Hy.
  - unfold guard in E. destruct (1 <=? e_h x); [|discriminate E]. injection E as <-.
    exists pos. split; [reflexivity|]. destruct (T pos _ (or_intror (or_introl eq_refl))) as (y & Hy & <-).
    apply in_map. exact Hy.
Qed.

(** * 3. The code buffer holds bytes *)

Definition isbyte (b : Z) : Prop := 0 <= b < 256.
Definition bytes_ok (st : cstate) : Prop := Forall isbyte (c_code st).

Lemma isbyte_opcode : forall op, isbyte (byte_of_opcode op).
Proof. intros op. unfold isbyte. destruct op; vm_compute; split; congruence. Qed.
Lemma isbyte_builtin : forall b, isbyte (byte_of_builtin b).
Proof. intros b. unfold isbyte. destruct b; vm_compute; split; congruence. Qed.
Lemma isbyte_mod : forall v, isbyte (v mod 256).
Proof. intros v. unfold isbyte. apply Z.mod_pos_bound. lia. Qed.

Lemma bo_same : forall st st', c_code st' = c_code st -> bytes_ok st -> bytes_ok st'.
Proof. intros st st' E H. unfold bytes_ok. rewrite E. exact H. Qed.

Lemma bo_app : forall st st' l, app_of st st' l -> Forall isbyte l -> bytes_ok st -> bytes_ok st'.
Proof. intros st st' l [E _] Hl H. unfold bytes_ok. rewrite E. apply Forall_app. split; assumption. Qed.

Lemma bo_emit1 : forall op st, bytes_ok st -> bytes_ok (emit_opcode op st).
Proof. intros op st H. eapply bo_app; [apply app_emit_opcode| |exact H]. apply Forall_cons; [apply isbyte_opcode|apply Forall_nil]. Qed.

Lemma bo_emit3 : forall op v st, bytes_ok st -> bytes_ok (emit_u16 v (emit_opcode op st)).
Proof.
  intros op v st H. eapply bo_app; [apply app_emit3| |exact H].
  repeat (apply Forall_cons || apply Forall_nil); [apply isbyte_opcode|apply isbyte_mod|apply isbyte_mod].
Qed.

Lemma bo_emit_u16 : forall v st, bytes_ok st -> bytes_ok (emit_u16 v st).
Proof. intros v st H. eapply bo_app; [apply app_emit_u16| |exact H]. repeat (apply Forall_cons || apply Forall_nil); apply isbyte_mod. Qed.

Lemma bo_emit_u8 : forall v st, isbyte v -> bytes_ok st -> bytes_ok (emit_u8 v st).
Proof. intros v st Hv H. eapply bo_app; [apply app_emit_u8| |exact H]. apply Forall_cons; [exact Hv|apply Forall_nil]. Qed.

Lemma bo_emit_const : forall k st st', emit_const k st = Ok st' -> bytes_ok st -> bytes_ok st'.
Proof.
  intros k st st' H B. unfold emit_const in H. pose proof (add_constant_same k st) as (E & _).
  destruct (add_constant k st) as [st1 r]. cbn [fst] in E. bok H idx Hi. injection H as <-.
  apply bo_emit3. exact (bo_same _ _ E B).
Qed.

Lemma bo_emit_sym : forall op s st st', emit_sym op s st = Ok st' -> bytes_ok st -> bytes_ok st'.
Proof. intros op s st st' H B. unfold emit_sym in H. bok H idx Hi. injection H as <-. apply bo_emit3. exact B. Qed.

Lemma bo_patch : forall pos v st st', change_jump_operand_at pos v st = Ok st' -> bytes_ok st -> bytes_ok st'.
Proof.
  intros pos v st st' H B. unfold change_jump_operand_at in H.
  destruct (nth_error (c_code st) (Z.to_nat pos)) as [b|]; [|discriminate H].
  destruct ((b =? byte_of_opcode OJump) || (b =? byte_of_opcode OJumpIfFalse)); [|discriminate H].
  injection H as <-. unfold bytes_ok. cbn [c_code].
  apply VerifyProofs.replace_nth_Forall; [apply isbyte_mod|]. apply VerifyProofs.replace_nth_Forall; [apply isbyte_mod|exact B].
Qed.

Lemma Forall_removelast : forall A (P : A -> Prop) l, Forall P l -> Forall P (removelast l).
Proof.
  intros A P l H. induction H as [|x l Hx H IH]; [constructor|]. cbn [removelast]. destruct l; [constructor|].
  constructor; assumption.
Qed.

Lemma bo_remove_last : forall st, bytes_ok st -> bytes_ok (remove_last_instruction st).
Proof. intros st H. unfold bytes_ok. cbn [remove_last_instruction c_code]. apply Forall_removelast. exact H. Qed.

Lemma bo_fold_patch : forall bs s s', fold_left patch_step bs (Ok s) = Ok s' -> bytes_ok s -> bytes_ok s'.
Proof.
  induction bs as [|q bs IH]; intros s s' H B; cbn [fold_left] in H.
  - injection H as <-. exact B.
  - destruct (patch_step (Ok s) q) as [s1| | |] eqn:E.
    + apply (IH _ _ H). unfold patch_step in E. cbn [bind] in E. bok E tg Ht. exact (bo_patch _ _ _ _ E B).
    + rewrite fold_patch_err in H. discriminate H.
    + exfalso. clear - H. induction bs as [|x bs IHb]; cbn [fold_left] in H; [discriminate H|]. apply IHb. exact H.
    + exfalso. clear - H. induction bs as [|x bs IHb]; cbn [fold_left] in H; [discriminate H|]. apply IHb. exact H.
Qed.

Definition Be (e : expr) : Prop := forall st st', compile_expression e st = Ok st' -> bytes_ok st -> bytes_ok st'.
Definition Bs (s : stmt) : Prop := forall st st', compile_statement s st = Ok st' -> bytes_ok st -> bytes_ok st'.
Definition Bsub (e : expr) : Prop := match e with EIndex a b => Be a /\ Be b | _ => True end.

Lemma bo_stmts : forall b, Forall Bs b -> forall st st', compile_statements b st = Ok st' -> bytes_ok st -> bytes_ok st'.
Proof.
  induction 1 as [|s b Hs _ IH]; intros st st' H B; cbn [compile_statements] in H.
  - injection H as <-. exact B.
  - bok H st1 H1. exact (IH _ _ H (Hs _ _ H1 B)).
Qed.

Lemma bo_exprs : forall l, Forall (fun e => Be e /\ Bsub e) l -> forall st st', compile_exprs l st = Ok st' ->
  bytes_ok st -> bytes_ok st'.
Proof.
  induction 1 as [|e l [He _] _ IH]; intros st st' H B; cbn [compile_exprs] in H.
  - injection H as <-. exact B.
  - bok H st1 H1. exact (IH _ _ H (He _ _ H1 B)).
Qed.

Lemma bo_block_statement : forall b, Forall Bs b -> forall st st', block_statement b st = Ok st' ->
  bytes_ok st -> bytes_ok st'.
Proof.
  intros b Hb st st' H B. unfold block_statement in H. destruct (is_nil b).
  - injection H as <-. apply bo_emit1. exact B.
  - bok H st1 H1. injection H as <-. exact (bo_stmts b Hb _ _ H1 B).
Qed.

Lemma bo_block_value : forall b, Forall Bs b -> forall st st', block_value b st = Ok st' ->
  bytes_ok st -> bytes_ok st'.
Proof.
  intros b Hb st st' H B. unfold block_value in H. bok H st1 H1. pose proof (bo_block_statement b Hb _ _ H1 B) as B1.
  destruct (is_nil b); [injection H as <-; exact B1|].
  destruct (last_instruction_is OPop st1); injection H as <-; [apply bo_remove_last|apply bo_emit1]; exact B1.
Qed.

Theorem compile_bytes_all : (forall e, Be e /\ Bsub e) /\ (forall s, Bs s).
Proof.
  apply expr_stmt_ind.
  - intros l o r [Hl _] [Hr _]. split; [|exact I]. intros st st' H B. rewrite ce_infix in H.
    assert (Gen : forall s0, bytes_ok s0 -> generic_infix l o r s0 = Ok st' -> bytes_ok st').
    { intros s0 B0 HG. unfold generic_infix in HG. bok HG st1 H1. bok HG st2 H2.
      destruct (assoc operator_eqb o compile_operator_table); [|discriminate HG]. injection HG as <-.
      apply bo_emit1. exact (Hr _ _ H2 (Hl _ _ H1 B0)). }
    destruct (fused_candidate l r o) as [[[name v] op']|]; [|exact (Gen st B H)].
    assert (Bc : bytes_ok (fst (compile_const_var_infix name v op' st))).
    { unfold compile_const_var_infix. pose proof (add_constant_same (KInt v) st) as (E & _).
      destruct (add_constant (KInt v) st) as [st1 rr]. cbn [fst] in E. pose proof (bo_same _ _ E B) as B1.
      destruct rr; cbn [fst]; try exact B1. destruct (resolve (c_symbols st1) name) as [s|]; [|exact B1].
      destruct (s_scope s); [|exact B1]. destruct (assoc operator_eqb op' fused_table); [|exact B1].
      destruct (operand 16 (Z.of_nat (s_index s))); cbn [fst];
        [apply bo_emit_u16, bo_emit3; exact B1|apply bo_emit1; exact B1..]. }
    destruct (compile_const_var_infix name v op' st) as [st1 done]. cbn [fst] in Bc.
    destruct done; [injection H as <-; exact Bc|exact (Gen st1 Bc H)].
  - intros o r [Hr _]. split; [|exact I]. intros st st' H B. rewrite ce_prefix in H. bok H st1 H1.
    pose proof (Hr _ _ H1 B) as B1. destruct o; try discriminate H; injection H as <-; apply bo_emit1; exact B1.
  - intros z. split; [|exact I]. intros st st' H B. rewrite ce_int in H. exact (bo_emit_const _ _ _ H B).
  - intros x. split; [|exact I]. intros st st' H B. rewrite ce_float in H. exact (bo_emit_const _ _ _ H B).
  - intros b. split; [|exact I]. intros st st' H B. rewrite ce_bool in H. injection H as <-. apply bo_emit1. exact B.
  - intros c t alt [Hc _] Ht Ha. split; [|exact I]. intros st st' H B. rewrite ce_if in H.
    bok H st1 H1. bok H st3 H3. bok H tg Htg. bok H st5 H5. bok H st6 H6. bok H tg2 Htg2.
    pose proof (Hc _ _ H1 B) as B1.
    pose proof (bo_block_value t Ht _ _ H3 (bo_emit3 OJumpIfFalse JUMP_PLACEHOLDER st1 B1)) as B3.
    pose proof (bo_patch _ _ _ _ H5 (bo_emit3 OJump JUMP_PLACEHOLDER st3 B3)) as B5.
    assert (B6 : bytes_ok st6).
    { destruct alt as [b|]; [exact (bo_block_value b Ha _ _ H6 B5)|injection H6 as <-; apply bo_emit1; exact B5]. }
    exact (bo_patch _ _ _ _ H B6).
  - intros x. split; [|exact I]. intros st st' H B. rewrite ce_ident in H.
    destruct (resolve (c_symbols st) x); [|discriminate H]. exact (bo_emit_sym _ _ _ _ H B).
  - intros name params body Hb. split; [|exact I]. intros st st' H B. rewrite ce_function in H.
    destruct (fun_enter_same name st) as (E1 & _). destruct (fun_enter name st) as [st1 sym]. cbn [fst] in E1.
    cbv beta iota zeta in H. bok H st4 H4. bok H tg Htg. bok H st7 H7.
    pose proof (bo_emit3 OJump JUMP_PLACEHOLDER st1 (bo_same _ _ E1 B)) as B2. fold (jump_ph OJump st1) in B2.
    pose proof (bo_block_statement body Hb _ _ H4 B2) as B4.
    assert (B6 : forall s5, c_code s5 = c_code st4 -> bytes_ok (fun_finish s5)).
    { intros s5 E5. pose proof (bo_same _ _ E5 B4) as B5. unfold fun_finish.
      destruct (last_instruction_is OPop s5); [apply bo_emit1, bo_remove_last; exact B5|].
      destruct (last_instruction_is OReturnValue s5); [exact B5|apply bo_emit1; exact B5]. }
    pose proof (bo_patch _ _ _ _ H7 (B6 (set_loops st4 _) eq_refl)) as B7.
    unfold fun_tail in H. destruct (leave_context (c_symbols st7)) as [t8 nl0]. bok H ip Hip. bok H nl Hnl.
    pose proof (add_constant_same (KFun ip nl) (set_symbols st7 t8)) as (E9 & _).
    destruct (add_constant (KFun ip nl) (set_symbols st7 t8)) as [st9 rr]. cbn [fst] in E9. bok H idx Hidx.
    pose proof (bo_emit3 OConst idx st9 (bo_same _ _ E9 B7)) as B10.
    destruct sym as [sy|].
    + bok H st11 H11. injection H as <-. apply bo_emit3. exact (bo_emit_sym _ _ _ _ H11 B10).
    + injection H as <-. exact B10.
  - intros f args [Hf _] Ha. split; [|exact I]. intros st st' H B. rewrite ce_call in H. bok H st1 H1.
    pose proof (bo_exprs args Ha _ _ H1 B) as B1.
    destruct (match f with EIdent name => assoc_text name builtin_names | _ => None end) as [b|].
    + bok H n Hn. injection H as <-. apply operand_ok in Hn. destruct Hn as [-> Ln].
      apply bo_emit_u8; [unfold isbyte, zlength; change (2 ^ 8) with 256 in Ln; unfold zlength in Ln; lia|].
      apply bo_emit_u8; [apply isbyte_builtin|]. apply bo_emit1. exact B1.
    + bok H st2 H2. bok H n Hn. injection H as <-. apply operand_ok in Hn. destruct Hn as [-> Ln].
      apply bo_emit_u8; [unfold isbyte, zlength; change (2 ^ 8) with 256 in Ln; unfold zlength in Ln; lia|].
      apply bo_emit1. exact (Hf _ _ H2 B1).
  - intros l r [Hl Sl] [Hr _]. split; [|exact I]. intros st st' H B. destruct l; try discriminate H.
    + rewrite ce_assign_ident in H. destruct (resolve (c_symbols st) s); [|discriminate H].
      bok H st1 H1. bok H st2 H2. exact (bo_emit_sym _ _ _ _ H (bo_emit_sym _ _ _ _ H2 (Hr _ _ H1 B))).
    + destruct Sl as [Ha Hi]. rewrite ce_assign_index in H. bok H st1 H1. bok H st2 H2. bok H st3 H3. injection H as <-.
      apply bo_emit1. exact (Hr _ _ H3 (Hi _ _ H2 (Ha _ _ H1 B))).
  - intros s. split; [|exact I]. intros st st' H B. rewrite ce_string in H. exact (bo_emit_const _ _ _ H B).
  - intros vs Hv. split; [|exact I]. intros st st' H B. rewrite ce_array in H. bok H st1 H1. bok H n Hn.
    injection H as <-. apply bo_emit3. exact (bo_exprs vs Hv _ _ H1 B).
  - intros b i [Hb _] [Hi _]. split; [|split; assumption]. intros st st' H B. rewrite ce_index in H.
    bok H st1 H1. bok H st2 H2. injection H as <-. apply bo_emit1. exact (Hi _ _ H2 (Hb _ _ H1 B)).
  - intros c b [Hc _] Hb. split; [|exact I]. intros st st' H B. rewrite ce_while in H.
    bok H st3 H3. bok H st5 H5. bok H back Hback. bok H tg Htg. bok H st8 H8.
    assert (B2 : bytes_ok (while_enter st)) by (apply (bo_same (emit_opcode ONull st)); [reflexivity|apply bo_emit1; exact B]).
    pose proof (Hc _ _ H3 B2) as B3.
    pose proof (bo_block_value b Hb _ _ H5 (bo_emit1 OPop _ (bo_emit3 OJumpIfFalse JUMP_PLACEHOLDER st3 B3))) as B5.
    pose proof (bo_patch _ _ _ _ H8 (bo_emit3 OJump back st5 B5)) as B8.
    unfold while_exit in H. destruct (rev (c_loops st8)) as [|ctx rest]; [discriminate H|].
    exact (bo_fold_patch _ _ _ H (bo_same st8 _ eq_refl B8)).
  - intros n e [He _] st st' H B. rewrite cs_let in H. destruct (define (c_symbols st) n) as [t sym]. bok H st1 H1.
    exact (bo_emit_sym _ _ _ _ H (He _ _ H1 (bo_same st _ eq_refl B))).
  - intros e [He _] st st' H B. rewrite cs_return in H. destruct (in_global_context (c_symbols st)); [discriminate H|].
    bok H st1 H1. injection H as <-. apply bo_emit1. exact (He _ _ H1 B).
  - intros e [He _] st st' H B. rewrite cs_expr in H. bok H st1 H1. injection H as <-. apply bo_emit1. exact (He _ _ H1 B).
  - intros b Hb st st' H B. rewrite cs_block in H. destruct (is_nil b).
    + injection H as <-. apply bo_emit1, bo_emit1. exact B.
    + bok H st1 H1. injection H as <-. exact (bo_stmts b Hb _ _ H1 (bo_same st _ eq_refl B)).
  - intros st st' H B. rewrite cs_break in H. cbv zeta in H. destruct (rev (c_loops st)); [discriminate H|].
    injection H as <-. apply (bo_same (jump_ph OJump (emit_opcode ONull st))); [reflexivity|].
    apply bo_emit3, bo_emit1. exact B.
  - intros st st' H B. rewrite cs_continue in H. destruct (rev (c_loops st)); [discriminate H|].
    bok H pos Hp. injection H as <-. apply bo_emit3, bo_emit1. exact B.
Qed.

Theorem compile_bytes : forall b bc, compile b = Ok bc -> Forall isbyte (b_code bc).
Proof.
  intros b bc H. unfold compile, compile_ast in H.
  destruct (compile_statements b compiler_new) as [st1| | |] eqn:E; cbn [snd] in H; try discriminate H.
  injection H as <-. cbn [b_code].
  assert (B1 : bytes_ok st1).
  { apply (bo_stmts b (proj2 (Forall_forall _ _) (fun s _ => proj2 compile_bytes_all s)) _ _ E). constructor. }
  exact (bo_emit1 OHalt st1 B1).
Qed.

(** * 4. jump_targets_in_code *)

Lemma fbyte_isbyte : forall code i b, Forall isbyte code -> fbyte code i = Some b -> isbyte b.
Proof.
  intros code i b H E. unfold fbyte in E. destruct (i <? 0); [discriminate E|].
  rewrite Forall_forall in H. apply H. eapply nth_error_In. exact E.
Qed.

Theorem jump_targets_in_code : forall b bc, wf_tree b = true -> compile b = Ok bc ->
  forall pc bt, In pc (boundaries (b_code bc)) -> fbyte (b_code bc) pc = Some bt -> is_jump bt ->
  exists t, rd16 (fbyte (b_code bc)) (pc + 1) = Some t /\ In t (boundaries (b_code bc)) /\ 0 <= t < 2 ^ 16.
Proof.
  intros b bc W H pc bt Hin Hb Hj.
  destruct (jump_targets_are_boundaries b bc W H pc bt Hin Hb Hj) as (t & Ht & Hi). exists t.
  split; [exact Ht|]. split; [exact Hi|]. pose proof (compile_bytes b bc H) as B. unfold rd16 in Ht.
  destruct (fbyte (b_code bc) (pc + 1)) as [lo|] eqn:E1; [|discriminate Ht].
  destruct (fbyte (b_code bc) (pc + 1 + 1)) as [hi|] eqn:E2; [|discriminate Ht].
  assert (Et : t = lo + 256 * hi) by congruence.
  pose proof (fbyte_isbyte _ _ _ B E1) as X1. pose proof (fbyte_isbyte _ _ _ B E2) as X2. unfold isbyte in X1, X2.
  change (2 ^ 16) with 65536. lia.
Qed.

(* non-vacuity: the example program of CompilerTotal has 19 jumps at boundaries *)
Module CBExamples.
  Import CTExamples.
  Definition code : list Z :=
    match front u0 orc_some (str_cps prog) with Ok bc => b_code bc | _ => [] end.
  Example ex_boundaries : Nat.ltb 50 (length (boundaries code)) = true /\
    Nat.ltb 5 (length (filter (fun pc => match fbyte code pc with
                                         | Some bt => (bt =? byte_of_opcode OJump) || (bt =? byte_of_opcode OJumpIfFalse)
                                         | None => false end) (boundaries code))) = true.
  Proof. split; vm_compute; reflexivity. Qed.
End CBExamples.

Print Assumptions compile_decodes.
Print Assumptions jump_targets_in_code.
Print Assumptions compile_bytes.
