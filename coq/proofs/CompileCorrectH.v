(* CompileCorrectH.v - compiler correctness for the fragment F3 (FUNCTIONS), part H:
   the function literals of a program.

   Part G relates Sem's closures to the evaluator's table entries under two hypotheses on the set
   `Sall` of entries that may ever be created: the entries of a literal's body are again in the set
   (`Sclosed`) and two entries with the same entry point are the same entry (`Suniq`).  Here both are
   proved for the set of the literals that occur in a compiled program (`occ_l p compiler_new`): the
   entry point of a literal lies strictly inside the code range of every construct around it and
   the ranges of sibling constructs do not overlap. *)
From Coq Require Import ZArith Lia Bool List String.
From NL.Model Require Import VM.
From NL.Spec Require Import Sem Fragment Fragment2 Fragment3 ArithSpec.
From NL.Spec Require ScopeSpec.
From NL.Proofs Require VMStepProofs CompilerNames SymbolsProofs PoolProofs.
From NL.Proofs Require Import WordProofs OpsProofs AstInduction ControlProofs
  CompileCorrectA CompileCorrectB CompileCorrectC CompileCorrectD CompileCorrectE CompileCorrectF CompileCorrectG.
Open Scope Z_scope.

Scheme occ_e_ind2 := Induction for occ_e Sort Prop
  with occ_es_ind2 := Induction for occ_es Sort Prop
  with occ_blk_ind2 := Induction for occ_blk Sort Prop
  with occ_l_ind2 := Induction for occ_l Sort Prop
  with occ_s_ind2 := Induction for occ_s Sort Prop.
Combined Scheme occ_mutind from occ_e_ind2, occ_es_ind2, occ_blk_ind2, occ_l_ind2, occ_s_ind2.

(** * The literals inside a literal of the program are literals of the program *)

Lemma occ_closed :
  (forall e st fe, occ_e e st fe -> forall fe', occ_blk (fe_body fe) (fe_st fe) fe' -> occ_e e st fe') /\
  (forall l st fe, occ_es l st fe -> forall fe', occ_blk (fe_body fe) (fe_st fe) fe' -> occ_es l st fe') /\
  (forall b st fe, occ_blk b st fe -> forall fe', occ_blk (fe_body fe) (fe_st fe) fe' -> occ_blk b st fe') /\
  (forall l st fe, occ_l l st fe -> forall fe', occ_blk (fe_body fe) (fe_st fe) fe' -> occ_l l st fe') /\
  (forall s st fe, occ_s s st fe -> forall fe', occ_blk (fe_body fe) (fe_st fe) fe' -> occ_s s st fe').
Proof.
  apply (occ_mutind
    (fun e st fe _ => forall fe', occ_blk (fe_body fe) (fe_st fe) fe' -> occ_e e st fe')
    (fun l st fe _ => forall fe', occ_blk (fe_body fe) (fe_st fe) fe' -> occ_es l st fe')
    (fun b st fe _ => forall fe', occ_blk (fe_body fe) (fe_st fe) fe' -> occ_blk b st fe')
    (fun l st fe _ => forall fe', occ_blk (fe_body fe) (fe_st fe) fe' -> occ_l l st fe')
    (fun s st fe _ => forall fe', occ_blk (fe_body fe) (fe_st fe) fe' -> occ_s s st fe'));
    intros; econstructor; eauto.
Qed.
