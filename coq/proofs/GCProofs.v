(* GCProofs.v - proofs of the collector properties C03 / C04 (statements in props/C03.v, C04.v). *)
From NL.Spec Require Import GCInv.
From NL.Proofs Require Import GCListLemmas.
From Coq Require Import Permutation Lia.
Local Open Scope nat_scope.

(** * The ledger *)

Definition free_all (h : heap) (vs : list val) : outcome heap :=
  fold_left (fun acc v => do hh <- acc; free_val hh v) vs (Ok h).

Lemma free_all_app : forall h a x,
  free_all h (a ++ [x]) = do hh <- free_all h a; free_val hh x.
Proof. intros h a x. unfold free_all. rewrite fold_left_app. reflexivity. Qed.

Lemma h_alive_find : forall h l, h_alive h l = true -> exists o, PM.find l (cells h) = Some (true, o).
Proof.
  intros h l H. unfold h_alive in H. destruct (PM.find l (cells h)) as [[[|] o]|]; try discriminate.
  exists o; reflexivity.
Qed.

Lemma val_ok_alive : forall h v l, val_ok h v = true -> val_loc v = Some l -> h_alive h l = true.
Proof.
  intros h v l Hok Hl. unfold h_alive.
  destruct v; simpl in *; try discriminate; inversion Hl; subst;
    destruct (PM.find l (cells h)) as [[[|] o]|]; try discriminate; reflexivity.
Qed.

Lemma val_ok_cells_eq : forall h h' v,
  (forall l, val_loc v = Some l -> PM.find l (cells h') = PM.find l (cells h)) ->
  val_ok h' v = val_ok h v.
Proof.
  intros h h' v H. destruct v; simpl in *; try reflexivity; rewrite (H l eq_refl); reflexivity.
Qed.

Lemma free_all_spec : forall vs h,
  NoDup (map val_loc vs) ->
  (forall v, In v vs -> exists l, val_loc v = Some l /\ h_alive h l = true) ->
  exists h', free_all h vs = Ok h'
    /\ (n_freed h' = n_freed h + Z.of_nat (length vs))%Z
    /\ n_alloc h' = n_alloc h
    /\ (forall l, In (Some l) (map val_loc vs) -> h_alive h' l = false)
    /\ (forall l, ~ In (Some l) (map val_loc vs) -> PM.find l (cells h') = PM.find l (cells h)).
Proof.
  induction vs as [|v vs IH]; intros h Hnd Hal.
  - exists h. simpl. split; [reflexivity|]. split; [lia|]. split; [reflexivity|].
    split; [intros l []|intros l _; reflexivity].
  - destruct (Hal v (or_introl eq_refl)) as [l [Hl Ha]].
    destruct (h_alive_find h l Ha) as [o Ho].
    simpl in Hnd. inversion Hnd as [|x xs Hnotin Hnd']; subst.
    set (h1 := mkHeap (PM.add l (false, o) (cells h)) (next_loc h) (n_alloc h) (n_freed h + 1)).
    assert (Hstep : free_all h (v :: vs) = free_all h1 vs).
    { unfold free_all; simpl. unfold free_val at 2. rewrite Hl. unfold h_free. rewrite Ho. reflexivity. }
    assert (Hal1 : forall v', In v' vs -> exists l', val_loc v' = Some l' /\ h_alive h1 l' = true).
    { intros v' Hin. destruct (Hal v' (or_intror Hin)) as [l' [Hl' Ha']].
      exists l'; split; [exact Hl'|].
      assert (Hne : l <> l').
      { intros Heq; subst l'. apply Hnotin. rewrite Hl, <- Hl'. apply in_map; exact Hin. }
      unfold h_alive, h1; simpl. rewrite PM.gso by (intros Hc; apply Hne; symmetry; exact Hc).
      exact Ha'. }
    destruct (IH h1 Hnd' Hal1) as [h' [Hf [Hn [Hna [Hdead Hsame]]]]].
    exists h'. rewrite Hstep. split; [exact Hf|]. split; [|split; [|split]].
    + rewrite Hn. unfold h1; simpl n_freed. simpl length. rewrite Nat2Z.inj_succ. lia.
    + rewrite Hna. reflexivity.
    + intros l0 Hin. simpl in Hin. destruct Hin as [Heq|Hin]; [|apply Hdead; exact Hin].
      rewrite Hl in Heq. inversion Heq; subst l0.
      destruct (in_dec (fun a b : option positive => ltac:(decide equality; apply Pos.eq_dec))
                       (Some l) (map val_loc vs)) as [Hi|Hni]; [apply Hdead; exact Hi|].
      unfold h_alive. rewrite (Hsame l Hni). unfold h1; simpl. rewrite PM.gss. reflexivity.
    + intros l0 Hni. simpl in Hni.
      assert (Hne : l <> l0) by (intros Heq; subst l0; apply Hni; left; exact Hl).
      rewrite Hsame by (intros Hc; apply Hni; right; exact Hc).
      unfold h1; simpl. apply PM.gso. intros Hc; apply Hne; symmetry; exact Hc.
Qed.

(** * Sweep *)

Definition sweep_step (acc : outcome (list val * heap)) (i : nat) : outcome (list val * heap) :=
  do (objs, hh) <- acc;
  match nth_error objs i with
  | None => Fault FUnwrap
  | Some o => do h2 <- free_val hh o; Ok (swap_remove i objs, h2)
  end.

Lemma sweep_fold : forall suf b pre h, length b = length suf ->
  exists suf', Permutation suf' (keep suf b) /\
    fold_left sweep_step (zeros_from (length pre) b) (Ok (pre ++ suf, h))
    = do h' <- free_all h (dead_rev suf b); Ok (pre ++ suf', h').
Proof.
  induction suf as [|x suf IH]; intros b pre h Hlen; destruct b as [|bb b]; simpl in Hlen; try discriminate.
  - exists []. split; [constructor|]. reflexivity.
  - injection Hlen as Hlen.
    destruct (IH b (pre ++ [x]) h Hlen) as [suf0 [Hperm Hfold]].
    rewrite app_length in Hfold; simpl in Hfold. rewrite Nat.add_1_r in Hfold.
    rewrite <- app_assoc in Hfold; simpl in Hfold.
    destruct bb; simpl zeros_from; simpl keep; simpl dead_rev.
    + exists (x :: suf0). split; [constructor; exact Hperm|].
      rewrite app_nil_r. rewrite Hfold. rewrite <- app_assoc. reflexivity.
    + destruct (swap_remove_split val pre x suf0) as [s' [Hs Hp]].
      exists s'. split; [eapply Permutation_trans; eassumption|].
      rewrite fold_left_app. simpl fold_left. rewrite Hfold. rewrite free_all_app.
      rewrite <- app_assoc; simpl app.
      destruct (free_all h (dead_rev suf b)) as [h1| | |]; simpl; try reflexivity.
      rewrite nth_error_length_app.
      destruct (free_val h1 x) as [h2| | |]; simpl; try reflexivity.
      rewrite Hs. reflexivity.
Qed.

Lemma sweep_eq : forall h objs bits, length bits = length objs ->
  exists objs', Permutation objs' (keep objs bits) /\
    sweep h (mkGC objs bits)
    = do h' <- free_all h (dead_rev objs bits); Ok (mkGC objs' (firstn (length objs') bits), h').
Proof.
  intros h objs bits Hlen.
  destruct (sweep_fold objs bits [] h Hlen) as [objs' [Hp Hf]].
  exists objs'. split; [exact Hp|].
  unfold sweep, zeros_rev. simpl objects; simpl bitmap. simpl in Hf.
  change (fold_left _ (zeros_from 0 bits) (Ok (objs, h)))
    with (fold_left sweep_step (zeros_from 0 bits) (Ok (objs, h))).
  rewrite Hf. destruct (free_all h (dead_rev objs bits)); reflexivity.
Qed.

Lemma managed_iff : forall g l, managed g l <-> In (Some l) (map val_loc (objects g)).
Proof.
  intros g l. unfold managed. rewrite in_map_iff. split.
  - intros [v [Hin Hl]]. exists v; split; [exact Hl|exact Hin].
  - intros [v [Hl Hin]]. exists v; split; [exact Hin|exact Hl].
Qed.

Lemma nodup_map_perm_app_l : forall (a b l : list val),
  Permutation (a ++ b) l -> NoDup (map val_loc l) -> NoDup (map val_loc a).
Proof.
  intros a b l Hp Hnd.
  apply (Permutation_map val_loc) in Hp. apply Permutation_sym in Hp.
  apply (Permutation_NoDup Hp) in Hnd. rewrite map_app in Hnd.
  apply NoDup_app_inv in Hnd. exact (proj1 Hnd).
Qed.

Lemma nodup_map_perm_app_r : forall (a b l : list val),
  Permutation (a ++ b) l -> NoDup (map val_loc l) -> NoDup (map val_loc b).
Proof.
  intros a b l Hp Hnd.
  apply (Permutation_map val_loc) in Hp. apply Permutation_sym in Hp.
  apply (Permutation_NoDup Hp) in Hnd. rewrite map_app in Hnd.
  apply NoDup_app_inv in Hnd. exact (proj1 (proj2 Hnd)).
Qed.

(* everything the sweep does, given the invariant and a bitmap of the right length *)
Lemma sweep_char : forall h g bits, GCInv h g -> length bits = length (objects g) ->
  exists objs' h',
    sweep h (mkGC (objects g) bits) = Ok (mkGC objs' (firstn (length objs') bits), h')
    /\ Permutation objs' (keep (objects g) bits)
    /\ (n_freed h' = n_freed h + Z.of_nat (length (objects g)) - Z.of_nat (length objs'))%Z
    /\ n_alloc h' = n_alloc h
    /\ (forall v l, In v (dead_rev (objects g) bits) -> val_loc v = Some l -> h_alive h' l = false)
    /\ (forall l, (forall v, In v (dead_rev (objects g) bits) -> val_loc v <> Some l) ->
                  PM.find l (cells h') = PM.find l (cells h)).
Proof.
  intros h g bits Hinv Hlen.
  destruct (sweep_eq h (objects g) bits Hlen) as [objs' [Hp Hs]].
  pose proof (keep_dead_perm val (objects g) bits Hlen) as Hkd.
  assert (Hnd : NoDup (map val_loc (dead_rev (objects g) bits))).
  { eapply nodup_map_perm_app_r; [exact Hkd | apply (inv_nodup h g Hinv)]. }
  assert (Hal : forall v, In v (dead_rev (objects g) bits) ->
                          exists l, val_loc v = Some l /\ h_alive h l = true).
  { intros v Hin. apply dead_incl in Hin.
    pose proof (inv_heap_vals h g Hinv v Hin) as Hhv. unfold is_heap_val in Hhv.
    destruct (val_loc v) as [l|] eqn:El; [|discriminate].
    exists l; split; [reflexivity|]. eapply val_ok_alive; [apply (inv_ok h g Hinv v Hin)|exact El]. }
  destruct (free_all_spec _ h Hnd Hal) as [h' [Hf [Hn [Hna [Hdead Hsame]]]]].
  exists objs', h'. rewrite Hs, Hf. simpl.
  split; [reflexivity|]. split; [exact Hp|]. split; [|split; [exact Hna|split]].
  - rewrite Hn.
    pose proof (Permutation_length Hkd) as Hl1. pose proof (Permutation_length Hp) as Hl2.
    rewrite app_length in Hl1. lia.
  - intros v l Hin Hl. apply Hdead. rewrite <- Hl. apply in_map. exact Hin.
  - intros l Hno. apply Hsame. intros Hin. apply in_map_iff in Hin.
    destruct Hin as [v [Hl Hin]]. exact (Hno v Hin Hl).
Qed.

(** * destroy *)

Theorem destroy_frees_all : forall h g, GCInv h g ->
  exists g' h', gc_destroy h g = Ok (g', h') /\ objects g' = []
    /\ (forall l, managed g l -> h_alive h' l = false)
    /\ (forall l, ~ managed g l -> PM.find l (cells h') = PM.find l (cells h))
    /\ (n_freed h' = n_freed h + Z.of_nat (length (objects g)))%Z.
Proof.
  intros h g Hinv.
  set (bits := repeat_val false (length (objects g))).
  assert (Hlen : length bits = length (objects g)) by apply repeat_val_length.
  destruct (sweep_char h g bits Hinv Hlen) as [objs' [h' [Hs [Hp [Hn [Hna [Hdead Hsame]]]]]]].
  pose proof (keep_dead_perm val (objects g) bits Hlen) as Hkd.
  unfold bits in Hkd, Hp. rewrite keep_all_false in Hkd, Hp. simpl in Hkd. fold bits in Hkd.
  apply Permutation_sym, Permutation_nil in Hp. subst objs'.
  exists (mkGC [] (firstn 0 bits)), h'.
  split; [exact Hs|]. split; [reflexivity|]. split; [|split].
  - intros l [v [Hin Hl]]. apply (Hdead v l); [|exact Hl].
    eapply Permutation_in; [apply Permutation_sym; exact Hkd|exact Hin].
  - intros l Hnm. apply Hsame. intros v Hin Hl. apply Hnm. exists v; split; [|exact Hl].
    eapply Permutation_in; [exact Hkd|exact Hin].
  - rewrite Hn. simpl. lia.
Qed.

(** * Mark *)

Lemma get_arr_ok : forall h l vs, get_arr h l = Ok vs -> PM.find l (cells h) = Some (true, OArr vs).
Proof.
  intros h l vs H. unfold get_arr, h_get in H.
  destruct (PM.find l (cells h)) as [[[|] o]|]; simpl in H; try discriminate.
  destruct o; try discriminate. inversion H; reflexivity.
Qed.

Lemma val_ok_arr_get : forall h l, val_ok h (VArr l) = true -> exists vs, get_arr h l = Ok vs.
Proof.
  intros h l H. simpl in H. unfold get_arr, h_get.
  destruct (PM.find l (cells h)) as [[[|] o]|]; try discriminate.
  destruct o; try discriminate. exists vs; reflexivity.
Qed.

(* two well-tagged values for the same box are the same value *)
Lemma ok_same_loc_eq : forall h a o l, val_ok h a = true -> val_ok h o = true ->
  val_loc a = Some l -> val_loc o = Some l -> a = o.
Proof.
  intros h a o l Ha Ho La Lo.
  destruct a, o; simpl in *; try discriminate; inversion La; inversion Lo; subst; try reflexivity;
    destruct (PM.find l (cells h)) as [[[|] []]|]; discriminate.
Qed.

Lemma val_ok_arr_cell : forall h v l fl vs, val_ok h v = true -> val_loc v = Some l ->
  PM.find l (cells h) = Some (fl, OArr vs) -> v = VArr l /\ fl = true.
Proof.
  intros h v l fl vs Hok Hl Hf.
  destruct v; simpl in *; try discriminate; inversion Hl; subst; rewrite Hf in Hok;
    destruct fl; try discriminate. split; reflexivity.
Qed.

Section Mark.
  Variable h : heap.
  Variable g : gc.
  Hypothesis Hinv : GCInv h g.
  Variable roots : list val.
  Local Notation univ := (objects g).

  Definition mono (b b' : list bool) : Prop :=
    length b' = length b /\ forall i, get_bit i b = true -> get_bit i b' = true.
  Definition sound (b : list bool) : Prop :=
    forall i v l, get_bit i b = true -> nth_error univ i = Some v -> val_loc v = Some l ->
                  reach h roots l.
  (* every array marked between b and b' has all its managed elements marked in b' *)
  Definition newly_closed (b b' : list bool) : Prop :=
    forall i la fl vs c j, get_bit i b = false -> get_bit i b' = true ->
      nth_error univ i = Some (VArr la) -> PM.find la (cells h) = Some (fl, OArr vs) ->
      In c vs -> last_position c univ = Some j -> get_bit j b' = true.
  Definition mark_post (b : list bool) (o : val) (b' : list bool) : Prop :=
    mono b b'
    /\ (forall idx, last_position o univ = Some idx -> get_bit idx b' = true)
    /\ ((forall l, val_loc o = Some l -> reach h roots l) -> sound b -> sound b')
    /\ (val_ok h o = true -> newly_closed b b').
  Definition fold_post (b : list bool) (vs : list val) (b' : list bool) : Prop :=
    mono b b'
    /\ (forall c idx, In c vs -> last_position c univ = Some idx -> get_bit idx b' = true)
    /\ ((forall c l, In c vs -> val_loc c = Some l -> reach h roots l) -> sound b -> sound b')
    /\ ((forall c, In c vs -> val_ok h c = true) -> newly_closed b b').

  Lemma mono_refl : forall b, mono b b.
  Proof. intros b; split; [reflexivity | intros i Hi; exact Hi]. Qed.

  Lemma mono_trans : forall b1 b2 b3, mono b1 b2 -> mono b2 b3 -> mono b1 b3.
  Proof.
    intros b1 b2 b3 [L12 M12] [L23 M23]. split; [congruence|].
    intros i Hi. apply M23, M12, Hi.
  Qed.

  Lemma mono_set : forall b idx, mono b (set_bit idx b).
  Proof. intros b idx. split; [apply set_bit_length | intros i Hi; apply get_set_mono; exact Hi]. Qed.

  Lemma mono_count : forall b b', mono b b' -> count_false b' <= count_false b.
  Proof. intros b b' [L M]. apply count_false_mono; assumption. Qed.

  Lemma nc_trans : forall b b1 b2, mono b1 b2 -> newly_closed b b1 -> newly_closed b1 b2 ->
    newly_closed b b2.
  Proof.
    intros b b1 b2 [L12 M12] N1 N2 i la fl vs c j Hb Hb2 Hn Hf Hc Hj.
    destruct (get_bit i b1) eqn:E1.
    - apply M12. eapply N1; eassumption.
    - eapply N2; eassumption.
  Qed.

  Lemma position_facts : forall o idx, last_position o univ = Some idx ->
    exists a l, nth_error univ idx = Some a /\ In a univ /\ val_loc a = Some l /\ val_loc o = Some l
                /\ managed g l /\ idx < length univ.
  Proof.
    intros o idx H. apply last_position_some in H. destruct H as [a [Hn Hs]].
    apply same_box_true in Hs. destruct Hs as [l [La Lo]].
    pose proof (nth_error_In _ _ Hn) as Hin.
    exists a, l. repeat split; try assumption.
    - exists a; split; assumption.
    - apply nth_error_Some. rewrite Hn. discriminate.
  Qed.

  Lemma managed_position : forall c l, managed g l -> val_loc c = Some l ->
    exists j a, last_position c univ = Some j /\ nth_error univ j = Some a /\ val_loc a = Some l.
  Proof.
    intros c l [a [Hin La]] Lc.
    destruct (In_nth_error _ _ Hin) as [j Hj].
    exists j, a. split; [|split; assumption].
    eapply last_position_unique; [apply (inv_nodup h g Hinv)|exact Hj|].
    apply same_box_true. exists l; split; assumption.
  Qed.

  Lemma sound_set : forall b idx a, sound b -> nth_error univ idx = Some a ->
    (forall l, val_loc a = Some l -> reach h roots l) -> sound (set_bit idx b).
  Proof.
    intros b idx a Hs Hn Hr i v l Hb Hv Hl.
    destruct (Nat.eq_dec idx i) as [->|Hne].
    - rewrite Hn in Hv. inversion Hv; subst v. apply Hr; exact Hl.
    - rewrite get_set_other in Hb by exact Hne. eapply Hs; eassumption.
  Qed.

  Lemma mark_post_same : forall b o,
    (forall idx, last_position o univ = Some idx -> get_bit idx b = true) -> mark_post b o b.
  Proof.
    intros b o Hb. split; [apply mono_refl|]. split; [exact Hb|]. split; [intros _ Hs; exact Hs|].
    intros _ i la fl vs c j H1 H2. rewrite H1 in H2. discriminate.
  Qed.

  Lemma mark_post_leaf : forall b o idx, length b = length univ ->
    last_position o univ = Some idx -> (forall l, o <> VArr l) -> mark_post b o (set_bit idx b).
  Proof.
    intros b o idx Hlen Hlp Hna.
    destruct (position_facts o idx Hlp) as [a [l [Hn [Hin [La [Lo [Hm Hlt]]]]]]].
    split; [apply mono_set|]. split; [|split].
    - intros idx0 H0. rewrite Hlp in H0. inversion H0; subst idx0. apply get_set_same. lia.
    - intros Hr Hs. eapply sound_set; [exact Hs|exact Hn|].
      intros l0 Hl0. apply Hr. rewrite La in Hl0. inversion Hl0; subst l0. exact Lo.
    - intros Hok i la fl vs c j H1 H2 Hni Hf Hc Hj. exfalso.
      destruct (Nat.eq_dec idx i) as [Heq|Hne].
      + subst i. rewrite Hn in Hni. inversion Hni; subst a. simpl in La. inversion La; subst la.
        destruct (val_ok_arr_cell h o l fl vs Hok Lo Hf) as [Ho _]. exact (Hna l Ho).
      + rewrite get_set_other in H2 by exact Hne. rewrite H1 in H2. discriminate.
  Qed.

  Lemma fold_post_of_mark : forall f,
    (forall b o b', mark_fuel f h univ b o = Ok b' -> length b = length univ -> mark_post b o b') ->
    forall vs b b',
      fold_left (fun acc v => do b <- acc; mark_fuel f h univ b v) vs (Ok b) = Ok b' ->
      length b = length univ -> fold_post b vs b'.
  Proof.
    intros f Hf vs; induction vs as [|v vs IH]; intros b b' H Hlen.
    - simpl in H. inversion H; subst b'. split; [apply mono_refl|]. split; [intros c idx []|].
      split; [intros _ Hs; exact Hs|]. intros _ i la fl vs c j H1 H2. rewrite H1 in H2. discriminate.
    - apply foldM_ok_inv in H. destruct H as [b1 [E1 H1]].
      destruct (Hf b v b1 E1 Hlen) as [Hm1 [Hb1 [Hs1 Hc1]]].
      assert (Hlen1 : length b1 = length univ) by (destruct Hm1 as [L _]; congruence).
      destruct (IH b1 b' H1 Hlen1) as [Hm2 [Hb2 [Hs2 Hc2]]].
      split; [eapply mono_trans; eassumption|]. split; [|split].
      + intros c idx [->|Hin] Hlp; [|eapply Hb2; eassumption].
        destruct Hm2 as [_ M2]. apply M2. apply Hb1. exact Hlp.
      + intros Hr Hs. apply Hs2; [intros c l Hin; apply Hr; right; exact Hin|].
        apply Hs1; [intros l; apply Hr; left; reflexivity|exact Hs].
      + intros Hok. eapply nc_trans; [exact Hm2| |].
        * apply Hc1. apply Hok. left; reflexivity.
        * apply Hc2. intros c Hin. apply Hok. right; exact Hin.
  Qed.

  Lemma mark_spec : forall f b o b',
    mark_fuel f h univ b o = Ok b' -> length b = length univ -> mark_post b o b'.
  Proof.
    induction f as [|f IH]; intros b o b' H Hlen; [discriminate|].
    simpl in H. destruct (is_heap_val o) eqn:Ehv; simpl in H.
    2:{ inversion H; subst b'. apply mark_post_same. intros idx Hlp.
        destruct (position_facts o idx Hlp) as [a [l [_ [_ [_ [Lo _]]]]]].
        unfold is_heap_val in Ehv. rewrite Lo in Ehv. discriminate. }
    destruct (last_position o univ) as [idx|] eqn:Elp.
    2:{ inversion H; subst b'. apply mark_post_same. intros idx Hlp. rewrite Elp in Hlp. discriminate. }
    destruct o; simpl in Ehv; try discriminate.
    - inversion H; subst b'. apply mark_post_leaf; [exact Hlen|exact Elp|intros l0; discriminate].
    - inversion H; subst b'. apply mark_post_leaf; [exact Hlen|exact Elp|intros l0; discriminate].
    - destruct (get_bit idx b) eqn:Eg.
      { inversion H; subst b'. apply mark_post_same. intros idx0 H0. congruence. }
      destruct (get_arr h l) as [vs| | |] eqn:Ega; simpl in H; try discriminate.
      apply get_arr_ok in Ega.
      destruct (position_facts (VArr l) idx Elp) as [a [l0 [Hn [Hin [La [Lo [Hm Hlt]]]]]]].
      simpl in Lo. inversion Lo; subst l0.
      apply (fold_post_of_mark f IH) in H; [|rewrite set_bit_length; exact Hlen].
      destruct H as [Hm2 [Hb2 [Hs2 Hc2]]].
      split; [eapply mono_trans; [apply mono_set|exact Hm2]|]. split; [|split].
      + intros idx0 H0. rewrite Elp in H0. inversion H0; subst idx0. destruct Hm2 as [_ M2]. apply M2.
        apply get_set_same. lia.
      + intros Hr Hs. apply Hs2.
        * intros c lc Hc Lc. eapply reach_elem; [apply (Hr l eq_refl)|exact Ega|exact Hc|exact Lc].
        * eapply sound_set; [exact Hs|exact Hn|].
          intros l0 Hl0. rewrite La in Hl0. inversion Hl0; subst l0. apply Hr; reflexivity.
      + intros Hok i la fl vs0 c j H1 H2 Hni Hf Hc Hj.
        destruct (Nat.eq_dec idx i) as [Heq|Hne].
        * subst i. rewrite Hn in Hni. inversion Hni; subst a. simpl in La. inversion La; subst la.
          rewrite Ega in Hf. inversion Hf; subst vs0. eapply Hb2; eassumption.
        * assert (Hcl : newly_closed (set_bit idx b) b').
          { apply Hc2. intros c0 Hc0. eapply (inv_elems_ok h g Hinv); [exact Hm|exact Ega|exact Hc0]. }
          eapply Hcl; try eassumption. rewrite get_set_other by exact Hne. exact H1.
  Qed.

  Lemma fold_succeeds : forall f,
    (forall b o, length b = length univ -> val_ok h o = true -> count_false b < f ->
                 exists b', mark_fuel f h univ b o = Ok b') ->
    forall vs b, (forall c, In c vs -> val_ok h c = true) -> length b = length univ ->
      count_false b < f ->
      exists b', fold_left (fun acc v => do b <- acc; mark_fuel f h univ b v) vs (Ok b) = Ok b'.
  Proof.
    intros f Hf vs; induction vs as [|v vs IH]; intros b Hok Hlen Hc.
    - exists b; reflexivity.
    - simpl. destruct (Hf b v Hlen (Hok v (or_introl eq_refl)) Hc) as [b1 E1]. rewrite E1.
      destruct (mark_spec f b v b1 E1 Hlen) as [Hm _].
      apply IH.
      + intros c Hin. apply Hok. right; exact Hin.
      + destruct Hm as [L _]. congruence.
      + pose proof (mono_count b b1 Hm). lia.
  Qed.

  Lemma mark_succeeds : forall f b o, length b = length univ -> val_ok h o = true ->
    count_false b < f -> exists b', mark_fuel f h univ b o = Ok b'.
  Proof.
    induction f as [|f IH]; intros b o Hlen Hok Hc; [lia|].
    simpl. destruct (is_heap_val o) eqn:Ehv; simpl; [|eexists; reflexivity].
    destruct (last_position o univ) as [idx|] eqn:Elp; [|eexists; reflexivity].
    destruct o; try (eexists; reflexivity).
    destruct (get_bit idx b) eqn:Eg; [eexists; reflexivity|].
    destruct (val_ok_arr_get h l Hok) as [vs Ega]. rewrite Ega. simpl.
    destruct (position_facts (VArr l) idx Elp) as [a [l0 [Hn [Hin [La [Lo [Hm Hlt]]]]]]].
    simpl in Lo. inversion Lo; subst l0.
    apply get_arr_ok in Ega.
    apply (fold_succeeds f IH).
    - intros c Hc0. eapply (inv_elems_ok h g Hinv); [exact Hm|exact Ega|exact Hc0].
    - rewrite set_bit_length; exact Hlen.
    - pose proof (count_false_set idx b) as Hcs. rewrite Hlen in Hcs. specialize (Hcs Hlt Eg). lia.
  Qed.

  (* the whole mark phase of gc_run *)
  Definition mark_phase : outcome (list bool) :=
    fold_left (fun acc r => do b <- acc; mark_fuel (S (length univ)) h univ b r) roots
              (Ok (repeat_val false (length univ))).

  Lemma mark_phase_succeeds : roots_ok h roots -> exists bits, mark_phase = Ok bits.
  Proof.
    intros Hro. unfold mark_phase.
    apply (fold_succeeds (S (length univ)) (mark_succeeds (S (length univ)))).
    - exact Hro.
    - apply repeat_val_length.
    - rewrite count_false_repeat. lia.
  Qed.

  Lemma mark_phase_post : forall bits, mark_phase = Ok bits ->
    fold_post (repeat_val false (length univ)) roots bits.
  Proof.
    intros bits H. unfold mark_phase in H.
    apply (fold_post_of_mark (S (length univ)) (mark_spec (S (length univ)))) in H; [exact H|].
    apply repeat_val_length.
  Qed.

  Lemma mark_phase_length : forall bits, mark_phase = Ok bits -> length bits = length univ.
  Proof.
    intros bits H. destruct (mark_phase_post bits H) as [[L _] _].
    rewrite L. apply repeat_val_length.
  Qed.

  (* soundness: a marked entry is reachable *)
  Lemma mark_phase_sound : forall bits, mark_phase = Ok bits -> sound bits.
  Proof.
    intros bits H. destruct (mark_phase_post bits H) as [_ [_ [Hs _]]]. apply Hs.
    - intros c l Hin Hl. eapply reach_root; eassumption.
    - intros i v l Hb. rewrite get_bit_repeat_false in Hb. discriminate.
  Qed.

  Lemma reach_managed : roots_managed g roots -> forall l, reach h roots l -> managed g l.
  Proof.
    intros Hrm l Hr. induction Hr as [v l Hin Hl | la a vs v l Hr IH Hf Hin Hl].
    - eapply Hrm; eassumption.
    - eapply (inv_closed h g Hinv); eassumption.
  Qed.

  (* completeness: every reachable box is marked *)
  Lemma mark_phase_complete : roots_managed g roots -> roots_ok h roots ->
    forall bits, mark_phase = Ok bits ->
    forall l, reach h roots l ->
      exists i v, nth_error univ i = Some v /\ val_loc v = Some l /\ get_bit i bits = true.
  Proof.
    intros Hrm Hro bits H l Hr.
    destruct (mark_phase_post bits H) as [_ [Hb [_ Hc]]]. specialize (Hc Hro).
    induction Hr as [v l Hin Hl | la a vs v l Hr IH Hf Hin Hl].
    - destruct (managed_position v l (Hrm v l Hin Hl) Hl) as [j [a [Hlp [Hn La]]]].
      exists j, a. split; [exact Hn|]. split; [exact La|]. eapply Hb; eassumption.
    - destruct IH as [i [va [Hn [Lva Hbit]]]].
      pose proof (nth_error_In _ _ Hn) as Hina.
      destruct (val_ok_arr_cell h va la a vs (inv_ok h g Hinv va Hina) Lva Hf) as [Hva _]. subst va.
      assert (Hml : managed g l).
      { eapply (inv_closed h g Hinv); [exists (VArr la); split; [exact Hina|reflexivity]|exact Hf|exact Hin|exact Hl]. }
      destruct (managed_position v l Hml Hl) as [j [b [Hlp [Hnj Lb]]]].
      exists j, b. split; [exact Hnj|]. split; [exact Lb|].
      eapply (Hc i la a vs v j); try eassumption. apply get_bit_repeat_false.
  Qed.
End Mark.

(** * run *)

Lemma gc_run_unfold : forall h g roots,
  gc_run h g roots =
  match objects g with
  | [] => Ok (g, h)
  | _ => do bits <- mark_phase h g roots; sweep h (mkGC (objects g) bits)
  end.
Proof. reflexivity. Qed.

Lemma keep_dead_status : forall (objs : list val) bits i v,
  NoDup (map val_loc objs) -> length bits = length objs -> nth_error objs i = Some v ->
  (get_bit i bits = true ->
     In v (keep objs bits) /\ forall d, In d (dead_rev objs bits) -> val_loc d <> val_loc v)
  /\ (get_bit i bits = false -> In v (dead_rev objs bits) /\ ~ In v (keep objs bits)).
Proof.
  intros objs bits i v Hnd Hlen Hn. split; intros Hb.
  - split; [apply in_keep; [exact Hlen|]; exists i; split; assumption|].
    intros d Hd Heq. apply in_dead in Hd; [|exact Hlen]. destruct Hd as [j [Hj Hbj]].
    assert (j = i) by (eapply nodup_loc_index; eassumption). subst j. congruence.
  - split; [apply in_dead; [exact Hlen|]; exists i; split; assumption|].
    intros Hk. apply in_keep in Hk; [|exact Hlen]. destruct Hk as [j [Hj Hbj]].
    assert (j = i) by (eapply nodup_loc_index; try eassumption; reflexivity). subst j. congruence.
Qed.

(* everything a successful run does, in terms of the bitmap its mark phase produced *)
Lemma run_char : forall h g roots g' h', GCInv h g -> gc_run h g roots = Ok (g', h') ->
  exists bits,
    length bits = length (objects g)
    /\ sound h g roots bits
    /\ (roots_managed g roots -> roots_ok h roots -> forall l, reach h roots l ->
          exists i v, nth_error (objects g) i = Some v /\ val_loc v = Some l /\ get_bit i bits = true)
    /\ Permutation (objects g') (keep (objects g) bits)
    /\ (n_freed h' = n_freed h + Z.of_nat (length (objects g)) - Z.of_nat (length (objects g')))%Z
    /\ n_alloc h' = n_alloc h
    /\ (forall v l, In v (dead_rev (objects g) bits) -> val_loc v = Some l -> h_alive h' l = false)
    /\ (forall l, (forall v, In v (dead_rev (objects g) bits) -> val_loc v <> Some l) ->
                  PM.find l (cells h') = PM.find l (cells h)).
Proof.
  intros h g roots g' h' Hinv Hrun. rewrite gc_run_unfold in Hrun.
  destruct (objects g) as [|o0 os] eqn:Eobjs.
  - inversion Hrun; subst g' h'. exists []. rewrite Eobjs. simpl.
    split; [reflexivity|]. split; [|split; [|split; [|split; [|split; [|split]]]]].
    + intros i v l Hb. destruct i; discriminate.
    + intros Hrm Hro l Hr. apply (reach_managed h g Hinv roots Hrm) in Hr.
      destruct Hr as [v [Hin _]]. rewrite Eobjs in Hin. destruct Hin.
    + constructor.
    + lia.
    + reflexivity.
    + intros v l [].
    + intros l _. reflexivity.
  - rewrite <- Eobjs in *. clear Eobjs o0 os.
    destruct (mark_phase h g roots) as [bits| | |] eqn:Emark; simpl in Hrun; try discriminate.
    pose proof (mark_phase_length h g Hinv roots bits Emark) as Hlen.
    destruct (sweep_char h g bits Hinv Hlen) as [objs' [h'' [Hs [Hp [Hn [Hna [Hdead Hsame]]]]]]].
    rewrite Hs in Hrun. inversion Hrun; subst g' h'. simpl objects.
    exists bits. split; [exact Hlen|]. split; [apply (mark_phase_sound h g Hinv roots bits Emark)|].
    split; [|split; [exact Hp|split; [exact Hn|split; [exact Hna|split; [exact Hdead|exact Hsame]]]]].
    intros Hrm Hro. apply (mark_phase_complete h g Hinv roots Hrm Hro bits Emark).
Qed.

Theorem run_no_fault : forall h g roots, GCInv h g -> roots_managed g roots -> roots_ok h roots ->
  exists g' h', gc_run h g roots = Ok (g', h').
Proof.
  intros h g roots Hinv Hrm Hro. rewrite gc_run_unfold.
  destruct (objects g) as [|o0 os] eqn:Eobjs; [eexists; eexists; reflexivity|].
  rewrite <- Eobjs. clear Eobjs o0 os.
  destruct (mark_phase_succeeds h g Hinv roots Hro) as [bits Emark]. rewrite Emark. simpl.
  pose proof (mark_phase_length h g Hinv roots bits Emark) as Hlen.
  destruct (sweep_char h g bits Hinv Hlen) as [objs' [h'' [Hs _]]].
  rewrite Hs. eexists; eexists; reflexivity.
Qed.

Theorem mark_fuel_suffices : forall h g roots, GCInv h g -> roots_managed g roots ->
  roots_ok h roots ->
  forall bits0, bits0 = repeat_val false (length (objects g)) ->
  exists bits, fold_left (fun acc r => do b <- acc; mark_fuel (S (length (objects g))) h (objects g) b r)
                         roots (Ok bits0) = Ok bits.
Proof.
  intros h g roots Hinv Hrm Hro bits0 Hb. subst bits0.
  exact (mark_phase_succeeds h g Hinv roots Hro).
Qed.

Theorem run_preserves_reachable : forall h g roots g' h',
  GCInv h g -> roots_managed g roots -> roots_ok h roots -> gc_run h g roots = Ok (g', h') ->
  forall l, reach h roots l -> PM.find l (cells h') = PM.find l (cells h) /\ h_alive h' l = true.
Proof.
  intros h g roots g' h' Hinv Hrm Hro Hrun l Hr.
  destruct (run_char h g roots g' h' Hinv Hrun) as [bits [Hlen [Hsound [Hcompl [Hp [_ [_ [_ Hsame]]]]]]]].
  destruct (Hcompl Hrm Hro l Hr) as [i [v [Hn [Hl Hb]]]].
  destruct (keep_dead_status (objects g) bits i v (inv_nodup h g Hinv) Hlen Hn) as [Ht _].
  destruct (Ht Hb) as [_ Hnd].
  assert (Hfind : PM.find l (cells h') = PM.find l (cells h)).
  { apply Hsame. intros d Hd Heq. apply (Hnd d Hd). congruence. }
  split; [exact Hfind|].
  unfold h_alive. rewrite Hfind.
  apply (val_ok_alive h v l); [apply (inv_ok h g Hinv); eapply nth_error_In; exact Hn|exact Hl].
Qed.

Theorem run_leaves_unmanaged : forall h g roots g' h',
  GCInv h g -> roots_managed g roots -> gc_run h g roots = Ok (g', h') ->
  forall l, ~ managed g l -> PM.find l (cells h') = PM.find l (cells h).
Proof.
  intros h g roots g' h' Hinv Hrm Hrun l Hnm.
  destruct (run_char h g roots g' h' Hinv Hrun) as [bits [_ [_ [_ [_ [_ [_ [_ Hsame]]]]]]]].
  apply Hsame. intros d Hd Heq. apply Hnm. exists d. split; [eapply dead_incl; exact Hd|exact Heq].
Qed.

Theorem run_collects : forall h g roots g' h',
  GCInv h g -> roots_managed g roots -> roots_ok h roots -> gc_run h g roots = Ok (g', h') ->
  forall v, In v (objects g') <->
            (In v (objects g) /\ exists l, val_loc v = Some l /\ reach h roots l).
Proof.
  intros h g roots g' h' Hinv Hrm Hro Hrun v.
  destruct (run_char h g roots g' h' Hinv Hrun) as [bits [Hlen [Hsound [Hcompl [Hp _]]]]].
  split.
  - intros Hin. apply (Permutation_in _ Hp) in Hin.
    apply in_keep in Hin; [|exact Hlen]. destruct Hin as [i [Hn Hb]].
    pose proof (nth_error_In _ _ Hn) as Hino. split; [exact Hino|].
    pose proof (inv_heap_vals h g Hinv v Hino) as Hhv. unfold is_heap_val in Hhv.
    destruct (val_loc v) as [l|] eqn:El; [|discriminate].
    exists l. split; [reflexivity|]. eapply Hsound; eassumption.
  - intros [Hin [l [Hl Hr]]].
    destruct (Hcompl Hrm Hro l Hr) as [i [v' [Hn [Hl' Hb]]]].
    assert (v' = v).
    { eapply nodup_loc_eq; [apply (inv_nodup h g Hinv)|eapply nth_error_In; exact Hn|exact Hin|congruence]. }
    subst v'. apply (Permutation_in _ (Permutation_sym Hp)).
    apply in_keep; [exact Hlen|]. exists i; split; assumption.
Qed.

Theorem run_frees_garbage_once : forall h g roots g' h',
  GCInv h g -> roots_managed g roots -> gc_run h g roots = Ok (g', h') ->
  (forall l, managed g l -> ~ reach h roots l -> h_alive h' l = false)
  /\ (n_freed h' = n_freed h + Z.of_nat (length (objects g)) - Z.of_nat (length (objects g')))%Z
  /\ n_alloc h' = n_alloc h.
Proof.
  intros h g roots g' h' Hinv Hrm Hrun.
  destruct (run_char h g roots g' h' Hinv Hrun) as [bits [Hlen [Hsound [_ [Hp [Hn [Hna [Hdead _]]]]]]]].
  split; [|split; assumption].
  intros l [v [Hin Hl]] Hnr.
  destruct (In_nth_error _ _ Hin) as [i Hi].
  destruct (keep_dead_status (objects g) bits i v (inv_nodup h g Hinv) Hlen Hi) as [_ Hf].
  destruct (get_bit i bits) eqn:Eb.
  - exfalso. apply Hnr. eapply Hsound; eassumption.
  - destruct (Hf eq_refl) as [Hd _]. eapply Hdead; eassumption.
Qed.

Theorem run_keeps_invariant : forall h g roots g' h',
  GCInv h g -> roots_managed g roots -> roots_ok h roots -> gc_run h g roots = Ok (g', h') ->
  GCInv h' g'.
Proof.
  intros h g roots g' h' Hinv Hrm Hro Hrun.
  pose proof (run_collects h g roots g' h' Hinv Hrm Hro Hrun) as Hcol.
  pose proof (run_preserves_reachable h g roots g' h' Hinv Hrm Hro Hrun) as Hpres.
  destruct (run_char h g roots g' h' Hinv Hrun) as [bits [Hlen [Hsound [Hcompl [Hp _]]]]].
  (* a box managed afterwards was managed before, is reachable, and its cell is unchanged *)
  assert (Hman : forall la, managed g' la ->
            managed g la /\ reach h roots la /\ PM.find la (cells h') = PM.find la (cells h)).
  { intros la [va [Hina Lva]]. apply Hcol in Hina. destruct Hina as [Hina [l0 [Hl0 Hr]]].
    rewrite Lva in Hl0. inversion Hl0; subst l0.
    split; [exists va; split; assumption|]. split; [exact Hr|]. apply (Hpres la Hr). }
  constructor.
  - intros v Hin. apply Hcol in Hin. apply (inv_heap_vals h g Hinv). exact (proj1 Hin).
  - eapply Permutation_NoDup; [apply Permutation_map, Permutation_sym, Hp|].
    eapply nodup_map_perm_app_l; [apply keep_dead_perm; exact Hlen|apply (inv_nodup h g Hinv)].
  - intros v Hin. apply Hcol in Hin. destruct Hin as [Hin [l [Hl Hr]]].
    rewrite (val_ok_cells_eq h h' v).
    + apply (inv_ok h g Hinv). exact Hin.
    + intros l0 Hl0. rewrite Hl in Hl0. inversion Hl0; subst l0. apply (Hpres l Hr).
  - intros la a vs v l Hm Hf Hin Hl.
    destruct (Hman la Hm) as [Hmg [Hr Hfe]]. rewrite Hfe in Hf.
    assert (Hrl : reach h roots l) by (eapply reach_elem; eassumption).
    destruct (inv_closed h g Hinv la a vs v l Hmg Hf Hin Hl) as [v' [Hin' Hl']].
    exists v'. split; [|exact Hl']. apply Hcol. split; [exact Hin'|]. exists l; split; assumption.
  - intros la a vs v Hm Hf Hin.
    destruct (Hman la Hm) as [Hmg [Hr Hfe]]. rewrite Hfe in Hf.
    rewrite (val_ok_cells_eq h h' v).
    + eapply (inv_elems_ok h g Hinv); eassumption.
    + intros l Hl. apply (Hpres l). eapply reach_elem; eassumption.
Qed.

(** * untrace *)

Lemma val_eq_dec : forall a b : val, {a = b} + {a <> b}.
Proof. decide equality; try apply Z.eq_dec; try apply Pos.eq_dec; apply Bool.bool_dec. Qed.

Lemma swap_remove_removes : forall (l : list val) pos o,
  NoDup (map val_loc l) -> nth_error l pos = Some o ->
  NoDup (map val_loc (swap_remove pos l))
  /\ (forall v, In v (swap_remove pos l) <-> In v l /\ v <> o)
  /\ (forall v, In v (swap_remove pos l) -> val_loc v <> val_loc o)
  /\ S (length (swap_remove pos l)) = length l.
Proof.
  intros l pos o Hnd Hn.
  destruct (swap_remove_nth val l pos o Hn) as [pre [s [s' [Hl [Hlen [Hsr Hp]]]]]].
  rewrite Hsr. subst l.
  assert (Hpp : Permutation (pre ++ s') (pre ++ s)) by (apply Permutation_app_head; exact Hp).
  rewrite map_app in Hnd; simpl in Hnd. apply NoDup_remove in Hnd. destruct Hnd as [Hnd Hnotin].
  rewrite <- map_app in Hnd, Hnotin.
  assert (Hin_iff : forall v, In v (pre ++ s') <-> In v (pre ++ s)).
  { intros v; split; apply Permutation_in; [exact Hpp | apply Permutation_sym; exact Hpp]. }
  split.
  { eapply Permutation_NoDup; [apply Permutation_map, Permutation_sym, Hpp | exact Hnd]. }
  split.
  { intros v. rewrite Hin_iff. split.
    - intros Hin. split.
      + apply in_app_or in Hin. apply in_or_app. destruct Hin as [H|H]; [left|right; right]; exact H.
      + intros ->. apply Hnotin. apply in_map; exact Hin.
    - intros [Hin Hne]. apply in_app_or in Hin. apply in_or_app.
      destruct Hin as [H|[H|H]]; [left; exact H | exfalso; apply Hne; symmetry; exact H | right; exact H]. }
  split.
  { intros v Hin Heq. apply Hin_iff in Hin. apply Hnotin. rewrite <- Heq. apply in_map; exact Hin. }
  rewrite (Permutation_length Hpp). repeat rewrite app_length. simpl. lia.
Qed.

Section Untrace.
  Variable h : heap.
  Variable g0 : gc.
  Hypothesis Hinv : GCInv h g0.
  Variable R : positive -> Prop.
  Hypothesis R_closed : forall la a vs v l,
    R la -> PM.find la (cells h) = Some (a, OArr vs) -> In v vs -> val_loc v = Some l -> R l.

  Definition sub (objs : list val) : Prop :=
    NoDup (map val_loc objs) /\ incl objs (objects g0).
  Definition shrink (objs objs' : list val) : Prop :=
    sub objs' /\ incl objs' objs /\ length objs' <= length objs.
  Definition gone (objs' : list val) (c : val) : Prop :=
    forall v, In v objs' -> same_box v c = false.
  Definition removed_sound (objs objs' : list val) : Prop :=
    forall v l, In v objs -> ~ In v objs' -> val_loc v = Some l -> R l.
  Definition removed_closed (objs objs' : list val) : Prop :=
    forall la fl vs c, In (VArr la) objs -> ~ In (VArr la) objs' ->
      PM.find la (cells h) = Some (fl, OArr vs) -> In c vs -> gone objs' c.
  Definition ut_post (objs : list val) (o : val) (objs' : list val) : Prop :=
    shrink objs objs' /\ gone objs' o
    /\ ((forall l, val_loc o = Some l -> R l) -> removed_sound objs objs')
    /\ removed_closed objs objs'.
  Definition utf_post (objs : list val) (vs : list val) (objs' : list val) : Prop :=
    shrink objs objs' /\ (forall c, In c vs -> gone objs' c)
    /\ ((forall c l, In c vs -> val_loc c = Some l -> R l) -> removed_sound objs objs')
    /\ removed_closed objs objs'.

  Lemma shrink_refl : forall objs, sub objs -> shrink objs objs.
  Proof. intros objs Hs. split; [exact Hs|]. split; [apply incl_refl|lia]. Qed.

  Lemma gone_incl : forall objs objs' c, incl objs' objs -> gone objs c -> gone objs' c.
  Proof. intros objs objs' c Hi Hg v Hin. apply Hg, Hi, Hin. Qed.

  Lemma ut_post_same : forall objs o, sub objs -> gone objs o -> ut_post objs o objs.
  Proof.
    intros objs o Hs Hg. split; [apply shrink_refl; exact Hs|]. split; [exact Hg|]. split.
    - intros _ v l Hin Hnin. contradiction.
    - intros la fl vs c Hin Hnin. contradiction.
  Qed.

  Lemma sub_swap_remove : forall objs pos o, sub objs -> nth_error objs pos = Some o ->
    shrink objs (swap_remove pos objs) /\ gone (swap_remove pos objs) o
    /\ (forall v, In v objs -> ~ In v (swap_remove pos objs) -> v = o)
    /\ S (length (swap_remove pos objs)) = length objs.
  Proof.
    intros objs pos o [Hnd Hincl] Hn.
    destruct (swap_remove_removes objs pos o Hnd Hn) as [Hnd1 [Hiff [Hloc Hlen]]].
    assert (Hi : incl (swap_remove pos objs) objs) by (intros v Hin; apply Hiff in Hin; exact (proj1 Hin)).
    split; [split; [split; [exact Hnd1|]|split; [exact Hi|lia]]|].
    { intros v Hin. apply Hincl, Hi, Hin. }
    split.
    { intros v Hin. destruct (same_box v o) eqn:E; [|reflexivity]. exfalso.
      apply same_box_true in E. destruct E as [l [Lv Lo]]. apply (Hloc v Hin). congruence. }
    split; [|exact Hlen].
    intros v Hin Hnin. destruct (val_eq_dec v o) as [Heq|Hne]; [exact Heq|].
    exfalso. apply Hnin. apply Hiff. split; assumption.
  Qed.

  Lemma ut_post_leaf : forall objs pos o, sub objs -> nth_error objs pos = Some o ->
    (forall l, o <> VArr l) -> ut_post objs o (swap_remove pos objs).
  Proof.
    intros objs pos o Hs Hn Hna.
    destruct (sub_swap_remove objs pos o Hs Hn) as [Hsh [Hg [Hrem _]]].
    split; [exact Hsh|]. split; [exact Hg|]. split.
    - intros Hr v l Hin Hnin Hl. rewrite (Hrem v Hin Hnin) in Hl. apply Hr; exact Hl.
    - intros la fl vs c Hin Hnin. exfalso. apply (Hna la). symmetry. apply Hrem; assumption.
  Qed.

  Lemma ut_post_arr : forall objs pos l vs objs2, sub objs -> nth_error objs pos = Some (VArr l) ->
    PM.find l (cells h) = Some (true, OArr vs) ->
    utf_post (swap_remove pos objs) vs objs2 -> ut_post objs (VArr l) objs2.
  Proof.
    intros objs pos l vs objs2 Hs Hn Hf [Hsh2 [Hg2 [Hs2 Hc2]]].
    destruct (sub_swap_remove objs pos (VArr l) Hs Hn) as [[Hsub1 [Hi1 Hl1]] [Hg1 [Hrem _]]].
    destruct Hsh2 as [Hsub2 [Hi2 Hl2]].
    split; [split; [exact Hsub2|split; [intros v Hin; apply Hi1, Hi2, Hin|lia]]|].
    split; [eapply gone_incl; eassumption|]. split.
    - intros Hr v lv Hin Hnin Hlv.
      destruct (in_dec val_eq_dec v (swap_remove pos objs)) as [Hin1|Hnin1].
      + apply (Hs2 (fun c lc Hc Lc => R_closed l true vs c lc (Hr l eq_refl) Hf Hc Lc) v lv Hin1 Hnin Hlv).
      + rewrite (Hrem v Hin Hnin1) in Hlv. apply Hr; exact Hlv.
    - intros la fl vs0 c Hin Hnin Hfa Hc.
      destruct (in_dec val_eq_dec (VArr la) (swap_remove pos objs)) as [Hin1|Hnin1].
      + eapply Hc2; eassumption.
      + pose proof (Hrem _ Hin Hnin1) as Heq. inversion Heq; subst la.
        rewrite Hf in Hfa. inversion Hfa; subst vs0. apply Hg2; exact Hc.
  Qed.

  Lemma utf_post_of_ut : forall f,
    (forall g o g', sub (objects g) -> val_ok h o = true -> untrace_fuel f h g o = Ok g' ->
                    ut_post (objects g) o (objects g')) ->
    forall vs g g', sub (objects g) -> (forall c, In c vs -> val_ok h c = true) ->
      fold_left (fun acc v => do ga <- acc; untrace_fuel f h ga v) vs (Ok g) = Ok g' ->
      utf_post (objects g) vs (objects g').
  Proof.
    intros f Hf vs; induction vs as [|c vs IH]; intros g g' Hsub Hok H.
    - simpl in H. inversion H; subst g'. split; [apply shrink_refl; exact Hsub|].
      split; [intros c []|]. split.
      + intros _ v l Hin Hnin; contradiction.
      + intros la fl vs c Hin Hnin; contradiction.
    - apply foldM_ok_inv in H. destruct H as [ga [Ea H1]].
      destruct (Hf g c ga Hsub (Hok c (or_introl eq_refl)) Ea) as [[Hsuba [Hia Hla]] [Hga [Hsa Hca]]].
      destruct (IH ga g' Hsuba (fun c0 Hin => Hok c0 (or_intror Hin)) H1)
        as [[Hsub2 [Hi2 Hl2]] [Hg2 [Hs2 Hc2]]].
      split; [split; [exact Hsub2|split; [intros v Hin; apply Hia, Hi2, Hin|lia]]|].
      split; [|split].
      + intros c0 [->|Hin]; [eapply gone_incl; eassumption|apply Hg2; exact Hin].
      + intros Hr v l Hin Hnin Hl.
        destruct (in_dec val_eq_dec v (objects ga)) as [Hina|Hnina].
        * apply (Hs2 (fun c0 l0 Hc0 => Hr c0 l0 (or_intror Hc0)) v l Hina Hnin Hl).
        * apply (Hsa (fun l0 => Hr c l0 (or_introl eq_refl)) v l Hin Hnina Hl).
      + intros la fl vs0 c0 Hin Hnin Hfa Hc0.
        destruct (in_dec val_eq_dec (VArr la) (objects ga)) as [Hina|Hnina].
        * eapply Hc2; eassumption.
        * eapply gone_incl; [exact Hi2|]. eapply Hca; eassumption.
  Qed.

  Lemma found_is_o : forall objs o pos, sub objs -> val_ok h o = true ->
    position_of o objs = Some pos ->
    nth_error objs pos = Some o /\ exists l, val_loc o = Some l /\ managed g0 l.
  Proof.
    intros objs o pos [Hnd Hincl] Hok Hpos.
    destruct (position_of_some _ _ _ Hpos) as [a [Hn Hsb]].
    apply same_box_true in Hsb. destruct Hsb as [l [La Lo]].
    pose proof (Hincl a (nth_error_In _ _ Hn)) as Hin0.
    assert (a = o) by (eapply ok_same_loc_eq; [apply (inv_ok h g0 Hinv a Hin0)|exact Hok|exact La|exact Lo]).
    subst a. split; [exact Hn|]. exists l. split; [exact Lo|]. exists o; split; assumption.
  Qed.

  Lemma untrace_fuel_spec : forall f g o g', sub (objects g) -> val_ok h o = true ->
    untrace_fuel f h g o = Ok g' -> ut_post (objects g) o (objects g').
  Proof.
    induction f as [|f IH]; intros g o g' Hsub Hok H; [discriminate|].
    simpl in H. destruct (position_of o (objects g)) as [pos|] eqn:Epos.
    2:{ inversion H; subst g'. apply ut_post_same; [exact Hsub|]. exact (position_of_none _ _ Epos). }
    destruct (found_is_o (objects g) o pos Hsub Hok Epos) as [Hn [l0 [Lo Hm]]].
    destruct o; simpl in Lo; try discriminate; inversion Lo; subst l0.
    - simpl in H. inversion H; subst g'. simpl objects.
      apply ut_post_leaf; [exact Hsub|exact Hn|intros l0; discriminate].
    - simpl in H. inversion H; subst g'. simpl objects.
      apply ut_post_leaf; [exact Hsub|exact Hn|intros l0; discriminate].
    - destruct (get_arr h l) as [vs| | |] eqn:Ega; simpl in H; try discriminate.
      apply get_arr_ok in Ega.
      match type of H with
      | bind ?e _ = _ => destruct e as [g2| | |] eqn:Efold; simpl in H; try discriminate
      end.
      inversion H; subst g'. simpl objects.
      apply (ut_post_arr (objects g) pos l vs (objects g2) Hsub Hn Ega).
      destruct (sub_swap_remove (objects g) pos (VArr l) Hsub Hn) as [[Hsub1 _] _].
      apply (utf_post_of_ut f IH vs (mkGC (swap_remove pos (objects g)) (bitmap g)) g2 Hsub1);
        [|exact Efold].
      intros c Hc. eapply (inv_elems_ok h g0 Hinv); [exact Hm|exact Ega|exact Hc].
  Qed.

  Lemma untrace_fold_succeeds : forall f,
    (forall g o, sub (objects g) -> val_ok h o = true -> length (objects g) < f ->
                 exists g', untrace_fuel f h g o = Ok g') ->
    forall vs g, sub (objects g) -> (forall c, In c vs -> val_ok h c = true) ->
      length (objects g) < f ->
      exists g', fold_left (fun acc v => do ga <- acc; untrace_fuel f h ga v) vs (Ok g) = Ok g'.
  Proof.
    intros f Hf vs; induction vs as [|c vs IH]; intros g Hsub Hok Hlt.
    - exists g; reflexivity.
    - simpl. destruct (Hf g c Hsub (Hok c (or_introl eq_refl)) Hlt) as [ga Ea]. rewrite Ea.
      destruct (untrace_fuel_spec f g c ga Hsub (Hok c (or_introl eq_refl)) Ea) as [[Hsuba [_ Hla]] _].
      apply IH; [exact Hsuba|intros c0 Hin; apply Hok; right; exact Hin|lia].
  Qed.

  Lemma untrace_fuel_succeeds : forall f g o, sub (objects g) -> val_ok h o = true ->
    length (objects g) < f -> exists g', untrace_fuel f h g o = Ok g'.
  Proof.
    induction f as [|f IH]; intros g o Hsub Hok Hlt; [lia|].
    simpl. destruct (position_of o (objects g)) as [pos|] eqn:Epos; [|eexists; reflexivity].
    destruct (found_is_o (objects g) o pos Hsub Hok Epos) as [Hn [l0 [Lo Hm]]].
    destruct (sub_swap_remove (objects g) pos o Hsub Hn) as [[Hsub1 _] [_ [_ Hlen1]]].
    destruct o; try (eexists; reflexivity).
    simpl in Lo. inversion Lo; subst l0.
    destruct (val_ok_arr_get h l Hok) as [vs Ega]. rewrite Ega. simpl.
    apply get_arr_ok in Ega.
    destruct (untrace_fold_succeeds f IH vs (mkGC (swap_remove pos (objects g)) (bitmap g)))
      as [g2 E2].
    - exact Hsub1.
    - intros c Hc. eapply (inv_elems_ok h g0 Hinv); [exact Hm|exact Ega|exact Hc].
    - simpl objects. lia.
    - rewrite E2. simpl. eexists; reflexivity.
  Qed.
End Untrace.

Theorem untrace_spec : forall h g o, GCInv h g -> roots_managed g [o] -> roots_ok h [o] ->
  exists g', untrace h g o = Ok g'
    /\ NoDup (map val_loc (objects g'))
    /\ (forall v, In v (objects g') <->
                  (In v (objects g) /\ forall l, val_loc v = Some l -> ~ reach h [o] l)).
Proof.
  intros h g o Hinv Hrm Hro.
  assert (Hok : val_ok h o = true) by (apply Hro; left; reflexivity).
  assert (Hsub : sub g (objects g)) by (split; [apply (inv_nodup h g Hinv)|apply incl_refl]).
  destruct (untrace_fuel_succeeds h g Hinv (reach h [o]) (reach_elem h [o])
              (S (length (objects g))) g o Hsub Hok (Nat.lt_succ_diag_r _))
    as [g' Hg']. exists g'. split; [exact Hg'|].
  destruct (untrace_fuel_spec h g Hinv (reach h [o]) (reach_elem h [o]) _ g o g' Hsub Hok Hg')
    as [[[Hnd' Hi0] [Hi Hlen]] [Hgone [Hsound Hclosed]]].
  split; [exact Hnd'|].
  (* nothing reachable from o is left *)
  assert (Hnone : forall l, reach h [o] l -> forall v, In v (objects g') -> val_loc v <> Some l).
  { intros l Hr. induction Hr as [v0 l Hin0 Hl0 | la a vs c l Hr IH Hf Hc Hl]; intros v Hin Hv.
    - destruct Hin0 as [<-|[]]. pose proof (Hgone v Hin) as Hsb.
      assert (Ht : same_box v o = true) by (apply same_box_true; exists l; split; assumption).
      rewrite Ht in Hsb. discriminate.
    - destruct (reach_managed h g Hinv [o] Hrm la Hr) as [va [Hina Lva]].
      destruct (val_ok_arr_cell h va la a vs (inv_ok h g Hinv va Hina) Lva Hf) as [Hva _]. subst va.
      assert (Hnin : ~ In (VArr la) (objects g')) by (intros Hc0; apply (IH _ Hc0); reflexivity).
      pose proof (Hclosed la a vs c Hina Hnin Hf Hc v Hin) as Hsb.
      assert (Ht : same_box v c = true) by (apply same_box_true; exists l; split; assumption).
      rewrite Ht in Hsb. discriminate. }
  intros v. split.
  - intros Hin. split; [apply Hi; exact Hin|]. intros l Hl Hr. exact (Hnone l Hr v Hin Hl).
  - intros [Hin Hnr]. destruct (in_dec val_eq_dec v (objects g')) as [Hin'|Hnin]; [exact Hin'|].
    exfalso.
    pose proof (inv_heap_vals h g Hinv v Hin) as Hhv. unfold is_heap_val in Hhv.
    destruct (val_loc v) as [l|] eqn:El; [|discriminate].
    apply (Hnr l eq_refl).
    apply (Hsound (fun l0 Hl0 => reach_root h [o] o l0 (or_introl eq_refl) Hl0) v l Hin Hnin El).
Qed.

(** * Why [roots_ok] (and [inv_elems_ok]) are needed: a machine-checked witness

    Box 5 holds the array [VStr 6]; the only root is the mis-tagged word VFloat 5.  All other
    hypotheses of C03 hold, the run succeeds, box 6 is reachable (reachability follows the heap
    contents) and yet it is released: mark sets the bit of box 5 without descending, because the
    root does not carry the array tag. *)
Definition wit_h : heap :=
  mkHeap (PM.add 5%positive (true, OArr [VStr 6%positive])
            (PM.add 6%positive (true, OStr []) (PM.empty _))) 7%positive 2 0.
Definition wit_g : gc := mkGC [VArr 5%positive; VStr 6%positive] [].
Definition wit_roots : list val := [VFloat 5%positive].

Lemma wit_inv : GCInv wit_h wit_g.
Proof.
  constructor.
  - intros v [<-|[<-|[]]]; reflexivity.
  - simpl. constructor; [intros [H|[]]; discriminate|]. constructor; [intros []|constructor].
  - intros v [<-|[<-|[]]]; reflexivity.
  - intros la a vs v l [va [Hin Hl]] Hf Hv Lv.
    destruct Hin as [<-|[<-|[]]]; simpl in Hl; inversion Hl; subst la;
      vm_compute in Hf; inversion Hf; subst.
    destruct Hv as [<-|[]]. exists (VStr 6%positive). split; [right; left; reflexivity|exact Lv].
  - intros la a vs v [va [Hin Hl]] Hf Hv.
    destruct Hin as [<-|[<-|[]]]; simpl in Hl; inversion Hl; subst la;
      vm_compute in Hf; inversion Hf; subst.
    destruct Hv as [<-|[]]. reflexivity.
Qed.

Theorem roots_ok_needed :
  GCInv wit_h wit_g /\ roots_managed wit_g wit_roots /\ reach wit_h wit_roots 6%positive
  /\ exists g' h', gc_run wit_h wit_g wit_roots = Ok (g', h') /\ h_alive h' 6%positive = false.
Proof.
  split; [exact wit_inv|]. split; [|split].
  - intros v l [<-|[]] Hl. simpl in Hl. inversion Hl; subst l.
    exists (VArr 5%positive). split; [left; reflexivity|reflexivity].
  - apply (reach_elem wit_h wit_roots 5%positive true [VStr 6%positive] (VStr 6%positive)).
    + apply (reach_root wit_h wit_roots (VFloat 5%positive)); [left; reflexivity|reflexivity].
    + reflexivity.
    + left; reflexivity.
    + reflexivity.
  - eexists; eexists. split; [vm_compute; reflexivity|]. vm_compute. reflexivity.
Qed.
