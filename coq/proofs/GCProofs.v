(* GCProofs.v - proofs of the collector properties C03 / C04 (statements in props/C03.v, C04.v). *)
From NL.Spec Require Import GCInv.
From NL.Proofs Require Import GCListLemmas.
From Coq Require Import Permutation Lia.
Local Open Scope nat_scope.

(** * The ledger *)

Definition free_all (h : heap) (vs : list val) : outcome heap :=
  fold_left (fun acc v => do hh <- acc; free_val hh v) vs (Ok h).

Lemma free_all_app : forall h a x,
  free_all h (a ++ [x]) = do hh <- free_all h a; free_val hh x.
Proof. intros h a x. unfold free_all. rewrite fold_left_app. reflexivity. Qed.

Lemma h_alive_find : forall h l, h_alive h l = true -> exists o, PM.find l (cells h) = Some (true, o).
Proof.
  intros h l H. unfold h_alive in H. destruct (PM.find l (cells h)) as [[[|] o]|]; try discriminate.
  exists o; reflexivity.
Qed.

Lemma val_ok_alive : forall h v l, val_ok h v = true -> val_loc v = Some l -> h_alive h l = true.
Proof.
  intros h v l Hok Hl. unfold h_alive.
  destruct v; simpl in *; try discriminate; inversion Hl; subst;
    destruct (PM.find l (cells h)) as [[[|] o]|]; try discriminate; reflexivity.
Qed.

Lemma val_ok_cells_eq : forall h h' v,
  (forall l, val_loc v = Some l -> PM.find l (cells h') = PM.find l (cells h)) ->
  val_ok h' v = val_ok h v.
Proof.
  intros h h' v H. destruct v; simpl in *; try reflexivity; rewrite (H l eq_refl); reflexivity.
Qed.

Lemma free_all_spec : forall vs h,
  NoDup (map val_loc vs) ->
  (forall v, In v vs -> exists l, val_loc v = Some l /\ h_alive h l = true) ->
  exists h', free_all h vs = Ok h'
    /\ (n_freed h' = n_freed h + Z.of_nat (length vs))%Z
    /\ n_alloc h' = n_alloc h
    /\ (forall l, In (Some l) (map val_loc vs) -> h_alive h' l = false)
    /\ (forall l, ~ In (Some l) (map val_loc vs) -> PM.find l (cells h') = PM.find l (cells h)).
Proof.
  induction vs as [|v vs IH]; intros h Hnd Hal.
  - exists h. simpl. split; [reflexivity|]. split; [lia|]. split; [reflexivity|].
    split; [intros l []|intros l _; reflexivity].
  - destruct (Hal v (or_introl eq_refl)) as [l [Hl Ha]].
    destruct (h_alive_find h l Ha) as [o Ho].
    simpl in Hnd. inversion Hnd as [|x xs Hnotin Hnd']; subst.
    set (h1 := mkHeap (PM.add l (false, o) (cells h)) (next_loc h) (n_alloc h) (n_freed h + 1)).
    assert (Hstep : free_all h (v :: vs) = free_all h1 vs).
    { unfold free_all; simpl. unfold free_val at 2. rewrite Hl. unfold h_free. rewrite Ho. reflexivity. }
    assert (Hal1 : forall v', In v' vs -> exists l', val_loc v' = Some l' /\ h_alive h1 l' = true).
    { intros v' Hin. destruct (Hal v' (or_intror Hin)) as [l' [Hl' Ha']].
      exists l'; split; [exact Hl'|].
      assert (Hne : l <> l').
      { intros Heq; subst l'. apply Hnotin. rewrite Hl, <- Hl'. apply in_map; exact Hin. }
      unfold h_alive, h1; simpl. rewrite PM.gso by (intros Hc; apply Hne; symmetry; exact Hc).
      exact Ha'. }
    destruct (IH h1 Hnd' Hal1) as [h' [Hf [Hn [Hna [Hdead Hsame]]]]].
    exists h'. rewrite Hstep. split; [exact Hf|]. split; [|split; [|split]].
    + rewrite Hn. unfold h1; simpl n_freed. simpl length. rewrite Nat2Z.inj_succ. lia.
    + rewrite Hna. reflexivity.
    + intros l0 Hin. simpl in Hin. destruct Hin as [Heq|Hin]; [|apply Hdead; exact Hin].
      rewrite Hl in Heq. inversion Heq; subst l0.
      destruct (in_dec (fun a b : option positive => ltac:(decide equality; apply Pos.eq_dec))
                       (Some l) (map val_loc vs)) as [Hi|Hni]; [apply Hdead; exact Hi|].
      unfold h_alive. rewrite (Hsame l Hni). unfold h1; simpl. rewrite PM.gss. reflexivity.
    + intros l0 Hni. simpl in Hni.
      assert (Hne : l <> l0) by (intros Heq; subst l0; apply Hni; left; exact Hl).
      rewrite Hsame by (intros Hc; apply Hni; right; exact Hc).
      unfold h1; simpl. apply PM.gso. intros Hc; apply Hne; symmetry; exact Hc.
Qed.

(** * Sweep *)

Definition sweep_step (acc : outcome (list val * heap)) (i : nat) : outcome (list val * heap) :=
  do (objs, hh) <- acc;
  match nth_error objs i with
  | None => Fault FUnwrap
  | Some o => do h2 <- free_val hh o; Ok (swap_remove i objs, h2)
  end.

Lemma sweep_fold : forall suf b pre h, length b = length suf ->
  exists suf', Permutation suf' (keep suf b) /\
    fold_left sweep_step (zeros_from (length pre) b) (Ok (pre ++ suf, h))
    = do h' <- free_all h (dead_rev suf b); Ok (pre ++ suf', h').
Proof.
  induction suf as [|x suf IH]; intros b pre h Hlen; destruct b as [|bb b]; simpl in Hlen; try discriminate.
  - exists []. split; [constructor|]. reflexivity.
  - injection Hlen as Hlen.
    destruct (IH b (pre ++ [x]) h Hlen) as [suf0 [Hperm Hfold]].
    rewrite app_length in Hfold; simpl in Hfold. rewrite Nat.add_1_r in Hfold.
    rewrite <- app_assoc in Hfold; simpl in Hfold.
    destruct bb; simpl zeros_from; simpl keep; simpl dead_rev.
    + exists (x :: suf0). split; [constructor; exact Hperm|].
      rewrite app_nil_r. rewrite Hfold. rewrite <- app_assoc. reflexivity.
    + destruct (swap_remove_split val pre x suf0) as [s' [Hs Hp]].
      exists s'. split; [eapply Permutation_trans; eassumption|].
      rewrite fold_left_app. simpl fold_left. rewrite Hfold. rewrite free_all_app.
      rewrite <- app_assoc; simpl app.
      destruct (free_all h (dead_rev suf b)) as [h1| | |]; simpl; try reflexivity.
      rewrite nth_error_length_app.
      destruct (free_val h1 x) as [h2| | |]; simpl; try reflexivity.
      rewrite Hs. reflexivity.
Qed.

Lemma sweep_eq : forall h objs bits, length bits = length objs ->
  exists objs', Permutation objs' (keep objs bits) /\
    sweep h (mkGC objs bits)
    = do h' <- free_all h (dead_rev objs bits); Ok (mkGC objs' (firstn (length objs') bits), h').
Proof.
  intros h objs bits Hlen.
  destruct (sweep_fold objs bits [] h Hlen) as [objs' [Hp Hf]].
  exists objs'. split; [exact Hp|].
  unfold sweep, zeros_rev. simpl objects; simpl bitmap. simpl in Hf.
  change (fold_left _ (zeros_from 0 bits) (Ok (objs, h)))
    with (fold_left sweep_step (zeros_from 0 bits) (Ok (objs, h))).
  rewrite Hf. destruct (free_all h (dead_rev objs bits)); reflexivity.
Qed.

Lemma managed_iff : forall g l, managed g l <-> In (Some l) (map val_loc (objects g)).
Proof.
  intros g l. unfold managed. rewrite in_map_iff. split.
  - intros [v [Hin Hl]]. exists v; split; [exact Hl|exact Hin].
  - intros [v [Hl Hin]]. exists v; split; [exact Hin|exact Hl].
Qed.

Lemma nodup_map_perm_app_l : forall (a b l : list val),
  Permutation (a ++ b) l -> NoDup (map val_loc l) -> NoDup (map val_loc a).
Proof.
  intros a b l Hp Hnd.
  apply (Permutation_map val_loc) in Hp. apply Permutation_sym in Hp.
  apply (Permutation_NoDup Hp) in Hnd. rewrite map_app in Hnd.
  apply NoDup_app_inv in Hnd. exact (proj1 Hnd).
Qed.

Lemma nodup_map_perm_app_r : forall (a b l : list val),
  Permutation (a ++ b) l -> NoDup (map val_loc l) -> NoDup (map val_loc b).
Proof.
  intros a b l Hp Hnd.
  apply (Permutation_map val_loc) in Hp. apply Permutation_sym in Hp.
  apply (Permutation_NoDup Hp) in Hnd. rewrite map_app in Hnd.
  apply NoDup_app_inv in Hnd. exact (proj1 (proj2 Hnd)).
Qed.

(* everything the sweep does, given the invariant and a bitmap of the right length *)
Lemma sweep_char : forall h g bits, GCInv h g -> length bits = length (objects g) ->
  exists objs' h',
    sweep h (mkGC (objects g) bits) = Ok (mkGC objs' (firstn (length objs') bits), h')
    /\ Permutation objs' (keep (objects g) bits)
    /\ (n_freed h' = n_freed h + Z.of_nat (length (objects g)) - Z.of_nat (length objs'))%Z
    /\ n_alloc h' = n_alloc h
    /\ (forall v l, In v (dead_rev (objects g) bits) -> val_loc v = Some l -> h_alive h' l = false)
    /\ (forall l, (forall v, In v (dead_rev (objects g) bits) -> val_loc v <> Some l) ->
                  PM.find l (cells h') = PM.find l (cells h)).
Proof.
  intros h g bits Hinv Hlen.
  destruct (sweep_eq h (objects g) bits Hlen) as [objs' [Hp Hs]].
  pose proof (keep_dead_perm val (objects g) bits Hlen) as Hkd.
  assert (Hnd : NoDup (map val_loc (dead_rev (objects g) bits))).
  { eapply nodup_map_perm_app_r; [exact Hkd | apply (inv_nodup h g Hinv)]. }
  assert (Hal : forall v, In v (dead_rev (objects g) bits) ->
                          exists l, val_loc v = Some l /\ h_alive h l = true).
  { intros v Hin. apply dead_incl in Hin.
    pose proof (inv_heap_vals h g Hinv v Hin) as Hhv. unfold is_heap_val in Hhv.
    destruct (val_loc v) as [l|] eqn:El; [|discriminate].
    exists l; split; [reflexivity|]. eapply val_ok_alive; [apply (inv_ok h g Hinv v Hin)|exact El]. }
  destruct (free_all_spec _ h Hnd Hal) as [h' [Hf [Hn [Hna [Hdead Hsame]]]]].
  exists objs', h'. rewrite Hs, Hf. simpl.
  split; [reflexivity|]. split; [exact Hp|]. split; [|split; [exact Hna|split]].
  - rewrite Hn.
    pose proof (Permutation_length Hkd) as Hl1. pose proof (Permutation_length Hp) as Hl2.
    rewrite app_length in Hl1. lia.
  - intros v l Hin Hl. apply Hdead. rewrite <- Hl. apply in_map. exact Hin.
  - intros l Hno. apply Hsame. intros Hin. apply in_map_iff in Hin.
    destruct Hin as [v [Hl Hin]]. exact (Hno v Hin Hl).
Qed.

(** * destroy *)

Theorem destroy_frees_all : forall h g, GCInv h g ->
  exists g' h', gc_destroy h g = Ok (g', h') /\ objects g' = []
    /\ (forall l, managed g l -> h_alive h' l = false)
    /\ (forall l, ~ managed g l -> PM.find l (cells h') = PM.find l (cells h))
    /\ (n_freed h' = n_freed h + Z.of_nat (length (objects g)))%Z.
Proof.
  intros h g Hinv.
  set (bits := repeat_val false (length (objects g))).
  assert (Hlen : length bits = length (objects g)) by apply repeat_val_length.
  destruct (sweep_char h g bits Hinv Hlen) as [objs' [h' [Hs [Hp [Hn [Hna [Hdead Hsame]]]]]]].
  pose proof (keep_dead_perm val (objects g) bits Hlen) as Hkd.
  unfold bits in Hkd, Hp. rewrite keep_all_false in Hkd, Hp. simpl in Hkd. fold bits in Hkd.
  apply Permutation_sym, Permutation_nil in Hp. subst objs'.
  exists (mkGC [] (firstn 0 bits)), h'.
  split; [exact Hs|]. split; [reflexivity|]. split; [|split].
  - intros l [v [Hin Hl]]. apply (Hdead v l); [|exact Hl].
    eapply Permutation_in; [apply Permutation_sym; exact Hkd|exact Hin].
  - intros l Hnm. apply Hsame. intros v Hin Hl. apply Hnm. exists v; split; [|exact Hl].
    eapply Permutation_in; [exact Hkd|exact Hin].
  - rewrite Hn. simpl. lia.
Qed.

(** * Mark *)

Lemma get_arr_ok : forall h l vs, get_arr h l = Ok vs -> PM.find l (cells h) = Some (true, OArr vs).
Proof.
  intros h l vs H. unfold get_arr, h_get in H.
  destruct (PM.find l (cells h)) as [[[|] o]|]; simpl in H; try discriminate.
  destruct o; try discriminate. inversion H; reflexivity.
Qed.

Lemma val_ok_arr_get : forall h l, val_ok h (VArr l) = true -> exists vs, get_arr h l = Ok vs.
Proof.
  intros h l H. simpl in H. unfold get_arr, h_get.
  destruct (PM.find l (cells h)) as [[[|] o]|]; try discriminate.
  destruct o; try discriminate. exists vs; reflexivity.
Qed.

(* two well-tagged values for the same box are the same value *)
Lemma ok_same_loc_eq : forall h a o l, val_ok h a = true -> val_ok h o = true ->
  val_loc a = Some l -> val_loc o = Some l -> a = o.
Proof.
  intros h a o l Ha Ho La Lo.
  destruct a, o; simpl in *; try discriminate; inversion La; inversion Lo; subst; try reflexivity;
    destruct (PM.find l (cells h)) as [[[|] []]|]; discriminate.
Qed.

Lemma val_ok_arr_cell : forall h v l fl vs, val_ok h v = true -> val_loc v = Some l ->
  PM.find l (cells h) = Some (fl, OArr vs) -> v = VArr l /\ fl = true.
Proof.
  intros h v l fl vs Hok Hl Hf.
  destruct v; simpl in *; try discriminate; inversion Hl; subst; rewrite Hf in Hok;
    destruct fl; try discriminate. split; reflexivity.
Qed.

Section Mark.
  Variable h : heap.
  Variable g : gc.
  Hypothesis Hinv : GCInv h g.
  Variable roots : list val.
  Local Notation univ := (objects g).

  Definition mono (b b' : list bool) : Prop :=
    length b' = length b /\ forall i, get_bit i b = true -> get_bit i b' = true.
  Definition sound (b : list bool) : Prop :=
    forall i v l, get_bit i b = true -> nth_error univ i = Some v -> val_loc v = Some l ->
                  reach h roots l.
  (* every array marked between b and b' has all its managed elements marked in b' *)
  Definition newly_closed (b b' : list bool) : Prop :=
    forall i la fl vs c j, get_bit i b = false -> get_bit i b' = true ->
      nth_error univ i = Some (VArr la) -> PM.find la (cells h) = Some (fl, OArr vs) ->
      In c vs -> last_position c univ = Some j -> get_bit j b' = true.
  Definition mark_post (b : list bool) (o : val) (b' : list bool) : Prop :=
    mono b b'
    /\ (forall idx, last_position o univ = Some idx -> get_bit idx b' = true)
    /\ ((forall l, val_loc o = Some l -> reach h roots l) -> sound b -> sound b')
    /\ (val_ok h o = true -> newly_closed b b').
  Definition fold_post (b : list bool) (vs : list val) (b' : list bool) : Prop :=
    mono b b'
    /\ (forall c idx, In c vs -> last_position c univ = Some idx -> get_bit idx b' = true)
    /\ ((forall c l, In c vs -> val_loc c = Some l -> reach h roots l) -> sound b -> sound b')
    /\ ((forall c, In c vs -> val_ok h c = true) -> newly_closed b b').

  Lemma mono_refl : forall b, mono b b.
  Proof. intros b; split; [reflexivity | intros i Hi; exact Hi]. Qed.

  Lemma mono_trans : forall b1 b2 b3, mono b1 b2 -> mono b2 b3 -> mono b1 b3.
  Proof.
    intros b1 b2 b3 [L12 M12] [L23 M23]. split; [congruence|].
    intros i Hi. apply M23, M12, Hi.
  Qed.

  Lemma mono_set : forall b idx, mono b (set_bit idx b).
  Proof. intros b idx. split; [apply set_bit_length | intros i Hi; apply get_set_mono; exact Hi]. Qed.

  Lemma mono_count : forall b b', mono b b' -> count_false b' <= count_false b.
  Proof. intros b b' [L M]. apply count_false_mono; assumption. Qed.

  Lemma nc_trans : forall b b1 b2, mono b1 b2 -> newly_closed b b1 -> newly_closed b1 b2 ->
    newly_closed b b2.
  Proof.
    intros b b1 b2 [L12 M12] N1 N2 i la fl vs c j Hb Hb2 Hn Hf Hc Hj.
    destruct (get_bit i b1) eqn:E1.
    - apply M12. eapply N1; eassumption.
    - eapply N2; eassumption.
  Qed.

  Lemma position_facts : forall o idx, last_position o univ = Some idx ->
    exists a l, nth_error univ idx = Some a /\ In a univ /\ val_loc a = Some l /\ val_loc o = Some l
                /\ managed g l /\ idx < length univ.
  Proof.
    intros o idx H. apply last_position_some in H. destruct H as [a [Hn Hs]].
    apply same_box_true in Hs. destruct Hs as [l [La Lo]].
    pose proof (nth_error_In _ _ Hn) as Hin.
    exists a, l. repeat split; try assumption.
    - exists a; split; assumption.
    - apply nth_error_Some. rewrite Hn. discriminate.
  Qed.

  Lemma managed_position : forall c l, managed g l -> val_loc c = Some l ->
    exists j a, last_position c univ = Some j /\ nth_error univ j = Some a /\ val_loc a = Some l.
  Proof.
    intros c l [a [Hin La]] Lc.
    destruct (In_nth_error _ _ Hin) as [j Hj].
    exists j, a. split; [|split; assumption].
    eapply last_position_unique; [apply (inv_nodup h g Hinv)|exact Hj|].
    apply same_box_true. exists l; split; assumption.
  Qed.

  Lemma sound_set : forall b idx a, sound b -> nth_error univ idx = Some a ->
    (forall l, val_loc a = Some l -> reach h roots l) -> sound (set_bit idx b).
  Proof.
    intros b idx a Hs Hn Hr i v l Hb Hv Hl.
    destruct (Nat.eq_dec idx i) as [->|Hne].
    - rewrite Hn in Hv. inversion Hv; subst v. apply Hr; exact Hl.
    - rewrite get_set_other in Hb by exact Hne. eapply Hs; eassumption.
  Qed.

  Lemma mark_post_same : forall b o,
    (forall idx, last_position o univ = Some idx -> get_bit idx b = true) -> mark_post b o b.
  Proof.
    intros b o Hb. split; [apply mono_refl|]. split; [exact Hb|]. split; [intros _ Hs; exact Hs|].
    intros _ i la fl vs c j H1 H2. rewrite H1 in H2. discriminate.
  Qed.

  Lemma mark_post_leaf : forall b o idx, length b = length univ ->
    last_position o univ = Some idx -> (forall l, o <> VArr l) -> mark_post b o (set_bit idx b).
  Proof.
    intros b o idx Hlen Hlp Hna.
    destruct (position_facts o idx Hlp) as [a [l [Hn [Hin [La [Lo [Hm Hlt]]]]]]].
    split; [apply mono_set|]. split; [|split].
    - intros idx0 H0. rewrite Hlp in H0. inversion H0; subst idx0. apply get_set_same. lia.
    - intros Hr Hs. eapply sound_set; [exact Hs|exact Hn|].
      intros l0 Hl0. apply Hr. rewrite La in Hl0. inversion Hl0; subst l0. exact Lo.
    - intros Hok i la fl vs c j H1 H2 Hni Hf Hc Hj. exfalso.
      destruct (Nat.eq_dec idx i) as [Heq|Hne].
      + subst i. rewrite Hn in Hni. inversion Hni; subst a. simpl in La. inversion La; subst la.
        destruct (val_ok_arr_cell h o l fl vs Hok Lo Hf) as [Ho _]. exact (Hna l Ho).
      + rewrite get_set_other in H2 by exact Hne. rewrite H1 in H2. discriminate.
  Qed.

  Lemma fold_post_of_mark : forall f,
    (forall b o b', mark_fuel f h univ b o = Ok b' -> length b = length univ -> mark_post b o b') ->
    forall vs b b',
      fold_left (fun acc v => do b <- acc; mark_fuel f h univ b v) vs (Ok b) = Ok b' ->
      length b = length univ -> fold_post b vs b'.
  Proof.
    intros f Hf vs; induction vs as [|v vs IH]; intros b b' H Hlen.
    - simpl in H. inversion H; subst b'. split; [apply mono_refl|]. split; [intros c idx []|].
      split; [intros _ Hs; exact Hs|]. intros _ i la fl vs c j H1 H2. rewrite H1 in H2. discriminate.
    - apply foldM_ok_inv in H. destruct H as [b1 [E1 H1]].
      destruct (Hf b v b1 E1 Hlen) as [Hm1 [Hb1 [Hs1 Hc1]]].
      assert (Hlen1 : length b1 = length univ) by (destruct Hm1 as [L _]; congruence).
      destruct (IH b1 b' H1 Hlen1) as [Hm2 [Hb2 [Hs2 Hc2]]].
      split; [eapply mono_trans; eassumption|]. split; [|split].
      + intros c idx [->|Hin] Hlp; [|eapply Hb2; eassumption].
        destruct Hm2 as [_ M2]. apply M2. apply Hb1. exact Hlp.
      + intros Hr Hs. apply Hs2; [intros c l Hin; apply Hr; right; exact Hin|].
        apply Hs1; [intros l; apply Hr; left; reflexivity|exact Hs].
      + intros Hok. eapply nc_trans; [exact Hm2| |].
        * apply Hc1. apply Hok. left; reflexivity.
        * apply Hc2. intros c Hin. apply Hok. right; exact Hin.
  Qed.

  Lemma mark_spec : forall f b o b',
    mark_fuel f h univ b o = Ok b' -> length b = length univ -> mark_post b o b'.
  Proof.
    induction f as [|f IH]; intros b o b' H Hlen; [discriminate|].
    simpl in H. destruct (is_heap_val o) eqn:Ehv; simpl in H.
    2:{ inversion H; subst b'. apply mark_post_same. intros idx Hlp.
        destruct (position_facts o idx Hlp) as [a [l [_ [_ [_ [Lo _]]]]]].
        unfold is_heap_val in Ehv. rewrite Lo in Ehv. discriminate. }
    destruct (last_position o univ) as [idx|] eqn:Elp.
    2:{ inversion H; subst b'. apply mark_post_same. intros idx Hlp. rewrite Elp in Hlp. discriminate. }
    destruct o; simpl in Ehv; try discriminate.
    - inversion H; subst b'. apply mark_post_leaf; [exact Hlen|exact Elp|intros l0; discriminate].
    - inversion H; subst b'. apply mark_post_leaf; [exact Hlen|exact Elp|intros l0; discriminate].
    - destruct (get_bit idx b) eqn:Eg.
      { inversion H; subst b'. apply mark_post_same. intros idx0 H0. congruence. }
      destruct (get_arr h l) as [vs| | |] eqn:Ega; simpl in H; try discriminate.
      apply get_arr_ok in Ega.
      destruct (position_facts (VArr l) idx Elp) as [a [l0 [Hn [Hin [La [Lo [Hm Hlt]]]]]]].
      simpl in Lo. inversion Lo; subst l0.
      apply (fold_post_of_mark f IH) in H; [|rewrite set_bit_length; exact Hlen].
      destruct H as [Hm2 [Hb2 [Hs2 Hc2]]].
      split; [eapply mono_trans; [apply mono_set|exact Hm2]|]. split; [|split].
      + intros idx0 H0. rewrite Elp in H0. inversion H0; subst idx0. destruct Hm2 as [_ M2]. apply M2.
        apply get_set_same. lia.
      + intros Hr Hs. apply Hs2.
        * intros c lc Hc Lc. eapply reach_elem; [apply (Hr l eq_refl)|exact Ega|exact Hc|exact Lc].
        * eapply sound_set; [exact Hs|exact Hn|].
          intros l0 Hl0. rewrite La in Hl0. inversion Hl0; subst l0. apply Hr; reflexivity.
      + intros Hok i la fl vs0 c j H1 H2 Hni Hf Hc Hj.
        destruct (Nat.eq_dec idx i) as [Heq|Hne].
        * subst i. rewrite Hn in Hni. inversion Hni; subst a. simpl in La. inversion La; subst la.
          rewrite Ega in Hf. inversion Hf; subst vs0. eapply Hb2; eassumption.
        * assert (Hcl : newly_closed (set_bit idx b) b').
          { apply Hc2. intros c0 Hc0. eapply (inv_elems_ok h g Hinv); [exact Hm|exact Ega|exact Hc0]. }
          eapply Hcl; try eassumption. rewrite get_set_other by exact Hne. exact H1.
  Qed.

  Lemma fold_succeeds : forall f,
    (forall b o, length b = length univ -> val_ok h o = true -> count_false b < f ->
                 exists b', mark_fuel f h univ b o = Ok b') ->
    forall vs b, (forall c, In c vs -> val_ok h c = true) -> length b = length univ ->
      count_false b < f ->
      exists b', fold_left (fun acc v => do b <- acc; mark_fuel f h univ b v) vs (Ok b) = Ok b'.
  Proof.
    intros f Hf vs; induction vs as [|v vs IH]; intros b Hok Hlen Hc.
    - exists b; reflexivity.
    - simpl. destruct (Hf b v Hlen (Hok v (or_introl eq_refl)) Hc) as [b1 E1]. rewrite E1.
      destruct (mark_spec f b v b1 E1 Hlen) as [Hm _].
      apply IH.
      + intros c Hin. apply Hok. right; exact Hin.
      + destruct Hm as [L _]. congruence.
      + pose proof (mono_count b b1 Hm). lia.
  Qed.

  Lemma mark_succeeds : forall f b o, length b = length univ -> val_ok h o = true ->
    count_false b < f -> exists b', mark_fuel f h univ b o = Ok b'.
  Proof.
    induction f as [|f IH]; intros b o Hlen Hok Hc; [lia|].
    simpl. destruct (is_heap_val o) eqn:Ehv; simpl; [|eexists; reflexivity].
    destruct (last_position o univ) as [idx|] eqn:Elp; [|eexists; reflexivity].
    destruct o; try (eexists; reflexivity).
    destruct (get_bit idx b) eqn:Eg; [eexists; reflexivity|].
    destruct (val_ok_arr_get h l Hok) as [vs Ega]. rewrite Ega. simpl.
    destruct (position_facts (VArr l) idx Elp) as [a [l0 [Hn [Hin [La [Lo [Hm Hlt]]]]]]].
    simpl in Lo. inversion Lo; subst l0.
    apply get_arr_ok in Ega.
    apply (fold_succeeds f IH).
    - intros c Hc0. eapply (inv_elems_ok h g Hinv); [exact Hm|exact Ega|exact Hc0].
    - rewrite set_bit_length; exact Hlen.
    - pose proof (count_false_set idx b) as Hcs. rewrite Hlen in Hcs. specialize (Hcs Hlt Eg). lia.
  Qed.

  (* the whole mark phase of gc_run *)
  Definition mark_phase : outcome (list bool) :=
    fold_left (fun acc r => do b <- acc; mark_fuel (S (length univ)) h univ b r) roots
              (Ok (repeat_val false (length univ))).

  Lemma mark_phase_succeeds : roots_ok h roots -> exists bits, mark_phase = Ok bits.
  Proof.
    intros Hro. unfold mark_phase.
    apply (fold_succeeds (S (length univ)) (mark_succeeds (S (length univ)))).
    - exact Hro.
    - apply repeat_val_length.
    - rewrite count_false_repeat. lia.
  Qed.

  Lemma mark_phase_post : forall bits, mark_phase = Ok bits ->
    fold_post (repeat_val false (length univ)) roots bits.
  Proof.
    intros bits H. unfold mark_phase in H.
    apply (fold_post_of_mark (S (length univ)) (mark_spec (S (length univ)))) in H; [exact H|].
    apply repeat_val_length.
  Qed.

  Lemma mark_phase_length : forall bits, mark_phase = Ok bits -> length bits = length univ.
  Proof.
    intros bits H. destruct (mark_phase_post bits H) as [[L _] _].
    rewrite L. apply repeat_val_length.
  Qed.

  (* soundness: a marked entry is reachable *)
  Lemma mark_phase_sound : forall bits, mark_phase = Ok bits -> sound bits.
  Proof.
    intros bits H. destruct (mark_phase_post bits H) as [_ [_ [Hs _]]]. apply Hs.
    - intros c l Hin Hl. eapply reach_root; eassumption.
    - intros i v l Hb. rewrite get_bit_repeat_false in Hb. discriminate.
  Qed.

  Lemma reach_managed : roots_managed g roots -> forall l, reach h roots l -> managed g l.
  Proof.
    intros Hrm l Hr. induction Hr as [v l Hin Hl | la a vs v l Hr IH Hf Hin Hl].
    - eapply Hrm; eassumption.
    - eapply (inv_closed h g Hinv); eassumption.
  Qed.

  (* completeness: every reachable box is marked *)
  Lemma mark_phase_complete : roots_managed g roots -> roots_ok h roots ->
    forall bits, mark_phase = Ok bits ->
    forall l, reach h roots l ->
      exists i v, nth_error univ i = Some v /\ val_loc v = Some l /\ get_bit i bits = true.
  Proof.
    intros Hrm Hro bits H l Hr.
    destruct (mark_phase_post bits H) as [_ [Hb [_ Hc]]]. specialize (Hc Hro).
    induction Hr as [v l Hin Hl | la a vs v l Hr IH Hf Hin Hl].
    - destruct (managed_position v l (Hrm v l Hin Hl) Hl) as [j [a [Hlp [Hn La]]]].
      exists j, a. split; [exact Hn|]. split; [exact La|]. eapply Hb; eassumption.
    - destruct IH as [i [va [Hn [Lva Hbit]]]].
      pose proof (nth_error_In _ _ Hn) as Hina.
      destruct (val_ok_arr_cell h va la a vs (inv_ok h g Hinv va Hina) Lva Hf) as [Hva _]. subst va.
      assert (Hml : managed g l).
      { eapply (inv_closed h g Hinv); [exists (VArr la); split; [exact Hina|reflexivity]|exact Hf|exact Hin|exact Hl]. }
      destruct (managed_position v l Hml Hl) as [j [b [Hlp [Hnj Lb]]]].
      exists j, b. split; [exact Hnj|]. split; [exact Lb|].
      eapply (Hc i la a vs v j); try eassumption. apply get_bit_repeat_false.
  Qed.
End Mark.

(** * run *)

Lemma gc_run_unfold : forall h g roots,
  gc_run h g roots =
  match objects g with
  | [] => Ok (g, h)
  | _ => do bits <- mark_phase h g roots; sweep h (mkGC (objects g) bits)
  end.
Proof. reflexivity. Qed.

Lemma keep_dead_status : forall (objs : list val) bits i v,
  NoDup (map val_loc objs) -> length bits = length objs -> nth_error objs i = Some v ->
  (get_bit i bits = true ->
     In v (keep objs bits) /\ forall d, In d (dead_rev objs bits) -> val_loc d <> val_loc v)
  /\ (get_bit i bits = false -> In v (dead_rev objs bits) /\ ~ In v (keep objs bits)).
Proof.
  intros objs bits i v Hnd Hlen Hn. split; intros Hb.
  - split; [apply in_keep; [exact Hlen|]; exists i; split; assumption|].
    intros d Hd Heq. apply in_dead in Hd; [|exact Hlen]. destruct Hd as [j [Hj Hbj]].
    assert (j = i) by (eapply nodup_loc_index; eassumption). subst j. congruence.
  - split; [apply in_dead; [exact Hlen|]; exists i; split; assumption|].
    intros Hk. apply in_keep in Hk; [|exact Hlen]. destruct Hk as [j [Hj Hbj]].
    assert (j = i) by (eapply nodup_loc_index; try eassumption; reflexivity). subst j. congruence.
Qed.

(* everything a successful run does, in terms of the bitmap its mark phase produced *)
Lemma run_char : forall h g roots g' h', GCInv h g -> gc_run h g roots = Ok (g', h') ->
  exists bits,
    length bits = length (objects g)
    /\ sound h g roots bits
    /\ (roots_managed g roots -> roots_ok h roots -> forall l, reach h roots l ->
          exists i v, nth_error (objects g) i = Some v /\ val_loc v = Some l /\ get_bit i bits = true)
    /\ Permutation (objects g') (keep (objects g) bits)
    /\ (n_freed h' = n_freed h + Z.of_nat (length (objects g)) - Z.of_nat (length (objects g')))%Z
    /\ n_alloc h' = n_alloc h
    /\ (forall v l, In v (dead_rev (objects g) bits) -> val_loc v = Some l -> h_alive h' l = false)
    /\ (forall l, (forall v, In v (dead_rev (objects g) bits) -> val_loc v <> Some l) ->
                  PM.find l (cells h') = PM.find l (cells h)).
Proof.
  intros h g roots g' h' Hinv Hrun. rewrite gc_run_unfold in Hrun.
  destruct (objects g) as [|o0 os] eqn:Eobjs.
  - inversion Hrun; subst g' h'. exists []. rewrite Eobjs. simpl.
    split; [reflexivity|]. split; [|split; [|split; [|split; [|split; [|split]]]]].
    + intros i v l Hb. destruct i; discriminate.
    + intros Hrm Hro l Hr. apply (reach_managed h g Hinv roots Hrm) in Hr.
      destruct Hr as [v [Hin _]]. rewrite Eobjs in Hin. destruct Hin.
    + constructor.
    + lia.
    + reflexivity.
    + intros v l [].
    + intros l _. reflexivity.
  - rewrite <- Eobjs in *. clear Eobjs o0 os.
    destruct (mark_phase h g roots) as [bits| | |] eqn:Emark; simpl in Hrun; try discriminate.
    pose proof (mark_phase_length h g Hinv roots bits Emark) as Hlen.
    destruct (sweep_char h g bits Hinv Hlen) as [objs' [h'' [Hs [Hp [Hn [Hna [Hdead Hsame]]]]]]].
    rewrite Hs in Hrun. inversion Hrun; subst g' h'. simpl objects.
    exists bits. split; [exact Hlen|]. split; [apply (mark_phase_sound h g Hinv roots bits Emark)|].
    split; [|split; [exact Hp|split; [exact Hn|split; [exact Hna|split; [exact Hdead|exact Hsame]]]]].
    intros Hrm Hro. apply (mark_phase_complete h g Hinv roots Hrm Hro bits Emark).
Qed.

Theorem run_no_fault : forall h g roots, GCInv h g -> roots_managed g roots -> roots_ok h roots ->
  exists g' h', gc_run h g roots = Ok (g', h').
Proof.
  intros h g roots Hinv Hrm Hro. rewrite gc_run_unfold.
  destruct (objects g) as [|o0 os] eqn:Eobjs; [eexists; eexists; reflexivity|].
  rewrite <- Eobjs. clear Eobjs o0 os.
  destruct (mark_phase_succeeds h g Hinv roots Hro) as [bits Emark]. rewrite Emark. simpl.
  pose proof (mark_phase_length h g Hinv roots bits Emark) as Hlen.
  destruct (sweep_char h g bits Hinv Hlen) as [objs' [h'' [Hs _]]].
  rewrite Hs. eexists; eexists; reflexivity.
Qed.

Theorem mark_fuel_suffices : forall h g roots, GCInv h g -> roots_managed g roots ->
  roots_ok h roots ->
  forall bits0, bits0 = repeat_val false (length (objects g)) ->
  exists bits, fold_left (fun acc r => do b <- acc; mark_fuel (S (length (objects g))) h (objects g) b r)
                         roots (Ok bits0) = Ok bits.
Proof.
  intros h g roots Hinv Hrm Hro bits0 Hb. subst bits0.
  exact (mark_phase_succeeds h g Hinv roots Hro).
Qed.

Theorem run_preserves_reachable : forall h g roots g' h',
  GCInv h g -> roots_managed g roots -> roots_ok h roots -> gc_run h g roots = Ok (g', h') ->
  forall l, reach h roots l -> PM.find l (cells h') = PM.find l (cells h) /\ h_alive h' l = true.
Proof.
  intros h g roots g' h' Hinv Hrm Hro Hrun l Hr.
  destruct (run_char h g roots g' h' Hinv Hrun) as [bits [Hlen [Hsound [Hcompl [Hp [_ [_ [_ Hsame]]]]]]]].
  destruct (Hcompl Hrm Hro l Hr) as [i [v [Hn [Hl Hb]]]].
  destruct (keep_dead_status (objects g) bits i v (inv_nodup h g Hinv) Hlen Hn) as [Ht _].
  destruct (Ht Hb) as [_ Hnd].
  assert (Hfind : PM.find l (cells h') = PM.find l (cells h)).
  { apply Hsame. intros d Hd Heq. apply (Hnd d Hd). congruence. }
  split; [exact Hfind|].
  unfold h_alive. rewrite Hfind.
  apply (val_ok_alive h v l); [apply (inv_ok h g Hinv); eapply nth_error_In; exact Hn|exact Hl].
Qed.

Theorem run_leaves_unmanaged : forall h g roots g' h',
  GCInv h g -> roots_managed g roots -> gc_run h g roots = Ok (g', h') ->
  forall l, ~ managed g l -> PM.find l (cells h') = PM.find l (cells h).
Proof.
  intros h g roots g' h' Hinv Hrm Hrun l Hnm.
  destruct (run_char h g roots g' h' Hinv Hrun) as [bits [_ [_ [_ [_ [_ [_ [_ Hsame]]]]]]]].
  apply Hsame. intros d Hd Heq. apply Hnm. exists d. split; [eapply dead_incl; exact Hd|exact Heq].
Qed.

Theorem run_collects : forall h g roots g' h',
  GCInv h g -> roots_managed g roots -> roots_ok h roots -> gc_run h g roots = Ok (g', h') ->
  forall v, In v (objects g') <->
            (In v (objects g) /\ exists l, val_loc v = Some l /\ reach h roots l).
Proof.
  intros h g roots g' h' Hinv Hrm Hro Hrun v.
  destruct (run_char h g roots g' h' Hinv Hrun) as [bits [Hlen [Hsound [Hcompl [Hp _]]]]].
  split.
  - intros Hin. apply (Permutation_in _ Hp) in Hin.
    apply in_keep in Hin; [|exact Hlen]. destruct Hin as [i [Hn Hb]].
    pose proof (nth_error_In _ _ Hn) as Hino. split; [exact Hino|].
    pose proof (inv_heap_vals h g Hinv v Hino) as Hhv. unfold is_heap_val in Hhv.
    destruct (val_loc v) as [l|] eqn:El; [|discriminate].
    exists l. split; [reflexivity|]. eapply Hsound; eassumption.
  - intros [Hin [l [Hl Hr]]].
    destruct (Hcompl Hrm Hro l Hr) as [i [v' [Hn [Hl' Hb]]]].
    assert (v' = v).
    { eapply nodup_loc_eq; [apply (inv_nodup h g Hinv)|eapply nth_error_In; exact Hn|exact Hin|congruence]. }
    subst v'. apply (Permutation_in _ (Permutation_sym Hp)).
    apply in_keep; [exact Hlen|]. exists i; split; assumption.
Qed.

Theorem run_frees_garbage_once : forall h g roots g' h',
  GCInv h g -> roots_managed g roots -> gc_run h g roots = Ok (g', h') ->
  (forall l, managed g l -> ~ reach h roots l -> h_alive h' l = false)
  /\ (n_freed h' = n_freed h + Z.of_nat (length (objects g)) - Z.of_nat (length (objects g')))%Z
  /\ n_alloc h' = n_alloc h.
Proof.
  intros h g roots g' h' Hinv Hrm Hrun.
  destruct (run_char h g roots g' h' Hinv Hrun) as [bits [Hlen [Hsound [_ [Hp [Hn [Hna [Hdead _]]]]]]]].
  split; [|split; assumption].
  intros l [v [Hin Hl]] Hnr.
  destruct (In_nth_error _ _ Hin) as [i Hi].
  destruct (keep_dead_status (objects g) bits i v (inv_nodup h g Hinv) Hlen Hi) as [_ Hf].
  destruct (get_bit i bits) eqn:Eb.
  - exfalso. apply Hnr. eapply Hsound; eassumption.
  - destruct (Hf eq_refl) as [Hd _]. eapply Hdead; eassumption.
Qed.

Theorem run_keeps_invariant : forall h g roots g' h',
  GCInv h g -> roots_managed g roots -> roots_ok h roots -> gc_run h g roots = Ok (g', h') ->
  GCInv h' g'.
Proof.
  intros h g roots g' h' Hinv Hrm Hro Hrun.
  pose proof (run_collects h g roots g' h' Hinv Hrm Hro Hrun) as Hcol.
  pose proof (run_preserves_reachable h g roots g' h' Hinv Hrm Hro Hrun) as Hpres.
  destruct (run_char h g roots g' h' Hinv Hrun) as [bits [Hlen [Hsound [Hcompl [Hp _]]]]].
  (* a box managed afterwards was managed before, is reachable, and its cell is unchanged *)
  assert (Hman : forall la, managed g' la ->
            managed g la /\ reach h roots la /\ PM.find la (cells h') = PM.find la (cells h)).
  { intros la [va [Hina Lva]]. apply Hcol in Hina. destruct Hina as [Hina [l0 [Hl0 Hr]]].
    rewrite Lva in Hl0. inversion Hl0; subst l0.
    split; [exists va; split; assumption|]. split; [exact Hr|]. apply (Hpres la Hr). }
  constructor.
  - intros v Hin. apply Hcol in Hin. apply (inv_heap_vals h g Hinv). exact (proj1 Hin).
  - eapply Permutation_NoDup; [apply Permutation_map, Permutation_sym, Hp|].
    eapply nodup_map_perm_app_l; [apply keep_dead_perm; exact Hlen|apply (inv_nodup h g Hinv)].
  - intros v Hin. apply Hcol in Hin. destruct Hin as [Hin [l [Hl Hr]]].
    rewrite (val_ok_cells_eq h h' v).
    + apply (inv_ok h g Hinv). exact Hin.
    + intros l0 Hl0. rewrite Hl in Hl0. inversion Hl0; subst l0. apply (Hpres l Hr).
  - intros la a vs v l Hm Hf Hin Hl.
    destruct (Hman la Hm) as [Hmg [Hr Hfe]]. rewrite Hfe in Hf.
    assert (Hrl : reach h roots l) by (eapply reach_elem; eassumption).
    destruct (inv_closed h g Hinv la a vs v l Hmg Hf Hin Hl) as [v' [Hin' Hl']].
    exists v'. split; [|exact Hl']. apply Hcol. split; [exact Hin'|]. exists l; split; assumption.
  - intros la a vs v Hm Hf Hin.
    destruct (Hman la Hm) as [Hmg [Hr Hfe]]. rewrite Hfe in Hf.
    rewrite (val_ok_cells_eq h h' v).
    + eapply (inv_elems_ok h g Hinv); eassumption.
    + intros l Hl. apply (Hpres l). eapply reach_elem; eassumption.
Qed.
