(* CompileCorrectE.v - compiler correctness for the fragment F3 (FUNCTIONS; properties C01 / C10 / C12),
   part E: the machine and the intermediate evaluator.

   - machine states of one activation (`mk`): operands ++ locals ++ what lies below the base pointer;
   - the instructions of F3 on such states: GetLocal / SetLocal, the eleven fused instructions,
     Const of a function constant, Call, Return, ReturnValue; the collection at a return is the
     identity when the collector manages no object (F3 allocates nothing);
   - runs up to the excluded states of spec/Fragment3.v (`reachesL`, `stopsL`);
   - the intermediate evaluator `yeval` / `ywhile` / `ystmts`: it follows the compiler's state (names
     are resolved through the compiler's own symbol table at that point, a function literal
     evaluates to the machine's function value: entry point = code offset of the body, number
     of locals = max_size of its context), variables live in global slots and in the slots of the
     current activation, function values are looked up in a table of the literals evaluated so far.
   Part F simulates it by the machine, part G relates it to Sem.v, part H states the theorems. *)
From Coq Require Import ZArith Lia Bool List String.
From NL.Model Require Import VM.
From NL.Spec Require Import Sem Fragment Fragment2 Fragment3 ArithSpec.
From NL.Proofs Require VMStepProofs CompilerNames.
From NL.Proofs Require Import WordProofs OpsProofs AstInduction ControlProofs
  CompileCorrectA CompileCorrectB CompileCorrectC.
Open Scope Z_scope.

(** * Small facts *)

Lemma code_at_V : forall prog off ce, code_at prog off ce -> VMStepProofs.code_at prog off ce.
Proof. intros prog off ce H k b Hk. exact (code_at_byte prog off ce k b H Hk). Qed.

(* code without holes, byte by byte *)
Lemma code_x_V : forall prog off ce, code_x prog off ce [] -> VMStepProofs.code_at prog off ce.
Proof. intros prog off ce [_ H] k b Hk. apply H; [exact Hk|intros []]. Qed.

Lemma rev_repeat_val : forall A (x : A) n, rev (repeat_val x n) = repeat_val x n.
Proof.
  intros A x n. induction n as [|n IH]; [reflexivity|]. cbn [repeat_val rev]. rewrite IH.
  clear IH. induction n as [|n IH]; [reflexivity|]. cbn [repeat_val app]. rewrite IH. reflexivity.
Qed.

Lemma zlength_rev : forall A (l : list A), zlength (rev l) = zlength l.
Proof. intros. unfold zlength. rewrite rev_length. reflexivity. Qed.

Lemma zlength_repeat_val : forall A (x : A) n, zlength (repeat_val x n) = Z.of_nat n.
Proof. intros. unfold zlength. rewrite length_repeat_val. reflexivity. Qed.

(* the collection at a return: nothing to do when the collector manages no object *)
Lemma gc_run_nil : forall h g roots, objects g = [] -> gc_run h g roots = Ok (g, h).
Proof. intros h g roots H. unfold gc_run. rewrite H. reflexivity. Qed.

Lemma collect_nil : forall prog s extra, objects (v_gc s) = [] -> collect prog s extra = Ok s.
Proof.
  intros prog s extra H. unfold collect. rewrite (gc_run_nil _ _ _ H). cbn [bind].
  destruct s; reflexivity.
Qed.

(** * Runs up to the excluded states *)

Section RunsL.
  Variable orc : oracle.
  Variable prog : program.

  (* the machine reaches an excluded state (spec/Fragment3.v) *)
  Definition exclL (s : vm) : Prop := exists n s1, steps orc prog n s = Ok s1 /\ excluded prog s1.

  Definition reachesL (s s' : vm) : Prop := reaches orc prog s s' \/ exclL s.
  Definition stopsL (s : vm) (x : outcome stepres) : Prop := stops orc prog s x (v_out s) \/ exclL s.

  Lemma reaches_exclL : forall s1 s2, reaches orc prog s1 s2 -> exclL s2 -> exclL s1.
  Proof.
    intros s1 s2 [n Hn] [m [s3 [Hm Hx]]]. exists (n + m)%nat, s3.
    rewrite (steps_app orc prog n m s1 s2 Hn). auto.
  Qed.

  Lemma reachesL_refl : forall s, reachesL s s.
  Proof. intros s. left. apply reaches_refl. Qed.

  Lemma reachesL_trans : forall s1 s2 s3, reachesL s1 s2 -> reachesL s2 s3 -> reachesL s1 s3.
  Proof.
    intros s1 s2 s3 [H1|H1] [H2|H2].
    - left. exact (reaches_trans orc prog _ _ _ H1 H2).
    - right. exact (reaches_exclL _ _ H1 H2).
    - right. exact H1.
    - right. exact H1.
  Qed.

  Lemma reachesL_step : forall s s1, step orc prog s = Ok (Continue s1) -> reachesL s s1.
  Proof. intros s s1 H. left. apply reaches_step. exact H. Qed.

  Lemma reachesL_excl : forall s1 s2, reachesL s1 s2 -> exclL s2 -> exclL s1.
  Proof. intros s1 s2 [H|H] Hx; [exact (reaches_exclL _ _ H Hx)|exact H]. Qed.

  Lemma reachesL_stopsL : forall s1 s2 x, v_out s2 = v_out s1 -> reachesL s1 s2 -> stopsL s2 x -> stopsL s1 x.
  Proof.
    intros s1 s2 x Ho [H1|H1] [H2|H2].
    - left. rewrite <- Ho. exact (reaches_stops orc prog _ _ _ _ H1 H2).
    - right. exact (reaches_exclL _ _ H1 H2).
    - right. exact H1.
    - right. exact H1.
  Qed.

  Lemma stopsL_now : forall s x, step orc prog s = x -> stopsL s x.
  Proof. intros s x H. left. apply stops_now. exact H. Qed.

  Lemma exclL_now : forall s, excluded prog s -> exclL s.
  Proof. intros s H. exists O, s. split; [reflexivity|exact H]. Qed.
End RunsL.

(** * The intermediate state *)

(* a function literal that has been evaluated: entry point, number of locals, and the compiler
   state in which its body is compiled (symbol table with the new context holding the parameters,
   no enclosing loop) *)
Record fentry : Type := mkFE {
  fe_ip : Z; fe_n : Z; fe_ps : list text; fe_body : list stmt; fe_st : cstate
}.

(* heap / collector / globals, the slots of the current activation, the literals evaluated so far *)
Record yst : Type := mkY { y_m : mst; y_loc : list val; y_funs : list fentry }.

Lemma yst_eta : forall y, mkY (y_m y) (y_loc y) (y_funs y) = y.
Proof. destruct y; reflexivity. Qed.

(* what does not change during one activation: the stack below the base pointer, the callers'
   frames, the output *)
Record base : Type := mkB { b_below : list val; b_rest : list frame; b_out : text }.

(* the machine state of an activation: operands on top of the locals on top of `below`;
   `tip` is the stale ip field of the activation's own frame record *)
Definition mk (B : base) (tip : Z) (ops : list val) (y : yst) (ip : Z) (fin : val) : vm :=
  mkVM (ops ++ rev (y_loc y) ++ b_below B) (zlength (ops ++ rev (y_loc y) ++ b_below B))
       (m_gl (y_m y)) (mkFrame tip (zlength (b_below B)) :: b_rest B) ip (zlength (b_below B)) fin
       (m_heap (y_m y)) (m_gc (y_m y)) (b_out B).

(* the state in which the caller is resumed with result v *)
Definition ret_state (B : base) (ret cbp : Z) (rest : list frame) (v : val) (y : yst) (fin : val) : vm :=
  mkVM (v :: b_below B) (zlength (v :: b_below B)) (m_gl (y_m y)) (mkFrame ret cbp :: rest) ret cbp fin
       (m_heap (y_m y)) (m_gc (y_m y)) (b_out B).

Ltac mkcbn :=
  cbn [v_stack v_slen v_globals v_frames v_ip v_bp v_final v_heap v_gc v_out
       upd_stack upd_ip upd_heap upd_globals upd_final upd_out push pop bind fst snd
       m_heap m_gc m_gl mst_of setm setx mk y_m y_loc y_funs b_below b_rest b_out f_ip f_bp].

Lemma mk_ip : forall B tip ops y ip fin, v_ip (mk B tip ops y ip fin) = ip.
Proof. reflexivity. Qed.
Lemma mk_out : forall B tip ops y ip fin, v_out (mk B tip ops y ip fin) = b_out B.
Proof. reflexivity. Qed.

Lemma zl_cons : forall A (x : A) l, zlength (x :: l) = zlength l + 1.
Proof. intros. unfold zlength. cbn [length]. lia. Qed.

Lemma okc : forall s s' : vm, s = s' -> @Ok stepres (Continue s) = Ok (Continue s').
Proof. intros; subst; reflexivity. Qed.

(* a state built by one of the step lemmas of part A / C is again an activation state *)
Lemma setm_mk : forall B tip ops y ip fin ops' n ip' m',
  n = zlength (ops' ++ rev (y_loc y) ++ b_below B) ->
  setm (mk B tip ops y ip fin) (ops' ++ rev (y_loc y) ++ b_below B) n ip' m'
  = mk B tip ops' (mkY m' (y_loc y) (y_funs y)) ip' fin.
Proof. intros. subst. reflexivity. Qed.

Lemma mst_of_mk : forall B tip ops y ip fin, mst_of (mk B tip ops y ip fin) = y_m y.
Proof. intros. unfold mst_of. mkcbn. apply mst_eta. Qed.

Lemma mk_m_eta : forall B tip ops y ip fin,
  mk B tip ops (mkY (y_m y) (y_loc y) (y_funs y)) ip fin = mk B tip ops y ip fin.
Proof. intros. rewrite yst_eta. reflexivity. Qed.

(** * The instructions on activation states *)

Section StepsMk.
  Variable orc : oracle.
  Variable prog : program.

  Notation u16 v := [v mod 256; (v / 256) mod 256].

  Lemma mk_step_push : forall B tip ops y ip fin (v : val) d,
    step orc prog (mk B tip ops y ip fin)
    = Ok (Continue (setm (mk B tip ops y ip fin) (v :: v_stack (mk B tip ops y ip fin))
                         (v_slen (mk B tip ops y ip fin) + 1) (ip + d) (mst_of (mk B tip ops y ip fin)))) ->
    step orc prog (mk B tip ops y ip fin) = Ok (Continue (mk B tip (v :: ops) y (ip + d) fin)).
  Proof.
    intros B tip ops y ip fin v d H. rewrite H. apply okc.
    change (v :: v_stack (mk B tip ops y ip fin)) with ((v :: ops) ++ rev (y_loc y) ++ b_below B).
    rewrite setm_mk.
    - rewrite mst_of_mk. apply mk_m_eta.
    - mkcbn. cbn [app]. rewrite zl_cons. reflexivity.
  Qed.

  Lemma mk_step_const_int : forall B tip ops y ip fin v z rest,
    code_at prog ip (byte_of_opcode OConst :: v mod 256 :: (v / 256) mod 256 :: rest) ->
    0 <= v < 65536 -> nth_error (p_consts prog) (Z.to_nat v) = Some (VInt z) ->
    step orc prog (mk B tip ops y ip fin) = Ok (Continue (mk B tip (VInt z :: ops) y (ip + 3) fin)).
  Proof.
    intros B tip ops y ip fin v z rest Hc Hv Hk. apply mk_step_push.
    exact (step_const orc prog (mk B tip ops y ip fin) v z rest Hc Hv Hk).
  Qed.

  Lemma mk_step_const_fun : forall B tip ops y ip fin v fip fn rest,
    code_at prog ip (byte_of_opcode OConst :: v mod 256 :: (v / 256) mod 256 :: rest) ->
    0 <= v < 65536 -> nth_error (p_consts prog) (Z.to_nat v) = Some (VFun fip fn) ->
    step orc prog (mk B tip ops y ip fin) = Ok (Continue (mk B tip (VFun fip fn :: ops) y (ip + 3) fin)).
  Proof.
    intros B tip ops y ip fin v fip fn rest Hc Hv Hk. apply mk_step_push.
    set (s := mk B tip ops y ip fin). assert (v_ip s = ip) as Hip by reflexivity. rewrite <- Hip in Hc.
    unfold step. rewrite (code_at_0 _ _ _ _ Hc), (opcode_roundtrip OConst). cbv beta iota zeta.
    rewrite (read_u16_op prog s _ v rest Hc Hv). cbn [bind]. unfold get_const. rewrite Hk. cbn [bind].
    rewrite Hip. reflexivity.
  Qed.

  Lemma mk_step_bool : forall B tip ops y ip fin (b : bool) rest,
    code_at prog ip (byte_of_opcode (if b then OTrue else OFalse) :: rest) ->
    step orc prog (mk B tip ops y ip fin) = Ok (Continue (mk B tip (VBool b :: ops) y (ip + 1) fin)).
  Proof.
    intros B tip ops y ip fin b rest Hc. apply mk_step_push.
    exact (step_bool orc prog (mk B tip ops y ip fin) b rest Hc).
  Qed.

  Lemma mk_step_null : forall B tip ops y ip fin rest,
    code_at prog ip (byte_of_opcode ONull :: rest) ->
    step orc prog (mk B tip ops y ip fin) = Ok (Continue (mk B tip (VNull :: ops) y (ip + 1) fin)).
  Proof.
    intros B tip ops y ip fin rest Hc. apply mk_step_push.
    exact (step_null orc prog (mk B tip ops y ip fin) rest Hc).
  Qed.

  Lemma mk_step_get_global : forall B tip ops y ip fin v rest,
    code_at prog ip (byte_of_opcode OGetGlobal :: v mod 256 :: (v / 256) mod 256 :: rest) ->
    0 <= v < 65536 ->
    step orc prog (mk B tip ops y ip fin)
    = Ok (Continue (mk B tip (nth (Z.to_nat v) (m_gl (y_m y)) VNull :: ops) y (ip + 3) fin)).
  Proof.
    intros B tip ops y ip fin v rest Hc Hv. apply mk_step_push.
    exact (step_get_global orc prog (mk B tip ops y ip fin) v rest Hc Hv).
  Qed.

  Lemma mk_step_set_global : forall B tip ops y ip fin v x rest,
    code_at prog ip (byte_of_opcode OSetGlobal :: v mod 256 :: (v / 256) mod 256 :: rest) ->
    0 <= v < 65536 ->
    step orc prog (mk B tip (x :: ops) y ip fin)
    = Ok (Continue (mk B tip ops (mkY (set_global_m (Z.to_nat v) x (y_m y)) (y_loc y) (y_funs y)) (ip + 3) fin)).
  Proof.
    intros B tip ops y ip fin v x rest Hc Hv.
    rewrite (step_set_global orc prog (mk B tip (x :: ops) y ip fin) v x (ops ++ rev (y_loc y) ++ b_below B) rest Hc Hv eq_refl).
    apply okc. rewrite setm_mk.
    - rewrite mst_of_mk. reflexivity.
    - mkcbn. cbn [app]. rewrite zl_cons. lia.
  Qed.

  Lemma mk_step_pop : forall B tip ops y ip fin x rest,
    code_at prog ip (byte_of_opcode OPop :: rest) ->
    step orc prog (mk B tip (x :: ops) y ip fin) = Ok (Continue (mk B tip ops y (ip + 1) x)).
  Proof.
    intros B tip ops y ip fin x rest Hc.
    rewrite (step_pop orc prog (mk B tip (x :: ops) y ip fin) x (ops ++ rev (y_loc y) ++ b_below B) rest Hc eq_refl).
    apply okc. unfold mk. mkcbn. cbn [app]. rewrite zl_cons. f_equal. lia.
  Qed.

  Lemma mk_step_jump : forall B tip ops y ip fin v rest,
    code_at prog ip (byte_of_opcode OJump :: v mod 256 :: (v / 256) mod 256 :: rest) -> 0 <= v < 65536 ->
    step orc prog (mk B tip ops y ip fin) = Ok (Continue (mk B tip ops y v fin)).
  Proof.
    intros B tip ops y ip fin v rest Hc Hv.
    rewrite (step_jump orc prog (mk B tip ops y ip fin) v rest Hc Hv). apply okc.
    change (v_stack (mk B tip ops y ip fin)) with (ops ++ rev (y_loc y) ++ b_below B).
    rewrite setm_mk by reflexivity. rewrite mst_of_mk. apply mk_m_eta.
  Qed.

  Lemma mk_step_jif : forall B tip ops y ip fin v c rest,
    code_at prog ip (byte_of_opcode OJumpIfFalse :: v mod 256 :: (v / 256) mod 256 :: rest) -> 0 <= v < 65536 ->
    step orc prog (mk B tip (c :: ops) y ip fin) =
    match c with
    | VBool b => Ok (Continue (mk B tip ops y (if b then ip + 3 else v) fin))
    | _ => Err ETypeError
    end.
  Proof.
    intros B tip ops y ip fin v c rest Hc Hv.
    rewrite (step_jif orc prog (mk B tip (c :: ops) y ip fin) v c (ops ++ rev (y_loc y) ++ b_below B) rest Hc Hv eq_refl).
    destruct c; try reflexivity. apply okc. rewrite setm_mk.
    - rewrite mst_of_mk. apply mk_m_eta.
    - mkcbn. cbn [app]. rewrite zl_cons. lia.
  Qed.

  Lemma mk_step_not : forall B tip ops y ip fin x rest,
    code_at prog ip (byte_of_opcode ONot :: rest) ->
    step orc prog (mk B tip (x :: ops) y ip fin) =
    match lognot x with
    | Ok r => Ok (Continue (mk B tip (r :: ops) y (ip + 1) fin))
    | Err k => Err k | Fault f => Fault f | OutOfFuel => OutOfFuel
    end.
  Proof.
    intros B tip ops y ip fin x rest Hc.
    rewrite (step_not orc prog (mk B tip (x :: ops) y ip fin) x (ops ++ rev (y_loc y) ++ b_below B) rest Hc eq_refl).
    destruct (lognot x) as [r| | |]; try reflexivity. apply okc.
    change (r :: ops ++ rev (y_loc y) ++ b_below B) with ((r :: ops) ++ rev (y_loc y) ++ b_below B).
    rewrite setm_mk.
    - rewrite mst_of_mk. apply mk_m_eta.
    - mkcbn. cbn [app]. rewrite !zl_cons. lia.
  Qed.

  Lemma mk_step_negate : forall B tip ops y ip fin x rest,
    code_at prog ip (byte_of_opcode ONegate :: rest) ->
    step orc prog (mk B tip (x :: ops) y ip fin) =
    match negate (m_heap (y_m y)) x with
    | Ok r => Ok (Continue (mk B tip (fst r :: ops) (mkY (with_new_m (y_m y) r) (y_loc y) (y_funs y)) (ip + 1) fin))
    | Err k => Err k | Fault f => Fault f | OutOfFuel => OutOfFuel
    end.
  Proof.
    intros B tip ops y ip fin x rest Hc.
    rewrite (step_negate orc prog (mk B tip (x :: ops) y ip fin) x (ops ++ rev (y_loc y) ++ b_below B) rest Hc eq_refl).
    change (v_heap (mk B tip (x :: ops) y ip fin)) with (m_heap (y_m y)).
    destruct (negate (m_heap (y_m y)) x) as [r| | |]; try reflexivity. apply okc.
    change (fst r :: ops ++ rev (y_loc y) ++ b_below B) with ((fst r :: ops) ++ rev (y_loc y) ++ b_below B).
    rewrite setm_mk.
    - rewrite mst_of_mk. reflexivity.
    - mkcbn. cbn [app]. rewrite !zl_cons. lia.
  Qed.

  Lemma mk_step_binary : forall B tip ops y ip fin opc m a b rest,
    code_at prog ip (byte_of_opcode opc :: rest) ->
    assoc opcode_eqb opc binary_dispatch = Some m ->
    step orc prog (mk B tip (b :: a :: ops) y ip fin) =
    match binop orc m (m_heap (y_m y)) a b with
    | Ok r => Ok (Continue (mk B tip (fst r :: ops) (mkY (with_new_m (y_m y) r) (y_loc y) (y_funs y)) (ip + 1) fin))
    | Err k => Err k | Fault f => Fault f | OutOfFuel => OutOfFuel
    end.
  Proof.
    intros B tip ops y ip fin opc m a b rest Hc Hm.
    rewrite (step_binary orc prog (mk B tip (b :: a :: ops) y ip fin) opc m a b
               (ops ++ rev (y_loc y) ++ b_below B) rest Hc Hm eq_refl).
    change (v_heap (mk B tip (b :: a :: ops) y ip fin)) with (m_heap (y_m y)).
    destruct (binop orc m (m_heap (y_m y)) a b) as [r| | |]; try reflexivity. apply okc.
    change (fst r :: ops ++ rev (y_loc y) ++ b_below B) with ((fst r :: ops) ++ rev (y_loc y) ++ b_below B).
    rewrite setm_mk.
    - rewrite mst_of_mk. reflexivity.
    - mkcbn. cbn [app]. rewrite !zl_cons. lia.
  Qed.
End StepsMk.

(** * Locals, fused instructions, calls and returns on activation states *)

Lemma rev_replace_nth : forall A (L : list A) idx v, (idx < length L)%nat ->
  rev (replace_nth idx v L) = replace_nth (length L - 1 - idx) v (rev L).
Proof.
  intros A L. induction L as [|a L IH]; intros idx v H; [cbn [length] in H; lia|].
  destruct idx as [|i]; cbn [replace_nth rev length].
  - replace (S (length L) - 1 - 0)%nat with (length (rev L) + 0)%nat by (rewrite rev_length; lia).
    rewrite replace_nth_app2. reflexivity.
  - cbn [length] in H. rewrite IH by lia.
    replace (S (length L) - 1 - S i)%nat with (length L - 1 - i)%nat by lia.
    rewrite VMStepProofs.replace_nth_app1 by (rewrite rev_length; lia). reflexivity.
Qed.

Lemma nth_error_nth_in : forall A (l : list A) i d, (i < length l)%nat -> nth_error l i = Some (nth i l d).
Proof. intros A l i d H. apply nth_error_nth'. exact H. Qed.

Lemma get_local_mk : forall B tip ops y ip fin idx, (idx < length (y_loc y))%nat ->
  get_local (Z.of_nat idx) (mk B tip ops y ip fin) = Ok (nth idx (y_loc y) VNull).
Proof.
  intros B tip ops y ip fin idx H. unfold get_local. mkcbn.
  rewrite !zlength_app, zlength_rev. unfold zlength.
  destruct (Z.ltb_spec (Z.of_nat (length (b_below B)) + Z.of_nat idx)
              (Z.of_nat (length ops) + (Z.of_nat (length (y_loc y)) + Z.of_nat (length (b_below B))))) as [_|N]; [|lia].
  replace (Z.to_nat (Z.of_nat (length ops) + (Z.of_nat (length (y_loc y)) + Z.of_nat (length (b_below B))) - 1 -
                     (Z.of_nat (length (b_below B)) + Z.of_nat idx)))
    with (length ops + (length (y_loc y) - 1 - idx))%nat by lia.
  rewrite nth_error_app2 by lia. replace (length ops + (length (y_loc y) - 1 - idx) - length ops)%nat
    with (length (y_loc y) - 1 - idx)%nat by lia.
  rewrite nth_error_app1 by (rewrite rev_length; lia).
  rewrite VMStepProofs.nth_error_rev by lia.
  replace (length (y_loc y) - S (length (y_loc y) - 1 - idx))%nat with idx by lia.
  rewrite (nth_error_nth_in _ _ _ VNull H). reflexivity.
Qed.

Lemma set_local_mk : forall B tip ops y ip fin idx v, (idx < length (y_loc y))%nat ->
  set_local (Z.of_nat idx) v (mk B tip ops y ip fin)
  = Ok (mk B tip ops (mkY (y_m y) (replace_nth idx v (y_loc y)) (y_funs y)) ip fin).
Proof.
  intros B tip ops y ip fin idx v H. unfold set_local. mkcbn.
  rewrite !zlength_app, zlength_rev. unfold zlength.
  destruct (Z.ltb_spec (Z.of_nat (length (b_below B)) + Z.of_nat idx)
              (Z.of_nat (length ops) + (Z.of_nat (length (y_loc y)) + Z.of_nat (length (b_below B))))) as [_|N]; [|lia].
  replace (Z.to_nat (Z.of_nat (length ops) + (Z.of_nat (length (y_loc y)) + Z.of_nat (length (b_below B))) - 1 -
                     (Z.of_nat (length (b_below B)) + Z.of_nat idx)))
    with (length ops + (length (y_loc y) - 1 - idx))%nat by lia.
  rewrite replace_nth_app2. rewrite VMStepProofs.replace_nth_app1 by (rewrite rev_length; lia).
  rewrite <- rev_replace_nth by exact H.
  f_equal. unfold mk, upd_stack. mkcbn. f_equal.
  unfold zlength. rewrite !app_length, !rev_length, length_replace_nth. lia.
Qed.

Section StepsMk2.
  Variable orc : oracle.
  Variable prog : program.

  Ltac dec Hc op :=
    unfold step; rewrite (code_at_0 _ _ _ _ Hc); rewrite (opcode_roundtrip op); cbv beta iota zeta.

  Lemma mk_step_get_local : forall B tip ops y ip fin idx rest,
    code_at prog ip (byte_of_opcode OGetLocal :: Z.of_nat idx mod 256 :: (Z.of_nat idx / 256) mod 256 :: rest) ->
    0 <= Z.of_nat idx < 65536 -> (idx < length (y_loc y))%nat ->
    step orc prog (mk B tip ops y ip fin)
    = Ok (Continue (mk B tip (nth idx (y_loc y) VNull :: ops) y (ip + 3) fin)).
  Proof.
    intros B tip ops y ip fin idx rest Hc Hv Hl. set (s := mk B tip ops y ip fin).
    assert (v_ip s = ip) as Hip by reflexivity. rewrite <- Hip in Hc. dec Hc OGetLocal.
    rewrite (read_u16_op prog s _ (Z.of_nat idx) rest Hc Hv). cbn [bind].
    change (get_local (Z.of_nat idx) (upd_ip s (v_ip s + 3))) with (get_local (Z.of_nat idx) s).
    unfold s at 1. rewrite (get_local_mk B tip ops y ip fin idx Hl). cbn [bind]. apply okc.
    unfold s, mk, push, upd_ip, upd_stack. mkcbn. cbn [app]. rewrite zl_cons. reflexivity.
  Qed.

  Lemma mk_step_set_local : forall B tip ops y ip fin idx x rest,
    code_at prog ip (byte_of_opcode OSetLocal :: Z.of_nat idx mod 256 :: (Z.of_nat idx / 256) mod 256 :: rest) ->
    0 <= Z.of_nat idx < 65536 -> (idx < length (y_loc y))%nat ->
    step orc prog (mk B tip (x :: ops) y ip fin)
    = Ok (Continue (mk B tip ops (mkY (y_m y) (replace_nth idx x (y_loc y)) (y_funs y)) (ip + 3) fin)).
  Proof.
    intros B tip ops y ip fin idx x rest Hc Hv Hl. set (s := mk B tip (x :: ops) y ip fin).
    assert (v_ip s = ip) as Hip by reflexivity. rewrite <- Hip in Hc. dec Hc OSetLocal.
    rewrite (read_u16_op prog s _ (Z.of_nat idx) rest Hc Hv). cbn [bind].
    unfold pop. unfold s at 1. mkcbn. cbn [app]. mkcbn.
    assert (upd_stack (upd_ip s (v_ip s + 3)) (ops ++ rev (y_loc y) ++ b_below B) (v_slen s - 1)
            = mk B tip ops y (ip + 3) fin) as ->.
    { unfold s, mk, upd_stack, upd_ip. mkcbn. cbn [app]. rewrite zl_cons. f_equal. lia. }
    rewrite (set_local_mk B tip ops y (ip + 3) fin idx x Hl). reflexivity.
  Qed.

  (* the eleven fused instructions: local slot, constant, the method of the dispatch table *)
  Lemma mk_step_fused : forall B tip ops y ip fin fo m idx ci k rest,
    VMStepProofs.code_at prog ip (byte_of_opcode fo :: Z.of_nat idx mod 256 :: (Z.of_nat idx / 256) mod 256
                       :: ci mod 256 :: (ci / 256) mod 256 :: rest) ->
    assoc opcode_eqb fo fused_dispatch = Some m ->
    0 <= Z.of_nat idx < 65536 -> (idx < length (y_loc y))%nat ->
    0 <= ci < 65536 -> nth_error (p_consts prog) (Z.to_nat ci) = Some k ->
    step orc prog (mk B tip ops y ip fin) =
    match binop orc m (m_heap (y_m y)) (nth idx (y_loc y) VNull) k with
    | Ok r => Ok (Continue (mk B tip (fst r :: ops) (mkY (with_new_m (y_m y) r) (y_loc y) (y_funs y)) (ip + 5) fin))
    | Err e => Err e | Fault f => Fault f | OutOfFuel => OutOfFuel
    end.
  Proof.
    intros B tip ops y ip fin fo m idx ci k rest Hc Hm Hv Hl Hci Hk. set (s := mk B tip ops y ip fin).
    assert (v_ip s = ip) as Hip by reflexivity. rewrite <- Hip in Hc.
    rewrite (VMStepProofs.step_fused orc prog s fo m (VMStepProofs.code_at_head _ _ _ _ Hc) Hm).
    assert (VMStepProofs.code_at prog (v_ip (upd_ip s (v_ip s + 1)))
              (Z.of_nat idx mod 256 :: (Z.of_nat idx / 256) mod 256 :: ci mod 256 :: (ci / 256) mod 256 :: rest)) as Hc4.
    { apply (VMStepProofs.code_at_tail prog (v_ip s) (byte_of_opcode fo)). exact Hc. }
    rewrite (VMStepProofs.fused_nf orc prog m (upd_ip s (v_ip s + 1)) _ _ _ _ rest Hc4).
    rewrite (u16_roundtrip _ Hv), (u16_roundtrip _ Hci).
    change (get_local (Z.of_nat idx) (upd_ip s (v_ip s + 1))) with (get_local (Z.of_nat idx) s).
    unfold s at 1. rewrite (get_local_mk B tip ops y ip fin idx Hl). unfold VMStepProofs.cont. cbn [bind].
    unfold get_const. rewrite Hk. cbn [bind].
    change (v_heap (upd_ip s (v_ip s + 1))) with (m_heap (y_m y)).
    destruct (binop orc m (m_heap (y_m y)) (nth idx (y_loc y) VNull) k) as [r| | |]; try reflexivity.
    cbn [bind]. apply okc. destruct r as [v h'].
    unfold s, mk, push, with_new, with_new_m, upd_ip, upd_heap, upd_stack. mkcbn.
    destruct (Pos.eqb (next_loc h') (next_loc (m_heap (y_m y)))); mkcbn; cbn [app]; rewrite zl_cons;
      f_equal; lia.
  Qed.

  (* Call: the frame of the callee; or the machine is at its limit *)
  Lemma mk_step_call : forall B tip ops y ip fin fip n args rest,
    VMStepProofs.code_at prog ip (byte_of_opcode OCall :: zlength args :: rest) ->
    zlength args <= n ->
    let s := mk B tip (VFun fip n :: rev args ++ ops) y ip fin in
    at_limit prog s \/
    step orc prog s
    = Ok (Continue (mk (mkB (ops ++ rev (y_loc y) ++ b_below B)
                            (mkFrame (ip + 2) (zlength (b_below B)) :: b_rest B) (b_out B))
                       fip [] (mkY (y_m y) (args ++ repeat_val VNull (Z.to_nat (n - zlength args))) (y_funs y))
                       fip fin)).
  Proof.
    intros B tip ops y ip fin fip n args rest Hc Hn s.
    assert (v_stack s = VFun fip n :: rev args ++ (ops ++ rev (y_loc y) ++ b_below B)) as Hst.
    { unfold s. mkcbn. cbn [app]. rewrite <- app_assoc. reflexivity. }
    assert (v_slen s = zlength (v_stack s)) as Hlen by reflexivity.
    destruct (Z_lt_le_dec MAX_STACK_SIZE (v_slen s - 1 + n)) as [L1|L1].
    { left. exists (zlength args), fip, n, (rev args ++ (ops ++ rev (y_loc y) ++ b_below B)).
      split; [exact (VMStepProofs.code_at_head _ _ _ _ Hc)|].
      split; [exact (VMStepProofs.code_at_head _ _ _ _ (VMStepProofs.code_at_tail _ _ _ _ Hc))|].
      split; [exact Hst|]. split; [exact Hn|]. left. exact L1. }
    destruct (Z_le_gt_dec MAX_FRAMES (zlength (v_frames s))) as [L2|L2].
    { left. exists (zlength args), fip, n, (rev args ++ (ops ++ rev (y_loc y) ++ b_below B)).
      split; [exact (VMStepProofs.code_at_head _ _ _ _ Hc)|].
      split; [exact (VMStepProofs.code_at_head _ _ _ _ (VMStepProofs.code_at_tail _ _ _ _ Hc))|].
      split; [exact Hst|]. split; [exact Hn|]. right. exact L2. }
    right.
    rewrite (VMStepProofs.call_frame orc prog s (zlength args) fip n (rev args)
               (ops ++ rev (y_loc y) ++ b_below B) (mkFrame tip (zlength (b_below B))) (b_rest B) rest
               Hc Hst Hlen (zlength_rev _ args) Hn L1 eq_refl ltac:(lia)).
    apply okc. unfold VMStepProofs.called, mk. mkcbn. cbn [app].
    rewrite rev_app_distr, rev_repeat_val, <- app_assoc.
    pose proof (zlength_nonneg _ args) as Hna.
    f_equal. rewrite !zlength_app, zlength_repeat_val, !zlength_rev. lia.
  Qed.

  (* ReturnValue / Return when the collector manages no object *)
  Lemma mk_step_return_value : forall B tip ops y ip fin v ret cbp rest tl,
    VMStepProofs.code_at prog ip (byte_of_opcode OReturnValue :: tl) ->
    b_rest B = mkFrame ret cbp :: rest -> objects (m_gc (y_m y)) = [] ->
    step orc prog (mk B tip (v :: ops) y ip fin) = Ok (Continue (ret_state B ret cbp rest v y fin)).
  Proof.
    intros B tip ops y ip fin v ret cbp rest tl Hc Hr Hg. set (s := mk B tip (v :: ops) y ip fin).
    assert (v_stack s = v :: (ops ++ rev (y_loc y)) ++ b_below B) as Hst
      by (unfold s; mkcbn; cbn [app]; rewrite <- app_assoc; reflexivity).
    rewrite (VMStepProofs.return_value_step orc prog s v (ops ++ rev (y_loc y)) (b_below B)
               (mkFrame tip (zlength (b_below B))) ret cbp rest (VMStepProofs.code_at_head _ _ _ _ Hc) Hst eq_refl
               ltac:(unfold s; mkcbn; rewrite Hr; reflexivity) eq_refl).
    rewrite collect_nil by exact Hg. cbn [bind]. apply okc.
    unfold VMStepProofs.resumed, ret_state, push, s. mkcbn. rewrite zl_cons. reflexivity.
  Qed.

  Lemma mk_step_return : forall B tip ops y ip fin ret cbp rest tl,
    VMStepProofs.code_at prog ip (byte_of_opcode OReturn :: tl) ->
    b_rest B = mkFrame ret cbp :: rest -> objects (m_gc (y_m y)) = [] ->
    step orc prog (mk B tip ops y ip fin) = Ok (Continue (ret_state B ret cbp rest VNull y fin)).
  Proof.
    intros B tip ops y ip fin ret cbp rest tl Hc Hr Hg. set (s := mk B tip ops y ip fin).
    assert (v_stack s = (ops ++ rev (y_loc y)) ++ b_below B) as Hst
      by (unfold s; mkcbn; rewrite <- app_assoc; reflexivity).
    rewrite (VMStepProofs.return_step orc prog s (ops ++ rev (y_loc y)) (b_below B)
               (mkFrame tip (zlength (b_below B))) ret cbp rest (VMStepProofs.code_at_head _ _ _ _ Hc) Hst eq_refl
               ltac:(unfold s; mkcbn; rewrite Hr; reflexivity) eq_refl).
    rewrite collect_nil by exact Hg. cbn [bind]. apply okc.
    unfold VMStepProofs.resumed, ret_state, push, s. mkcbn. rewrite zl_cons. reflexivity.
  Qed.

  (* the caller's view of the state a callee returns to *)
  Lemma ret_state_caller : forall B ops L0 ip v y3 fin funs,
    ret_state (mkB (ops ++ rev L0 ++ b_below B) (mkFrame ip (zlength (b_below B)) :: b_rest B) (b_out B))
              ip (zlength (b_below B)) (b_rest B) v y3 fin
    = mk B ip (v :: ops) (mkY (y_m y3) L0 funs) ip fin.
  Proof. intros. unfold ret_state, mk. mkcbn. reflexivity. Qed.

  (* Halt with a final value that is not a heap object *)
  Lemma step_halt_nh : forall s rest,
    code_at prog (v_ip s) (byte_of_opcode OHalt :: rest) -> val_loc (v_final s) = None ->
    exists s', step orc prog s = Ok (Halted (v_final s) s') /\ v_out s' = v_out s.
  Proof.
    intros s rest Hc Hf. dec Hc OHalt.
    assert (forall g, untrace (v_heap s) g (v_final s) = Ok g) as Hu.
    { intros g. unfold untrace. cbn [untrace_fuel].
      assert (forall l, position_of (v_final s) l = None) as Hp.
      { induction l as [|x l IH]; cbn [position_of]; [reflexivity|].
        unfold same_box. rewrite Hf. destruct (val_loc x); rewrite IH; reflexivity. }
      rewrite Hp. reflexivity. }
    rewrite Hu. cbn [bind]. eexists. split; [reflexivity|]. reflexivity.
  Qed.
End StepsMk2.

(** * The intermediate evaluator *)

Inductive yres (A : Type) : Type :=
| YOk (a : A) (y : yst)
| YBrk (y : yst)                     (* stop *)
| YCnt (y : yst)                     (* volgende *)
| YRet (v : val) (y : yst)           (* antwoord *)
| YErr (k : errkind)
| YFault (f : fault)
| YExcl                              (* the run enters an excluded state (== on two functions) *)
| YFuel.                             (* out of fuel, or outside what the evaluator describes *)
Arguments YOk {A} a y.
Arguments YBrk {A} y.
Arguments YCnt {A} y.
Arguments YRet {A} v y.
Arguments YErr {A} k.
Arguments YFault {A} f.
Arguments YExcl {A}.
Arguments YFuel {A}.

Definition ybind {A B} (x : yres A) (k : A -> yst -> yres B) : yres B :=
  match x with
  | YOk a y => k a y
  | YBrk y => YBrk y
  | YCnt y => YCnt y
  | YRet v y => YRet v y
  | YErr e => YErr e
  | YFault f => YFault f
  | YExcl => YExcl
  | YFuel => YFuel
  end.

Definition ylift_h (y : yst) (r : outcome (val * heap)) : yres val :=
  match r with
  | Ok x => YOk (fst x) (mkY (with_new_m (y_m y) x) (y_loc y) (y_funs y))
  | Err k => YErr k
  | Fault f => YFault f
  | OutOfFuel => YFuel
  end.
Definition ylift_p (y : yst) (r : outcome val) : yres val :=
  match r with
  | Ok v => YOk v y
  | Err k => YErr k
  | Fault f => YFault f
  | OutOfFuel => YFuel
  end.

(* a variable: a global slot or a slot of the current activation *)
Definition y_get (sy : symbol) (y : yst) : val :=
  match s_scope sy with
  | SGlobal => nth (s_index sy) (m_gl (y_m y)) VNull
  | SLocal => nth (s_index sy) (y_loc y) VNull
  end.
Definition y_set (sy : symbol) (v : val) (y : yst) : yst :=
  match s_scope sy with
  | SGlobal => mkY (set_global_m (s_index sy) v (y_m y)) (y_loc y) (y_funs y)
  | SLocal => mkY (y_m y) (replace_nth (s_index sy) v (y_loc y)) (y_funs y)
  end.

Definition gc_clean (y : yst) : bool := match objects (m_gc (y_m y)) with [] => true | _ => false end.
Definition is_fun (v : val) : bool := match v with VFun _ _ => true | _ => false end.
Definition is_eqop (o : operator) : bool := match o with OpEq | OpNeq => true | _ => false end.

Fixpoint find_fun (ip : Z) (l : list fentry) : option fentry :=
  match l with
  | [] => None
  | fe :: r => if fe_ip fe =? ip then Some fe else find_fun ip r
  end.

(* the compiler states at the inner points of `als`, `zolang` and a function literal *)
Definition if_st2 (st1 : cstate) : cstate := emit_u16 JUMP_PLACEHOLDER (emit_opcode OJumpIfFalse st1).
Definition if_st5 (st1 : cstate) (t : list stmt) : outcome cstate :=
  do st3 <- c_block_value t (if_st2 st1);
  let st4 := emit_u16 JUMP_PLACEHOLDER (emit_opcode OJump st3) in
  change_jump_operand_at (code_len st1) (code_len st4) st4.
Definition wh_st2 (st : cstate) : cstate :=
  let st1 := emit_opcode ONull st in set_loops st1 (c_loops st1 ++ [mkLoop (code_len st1) []]).
Definition wh_st4 (st3 : cstate) : cstate :=
  emit_opcode OPop (emit_u16 JUMP_PLACEHOLDER (emit_opcode OJumpIfFalse st3)).
Definition fun_st1 (name : text) (st : cstate) : cstate * option symbol :=
  if is_nil name then (st, None)
  else let '(t, s) := define (c_symbols st) name in (set_symbols st t, Some s).
Definition fun_st3 (ps : list text) (st1 : cstate) : cstate :=
  let st2 := emit_u16 JUMP_PLACEHOLDER (emit_opcode OJump st1) in
  set_loops (set_symbols st2 (fold_left (fun t p => fst (define t p)) ps (new_context (c_symbols st2)))) [].

Section YEval.
  Variable orc : oracle.

  Definition ybinop (op : operator) (a b : val) (y : yst) : yres val :=
    if is_fun a && is_fun b && is_eqop op then YExcl
    else match Sem.method_of op with
         | Some mth => ylift_h y (binop orc mth (m_heap (y_m y)) a b)
         | None => YErr ETypeError
         end.

  (* the fused instruction: local slot `name`, literal v, operator op' (the compiler's choice) *)
  Definition yfused (st : cstate) (name : text) (v : Z) (op' : operator) (y : yst) : yres val :=
    match resolve (c_symbols st) name, assoc operator_eqb op' fused_table with
    | Some sy, Some opc =>
        match assoc opcode_eqb opc fused_dispatch with
        | Some m => ylift_h y (binop orc m (m_heap (y_m y)) (y_get sy y) (VInt v))
        | None => YFault FBadOpcode
        end
    | _, _ => YFault FUnwrap
    end.

  (* a function literal: the machine's function value; the literal is entered in the table;
     a named one is stored in its variable *)
  Definition yfunction (name : text) (ps : list text) (body : list stmt) (st : cstate) (y : yst) : yres val :=
    let '(st1, sym) := fun_st1 name st in
    let st3 := fun_st3 ps st1 in
    match c_block_statement body st3 with
    | Ok st4 =>
        let nl := Z.of_nat (snd (leave_context (c_symbols st4))) in
        let v := VFun (code_len st3) nl in
        let y1 := mkY (y_m y) (y_loc y) (y_funs y ++ [mkFE (code_len st3) nl ps body st3]) in
        YOk v (match sym with Some s => y_set s v y1 | None => y1 end)
    | _ => YFault FUnwrap
    end.

  (* a block in its own scope *)
  Definition yblock_g (ys : cstate -> list stmt -> val -> yst -> yres val)
             (st : cstate) (b : list stmt) (y : yst) : yres val :=
    if is_nil b then ys st [] VNull y
    else ys (set_symbols st (enter_scope (c_symbols st))) b VNull y.

  (* the call of a function value with the evaluated arguments: a fresh activation *)
  Definition ycall_g (ys : cstate -> list stmt -> val -> yst -> yres val)
             (fv : val) (vs : list val) (y : yst) : yres val :=
    match fv with
    | VFun ip n =>
        if n <? zlength vs then YErr EArgumentError
        else match find_fun ip (y_funs y) with
             | Some fe =>
                 if negb (fe_n fe =? n) then YFuel
                 else
                   let y0 := mkY (y_m y) (vs ++ repeat_val VNull (Z.to_nat (n - zlength vs))) (y_funs y) in
                   match yblock_g ys (fe_st fe) (fe_body fe) y0 with
                   | YOk v y3 => if gc_clean y3 then YOk v (mkY (y_m y3) (y_loc y) (y_funs y3)) else YFuel
                   | YRet v y3 => YOk v (mkY (y_m y3) (y_loc y) (y_funs y3))
                   | YBrk _ | YCnt _ => YFault FUnwrap
                   | YErr k => YErr k
                   | YFault x => YFault x
                   | YExcl => YExcl
                   | YFuel => YFuel
                   end
             | None => YFuel
             end
    | _ => YErr ETypeError
    end.

  Fixpoint yargs_g (ye : cstate -> expr -> yst -> yres val) (st : cstate) (l : list expr) (y : yst)
    : yres (list val) :=
    match l with
    | [] => YOk [] y
    | x :: r =>
        ybind (ye st x y) (fun v y1 =>
          match compile_expression x st with
          | Ok st1 => ybind (yargs_g ye st1 r y1) (fun vs y2 => YOk (v :: vs) y2)
          | _ => YFault FUnwrap
          end)
    end.

  (* same fuel discipline as Sem.eval_expr / eval_while / exec_block *)
  Fixpoint yeval (fuel : nat) (st : cstate) (e : expr) (y : yst) {struct fuel} : yres val :=
    match fuel with
    | O => YFuel
    | S f =>
        match e with
        | EInt z => YOk (VInt z) y
        | EBool b => YOk (VBool b) y
        | EIdent x =>
            match resolve (c_symbols st) x with
            | Some sy => YOk (y_get sy y) y
            | None => YErr EReferenceError
            end
        | EAssign l r =>
            match l with
            | EIdent x =>
                match resolve (c_symbols st) x with
                | Some sy => ybind (yeval f st r y) (fun v y1 => YOk v (y_set sy v y1))
                | None => YErr EReferenceError
                end
            | _ => YErr ETypeError
            end
        | EPrefix op r =>
            ybind (yeval f st r y) (fun v y1 =>
              match op with
              | OpNegate | OpSubtract => ylift_h y1 (negate (m_heap (y_m y1)) v)
              | OpNot => ylift_p y1 (lognot v)
              | _ => YErr ETypeError
              end)
        | EInfix l op r =>
            let generic := fun st0 : cstate =>
              ybind (yeval f st0 l y) (fun a y1 =>
                match compile_expression l st0 with
                | Ok st1 => ybind (yeval f st1 r y1) (fun b y2 => ybinop op a b y2)
                | _ => YFault FUnwrap
                end) in
            match fused_candidate l r op with
            | Some (name, v, op') =>
                let '(st1, done) := compile_const_var_infix name v op' st in
                if done : bool then yfused st name v op' y else generic st1
            | None => generic st
            end
        | EIf c t alt =>
            ybind (yeval f st c y) (fun b y1 =>
              match compile_expression c st with
              | Ok st1 =>
                  match b with
                  | VBool true => yblock_g (ystmts f) (if_st2 st1) t y1
                  | VBool false =>
                      match alt with
                      | Some bl =>
                          match if_st5 st1 t with
                          | Ok st5 => yblock_g (ystmts f) st5 bl y1
                          | _ => YFault FUnwrap
                          end
                      | None => YOk VNull y1
                      end
                  | _ => YErr ETypeError
                  end
              | _ => YFault FUnwrap
              end)
        | EWhile c body =>
            match compile_expression c (wh_st2 st) with
            | Ok st3 => ywhile f (wh_st2 st) (wh_st4 st3) c body VNull y
            | _ => YFault FUnwrap
            end
        | EFunction name ps body => yfunction name ps body st y
        | ECall fn args =>
            ybind (yargs_g (yeval f) st args y) (fun vs y1 =>
              match CompilerNames.compile_exprs args st with
              | Ok st1 => ybind (yeval f st1 fn y1) (fun fv y2 => ycall_g (ystmts f) fv vs y2)
              | _ => YFault FUnwrap
              end)
        | _ => YErr ETypeError
        end
    end

  (* st2: the state in which the condition is compiled, st4: the one for the body *)
  with ywhile (fuel : nat) (st2 st4 : cstate) (c : expr) (body : list stmt) (last : val) (y : yst)
         {struct fuel} : yres val :=
    match fuel with
    | O => YFuel
    | S f =>
        ybind (yeval f st2 c y) (fun b y1 =>
          match b with
          | VBool true =>
              match yblock_g (ystmts f) st4 body y1 with
              | YOk v y2 => ywhile f st2 st4 c body v y2
              | YBrk y2 => YOk VNull y2
              | YCnt y2 => ywhile f st2 st4 c body VNull y2
              | other => other
              end
          | VBool false => YOk last y1
          | _ => YErr ETypeError
          end)
    end

  with ystmts (fuel : nat) (st : cstate) (l : list stmt) (last : val) (y : yst) {struct fuel} : yres val :=
    match fuel with
    | O => YFuel
    | S f =>
        match l with
        | [] => YOk last y
        | s :: r =>
            match s with
            | SLet x e =>
                let '(t, sym) := define (c_symbols st) x in
                ybind (yeval f (set_symbols st t) e y) (fun v y1 =>
                  match compile_statement s st with
                  | Ok st2 => ystmts f st2 r VNull (y_set sym v y1)
                  | _ => YFault FUnwrap
                  end)
            | SExpr e =>
                ybind (yeval f st e y) (fun v y1 =>
                  match compile_statement s st with
                  | Ok st2 => ystmts f st2 r v y1
                  | _ => YFault FUnwrap
                  end)
            | SBlock b =>
                ybind (yblock_g (ystmts f) st b y) (fun v y1 =>
                  match compile_statement s st with
                  | Ok st2 => ystmts f st2 r v y1
                  | _ => YFault FUnwrap
                  end)
            | SReturn e =>
                ybind (yeval f st e y) (fun v y1 => if gc_clean y1 then YRet v y1 else YFuel)
            | SBreak => YBrk y
            | SContinue => YCnt y
            end
        end
    end.

  Definition yblock (f : nat) := yblock_g (ystmts f).
  Definition ycall (f : nat) := ycall_g (ystmts f).
  Definition yargs (f : nat) := yargs_g (yeval f).

  (** ** Unfolding equations *)

  Lemma ye_int : forall f st z y, yeval (S f) st (EInt z) y = YOk (VInt z) y.
  Proof. reflexivity. Qed.
  Lemma ye_bool : forall f st b y, yeval (S f) st (EBool b) y = YOk (VBool b) y.
  Proof. reflexivity. Qed.
  Lemma ye_ident : forall f st x y,
    yeval (S f) st (EIdent x) y =
    match resolve (c_symbols st) x with
    | Some sy => YOk (y_get sy y) y
    | None => YErr EReferenceError
    end.
  Proof. reflexivity. Qed.
  Lemma ye_assign : forall f st x r y,
    yeval (S f) st (EAssign (EIdent x) r) y =
    match resolve (c_symbols st) x with
    | Some sy => ybind (yeval f st r y) (fun v y1 => YOk v (y_set sy v y1))
    | None => YErr EReferenceError
    end.
  Proof. reflexivity. Qed.
  Lemma ye_prefix : forall f st op r y,
    yeval (S f) st (EPrefix op r) y =
    ybind (yeval f st r y) (fun v y1 =>
      match op with
      | OpNegate | OpSubtract => ylift_h y1 (negate (m_heap (y_m y1)) v)
      | OpNot => ylift_p y1 (lognot v)
      | _ => YErr ETypeError
      end).
  Proof. reflexivity. Qed.

  Definition ygeneric (f : nat) (l : expr) (op : operator) (r : expr) (st0 : cstate) (y : yst) : yres val :=
    ybind (yeval f st0 l y) (fun a y1 =>
      match compile_expression l st0 with
      | Ok st1 => ybind (yeval f st1 r y1) (fun b y2 => ybinop op a b y2)
      | _ => YFault FUnwrap
      end).

  Lemma ye_infix : forall f st l op r y,
    yeval (S f) st (EInfix l op r) y =
    match fused_candidate l r op with
    | Some (name, v, op') =>
        let '(st1, done) := compile_const_var_infix name v op' st in
        if done : bool then yfused st name v op' y else ygeneric f l op r st1 y
    | None => ygeneric f l op r st y
    end.
  Proof. reflexivity. Qed.

  Lemma ye_if : forall f st c t alt y,
    yeval (S f) st (EIf c t alt) y =
    ybind (yeval f st c y) (fun b y1 =>
      match compile_expression c st with
      | Ok st1 =>
          match b with
          | VBool true => yblock f (if_st2 st1) t y1
          | VBool false =>
              match alt with
              | Some bl =>
                  match if_st5 st1 t with
                  | Ok st5 => yblock f st5 bl y1
                  | _ => YFault FUnwrap
                  end
              | None => YOk VNull y1
              end
          | _ => YErr ETypeError
          end
      | _ => YFault FUnwrap
      end).
  Proof. reflexivity. Qed.

  Lemma ye_while : forall f st c body y,
    yeval (S f) st (EWhile c body) y =
    match compile_expression c (wh_st2 st) with
    | Ok st3 => ywhile f (wh_st2 st) (wh_st4 st3) c body VNull y
    | _ => YFault FUnwrap
    end.
  Proof. reflexivity. Qed.

  Lemma yw_step : forall f st2 st4 c body last y,
    ywhile (S f) st2 st4 c body last y =
    ybind (yeval f st2 c y) (fun b y1 =>
      match b with
      | VBool true =>
          match yblock f st4 body y1 with
          | YOk v y2 => ywhile f st2 st4 c body v y2
          | YBrk y2 => YOk VNull y2
          | YCnt y2 => ywhile f st2 st4 c body VNull y2
          | other => other
          end
      | VBool false => YOk last y1
      | _ => YErr ETypeError
      end).
  Proof. reflexivity. Qed.

  Lemma ye_function : forall f st name ps body y,
    yeval (S f) st (EFunction name ps body) y = yfunction name ps body st y.
  Proof. reflexivity. Qed.

  Lemma ye_call : forall f st fn args y,
    yeval (S f) st (ECall fn args) y =
    ybind (yargs f st args y) (fun vs y1 =>
      match CompilerNames.compile_exprs args st with
      | Ok st1 => ybind (yeval f st1 fn y1) (fun fv y2 => ycall f fv vs y2)
      | _ => YFault FUnwrap
      end).
  Proof. reflexivity. Qed.

  Lemma ya_nil : forall f st y, yargs f st [] y = YOk [] y.
  Proof. reflexivity. Qed.
  Lemma ya_cons : forall f st x r y,
    yargs f st (x :: r) y =
    ybind (yeval f st x y) (fun v y1 =>
      match compile_expression x st with
      | Ok st1 => ybind (yargs f st1 r y1) (fun vs y2 => YOk (v :: vs) y2)
      | _ => YFault FUnwrap
      end).
  Proof. reflexivity. Qed.

  Lemma ys_nil : forall f st last y, ystmts (S f) st [] last y = YOk last y.
  Proof. reflexivity. Qed.
  Lemma ys_let : forall f st x e r last y,
    ystmts (S f) st (SLet x e :: r) last y =
    let '(t, sym) := define (c_symbols st) x in
    ybind (yeval f (set_symbols st t) e y) (fun v y1 =>
      match compile_statement (SLet x e) st with
      | Ok st2 => ystmts f st2 r VNull (y_set sym v y1)
      | _ => YFault FUnwrap
      end).
  Proof. reflexivity. Qed.
  Lemma ys_expr : forall f st e r last y,
    ystmts (S f) st (SExpr e :: r) last y =
    ybind (yeval f st e y) (fun v y1 =>
      match compile_statement (SExpr e) st with
      | Ok st2 => ystmts f st2 r v y1
      | _ => YFault FUnwrap
      end).
  Proof. reflexivity. Qed.
  Lemma ys_block : forall f st b r last y,
    ystmts (S f) st (SBlock b :: r) last y =
    ybind (yblock f st b y) (fun v y1 =>
      match compile_statement (SBlock b) st with
      | Ok st2 => ystmts f st2 r v y1
      | _ => YFault FUnwrap
      end).
  Proof. reflexivity. Qed.
  Lemma ys_return : forall f st e r last y,
    ystmts (S f) st (SReturn e :: r) last y =
    ybind (yeval f st e y) (fun v y1 => if gc_clean y1 then YRet v y1 else YFuel).
  Proof. reflexivity. Qed.
  Lemma ys_break : forall f st r last y, ystmts (S f) st (SBreak :: r) last y = YBrk y.
  Proof. reflexivity. Qed.
  Lemma ys_continue : forall f st r last y, ystmts (S f) st (SContinue :: r) last y = YCnt y.
  Proof. reflexivity. Qed.
End YEval.

Print Assumptions gc_run_nil.
Print Assumptions mk_step_call.
Print Assumptions mk_step_return_value.
Print Assumptions mk_step_return.
Print Assumptions mk_step_fused.
Print Assumptions mk_step_get_local.
Print Assumptions mk_step_set_local.
