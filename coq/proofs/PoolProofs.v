(* PoolProofs.v - property C10, compiler side: the constant pool (add_constant) and the choice of
   the fused variable-op-constant instruction (fused_candidate).  Proofs only. *)
From NL.Model Require Import Compiler.
From NL.Spec Require Import ArithSpec.
From NL.Proofs Require Import OpsProofs.
Open Scope Z_scope.

(** * 1. const_position *)

Lemma const_position_some : forall k l pos,
  const_position k l = Some pos ->
  exists k', nth_error l pos = Some k' /\ const_eqb k' k = true
             /\ forall j c, (j < pos)%nat -> nth_error l j = Some c -> const_eqb c k = false.
Proof.
  intros k l. induction l as [|c r IH]; intros pos H.
  - discriminate H.
  - cbn [const_position] in H. destruct (const_eqb c k) eqn:E.
    + inversion H; subst. exists c. repeat split; auto. intros j c' Hj. lia.
    + destruct (const_position k r) as [p|] eqn:P; [|discriminate H].
      cbn [option_map] in H. inversion H; subst.
      destruct (IH p eq_refl) as (k' & Hn & He & Hlt).
      exists k'. repeat split; auto.
      intros j c' Hj Hc. destruct j as [|j]; cbn [nth_error] in Hc.
      * inversion Hc; subst; exact E.
      * apply (Hlt j c'); [lia|exact Hc].
Qed.

Lemma const_position_none : forall k l,
  const_position k l = None -> forall j c, nth_error l j = Some c -> const_eqb c k = false.
Proof.
  intros k l. induction l as [|c r IH]; intros H j c' Hc.
  - destruct j; discriminate Hc.
  - cbn [const_position] in H. destruct (const_eqb c k) eqn:E; [discriminate H|].
    destruct (const_position k r) eqn:P; [discriminate H|].
    destruct j as [|j]; cbn [nth_error] in Hc.
    + inversion Hc; subst; exact E.
    + exact (IH eq_refl j c' Hc).
Qed.

Lemma const_eqb_int : forall c z, const_eqb c (KInt z) = true -> c = KInt z.
Proof.
  intros c z H. destruct c; cbn [const_eqb] in H; try discriminate H.
  apply Z.eqb_eq in H. subst. reflexivity.
Qed.

Lemma text_eqb_eq : forall a b, text_eqb a b = true -> a = b.
Proof.
  induction a as [|x a IH]; destruct b as [|y b]; cbn [text_eqb]; intro H; try discriminate H; auto.
  apply andb_true_iff in H. destruct H as [H1 H2]. apply N.eqb_eq in H1. subst. f_equal. auto.
Qed.

(* every kind of constant except floats is found again as the identical constant *)
Lemma const_eqb_exact : forall c k, (forall f, k <> KFloat f) -> const_eqb c k = true -> c = k.
Proof.
  intros c k Hf H. destruct c, k; cbn [const_eqb] in H; try discriminate H.
  - apply Z.eqb_eq in H. subst. reflexivity.
  - exfalso. exact (Hf _ eq_refl).
  - apply text_eqb_eq in H. subst. reflexivity.
  - apply andb_true_iff in H. destruct H as [H1 H2].
    apply Z.eqb_eq in H1. apply Z.eqb_eq in H2. subst. reflexivity.
Qed.

Lemma operand_ok : forall bits v i, operand bits v = Ok i -> i = v /\ v < 2 ^ bits.
Proof.
  intros bits v i H. unfold operand in H. destruct (v <? 2 ^ bits) eqn:E; [|discriminate H].
  inversion H; subst. apply Z.ltb_lt in E. auto.
Qed.

(** * 2. A2: the pool is stable *)

(* only the pool differs *)
Definition same_but_pool (st st' : cstate) : Prop :=
  c_symbols st' = c_symbols st /\ c_code st' = c_code st /\ c_last st' = c_last st
  /\ c_loops st' = c_loops st /\ c_lit_allocs st' = c_lit_allocs st.

(* no later entry of the pool is "equal" (in add_constant's sense) to an earlier one.  (With NaN,
   which is not equal to itself, the pool may hold several NaN entries; they are not merged.) *)
Definition pool_nodup (l : list const) : Prop :=
  forall i j a b, (i < j)%nat -> nth_error l i = Some a -> nth_error l j = Some b ->
                  const_eqb a b = false.

(* The naive statement `const_eqb k' k = true` for the returned slot is FALSE for k = KFloat nan:
   const_eqb (KFloat nan) (KFloat nan) = false.
   The true statement: the returned slot holds a constant that is either const_eqb-equal to k
   (an older entry was reused) or k itself (a new entry was appended). *)
Example nan_not_self_equal : const_eqb (KFloat nan) (KFloat nan) = false.
Proof. vm_compute. reflexivity. Qed.

Theorem pool_stable : forall k st st' i,
  add_constant k st = (st', Ok i) ->
  0 <= i < 2 ^ 16
  /\ (exists k', nth_error (c_constants st') (Z.to_nat i) = Some k'
                 /\ (const_eqb k' k = true \/ k' = k))
  /\ (exists ext, c_constants st' = c_constants st ++ ext /\ (ext = [] \/ ext = [k]))
  /\ same_but_pool st st'.
Proof.
  intros k st st' i H. unfold add_constant in H.
  destruct (const_position k (c_constants st)) as [pos|] eqn:P.
  - inversion H as [[Hst Hop]]; subst st'. apply operand_ok in Hop. destruct Hop as [Hi Hb]. subst i.
    destruct (const_position_some _ _ _ P) as (k' & Hn & He & _).
    split; [lia|]. split.
    + exists k'. rewrite Nat2Z.id. auto.
    + split; [exists []; rewrite app_nil_r; auto|]. unfold same_but_pool. auto.
  - inversion H as [[Hst Hop]]; subst st'. apply operand_ok in Hop. destruct Hop as [Hi Hb]. subst i.
    cbn [c_constants c_symbols c_code c_last c_loops c_lit_allocs].
    unfold zlength in *. split; [lia|]. split.
    + exists k. rewrite Nat2Z.id. rewrite nth_error_app2 by lia. rewrite Nat.sub_diag. cbn [nth_error].
      auto.
    + split; [exists [k]; auto|]. unfold same_but_pool. auto.
Qed.

(* every constant that is not a float is found again as the IDENTICAL constant; in particular
   the integer constants of the fused instructions *)
Theorem pool_stable_exact : forall k st st' i,
  (forall f, k <> KFloat f) ->
  add_constant k st = (st', Ok i) ->
  nth_error (c_constants st') (Z.to_nat i) = Some k.
Proof.
  intros k st st' i Hf H. destruct (pool_stable _ _ _ _ H) as (_ & (k' & Hn & He) & _).
  destruct He as [He|He]; [apply (const_eqb_exact _ _ Hf) in He|]; subst; exact Hn.
Qed.

Corollary pool_stable_int : forall z st st' i,
  add_constant (KInt z) st = (st', Ok i) ->
  nth_error (c_constants st') (Z.to_nat i) = Some (KInt z).
Proof. intros z st st' i. apply pool_stable_exact. intros f; discriminate. Qed.

(* entries already in the pool keep their index (prefix), whatever the outcome of the operand
   conversion *)
Theorem pool_prefix : forall k st st' r,
  add_constant k st = (st', r) ->
  (exists ext, c_constants st' = c_constants st ++ ext) /\ same_but_pool st st'
  /\ forall j c, nth_error (c_constants st) j = Some c -> nth_error (c_constants st') j = Some c.
Proof.
  intros k st st' r H. unfold add_constant in H.
  destruct (const_position k (c_constants st)) as [pos|] eqn:P; inversion H; subst st' r; clear H.
  - split; [exists []; rewrite app_nil_r; auto|]. split; [unfold same_but_pool; auto|auto].
  - cbn [c_constants]. split; [exists [k]; auto|]. split; [unfold same_but_pool; auto|].
    intros j c Hj. rewrite nth_error_app1; [exact Hj|]. apply nth_error_Some. rewrite Hj. discriminate.
Qed.

Theorem pool_nodup_preserved : forall k st st' r,
  add_constant k st = (st', r) ->
  pool_nodup (c_constants st) -> pool_nodup (c_constants st').
Proof.
  intros k st st' r H Hnd. unfold add_constant in H.
  destruct (const_position k (c_constants st)) as [pos|] eqn:P; inversion H; subst st' r; clear H.
  - exact Hnd.
  - cbn [c_constants]. intros i j a b Hij Ha Hb.
    pose proof (const_position_none _ _ P) as Hnone.
    assert (Hjl : (j < length (c_constants st ++ [k]))%nat) by (apply nth_error_Some; rewrite Hb; discriminate).
    rewrite app_length in Hjl. cbn [length] in Hjl.
    rewrite nth_error_app1 in Ha by lia.
    destruct (Nat.eq_dec j (length (c_constants st))) as [Ej|Ej].
    + subst j. rewrite nth_error_app2 in Hb by lia. rewrite Nat.sub_diag in Hb. cbn [nth_error] in Hb.
      inversion Hb; subst b. exact (Hnone i a Ha).
    + rewrite nth_error_app1 in Hb by lia. exact (Hnd i j a b Hij Ha Hb).
Qed.

Lemma pool_nodup_nil : pool_nodup [].
Proof. intros i j a b _ Ha. destruct i; discriminate Ha. Qed.

(* a second request for a constant already registered returns the same index and changes nothing *)
Theorem pool_idempotent : forall k st st' i,
  add_constant k st = (st', Ok i) -> const_eqb k k = true ->
  pool_nodup (c_constants st) ->
  add_constant k st' = (st', Ok i).
Proof.
  intros k st st' i H Hrefl Hnd. unfold add_constant in H.
  destruct (const_position k (c_constants st)) as [pos|] eqn:P; inversion H as [[Hst Hop]]; subst st'.
  - unfold add_constant. rewrite P. reflexivity.
  - clear H. unfold add_constant. cbn [c_constants].
    assert (E : const_position k (c_constants st ++ [k]) = Some (length (c_constants st))).
    { pose proof (const_position_none _ _ P) as Hnone. clear P Hop Hnd.
      induction (c_constants st) as [|c r IH]; cbn [const_position app length].
      - rewrite Hrefl. reflexivity.
      - rewrite (Hnone 0%nat c eq_refl). rewrite IH; [reflexivity|].
        intros j c' Hc. exact (Hnone (S j) c' Hc). }
    rewrite E. unfold zlength in *. rewrite Hop. reflexivity.
Qed.

(** ** Finding: IEEE equality in the pool.
    const_eqb on floats is PrimFloat.eqb, so at the level of add_constant the constants 0.0 and
    -0.0 share one slot (the first one registered wins), and NaN is never found again. *)
Definition pool_of (ks : list const) : cstate := mkC symtab_new ks [] None [] 0.

Example zero_and_negzero_share_a_slot :
  add_constant (KFloat (-0)%float) (pool_of [KInt 7; KFloat 0%float])
  = (pool_of [KInt 7; KFloat 0%float], Ok 1)
  /\ PrimFloat.eqb (1 / 0)%float (1 / (-0))%float = false.
Proof. vm_compute. split; reflexivity. Qed.

Example nan_gets_a_new_slot_each_time :
  add_constant (KFloat nan) (pool_of [KFloat nan]) = (pool_of [KFloat nan; KFloat nan], Ok 1).
Proof. vm_compute. reflexivity. Qed.

Example pool_stable_nonvacuous :
  add_constant (KInt 5) (pool_of [KInt 7; KStr [104%N]; KInt 5]) = (pool_of [KInt 7; KStr [104%N]; KInt 5], Ok 2)
  /\ add_constant (KInt 6) (pool_of [KInt 7]) = (pool_of [KInt 7; KInt 6], Ok 1).
Proof. vm_compute. split; reflexivity. Qed.

(** * 3. A3: which expressions get the fused instruction, and with which operator *)

Theorem fused_selection_sound : forall l r op name v op',
  fused_candidate l r op = Some (name, v, op') ->
  (l = EIdent name /\ r = EInt v /\ op' = op)
  \/ (l = EInt v /\ r = EIdent name /\ assoc operator_eqb op mirror_table = Some op').
Proof.
  intros l r op name v op' H. unfold fused_candidate in H.
  destruct l; try discriminate H; destruct r; try discriminate H.
  - right. destruct (assoc operator_eqb op mirror_table) as [o'|] eqn:E; [|discriminate H].
    inversion H; subst. auto.
  - left. inversion H; subst. auto.
Qed.

Example fused_selection_nonvacuous :
  fused_candidate (EInt 3) (EIdent [120%N]) OpLt = Some ([120%N], 3, OpGt)
  /\ fused_candidate (EIdent [120%N]) (EInt 3) OpSubtract = Some ([120%N], 3, OpSubtract)
  /\ fused_candidate (EInt 3) (EIdent [120%N]) OpSubtract = None.
Proof. vm_compute. repeat split; reflexivity. Qed.

(* and conversely: exactly the shapes  x op c  and  c op x (mirrorable op)  are candidates *)
Theorem fused_selection_complete : forall name v op,
  fused_candidate (EIdent name) (EInt v) op = Some (name, v, op)
  /\ fused_candidate (EInt v) (EIdent name) op
     = match assoc operator_eqb op mirror_table with Some op' => Some (name, v, op') | None => None end.
Proof. intros. split; reflexivity. Qed.

(* With mirror_sound: the operation the fused instruction is given (variable on the left,
   constant on the right, operator op') computes  l op r  in source order, for every value b
   of the variable. *)
Corollary fused_selection_meaning : forall frem l r op name v op' b,
  fused_candidate l r op = Some (name, v, op') ->
  let operand e := match e with EInt z => XInt z | _ => b end in
  spec_binop frem op (operand l) (operand r) = spec_binop frem op' b (XInt v).
Proof.
  intros frem l r op name v op' b H. destruct (fused_selection_sound _ _ _ _ _ _ H) as [(El & Er & Eo)|(El & Er & Em)];
    subst; cbn.
  - reflexivity.
  - exact (mirror_sound frem op op' v b Em).
Qed.

(* the fused opcode exists only for operators in fused_table; for the others (and, or) and for
   globals compile_const_var_infix reports `false` and the generic code is emitted *)
Lemma compile_const_var_infix_false_code : forall name v op st st',
  compile_const_var_infix name v op st = (st', false) ->
  c_symbols st' = c_symbols st /\ c_loops st' = c_loops st
  /\ exists ext, c_constants st' = c_constants st ++ ext.
Proof.
  intros name v op st st' H. unfold compile_const_var_infix in H.
  destruct (add_constant (KInt v) st) as [st1 r] eqn:A.
  destruct (pool_prefix _ _ _ _ A) as (Hext & (Hs & Hc & Hl & Hlo & Ha) & _).
  assert (G : c_symbols st1 = c_symbols st /\ c_loops st1 = c_loops st
              /\ exists ext, c_constants st1 = c_constants st ++ ext) by auto.
  destruct r as [idx| | |]; try (inversion H; subst; exact G).
  destruct (resolve (c_symbols st1) name) as [s|]; try (inversion H; subst; exact G).
  destruct (s_scope s); try (inversion H; subst; exact G).
  destruct (assoc operator_eqb op fused_table) as [opc|]; try (inversion H; subst; exact G).
  destruct (operand 16 (Z.of_nat (s_index s))); inversion H; subst; cbn; exact G.
Qed.

Print Assumptions pool_stable.
Print Assumptions pool_stable_exact.
Print Assumptions pool_prefix.
Print Assumptions pool_nodup_preserved.
Print Assumptions pool_idempotent.
Print Assumptions fused_selection_sound.
Print Assumptions fused_selection_meaning.
