(* SymbolsProofs.v - the symbol table of model/Symbols.v implements the documented scoping rules of
   spec/ScopeSpec.v (property C09). *)
From NL.Spec Require Import ScopeSpec.
Local Open Scope nat_scope.

(** * text_eqb decides equality *)

Lemma text_eqb_eq : forall a b, text_eqb a b = true <-> a = b.
Proof.
  induction a as [|x a IH]; intros [|y b]; cbn [text_eqb]; split; intros H; try reflexivity; try discriminate.
  - apply andb_true_iff in H. destruct H as [H1 H2]. apply N.eqb_eq in H1. apply IH in H2. congruence.
  - injection H as -> ->. apply andb_true_iff. split; [apply N.eqb_refl | now apply IH].
Qed.

Lemma text_eqb_refl : forall a, text_eqb a a = true.
Proof. intros a. now apply text_eqb_eq. Qed.

Lemma text_eqb_neq : forall a b, text_eqb a b = false <-> a <> b.
Proof.
  intros a b. split.
  - intros H E. apply text_eqb_eq in E. congruence.
  - intros H. destruct (text_eqb a b) eqn:E; [|reflexivity]. apply text_eqb_eq in E. contradiction.
Qed.

Lemma text_eqb_sym : forall a b, text_eqb a b = text_eqb b a.
Proof.
  intros a b. destruct (text_eqb a b) eqn:E.
  - apply text_eqb_eq in E. subst. symmetry. apply text_eqb_refl.
  - symmetry. apply text_eqb_neq. apply text_eqb_neq in E. congruence.
Qed.

(** * The last occurrence *)

Lemma last_occ_app : forall x l1 l2,
  last_occ x (l1 ++ l2) =
  match last_occ x l2 with Some j => Some (length l1 + j) | None => last_occ x l1 end.
Proof.
  intros x l1 l2. induction l1 as [|y l1 IH]; cbn [app last_occ length].
  - destruct (last_occ x l2); reflexivity.
  - rewrite IH. destruct (last_occ x l2); reflexivity.
Qed.

Lemma last_occ_None : forall x l, last_occ x l = None <-> ~ In x l.
Proof.
  intros x l. induction l as [|y l IH]; cbn [last_occ In].
  - split; [intros _ [] | reflexivity].
  - destruct (last_occ x l) as [i|].
    + split; [discriminate|]. intros H. exfalso. apply H. right.
      destruct (in_dec (list_eq_dec N.eq_dec) x l) as [HI|HI]; [exact HI|].
      apply IH in HI. discriminate.
    + destruct (text_eqb y x) eqn:E.
      * split; [discriminate|]. intros H. exfalso. apply H. left. now apply text_eqb_eq.
      * split; [|reflexivity]. intros _ [H|H].
        -- apply text_eqb_neq in E. contradiction.
        -- now apply (proj1 IH).
Qed.

Lemma last_occ_Some : forall x l i, last_occ x l = Some i <-> is_last_occ x l i.
Proof.
  intros x l. induction l as [|y l IH]; intros i; cbn [last_occ].
  - split; [discriminate|]. intros [H _]. destruct i; discriminate.
  - destruct (last_occ x l) as [k|] eqn:EL.
    + split.
      * intros H. injection H as <-. destruct (proj1 (IH k) eq_refl) as [H1 H2].
        split; [exact H1|]. intros [|j] Hj; [lia|]. cbn [nth_error]. apply H2. lia.
      * intros [H1 H2]. destruct i as [|i].
        -- exfalso. destruct (proj1 (IH k) eq_refl) as [H3 _]. apply (H2 (S k)); [lia|exact H3].
        -- f_equal. assert (HK : is_last_occ x l i).
           { split; [exact H1|]. intros j Hj. apply (H2 (S j)). lia. }
           apply IH in HK. congruence.
    + apply last_occ_None in EL. destruct (text_eqb y x) eqn:E.
      * apply text_eqb_eq in E. subst y. split.
        -- intros H. injection H as <-. split; [reflexivity|]. intros [|j] Hj; [lia|]. cbn [nth_error].
           intros HN. apply EL. eapply nth_error_In; eauto.
        -- intros [H1 _]. destruct i as [|i]; [reflexivity|]. exfalso. apply EL. eapply nth_error_In; eauto.
      * apply text_eqb_neq in E. split; [discriminate|]. intros [H1 _]. destruct i as [|i].
        -- cbn in H1. congruence.
        -- exfalso. apply EL. eapply nth_error_In; eauto.
Qed.

Lemma is_last_occ_fun : forall x l i j, is_last_occ x l i -> is_last_occ x l j -> i = j.
Proof. intros x l i j H1 H2. apply last_occ_Some in H1, H2. congruence. Qed.

Lemma last_occ_lt : forall x l i, last_occ x l = Some i -> i < length l.
Proof. intros x l i H. apply last_occ_Some in H. destruct H as [H _]. apply nth_error_Some. congruence. Qed.

Lemma last_occ_snoc_same : forall x l, last_occ x (l ++ [x]) = Some (length l).
Proof. intros. rewrite last_occ_app. cbn [last_occ]. rewrite text_eqb_refl. f_equal. lia. Qed.

Lemma last_occ_snoc_other : forall x y l, text_eqb y x = false -> last_occ y (l ++ [x]) = last_occ y l.
Proof. intros x y l H. rewrite last_occ_app. cbn [last_occ]. rewrite text_eqb_sym, H. reflexivity. Qed.

(** * The implementation finds the last occurrence *)

Lemma rposition_from_last_occ : forall x l i acc,
  rposition_from x l i acc = match last_occ x l with Some j => Some (i + j) | None => acc end.
Proof.
  intros x l. induction l as [|y l IH]; intros i acc; cbn [rposition_from last_occ]; [reflexivity|].
  rewrite IH. destruct (last_occ x l) as [j|].
  - f_equal. lia.
  - destruct (text_eqb y x); [f_equal; lia | reflexivity].
Qed.

Lemma rposition_last_occ : forall x l, rposition x l = last_occ x l.
Proof. intros. unfold rposition. rewrite rposition_from_last_occ. destruct (last_occ x l); reflexivity. Qed.

Lemma fold_len : forall (l : list (list text)) a,
  fold_left (fun acc s => acc + length s) l a = a + length (concat l).
Proof.
  induction l as [|s l IH]; intros a; cbn [fold_left concat length]; [lia|].
  rewrite IH, app_length. lia.
Qed.

Lemma total_len_flat : forall c, total_len c = length (flat c).
Proof. intros c. unfold total_len, flat. now rewrite fold_len. Qed.

Lemma concat_snoc : forall (l : list (list text)) s, concat (l ++ [s]) = concat l ++ s.
Proof. intros. rewrite concat_app. cbn [concat]. now rewrite app_nil_r. Qed.

Lemma resolve_scopes_last_occ : forall x ss,
  resolve_scopes x (rev ss) (length (concat ss)) = last_occ x (concat ss).
Proof.
  intros x ss. induction ss as [|s ss IH] using rev_ind; [reflexivity|].
  rewrite rev_unit, concat_snoc. cbn [resolve_scopes]. rewrite rposition_last_occ, last_occ_app, app_length.
  replace (length (concat ss) + length s - length s) with (length (concat ss)) by lia.
  destruct (last_occ x s); [reflexivity | exact IH].
Qed.

Lemma context_resolve_spec : forall c x, context_resolve c x = spec_lookup c x.
Proof.
  intros c x. unfold context_resolve, spec_lookup. rewrite total_len_flat. unfold flat.
  now rewrite resolve_scopes_last_occ.
Qed.

(** ** 1. resolve is the documented lookup (no hypothesis is needed) *)

Theorem resolve_refines_lookup_all : forall t x, resolve t x = spec_resolve t x.
Proof.
  intros t x. unfold resolve, spec_resolve, current. rewrite context_resolve_spec.
  destruct (spec_lookup (current_context t) x); [reflexivity|].
  destruct t as [|c0 r]; [reflexivity|]. cbn [global hd]. now rewrite context_resolve_spec.
Qed.

Theorem resolve_refines_lookup : forall t x, wf_tab t -> resolve t x = spec_resolve t x.
Proof. intros t x _. apply resolve_refines_lookup_all. Qed.

(** * Tables and contexts in "snoc" form: the current context / innermost scope is the last element *)

Lemma update_last_snoc : forall A (f : A -> A) l a, update_last f (l ++ [a]) = l ++ [f a].
Proof.
  intros A f l a. induction l as [|b l IH]; [reflexivity|].
  cbn [app update_last]. rewrite IH. destruct (l ++ [a]) eqn:E; [|reflexivity].
  destruct l; discriminate.
Qed.

Lemma push_last_snoc : forall x l s, push_last x (l ++ [s]) = l ++ [s ++ [x]].
Proof.
  intros x l s. induction l as [|b l IH]; [reflexivity|].
  cbn [app push_last]. rewrite IH. destruct (l ++ [s]) eqn:E; [|reflexivity].
  destruct l; discriminate.
Qed.

Lemma snoc_cases : forall A (l : list A), l <> [] -> exists p a, l = p ++ [a].
Proof. intros A l H. destruct (exists_last H) as [p [a E]]. eauto. Qed.

Lemma current_snoc : forall tp c, current (tp ++ [c]) = c.
Proof. intros. unfold current, current_context. apply last_last. Qed.

Lemma current_context_snoc : forall tp c, current_context (tp ++ [c]) = c.
Proof. exact current_snoc. Qed.

Lemma global_snoc : forall tp c, global (tp ++ [c]) = match tp with [] => c | c0 :: _ => c0 end.
Proof. intros [|c0 tp] c; reflexivity. Qed.

Lemma context_eta : forall c, mkContext (c_scope c) (c_max c) (c_syms c) = c.
Proof. intros []; reflexivity. Qed.

Lemma spec_resolve_snoc : forall tp c x,
  spec_resolve (tp ++ [c]) x =
  match spec_lookup c x with
  | Some s => Some s
  | None => match tp with [] => None | c0 :: _ => spec_lookup c0 x end
  end.
Proof.
  intros tp c x. unfold spec_resolve. rewrite current_snoc, global_snoc, app_length. cbn [length].
  destruct (spec_lookup c x); [reflexivity|]. destruct tp as [|c0 tp]; [reflexivity|].
  cbn [length]. replace (1 <? S (length tp) + 1) with true; [reflexivity|].
  symmetry. apply Nat.ltb_lt. lia.
Qed.

Lemma resolve_snoc : forall tp c x,
  resolve (tp ++ [c]) x =
  match spec_lookup c x with
  | Some s => Some s
  | None => match tp with [] => None | c0 :: _ => spec_lookup c0 x end
  end.
Proof. intros. rewrite resolve_refines_lookup_all. apply spec_resolve_snoc. Qed.

(* the operations in snoc form *)
Lemma define_snoc : forall tp c x,
  define (tp ++ [c]) x = (tp ++ [fst (context_define c x)], snd (context_define c x)).
Proof.
  intros. unfold define. rewrite current_context_snoc. destruct (context_define c x) as [c' s] eqn:E.
  now rewrite update_last_snoc.
Qed.

Lemma context_define_snoc : forall k m sp s x,
  context_define (mkContext k m (sp ++ [s])) x =
  (mkContext k (S m) (sp ++ [s ++ [x]]), mkSymbol k (length (concat sp ++ s))).
Proof.
  intros. unfold context_define. cbn [c_scope c_max c_syms]. rewrite push_last_snoc.
  rewrite total_len_flat. unfold flat. cbn [c_syms]. rewrite concat_snoc, !app_length. cbn [length].
  do 2 f_equal. lia.
Qed.

Lemma enter_scope_snoc : forall tp c,
  enter_scope (tp ++ [c]) = tp ++ [mkContext (c_scope c) (c_max c) (c_syms c ++ [[]])].
Proof. intros. unfold enter_scope. now rewrite update_last_snoc. Qed.

Lemma leave_scope_snoc : forall tp c,
  leave_scope (tp ++ [c]) = tp ++ [mkContext (c_scope c) (c_max c) (removelast (c_syms c))].
Proof. intros. unfold leave_scope. now rewrite update_last_snoc. Qed.

Lemma leave_context_snoc : forall tp c, leave_context (tp ++ [c]) = (tp, c_max c).
Proof. intros. unfold leave_context. now rewrite removelast_last, current_context_snoc. Qed.

(** * Well-formedness *)

Definition wf_prefix (tp : list context) (c : context) : Prop :=
  match tp with
  | [] => c_scope c = SGlobal
  | c0 :: r => c_scope c0 = SGlobal /\ Forall (fun c => c_scope c = SLocal) r /\ c_scope c = SLocal
  end.

Lemma wf_tab_snoc : forall tp c,
  wf_tab (tp ++ [c]) <-> wf_prefix tp c /\ Forall wf_ctx tp /\ wf_ctx c.
Proof.
  intros tp c. unfold wf_tab. rewrite global_snoc, Forall_app. destruct tp as [|c0 r]; cbn [wf_prefix app tl].
  - split.
    + intros (_ & H1 & _ & _ & H2). inversion H2; subst. auto.
    + intros (H1 & _ & H2). repeat split; auto. discriminate.
  - rewrite Forall_app. split.
    + intros (_ & H1 & [H2 H3] & H4 & H5). inversion H3; subst. inversion H5; subst. auto.
    + intros ((H1 & H2 & H3) & H4 & H5). repeat split; auto. discriminate.
Qed.

Lemma wf_ctx_shape : forall c, wf_ctx c -> exists sp s, c = mkContext (c_scope c) (c_max c) (sp ++ [s]).
Proof.
  intros c [H _]. destruct (snoc_cases _ _ H) as [sp [s E]]. exists sp, s. rewrite <- E. symmetry. apply context_eta.
Qed.

Lemma wf_tab_shape : forall t, wf_tab t ->
  exists tp k m sp s, t = tp ++ [mkContext k m (sp ++ [s])].
Proof.
  intros t H. assert (HN : t <> []) by apply H. destruct (snoc_cases _ _ HN) as [tp [c E]]. subst t.
  apply wf_tab_snoc in H. destruct H as (_ & _ & H). destruct (wf_ctx_shape _ H) as [sp [s E]].
  exists tp, (c_scope c), (c_max c), sp, s. now rewrite <- E.
Qed.

Lemma wf_ctx_mk : forall k m ss, wf_ctx (mkContext k m ss) <-> ss <> [] /\ length (concat ss) <= m.
Proof. intros. unfold wf_ctx. rewrite total_len_flat. reflexivity. Qed.

Lemma wf_symtab_new : wf_tab symtab_new.
Proof.
  unfold wf_tab, symtab_new. cbn. repeat split; auto; try discriminate.
  constructor; [|constructor]. apply wf_ctx_mk. cbn. split; [discriminate|lia].
Qed.

Lemma wf_tab_nonempty : forall t, wf_tab t -> t <> [] /\ c_syms (global t) <> [].
Proof.
  intros t H. split; [apply H|]. destruct H as (HN & _ & _ & HF). destruct t as [|c0 r]; [contradiction|].
  inversion HF; subst. cbn [global hd]. apply H1.
Qed.

Lemma wf_prefix_scope : forall tp c c', wf_prefix tp c -> c_scope c' = c_scope c -> wf_prefix tp c'.
Proof. intros [|c0 r] c c' H E; cbn [wf_prefix] in *; [congruence|]. destruct H as (?&?&?). repeat split; auto; congruence. Qed.

(** ** 2. define *)

Lemma no_snoc_nil : forall A (l : list A) a, l ++ [a] <> [].
Proof. intros A l a. destruct l; discriminate. Qed.

Theorem define_spec : forall t x t' s, wf_tab t -> define t x = (t', s) ->
  wf_tab t' /\
  flat (current t') = flat (current t) ++ [x] /\
  c_syms (current t') = removelast (c_syms (current t)) ++ [last (c_syms (current t)) [] ++ [x]] /\
  c_max (current t') = S (c_max (current t)) /\
  c_scope (current t') = c_scope (current t) /\
  s_index s = length (flat (current t)) /\
  s_scope s = c_scope (current t) /\
  length t' = length t /\
  removelast t' = removelast t /\
  resolve t' x = Some s /\
  (forall y, text_eqb y x = false -> resolve t' y = resolve t y).
Proof.
  intros t x t' s W D. destruct (wf_tab_shape _ W) as (tp & k & m & sp & q & ->).
  rewrite define_snoc, context_define_snoc in D. cbn [fst snd] in D. injection D as <- <-.
  rewrite !current_snoc, !removelast_last. unfold flat. cbn [c_syms c_max c_scope s_index s_scope].
  rewrite !concat_snoc, last_last, !app_length. cbn [length].
  apply wf_tab_snoc in W. destruct W as (W1 & W2 & W3). apply wf_ctx_mk in W3. destruct W3 as [_ W3].
  rewrite concat_snoc in W3.
  assert (WF : wf_tab (tp ++ [mkContext k (S m) (sp ++ [q ++ [x]])])).
  { apply wf_tab_snoc. split; [exact W1|]. split; [exact W2|]. apply wf_ctx_mk. split; [apply no_snoc_nil|].
    rewrite concat_snoc, !app_length in *. cbn [length]. lia. }
  split; [exact WF|]. repeat split; auto.
  - now rewrite app_assoc.
  - now rewrite removelast_last.
  - rewrite resolve_snoc. unfold spec_lookup, flat. cbn [c_syms c_scope].
    rewrite concat_snoc, app_assoc, last_occ_snoc_same, app_length. reflexivity.
  - intros y Hy. rewrite !resolve_snoc. unfold spec_lookup, flat. cbn [c_syms c_scope].
    rewrite !concat_snoc, app_assoc, last_occ_snoc_other by exact Hy. reflexivity.
Qed.

(* define followed by several defines: the form used for function parameters *)
Lemma defines_snoc : forall names tp k m sp s,
  fold_left (fun t n => fst (define t n)) names (tp ++ [mkContext k m (sp ++ [s])]) =
  tp ++ [mkContext k (m + length names) (sp ++ [s ++ names])].
Proof.
  induction names as [|x names IH]; intros; cbn [fold_left length].
  - now rewrite Nat.add_0_r, app_nil_r.
  - rewrite define_snoc, context_define_snoc. cbn [fst]. rewrite IH, <- app_assoc. cbn [app].
    do 3 f_equal. lia.
Qed.

(** ** 3. / 5. Which declaration a resolved symbol denotes; slots *)

Lemma spec_lookup_Some : forall c x s, spec_lookup c x = Some s ->
  s_scope s = c_scope c /\ is_last_occ x (flat c) (s_index s).
Proof.
  intros c x s H. unfold spec_lookup in H. destruct (last_occ x (flat c)) as [i|] eqn:E; [|discriminate].
  injection H as <-. cbn [s_scope s_index]. split; [reflexivity|]. now apply last_occ_Some.
Qed.

Lemma spec_lookup_None : forall c x, spec_lookup c x = None <-> ~ In x (flat c).
Proof.
  intros c x. unfold spec_lookup. rewrite <- last_occ_None. destruct (last_occ x (flat c)); cbn [option_map].
  - split; discriminate.
  - split; reflexivity.
Qed.

(* A resolved symbol is the last occurrence of the name in the flattened context of its kind:
   the current context for a local, the first context for a global.  When the name is found in the global
   context from inside a function, the current context does not declare it. *)
Theorem resolve_found : forall t x s, wf_tab t -> resolve t x = Some s ->
  is_last_occ x (flat (context_of_kind t (s_scope s))) (s_index s) /\
  c_scope (context_of_kind t (s_scope s)) = s_scope s /\
  (s_scope s = SGlobal -> 2 <= length t -> ~ In x (flat (current t))).
Proof.
  intros t x s W R. assert (HN : t <> []) by apply W. destruct (snoc_cases _ _ HN) as [tp [c ->]].
  rewrite resolve_snoc in R. apply wf_tab_snoc in W. destruct W as (W1 & _ & _).
  unfold context_of_kind. rewrite current_snoc, global_snoc.
  destruct (spec_lookup c x) as [s'|] eqn:E.
  - injection R as ->. apply spec_lookup_Some in E. destruct E as [E1 E2].
    destruct tp as [|c0 r]; cbn [wf_prefix] in W1.
    + assert (ES : s_scope s = SGlobal) by congruence. rewrite ES.
      split; [exact E2|]. split; [exact W1|]. intros _ H. cbn in H. lia.
    + destruct W1 as (_ & _ & W1). assert (ES : s_scope s = SLocal) by congruence. rewrite ES.
      split; [exact E2|]. split; [exact W1|]. discriminate.
  - destruct tp as [|c0 r]; [discriminate|]. cbn [wf_prefix] in W1. destruct W1 as (W0 & _ & _).
    apply spec_lookup_Some in R. destruct R as [R1 R2]. assert (ES : s_scope s = SGlobal) by congruence.
    rewrite ES. split; [exact R2|]. split; [exact W0|]. intros _ _. now apply spec_lookup_None.
Qed.

(* 5. from inside a function only the current and the first context are consulted *)
Theorem context_isolation : forall t x s, wf_tab t -> 2 <= length t -> resolve t x = Some s ->
  (s_scope s = SLocal /\ is_last_occ x (flat (current t)) (s_index s)) \/
  (s_scope s = SGlobal /\ ~ In x (flat (current t)) /\ is_last_occ x (flat (global t)) (s_index s)).
Proof.
  intros t x s W L R. destruct (resolve_found _ _ _ W R) as (H1 & _ & H3).
  destruct (s_scope s) eqn:E; cbn [context_of_kind] in H1; [left|right]; auto.
Qed.

(* the contexts strictly between the first and the current one (the enclosing functions' locals) are irrelevant *)
Theorem resolve_skips_callers : forall c0 mid c x, resolve (c0 :: mid ++ [c]) x = resolve [c0; c] x.
Proof.
  intros. change (c0 :: mid ++ [c]) with ((c0 :: mid) ++ [c]). change [c0; c] with ([c0] ++ [c]).
  now rewrite !resolve_snoc.
Qed.

(* in particular at function entry: only globals are visible in the fresh context *)
Theorem resolve_new_context : forall t x, wf_tab t ->
  resolve (new_context t) x = spec_lookup (global t) x.
Proof.
  intros t x W. unfold new_context. rewrite resolve_snoc. destruct t as [|c0 r]; [destruct W; contradiction|].
  reflexivity.
Qed.

Theorem resolve_None : forall t x, wf_tab t ->
  (resolve t x = None <-> ~ In x (flat (current t)) /\ ~ In x (flat (global t))).
Proof.
  intros t x W. assert (HN : t <> []) by apply W. destruct (snoc_cases _ _ HN) as [tp [c ->]].
  rewrite resolve_snoc, current_snoc, global_snoc. rewrite <- !spec_lookup_None.
  destruct (spec_lookup c x) eqn:E.
  - split; [discriminate|]. intros [H _]. discriminate.
  - destruct tp as [|c0 r]; [rewrite E|]; tauto.
Qed.

(* 3. two names resolving to the same slot of the same kind are the same name *)
Theorem slots_injective : forall t x y s1 s2, wf_tab t ->
  resolve t x = Some s1 -> resolve t y = Some s2 ->
  s_scope s1 = s_scope s2 -> s_index s1 = s_index s2 -> x = y.
Proof.
  intros t x y s1 s2 W R1 R2 ES EI.
  destruct (resolve_found _ _ _ W R1) as ([H1 _] & _). destruct (resolve_found _ _ _ W R2) as ([H2 _] & _).
  rewrite ES, EI in H1. congruence.
Qed.

(* and two different names never share a slot *)
Corollary distinct_names_distinct_slots : forall t x y s1 s2, wf_tab t -> x <> y ->
  resolve t x = Some s1 -> resolve t y = Some s2 -> s1 <> s2.
Proof. intros t x y s1 s2 W N R1 R2 E. subst s2. apply N. eapply slots_injective; eauto. Qed.

Theorem slot_bound : forall t x s, wf_tab t -> resolve t x = Some s ->
  s_index s < c_max (context_of_kind t (s_scope s)).
Proof.
  intros t x s W R. destruct (resolve_found _ _ _ W R) as (H1 & _).
  assert (HC : wf_ctx (context_of_kind t (s_scope s))).
  { destruct W as (HN & _ & _ & HF). rewrite Forall_forall in HF. apply HF.
    destruct (s_scope s); cbn [context_of_kind].
    - destruct (snoc_cases _ _ HN) as [tp [c ->]]. rewrite current_snoc. apply in_or_app. right. now left.
    - destruct t; [contradiction|]. now left. }
  destruct HC as [_ HC]. rewrite total_len_flat in HC. apply last_occ_Some, last_occ_lt in H1. lia.
Qed.

Theorem define_slot_bound : forall t x t' s, wf_tab t -> define t x = (t', s) ->
  s_index s < c_max (current t').
Proof.
  intros t x t' s W D. destruct (define_spec _ _ _ _ W D) as (_ & _ & _ & HM & _ & HI & _).
  rewrite HM, HI. destruct (wf_tab_shape _ W) as (tp & k & m & sp & q & ->).
  apply wf_tab_snoc in W. destruct W as (_ & _ & [_ W]). rewrite total_len_flat in W. rewrite current_snoc. lia.
Qed.

Theorem leave_context_max : forall t t' n, leave_context t = (t', n) -> n = c_max (current t) /\ t' = removelast t.
Proof. intros t t' n H. unfold leave_context in H. injection H as <- <-. split; reflexivity. Qed.

(** max_size of a context never shrinks while the context is alive, whatever is done to the table *)

Lemma nth_update_last_max : forall (f : context -> context) t i,
  (forall c, c_max c <= c_max (f c)) ->
  c_max (nth i t (context_new SGlobal)) <= c_max (nth i (update_last f t) (context_new SGlobal)).
Proof.
  intros f t i Hf. destruct t as [|c0 r]; [cbn; lia|].
  destruct (snoc_cases _ (c0 :: r)) as [tp [c E]]; [discriminate|]. rewrite E, update_last_snoc.
  destruct (Nat.lt_ge_cases i (length tp)) as [L|L].
  - rewrite !app_nth1 by exact L. lia.
  - rewrite !app_nth2 by exact L. destruct (i - length tp) as [|[|j]]; cbn [nth]; auto.
Qed.

Lemma max_at_step : forall t o i, i < length (run_op t o) -> max_at t i <= max_at (run_op t o) i.
Proof.
  intros t o i L. unfold max_at. destruct o; cbn [run_op] in *.
  - apply nth_update_last_max. intros c. cbn. lia.
  - unfold define. destruct (context_define (current_context t) x) as [c' s] eqn:E. cbn [fst].
    destruct t as [|c0 r]; [cbn; lia|].
    destruct (snoc_cases _ (c0 :: r)) as [tp [c E']]; [discriminate|]. rewrite E' in *.
    rewrite current_context_snoc in E. unfold context_define in E. injection E as <- _.
    rewrite update_last_snoc.
    destruct (Nat.lt_ge_cases i (length tp)) as [L'|L'].
    + rewrite !app_nth1 by exact L'. lia.
    + rewrite !app_nth2 by exact L'. destruct (i - length tp) as [|[|j]]; cbn [nth c_max]; auto.
  - apply nth_update_last_max. intros c. cbn. lia.
  - unfold new_context in *. destruct (Nat.lt_ge_cases i (length t)) as [L'|L'].
    + rewrite app_nth1 by exact L'. lia.
    + rewrite (nth_overflow t) by exact L'. cbn. lia.
  - unfold leave_context in *. cbn [fst] in *. destruct t as [|c0 r]; [cbn in L; lia|].
    destruct (snoc_cases _ (c0 :: r)) as [tp [c E']]; [discriminate|]. rewrite E' in *.
    rewrite removelast_last in *. rewrite app_nth1 by exact L. lia.
Qed.

Theorem max_at_mono : forall ops t i, alive i t ops -> max_at t i <= max_at (run_ops t ops) i.
Proof.
  induction ops as [|o ops IH]; intros t i A; cbn [run_ops fold_left]; [lia|].
  destruct A as [A1 A2]. etransitivity; [apply max_at_step; exact A1|]. apply IH. exact A2.
Qed.

(* hence: every slot handed out in a function's context is below the num_locals returned when that
   context is finally left, whatever happened in between (nested blocks, nested functions, ...) *)
Theorem slot_below_num_locals : forall t x t1 s ops t2 n, wf_tab t ->
  define t x = (t1, s) ->
  alive (length t - 1) t1 ops ->
  length (run_ops t1 ops) = length t ->
  leave_context (run_ops t1 ops) = (t2, n) ->
  s_index s < n.
Proof.
  intros t x t1 s ops t2 n W D A L LC.
  pose proof (define_slot_bound _ _ _ _ W D) as B.
  destruct (define_spec _ _ _ _ W D) as (W1 & _ & _ & _ & _ & _ & _ & L1 & _).
  apply leave_context_max in LC. destruct LC as [-> _].
  pose proof (max_at_mono _ _ _ A) as M. unfold max_at in M.
  assert (HC : forall u, length u = length t -> nth (length t - 1) u (context_new SGlobal) = current u).
  { intros u Lu. assert (Hu : u <> []). { intros ->. destruct W as [HN _]. destruct t; [contradiction|discriminate]. }
    destruct (snoc_cases _ _ Hu) as [up [c ->]]. rewrite current_snoc. rewrite app_length in Lu. cbn [length] in Lu.
    rewrite app_nth2 by lia. replace (length t - 1 - length up) with 0 by lia. reflexivity. }
  rewrite (HC _ L1), (HC _ L) in M. lia.
Qed.

(** ** 4. Leaving a block / a function restores the table *)

Lemma extends_by_snoc : forall names n tp k m sp s t',
  extends_by names n (tp ++ [mkContext k m (sp ++ [s])]) t' <->
  t' = tp ++ [mkContext k (m + n) (sp ++ [s ++ names])].
Proof.
  intros. unfold extends_by. rewrite current_snoc, removelast_last. cbn [c_scope c_max c_syms].
  rewrite removelast_last, last_last. reflexivity.
Qed.

Lemma same_but_max_snoc : forall n tp c t',
  same_but_max n (tp ++ [c]) t' <-> t' = tp ++ [mkContext (c_scope c) (c_max c + n) (c_syms c)].
Proof. intros. unfold same_but_max. rewrite current_snoc, removelast_last. reflexivity. Qed.

Lemma extends_by_wf : forall names n t t', wf_tab t -> length names <= n -> extends_by names n t t' -> wf_tab t'.
Proof.
  intros names n t t' W L E. destruct (wf_tab_shape _ W) as (tp & k & m & sp & q & ->).
  apply -> extends_by_snoc in E. subst t'. apply wf_tab_snoc in W. destruct W as (W1 & W2 & W3).
  apply wf_tab_snoc. split; [exact W1|]. split; [exact W2|]. apply wf_ctx_mk in W3. apply wf_ctx_mk.
  split; [apply no_snoc_nil|]. rewrite concat_snoc, !app_length in *. lia.
Qed.

Lemma same_but_max_wf : forall n t t', wf_tab t -> same_but_max n t t' -> wf_tab t'.
Proof.
  intros n t t' W E. assert (HN : t <> []) by apply W. destruct (snoc_cases _ _ HN) as [tp [c ->]].
  apply -> same_but_max_snoc in E. subst t'. apply wf_tab_snoc in W. destruct W as (W1 & W2 & [W3 W4]).
  apply wf_tab_snoc. split; [eapply wf_prefix_scope; eauto|]. split; [exact W2|].
  split; [exact W3|]. rewrite total_len_flat in *. unfold flat in *. cbn [c_syms c_max]. lia.
Qed.

(* what same_but_max preserves *)
Theorem same_but_max_facts : forall n t t', wf_tab t -> same_but_max n t t' ->
  wf_tab t' /\ length t' = length t /\ removelast t' = removelast t /\
  c_syms (current t') = c_syms (current t) /\ flat (current t') = flat (current t) /\
  c_scope (current t') = c_scope (current t) /\ c_max (current t') = c_max (current t) + n /\
  forall x, resolve t' x = resolve t x.
Proof.
  intros n t t' W E. split; [eapply same_but_max_wf; eauto|].
  assert (HN : t <> []) by apply W. destruct (snoc_cases _ _ HN) as [tp [c ->]].
  apply -> same_but_max_snoc in E. subst t'. rewrite !current_snoc, !removelast_last, !app_length.
  repeat split; auto. intros x. now rewrite !resolve_snoc.
Qed.

Lemma run_ops_app : forall t a b, run_ops t (a ++ b) = run_ops (run_ops t a) b.
Proof. intros. unfold run_ops. apply fold_left_app. Qed.

Lemma run_ops_cons : forall t o r, run_ops t (o :: r) = run_ops (run_op t o) r.
Proof. reflexivity. Qed.

(* The contents of a block only append declarations to the innermost scope of the current context
   (and grow its max_size by at least as much). *)
Theorem body_extends : forall b, body b -> forall t, wf_tab t ->
  exists names n, length names <= n /\ extends_by names n t (run_ops t b).
Proof.
  induction 1 as [|x r Hr IHr|b r Hb IHb Hr IHr|b r Hb IHb Hr IHr]; intros t W.
  - exists [], 0. split; [cbn; lia|]. destruct (wf_tab_shape _ W) as (tp & k & m & sp & q & ->).
    apply <- extends_by_snoc. cbn [run_ops fold_left]. now rewrite Nat.add_0_r, app_nil_r.
  - rewrite run_ops_cons. cbn [run_op]. destruct (define t x) as [t1 s] eqn:D. cbn [fst].
    destruct (define_spec _ _ _ _ W D) as (W1 & _).
    destruct (IHr _ W1) as (names & n & L & E). exists (x :: names), (S n). split; [cbn; lia|].
    destruct (wf_tab_shape _ W) as (tp & k & m & sp & q & ->).
    rewrite define_snoc, context_define_snoc in D. cbn [fst snd] in D. injection D as <- _.
    apply -> extends_by_snoc in E. apply <- extends_by_snoc. rewrite E, <- app_assoc. cbn [app].
    do 3 f_equal. lia.
  - rewrite run_ops_cons, run_ops_app, run_ops_cons. cbn [run_op].
    destruct (wf_tab_shape _ W) as (tp & k & m & sp & q & ->).
    apply wf_tab_snoc in W. destruct W as (W1 & W2 & W3). apply wf_ctx_mk in W3. destruct W3 as [_ W3].
    rewrite enter_scope_snoc. cbn [c_scope c_max c_syms].
    assert (WE : wf_tab (tp ++ [mkContext k m ((sp ++ [q]) ++ [[]])])).
    { apply wf_tab_snoc. split; [exact W1|]. split; [exact W2|]. apply wf_ctx_mk. split; [apply no_snoc_nil|].
      now rewrite concat_snoc, app_nil_r. }
    destruct (IHb _ WE) as (ns1 & n1 & L1 & E1). apply -> extends_by_snoc in E1. rewrite E1.
    rewrite leave_scope_snoc. cbn [c_scope c_max c_syms]. rewrite removelast_last.
    assert (WL : wf_tab (tp ++ [mkContext k (m + n1) (sp ++ [q])])).
    { apply wf_tab_snoc. split; [exact W1|]. split; [exact W2|]. apply wf_ctx_mk. split; [apply no_snoc_nil|]. lia. }
    destruct (IHr _ WL) as (ns2 & n2 & L2 & E2). apply -> extends_by_snoc in E2.
    exists ns2, (n1 + n2). split; [lia|]. apply <- extends_by_snoc. rewrite E2. do 3 f_equal. lia.
  - rewrite run_ops_cons, run_ops_app, run_ops_cons. cbn [run_op]. unfold new_context.
    assert (WN : wf_tab (t ++ [mkContext SLocal 0 ([] ++ [[]])])).
    { apply wf_tab_snoc. destruct W as (HN & HG & HL & HF). split.
      - destruct t as [|c0 r']; [contradiction|]. cbn [wf_prefix]. auto.
      - split; [exact HF|]. apply wf_ctx_mk. cbn. split; [discriminate|lia]. }
    destruct (IHb _ WN) as (ns1 & n1 & L1 & E1). apply -> extends_by_snoc in E1.
    change (context_new SLocal) with (mkContext SLocal 0 ([] ++ [[]])). rewrite E1, leave_context_snoc.
    cbn [fst]. apply IHr. exact W.
Qed.

Corollary body_wf : forall b t, body b -> wf_tab t -> wf_tab (run_ops t b).
Proof. intros b t B W. destruct (body_extends _ B _ W) as (ns & n & L & E). eapply extends_by_wf; eauto. Qed.

(* a block: enter_scope, any balanced contents, leave_scope *)
Theorem enter_body_leave : forall t b, wf_tab t -> body b ->
  exists n, same_but_max n t (leave_scope (run_ops (enter_scope t) b)).
Proof.
  intros t b W B.
  destruct (wf_tab_shape _ W) as (tp & k & m & sp & q & ->).
  apply wf_tab_snoc in W. destruct W as (W1 & W2 & W3). apply wf_ctx_mk in W3. destruct W3 as [_ W3].
  rewrite enter_scope_snoc. cbn [c_scope c_max c_syms].
  assert (WE : wf_tab (tp ++ [mkContext k m ((sp ++ [q]) ++ [[]])])).
  { apply wf_tab_snoc. split; [exact W1|]. split; [exact W2|]. apply wf_ctx_mk. split; [apply no_snoc_nil|].
    now rewrite concat_snoc, app_nil_r. }
  destruct (body_extends _ B _ WE) as (ns1 & n1 & L1 & E1). apply -> extends_by_snoc in E1. rewrite E1.
  rewrite leave_scope_snoc. cbn [c_scope c_max c_syms]. rewrite removelast_last.
  exists n1. now apply <- same_but_max_snoc.
Qed.

Corollary enter_body_leave_resolve : forall t b x, wf_tab t -> body b ->
  resolve (leave_scope (run_ops (enter_scope t) b)) x = resolve t x.
Proof.
  intros t b x W B. destruct (enter_body_leave _ _ W B) as [n E].
  now apply (same_but_max_facts _ _ _ W E).
Qed.

(* the literal form asked for: a block that only declares [names] *)
Theorem enter_leave_scope : forall t names, wf_tab t ->
  same_but_max (length names) t
    (leave_scope (fold_left (fun t n => fst (define t n)) names (enter_scope t))).
Proof.
  intros t names W. destruct (wf_tab_shape _ W) as (tp & k & m & sp & q & ->).
  rewrite enter_scope_snoc. cbn [c_scope c_max c_syms]. rewrite defines_snoc, leave_scope_snoc.
  cbn [c_scope c_max c_syms]. rewrite removelast_last. now apply <- same_but_max_snoc.
Qed.

Corollary enter_leave_scope_resolve : forall t names x, wf_tab t ->
  resolve (leave_scope (fold_left (fun t n => fst (define t n)) names (enter_scope t))) x = resolve t x.
Proof. intros t names x W. now apply (same_but_max_facts _ _ _ W (enter_leave_scope t names W)). Qed.

(* a function: new_context, any balanced contents (parameters, body), leave_context: exactly t again *)
Theorem new_leave_context : forall t b, wf_tab t -> body b ->
  fst (leave_context (run_ops (new_context t) b)) = t.
Proof.
  intros t b W B. unfold new_context.
  assert (WN : wf_tab (t ++ [mkContext SLocal 0 ([] ++ [[]])])).
  { apply wf_tab_snoc. destruct W as (HN & HG & HL & HF). split.
    - destruct t as [|c0 r']; [contradiction|]. cbn [wf_prefix]. auto.
    - split; [exact HF|]. apply wf_ctx_mk. cbn. split; [discriminate|lia]. }
  destruct (body_extends _ B _ WN) as (ns1 & n1 & L1 & E1). apply -> extends_by_snoc in E1.
  change (context_new SLocal) with (mkContext SLocal 0 ([] ++ [[]])). now rewrite E1, leave_context_snoc.
Qed.

Lemma defines_are_body : forall names, body (map OpDefine names).
Proof. induction names; cbn [map]; constructor; auto. Qed.

Lemma defines_run_ops : forall names t,
  fold_left (fun t n => fst (define t n)) names t = run_ops t (map OpDefine names).
Proof. induction names as [|x names IH]; intros t; [reflexivity|]. cbn [fold_left map]. rewrite IH. reflexivity. Qed.

(* the exact shape used by the compiler for a function literal: parameters, then the body *)
Corollary function_restores : forall t params b, wf_tab t -> body b ->
  fst (leave_context (run_ops (fold_left (fun t p => fst (define t p)) params (new_context t)) b)) = t.
Proof.
  intros t params b W B. rewrite defines_run_ops, <- run_ops_app. apply new_leave_context; [exact W|].
  induction params as [|p ps IH]; cbn [map app]; [exact B | now constructor].
Qed.

Lemma enter_scope_wf : forall t, wf_tab t -> wf_tab (enter_scope t).
Proof.
  intros t W. destruct (wf_tab_shape _ W) as (tp & k & m & sp & q & ->).
  apply wf_tab_snoc in W. destruct W as (W1 & W2 & W3). apply wf_ctx_mk in W3. destruct W3 as [_ W3].
  rewrite enter_scope_snoc. cbn [c_scope c_max c_syms].
  apply wf_tab_snoc. split; [exact W1|]. split; [exact W2|]. apply wf_ctx_mk. split; [apply no_snoc_nil|].
  now rewrite concat_snoc, app_nil_r.
Qed.

Lemma new_context_wf : forall t, wf_tab t -> wf_tab (new_context t).
Proof.
  intros t W. unfold new_context. apply wf_tab_snoc. destruct W as (HN & HG & HL & HF). split.
  - destruct t as [|c0 r']; [contradiction|]. cbn [wf_prefix]. auto.
  - split; [exact HF|]. apply wf_ctx_mk. cbn. split; [discriminate|lia].
Qed.

Lemma define_wf : forall t x, wf_tab t -> wf_tab (fst (define t x)).
Proof. intros t x W. destruct (define t x) as [t' s] eqn:D. now apply (define_spec _ _ _ _ W D). Qed.

(** ** 6. Renaming invariance *)

Lemma last_map : forall A B (f : A -> B) l d, last (map f l) (f d) = f (last l d).
Proof.
  intros A B f l d. induction l as [|a l IH]; [reflexivity|]. cbn [map last]. rewrite IH.
  destruct l; reflexivity.
Qed.

Lemma current_map_tab : forall r t, current (map_tab r t) = map_ctx r (current t).
Proof.
  intros r t. unfold current, current_context, map_tab.
  change (context_new SGlobal) with (map_ctx r (context_new SGlobal)) at 1. apply last_map.
Qed.

Lemma global_map_tab : forall r t, global (map_tab r t) = map_ctx r (global t).
Proof. intros r [|c0 t]; reflexivity. Qed.

Lemma flat_map_ctx : forall r c, flat (map_ctx r c) = map r (flat c).
Proof. intros. unfold flat, map_ctx. cbn [c_syms]. symmetry. apply concat_map. Qed.

Lemma last_occ_map : forall r x l, (forall y, In y l -> r y = r x -> y = x) ->
  last_occ (r x) (map r l) = last_occ x l.
Proof.
  intros r x l. induction l as [|y l IH]; intros H; [reflexivity|]. cbn [map last_occ].
  rewrite IH by (intros z Hz; apply H; now right).
  replace (text_eqb (r y) (r x)) with (text_eqb y x); [reflexivity|].
  destruct (text_eqb y x) eqn:E.
  - apply text_eqb_eq in E. subst. symmetry. apply text_eqb_refl.
  - symmetry. apply text_eqb_neq. intros HR. apply text_eqb_neq in E. apply E. apply H; [now left | exact HR].
Qed.

Lemma spec_lookup_map : forall r c x, (forall y, In y (flat c) -> r y = r x -> y = x) ->
  spec_lookup (map_ctx r c) (r x) = spec_lookup c x.
Proof. intros r c x H. unfold spec_lookup. rewrite flat_map_ctx, last_occ_map by exact H. reflexivity. Qed.

Lemma in_flat_tab_names : forall t c y, In c t -> In y (flat c) -> In y (tab_names t).
Proof. intros t c y Hc Hy. unfold tab_names. apply in_concat. exists (flat c). split; [now apply in_map | exact Hy]. Qed.

Lemma in_flat_current : forall t y, In y (flat (current t)) -> In y (tab_names t).
Proof.
  intros t y H. destruct t as [|c0 r]; [destruct H|].
  destruct (snoc_cases _ (c0 :: r)) as [tp [c E]]; [discriminate|]. rewrite E in *. rewrite current_snoc in H.
  eapply in_flat_tab_names; [|exact H]. apply in_or_app. right. now left.
Qed.

Lemma in_flat_global : forall t y, In y (flat (global t)) -> In y (tab_names t).
Proof. intros [|c0 r] y H; [destruct H|]. eapply in_flat_tab_names; [|exact H]. now left. Qed.

(* r need only separate x from the names occurring in the table *)
Theorem resolve_rename : forall r t x,
  (forall y, In y (tab_names t) -> r y = r x -> y = x) ->
  resolve (map_tab r t) (r x) = resolve t x.
Proof.
  intros r t x H. rewrite !resolve_refines_lookup_all. unfold spec_resolve.
  rewrite current_map_tab, global_map_tab. unfold map_tab at 1. rewrite map_length.
  rewrite !spec_lookup_map; [reflexivity| |].
  - intros y Hy. apply H. now apply in_flat_global.
  - intros y Hy. apply H. now apply in_flat_current.
Qed.

Corollary resolve_rename_injective : forall r t x,
  (forall a b, r a = r b -> a = b) -> resolve (map_tab r t) (r x) = resolve t x.
Proof. intros r t x H. apply resolve_rename. intros y _ E. now apply H. Qed.

Lemma push_last_map : forall r x l, push_last (r x) (map (map r) l) = map (map r) (push_last x l).
Proof.
  intros r x l. induction l as [|s l IH]; [reflexivity|]. cbn [map push_last]. rewrite IH.
  destruct l; cbn [map]; [now rewrite map_app|reflexivity].
Qed.

Lemma context_define_map : forall r c x,
  context_define (map_ctx r c) (r x) = (map_ctx r (fst (context_define c x)), snd (context_define c x)).
Proof.
  intros. unfold context_define. cbn [fst snd]. unfold map_ctx at 1 2 3 4. cbn [c_scope c_max c_syms].
  rewrite push_last_map. unfold map_ctx. cbn [c_scope c_max c_syms]. do 3 f_equal.
  rewrite !total_len_flat. unfold flat. cbn [c_syms]. now rewrite push_last_map, <- concat_map, map_length.
Qed.

Theorem define_rename : forall r t x t' s,
  define t x = (t', s) -> define (map_tab r t) (r x) = (map_tab r t', s).
Proof.
  intros r t x t' s D. destruct t as [|c0 rest].
  - unfold define in *. cbn in D. injection D as <- <-. reflexivity.
  - destruct (snoc_cases _ (c0 :: rest)) as [tp [c E]]; [discriminate|]. rewrite E in *.
    rewrite define_snoc in D. injection D as <- <-. unfold map_tab. rewrite !map_app. cbn [map].
    now rewrite define_snoc, context_define_map.
Qed.

(** ** 7. checkpoint / rollback *)

Theorem rollback_checkpoint_top : forall t, top_level t -> rollback t (checkpoint t) = t.
Proof.
  intros t (c & s & -> & E). unfold rollback, checkpoint. rewrite E, firstn_all, <- E. now rewrite context_eta.
Qed.

Lemma update_last_cons : forall A (f : A -> A) a l,
  update_last f (a :: l) = match l with [] => [f a] | _ => a :: update_last f l end.
Proof. intros A f a [|b l]; reflexivity. Qed.

Lemma has_base_step : forall s k t o, has_base s k t ->
  run_op t o <> [] -> c_syms (global (run_op t o)) <> [] -> has_base s k (run_op t o).
Proof.
  intros s k t o (c0 & rest & more & ss & -> & E & K) N1 N2. unfold has_base.
  destruct o; cbn [run_op] in *.
  - unfold enter_scope. rewrite update_last_cons. destruct rest as [|c1 rest].
    + eexists _, [], more, (ss ++ [[]]). split; [reflexivity|]. cbn [c_syms c_scope]. rewrite E. auto.
    + eexists c0, _, more, ss. eauto.
  - unfold define in *. destruct (context_define (current_context (c0 :: rest)) x) as [c' sy] eqn:D.
    cbn [fst] in *. rewrite update_last_cons. destruct rest as [|c1 rest].
    + unfold context_define in D. cbn [current_context last] in D. injection D as <- _.
      rewrite E. destruct ss as [|a ss].
      * eexists _, [], (more ++ [x]), []. split; [reflexivity|]. cbn [c_syms c_scope push_last].
        now rewrite app_assoc.
      * eexists _, [], more, (push_last x (a :: ss)). split; [reflexivity|]. cbn [c_syms c_scope]. auto.
    + eexists c0, _, more, ss. eauto.
  - unfold leave_scope in *. rewrite update_last_cons in *. destruct rest as [|c1 rest].
    + cbn [global hd c_syms] in N2. rewrite E in *. destruct ss as [|a ss]; [now contradiction N2|].
      eexists _, [], more, (removelast (a :: ss)). split; [reflexivity|]. cbn [c_syms c_scope]. auto.
    + eexists c0, _, more, ss. eauto.
  - unfold new_context. eexists c0, _, more, ss. split; [reflexivity|]. auto.
  - unfold leave_context in *. cbn [fst] in *. destruct rest as [|c1 rest]; [now contradiction N1|].
    eexists c0, (removelast (c1 :: rest)), more, ss. auto.
Qed.

Lemma has_base_run : forall s k ops t, has_base s k t -> base_kept t ops -> has_base s k (run_ops t ops).
Proof.
  intros s k ops. induction ops as [|o ops IH]; intros t H B; [exact H|].
  destruct B as (B1 & B2 & B3). rewrite run_ops_cons. apply IH; [|exact B3]. now apply has_base_step.
Qed.

Lemma rollback_has_base : forall s k t, has_base s k t ->
  rollback t (length s) = [mkContext k (c_max (global t)) [s]].
Proof.
  intros s k t (c0 & rest & more & ss & -> & E & K). unfold rollback. cbn [global hd]. rewrite E, K.
  rewrite firstn_app, firstn_all, Nat.sub_diag. cbn [firstn]. now rewrite app_nil_r.
Qed.

Lemma top_level_has_base : forall t, top_level t ->
  exists s, has_base s (c_scope (global t)) t /\ checkpoint t = length s /\ c_syms (global t) = [s] /\ t = [global t].
Proof.
  intros t (c & s & -> & E). exists s. cbn [global hd checkpoint]. rewrite E. repeat split; auto.
  exists c, [], [], []. now rewrite app_nil_r.
Qed.

(* However far compilation got (inside nested blocks and functions, anything as long as the first context
   and its first scope were never popped): rolling back to the checkpoint gives the old top level again,
   up to max_size of the global context, and every name resolves as before. *)
Theorem rollback_after_ops : forall t ops, top_level t -> base_kept t ops ->
  (exists m, rollback (run_ops t ops) (checkpoint t) =
             [mkContext (c_scope (global t)) m (c_syms (global t))]) /\
  forall x, resolve (rollback (run_ops t ops) (checkpoint t)) x = resolve t x.
Proof.
  intros t ops T B. destruct (top_level_has_base _ T) as (s & H & CP & ES & ET).
  pose proof (has_base_run _ _ _ _ H B) as H'. apply rollback_has_base in H'. rewrite CP, H', ES.
  split; [eexists; reflexivity|]. intros x. generalize (c_max (global (run_ops t ops))). intros m.
  transitivity (resolve [global t] x); [|now rewrite <- ET].
  change [?c] with ([] ++ [c]). rewrite !resolve_snoc. unfold spec_lookup, flat. cbn [c_syms c_scope].
  now rewrite ES.
Qed.

Lemma base_kept_app : forall a b t, base_kept t (a ++ b) <-> base_kept t a /\ base_kept (run_ops t a) b.
Proof.
  induction a as [|o a IH]; intros b t; cbn [app base_kept].
  - cbn. tauto.
  - rewrite IH, run_ops_cons. tauto.
Qed.

Lemma leave_context_new_wf : forall t b, wf_tab t -> body b ->
  wf_tab (fst (leave_context (run_ops (new_context t) b))).
Proof. intros t b W B. now rewrite new_leave_context. Qed.

Lemma body_base_kept : forall b, body b -> forall t, wf_tab t -> base_kept t b.
Proof.
  induction 1 as [|x r Hr IHr|b r Hb IHb Hr IHr|b r Hb IHb Hr IHr]; intros t W.
  - exact I.
  - cbn [base_kept run_op]. pose proof (define_wf _ x W) as W1.
    destruct (wf_tab_nonempty _ W1). auto.
  - cbn [base_kept run_op]. pose proof (enter_scope_wf _ W) as W1. destruct (wf_tab_nonempty _ W1).
    split; [auto|]. split; [auto|]. apply base_kept_app. split; [auto|]. cbn [base_kept run_op].
    destruct (enter_body_leave _ _ W Hb) as [n E]. pose proof (same_but_max_wf _ _ _ W E) as W2.
    destruct (wf_tab_nonempty _ W2). auto.
  - cbn [base_kept run_op]. pose proof (new_context_wf _ W) as W1. destruct (wf_tab_nonempty _ W1).
    split; [auto|]. split; [auto|]. apply base_kept_app. split; [auto|]. cbn [base_kept run_op].
    rewrite (new_leave_context _ _ W Hb). destruct (wf_tab_nonempty _ W). auto.
Qed.

Lemma open_body_base_kept : forall ops, open_body ops -> forall t, wf_tab t -> base_kept t ops.
Proof.
  induction 1 as [|x r Hr IHr|b r Hb Hr IHr|b r Hb Hr IHr|r Hr IHr|r Hr IHr]; intros t W.
  - exact I.
  - cbn [base_kept run_op]. pose proof (define_wf _ x W) as W1.
    destruct (wf_tab_nonempty _ W1). auto.
  - cbn [base_kept run_op]. pose proof (enter_scope_wf _ W) as W1. destruct (wf_tab_nonempty _ W1).
    split; [auto|]. split; [auto|]. apply base_kept_app. split; [now apply body_base_kept|]. cbn [base_kept run_op].
    destruct (enter_body_leave _ _ W Hb) as [n E]. pose proof (same_but_max_wf _ _ _ W E) as W2.
    destruct (wf_tab_nonempty _ W2). auto.
  - cbn [base_kept run_op]. pose proof (new_context_wf _ W) as W1. destruct (wf_tab_nonempty _ W1).
    split; [auto|]. split; [auto|]. apply base_kept_app. split; [now apply body_base_kept|]. cbn [base_kept run_op].
    rewrite (new_leave_context _ _ W Hb). destruct (wf_tab_nonempty _ W). auto.
  - cbn [base_kept run_op]. pose proof (enter_scope_wf _ W) as W1. destruct (wf_tab_nonempty _ W1). auto.
  - cbn [base_kept run_op]. pose proof (new_context_wf _ W) as W1. destruct (wf_tab_nonempty _ W1). auto.
Qed.

(* the compiler stopping anywhere inside a program (open blocks, open functions) and rolling back *)
Theorem rollback_after_open_body : forall t ops, top_level t -> wf_tab t -> open_body ops ->
  forall x, resolve (rollback (run_ops t ops) (checkpoint t)) x = resolve t x.
Proof. intros t ops T W O. apply rollback_after_ops; [exact T|]. now apply open_body_base_kept. Qed.

(* the literal form asked for: more globals defined at top level, then rollback *)
Theorem rollback_after_defines : forall t names, top_level t -> wf_tab t ->
  rollback (fold_left (fun t n => fst (define t n)) names t) (checkpoint t) =
    [mkContext (c_scope (global t)) (c_max (global t) + length names) (c_syms (global t))] /\
  forall x, resolve (rollback (fold_left (fun t n => fst (define t n)) names t) (checkpoint t)) x = resolve t x.
Proof.
  intros t names T W. split.
  - destruct T as (c & s & -> & E). change [c] with ([] ++ [c]). rewrite <- (context_eta c), E.
    change [s] with ([] ++ [s]). rewrite defines_snoc. cbn [app rollback checkpoint global hd c_syms c_scope c_max].
    now rewrite firstn_app, firstn_all, Nat.sub_diag, app_nil_r.
  - rewrite defines_run_ops. apply rollback_after_open_body; auto.
    induction names; cbn [map]; constructor; auto.
Qed.

(* entering a block changes nothing visible *)
Theorem enter_scope_resolve : forall t x, wf_tab t -> resolve (enter_scope t) x = resolve t x.
Proof.
  intros t x W. assert (HN : t <> []) by apply W. destruct (snoc_cases _ _ HN) as [tp [c ->]].
  rewrite enter_scope_snoc, !resolve_snoc. unfold spec_lookup, flat. cbn [c_syms c_scope].
  now rewrite concat_snoc, app_nil_r.
Qed.

(** * Examples (computed on the model) *)

Section Examples.
  Let x : text := [120%N].
  Let y : text := [121%N].
  Let g : text := [103%N].
  Let a : text := [97%N].
  Let def t n := fst (define t n).

  (* shadowing in an inner scope: the inner x (slot 1) wins, y is still the outer y *)
  Example ex_shadow :
    let t := def (enter_scope (def (def symtab_new x) y)) x in
    resolve t x = Some (mkSymbol SGlobal 2) /\ resolve t y = Some (mkSymbol SGlobal 1).
  Proof. vm_compute. split; reflexivity. Qed.

  (* redeclaration in the same scope resolves to the later slot *)
  Example ex_redeclare :
    resolve (def (def symtab_new x) x) x = Some (mkSymbol SGlobal 1).
  Proof. vm_compute. reflexivity. Qed.

  (* after leave_scope the outer one is visible again, and the inner-only name is gone *)
  Example ex_leave :
    let t := leave_scope (def (def (enter_scope (def symtab_new x)) x) y) in
    resolve t x = Some (mkSymbol SGlobal 0) /\ resolve t y = None.
  Proof. vm_compute. split; reflexivity. Qed.

  (* a function context sees the globals and its own parameters but not the caller's locals *)
  Example ex_function :
    let caller := def (new_context (def symtab_new g)) a in      (* inside f: local a *)
    let inner := def (new_context caller) x in                     (* inside a nested function with parameter x *)
    resolve caller a = Some (mkSymbol SLocal 0) /\
    resolve inner a = None /\
    resolve inner g = Some (mkSymbol SGlobal 0) /\
    resolve inner x = Some (mkSymbol SLocal 0) /\
    fst (leave_context inner) = caller.
  Proof. vm_compute. repeat split; reflexivity. Qed.

  (* the hypotheses of the theorems are satisfiable by non-trivial inputs *)
  Let ops1 := [OpDefine g; OpNewCtx; OpDefine a; OpEnter; OpDefine x; OpDefine x].
  Let ops2 := [OpDefine x; OpEnter; OpDefine y; OpNewCtx; OpDefine a; OpLeaveCtx; OpLeave; OpDefine y].

  Example ex_open_body : open_body ops1.
  Proof.
    unfold ops1. apply open_define, open_func, open_define, open_block, open_define, open_define, open_nil.
  Qed.

  Example ex_body : body ops2.
  Proof.
    unfold ops2. apply body_define.
    apply (body_block [OpDefine y; OpNewCtx; OpDefine a; OpLeaveCtx] [OpDefine y]).
    - apply body_define. apply (body_func [OpDefine a] []); repeat constructor.
    - repeat constructor.
  Qed.

  Example ex_wf : wf_tab (run_ops symtab_new ops1) /\ 2 <= length (run_ops symtab_new ops1).
  Proof.
    split; [|vm_compute; lia].
    unfold wf_tab. vm_compute. split; [discriminate|]. split; [reflexivity|]. split; [repeat constructor|].
    repeat constructor; discriminate.
  Qed.

  Example ex_top_level : top_level (def symtab_new g) /\ wf_tab (def symtab_new g).
  Proof. split; [eexists _, _; split; reflexivity|]. apply define_wf, wf_symtab_new. Qed.

  Example ex_rollback :
    let t := def symtab_new g in
    resolve (rollback (run_ops t ops1) (checkpoint t)) g = Some (mkSymbol SGlobal 0) /\
    resolve (rollback (run_ops t ops1) (checkpoint t)) x = None.
  Proof. vm_compute. split; reflexivity. Qed.

  (* a renaming that is injective: prefix every name with an underscore *)
  Example ex_rename : forall t n, resolve (map_tab (cons 95%N) t) (95%N :: n) = resolve t n.
  Proof. intros. apply (resolve_rename_injective (cons 95%N)). intros p q E. now injection E. Qed.
  (* a function with parameter a, a block declaring x, a nested function: the hypotheses of
     slot_below_num_locals hold and num_locals = 2 covers slots 0 (a) and 1 (x) *)
  Let ops3 := [OpEnter; OpDefine x; OpNewCtx; OpDefine y; OpLeaveCtx; OpLeave].
  Example ex_alive :
    let t := new_context (def symtab_new g) in
    let t1 := def t a in
    alive (length t - 1) t1 ops3 /\ length (run_ops t1 ops3) = length t /\
    snd (leave_context (run_ops t1 ops3)) = 2 /\ base_kept t1 ops3.
  Proof. vm_compute. repeat split; try discriminate; repeat constructor. Qed.
End Examples.

Print Assumptions text_eqb_eq.
Print Assumptions resolve_refines_lookup_all.
Print Assumptions resolve_refines_lookup.
Print Assumptions last_occ_Some.
Print Assumptions define_spec.
Print Assumptions resolve_found.
Print Assumptions context_isolation.
Print Assumptions resolve_skips_callers.
Print Assumptions resolve_new_context.
Print Assumptions resolve_None.
Print Assumptions slots_injective.
Print Assumptions slot_bound.
Print Assumptions define_slot_bound.
Print Assumptions leave_context_max.
Print Assumptions max_at_mono.
Print Assumptions slot_below_num_locals.
Print Assumptions body_extends.
Print Assumptions enter_body_leave.
Print Assumptions enter_body_leave_resolve.
Print Assumptions enter_leave_scope.
Print Assumptions enter_leave_scope_resolve.
Print Assumptions new_leave_context.
Print Assumptions function_restores.
Print Assumptions enter_scope_resolve.
Print Assumptions resolve_rename.
Print Assumptions define_rename.
Print Assumptions rollback_checkpoint_top.
Print Assumptions rollback_after_ops.
Print Assumptions rollback_after_open_body.
Print Assumptions rollback_after_defines.
Print Assumptions ex_wf.
Print Assumptions ex_alive.
