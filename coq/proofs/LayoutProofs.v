(* LayoutProofs.v - C07, token level, for EVERY layout: redundant parentheses, optional `;` and `,`
   (omitted wherever the grammar allows, or written as trailing separators), and the `anders als` chain
   never change the tree:

     parse_tokens pf (print_program_lay show_f lay b) = Ok b      for every layout oracle `lay`.

   The proof re-runs the Pratt induction of PrinterProofs.v for the printer of spec/Layout.v; the
   big-step rules PE_*/PL_*/... about the parser are reused from there.
   Structure: 1. a few more big-step rules   2. unfolding equations of the layout printer
              3. first tokens   4. the invariant   5. theorems   6. special cases and examples. *)
From NL.Model Require Import Lexer Parser.
From NL.Spec Require Import Printer RenderSpec Layout.
From NL.Proofs Require Import ParserTermination ParserFuel PrinterProofs.
From Coq Require Import Lia.
Open Scope Z_scope.

(** * 1. More big-step rules *)

Ltac ev_start :=
  unfold PE, PL, PLi, PPa, PSt, PB, PBI, PPr in *;
  let rec go acc :=
    lazymatch goal with
    | H : exists n : nat, forall fuel : nat, (n <= fuel)%nat -> _ |- _ =>
        let n := fresh "n" in destruct H as [n H]; go (acc + n)%nat
    | _ => exists (S (S (S acc)))
    end in
  go 0%nat;
  let fuel := fresh "fuel" in
  let Hle := fresh "Hle" in
  intros fuel Hle;
  destruct fuel as [ | fuel]; [ lia | ];
  destruct fuel as [ | fuel]; [ lia | ];
  destruct fuel as [ | fuel]; [ lia | ].
Ltac ev_rw :=
  match goal with
  | H : forall fuel : nat, (_ <= fuel)%nat -> _ = _ |- _ => rewrite H by lia
  end.
Ltac step := cbn [cur advance tl bind skip skip_optional is_fix ftoken_eqb negb andb orb].

Section MoreRules.
  Variable pf : text -> option float.

  (* statements: whatever follows, with one optional `;` skipped *)
  Lemma PSt_let_gen : forall n ts e ts',
    PE pf PLowest ts (Ok (e, ts')) ->
    PSt pf (TFix KDeclare :: TIdent n :: TFix KAssign :: ts) (Ok (SLet n e, skip_optional KSemi ts')).
  Proof.
    intros n ts e ts' H. ev_start. rewrite parse_statement_S. cbv zeta.
    cbn [cur advance tl bind skip is_fix ftoken_eqb]. ev_rw. reflexivity.
  Qed.

  Lemma PSt_return_gen : forall ts e ts',
    PE pf PLowest ts (Ok (e, ts')) ->
    PSt pf (TFix KReturn :: ts) (Ok (SReturn e, skip_optional KSemi ts')).
  Proof.
    intros ts e ts' H. ev_start. rewrite parse_statement_S.
    cbn [cur advance tl bind]. ev_rw. reflexivity.
  Qed.

  Lemma PSt_block_gen : forall ts b ts',
    PB pf (TFix KOpenBrace :: ts) (Ok (b, ts')) ->
    PSt pf (TFix KOpenBrace :: ts) (Ok (SBlock b, skip_optional KSemi ts')).
  Proof. intros ts b ts' H. ev_start. rewrite parse_statement_S. cbn [cur]. ev_rw. reflexivity. Qed.

  Lemma PSt_break_gen : forall ts, PSt pf (TFix KBreak :: ts) (Ok (SBreak, skip_optional KSemi ts)).
  Proof. intros ts. ev_start. rewrite parse_statement_S. reflexivity. Qed.

  Lemma PSt_continue_gen : forall ts, PSt pf (TFix KContinue :: ts) (Ok (SContinue, skip_optional KSemi ts)).
  Proof. intros ts. ev_start. rewrite parse_statement_S. reflexivity. Qed.

  Lemma PSt_expr_gen : forall ts e ts',
    expr_start (cur ts) = true -> PE pf PLowest ts (Ok (e, ts')) ->
    PSt pf ts (Ok (SExpr e, skip_optional KSemi ts')).
  Proof.
    intros ts e ts' Hs H. ev_start. rewrite parse_statement_S.
    revert Hs. destruct (cur ts) as [s | s | s | s | k]; [ | | | | destruct k ]; intro Hs;
      try discriminate Hs; ev_rw; reflexivity.
  Qed.

  (* quirk 2: after `anders`, a following `als` is read by parse_statement *)
  Lemma PE_if_chain : forall p ts c ts1 t ts3 s ts4 R,
    PE pf PLowest ts (Ok (c, ts1)) -> PB pf ts1 (Ok (t, TFix KElse :: ts3)) ->
    is_fix KIf (cur ts3) = true -> PSt pf ts3 (Ok (s, ts4)) ->
    PL pf p (EIf c t (Some [s])) ts4 R -> PE pf p (TFix KIf :: ts) R.
  Proof.
    intros p ts c ts1 t ts3 s ts4 R H1 H2 Hi H3 H4. ev_start. rewrite parse_expr_S. step.
    rewrite parse_if_expr_S. step. ev_rw. step. ev_rw. step. cbv zeta. step. rewrite Hi.
    ev_rw. step. ev_rw. reflexivity.
  Qed.
End MoreRules.

(** * 2. Facts about tokens *)

Definition stmt_start (t : token) : bool :=
  expr_start t ||
  match t with
  | TFix KDeclare | TFix KReturn | TFix KBreak | TFix KContinue | TFix KOpenBrace => true
  | _ => false
  end.

Lemma stmt_start_facts : forall t, stmt_start t = true ->
  is_fix KEof t = false /\ is_fix KCloseBrace t = false /\ is_fix KSemi t = false /\
  is_fix KElse t = false.
Proof.
  intros t H. destruct t as [s | s | s | s | k]; [ | | | | destruct k ];
    try discriminate H; repeat split; reflexivity.
Qed.

Lemma expr_start_facts2 : forall t, expr_start t = true ->
  is_fix KElse t = false /\ is_fix KComma t = false /\ is_fix KSemi t = false.
Proof.
  intros t H. destruct t as [s | s | s | s | k]; [ | | | | destruct k ];
    try discriminate H; repeat split; reflexivity.
Qed.

Lemma expr_stmt_start : forall t, expr_start t = true -> stmt_start t = true.
Proof. intros t H. unfold stmt_start. rewrite H. reflexivity. Qed.

(* exactly three tokens that can begin a statement continue an expression standing before them *)
Theorem continues_stmt_start : forall t, stmt_start t = true ->
  continues t = true <-> (t = TFix KOpenParen \/ t = TFix KOpenBracket \/ t = TFix KMinus).
Proof.
  intros t H. destruct t as [s | s | s | s | k]; [ | | | | destruct k ]; try discriminate H;
    split; intro H'; try discriminate H'; try reflexivity;
    try (destruct H' as [H' | [H' | H']]; discriminate H'); tauto.
Qed.

Lemma continues_false_rank : forall t, continues t = false ->
  (prec_rank (token_precedence t) <= prec_rank PLowest)%nat.
Proof.
  intros t H. unfold continues, prec_lt in H. apply Nat.ltb_ge in H. exact H.
Qed.

Lemma continues_cur_app : forall tl k X, continues (TFix k) = false ->
  continues (cur (tl ++ TFix k :: X)) = continues (cur tl).
Proof. intros tl k X H. destruct tl as [ | t tl']; [ exact H | reflexivity ]. Qed.

(* what may stand after a statement and its optional `;` *)
Definition boundary (rest : list token) : Prop :=
  is_fix KSemi (cur rest) = false /\ is_fix KElse (cur rest) = false.

Lemma boundary_nil : boundary [].
Proof. split; reflexivity. Qed.

Lemma boundary_skip : forall rest, boundary rest -> skip_optional KSemi rest = rest.
Proof. intros rest [H _]. unfold skip_optional. rewrite H. reflexivity. Qed.

Lemma skip_opt_sep : forall c b cont rest, boundary rest ->
  skip_optional KSemi (opt_semi c b cont ++ rest) = rest.
Proof.
  intros c b cont rest Hb. unfold opt_semi. destruct (omit c && negb (sep_required b cont)).
  - cbn [app]. apply boundary_skip. exact Hb.
  - reflexivity.
Qed.

Lemma follow_boundary : forall rest, boundary rest -> continues (cur rest) = false ->
  follow PLowest rest.
Proof. intros rest [_ He] Hc. split; [ exact He | apply continues_false_rank; exact Hc ]. Qed.

(** * 3. Unfolding equations of the layout printer *)

Lemma paren_app : forall X rest, paren X ++ rest = TFix KOpenParen :: X ++ TFix KCloseParen :: rest.
Proof. intros X rest. unfold paren. cbn [app]. rewrite <- app_assoc. reflexivity. Qed.

Definition chain_view (e : expr) : option (expr * block * stmt) :=
  match e with
  | EIf c t (Some (s2 :: nil)) => Some (c, t, s2)
  | _ => None
  end.

Section UnfoldL.
  Variable show_f : float -> text.
  Variable fok : float -> bool.

  Lemma print_expr_lay_eq : forall lay p f e,
    print_expr_lay show_f lay p f e =
      with_extra (extra (lay [])) (print_min e (fun p' f' => print_raw_lay show_f lay p' f' e)) p f.
  Proof. intros lay p f e. destruct e; reflexivity. Qed.

  Lemma print_stmt_lay_let : forall lay cont n e,
    print_stmt_lay show_f lay cont (SLet n e) =
      TFix KDeclare :: TIdent n :: TFix KAssign :: print_expr_lay show_f (sub lay 0) PLowest PLowest e
      ++ opt_semi (lay []) true cont.
  Proof. reflexivity. Qed.
  Lemma print_stmt_lay_return : forall lay cont e,
    print_stmt_lay show_f lay cont (SReturn e) =
      TFix KReturn :: print_expr_lay show_f (sub lay 0) PLowest PLowest e ++ opt_semi (lay []) true cont.
  Proof. reflexivity. Qed.
  Lemma print_stmt_lay_block : forall lay cont b,
    print_stmt_lay show_f lay cont (SBlock b) =
      TFix KOpenBrace :: print_stmts_lay show_f (sub (sub lay 0)) b
      ++ TFix KCloseBrace :: opt_semi (lay []) false cont.
  Proof. reflexivity. Qed.
  Lemma print_stmt_lay_break : forall lay cont,
    print_stmt_lay show_f lay cont SBreak = TFix KBreak :: opt_semi (lay []) false cont.
  Proof. reflexivity. Qed.
  Lemma print_stmt_lay_continue : forall lay cont,
    print_stmt_lay show_f lay cont SContinue = TFix KContinue :: opt_semi (lay []) false cont.
  Proof. reflexivity. Qed.

  (* an expression statement when the chain form is not used *)
  Definition print_sexpr_default (lay : layout) (cont : bool) (e : expr) : list token :=
    print_expr_lay show_f (sub lay 0) PLowest PLowest e ++ opt_semi (lay []) true cont.

  Lemma print_stmt_lay_expr : forall lay cont e,
    print_stmt_lay show_f lay cont (SExpr e) =
      match chain_view e with
      | Some (c, t, s2) =>
          if use_chain lay cont s2 then print_chain_lay show_f lay cont c t s2
          else print_sexpr_default lay cont e
      | None => print_sexpr_default lay cont e
      end.
  Proof.
    intros lay cont e.
    destruct e as [ | | | | | c t alt | | | | | | | | ]; try reflexivity.
    destruct alt as [ a | ]; [ | reflexivity ].
    destruct a as [ | s2 a' ]; [ reflexivity | ]. destruct a' as [ | s3 a'' ]; reflexivity.
  Qed.

  Lemma print_stmts_lay_cons : forall ll s b,
    print_stmts_lay show_f ll (s :: b) =
      print_stmt_lay show_f (ll 0%nat) (continues (cur (print_stmts_lay show_f (shift ll) b))) s
      ++ print_stmts_lay show_f (shift ll) b.
  Proof. reflexivity. Qed.

  Definition is_nil {A} (l : list A) : bool := match l with [] => true | _ => false end.

  Lemma print_list_lay_cons : forall ll e es,
    print_list_lay show_f ll (e :: es) =
      (print_expr_lay show_f (ll 0%nat) PLowest PLowest e
       ++ opt_comma (ll 0%nat []) (is_nil es) (continues (cur (print_list_lay show_f (shift ll) es))))
      ++ print_list_lay show_f (shift ll) es.
  Proof. reflexivity. Qed.

  Lemma print_params_lay_cons : forall ll n ps,
    print_params_lay ll (n :: ps) =
      (TIdent n :: opt_comma (ll 0%nat []) (is_nil ps) (continues (cur (print_params_lay (shift ll) ps))))
      ++ print_params_lay (shift ll) ps.
  Proof. reflexivity. Qed.

  Lemma print_block_lay_app : forall ll b rest,
    print_block_lay show_f ll b ++ rest =
      TFix KOpenBrace :: print_stmts_lay show_f ll b ++ TFix KCloseBrace :: rest.
  Proof. intros ll b rest. unfold print_block_lay. cbn [app]. rewrite <- app_assoc. reflexivity. Qed.

  (** ** first tokens *)

  Lemma with_extra_first : forall k m p f rest,
    (forall p' f' rest', expr_start (cur (m p' f' ++ rest')) = true) ->
    expr_start (cur (with_extra k m p f ++ rest)) = true.
  Proof.
    intros k m p f rest H. destruct k as [ | k]; [ apply H | reflexivity ].
  Qed.

  Lemma print_min_first : forall e raw p f rest,
    (forall p' f' rest', expr_start (cur (raw p' f' ++ rest')) = true) ->
    expr_start (cur (print_min e raw p f ++ rest)) = true.
  Proof.
    intros e raw p f rest H. unfold print_min. destruct (need_parens p f e); [ reflexivity | apply H ].
  Qed.

  Lemma first_tokL : forall e, wf_expr fok e = true ->
    forall lay p f rest, expr_start (cur (print_expr_lay show_f lay p f e ++ rest)) = true.
  Proof.
    apply (expr_tree_ind
             (fun e => wf_expr fok e = true ->
                       forall lay p f rest,
                         expr_start (cur (print_expr_lay show_f lay p f e ++ rest)) = true)
             (fun _ => True));
      try (intros; exact I);
      try (intros; rewrite print_expr_lay_eq; apply with_extra_first; intros; apply print_min_first;
           intros; reflexivity).
    - intros l o r IHl _ Hwf lay p f rest. rewrite wf_infix in Hwf.
      apply andb_true_iff in Hwf. destruct Hwf as [Hwf _].
      apply andb_true_iff in Hwf. destruct Hwf as [_ Hwl].
      rewrite print_expr_lay_eq. apply with_extra_first. intros p1 f1 rest1.
      apply print_min_first. intros p2 f2 rest2.
      cbn [print_raw_lay]. cbv zeta. rewrite <- app_assoc. apply IHl. exact Hwl.
    - intros o r _ Hwf lay p f rest. rewrite wf_prefix in Hwf.
      apply andb_true_iff in Hwf. destruct Hwf as [Hop _].
      destruct (prefix_tok_spec o Hop) as (Hk & _).
      rewrite print_expr_lay_eq. apply with_extra_first. intros p1 f1 rest1.
      apply print_min_first. intros p2 f2 rest2.
      cbn [print_raw_lay app cur]. destruct Hk as [Hk | Hk]; rewrite Hk; reflexivity.
    - intros b _ lay p f rest.
      rewrite print_expr_lay_eq. apply with_extra_first. intros p1 f1 rest1.
      apply print_min_first. intros p2 f2 rest2. destruct b; reflexivity.
    - intros h args IHh _ Hwf lay p f rest. rewrite wf_call in Hwf.
      apply andb_true_iff in Hwf. destruct Hwf as [Hwf _].
      apply andb_true_iff in Hwf. destruct Hwf as [_ Hwh].
      rewrite print_expr_lay_eq. apply with_extra_first. intros p1 f1 rest1.
      apply print_min_first. intros p2 f2 rest2.
      cbn [print_raw_lay]. rewrite <- app_assoc. apply IHh. exact Hwh.
    - intros l r IHl _ Hwf lay p f rest. rewrite wf_assign in Hwf.
      apply andb_true_iff in Hwf. destruct Hwf as [Hwf _].
      apply andb_true_iff in Hwf. destruct Hwf as [_ Hwl].
      rewrite print_expr_lay_eq. apply with_extra_first. intros p1 f1 rest1.
      apply print_min_first. intros p2 f2 rest2.
      cbn [print_raw_lay]. rewrite <- app_assoc. apply IHl. exact Hwl.
    - intros b i IHb _ Hwf lay p f rest. rewrite wf_index in Hwf.
      apply andb_true_iff in Hwf. destruct Hwf as [Hwf _].
      apply andb_true_iff in Hwf. destruct Hwf as [_ Hwb].
      rewrite print_expr_lay_eq. apply with_extra_first. intros p1 f1 rest1.
      apply print_min_first. intros p2 f2 rest2.
      cbn [print_raw_lay]. rewrite <- app_assoc. apply IHb. exact Hwb.
  Qed.

  Lemma stmt_firstL : forall s, wf_stmt fok s = true -> forall lay cont rest,
    stmt_start (cur (print_stmt_lay show_f lay cont s ++ rest)) = true.
  Proof.
    intros s Hwf lay cont rest. destruct s as [n e | e | e | b | | ]; try reflexivity.
    rewrite wf_sexpr in Hwf. rewrite print_stmt_lay_expr.
    assert (Hd : stmt_start (cur (print_sexpr_default lay cont e ++ rest)) = true).
    { unfold print_sexpr_default. rewrite <- app_assoc. apply expr_stmt_start.
      apply first_tokL. exact Hwf. }
    destruct (chain_view e) as [[[c t] s2] | ]; [ | exact Hd ].
    destruct (use_chain lay cont s2); [ reflexivity | exact Hd ].
  Qed.
End UnfoldL.

(** * 4. The Pratt invariant for every layout *)

Section MainL.
  Variable pf : text -> option float.
  Variable show_f : float -> text.
  Variable fok : float -> bool.
  Hypothesis Hfok : forall x, fok x = true -> pf (show_f x) = Some x.

  (* as PrinterProofs.Full, for every layout of e *)
  Definition FullL (e : expr) : Prop :=
    forall lay p f rest R, p_ok p -> follow f rest ->
      PL pf p e rest R -> PE pf p (print_expr_lay show_f lay p f e ++ rest) R.
  Definition RawL (e : expr) : Prop :=
    forall lay p f rest R, p_ok p -> need_parens p f e = false -> follow f rest ->
      PL pf p e rest R -> PE pf p (print_raw_lay show_f lay p f e ++ rest) R.
  (* a statement with its optional `;`, in front of anything that can stand there; `cont` must tell the
     truth about the token that follows *)
  Definition StL (s : stmt) : Prop :=
    forall lay cont rest, boundary rest -> cont = continues (cur rest) ->
      PSt pf (print_stmt_lay show_f lay cont s ++ rest) (Ok (s, rest)).

  Lemma close_paren_stop : forall e rest,
    PL pf PLowest e (TFix KCloseParen :: rest) (Ok (e, TFix KCloseParen :: rest)).
  Proof.
    intros e rest. apply PL_stop. cbn [cur]. change (token_precedence (TFix KCloseParen)) with PLowest. lia.
  Qed.

  (* redundant parentheses: k further pairs around the minimal form *)
  Lemma raw_to_fullL : forall e, need_parens PLowest PLowest e = false -> RawL e -> FullL e.
  Proof.
    intros e Hlow Hraw lay p f rest R Hp Hf HL. rewrite print_expr_lay_eq.
    set (m := print_min e (fun p' f' => print_raw_lay show_f lay p' f' e)).
    assert (Hm : forall p f rest R, p_ok p -> follow f rest -> PL pf p e rest R ->
                                    PE pf p (m p f ++ rest) R).
    { clear p f rest R Hp Hf HL. intros p f rest R Hp Hf HL. subst m. unfold print_min.
      destruct (need_parens p f e) eqn:En.
      - rewrite paren_app. eapply PE_paren; [ | exact HL ].
        apply Hraw; [ exact p_ok_lowest | exact Hlow | apply follow_low; reflexivity | ].
        apply close_paren_stop.
      - apply Hraw; assumption. }
    destruct (extra (lay [])) as [ | k]; [ cbn [with_extra]; apply Hm; assumption | ].
    cbn [with_extra]. clear Hp Hf. revert p rest R HL.
    induction k as [ | k IH]; intros p rest R HL.
    - cbn [wrap]. rewrite paren_app. eapply PE_paren; [ | exact HL ].
      apply Hm; [ exact p_ok_lowest | apply follow_low; reflexivity | apply close_paren_stop ].
    - change (wrap (S (S k)) (m PLowest PLowest)) with (paren (wrap (S k) (m PLowest PLowest))).
      rewrite paren_app. eapply PE_paren; [ | exact HL ].
      apply IH. apply close_paren_stop.
  Qed.

  Lemma full_okL : forall e lay p f rest, FullL e -> p_ok p -> follow f rest ->
    (prec_rank f <= prec_rank p)%nat ->
    PE pf p (print_expr_lay show_f lay p f e ++ rest) (Ok (e, rest)).
  Proof.
    intros e lay p f rest HF Hp Hf Hle. apply HF; [ exact Hp | exact Hf | ].
    apply PL_stop. destruct Hf as [_ Hf]. lia.
  Qed.

  Lemma full_lowL : forall e lay k rest, FullL e ->
    is_fix KElse (TFix k) = false -> tok_prec k = PLowest ->
    PE pf PLowest (print_expr_lay show_f lay PLowest PLowest e ++ TFix k :: rest) (Ok (e, TFix k :: rest)).
  Proof.
    intros e lay k rest HF He Hk. apply full_okL; [ exact HF | exact p_ok_lowest | | lia ].
    apply follow_low; assumption.
  Qed.

  (** ** atoms *)

  Lemma full_intL : forall z, wf_expr fok (EInt z) = true -> FullL (EInt z).
  Proof.
    intros z Hwf. rewrite wf_int in Hwf. apply andb_true_iff in Hwf. destruct Hwf as [H0 H1].
    apply Z.leb_le in H0. apply Z.leb_le in H1.
    apply raw_to_fullL; [ apply need_low; exact inf_rank_pos | ].
    intros lay p f rest R Hp Hn Hf HL. cbn [print_raw_lay app].
    eapply PE_int; [ apply int_literal_show; assumption | exact HL ].
  Qed.

  Lemma full_floatL : forall x, wf_expr fok (EFloat x) = true -> FullL (EFloat x).
  Proof.
    intros x Hwf. rewrite wf_float in Hwf.
    apply raw_to_fullL; [ apply need_low; exact inf_rank_pos | ].
    intros lay p f rest R Hp Hn Hf HL. cbn [print_raw_lay app].
    eapply PE_float; [ apply Hfok; exact Hwf | exact HL ].
  Qed.

  Lemma full_boolL : forall b, FullL (EBool b).
  Proof.
    intros b. apply raw_to_fullL; [ apply need_low; exact inf_rank_pos | ].
    intros lay p f rest R Hp Hn Hf HL. cbn [print_raw_lay app]. apply PE_bool. exact HL.
  Qed.

  Lemma full_identL : forall s, FullL (EIdent s).
  Proof.
    intros s. apply raw_to_fullL; [ apply need_low; exact inf_rank_pos | ].
    intros lay p f rest R Hp Hn Hf HL. cbn [print_raw_lay app]. apply PE_ident. exact HL.
  Qed.

  Lemma full_stringL : forall s, FullL (EString s).
  Proof.
    intros s. apply raw_to_fullL; [ apply need_low; exact inf_rank_pos | ].
    intros lay p f rest R Hp Hn Hf HL. cbn [print_raw_lay app]. apply PE_string.
    rewrite decode_quote. exact HL.
  Qed.

  (** ** operators *)

  Lemma full_infixL : forall l o r,
    (wf_expr fok l = true -> FullL l) -> (wf_expr fok r = true -> FullL r) ->
    wf_expr fok (EInfix l o r) = true -> FullL (EInfix l o r).
  Proof.
    intros l o r IHl IHr Hwf. rewrite wf_infix in Hwf.
    apply andb_true_iff in Hwf. destruct Hwf as [Hwf Hwr].
    apply andb_true_iff in Hwf. destruct Hwf as [Hwf Hwl].
    apply andb_true_iff in Hwf. destruct Hwf as [Hop Hnf].
    apply negb_true_iff in Hnf.
    destruct (infix_tok_spec o Hop) as (Kin & Kop & Ksemi & Kelse & Kpos & Kpok).
    apply raw_to_fullL; [ apply need_low; exact Kpos | ].
    intros lay p f rest R Hp Hn Hf HL. apply need_false in Hn. cbn [head_rank open_rank] in Hn.
    destruct Hn as [Hn1 Hn2]. unfold tok_rank in Hn1, Hn2.
    cbn [print_raw_lay]. cbv zeta. rewrite <- app_assoc. rewrite <- app_comm_cons.
    apply (IHl Hwl); [ exact Hp | apply follow_self; exact Kelse | ].
    eapply PL_infix;
      [ exact Ksemi
      | unfold prec_lt; apply Nat.ltb_lt; exact Hn1
      | exact Kin
      | exact Kop
      | exact Hnf
      | destruct (expr_start_facts _ (first_tokL show_f fok r Hwr (sub lay 1) (tok_prec (infix_tok o)) f rest))
          as (Ha & _); exact Ha
      | apply (IHr Hwr); [ exact Kpok | exact Hf | apply PL_stop; destruct Hf as [_ Hf]; lia ]
      | exact HL ].
  Qed.

  Lemma full_prefixL : forall o r,
    (wf_expr fok r = true -> FullL r) ->
    wf_expr fok (EPrefix o r) = true -> FullL (EPrefix o r).
  Proof.
    intros o r IHr Hwf. rewrite wf_prefix in Hwf.
    apply andb_true_iff in Hwf. destruct Hwf as [Hop Hwr].
    destruct (prefix_tok_spec o Hop) as (Kk & Kop & Kpok).
    apply raw_to_fullL; [ apply need_low; exact inf_rank_pos | ].
    intros lay p f rest R Hp Hn Hf HL. apply need_false in Hn. cbn [head_rank open_rank] in Hn.
    destruct Hn as [_ Hn2]. unfold tok_rank in Hn2.
    cbn [print_raw_lay]. cbv zeta. rewrite <- app_comm_cons.
    eapply PE_prefix;
      [ exact Kk
      | exact Kop
      | apply (IHr Hwr); [ exact Kpok | exact Hf | apply PL_stop; destruct Hf as [_ Hf]; lia ]
      | exact HL ].
  Qed.

  Lemma full_assignL : forall l r,
    (wf_expr fok l = true -> FullL l) -> (wf_expr fok r = true -> FullL r) ->
    wf_expr fok (EAssign l r) = true -> FullL (EAssign l r).
  Proof.
    intros l r IHl IHr Hwf. rewrite wf_assign in Hwf.
    apply andb_true_iff in Hwf. destruct Hwf as [Hwf Hwr].
    apply andb_true_iff in Hwf. destruct Hwf as [Htg Hwl].
    apply raw_to_fullL; [ apply need_low; exact assign_rank_pos | ].
    intros lay p f rest R Hp Hn Hf HL. apply need_false in Hn. cbn [head_rank open_rank] in Hn.
    destruct Hn as [Hn1 Hn2]. unfold tok_rank in Hn1, Hn2.
    cbn [print_raw_lay]. rewrite <- app_assoc. rewrite <- app_comm_cons.
    apply (IHl Hwl); [ exact Hp | apply follow_self; reflexivity | ].
    eapply PL_assign;
      [ unfold prec_lt; apply Nat.ltb_lt; exact Hn1
      | exact Htg
      | change PAssign with (tok_prec KAssign);
        apply (IHr Hwr); [ exact p_ok_assign | exact Hf | apply PL_stop; destruct Hf as [_ Hf]; lia ]
      | exact HL ].
  Qed.

  (** ** lists with optional commas *)

  Lemma list_head : forall close, close = KCloseParen \/ close = KCloseBracket ->
    forall es, forallb (wf_expr fok) es = true -> forall ll X,
    let t := cur (print_list_lay show_f ll es ++ TFix close :: X) in
    is_fix KElse t = false /\ is_fix KComma t = false.
  Proof.
    intros close Hc es Hwf ll X. destruct es as [ | e es'].
    - cbn [print_list_lay lay_seq app cur]. destruct Hc; subst close; split; reflexivity.
    - cbn [forallb] in Hwf. apply andb_true_iff in Hwf. destruct Hwf as [Hwe _].
      cbv zeta. rewrite print_list_lay_cons. rewrite <- !app_assoc.
      destruct (expr_start_facts2 _ (first_tokL show_f fok e Hwe (ll 0%nat) PLowest PLowest
        (opt_comma (ll 0%nat []) (is_nil es') (continues (cur (print_list_lay show_f (shift ll) es')))
         ++ print_list_lay show_f (shift ll) es' ++ TFix close :: X))) as (H1 & H2 & _).
      split; assumption.
  Qed.

  Lemma PLi_printL : forall close, close = KCloseParen \/ close = KCloseBracket ->
    forall es, Forall (fun e => wf_expr fok e = true -> FullL e) es ->
    forallb (wf_expr fok) es = true ->
    forall ll rest,
      PLi pf close (print_list_lay show_f ll es ++ TFix close :: rest) (Ok (es, TFix close :: rest)).
  Proof.
    intros close Hc es HF.
    assert (Hclose : is_fix close (TFix close) = true /\ continues (TFix close) = false)
      by (destruct Hc; subst close; repeat split; reflexivity).
    destruct Hclose as (Hc1 & Hc2).
    induction HF as [ | e es' He HF' IH]; intros Hwf ll rest.
    - cbn [print_list_lay lay_seq app]. apply PLi_nil. exact Hc1.
    - pose proof Hwf as Hwf0.
      cbn [forallb] in Hwf. apply andb_true_iff in Hwf. destruct Hwf as [Hwe Hwes].
      assert (Hst : forall l X, is_fix close (cur (print_expr_lay show_f l PLowest PLowest e ++ X)) = false).
      { intros l X. destruct (expr_start_facts _ (first_tokL show_f fok e Hwe l PLowest PLowest X))
          as (_ & Hp & Hb & _). destruct Hc; subst close; assumption. }
      rewrite print_list_lay_cons. rewrite <- !app_assoc.
      set (tl := print_list_lay show_f (shift ll) es').
      destruct (list_head close Hc es' Hwes (shift ll) rest) as [Hh1 Hh2]. fold tl in Hh1, Hh2.
      (* whatever the separator, the item stops in front of it, and the list goes on behind it *)
      set (sp := opt_comma (ll 0%nat []) (is_nil es') (continues (cur tl))).
      assert (Hsp : (sp = [TFix KComma] \/ (sp = [] /\ follow PLowest (tl ++ TFix close :: rest)))).
      { subst sp. unfold opt_comma. destruct es' as [ | e2 es''].
        - cbn [is_nil]. destruct (trail (ll 0%nat [])); [ left; reflexivity | right ].
          split; [ reflexivity | ]. subst tl. cbn [print_list_lay lay_seq app].
          apply follow_low; [ | destruct Hc; subst close; reflexivity ].
          destruct Hc; subst close; reflexivity.
        - cbn [is_nil]. destruct (omit (ll 0%nat []) && negb (continues (cur tl))) eqn:Eo;
            [ right | left; reflexivity ].
          apply andb_true_iff in Eo. destruct Eo as [_ Eo]. apply negb_true_iff in Eo.
          split; [ reflexivity | ]. split; [ exact Hh1 | ]. apply continues_false_rank.
          rewrite (continues_cur_app tl close rest Hc2). exact Eo. }
      destruct Hsp as [Hsp | [Hsp Hfol]]; rewrite Hsp; cbn [app].
      + eapply PLi_cons;
          [ apply Hst
          | apply full_lowL; [ exact (He Hwe) | reflexivity | reflexivity ]
          | ].
        cbn [skip_optional cur is_fix ftoken_eqb advance tl]. apply IH. exact Hwes.
      + eapply PLi_cons;
          [ apply Hst
          | apply full_okL; [ exact (He Hwe) | exact p_ok_lowest | exact Hfol | lia ]
          | ].
        unfold skip_optional. rewrite Hh2. apply IH. exact Hwes.
  Qed.

  Lemma params_head : forall ps ll X,
    is_fix KComma (cur (print_params_lay ll ps ++ TFix KCloseParen :: X)) = false.
  Proof. intros ps ll X. destruct ps as [ | n ps']; reflexivity. Qed.

  Lemma PPa_printL : forall ps ll rest,
    PPa pf (print_params_lay ll ps ++ TFix KCloseParen :: rest) (Ok (ps, TFix KCloseParen :: rest)).
  Proof.
    induction ps as [ | n ps IH]; intros ll rest.
    - cbn [print_params_lay lay_seq app]. apply PPa_nil. reflexivity.
    - rewrite print_params_lay_cons. rewrite <- app_assoc. rewrite <- app_comm_cons.
      apply PPa_cons. unfold opt_comma.
      destruct (is_nil ps);
        [ destruct (trail (ll 0%nat []))
        | destruct (omit (ll 0%nat []) && negb (continues (cur (print_params_lay (shift ll) ps)))) ].
      + cbn [app skip_optional cur is_fix ftoken_eqb advance tl]. apply IH.
      + cbn [app]. unfold skip_optional. rewrite params_head. apply IH.
      + cbn [app]. unfold skip_optional. rewrite params_head. apply IH.
      + cbn [app skip_optional cur is_fix ftoken_eqb advance tl]. apply IH.
  Qed.

  (** ** calls, indexing, arrays *)

  Lemma full_callL : forall h args,
    (wf_expr fok h = true -> FullL h) -> Forall (fun e => wf_expr fok e = true -> FullL e) args ->
    wf_expr fok (ECall h args) = true -> FullL (ECall h args).
  Proof.
    intros h args IHh IHargs Hwf. rewrite wf_call in Hwf.
    apply andb_true_iff in Hwf. destruct Hwf as [Hwf Hwargs].
    apply andb_true_iff in Hwf. destruct Hwf as [Hh Hwh].
    apply raw_to_fullL; [ apply need_low; exact inf_rank_pos | ].
    intros lay p f rest R Hp Hn Hf HL.
    cbn [print_raw_lay]. rewrite <- app_assoc. rewrite <- app_comm_cons. rewrite <- app_assoc. cbn [app].
    apply (IHh Hwh); [ exact Hp | apply follow_self; reflexivity | ].
    eapply PL_call;
      [ destruct Hp as [Hp1 _]; exact Hp1
      | exact Hh
      | apply PLi_printL; [ left; reflexivity | exact IHargs | exact Hwargs ]
      | exact HL ].
  Qed.

  Lemma full_indexL : forall b i,
    (wf_expr fok b = true -> FullL b) -> (wf_expr fok i = true -> FullL i) ->
    wf_expr fok (EIndex b i) = true -> FullL (EIndex b i).
  Proof.
    intros b i IHb IHi Hwf. rewrite wf_index in Hwf.
    apply andb_true_iff in Hwf. destruct Hwf as [Hwf Hwi].
    apply andb_true_iff in Hwf. destruct Hwf as [Hb Hwb].
    apply raw_to_fullL; [ apply need_low; exact inf_rank_pos | ].
    intros lay p f rest R Hp Hn Hf HL.
    cbn [print_raw_lay]. rewrite <- app_assoc. rewrite <- app_comm_cons. rewrite <- app_assoc. cbn [app].
    apply (IHb Hwb); [ exact Hp | apply follow_self; reflexivity | ].
    eapply PL_index;
      [ destruct Hp as [_ Hp2]; exact Hp2
      | exact Hb
      | apply full_lowL; [ exact (IHi Hwi) | reflexivity | reflexivity ]
      | exact HL ].
  Qed.

  Lemma full_arrayL : forall vs,
    Forall (fun e => wf_expr fok e = true -> FullL e) vs ->
    wf_expr fok (EArray vs) = true -> FullL (EArray vs).
  Proof.
    intros vs IHvs Hwf. rewrite wf_array in Hwf.
    apply raw_to_fullL; [ apply need_low; exact inf_rank_pos | ].
    intros lay p f rest R Hp Hn Hf HL.
    cbn [print_raw_lay]. rewrite <- app_comm_cons. rewrite <- app_assoc. cbn [app].
    eapply PE_array;
      [ apply PLi_printL; [ right; reflexivity | exact IHvs | exact Hwf ]
      | exact HL ].
  Qed.

  (** ** blocks with optional semicolons *)

  Lemma stmts_head : forall b, forallb (wf_stmt fok) b = true -> forall ll k X,
    is_fix KSemi (TFix k) = false -> is_fix KElse (TFix k) = false ->
    boundary (print_stmts_lay show_f ll b ++ TFix k :: X).
  Proof.
    intros b Hwf ll k X Hk1 Hk2. destruct b as [ | s b'].
    - cbn [print_stmts_lay lay_seq app]. split; assumption.
    - cbn [forallb] in Hwf. apply andb_true_iff in Hwf. destruct Hwf as [Hws _].
      rewrite print_stmts_lay_cons. rewrite <- app_assoc.
      destruct (stmt_start_facts _ (stmt_firstL show_f fok s Hws (ll 0%nat)
        (continues (cur (print_stmts_lay show_f (shift ll) b')))
        (print_stmts_lay show_f (shift ll) b' ++ TFix k :: X))) as (_ & _ & H3 & H4).
      split; assumption.
  Qed.

  Lemma PBI_printL : forall b, Forall (fun s => wf_stmt fok s = true -> StL s) b ->
    forallb (wf_stmt fok) b = true ->
    forall ll rest, PBI pf (print_stmts_lay show_f ll b ++ TFix KCloseBrace :: rest)
                      (Ok (b, TFix KCloseBrace :: rest)).
  Proof.
    intros b HF. induction HF as [ | s b' Hs HF' IH]; intros Hwf ll rest.
    - cbn [print_stmts_lay lay_seq app]. apply PBI_nil. reflexivity.
    - cbn [forallb] in Hwf. apply andb_true_iff in Hwf. destruct Hwf as [Hws Hwb].
      rewrite print_stmts_lay_cons. rewrite <- app_assoc.
      set (tl := print_stmts_lay show_f (shift ll) b').
      destruct (stmt_start_facts _ (stmt_firstL show_f fok s Hws (ll 0%nat) (continues (cur tl))
                                     (tl ++ TFix KCloseBrace :: rest))) as (H1 & H2 & _).
      eapply PBI_cons; [ exact H1 | exact H2 | | apply IH; exact Hwb ].
      apply (Hs Hws).
      + apply stmts_head; [ exact Hwb | reflexivity | reflexivity ].
      + symmetry. apply continues_cur_app. reflexivity.
  Qed.

  Lemma PB_printL : forall b, Forall (fun s => wf_stmt fok s = true -> StL s) b ->
    forallb (wf_stmt fok) b = true ->
    forall ll rest, PB pf (TFix KOpenBrace :: print_stmts_lay show_f ll b ++ TFix KCloseBrace :: rest)
                      (Ok (b, rest)).
  Proof. intros b HF Hwf ll rest. apply PB_intro. apply PBI_printL; assumption. Qed.

  Lemma PPr_printL : forall b, Forall (fun s => wf_stmt fok s = true -> StL s) b ->
    forallb (wf_stmt fok) b = true -> forall ll, PPr pf (print_stmts_lay show_f ll b) (Ok b).
  Proof.
    intros b HF. induction HF as [ | s b' Hs HF' IH]; intros Hwf ll.
    - apply PPr_nil.
    - cbn [forallb] in Hwf. apply andb_true_iff in Hwf. destruct Hwf as [Hws Hwb].
      rewrite print_stmts_lay_cons.
      set (tl := print_stmts_lay show_f (shift ll) b').
      destruct (stmt_start_facts _ (stmt_firstL show_f fok s Hws (ll 0%nat) (continues (cur tl)) tl))
        as (H1 & _).
      eapply PPr_cons; [ exact H1 | | apply IH; exact Hwb ].
      apply (Hs Hws); [ | reflexivity ].
      destruct b' as [ | s' b''].
      + subst tl. cbn [print_stmts_lay lay_seq]. exact boundary_nil.
      + cbn [forallb] in Hwb. apply andb_true_iff in Hwb. destruct Hwb as [Hws' _].
        subst tl. rewrite print_stmts_lay_cons.
        destruct (stmt_start_facts _ (stmt_firstL show_f fok s' Hws' (shift ll 0%nat)
          (continues (cur (print_stmts_lay show_f (shift (shift ll)) b'')))
          (print_stmts_lay show_f (shift (shift ll)) b''))) as (_ & _ & H3 & H4).
        split; assumption.
  Qed.

  (** ** als, zolang, functie *)

  Lemma full_if_noneL : forall c t,
    (wf_expr fok c = true -> FullL c) -> Forall (fun s => wf_stmt fok s = true -> StL s) t ->
    wf_expr fok (EIf c t None) = true -> FullL (EIf c t None).
  Proof.
    intros c t IHc IHt Hwf. rewrite wf_if in Hwf.
    apply andb_true_iff in Hwf. destruct Hwf as [Hwf _].
    apply andb_true_iff in Hwf. destruct Hwf as [Hwc Hwt].
    apply raw_to_fullL; [ apply need_low; exact inf_rank_pos | ].
    intros lay p f rest R Hp Hn Hf HL.
    cbn [print_raw_lay]. rewrite <- app_comm_cons. rewrite <- !app_assoc. cbn [app].
    rewrite print_block_lay_app.
    eapply PE_if_none;
      [ apply full_lowL; [ exact (IHc Hwc) | reflexivity | reflexivity ]
      | apply PB_printL; [ exact IHt | exact Hwt ]
      | destruct Hf as [Hf1 _]; exact Hf1
      | exact HL ].
  Qed.

  Lemma full_if_someL : forall c t a,
    (wf_expr fok c = true -> FullL c) -> Forall (fun s => wf_stmt fok s = true -> StL s) t ->
    Forall (fun s => wf_stmt fok s = true -> StL s) a ->
    wf_expr fok (EIf c t (Some a)) = true -> FullL (EIf c t (Some a)).
  Proof.
    intros c t a IHc IHt IHa Hwf. rewrite wf_if in Hwf.
    apply andb_true_iff in Hwf. destruct Hwf as [Hwf Hwa].
    apply andb_true_iff in Hwf. destruct Hwf as [Hwc Hwt].
    apply raw_to_fullL; [ apply need_low; exact inf_rank_pos | ].
    intros lay p f rest R Hp Hn Hf HL.
    cbn [print_raw_lay]. rewrite <- app_comm_cons. rewrite <- !app_assoc. rewrite <- app_comm_cons.
    rewrite !print_block_lay_app.
    eapply PE_if_some;
      [ apply full_lowL; [ exact (IHc Hwc) | reflexivity | reflexivity ]
      | apply PB_printL; [ exact IHt | exact Hwt ]
      | reflexivity
      | apply PB_printL; [ exact IHa | exact Hwa ]
      | exact HL ].
  Qed.

  Lemma full_whileL : forall c b,
    (wf_expr fok c = true -> FullL c) -> Forall (fun s => wf_stmt fok s = true -> StL s) b ->
    wf_expr fok (EWhile c b) = true -> FullL (EWhile c b).
  Proof.
    intros c b IHc IHb Hwf. rewrite wf_while in Hwf.
    apply andb_true_iff in Hwf. destruct Hwf as [Hwc Hwb].
    apply raw_to_fullL; [ apply need_low; exact inf_rank_pos | ].
    intros lay p f rest R Hp Hn Hf HL.
    cbn [print_raw_lay]. rewrite <- app_comm_cons. rewrite <- !app_assoc.
    rewrite print_block_lay_app.
    eapply PE_while;
      [ apply full_lowL; [ exact (IHc Hwc) | reflexivity | reflexivity ]
      | apply PB_printL; [ exact IHb | exact Hwb ]
      | exact HL ].
  Qed.

  Lemma full_functionL : forall n ps body,
    Forall (fun s => wf_stmt fok s = true -> StL s) body ->
    wf_expr fok (EFunction n ps body) = true -> FullL (EFunction n ps body).
  Proof.
    intros n ps body IHb Hwf. rewrite wf_function in Hwf.
    apply raw_to_fullL; [ apply need_low; exact inf_rank_pos | ].
    intros lay p f rest R Hp Hn Hf HL.
    cbn [print_raw_lay]. destruct n as [ | c n'].
    - cbn [app]. rewrite <- app_assoc. rewrite <- app_comm_cons. rewrite print_block_lay_app.
      eapply PE_function_anon;
        [ apply PPa_printL | apply PB_printL; [ exact IHb | exact Hwf ] | exact HL ].
    - cbn [app]. rewrite <- app_assoc. rewrite <- app_comm_cons. rewrite print_block_lay_app.
      eapply PE_function_named;
        [ apply PPa_printL | apply PB_printL; [ exact IHb | exact Hwf ] | exact HL ].
  Qed.

  (** ** statements *)

  (* an expression at the end of a statement stops in front of the optional `;` *)
  Lemma expr_opt_sep : forall e lay c cont rest, FullL e ->
    boundary rest -> cont = continues (cur rest) ->
    PE pf PLowest (print_expr_lay show_f lay PLowest PLowest e ++ opt_semi c true cont ++ rest)
       (Ok (e, opt_semi c true cont ++ rest)).
  Proof.
    intros e lay c cont rest HF Hb Hc. unfold opt_semi.
    destruct (omit c && negb (sep_required true cont)) eqn:Eo.
    - apply andb_true_iff in Eo. destruct Eo as [_ Eo]. apply negb_true_iff in Eo.
      cbn [sep_required andb] in Eo.
      cbn [app]. apply full_okL; [ exact HF | exact p_ok_lowest | | lia ].
      apply follow_boundary; [ exact Hb | ]. rewrite <- Hc. exact Eo.
    - cbn [app]. apply full_lowL; [ exact HF | reflexivity | reflexivity ].
  Qed.

  Lemma sti_letL : forall n e, (wf_expr fok e = true -> FullL e) ->
    wf_stmt fok (SLet n e) = true -> StL (SLet n e).
  Proof.
    intros n e IHe Hwf lay cont rest Hb Hc. rewrite wf_let in Hwf. rewrite print_stmt_lay_let.
    rewrite <- !app_comm_cons. rewrite <- app_assoc.
    rewrite <- (skip_opt_sep (lay []) true cont rest Hb) at 2.
    apply PSt_let_gen. apply expr_opt_sep; [ exact (IHe Hwf) | exact Hb | exact Hc ].
  Qed.

  Lemma sti_returnL : forall e, (wf_expr fok e = true -> FullL e) ->
    wf_stmt fok (SReturn e) = true -> StL (SReturn e).
  Proof.
    intros e IHe Hwf lay cont rest Hb Hc. rewrite wf_return in Hwf. rewrite print_stmt_lay_return.
    rewrite <- !app_comm_cons. rewrite <- app_assoc.
    rewrite <- (skip_opt_sep (lay []) true cont rest Hb) at 2.
    apply PSt_return_gen. apply expr_opt_sep; [ exact (IHe Hwf) | exact Hb | exact Hc ].
  Qed.

  Lemma sti_default : forall e, FullL e -> wf_expr fok e = true ->
    forall lay cont rest, boundary rest -> cont = continues (cur rest) ->
      PSt pf (print_sexpr_default show_f lay cont e ++ rest) (Ok (SExpr e, rest)).
  Proof.
    intros e HF Hwf lay cont rest Hb Hc. unfold print_sexpr_default. rewrite <- app_assoc.
    rewrite <- (skip_opt_sep (lay []) true cont rest Hb) at 2.
    apply PSt_expr_gen; [ apply (first_tokL show_f fok e Hwf) | ].
    apply expr_opt_sep; [ exact HF | exact Hb | exact Hc ].
  Qed.

  Lemma sti_expr_plain : forall e, FullL e -> wf_expr fok e = true -> chain_view e = None ->
    StL (SExpr e).
  Proof.
    intros e HF Hwf Hv lay cont rest Hb Hc. rewrite print_stmt_lay_expr. rewrite Hv.
    apply sti_default; assumption.
  Qed.

  (* the first token of a link of the chain *)
  Lemma chain_head : forall s2 lay cont X, chainable s2 = true -> extra (lay [0%nat]) = 0%nat ->
    cur (print_stmt_lay show_f lay cont s2 ++ X) = TFix KIf.
  Proof.
    intros s2 lay cont X Hch Hex. destruct s2 as [n e | e | e | b | | ]; try discriminate Hch.
    cbn [chainable] in Hch. destruct e as [ | | | | | c t alt | | | | | | | | ]; try discriminate Hch.
    rewrite print_stmt_lay_expr.
    assert (Hd : cur (print_sexpr_default show_f lay cont (EIf c t alt) ++ X) = TFix KIf).
    { unfold print_sexpr_default. rewrite print_expr_lay_eq.
      change (extra (sub lay 0 [])) with (extra (lay [0%nat])). rewrite Hex. reflexivity. }
    destruct (chain_view (EIf c t alt)) as [[[c' t'] s3] | ]; [ | exact Hd ].
    destruct (use_chain lay cont s3); [ reflexivity | exact Hd ].
  Qed.

  Lemma sti_chain : forall c t s2,
    (wf_expr fok c = true -> FullL c) -> Forall (fun s => wf_stmt fok s = true -> StL s) t ->
    (wf_stmt fok s2 = true -> StL s2) ->
    wf_expr fok (EIf c t (Some [s2])) = true ->
    forall lay cont rest, boundary rest -> cont = continues (cur rest) ->
      use_chain lay cont s2 = true ->
      PSt pf (print_chain_lay show_f lay cont c t s2 ++ rest) (Ok (SExpr (EIf c t (Some [s2])), rest)).
  Proof.
    intros c t s2 IHc IHt IHs Hwf lay cont rest Hb Hc Hu. rewrite wf_if in Hwf.
    apply andb_true_iff in Hwf. destruct Hwf as [Hwf Hwa].
    apply andb_true_iff in Hwf. destruct Hwf as [Hwc Hwt].
    cbn [forallb] in Hwa. rewrite andb_true_r in Hwa.
    unfold use_chain in Hu.
    apply andb_true_iff in Hu. destruct Hu as [Hu Hx2].
    apply andb_true_iff in Hu. destruct Hu as [Hu Hx1].
    apply andb_true_iff in Hu. destruct Hu as [Hu Hch].
    apply andb_true_iff in Hu. destruct Hu as [_ Hnc].
    apply negb_true_iff in Hnc. apply Nat.eqb_eq in Hx2.
    rewrite <- (boundary_skip rest Hb) at 2.
    unfold print_chain_lay. rewrite <- app_comm_cons. rewrite <- !app_assoc. rewrite <- app_comm_cons.
    rewrite print_block_lay_app.
    apply PSt_expr_gen; [ reflexivity | ].
    eapply PE_if_chain;
      [ apply full_lowL; [ exact (IHc Hwc) | reflexivity | reflexivity ]
      | apply PB_printL; [ exact IHt | exact Hwt ]
      | rewrite (chain_head s2 (sub lay 1) cont rest Hch Hx2); reflexivity
      | apply (IHs Hwa); [ exact Hb | exact Hc ]
      | ].
    apply PL_stop. apply continues_false_rank. rewrite <- Hc. exact Hnc.
  Qed.

  Lemma sti_blockL : forall b, Forall (fun s => wf_stmt fok s = true -> StL s) b ->
    wf_stmt fok (SBlock b) = true -> StL (SBlock b).
  Proof.
    intros b IHb Hwf lay cont rest Hb Hc. rewrite wf_sblock in Hwf. rewrite print_stmt_lay_block.
    rewrite <- app_comm_cons. rewrite <- app_assoc. rewrite <- app_comm_cons.
    rewrite <- (skip_opt_sep (lay []) false cont rest Hb) at 2.
    apply PSt_block_gen. apply PB_printL; [ exact IHb | exact Hwf ].
  Qed.

  Lemma sti_breakL : StL SBreak.
  Proof.
    intros lay cont rest Hb Hc. rewrite print_stmt_lay_break. rewrite <- app_comm_cons.
    rewrite <- (skip_opt_sep (lay []) false cont rest Hb) at 2. apply PSt_break_gen.
  Qed.

  Lemma sti_continueL : StL SContinue.
  Proof.
    intros lay cont rest Hb Hc. rewrite print_stmt_lay_continue. rewrite <- app_comm_cons.
    rewrite <- (skip_opt_sep (lay []) false cont rest Hb) at 2. apply PSt_continue_gen.
  Qed.

  (** ** the invariant holds for every tree in the parser's image *)

  (* for an expression: as an operand, and as a whole statement *)
  Definition BothL (e : expr) : Prop := FullL e /\ StL (SExpr e).

  Lemma both_plain : forall e, wf_expr fok e = true -> chain_view e = None -> FullL e -> BothL e.
  Proof. intros e Hwf Hv HF. split; [ exact HF | apply sti_expr_plain; assumption ]. Qed.

  Theorem pratt_invariant_lay :
    (forall e, wf_expr fok e = true -> BothL e) /\ (forall s, wf_stmt fok s = true -> StL s).
  Proof.
    apply (tree_ind (fun e => wf_expr fok e = true -> BothL e)
                    (fun s => wf_stmt fok s = true -> StL s)).
    - intros l o r IHl IHr Hwf. apply both_plain; [ exact Hwf | reflexivity | ].
      apply full_infixL; [ intro H; apply IHl; exact H | intro H; apply IHr; exact H | exact Hwf ].
    - intros o r IHr Hwf. apply both_plain; [ exact Hwf | reflexivity | ].
      apply full_prefixL; [ intro H; apply IHr; exact H | exact Hwf ].
    - intros z Hwf. apply both_plain; [ exact Hwf | reflexivity | apply full_intL; exact Hwf ].
    - intros x Hwf. apply both_plain; [ exact Hwf | reflexivity | apply full_floatL; exact Hwf ].
    - intros b Hwf. apply both_plain; [ exact Hwf | reflexivity | apply full_boolL ].
    - intros c t IHc IHt Hwf. apply both_plain; [ exact Hwf | reflexivity | ].
      apply full_if_noneL; [ intro H; apply IHc; exact H | exact IHt | exact Hwf ].
    - intros c t a IHc IHt IHa Hwf.
      assert (HF : FullL (EIf c t (Some a))).
      { apply full_if_someL; [ intro H; apply IHc; exact H | exact IHt | exact IHa | exact Hwf ]. }
      split; [ exact HF | ].
      destruct a as [ | s2 a']; [ apply sti_expr_plain; [ exact HF | exact Hwf | reflexivity ] | ].
      destruct a' as [ | s3 a'']; [ | apply sti_expr_plain; [ exact HF | exact Hwf | reflexivity ] ].
      intros lay cont rest Hb Hc. rewrite print_stmt_lay_expr. cbn [chain_view].
      destruct (use_chain lay cont s2) eqn:Hu.
      + apply sti_chain; try assumption.
        * intro H; apply IHc; exact H.
        * inversion IHa as [ | x l Hs2 _]; subst. exact Hs2.
      + apply sti_default; assumption.
    - intros s Hwf. apply both_plain; [ exact Hwf | reflexivity | apply full_identL ].
    - intros n ps body IHb Hwf. apply both_plain; [ exact Hwf | reflexivity | ].
      apply full_functionL; [ exact IHb | exact Hwf ].
    - intros h args IHh IHargs Hwf. apply both_plain; [ exact Hwf | reflexivity | ].
      apply full_callL; [ intro H; apply IHh; exact H | | exact Hwf ].
      eapply Forall_impl; [ | exact IHargs ]. intros e He H. apply He. exact H.
    - intros l r IHl IHr Hwf. apply both_plain; [ exact Hwf | reflexivity | ].
      apply full_assignL; [ intro H; apply IHl; exact H | intro H; apply IHr; exact H | exact Hwf ].
    - intros s Hwf. apply both_plain; [ exact Hwf | reflexivity | apply full_stringL ].
    - intros vs IHvs Hwf. apply both_plain; [ exact Hwf | reflexivity | ].
      apply full_arrayL; [ | exact Hwf ].
      eapply Forall_impl; [ | exact IHvs ]. intros e He H. apply He. exact H.
    - intros b i IHb IHi Hwf. apply both_plain; [ exact Hwf | reflexivity | ].
      apply full_indexL; [ intro H; apply IHb; exact H | intro H; apply IHi; exact H | exact Hwf ].
    - intros c b IHc IHb Hwf. apply both_plain; [ exact Hwf | reflexivity | ].
      apply full_whileL; [ intro H; apply IHc; exact H | exact IHb | exact Hwf ].
    - intros n e IHe Hwf. apply sti_letL; [ intro H; apply IHe; exact H | exact Hwf ].
    - intros e IHe Hwf. apply sti_returnL; [ intro H; apply IHe; exact H | exact Hwf ].
    - intros e IHe Hwf. rewrite wf_sexpr in Hwf. apply IHe. exact Hwf.
    - exact sti_blockL.
    - intros _. exact sti_breakL.
    - intros _. exact sti_continueL.
  Qed.
End MainL.

(** * 5. The theorems of C07 at token level, for every layout *)

Section TheoremsL.
  Variable pf : text -> option float.
  Variable show_f : float -> text.
  Variable fok : float -> bool.
  Hypothesis Hfok : forall x, fok x = true -> pf (show_f x) = Some x.

  (* expressions: e laid out in any way for context (p, f), followed by a token of binding power at most
     f <= p, is read back by parse_expr(p), which stops in front of that token *)
  Theorem parse_print_expr_lay : forall e lay p f rest,
    wf_expr fok e = true -> p_ok p -> follow f rest -> (prec_rank f <= prec_rank p)%nat ->
    exists n, forall fuel, (n <= fuel)%nat ->
      parse_expr pf fuel p (print_expr_lay show_f lay p f e ++ rest) = Ok (e, rest).
  Proof.
    intros e lay p f rest Hwf Hp Hf Hle. destruct (pratt_invariant_lay pf show_f fok Hfok) as [HE _].
    destruct (HE e Hwf) as [HF _]. exact (full_okL pf show_f e lay p f rest HF Hp Hf Hle).
  Qed.

  (* statements: `cont` must say whether the token after the statement continues an expression *)
  Theorem parse_print_stmt_lay : forall s lay rest,
    wf_stmt fok s = true -> boundary rest ->
    exists n, forall fuel, (n <= fuel)%nat ->
      parse_statement pf fuel (print_stmt_lay show_f lay (continues (cur rest)) s ++ rest) = Ok (s, rest).
  Proof.
    intros s lay rest Hwf Hb. destruct (pratt_invariant_lay pf show_f fok Hfok) as [_ HS].
    exact (HS s Hwf lay (continues (cur rest)) rest Hb eq_refl).
  Qed.

  Theorem parse_print_lay_fuel : forall lay b, wf_tree_gen fok b = true ->
    exists n, forall fuel, (n <= fuel)%nat ->
      parse_program pf fuel (print_program_lay show_f lay b) = Ok b.
  Proof.
    intros lay b Hwf. destruct (pratt_invariant_lay pf show_f fok Hfok) as [_ HS].
    unfold print_program_lay. apply (PPr_printL pf show_f fok); [ | exact Hwf ].
    apply Forall_forall. intros s _. exact (HS s).
  Qed.

  (* Parser.parse_tokens with its fixed fuel *)
  Theorem parse_tokens_print_lay_gen : forall lay b, wf_tree_gen fok b = true ->
    parse_tokens pf (print_program_lay show_f lay b) = Ok b.
  Proof.
    intros lay b Hwf. destruct (parse_print_lay_fuel lay b Hwf) as [n Hn].
    unfold parse_tokens.
    apply (parse_program_fuel_agree pf _ n _ _ (Ok b) eq_refl (Hn n (le_n n))).
    - apply parse_terminates.
    - discriminate.
  Qed.
End TheoremsL.

(* redundant parentheses, optional separators and the `anders als` chain never change the tree *)
Theorem parse_tokens_print_lay : forall pf show_f lay b,
  wf_tree b = true -> (forall x, pf (show_f x) = Some x) ->
  parse_tokens pf (print_program_lay show_f lay b) = Ok b.
Proof.
  intros pf show_f lay b Hwf Hf.
  exact (parse_tokens_print_lay_gen pf show_f (fun _ => true) (fun x _ => Hf x) lay b Hwf).
Qed.

Theorem parse_tokens_print_lay_nofloat : forall pf show_f lay b,
  wf_tree_nofloat b = true -> parse_tokens pf (print_program_lay show_f lay b) = Ok b.
Proof.
  intros pf show_f lay b Hwf.
  refine (parse_tokens_print_lay_gen pf show_f (fun _ => false) _ lay b Hwf).
  intros x Hx. discriminate Hx.
Qed.

(* two layouts of the same tree denote the same tree *)
Corollary layouts_agree : forall pf show_f lay1 lay2 b,
  wf_tree b = true -> (forall x, pf (show_f x) = Some x) ->
  parse_tokens pf (print_program_lay show_f lay1 b) = parse_tokens pf (print_program_lay show_f lay2 b).
Proof.
  intros pf show_f lay1 lay2 b Hwf Hf. rewrite !parse_tokens_print_lay by assumption. reflexivity.
Qed.

(** * 6. The plain layout is the printer of spec/Printer.v *)

Section Plain.
  Variable show_f : float -> text.

  Lemma plain_of_raw : forall e,
    (forall p f, print_raw_lay show_f plain p f e = print_raw show_f p f e) ->
    forall p f, print_expr_lay show_f plain p f e = print_expr show_f p f e.
  Proof.
    intros e H p f. rewrite print_expr_lay_eq, print_expr_eq.
    change (extra (plain [])) with 0%nat. cbn [with_extra]. unfold print_min, paren.
    rewrite !H. reflexivity.
  Qed.

  Lemma plain_list : forall es,
    Forall (fun e => forall p f, print_expr_lay show_f plain p f e = print_expr show_f p f e) es ->
    print_list_lay show_f (fun _ => plain) es = print_list show_f es.
  Proof.
    intros es H. induction H as [ | e es' He Hes IH]; [ reflexivity | ].
    rewrite print_list_lay_cons, print_list_cons.
    change (shift (fun _ : nat => plain)) with (fun _ : nat => plain). rewrite IH, He.
    destruct es' as [ | e2 es''];
      [ cbn [is_nil opt_comma plain trail print_list map sep_concat]; rewrite !app_nil_r; reflexivity | ].
    cbn [is_nil]. unfold opt_comma. cbn [plain omit andb]. rewrite <- app_assoc. reflexivity.
  Qed.

  Lemma plain_params : forall ps, print_params_lay (fun _ => plain) ps = print_params ps.
  Proof.
    induction ps as [ | n ps IH]; [ reflexivity | ].
    rewrite print_params_lay_cons, print_params_cons.
    change (shift (fun _ : nat => plain)) with (fun _ : nat => plain). rewrite IH.
    destruct ps as [ | n2 ps']; reflexivity.
  Qed.

  Lemma plain_stmts : forall b,
    Forall (fun s => forall cont, print_stmt_lay show_f plain cont s = print_stmt show_f s) b ->
    print_stmts_lay show_f (fun _ => plain) b = print_stmts show_f b.
  Proof.
    intros b H. induction H as [ | s b' Hs Hb IH]; [ reflexivity | ].
    rewrite print_stmts_lay_cons, print_stmts_cons.
    change (shift (fun _ : nat => plain)) with (fun _ : nat => plain). rewrite IH, Hs. reflexivity.
  Qed.

  Lemma plain_block : forall b,
    Forall (fun s => forall cont, print_stmt_lay show_f plain cont s = print_stmt show_f s) b ->
    print_block_lay show_f (fun _ => plain) b = print_block show_f b.
  Proof. intros b H. unfold print_block_lay, print_block. rewrite plain_stmts by exact H. reflexivity. Qed.

  Theorem print_lay_plain :
    (forall e p f, print_expr_lay show_f plain p f e = print_expr show_f p f e) /\
    (forall s cont, print_stmt_lay show_f plain cont s = print_stmt show_f s).
  Proof.
    apply (tree_ind
             (fun e => forall p f, print_expr_lay show_f plain p f e = print_expr show_f p f e)
             (fun s => forall cont, print_stmt_lay show_f plain cont s = print_stmt show_f s)).
    - intros l o r IHl IHr. apply plain_of_raw. intros p f. cbn [print_raw_lay print_raw]. cbv zeta.
      change (sub plain 0) with plain. change (sub plain 1) with plain. rewrite IHl, IHr. reflexivity.
    - intros o r IHr. apply plain_of_raw. intros p f. cbn [print_raw_lay print_raw]. cbv zeta.
      change (sub plain 0) with plain. rewrite IHr. reflexivity.
    - intros z. apply plain_of_raw. reflexivity.
    - intros x. apply plain_of_raw. reflexivity.
    - intros b. apply plain_of_raw. reflexivity.
    - intros c t IHc IHt. apply plain_of_raw. intros p f. cbn [print_raw_lay print_raw].
      change (sub plain 0) with plain. change (sub (sub plain 1)) with (fun _ : nat => plain).
      rewrite IHc, (plain_block t IHt). reflexivity.
    - intros c t a IHc IHt IHa. apply plain_of_raw. intros p f. cbn [print_raw_lay print_raw].
      change (sub plain 0) with plain. change (sub (sub plain 1)) with (fun _ : nat => plain).
      change (sub (sub plain 2)) with (fun _ : nat => plain).
      rewrite IHc, (plain_block t IHt), (plain_block a IHa). reflexivity.
    - intros s. apply plain_of_raw. reflexivity.
    - intros n ps body IHb. apply plain_of_raw. intros p f. cbn [print_raw_lay print_raw].
      change (sub (sub plain 0)) with (fun _ : nat => plain).
      change (sub (sub plain 1)) with (fun _ : nat => plain).
      rewrite plain_params, (plain_block body IHb). reflexivity.
    - intros h args IHh IHargs. apply plain_of_raw. intros p f. cbn [print_raw_lay print_raw].
      change (sub plain 0) with plain. change (sub (sub plain 1)) with (fun _ : nat => plain).
      rewrite IHh, (plain_list args IHargs). reflexivity.
    - intros l r IHl IHr. apply plain_of_raw. intros p f. cbn [print_raw_lay print_raw].
      change (sub plain 0) with plain. change (sub plain 1) with plain. rewrite IHl, IHr. reflexivity.
    - intros s. apply plain_of_raw. reflexivity.
    - intros vs IHvs. apply plain_of_raw. intros p f. cbn [print_raw_lay print_raw].
      change (sub (sub plain 0)) with (fun _ : nat => plain). rewrite (plain_list vs IHvs). reflexivity.
    - intros b i IHb IHi. apply plain_of_raw. intros p f. cbn [print_raw_lay print_raw].
      change (sub plain 0) with plain. change (sub plain 1) with plain. rewrite IHb, IHi. reflexivity.
    - intros c b IHc IHb. apply plain_of_raw. intros p f. cbn [print_raw_lay print_raw].
      change (sub plain 0) with plain. change (sub (sub plain 1)) with (fun _ : nat => plain).
      rewrite IHc, (plain_block b IHb). reflexivity.
    - intros n e IHe cont. rewrite print_stmt_lay_let, print_stmt_let.
      change (sub plain 0) with plain. rewrite IHe. reflexivity.
    - intros e IHe cont. rewrite print_stmt_lay_return, print_stmt_return.
      change (sub plain 0) with plain. rewrite IHe. reflexivity.
    - intros e IHe cont. rewrite print_stmt_lay_expr, print_stmt_expr.
      assert (Hd : print_sexpr_default show_f plain cont e
                   = print_expr show_f PLowest PLowest e ++ [TFix KSemi]).
      { unfold print_sexpr_default. change (sub plain 0) with plain. rewrite IHe. reflexivity. }
      destruct (chain_view e) as [[[c t] s2] | ]; [ | exact Hd ].
      change (use_chain plain cont s2) with false. cbv iota. exact Hd.
    - intros b IHb cont. rewrite print_stmt_lay_block, print_stmt_block.
      change (sub (sub plain 0)) with (fun _ : nat => plain). rewrite (plain_stmts b IHb). reflexivity.
    - intros cont. reflexivity.
    - intros cont. reflexivity.
  Qed.

  Theorem print_program_lay_plain : forall b, print_program_lay show_f plain b = print_program show_f b.
  Proof.
    intro b. unfold print_program_lay, print_program.
    change (sub plain) with (fun _ : nat => plain). apply plain_stmts.
    apply Forall_forall. intros s _. destruct print_lay_plain as [_ HS]. exact (HS s).
  Qed.
End Plain.

(** * 7. Special cases stated with the printer of spec/Printer.v *)

Section Special.
  Variable pf : text -> option float.
  Variable show_f : float -> text.
  Variable fok : float -> bool.
  Hypothesis Hfok : forall x, fok x = true -> pf (show_f x) = Some x.

  (* (a) Parentheses do not create a node: the parenthesised form of e behaves like an atom.  In ANY
     prefix position (any p, any continuation R of the loop) k+1 pairs of parentheses around the
     printed form of e hand the tree e to the loop of parse_expr. *)
  Lemma paren_wrap : forall e, Full pf show_f e -> forall k p rest R,
    PL pf p e rest R -> PE pf p (wrap (S k) (print_expr show_f PLowest PLowest e) ++ rest) R.
  Proof.
    intros e HF. induction k as [ | k IH]; intros p rest R HL.
    - cbn [wrap]. rewrite paren_app. eapply PE_paren; [ | exact HL ].
      apply HF; [ exact p_ok_lowest | apply follow_low; reflexivity | apply close_paren_stop ].
    - change (wrap (S (S k)) (print_expr show_f PLowest PLowest e))
        with (paren (wrap (S k) (print_expr show_f PLowest PLowest e))).
      rewrite paren_app. eapply PE_paren; [ | exact HL ]. apply IH. apply close_paren_stop.
  Qed.

  (* k >= 0 redundant pairs around a whole expression read at the lowest level (expression statement,
     initialiser, condition, argument, element, index) *)
  Theorem extra_parens_anywhere_top : forall e k rest,
    wf_expr fok e = true -> follow PLowest rest ->
    exists n, forall fuel, (n <= fuel)%nat ->
      parse_expr pf fuel PLowest (wrap k (print_expr show_f PLowest PLowest e) ++ rest) = Ok (e, rest).
  Proof.
    intros e k rest Hwf Hf. destruct (pratt_invariant pf show_f fok Hfok) as [HE _].
    assert (Hstop : PL pf PLowest e rest (Ok (e, rest))).
    { apply PL_stop. destruct Hf as [_ Hf]. exact Hf. }
    destruct k as [ | k].
    - cbn [wrap]. apply (HE e Hwf); [ exact p_ok_lowest | exact Hf | exact Hstop ].
    - apply paren_wrap; [ exact (HE e Hwf) | exact Hstop ].
  Qed.

  (* ... and as an operand at any level p: once there is at least one pair, neither p nor the token that
     follows matters for how the inside is read *)
  Theorem extra_parens_operand : forall e k p rest,
    wf_expr fok e = true -> (prec_rank (token_precedence (cur rest)) <= prec_rank p)%nat ->
    exists n, forall fuel, (n <= fuel)%nat ->
      parse_expr pf fuel p (wrap (S k) (print_expr show_f PLowest PLowest e) ++ rest) = Ok (e, rest).
  Proof.
    intros e k p rest Hwf Hr. destruct (pratt_invariant pf show_f fok Hfok) as [HE _].
    apply paren_wrap; [ exact (HE e Hwf) | apply PL_stop; exact Hr ].
  Qed.

  (* (d) `anders als` chain.  An expression statement  als c {t} anders { als ... }  may be written
     als c {t} anders als ...  - with or without the final `;` - provided the token after the statement
     does not continue an expression (the only tokens that can begin a statement and do are `(`, `[`
     and `-`: continues_stmt_start).  Both spellings give the same tree. *)
  Theorem else_if_chain : forall c t e2 (semi : bool) rest,
    wf_expr fok (EIf c t (Some [SExpr e2])) = true -> is_if e2 = true ->
    boundary rest -> continues (cur rest) = false ->
    let tree := SExpr (EIf c t (Some [SExpr e2])) in
    exists n, forall fuel, (n <= fuel)%nat ->
      parse_statement pf fuel
        (TFix KIf :: print_expr show_f PLowest PLowest c ++ print_block show_f t
         ++ TFix KElse :: print_expr show_f PLowest PLowest e2
         ++ (if semi then [TFix KSemi] else []) ++ rest) = Ok (tree, rest)
      /\ parse_statement pf fuel (print_stmt show_f tree ++ rest) = Ok (tree, rest).
  Proof.
    intros c t e2 semi rest Hwf Hif Hb Hc tree.
    destruct (pratt_invariant pf show_f fok Hfok) as [HE HS].
    pose proof Hwf as Hwf0. rewrite wf_if in Hwf.
    apply andb_true_iff in Hwf. destruct Hwf as [Hwf Hwa].
    apply andb_true_iff in Hwf. destruct Hwf as [Hwc Hwt].
    cbn [forallb] in Hwa. rewrite andb_true_r in Hwa. rewrite wf_sexpr in Hwa.
    set (sc := if semi then [TFix KSemi] else []).
    assert (Hskip : skip_optional KSemi (sc ++ rest) = rest).
    { subst sc. destruct semi; [ reflexivity | cbn [app]; apply boundary_skip; exact Hb ]. }
    assert (Hfol : follow PLowest (sc ++ rest)).
    { subst sc. destruct semi; [ apply follow_low; reflexivity | ].
      cbn [app]. apply follow_boundary; assumption. }
    assert (H1 : PSt pf (TFix KIf :: print_expr show_f PLowest PLowest c ++ print_block show_f t
                         ++ TFix KElse :: print_expr show_f PLowest PLowest e2 ++ sc ++ rest)
                   (Ok (tree, rest))).
    { rewrite <- (boundary_skip rest Hb) at 2. apply PSt_expr_gen; [ reflexivity | ].
      rewrite print_block_app.
      eapply PE_if_chain;
        [ apply full_low; [ exact (HE c Hwc) | reflexivity | reflexivity ]
        | apply (PB_print pf show_f fok); [ apply Forall_forall; intros s _; exact (HS s) | exact Hwt ]
        | | | ].
      - destruct e2 as [ | | | | | c2 t2 a2 | | | | | | | | ]; try discriminate Hif.
        rewrite print_expr_eq. reflexivity.
      - apply PSt_expr_gen; [ apply (first_tok show_f fok e2 Hwa) | ].
        apply full_ok; [ exact (HE e2 Hwa) | exact p_ok_lowest | exact Hfol | lia ].
      - rewrite Hskip. apply PL_stop. apply continues_false_rank. exact Hc. }
    assert (H2 : PSt pf (print_stmt show_f tree ++ rest) (Ok (tree, rest))).
    { apply (HS tree). subst tree. rewrite wf_sexpr. exact Hwf0. }
    destruct H1 as [n1 H1]. destruct H2 as [n2 H2]. exists (n1 + n2)%nat. intros fuel Hle.
    split; [ apply H1 | apply H2 ]; lia.
  Qed.
End Special.

(** * 8. Examples: the caveats, and that the conditions cannot be dropped *)

Section ExamplesL.
  Let pf0 : text -> option float := fun _ => None.
  Let sf0 : float -> text := fun _ => [].
  Let a := EIdent (str_cps "a").
  Let b := EIdent (str_cps "b").
  Let f := EIdent (str_cps "f").
  Let one := TIntLit (str_cps "1").
  Let two := TIntLit (str_cps "2").
  Let three := TIntLit (str_cps "3").

  (* parentheses do not create a node, so the restrictions on call heads and index bases look through
     them: (f)(1), (functie() {1})(), ([1])[0] are read like f(1), functie() {1}(), [1][0] *)
  Example paren_call_head :
    parse_tokens pf0 [TFix KOpenParen; TIdent (str_cps "f"); TFix KCloseParen;
                      TFix KOpenParen; one; TFix KCloseParen]
    = Ok [SExpr (ECall f [EInt 1])].
  Proof. vm_compute. reflexivity. Qed.

  Example paren_function_head :
    parse_tokens pf0 [TFix KOpenParen; TFix KFunc; TFix KOpenParen; TFix KCloseParen; TFix KOpenBrace; one;
                      TFix KCloseBrace; TFix KCloseParen; TFix KOpenParen; TFix KCloseParen]
    = Ok [SExpr (ECall (EFunction [] [] [SExpr (EInt 1)]) [])].
  Proof. vm_compute. reflexivity. Qed.

  Example paren_index_base :
    parse_tokens pf0 [TFix KOpenParen; TFix KOpenBracket; one; TFix KCloseBracket; TFix KCloseParen;
                      TFix KOpenBracket; TIntLit (str_cps "0"); TFix KCloseBracket]
    = Ok [SExpr (EIndex (EArray [EInt 1]) (EInt 0))].
  Proof. vm_compute. reflexivity. Qed.

  (* ... and for the same reason parentheses do not help where the tree is outside the parser's image:
     a function literal as left operand, a call as call head *)
  Example paren_function_operand :
    parse_tokens pf0 [TFix KOpenParen; TFix KFunc; TFix KOpenParen; TFix KCloseParen; TFix KOpenBrace; one;
                      TFix KCloseBrace; TFix KCloseParen; TFix KPlus; one]
    = Err ETypeError.
  Proof. vm_compute. reflexivity. Qed.

  Example paren_call_call :
    parse_tokens pf0 [TFix KOpenParen; TIdent (str_cps "f"); TFix KOpenParen; TFix KCloseParen;
                      TFix KCloseParen; TFix KOpenParen; TFix KCloseParen]
    = Err ETypeError.
  Proof. vm_compute. reflexivity. Qed.

  (* a required separator: `a; (b)` and `a (b)` are different programs, likewise `[a, [b]]` / `[a [b]]`
     and `a; -b` / `a - b` *)
  Example semi_required_paren :
    parse_tokens pf0 [TIdent (str_cps "a"); TFix KSemi; TFix KOpenParen; TIdent (str_cps "b"); TFix KCloseParen]
      = Ok [SExpr a; SExpr b] /\
    parse_tokens pf0 [TIdent (str_cps "a"); TFix KOpenParen; TIdent (str_cps "b"); TFix KCloseParen]
      = Ok [SExpr (ECall a [b])].
  Proof. split; vm_compute; reflexivity. Qed.

  Example comma_required_bracket :
    parse_tokens pf0 [TFix KOpenBracket; TIdent (str_cps "a"); TFix KComma; TFix KOpenBracket;
                      TIdent (str_cps "b"); TFix KCloseBracket; TFix KCloseBracket]
      = Ok [SExpr (EArray [a; EArray [b]])] /\
    parse_tokens pf0 [TFix KOpenBracket; TIdent (str_cps "a"); TFix KOpenBracket;
                      TIdent (str_cps "b"); TFix KCloseBracket; TFix KCloseBracket]
      = Ok [SExpr (EArray [EIndex a b])].
  Proof. split; vm_compute; reflexivity. Qed.

  (* the layout printer keeps exactly those separators even when asked to omit everything *)
  Let greedy : layout := fun _ => mkChoice 0 true false true.
  Example greedy_keeps_required :
    print_program_lay sf0 greedy [SExpr a; SExpr (EPrefix OpSubtract b); SExpr (EArray [a; EArray [b]; a])]
    = [TIdent (str_cps "a"); TFix KSemi; TFix KMinus; TIdent (str_cps "b"); TFix KSemi;
       TFix KOpenBracket; TIdent (str_cps "a"); TFix KComma; TFix KOpenBracket; TIdent (str_cps "b");
       TFix KCloseBracket; TIdent (str_cps "a"); TFix KCloseBracket].
  Proof. vm_compute. reflexivity. Qed.

  (* the chain quirk (DESIGN.md C07, quirk 2).  als a {1} anders als b {2} ; - 3  is NOT
     als a {1} anders { als b {2} } ; - 3 : the inner statement swallows the `;` and `- 3` is applied to
     the whole outer `als` ... *)
  Let chain_toks : list token :=
    [TFix KIf; TIdent (str_cps "a"); TFix KOpenBrace; one; TFix KCloseBrace; TFix KElse;
     TFix KIf; TIdent (str_cps "b"); TFix KOpenBrace; two; TFix KCloseBrace].
  Let chain_tree : expr := EIf a [SExpr (EInt 1)] (Some [SExpr (EIf b [SExpr (EInt 2)] None)]).

  Example chain_quirk_semi_minus :
    parse_tokens pf0 (chain_toks ++ [TFix KSemi; TFix KMinus; three])
    = Ok [SExpr (EInfix chain_tree OpSubtract (EInt 3))].
  Proof. vm_compute. reflexivity. Qed.

  (* ... and without the `;` the operator goes to the inner `als` *)
  Example chain_quirk_plus :
    parse_tokens pf0 (chain_toks ++ [TFix KPlus; three])
    = Ok [SExpr (EIf a [SExpr (EInt 1)]
                   (Some [SExpr (EInfix (EIf b [SExpr (EInt 2)] None) OpAdd (EInt 3))]))].
  Proof. vm_compute. reflexivity. Qed.

  (* where the next token does not continue an expression the chain is harmless, with or without `;` *)
  Example chain_ok :
    parse_tokens pf0 (chain_toks ++ [TFix KSemi; three]) = Ok [SExpr chain_tree; SExpr (EInt 3)] /\
    parse_tokens pf0 (chain_toks ++ [three]) = Ok [SExpr chain_tree; SExpr (EInt 3)].
  Proof. split; vm_compute; reflexivity. Qed.

  (* the layout printer uses the chain exactly there *)
  Example greedy_chain :
    print_program_lay sf0 greedy [SExpr chain_tree; SExpr (EInt 3)] = chain_toks ++ [three] /\
    print_program_lay sf0 greedy [SExpr chain_tree; SExpr (EPrefix OpSubtract (EInt 3))]
    = [TFix KIf; TIdent (str_cps "a"); TFix KOpenBrace; one; TFix KCloseBrace; TFix KElse; TFix KOpenBrace;
       TFix KIf; TIdent (str_cps "b"); TFix KOpenBrace; two; TFix KCloseBrace; TFix KCloseBrace;
       TFix KSemi; TFix KMinus; three].
  Proof. split; vm_compute; reflexivity. Qed.

  (* a non-trivial tree under a layout that uses everything at once: redundant parentheses at depth 2
     and 3 of the path, no optional separator, trailing commas, chains *)
  Definition ex_wild : layout :=
    fun q => mkChoice (match q with [_; 0%nat] => 1 | [_; _; _] => 2 | _ => 0 end)%nat true true true.
  Definition ex_lay_tree : block :=
    [SLet (str_cps "x") (EInfix (EPrefix OpSubtract a) OpMultiply (EInfix b OpSubtract (EInfix a OpSubtract b)));
     SExpr (EIf (EPrefix OpNot (EInfix a OpEq b)) [SReturn (ECall f [EInt 1; EArray [a; b]])]
              (Some [SExpr (EIf b [SBreak] (Some [SExpr (EIf a [SContinue] None)]))]));
     SExpr (EPrefix OpSubtract a);
     SExpr (ECall (EFunction [] [str_cps "x"; str_cps "y"] [SExpr a; SExpr (EArray [a])])
              [a; EPrefix OpSubtract b; EIndex a b])].

  Example ex_lay_hyp : wf_tree_nofloat ex_lay_tree = true.
  Proof. vm_compute. reflexivity. Qed.

  Example ex_lay_differs :
    length (print_program_lay sf0 ex_wild ex_lay_tree) <> length (print_program sf0 ex_lay_tree) /\
    length (print_program_lay sf0 greedy ex_lay_tree) <> length (print_program sf0 ex_lay_tree).
  Proof. split; vm_compute; discriminate. Qed.

  Example ex_lay_roundtrip :
    parse_tokens pf0 (print_program_lay sf0 ex_wild ex_lay_tree) = Ok ex_lay_tree /\
    parse_tokens pf0 (print_program_lay sf0 greedy ex_lay_tree) = Ok ex_lay_tree.
  Proof. split; vm_compute; reflexivity. Qed.
End ExamplesL.

Print Assumptions pratt_invariant_lay.
Print Assumptions parse_print_expr_lay.
Print Assumptions parse_print_stmt_lay.
Print Assumptions parse_tokens_print_lay_gen.
Print Assumptions parse_tokens_print_lay.
Print Assumptions parse_tokens_print_lay_nofloat.
Print Assumptions layouts_agree.
Print Assumptions print_program_lay_plain.
Print Assumptions continues_stmt_start.
Print Assumptions paren_wrap.
Print Assumptions extra_parens_anywhere_top.
Print Assumptions extra_parens_operand.
Print Assumptions else_if_chain.
