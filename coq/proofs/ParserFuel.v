(* ParserFuel.v - fuel monotonicity of the fuelled Pratt parser of model/Parser.v:
   a result other than OutOfFuel is stable under more fuel.
   Also exports the one-step unfolding equations `parse_X_S` of the mutual fixpoint, which the
   other parser proofs rewrite with (bare simpl/cbn explodes on this fixpoint). *)
From NL.Model Require Import Parser.
Open Scope Z_scope.

(** * "less defined than": x is OutOfFuel or equal to y *)

Definition lo {A} (x y : outcome A) : Prop := x = OutOfFuel \/ x = y.

Lemma lo_refl : forall A (x : outcome A), lo x x.
Proof. intros; right; reflexivity. Qed.

Lemma lo_oof : forall A (y : outcome A), lo OutOfFuel y.
Proof. intros; left; reflexivity. Qed.

Lemma lo_bind : forall A B (x x' : outcome A) (k k' : A -> outcome B),
  lo x x' -> (forall a, lo (k a) (k' a)) -> lo (bind x k) (bind x' k').
Proof.
  intros A B x x' k k' [Hx | Hx] Hk.
  - subst x. left. reflexivity.
  - subst x'. destruct x as [a | e | s | ]; cbn [bind].
    + apply Hk.
    + apply lo_refl.
    + apply lo_refl.
    + apply lo_refl.
Qed.

Lemma lo_elim : forall A (x y r : outcome A), lo x y -> x = r -> r <> OutOfFuel -> y = r.
Proof. intros A x y r [H | H] E N; congruence. Qed.

Section Fuel.
  Variable pf : text -> option float.

  (** * One-step unfolding equations *)

  Lemma parse_expr_S : forall f p ts,
    parse_expr pf (S f) p ts =
      (do (lhs, ts1) <-
         match cur ts with
         | TIntLit s => do e <- int_literal s; Ok (e, advance ts)
         | TFloatLit s => do e <- float_literal pf s; Ok (e, advance ts)
         | TFix KTrue => Ok (EBool true, advance ts)
         | TFix KFalse => Ok (EBool false, advance ts)
         | TStringLit s => Ok (EString (decode_string s), advance ts)
         | TFix KOpenParen =>
             do (e, ts') <- parse_expr pf f PLowest (advance ts);
             do (_, ts'') <- skip KCloseParen ts';
             Ok (e, ts'')
         | TFix KIf => parse_if_expr pf f ts
         | TFix KBang | TFix KMinus => parse_prefix_expr pf f ts
         | TIdent name => Ok (EIdent name, advance ts)
         | TFix KFunc => parse_function_expr pf f ts
         | TFix KWhile => parse_while_expr pf f ts
         | TFix KOpenBracket => parse_array_expr pf f ts
         | _ => Err ESyntaxError
         end;
       parse_loop pf f p lhs ts1).
  Proof. reflexivity. Qed.

  Lemma parse_loop_S : forall f p lhs ts,
    parse_loop pf (S f) p lhs ts =
      (if negb (is_fix KSemi (cur ts)) && prec_lt p (token_precedence (cur ts)) then
         if is_infix_token (cur ts) then
           do (e, ts') <- parse_infix_expr pf f lhs ts; parse_loop pf f p e ts'
         else if is_fix KAssign (cur ts) then
           do (e, ts') <- parse_assign_expr pf f lhs ts; parse_loop pf f p e ts'
         else if is_fix KOpenParen (cur ts) then
           do (e, ts') <- parse_call_expr pf f lhs ts; parse_loop pf f p e ts'
         else if is_fix KOpenBracket (cur ts) then
           do (e, ts') <- parse_index_expr pf f lhs ts; parse_loop pf f p e ts'
         else Ok (lhs, ts)
       else Ok (lhs, ts)).
  Proof. reflexivity. Qed.

  Lemma parse_infix_expr_S : forall f lhs ts,
    parse_infix_expr pf (S f) lhs ts =
      match lhs with
      | EFunction _ _ _ => Err ETypeError
      | _ =>
          match operator_of (cur ts) with
          | None => Fault FUnwrap
          | Some op =>
              let p := token_precedence (cur ts) in
              let ts1 := advance ts in
              if is_fix KAssign (cur ts1) && match lhs with EIdent _ => true | _ => false end then
                do (rhs, ts2) <- parse_expr pf f PLowest (advance ts1);
                Ok (EAssign lhs (EInfix lhs op rhs), ts2)
              else
                do (rhs, ts2) <- parse_expr pf f p ts1;
                Ok (EInfix lhs op rhs, ts2)
          end
      end.
  Proof. reflexivity. Qed.

  Lemma parse_prefix_expr_S : forall f ts,
    parse_prefix_expr pf (S f) ts =
      match operator_of (cur ts) with
      | None => Fault FUnwrap
      | Some op =>
          let p := token_precedence (cur ts) in
          do (rhs, ts') <- parse_expr pf f p (advance ts);
          Ok (EPrefix op rhs, ts')
      end.
  Proof. reflexivity. Qed.

  Lemma parse_if_expr_S : forall f ts,
    parse_if_expr pf (S f) ts =
      (do (c, ts1) <- parse_expr pf f PLowest (advance ts);
       do (t, ts2) <- parse_block_statement pf f ts1;
       if is_fix KElse (cur ts2) then
         let ts3 := advance ts2 in
         if is_fix KIf (cur ts3) then
           do (s, ts4) <- parse_statement pf f ts3;
           Ok (EIf c t (Some [s]), ts4)
         else
           do (e, ts4) <- parse_block_statement pf f ts3;
           Ok (EIf c t (Some e), ts4)
       else Ok (EIf c t None, ts2)).
  Proof. reflexivity. Qed.

  Lemma parse_assign_expr_S : forall f lhs ts,
    parse_assign_expr pf (S f) lhs ts =
      match lhs with
      | EIdent _ | EIndex _ _ =>
          do (rhs, ts') <- parse_expr pf f PAssign (advance ts);
          Ok (EAssign lhs rhs, ts')
      | _ => Err ETypeError
      end.
  Proof. reflexivity. Qed.

  Lemma parse_function_expr_S : forall f ts,
    parse_function_expr pf (S f) ts =
      (let ts1 := advance ts in
       let '(name, ts2) := match cur ts1 with TIdent n => (n, advance ts1) | _ => ([], ts1) end in
       do (_, ts3) <- skip KOpenParen ts2;
       do (params, ts4) <- parse_params pf f ts3;
       do (_, ts5) <- skip KCloseParen ts4;
       do (body, ts6) <- parse_block_statement pf f ts5;
       Ok (EFunction name params body, ts6)).
  Proof. reflexivity. Qed.

  Lemma parse_params_S : forall f ts,
    parse_params pf (S f) ts =
      (if is_fix KCloseParen (cur ts) then Ok ([], ts)
       else match cur ts with
            | TIdent n =>
                do (rest, ts') <- parse_params pf f (skip_optional KComma (advance ts));
                Ok (n :: rest, ts')
            | _ => Err ESyntaxError
            end).
  Proof. reflexivity. Qed.

  Lemma parse_call_expr_S : forall f lhs ts,
    parse_call_expr pf (S f) lhs ts =
      match lhs with
      | EIdent _ | EFunction _ _ _ =>
          do (args, ts') <- parse_list pf f KCloseParen (advance ts);
          Ok (ECall lhs args, advance ts')
      | _ => Err ETypeError
      end.
  Proof. reflexivity. Qed.

  Lemma parse_list_S : forall f close ts,
    parse_list pf (S f) close ts =
      (if is_fix close (cur ts) then Ok ([], ts)
       else
         do (e, ts1) <- parse_expr pf f PLowest ts;
         do (rest, ts2) <- parse_list pf f close (skip_optional KComma ts1);
         Ok (e :: rest, ts2)).
  Proof. reflexivity. Qed.

  Lemma parse_while_expr_S : forall f ts,
    parse_while_expr pf (S f) ts =
      (do (c, ts1) <- parse_expr pf f PLowest (advance ts);
       do (b, ts2) <- parse_block_statement pf f ts1;
       Ok (EWhile c b, ts2)).
  Proof. reflexivity. Qed.

  Lemma parse_array_expr_S : forall f ts,
    parse_array_expr pf (S f) ts =
      (do (vs, ts1) <- parse_list pf f KCloseBracket (advance ts);
       do (_, ts2) <- skip KCloseBracket ts1;
       Ok (EArray vs, ts2)).
  Proof. reflexivity. Qed.

  Lemma parse_index_expr_S : forall f lhs ts,
    parse_index_expr pf (S f) lhs ts =
      match lhs with
      | EIdent _ | EArray _ | EString _ =>
          do (i, ts1) <- parse_expr pf f PLowest (advance ts);
          do (_, ts2) <- skip KCloseBracket ts1;
          Ok (EIndex lhs i, ts2)
      | _ => Err ETypeError
      end.
  Proof. reflexivity. Qed.

  Lemma parse_statement_S : forall f ts,
    parse_statement pf (S f) ts =
      (do (s, ts') <-
         match cur ts with
         | TFix KDeclare =>
             let ts1 := advance ts in
             match cur ts1 with
             | TIdent n =>
                 do (_, ts2) <- skip KAssign (advance ts1);
                 do (v, ts3) <- parse_expr pf f PLowest ts2;
                 Ok (SLet n v, ts3)
             | _ => Err ESyntaxError
             end
         | TFix KOpenBrace => do (b, ts1) <- parse_block_statement pf f ts; Ok (SBlock b, ts1)
         | TFix KReturn => do (e, ts1) <- parse_expr pf f PLowest (advance ts); Ok (SReturn e, ts1)
         | TFix KContinue => Ok (SContinue, advance ts)
         | TFix KBreak => Ok (SBreak, advance ts)
         | _ => do (e, ts1) <- parse_expr pf f PLowest ts; Ok (SExpr e, ts1)
         end;
       Ok (s, skip_optional KSemi ts')).
  Proof. reflexivity. Qed.

  Lemma parse_block_statement_S : forall f ts,
    parse_block_statement pf (S f) ts =
      (do (_, ts1) <- skip KOpenBrace ts;
       do (b, ts2) <- parse_block_items pf f ts1;
       do (_, ts3) <- skip KCloseBrace ts2;
       Ok (b, ts3)).
  Proof. reflexivity. Qed.

  Lemma parse_block_items_S : forall f ts,
    parse_block_items pf (S f) ts =
      (if is_fix KEof (cur ts) || is_fix KCloseBrace (cur ts) then Ok ([], ts)
       else
         do (s, ts1) <- parse_statement pf f ts;
         do (rest, ts2) <- parse_block_items pf f ts1;
         Ok (s :: rest, ts2)).
  Proof. reflexivity. Qed.

  Lemma parse_program_S : forall f ts,
    parse_program pf (S f) ts =
      (if is_fix KEof (cur ts) then Ok []
       else
         do (s, ts1) <- parse_statement pf f ts;
         do rest <- parse_program pf f ts1;
         Ok (s :: rest)).
  Proof. reflexivity. Qed.

  (** * Monotonicity *)

  Definition mono_all (n m : nat) : Prop :=
    (forall p ts, lo (parse_expr pf n p ts) (parse_expr pf m p ts)) /\
    (forall p lhs ts, lo (parse_loop pf n p lhs ts) (parse_loop pf m p lhs ts)) /\
    (forall lhs ts, lo (parse_infix_expr pf n lhs ts) (parse_infix_expr pf m lhs ts)) /\
    (forall ts, lo (parse_prefix_expr pf n ts) (parse_prefix_expr pf m ts)) /\
    (forall ts, lo (parse_if_expr pf n ts) (parse_if_expr pf m ts)) /\
    (forall lhs ts, lo (parse_assign_expr pf n lhs ts) (parse_assign_expr pf m lhs ts)) /\
    (forall ts, lo (parse_function_expr pf n ts) (parse_function_expr pf m ts)) /\
    (forall ts, lo (parse_params pf n ts) (parse_params pf m ts)) /\
    (forall lhs ts, lo (parse_call_expr pf n lhs ts) (parse_call_expr pf m lhs ts)) /\
    (forall c ts, lo (parse_list pf n c ts) (parse_list pf m c ts)) /\
    (forall ts, lo (parse_while_expr pf n ts) (parse_while_expr pf m ts)) /\
    (forall ts, lo (parse_array_expr pf n ts) (parse_array_expr pf m ts)) /\
    (forall lhs ts, lo (parse_index_expr pf n lhs ts) (parse_index_expr pf m lhs ts)) /\
    (forall ts, lo (parse_statement pf n ts) (parse_statement pf m ts)) /\
    (forall ts, lo (parse_block_statement pf n ts) (parse_block_statement pf m ts)) /\
    (forall ts, lo (parse_block_items pf n ts) (parse_block_items pf m ts)).

  Ltac lo_step :=
    match goal with
    | |- lo ?x ?x => apply lo_refl
    | |- lo OutOfFuel _ => apply lo_oof
    | H : forall p ts, lo (parse_expr _ _ p ts) _ |- lo (parse_expr _ _ _ _) _ => apply H
    | H : forall p lhs ts, lo (parse_loop _ _ p lhs ts) _ |- lo (parse_loop _ _ _ _ _) _ => apply H
    | H : forall lhs ts, lo (parse_infix_expr _ _ lhs ts) _ |- lo (parse_infix_expr _ _ _ _) _ => apply H
    | H : forall ts, lo (parse_prefix_expr _ _ ts) _ |- lo (parse_prefix_expr _ _ _) _ => apply H
    | H : forall ts, lo (parse_if_expr _ _ ts) _ |- lo (parse_if_expr _ _ _) _ => apply H
    | H : forall lhs ts, lo (parse_assign_expr _ _ lhs ts) _ |- lo (parse_assign_expr _ _ _ _) _ => apply H
    | H : forall ts, lo (parse_function_expr _ _ ts) _ |- lo (parse_function_expr _ _ _) _ => apply H
    | H : forall ts, lo (parse_params _ _ ts) _ |- lo (parse_params _ _ _) _ => apply H
    | H : forall lhs ts, lo (parse_call_expr _ _ lhs ts) _ |- lo (parse_call_expr _ _ _ _) _ => apply H
    | H : forall c ts, lo (parse_list _ _ c ts) _ |- lo (parse_list _ _ _ _) _ => apply H
    | H : forall ts, lo (parse_while_expr _ _ ts) _ |- lo (parse_while_expr _ _ _) _ => apply H
    | H : forall ts, lo (parse_array_expr _ _ ts) _ |- lo (parse_array_expr _ _ _) _ => apply H
    | H : forall lhs ts, lo (parse_index_expr _ _ lhs ts) _ |- lo (parse_index_expr _ _ _ _) _ => apply H
    | H : forall ts, lo (parse_statement _ _ ts) _ |- lo (parse_statement _ _ _) _ => apply H
    | H : forall ts, lo (parse_block_statement _ _ ts) _ |- lo (parse_block_statement _ _ _) _ => apply H
    | H : forall ts, lo (parse_block_items _ _ ts) _ |- lo (parse_block_items _ _ _) _ => apply H
    | |- lo (bind _ _) (bind _ _) => apply lo_bind; [ | intros [? ?] ]
    | |- lo (let (_, _) := ?x in _) _ => destruct x
    | |- lo (match ?x with _ => _ end) _ => destruct x
    | |- lo (if ?b then _ else _) _ => destruct b
    | |- lo _ _ => progress cbv zeta
    end.

  Lemma mono_step : forall n m, mono_all n m -> mono_all (S n) (S m).
  Proof.
    intros n m (He & Hl & Hi & Hp & Hif & Ha & Hf & Hpa & Hc & Hli & Hw & Har & Hix & Hs & Hb & Hbi).
    unfold mono_all. repeat split; intros.
    - rewrite !parse_expr_S. repeat lo_step.
    - rewrite !parse_loop_S. repeat lo_step.
    - rewrite !parse_infix_expr_S. repeat lo_step.
    - rewrite !parse_prefix_expr_S. repeat lo_step.
    - rewrite !parse_if_expr_S. repeat lo_step.
    - rewrite !parse_assign_expr_S. repeat lo_step.
    - rewrite !parse_function_expr_S. repeat lo_step.
    - rewrite !parse_params_S. repeat lo_step.
    - rewrite !parse_call_expr_S. repeat lo_step.
    - rewrite !parse_list_S. repeat lo_step.
    - rewrite !parse_while_expr_S. repeat lo_step.
    - rewrite !parse_array_expr_S. repeat lo_step.
    - rewrite !parse_index_expr_S. repeat lo_step.
    - rewrite !parse_statement_S. repeat lo_step.
    - rewrite !parse_block_statement_S. repeat lo_step.
    - rewrite !parse_block_items_S. repeat lo_step.
  Qed.

  Lemma mono_zero : forall m, mono_all 0 m.
  Proof. intro m. unfold mono_all. repeat split; intros; apply lo_oof. Qed.

  Lemma mono_le : forall n m, (n <= m)%nat -> mono_all n m.
  Proof.
    induction n as [ | n IH]; intros m Hle.
    - apply mono_zero.
    - destruct m as [ | m]; [ lia | ]. apply mono_step. apply IH. lia.
  Qed.

  (** * The exported statements *)

  Theorem parse_expr_fuel_mono : forall f f' p ts r,
    parse_expr pf f p ts = r -> r <> OutOfFuel -> (f <= f')%nat -> parse_expr pf f' p ts = r.
  Proof.
    intros f f' p ts r E N L. destruct (mono_le f f' L) as (H & _).
    exact (lo_elim _ _ _ _ (H p ts) E N).
  Qed.

  Theorem parse_loop_fuel_mono : forall f f' p lhs ts r,
    parse_loop pf f p lhs ts = r -> r <> OutOfFuel -> (f <= f')%nat -> parse_loop pf f' p lhs ts = r.
  Proof.
    intros f f' p lhs ts r E N L. destruct (mono_le f f' L) as (_ & H & _).
    exact (lo_elim _ _ _ _ (H p lhs ts) E N).
  Qed.

  Theorem parse_infix_expr_fuel_mono : forall f f' lhs ts r,
    parse_infix_expr pf f lhs ts = r -> r <> OutOfFuel -> (f <= f')%nat -> parse_infix_expr pf f' lhs ts = r.
  Proof.
    intros f f' lhs ts r E N L. destruct (mono_le f f' L) as (_ & _ & H & _).
    exact (lo_elim _ _ _ _ (H lhs ts) E N).
  Qed.

  Theorem parse_prefix_expr_fuel_mono : forall f f' ts r,
    parse_prefix_expr pf f ts = r -> r <> OutOfFuel -> (f <= f')%nat -> parse_prefix_expr pf f' ts = r.
  Proof.
    intros f f' ts r E N L. destruct (mono_le f f' L) as (_ & _ & _ & H & _).
    exact (lo_elim _ _ _ _ (H ts) E N).
  Qed.

  Theorem parse_if_expr_fuel_mono : forall f f' ts r,
    parse_if_expr pf f ts = r -> r <> OutOfFuel -> (f <= f')%nat -> parse_if_expr pf f' ts = r.
  Proof.
    intros f f' ts r E N L. destruct (mono_le f f' L) as (_ & _ & _ & _ & H & _).
    exact (lo_elim _ _ _ _ (H ts) E N).
  Qed.

  Theorem parse_assign_expr_fuel_mono : forall f f' lhs ts r,
    parse_assign_expr pf f lhs ts = r -> r <> OutOfFuel -> (f <= f')%nat -> parse_assign_expr pf f' lhs ts = r.
  Proof.
    intros f f' lhs ts r E N L. destruct (mono_le f f' L) as (_ & _ & _ & _ & _ & H & _).
    exact (lo_elim _ _ _ _ (H lhs ts) E N).
  Qed.

  Theorem parse_function_expr_fuel_mono : forall f f' ts r,
    parse_function_expr pf f ts = r -> r <> OutOfFuel -> (f <= f')%nat -> parse_function_expr pf f' ts = r.
  Proof.
    intros f f' ts r E N L. destruct (mono_le f f' L) as (_ & _ & _ & _ & _ & _ & H & _).
    exact (lo_elim _ _ _ _ (H ts) E N).
  Qed.

  Theorem parse_params_fuel_mono : forall f f' ts r,
    parse_params pf f ts = r -> r <> OutOfFuel -> (f <= f')%nat -> parse_params pf f' ts = r.
  Proof.
    intros f f' ts r E N L. destruct (mono_le f f' L) as (_ & _ & _ & _ & _ & _ & _ & H & _).
    exact (lo_elim _ _ _ _ (H ts) E N).
  Qed.

  Theorem parse_call_expr_fuel_mono : forall f f' lhs ts r,
    parse_call_expr pf f lhs ts = r -> r <> OutOfFuel -> (f <= f')%nat -> parse_call_expr pf f' lhs ts = r.
  Proof.
    intros f f' lhs ts r E N L. destruct (mono_le f f' L) as (_ & _ & _ & _ & _ & _ & _ & _ & H & _).
    exact (lo_elim _ _ _ _ (H lhs ts) E N).
  Qed.

  Theorem parse_list_fuel_mono : forall f f' c ts r,
    parse_list pf f c ts = r -> r <> OutOfFuel -> (f <= f')%nat -> parse_list pf f' c ts = r.
  Proof.
    intros f f' c ts r E N L. destruct (mono_le f f' L) as (_ & _ & _ & _ & _ & _ & _ & _ & _ & H & _).
    exact (lo_elim _ _ _ _ (H c ts) E N).
  Qed.

  Theorem parse_while_expr_fuel_mono : forall f f' ts r,
    parse_while_expr pf f ts = r -> r <> OutOfFuel -> (f <= f')%nat -> parse_while_expr pf f' ts = r.
  Proof.
    intros f f' ts r E N L. destruct (mono_le f f' L) as (_ & _ & _ & _ & _ & _ & _ & _ & _ & _ & H & _).
    exact (lo_elim _ _ _ _ (H ts) E N).
  Qed.

  Theorem parse_array_expr_fuel_mono : forall f f' ts r,
    parse_array_expr pf f ts = r -> r <> OutOfFuel -> (f <= f')%nat -> parse_array_expr pf f' ts = r.
  Proof.
    intros f f' ts r E N L.
    destruct (mono_le f f' L) as (_ & _ & _ & _ & _ & _ & _ & _ & _ & _ & _ & H & _).
    exact (lo_elim _ _ _ _ (H ts) E N).
  Qed.

  Theorem parse_index_expr_fuel_mono : forall f f' lhs ts r,
    parse_index_expr pf f lhs ts = r -> r <> OutOfFuel -> (f <= f')%nat -> parse_index_expr pf f' lhs ts = r.
  Proof.
    intros f f' lhs ts r E N L.
    destruct (mono_le f f' L) as (_ & _ & _ & _ & _ & _ & _ & _ & _ & _ & _ & _ & H & _).
    exact (lo_elim _ _ _ _ (H lhs ts) E N).
  Qed.

  Theorem parse_statement_fuel_mono : forall f f' ts r,
    parse_statement pf f ts = r -> r <> OutOfFuel -> (f <= f')%nat -> parse_statement pf f' ts = r.
  Proof.
    intros f f' ts r E N L.
    destruct (mono_le f f' L) as (_ & _ & _ & _ & _ & _ & _ & _ & _ & _ & _ & _ & _ & H & _).
    exact (lo_elim _ _ _ _ (H ts) E N).
  Qed.

  Theorem parse_block_statement_fuel_mono : forall f f' ts r,
    parse_block_statement pf f ts = r -> r <> OutOfFuel -> (f <= f')%nat ->
    parse_block_statement pf f' ts = r.
  Proof.
    intros f f' ts r E N L.
    destruct (mono_le f f' L) as (_ & _ & _ & _ & _ & _ & _ & _ & _ & _ & _ & _ & _ & _ & H & _).
    exact (lo_elim _ _ _ _ (H ts) E N).
  Qed.

  Theorem parse_block_items_fuel_mono : forall f f' ts r,
    parse_block_items pf f ts = r -> r <> OutOfFuel -> (f <= f')%nat -> parse_block_items pf f' ts = r.
  Proof.
    intros f f' ts r E N L.
    destruct (mono_le f f' L) as (_ & _ & _ & _ & _ & _ & _ & _ & _ & _ & _ & _ & _ & _ & _ & H).
    exact (lo_elim _ _ _ _ (H ts) E N).
  Qed.

  Lemma parse_program_lo : forall n m, (n <= m)%nat ->
    forall ts, lo (parse_program pf n ts) (parse_program pf m ts).
  Proof.
    induction n as [ | n IH]; intros m Hle ts.
    - apply lo_oof.
    - destruct m as [ | m]; [ lia | ].
      assert (Hnm : (n <= m)%nat) by lia.
      destruct (mono_le n m Hnm) as (_ & _ & _ & _ & _ & _ & _ & _ & _ & _ & _ & _ & _ & Hs & _).
      rewrite !parse_program_S.
      destruct (is_fix KEof (cur ts)); [ apply lo_refl | ].
      apply lo_bind; [ apply Hs | intros [s ts1] ].
      apply lo_bind; [ apply IH; exact Hnm | intro rest; apply lo_refl ].
  Qed.

  Theorem parse_program_fuel_mono : forall f f' ts r,
    parse_program pf f ts = r -> r <> OutOfFuel -> (f <= f')%nat -> parse_program pf f' ts = r.
  Proof.
    intros f f' ts r E N L. exact (lo_elim _ _ _ _ (parse_program_lo f f' L ts) E N).
  Qed.

  Theorem parse_program_fuel_agree : forall f1 f2 ts r1 r2,
    parse_program pf f1 ts = r1 -> parse_program pf f2 ts = r2 ->
    r1 <> OutOfFuel -> r2 <> OutOfFuel -> r1 = r2.
  Proof.
    intros f1 f2 ts r1 r2 E1 E2 N1 N2.
    destruct (Nat.le_ge_cases f1 f2) as [L | L].
    - rewrite (parse_program_fuel_mono f1 f2 ts r1 E1 N1 L) in E2. exact E2.
    - rewrite (parse_program_fuel_mono f2 f1 ts r2 E2 N2 L) in E1. symmetry. exact E1.
  Qed.
End Fuel.

(* non-vacuity: a concrete input on which the hypotheses hold with a proper result *)
Example parse_program_fuel_mono_ex :
  parse_program (fun _ => None) 10 [TIdent [97%N]; TFix KPlus; TIntLit [49%N]; TFix KSemi]
  = Ok [SExpr (EInfix (EIdent [97%N]) OpAdd (EInt 1))].
Proof. vm_compute. reflexivity. Qed.

Print Assumptions parse_program_fuel_mono.
Print Assumptions parse_program_fuel_agree.
Print Assumptions parse_expr_fuel_mono.
Print Assumptions parse_statement_fuel_mono.
