(* SessionRefineC.v - property C17 for sessions whose lines are in fragment F2, part C: the machine.

   CompileCorrectC.v simulates the intermediate evaluator `xeval` of fragment F2 (F1 + nested block
   scopes, als / anders, zolang with stop / volgende) by the machine running the compiled code, from
   ANY compiler state whose symbol table is one global context `stab k outer cur`.  For a failing run
   it only says that the machine stops with the same error.  A session needs more: the assignments a
   line completed before it failed persist, so the state in which the machine stops is part of the
   statement.  This file repeats the intermediate evaluator with that state recorded in its error
   results (`zeval` / `zwhile` / `zstmts`: ZErr k m, ZFault f m) and the simulation of part C with
   `stops_at` (SessionRefine.v) in place of `stops`.  The proof scripts are those of
   CompileCorrectC.v, adapted; everything that does not mention the evaluator (code_x, cfacts,
   env_ok, patches, loop contexts, ...) is imported from there.

   `zeval_erase` ties the new evaluator to the old one (same results, the failure state forgotten). *)
From Coq Require Import ZArith Lia Bool List String.
From NL.Model Require Import VM Session.
From NL.Spec Require Import Sem Fragment Fragment2 ArithSpec.
From NL.Proofs Require Import WordProofs OpsProofs AstInduction ControlProofs CompileCorrectA CompileCorrectB
  CompileCorrectC SessionRefine.
Open Scope Z_scope.

(** * The intermediate evaluator for F2, with the state at a failure *)

Inductive zres (A : Type) : Type :=
| ZOk (a : A) (m : mst)
| ZBrk (m : mst)                     (* stop: leave the innermost loop *)
| ZCnt (m : mst)                     (* volgende: next iteration of the innermost loop *)
| ZErr (k : errkind) (m : mst)         (* m: heap, collector and globals when the failing instruction is met *)
| ZFault (f : fault) (m : mst)
| ZFuel.
Arguments ZOk {A} a m.
Arguments ZBrk {A} m.
Arguments ZCnt {A} m.
Arguments ZErr {A} k m.
Arguments ZFault {A} f m.
Arguments ZFuel {A}.

Definition zbind {A B} (x : zres A) (k : A -> mst -> zres B) : zres B :=
  match x with
  | ZOk a m => k a m
  | ZBrk m => ZBrk m
  | ZCnt m => ZCnt m
  | ZErr e m => ZErr e m
  | ZFault f m => ZFault f m
  | ZFuel => ZFuel
  end.

Definition zlift_h (m : mst) (r : outcome (val * heap)) : zres val :=
  match r with
  | Ok x => ZOk (fst x) (with_new_m m x)
  | Err k => ZErr k m
  | Fault f => ZFault f m
  | OutOfFuel => ZFuel
  end.
Definition zlift_p (m : mst) (r : outcome val) : zres val :=
  match r with
  | Ok v => ZOk v m
  | Err k => ZErr k m
  | Fault f => ZFault f m
  | OutOfFuel => ZFuel
  end.

Section XEval.
  Variable orc : oracle.

  (* same fuel discipline as Sem.eval_expr / eval_while / exec_block *)
  Fixpoint zeval (fuel : nat) (names : list text) (e : expr) (m : mst) {struct fuel} : zres val :=
    match fuel with
    | O => ZFuel
    | S f =>
        match e with
        | EInt z => ZOk (VInt z) m
        | EBool b => ZOk (VBool b) m
        | EIdent x =>
            match rposition x names with
            | Some i => ZOk (nth i (m_gl m) VNull) m
            | None => ZErr EReferenceError m
            end
        | EAssign l r =>
            match l with
            | EIdent x =>
                match rposition x names with
                | Some i => zbind (zeval f names r m) (fun v m1 => ZOk v (set_global_m i v m1))
                | None => ZErr EReferenceError m
                end
            | _ => ZErr ETypeError m
            end
        | EPrefix op r =>
            zbind (zeval f names r m) (fun v m1 =>
              match op with
              | OpNegate | OpSubtract => zlift_h m1 (negate (m_heap m1) v)
              | OpNot => zlift_p m1 (lognot v)
              | _ => ZErr ETypeError m1
              end)
        | EInfix l op r =>
            zbind (zeval f names l m) (fun a m1 =>
            zbind (zeval f names r m1) (fun b m2 =>
              match Sem.method_of op with
              | Some mth => zlift_h m2 (binop orc mth (m_heap m2) a b)
              | None => ZErr ETypeError m2
              end))
        | EIf c t alt =>
            zbind (zeval f names c m) (fun b m1 =>
              match b with
              | VBool true => zstmts f names t VNull m1
              | VBool false =>
                  match alt with
                  | Some bl => zstmts f names bl VNull m1
                  | None => ZOk VNull m1
                  end
              | _ => ZErr ETypeError m1
              end)
        | EWhile c body => zwhile f names c body VNull m
        | _ => ZErr ETypeError m
        end
    end

  with zwhile (fuel : nat) (names : list text) (c : expr) (body : list stmt) (last : val) (m : mst)
         {struct fuel} : zres val :=
    match fuel with
    | O => ZFuel
    | S f =>
        zbind (zeval f names c m) (fun b m1 =>
          match b with
          | VBool true =>
              match zstmts f names body VNull m1 with
              | ZOk v m2 => zwhile f names c body v m2
              | ZBrk m2 => ZOk VNull m2
              | ZCnt m2 => zwhile f names c body VNull m2
              | other => other
              end
          | VBool false => ZOk last m1
          | _ => ZErr ETypeError m1
          end)
    end

  (* the statements of a block; `names` is local to the call: declarations of the block are
     forgotten when it is left.  `last` as in Sem.exec_block. *)
  with zstmts (fuel : nat) (names : list text) (l : list stmt) (last : val) (m : mst)
         {struct fuel} : zres val :=
    match fuel with
    | O => ZFuel
    | S f =>
        match l with
        | [] => ZOk last m
        | s :: r =>
            match s with
            | SLet x e =>
                zbind (zeval f (names ++ [x]) e m) (fun v m1 =>
                  zstmts f (names ++ [x]) r VNull (set_global_m (length names) v m1))
            | SExpr e => zbind (zeval f names e m) (fun v m1 => zstmts f names r v m1)
            | SBlock b' => zbind (zstmts f names b' VNull m) (fun v m1 => zstmts f names r v m1)
            | SBreak => ZBrk m
            | SContinue => ZCnt m
            | SReturn _ => ZErr ESyntaxError m
            end
        end
    end.
End XEval.

Section XEq.
  Variable orc : oracle.
  Lemma ze_int : forall f names z m, zeval orc (S f) names (EInt z) m = ZOk (VInt z) m.
  Proof. reflexivity. Qed.
  Lemma ze_bool : forall f names b m, zeval orc (S f) names (EBool b) m = ZOk (VBool b) m.
  Proof. reflexivity. Qed.
  Lemma ze_ident : forall f names x m,
    zeval orc (S f) names (EIdent x) m =
    match rposition x names with
    | Some i => ZOk (nth i (m_gl m) VNull) m
    | None => ZErr EReferenceError m
    end.
  Proof. reflexivity. Qed.
  Lemma ze_assign : forall f names x r m,
    zeval orc (S f) names (EAssign (EIdent x) r) m =
    match rposition x names with
    | Some i => zbind (zeval orc f names r m) (fun v m1 => ZOk v (set_global_m i v m1))
    | None => ZErr EReferenceError m
    end.
  Proof. reflexivity. Qed.
  Lemma ze_prefix : forall f names op r m,
    zeval orc (S f) names (EPrefix op r) m =
    zbind (zeval orc f names r m) (fun v m1 =>
      match op with
      | OpNegate | OpSubtract => zlift_h m1 (negate (m_heap m1) v)
      | OpNot => zlift_p m1 (lognot v)
      | _ => ZErr ETypeError m1
      end).
  Proof. reflexivity. Qed.
  Lemma ze_infix : forall f names l op r m,
    zeval orc (S f) names (EInfix l op r) m =
    zbind (zeval orc f names l m) (fun a m1 =>
    zbind (zeval orc f names r m1) (fun b m2 =>
      match Sem.method_of op with
      | Some mth => zlift_h m2 (binop orc mth (m_heap m2) a b)
      | None => ZErr ETypeError m2
      end)).
  Proof. reflexivity. Qed.
  Lemma ze_if : forall f names c t alt m,
    zeval orc (S f) names (EIf c t alt) m =
    zbind (zeval orc f names c m) (fun b m1 =>
      match b with
      | VBool true => zstmts orc f names t VNull m1
      | VBool false =>
          match alt with
          | Some bl => zstmts orc f names bl VNull m1
          | None => ZOk VNull m1
          end
      | _ => ZErr ETypeError m1
      end).
  Proof. reflexivity. Qed.
  Lemma ze_while : forall f names c body m,
    zeval orc (S f) names (EWhile c body) m = zwhile orc f names c body VNull m.
  Proof. reflexivity. Qed.
  Lemma zw_step : forall f names c body last m,
    zwhile orc (S f) names c body last m =
    zbind (zeval orc f names c m) (fun b m1 =>
      match b with
      | VBool true =>
          match zstmts orc f names body VNull m1 with
          | ZOk v m2 => zwhile orc f names c body v m2
          | ZBrk m2 => ZOk VNull m2
          | ZCnt m2 => zwhile orc f names c body VNull m2
          | other => other
          end
      | VBool false => ZOk last m1
      | _ => ZErr ETypeError m1
      end).
  Proof. reflexivity. Qed.
  Lemma zs_nil : forall f names last m, zstmts orc (S f) names [] last m = ZOk last m.
  Proof. reflexivity. Qed.
  Lemma zs_let : forall f names x e r last m,
    zstmts orc (S f) names (SLet x e :: r) last m =
    zbind (zeval orc f (names ++ [x]) e m) (fun v m1 =>
      zstmts orc f (names ++ [x]) r VNull (set_global_m (length names) v m1)).
  Proof. reflexivity. Qed.
  Lemma zs_expr : forall f names e r last m,
    zstmts orc (S f) names (SExpr e :: r) last m =
    zbind (zeval orc f names e m) (fun v m1 => zstmts orc f names r v m1).
  Proof. reflexivity. Qed.
  Lemma zs_block : forall f names b r last m,
    zstmts orc (S f) names (SBlock b :: r) last m =
    zbind (zstmts orc f names b VNull m) (fun v m1 => zstmts orc f names r v m1).
  Proof. reflexivity. Qed.
  Lemma zs_break : forall f names r last m, zstmts orc (S f) names (SBreak :: r) last m = ZBrk m.
  Proof. reflexivity. Qed.
  Lemma zs_continue : forall f names r last m, zstmts orc (S f) names (SContinue :: r) last m = ZCnt m.
  Proof. reflexivity. Qed.
End XEq.

Definition znosig {A} (r : zres A) : Prop :=
  match r with ZBrk _ | ZCnt _ => False | _ => True end.

Lemma znosig_zbind : forall A B (x : zres A) (k : A -> mst -> zres B),
  znosig x -> (forall a m, znosig (k a m)) -> znosig (zbind x k).
Proof. intros A B x k Hx Hk. destruct x; cbn [zbind znosig] in *; auto. Qed.

Lemma znosig_zlift_h : forall m r, znosig (zlift_h m r).
Proof. intros m r. destruct r; exact I. Qed.
Lemma znosig_zlift_p : forall m r, znosig (zlift_p m r).
Proof. intros m r. destruct r; exact I. Qed.

(* where no stop / volgende of an enclosing loop may be written, none is reported *)
Lemma zeval_nosig : forall orc fuel,
  (forall e names m, f2e false e = true -> znosig (zeval orc fuel names e m)) /\
  (forall c body last names m, f2e false c = true -> znosig (zwhile orc fuel names c body last m)) /\
  (forall l names last m, f2b false l = true -> znosig (zstmts orc fuel names l last m)).
Proof.
  intros orc fuel. induction fuel as [|f [IHe [IHw IHs]]].
  - repeat split; intros; exact I.
  - split; [|split].
    + intros e names m HF. destruct e; try discriminate HF; try exact I.
      * (* EInfix *) rewrite ze_infix. cbn [f2e] in HF.
        apply andb_prop in HF. destruct HF as [HF Hr]. apply andb_prop in HF. destruct HF as [_ Hl].
        apply znosig_zbind; [apply IHe; exact Hl|]. intros a m1.
        apply znosig_zbind; [apply IHe; exact Hr|]. intros b m2.
        destruct (Sem.method_of o); [apply znosig_zlift_h|exact I].
      * (* EPrefix *) rewrite ze_prefix. cbn [f2e] in HF. apply andb_prop in HF. destruct HF as [_ Hr].
        apply znosig_zbind; [apply IHe; exact Hr|]. intros v m1.
        destruct o; try exact I; try apply znosig_zlift_h; apply znosig_zlift_p.
      * (* EIf *) rewrite ze_if. rewrite f2e_if in HF.
        apply andb_prop in HF. destruct HF as [HF Ha]. apply andb_prop in HF. destruct HF as [Hc Ht].
        apply znosig_zbind; [apply IHe; exact Hc|]. intros b m1.
        destruct b as [|[|]| | | | |]; try exact I.
        -- apply IHs; exact Ht.
        -- destruct e0 as [bl|]; [apply IHs; exact Ha|exact I].
      * (* EIdent *) rewrite ze_ident. destruct (rposition s names); exact I.
      * (* EAssign *) cbn [f2e] in HF. destruct e1; try discriminate HF. rewrite ze_assign.
        destruct (rposition s names); [|exact I].
        apply znosig_zbind; [apply IHe; exact HF|]. intros; exact I.
      * (* EWhile *) rewrite ze_while. rewrite f2e_while in HF. apply andb_prop in HF. destruct HF as [Hc _].
        apply IHw; exact Hc.
    + intros c body last names m Hc. rewrite zw_step.
      apply znosig_zbind; [apply IHe; exact Hc|]. intros b m1.
      destruct b as [|[|]| | | | |]; try exact I.
      destruct (zstmts orc f names body VNull m1) eqn:E; try exact I; apply IHw; exact Hc.
    + intros l names last m HF. destruct l as [|s r]; [exact I|].
      rewrite f2b_cons in HF. apply andb_prop in HF. destruct HF as [Hs Hr].
      destruct s as [x e|e|e|b| |]; try discriminate Hs.
      * rewrite zs_let. cbn [f2s] in Hs. apply andb_prop in Hs. destruct Hs as [He _].
        apply znosig_zbind; [apply IHe; exact He|]. intros; apply IHs; exact Hr.
      * rewrite zs_expr. apply znosig_zbind; [apply IHe; exact Hs|]. intros; apply IHs; exact Hr.
      * rewrite zs_block. rewrite f2s_block in Hs.
        apply znosig_zbind; [apply IHs; exact Hs|]. intros; apply IHs; exact Hr.
Qed.

(* a block that does not end in a value-leaving statement has the value null *)
Lemma zstmts_no_pop_null : forall orc fuel l names last m v m',
  l <> [] -> ends_pop l = false -> zstmts orc fuel names l last m = ZOk v m' -> v = VNull.
Proof.
  intros orc fuel. induction fuel as [|f IH]; intros l names last m v m' Hne Hp H; [discriminate H|].
  destruct l as [|s r]; [contradiction|].
  destruct r as [|s' r'].
  - (* last statement *)
    cbn [ends_pop] in Hp. destruct s as [x e|e|e|b| |]; try discriminate Hp.
    + rewrite zs_let in H. destruct (zeval orc f (names ++ [x]) e m) as [a m1| | | | |]; try discriminate H.
      cbn [zbind] in H. destruct f; [discriminate H|]. rewrite zs_nil in H. inversion H; reflexivity.
    + cbn [zstmts] in H. destruct f; discriminate H.
    + rewrite zs_block in H. rewrite stmt_pop_block in Hp. destruct b as [|sb rb]; [discriminate Hp|].
      destruct (zstmts orc f names (sb :: rb) VNull m) as [a m1| | | | |] eqn:E; try discriminate H.
      cbn [zbind] in H. destruct f; [discriminate H|]. rewrite zs_nil in H. inversion H; subst.
      apply (IH (sb :: rb) names VNull m v m'); [discriminate|exact Hp|exact E].
    + rewrite zs_break in H. discriminate H.
    + rewrite zs_continue in H. discriminate H.
  - assert (ends_pop (s' :: r') = false) as Hp' by exact Hp.
    destruct s as [x e|e|e|b| |].
    + rewrite zs_let in H. destruct (zeval orc f (names ++ [x]) e m) as [a m1| | | | |]; try discriminate H.
      cbn [zbind] in H. eapply (IH (s' :: r')); [discriminate|exact Hp'|exact H].
    + cbn [zstmts] in H. discriminate H.
    + rewrite zs_expr in H. destruct (zeval orc f names e m) as [a m1| | | | |]; try discriminate H.
      cbn [zbind] in H. eapply (IH (s' :: r')); [discriminate|exact Hp'|exact H].
    + rewrite zs_block in H. destruct (zstmts orc f names b VNull m) as [a m1| | | | |]; try discriminate H.
      cbn [zbind] in H. eapply (IH (s' :: r')); [discriminate|exact Hp'|exact H].
    + rewrite zs_break in H. discriminate H.
    + rewrite zs_continue in H. discriminate H.
Qed.

(** * The new evaluator is the old one with the failure state recorded *)

Definition zx {A} (r : zres A) : xres A :=
  match r with
  | ZOk a m => XOk a m
  | ZBrk m => XBrk m
  | ZCnt m => XCnt m
  | ZErr k _ => XErr k
  | ZFault f _ => XFault f
  | ZFuel => XFuel
  end.

Lemma zx_bind : forall A B (x : zres A) (k : A -> mst -> zres B),
  zx (zbind x k) = xbind (zx x) (fun a m => zx (k a m)).
Proof. intros A B x k. destruct x; reflexivity. Qed.

Lemma zx_lift_h : forall m r, zx (zlift_h m r) = xlift_h m r.
Proof. intros m r. destruct r; reflexivity. Qed.
Lemma zx_lift_p : forall m r, zx (zlift_p m r) = xlift_p m r.
Proof. intros m r. destruct r; reflexivity. Qed.

Theorem zeval_erase : forall orc fuel,
  (forall names e m, zx (zeval orc fuel names e m) = xeval orc fuel names e m) /\
  (forall names c body last m, zx (zwhile orc fuel names c body last m) = xwhile orc fuel names c body last m) /\
  (forall names l last m, zx (zstmts orc fuel names l last m) = xstmts orc fuel names l last m).
Proof.
  intros orc fuel. induction fuel as [|f [IHe [IHw IHs]]]; [repeat split; intros; reflexivity|].
  split; [|split].
  - intros names e m. destruct e as [e1 o e2|o e|z|fl|bb|cnd t alt|s|n ps body|h args|e1 e2|str|vs|bs i|cnd body];
      try reflexivity.
    + rewrite ze_infix, xe_infix, zx_bind, IHe. destruct (xeval orc f names e1 m); cbn [xbind]; try reflexivity.
      rewrite zx_bind, IHe. destruct (xeval orc f names e2 m0); cbn [xbind]; try reflexivity.
      destruct (Sem.method_of o); [apply zx_lift_h|reflexivity].
    + rewrite ze_prefix, xe_prefix, zx_bind, IHe. destruct (xeval orc f names e m); cbn [xbind]; try reflexivity.
      destruct o; try reflexivity; try apply zx_lift_h; apply zx_lift_p.
    + rewrite ze_if, xe_if, zx_bind, IHe. destruct (xeval orc f names cnd m); cbn [xbind]; try reflexivity.
      destruct a as [|[|]| | | | |]; try reflexivity; [apply IHs|].
      destruct alt; [apply IHs|reflexivity].
    + rewrite ze_ident, xe_ident. destruct (rposition s names); reflexivity.
    + destruct e1; try reflexivity. rewrite ze_assign, xe_assign. destruct (rposition s names); [|reflexivity].
      rewrite zx_bind, IHe. destruct (xeval orc f names e2 m); reflexivity.
    + rewrite ze_while, xe_while. apply IHw.
  - intros names c body last m. rewrite zw_step, xw_step, zx_bind, IHe.
    destruct (xeval orc f names c m); cbn [xbind]; try reflexivity.
    destruct a as [|[|]| | | | |]; try reflexivity.
    rewrite <- IHs. destruct (zstmts orc f names body VNull m0); cbn [zx]; try reflexivity; apply IHw.
  - intros names l last m. destruct l as [|s r]; [reflexivity|].
    destruct s as [x e|e|e|b| |]; try reflexivity.
    + rewrite zs_let, xs_let, zx_bind, IHe. destruct (xeval orc f (names ++ [x]) e m); cbn [xbind]; try reflexivity.
      apply IHs.
    + rewrite zs_expr, xs_expr, zx_bind, IHe. destruct (xeval orc f names e m); cbn [xbind]; try reflexivity.
      apply IHs.
    + rewrite zs_block, xs_block, zx_bind, IHs. destruct (xstmts orc f names b VNull m); cbn [xbind]; try reflexivity.
      apply IHs.
Qed.

(** * The simulation, with the state in which a failing run stops *)

Section Sim.
  Variable orc : oracle.

  Definition zsim2 (prog : program) (s : vm) (ip' lstart lexit : Z) (r : zres val) : Prop :=
    match r with
    | ZOk v m' => exists fin', reaches orc prog s (setx s (v :: v_stack s) (v_slen s + 1) ip' m' fin')
    | ZBrk m' => exists fin', reaches orc prog s (setx s (VNull :: v_stack s) (v_slen s + 1) lexit m' fin')
    | ZCnt m' => exists fin', reaches orc prog s (setx s (VNull :: v_stack s) (v_slen s + 1) lstart m' fin')
    | ZErr k mf => stops_at orc prog s (Err k) mf
    | ZFault f mf => stops_at orc prog s (Fault f) mf
    | ZFuel => True
    end.

  (* statement lists, canonical form: if the list ends in a value-leaving statement, the machine is
     followed up to (not including) the trailing Pop, with the value on the stack *)
  Definition zsim_l (prog : program) (s : vm) (pop : bool) (ipend lstart lexit : Z) (r : zres val) : Prop :=
    match r with
    | ZOk v m' =>
        if pop then exists fin', reaches orc prog s (setx s (v :: v_stack s) (v_slen s + 1) (ipend - 1) m' fin')
        else exists fin', reaches orc prog s (setx s (v_stack s) (v_slen s) ipend m' fin')
    | ZBrk m' => exists fin', reaches orc prog s (setx s (VNull :: v_stack s) (v_slen s + 1) lexit m' fin')
    | ZCnt m' => exists fin', reaches orc prog s (setx s (VNull :: v_stack s) (v_slen s + 1) lstart m' fin')
    | ZErr k mf => stops_at orc prog s (Err k) mf
    | ZFault f mf => stops_at orc prog s (Fault f) mf
    | ZFuel => True
    end.

  Definition zesim (e : expr) : Prop :=
    forall lp st st' k outer cur, f2e lp e = true -> c_symbols st = stab k outer cur ->
    compile_expression e st = Ok st' ->
    exists ce nb, cfacts st st' outer cur ce nb /\
      forall prog lexit, env_ok prog st st' ce nb lexit -> 0 <= lexit < 65536 ->
      0 <= cur_start (c_loops st) ->
      forall fuel s, v_ip s = code_len st ->
      zsim2 prog s (code_len st') (cur_start (c_loops st)) lexit
           (zeval orc fuel (flat outer cur) e (mst_of s)).

  Definition zlconcl (l : list stmt) (st st' : cstate) (outer : list (list text)) (cur : list text)
             (ce : list Z) (nb : list Z) : Prop :=
    cfacts st st' outer (cur ++ decl_names l) ce nb /\
    (l <> [] -> last_instruction_is OPop st' = ends_pop l) /\
    (ends_pop l = true -> (exists ce', ce = ce' ++ [byte_of_opcode OPop]) /\
                          brk_ok (code_len st) nb (code_len st' - 1)) /\
    forall prog lexit, env_ok prog st st' (canon (ends_pop l) ce) nb lexit -> 0 <= lexit < 65536 ->
    0 <= cur_start (c_loops st) ->
    forall fuel s last, v_ip s = code_len st ->
    zsim_l prog s (ends_pop l) (code_len st') (cur_start (c_loops st)) lexit
          (zstmts orc fuel (flat outer cur) l last (mst_of s)).

  Definition zlsim (l : list stmt) : Prop :=
    forall lp st st' k outer cur, f2b lp l = true -> c_symbols st = stab k outer cur ->
    compile_statements l st = Ok st' ->
    exists ce nb, zlconcl l st st' outer cur ce nb.

  (* the step property of one statement in front of a list *)
  Definition zssim (s0 : stmt) : Prop := forall r, zlsim r -> zlsim (s0 :: r).

  Lemma zesim_int : forall z, zesim (EInt z).
  Proof.
    intros z lp st st' k outer cur HF Hs Hc. rewrite ce_int in Hc.
    pose proof (emit_const_loops _ _ _ Hc) as Hl.
    destruct (emit_const_kint z st st' Hc) as [Hsy [idx [kx [Hcode [Hk [Hf [Hr Hn]]]]]]].
    exists [byte_of_opcode OConst; idx mod 256; (idx / 256) mod 256], [].
    assert (cfacts st st' outer cur [byte_of_opcode OConst; idx mod 256; (idx / 256) mod 256] []) as CF.
    { constructor.
      - exists k. congruence.
      - exact Hcode.
      - exists kx. auto.
      - rewrite add_breaks_nil. exact Hl.
      - reflexivity.
      - cbn [brk_ok]. rewrite (code_len_app _ _ _ Hcode). rewrite zlength3. lia. }
    split; [exact CF|].
    intros prog lexit [E1 E2 _] _ _ fuel s Hip. destruct fuel as [|f]; [exact I|].
    rewrite ze_int. cbn [zsim2]. exists (v_final s). apply reaches_step.
    rewrite <- Hip in E1. pose proof (code_x_at3 _ _ _ _ _ _ _ E1 (holes_free_nil _ _)) as Hat.
    rewrite (step_const orc prog s idx z [] Hat Hr (E2 _ _ Hn)). rewrite setm_setx.
    f_equal. f_equal. apply setx_eq; [reflexivity|]. rewrite (code_len_app _ _ _ Hcode), zlength3, Hip. reflexivity.
  Qed.

  Lemma zesim_bool : forall b, zesim (EBool b).
  Proof.
    intros b lp st st' k outer cur HF Hs Hc. rewrite ce_bool in Hc. inversion Hc; subst st'; clear Hc.
    exists [byte_of_opcode (if b then OTrue else OFalse)], [].
    split; [apply (cfacts_emit _ _ outer cur k); auto|].
    intros prog lexit [E1 E2 _] _ _ fuel s Hip. destruct fuel as [|f]; [exact I|].
    rewrite ze_bool. cbn [zsim2]. exists (v_final s). apply reaches_step.
    rewrite <- Hip in E1. pose proof (code_x_at1 _ _ _ _ _ E1 (fun x => x)) as Hat.
    rewrite (step_bool orc prog s b [] Hat). rewrite setm_setx.
    f_equal. f_equal. apply setx_eq; [reflexivity|]. rewrite code_len_emit_opcode, Hip. reflexivity.
  Qed.

  Lemma zesim_ident : forall x, zesim (EIdent x).
  Proof.
    intros x lp st st' k outer cur HF Hs Hc. rewrite ce_ident, Hs, resolve_stab in Hc.
    destruct (rposition x (flat outer cur)) as [i|] eqn:Er; cbn [option_map] in Hc; [|discriminate Hc].
    unfold scoped in Hc. cbn [s_scope] in Hc.
    pose proof (emit_sym_loops _ _ _ _ Hc) as Hl.
    destruct (emit_sym_spec _ _ _ _ Hc) as [Hsy [Hk [Hr Hcode]]]. cbn [s_index] in Hr, Hcode.
    eexists; exists []. split; [apply (cfacts_emit _ _ outer cur k); eauto|].
    intros prog lexit [E1 E2 _] _ _ fuel s Hip. destruct fuel as [|f]; [exact I|].
    rewrite ze_ident, Er. cbn [zsim2]. exists (v_final s). apply reaches_step.
    rewrite <- Hip in E1. pose proof (code_x_at3 _ _ _ _ _ _ _ E1 (holes_free_nil _ _)) as Hat.
    rewrite (step_get_global orc prog s _ [] Hat Hr). rewrite Nat2Z.id, setm_setx.
    f_equal. f_equal. apply setx_eq; [reflexivity|]. rewrite (code_len_app _ _ _ Hcode), zlength3, Hip. reflexivity.
  Qed.

  Ltac znosig_contra f e names m HF E :=
    let N := fresh "N" in
    pose proof (proj1 (zeval_nosig orc f) e names m HF) as N; rewrite E in N; destruct N.

  Lemma zesim_assign : forall x r, zesim r -> zesim (EAssign (EIdent x) r).
  Proof.
    intros x r IHr lp st st' k outer cur HF Hs Hc. rewrite f2e_assign in HF.
    rewrite ce_assign_ident, Hs, resolve_stab in Hc.
    destruct (rposition x (flat outer cur)) as [i|] eqn:Er; cbn [option_map] in Hc; [|discriminate Hc].
    apply bind_ok in Hc. destruct Hc as [st1 [H1 Hc]]. apply bind_ok in Hc. destruct Hc as [st2 [H2 H3]].
    unfold scoped in H2, H3. cbn [s_scope] in H2, H3.
    destruct (IHr false st st1 k outer cur HF Hs H1) as [ce1 [nb1 [CF1 Hsim1]]].
    destruct (cf_syms _ _ _ _ _ _ CF1) as [k1 Hs1].
    destruct (cfacts_emit_sym _ _ _ _ outer cur k1 Hs1 H2) as [Hr CF2]. cbn [s_index] in Hr, CF2.
    destruct (cf_syms _ _ _ _ _ _ CF2) as [k2 Hs2].
    destruct (cfacts_emit_sym _ _ _ _ outer cur k2 Hs2 H3) as [_ CF3]. cbn [s_index] in CF3.
    pose proof (cfacts_trans _ _ _ _ _ _ _ _ _ _ CF2 CF3) as CF23.
    pose proof (cfacts_trans _ _ _ _ _ _ _ _ _ _ CF1 CF23) as CF.
    eexists; eexists. split; [exact CF|].
    intros prog lexit E Hle Hst fuel s Hip. destruct fuel as [|f]; [exact I|].
    rewrite ze_assign, Er.
    pose proof (env_left _ _ _ _ _ _ _ _ _ _ _ _ CF1 CF23 E) as EL.
    pose proof (env_right _ _ _ _ _ _ _ _ _ _ _ _ CF1 CF23 E) as ER.
    specialize (Hsim1 prog lexit EL Hle Hst f s Hip).
    destruct (zeval orc f (flat outer cur) r (mst_of s)) as [a m1|m1|m1|e|y|] eqn:E1; cbn [zbind];
      try exact Hsim1; try (znosig_contra f r (flat outer cur) (mst_of s) HF E1).
    cbn [zsim2] in *. destruct Hsim1 as [fin1 Hsim1].
    set (sa := setx s (a :: v_stack s) (v_slen s + 1) (code_len st1) m1 fin1) in *.
    exists fin1. apply (reaches_trans orc prog s sa _ Hsim1).
    destruct ER as [ERc _ _]. cbn [app brk_holes flat_map] in ERc.
    pose proof (cfacts_len _ _ _ _ _ _ CF2) as L2. pose proof (cfacts_len _ _ _ _ _ _ CF3) as L3.
    rewrite zlength3 in L2, L3.
    set (idx := Z.of_nat i) in *.
    pose proof (code_x_at3 _ _ _ _ _ _ _ ERc (holes_free_nil _ _)) as Hat1.
    pose proof (step_set_global orc prog sa idx a (v_stack s) [] Hat1 Hr eq_refl) as Hstep1.
    apply (reaches_trans orc prog sa _ _ (reaches_step orc prog _ _ Hstep1)).
    set (sb := setm sa (v_stack s) (v_slen sa - 1) (v_ip sa + 3) (set_global_m (Z.to_nat idx) a (mst_of sa))) in *.
    change ([byte_of_opcode OSetGlobal; idx mod 256; (idx / 256) mod 256; byte_of_opcode OGetGlobal;
             idx mod 256; (idx / 256) mod 256])
      with ([byte_of_opcode OSetGlobal; idx mod 256; (idx / 256) mod 256] ++
            [byte_of_opcode OGetGlobal; idx mod 256; (idx / 256) mod 256]) in ERc.
    apply code_x_app in ERc. destruct ERc as [_ ERc]. rewrite zlength3 in ERc.
    pose proof (code_x_at3 _ _ _ _ _ _ _ ERc (holes_free_nil _ _)) as Hat2.
    assert (v_ip sb = code_len st1 + 3) as Hipb by reflexivity. rewrite <- Hipb in Hat2.
    pose proof (step_get_global orc prog sb idx [] Hat2 Hr) as Hstep2.
    apply reaches_step. rewrite Hstep2. f_equal. f_equal.
    subst sb sa idx. unfold setm, setx, mst_of, set_global_m. vmcbn2. rewrite Nat2Z.id, nth_set_global_same.
    f_equal; lia.
  Qed.

  Lemma zesim_prefix : forall op r, zesim r -> zesim (EPrefix op r).
  Proof.
    intros op r IHr lp st st' k outer cur HF Hs Hc. rewrite f2e_prefix in HF.
    apply andb_prop in HF. destruct HF as [Hop HF].
    rewrite ce_prefix in Hc. apply bind_ok in Hc. destruct Hc as [st1 [H1 Hc]].
    destruct (IHr false st st1 k outer cur HF Hs H1) as [ce1 [nb1 [CF1 Hsim1]]].
    destruct (cf_syms _ _ _ _ _ _ CF1) as [k1 Hs1].
    assert (exists opc, st' = emit_opcode opc st1 /\
              ((opc = ONot /\ op = OpNot) \/ (opc = ONegate /\ (op = OpSubtract \/ op = OpNegate)))) as [opc [-> Hopc]].
    { destruct op; try discriminate Hop; inversion Hc; eexists; split; try reflexivity; tauto. }
    clear Hc. pose proof (cfacts_emit_opcode opc st1 outer cur k1 Hs1) as CF2.
    pose proof (cfacts_trans _ _ _ _ _ _ _ _ _ _ CF1 CF2) as CF.
    eexists; eexists. split; [exact CF|].
    intros prog lexit E Hle Hst fuel s Hip. destruct fuel as [|f]; [exact I|].
    rewrite ze_prefix.
    pose proof (env_left _ _ _ _ _ _ _ _ _ _ _ _ CF1 CF2 E) as EL.
    pose proof (env_right _ _ _ _ _ _ _ _ _ _ _ _ CF1 CF2 E) as ER.
    specialize (Hsim1 prog lexit EL Hle Hst f s Hip).
    destruct (zeval orc f (flat outer cur) r (mst_of s)) as [a m1|m1|m1|e|y|] eqn:E1; cbn [zbind];
      try exact Hsim1; try (znosig_contra f r (flat outer cur) (mst_of s) HF E1).
    cbn [zsim2] in Hsim1. destruct Hsim1 as [fin1 Hsim1].
    set (sa := setx s (a :: v_stack s) (v_slen s + 1) (code_len st1) m1 fin1) in *.
    destruct ER as [ERc _ _]. cbn [brk_holes flat_map] in ERc.
    pose proof (code_x_at1 _ _ _ _ _ ERc (fun x => x)) as Hat.
    pose proof (code_len_emit_opcode opc st1) as L3.
    destruct Hopc as [[-> ->]|[-> Hop2]].
    - pose proof (step_not orc prog sa a (v_stack s) [] Hat eq_refl) as Hstep.
      destruct (lognot a) as [x| | |]; cbn [zlift_p zsim2].
      + exists fin1. apply (reaches_trans orc prog s sa _ Hsim1). apply reaches_step. rewrite Hstep.
        f_equal. f_equal. subst sa. unfold setm, setx, mst_of. vmcbn2. rewrite L3. f_equal; lia.
      + apply (reaches_stops_at orc prog s sa _ _ Hsim1 eq_refl). apply (stops_at_now' orc prog sa _ _ Hstep (mst_of_setx _ _ _ _ _ _)).
      + apply (reaches_stops_at orc prog s sa _ _ Hsim1 eq_refl). apply (stops_at_now' orc prog sa _ _ Hstep (mst_of_setx _ _ _ _ _ _)).
      + exact I.
    - pose proof (step_negate orc prog sa a (v_stack s) [] Hat eq_refl) as Hstep.
      change (v_heap sa) with (m_heap m1) in Hstep.
      assert (match op with
              | OpNegate | OpSubtract => zlift_h m1 (negate (m_heap m1) a)
              | OpNot => zlift_p m1 (lognot a)
              | _ => ZErr ETypeError m1
              end = zlift_h m1 (negate (m_heap m1) a)) as ->.
      { destruct Hop2 as [-> | ->]; reflexivity. }
      destruct (negate (m_heap m1) a) as [x| | |]; cbn [zlift_h zsim2].
      + exists fin1. apply (reaches_trans orc prog s sa _ Hsim1). apply reaches_step. rewrite Hstep.
        f_equal. f_equal. subst sa. unfold setm, setx, mst_of. vmcbn2. rewrite ?mst_eta, L3. f_equal; lia.
      + apply (reaches_stops_at orc prog s sa _ _ Hsim1 eq_refl). apply (stops_at_now' orc prog sa _ _ Hstep (mst_of_setx _ _ _ _ _ _)).
      + apply (reaches_stops_at orc prog s sa _ _ Hsim1 eq_refl). apply (stops_at_now' orc prog sa _ _ Hstep (mst_of_setx _ _ _ _ _ _)).
      + exact I.
  Qed.

  Lemma zgeneric_infix_sim : forall l op r, zesim l -> zesim r -> is_binop op = true ->
    f2e false l = true -> f2e false r = true ->
    forall st st' k outer cur, c_symbols st = stab k outer cur ->
    generic_infix l op r st = Ok st' ->
    exists ce nb, cfacts st st' outer cur ce nb /\
      forall prog lexit, env_ok prog st st' ce nb lexit -> 0 <= lexit < 65536 ->
      0 <= cur_start (c_loops st) ->
      forall fuel s, v_ip s = code_len st ->
      zsim2 prog s (code_len st') (cur_start (c_loops st)) lexit
           (zeval orc fuel (flat outer cur) (EInfix l op r) (mst_of s)).
  Proof.
    intros l op r IHl IHr Hop Hl Hr st st' k outer cur Hs Hc. unfold generic_infix in Hc.
    apply bind_ok in Hc. destruct Hc as [st1 [H1 Hc]]. apply bind_ok in Hc. destruct Hc as [st2 [H2 Hc]].
    destruct (assoc operator_eqb op compile_operator_table) as [opc|] eqn:Eopc; [|discriminate Hc].
    inversion Hc; subst st'; clear Hc.
    destruct (binop_chain op opc Hop Eopc) as [mth [Hmth Hmeth]].
    destruct (IHl false st st1 k outer cur Hl Hs H1) as [ce1 [nb1 [CF1 Hsim1]]].
    destruct (cf_syms _ _ _ _ _ _ CF1) as [k1 Hs1].
    destruct (IHr false st1 st2 k1 outer cur Hr Hs1 H2) as [ce2 [nb2 [CF2 Hsim2]]].
    destruct (cf_syms _ _ _ _ _ _ CF2) as [k2 Hs2].
    pose proof (cfacts_emit_opcode opc st2 outer cur k2 Hs2) as CF3.
    pose proof (cfacts_trans _ _ _ _ _ _ _ _ _ _ CF2 CF3) as CF23.
    pose proof (cfacts_trans _ _ _ _ _ _ _ _ _ _ CF1 CF23) as CF.
    eexists; eexists. split; [exact CF|].
    intros prog lexit E Hle Hst fuel s Hip. destruct fuel as [|f]; [exact I|].
    rewrite ze_infix, Hmeth.
    pose proof (env_left _ _ _ _ _ _ _ _ _ _ _ _ CF1 CF23 E) as EL.
    pose proof (env_right _ _ _ _ _ _ _ _ _ _ _ _ CF1 CF23 E) as ER.
    pose proof (env_left _ _ _ _ _ _ _ _ _ _ _ _ CF2 CF3 ER) as ERL.
    pose proof (env_right _ _ _ _ _ _ _ _ _ _ _ _ CF2 CF3 ER) as ERR.
    specialize (Hsim1 prog lexit EL Hle Hst f s Hip).
    destruct (zeval orc f (flat outer cur) l (mst_of s)) as [a m1|m1|m1|e|y|] eqn:E1; cbn [zbind];
      try exact Hsim1; try (znosig_contra f l (flat outer cur) (mst_of s) Hl E1).
    cbn [zsim2] in Hsim1. destruct Hsim1 as [fin1 Hsim1].
    set (sa := setx s (a :: v_stack s) (v_slen s + 1) (code_len st1) m1 fin1) in *.
    assert (0 <= cur_start (c_loops st1)) as Hst1.
    { rewrite (cf_loops _ _ _ _ _ _ CF1), cur_start_add. exact Hst. }
    specialize (Hsim2 prog lexit ERL Hle Hst1 f sa eq_refl).
    rewrite (cf_loops _ _ _ _ _ _ CF1), cur_start_add in Hsim2.
    unfold sa in Hsim2 at 2. rewrite mst_of_setx in Hsim2.
    destruct (zeval orc f (flat outer cur) r m1) as [b m2|m2|m2|e|y|] eqn:E2; cbn [zbind];
      try (znosig_contra f r (flat outer cur) m1 Hr E2);
      try (cbn [zsim2] in *; apply (reaches_stops_at orc prog s sa _ _ Hsim1 eq_refl); exact Hsim2); try exact I.
    cbn [zsim2] in Hsim2. destruct Hsim2 as [fin2 Hsim2].
    set (sb := setx sa (b :: v_stack sa) (v_slen sa + 1) (code_len st2) m2 fin2) in *.
    destruct ERR as [ERc _ _]. cbn [brk_holes flat_map] in ERc.
    pose proof (code_x_at1 _ _ _ _ _ ERc (fun x => x)) as Hat.
    pose proof (code_len_emit_opcode opc st2) as L3.
    pose proof (step_binary orc prog sb opc mth a b (v_stack s) [] Hat Hmth eq_refl) as Hstep.
    change (v_heap sb) with (m_heap m2) in Hstep.
    destruct (binop orc mth (m_heap m2) a b) as [x| | |]; cbn [zlift_h zsim2].
    - exists fin2. apply (reaches_trans orc prog s sa _ Hsim1). apply (reaches_trans orc prog sa sb _ Hsim2).
      apply reaches_step. rewrite Hstep. f_equal. f_equal. subst sb sa. unfold setm, setx, mst_of. vmcbn2.
      rewrite ?mst_eta, L3. f_equal; lia.
    - apply (reaches_stops_at orc prog s sa _ _ Hsim1 eq_refl). apply (reaches_stops_at orc prog sa sb _ _ Hsim2 eq_refl).
      apply (stops_at_now' orc prog sb _ _ Hstep (mst_of_setx _ _ _ _ _ _)).
    - apply (reaches_stops_at orc prog s sa _ _ Hsim1 eq_refl). apply (reaches_stops_at orc prog sa sb _ _ Hsim2 eq_refl).
      apply (stops_at_now' orc prog sb _ _ Hstep (mst_of_setx _ _ _ _ _ _)).
    - exact I.
  Qed.

  Lemma zesim_infix : forall l op r, zesim l -> zesim r -> zesim (EInfix l op r).
  Proof.
    intros l op r IHl IHr lp st st' k outer cur HF Hs Hc. rewrite f2e_infix in HF.
    apply andb_prop in HF. destruct HF as [HF Hr]. apply andb_prop in HF. destruct HF as [Hop Hl].
    rewrite ce_infix in Hc.
    destruct (fused_candidate l r op) as [[[name v] op']|] eqn:Ef.
    - destruct (compile_const_var_infix name v op' st) as [st0 done] eqn:Ec.
      destruct (const_var_infix_global2 _ _ _ _ _ _ k outer cur Hs Ec) as [-> CF0].
      destruct (cf_syms _ _ _ _ _ _ CF0) as [k0 Hs0].
      destruct (zgeneric_infix_sim l op r IHl IHr Hop Hl Hr st0 st' k0 outer cur Hs0 Hc) as [ce [nb [CF Hsim]]].
      exists ce, nb. split; [exact (cfacts_pre_nil _ _ _ _ _ _ _ CF0 CF)|].
      pose proof (cfacts_len _ _ _ _ _ _ CF0) as L0. change (zlength []) with 0 in L0. rewrite Z.add_0_r in L0.
      pose proof (cf_loops _ _ _ _ _ _ CF0) as Ll0. rewrite add_breaks_nil in Ll0.
      intros prog lexit [E1 E2 E3] Hle Hst fuel s Hip.
      rewrite <- Ll0, <- L0 in *. apply Hsim; try assumption. constructor; assumption.
    - exact (zgeneric_infix_sim l op r IHl IHr Hop Hl Hr st st' k outer cur Hs Hc).
  Qed.

  Lemma zbv_sim : forall b, zlsim b ->
    forall lp st st' k outer cur, f2b lp b = true -> c_symbols st = stab k outer cur ->
    c_block_value b st = Ok st' ->
    exists ce nb, cfacts st st' outer cur ce nb /\
      forall prog lexit, env_ok prog st st' ce nb lexit -> 0 <= lexit < 65536 ->
      0 <= cur_start (c_loops st) ->
      forall fuel s, v_ip s = code_len st ->
      zsim2 prog s (code_len st') (cur_start (c_loops st)) lexit
           (zstmts orc fuel (flat outer cur) b VNull (mst_of s)).
  Proof.
    intros b IHb lp st st' k outer cur HF Hs Hc. unfold c_block_value, c_block_statement in Hc.
    destruct b as [|s0 r].
    - (* the empty block: Null *)
      cbn [is_nil bind] in Hc. inversion Hc; subst st'; clear Hc.
      exists [byte_of_opcode ONull], []. split; [apply (cfacts_emit_opcode ONull st outer cur k Hs)|].
      intros prog lexit [E1 _ _] _ _ fuel s Hip. destruct fuel as [|f]; [exact I|].
      rewrite zs_nil. cbn [zsim2]. exists (v_final s). apply reaches_step.
      rewrite <- Hip in E1. pose proof (code_x_at1 _ _ _ _ _ E1 (fun x => x)) as Hat.
      rewrite (step_null orc prog s [] Hat), setm_setx. f_equal. f_equal.
      apply setx_eq; [reflexivity|]. rewrite code_len_emit_opcode, Hip. reflexivity.
    - cbn [is_nil] in Hc. apply bind_ok in Hc. destruct Hc as [st1' [Hc1 Hc]].
      apply bind_ok in Hc1. destruct Hc1 as [st1 [Hc1 Hc1']]. inversion Hc1'; subst st1'; clear Hc1'.
      set (st0 := set_symbols st (enter_scope (c_symbols st))) in *.
      assert (c_symbols st0 = stab k (outer ++ [cur]) []) as Hs0 by (unfold st0; cbn [set_symbols c_symbols]; rewrite Hs; reflexivity).
      destruct (IHb lp st0 st1 k (outer ++ [cur]) [] HF Hs0 Hc1) as [ce [nb [CFb [Hlast [Hpop Hsim]]]]].
      destruct CFb as [[k1 S1] C1 K1 L1 N1 B1].
      cbn [app] in S1.
      set (st1' := set_symbols st1 (leave_scope (c_symbols st1))) in *.
      assert (c_symbols st1' = stab k1 outer cur) as Hs1'.
      { unfold st1'. cbn [set_symbols c_symbols]. rewrite S1. apply leave_stab. }
      assert (last_instruction_is OPop st1' = ends_pop (s0 :: r)) as Hlast'.
      { rewrite <- Hlast by discriminate. reflexivity. }
      rewrite Hlast' in Hc.
      change (c_code st0) with (c_code st) in C1. change (c_constants st0) with (c_constants st) in K1.
      change (c_loops st0) with (c_loops st) in L1, N1. change (code_len st0) with (code_len st) in B1.
      destruct (ends_pop (s0 :: r)) eqn:Ep.
      + (* the trailing Pop is removed *)
        inversion Hc; subst st'; clear Hc.
        destruct (Hpop eq_refl) as [[ce' Hce'] Bp].
        assert (c_code st1' = (c_code st ++ ce') ++ [byte_of_opcode OPop]) as Hcode1.
        { unfold st1'. cbn [set_symbols c_code]. rewrite C1, Hce', app_assoc. reflexivity. }
        destruct (code_len_remove_last st1' _ Hcode1) as [Hcode' Hlen'].
        change (code_len st1') with (code_len st1) in Hlen'.
        change (code_len st0) with (code_len st) in Bp.
        exists ce', nb. split.
        * constructor.
          -- exists k1. exact Hs1'.
          -- exact Hcode'.
          -- exact K1.
          -- exact L1.
          -- exact N1.
          -- rewrite Hlen'. exact Bp.
        * intros prog lexit [E1 E2 E3] Hle Hst fuel s Hip.
          assert (env_ok prog st0 st1 (canon true ce) nb lexit) as E0.
          { constructor; [|exact E2|exact E3]. unfold canon. rewrite Hce', removelast_last. exact E1. }
          specialize (Hsim prog lexit E0 Hle Hst fuel s VNull Hip).
          rewrite flat_enter in Hsim. rewrite Hlen'.
          destruct (zstmts orc fuel (flat outer cur) (s0 :: r) VNull (mst_of s)); exact Hsim.
      + (* no value on the stack: Null *)
        inversion Hc; subst st'; clear Hc.
        assert (cfacts st st1' outer cur ce nb) as CF1.
        { constructor; try assumption. exists k1. exact Hs1'. }
        pose proof (cfacts_emit_opcode ONull st1' outer cur k1 Hs1') as CF2.
        pose proof (cfacts_trans _ _ _ _ _ _ _ _ _ _ CF1 CF2) as CF.
        eexists; eexists. split; [exact CF|].
        intros prog lexit E Hle Hst fuel s Hip.
        pose proof (env_left _ _ _ _ _ _ _ _ _ _ _ _ CF1 CF2 E) as [EL1 EL2 EL3].
        pose proof (env_right _ _ _ _ _ _ _ _ _ _ _ _ CF1 CF2 E) as [ERc _ _].
        assert (env_ok prog st0 st1 (canon false ce) nb lexit) as E0 by (constructor; assumption).
        specialize (Hsim prog lexit E0 Hle Hst fuel s VNull Hip).
        rewrite flat_enter in Hsim.
        destruct (zstmts orc fuel (flat outer cur) (s0 :: r) VNull (mst_of s)) as [v m'|m'|m'|e|y|] eqn:Ex;
          try exact Hsim.
        cbn [zsim_l zsim2] in *. destruct Hsim as [fin1 Hsim].
        assert (v = VNull) as -> by (apply (zstmts_no_pop_null orc fuel (s0 :: r) _ _ _ _ _ ltac:(discriminate) Ep Ex)).
        set (sa := setx s (v_stack s) (v_slen s) (code_len st1) m' fin1) in *.
        exists fin1. apply (reaches_trans orc prog s sa _ Hsim). apply reaches_step.
        cbn [brk_holes flat_map] in ERc.
        pose proof (code_x_at1 _ _ _ _ _ ERc (fun x => x)) as Hat.
        change (code_len st1') with (v_ip sa) in Hat.
        rewrite (step_null orc prog sa [] Hat). f_equal. f_equal.
        subst sa. unfold setm, setx, mst_of. vmcbn2. rewrite code_len_emit_opcode. reflexivity.
  Qed.

  Lemma zesim_if : forall c t alt, zesim c -> zlsim t ->
    match alt with Some b => zlsim b | None => True end -> zesim (EIf c t alt).
  Proof.
    intros c t alt IHc IHt IHa lp st st' k outer cur HF Hs Hc.
    rewrite f2e_if in HF. apply andb_prop in HF. destruct HF as [HF Hfa].
    apply andb_prop in HF. destruct HF as [Hfc Hft].
    rewrite ce_if in Hc. cbv zeta in Hc.
    apply bind_ok in Hc. destruct Hc as [st1 [H1 Hc]].
    apply bind_ok in Hc. destruct Hc as [st3 [H3 Hc]].
    apply bind_ok in Hc. destruct Hc as [t1 [Ht1 Hc]].
    apply bind_ok in Hc. destruct Hc as [st5 [H5 Hc]].
    apply bind_ok in Hc. destruct Hc as [st6 [H6 Hc]].
    apply bind_ok in Hc. destruct Hc as [t2 [Ht2 Hc]].
    (* the pieces *)
    destruct (IHc false st st1 k outer cur Hfc Hs H1) as [ce_c [nb_c [CF1 Hsimc]]].
    destruct (cf_syms _ _ _ _ _ _ CF1) as [k1 Hs1].
    set (st2 := emit_u16 JUMP_PLACEHOLDER (emit_opcode OJumpIfFalse st1)) in *.
    pose proof (cfacts_emit_u16op OJumpIfFalse JUMP_PLACEHOLDER st1 outer cur k1 Hs1) as CF2. fold st2 in CF2.
    assert (c_symbols st2 = stab k1 outer cur) as Hs2 by exact Hs1.
    destruct (zbv_sim t IHt lp st2 st3 k1 outer cur Hft Hs2 H3) as [ce_t [nb_t [CF3 Hsimt]]].
    destruct (cf_syms _ _ _ _ _ _ CF3) as [k3 Hs3].
    set (st4 := emit_u16 JUMP_PLACEHOLDER (emit_opcode OJump st3)) in *.
    pose proof (cfacts_emit_u16op OJump JUMP_PLACEHOLDER st3 outer cur k3 Hs3) as CF4. fold st4 in CF4.
    destruct (operand16_code_len _ _ Ht1) as [-> Rt1].
    pose proof (cfacts_len _ _ _ _ _ _ CF1) as L1. pose proof (cfacts_len _ _ _ _ _ _ CF2) as L2.
    pose proof (cfacts_len _ _ _ _ _ _ CF3) as L3. pose proof (cfacts_len _ _ _ _ _ _ CF4) as L4.
    rewrite zlength3 in L2, L4.
    pose proof (cfacts_trans _ _ _ _ _ _ _ _ _ _ CF1 (cfacts_trans _ _ _ _ _ _ _ _ _ _ CF2
                 (cfacts_trans _ _ _ _ _ _ _ _ _ _ CF3 CF4))) as CF14.
    cbn [app] in CF14. rewrite L1 in H5.
    destruct (cfacts_patch_at _ _ _ _ _ _ _ _ _ _ _ (code_len st4) CF14 H5) as [CF15 [L5 _]].
    destruct (cf_syms _ _ _ _ _ _ CF15) as [k5 Hs5].
    set (names := flat outer cur) in *.
    (* the alternative *)
    assert (exists ce_a nb_a, cfacts st5 st6 outer cur ce_a nb_a /\
              forall prog lexit, env_ok prog st5 st6 ce_a nb_a lexit -> 0 <= lexit < 65536 ->
              0 <= cur_start (c_loops st5) ->
              forall f s, v_ip s = code_len st5 ->
              zsim2 prog s (code_len st6) (cur_start (c_loops st5)) lexit
                   (match alt with
                    | Some bl => zstmts orc f names bl VNull (mst_of s)
                    | None => ZOk VNull (mst_of s)
                    end)) as [ce_a [nb_a [CF6 Hsima]]].
    { destruct alt as [bl|].
      - exact (zbv_sim bl IHa lp st5 st6 k5 outer cur Hfa Hs5 H6).
      - inversion H6; subst st6. exists [byte_of_opcode ONull], [].
        split; [exact (cfacts_emit_opcode ONull st5 outer cur k5 Hs5)|].
        intros prog lexit [E1 _ _] _ _ f s Hip. cbn [zsim2]. exists (v_final s). apply reaches_step.
        rewrite <- Hip in E1. pose proof (code_x_at1 _ _ _ _ _ E1 (fun x => x)) as Hat.
        rewrite (step_null orc prog s [] Hat), setm_setx. f_equal. f_equal.
        apply setx_eq; [reflexivity|]. rewrite code_len_emit_opcode, Hip. reflexivity. }
    clear H6.
    destruct (operand16_code_len _ _ Ht2) as [-> Rt2].
    pose proof (cfacts_len _ _ _ _ _ _ CF6) as L6.
    pose proof (cfacts_trans _ _ _ _ _ _ _ _ _ _ CF15 CF6) as CF16.
    set (T1 := code_len st4) in *. set (T2 := code_len st6) in *.
    set (jif3 := [byte_of_opcode OJumpIfFalse; T1 mod 256; (T1 / 256) mod 256]).
    set (PHlo := JUMP_PLACEHOLDER mod 256) in *. set (PHhi := (JUMP_PLACEHOLDER / 256) mod 256) in *.
    assert ((ce_c ++ byte_of_opcode OJumpIfFalse :: T1 mod 256 :: (T1 / 256) mod 256
                   :: ce_t ++ [byte_of_opcode OJump; PHlo; PHhi]) ++ ce_a
            = (ce_c ++ jif3 ++ ce_t) ++ byte_of_opcode OJump :: PHlo :: PHhi :: ce_a) as Ereassoc.
    { unfold jif3. rewrite <- !app_assoc. cbn [app]. rewrite <- !app_assoc. reflexivity. }
    rewrite Ereassoc in CF16.
    assert (code_len st3 = code_len st + zlength (ce_c ++ jif3 ++ ce_t)) as Lpre.
    { rewrite !zlength_app. unfold jif3. rewrite zlength3. lia. }
    rewrite Lpre in Hc.
    destruct (cfacts_patch_at _ _ _ _ _ _ _ _ _ _ _ T2 CF16 Hc) as [CF [L' _]].
    set (jmp3 := [byte_of_opcode OJump; T2 mod 256; (T2 / 256) mod 256]).
    assert ((ce_c ++ jif3 ++ ce_t) ++ byte_of_opcode OJump :: T2 mod 256 :: (T2 / 256) mod 256 :: ce_a
            = ce_c ++ jif3 ++ ce_t ++ jmp3 ++ ce_a) as Efinal.
    { unfold jmp3. rewrite <- !app_assoc. reflexivity. }
    exists (ce_c ++ jif3 ++ ce_t ++ jmp3 ++ ce_a), (nb_c ++ nb_t ++ nb_a).
    assert (cfacts st st' outer cur (ce_c ++ jif3 ++ ce_t ++ jmp3 ++ ce_a) (nb_c ++ nb_t ++ nb_a)) as CF'.
    { rewrite Efinal in CF. apply (cfacts_eq _ _ _ _ _ _ _ _ CF); [reflexivity|].
      rewrite <- ?app_assoc; cbn [app]; rewrite <- ?app_assoc, ?app_nil_r; reflexivity. }
    clear CF. rename CF' into CF.
    split; [exact CF|].
    (* the run *)
    intros prog lexit E Hle Hst fuel s Hip. destruct fuel as [|f]; [exact I|].
    rewrite ze_if. fold names.
    (* loop contexts along the way *)
    pose proof (cf_loops _ _ _ _ _ _ CF1) as Lp1.
    assert (c_loops st2 = c_loops st1) as Lp2 by reflexivity.
    pose proof (cf_loops _ _ _ _ _ _ CF3) as Lp3.
    pose proof (cf_loops _ _ _ _ _ _ CF15) as Lp5.
    assert (cur_start (c_loops st2) = cur_start (c_loops st)) as Cs2 by (rewrite Lp2, Lp1; apply cur_start_add).
    assert (cur_start (c_loops st5) = cur_start (c_loops st)) as Cs5 by (rewrite Lp5; apply cur_start_add).
    (* constants *)
    assert (c_constants st' = c_constants st6) as K'.
    { assert (0 <= code_len st + zlength (ce_c ++ jif3 ++ ce_t)) as Hp by (rewrite <- Lpre; apply code_len_nonneg).
      exact (proj1 (proj2 (change_jump_spec _ _ _ _ Hp Hc))). }
    assert (c_constants st5 = c_constants st4) as K5.
    { assert (0 <= code_len st + zlength ce_c) as Hp by (rewrite <- L1; apply code_len_nonneg).
      exact (proj1 (proj2 (change_jump_spec _ _ _ _ Hp H5))). }
    assert (cext st6 st') as X6 by (apply cext_eq; exact K').
    assert (cext st5 st') as X5 by (exact (cext_trans _ _ _ (cext_cfacts _ _ _ _ _ _ CF6) X6)).
    assert (cext st3 st') as X3.
    { apply (cext_trans _ st4); [exact (cext_cfacts _ _ _ _ _ _ CF4)|].
      apply (cext_trans _ st5); [apply cext_eq; exact K5|exact X5]. }
    assert (cext st2 st') as X2 by (exact (cext_trans _ _ _ (cext_cfacts _ _ _ _ _ _ CF3) X3)).
    assert (cext st1 st') as X1 by (exact (cext_trans _ _ _ (cext_cfacts _ _ _ _ _ _ CF2) X2)).
    (* pending stops *)
    pose proof (cf_brk _ _ _ _ _ _ CF1) as B1. pose proof (cf_brk _ _ _ _ _ _ CF3) as B3.
    pose proof (cf_brk _ _ _ _ _ _ CF6) as B6.
    assert (brk_ok (code_len st3) nb_a (code_len st6)) as B36 by (apply (brk_ok_widen _ _ _ _ _ B6); lia).
    assert (brk_ok (code_len st2) (nb_t ++ nb_a) (code_len st6)) as B26 by (exact (brk_ok_app _ _ _ _ _ B3 B36)).
    assert (brk_ok (code_len st1) (nb_t ++ nb_a) (code_len st6)) as B16 by (apply (brk_ok_widen _ _ _ _ _ B26); lia).
    (* the environments of the pieces *)
    cbn [app] in E.
    destruct (env_split prog st st1 st' ce_c _ nb_c (nb_t ++ nb_a) lexit _ L1 B1 B16 X1 E) as [Ec E1].
    assert (code_len st2 = code_len st1 + zlength jif3) as L2' by (unfold jif3; rewrite zlength3; exact L2).
    destruct (env_split prog st1 st2 st' jif3 _ [] (nb_t ++ nb_a) lexit _ L2'
                ltac:(cbn [brk_ok]; lia) B26 X2 E1) as [Ej E2].
    destruct (env_split prog st2 st3 st' ce_t _ nb_t nb_a lexit _ L3 B3 B36 X3 E2) as [Et E3].
    assert (code_len st5 = code_len st3 + zlength jmp3) as L5' by (unfold jmp3; rewrite zlength3; lia).
    destruct (env_split prog st3 st5 st' jmp3 _ [] nb_a lexit _ L5'
                ltac:(cbn [brk_ok]; lia) B6 X5 E3) as [Em E4].
    assert (env_ok prog st5 st6 ce_a nb_a lexit) as Ea.
    { destruct E4 as [A1 A2 A3]. constructor; try assumption. rewrite <- K'. exact A2. }
    (* condition *)
    specialize (Hsimc prog lexit Ec Hle Hst f s Hip).
    destruct (zeval orc f names c (mst_of s)) as [b m1|m1|m1|e|y|] eqn:E1c; cbn [zbind];
      try exact Hsimc; try (znosig_contra f c names (mst_of s) Hfc E1c).
    cbn [zsim2] in Hsimc. destruct Hsimc as [fin1 Hsimc].
    set (sa := setx s (b :: v_stack s) (v_slen s + 1) (code_len st1) m1 fin1) in *.
    destruct Ej as [Ejc _ _]. cbn [brk_holes flat_map] in Ejc.
    pose proof (code_x_at3 _ _ _ _ _ _ _ Ejc (holes_free_nil _ _)) as Hjif.
    pose proof (step_jif orc prog sa T1 b (v_stack s) [] Hjif Rt1 eq_refl) as Hstepj.
    destruct b as [|bb| | | | |];
      try (cbn [zsim2]; apply (reaches_stops_at orc prog s sa _ _ Hsimc eq_refl); apply (stops_at_now' orc prog sa _ _ Hstepj (mst_of_setx _ _ _ _ _ _))).
    destruct bb.
    - (* the consequence *)
      set (sb := setx s (v_stack s) (v_slen s) (code_len st2) m1 fin1).
      assert (setm sa (v_stack s) (v_slen sa - 1) (v_ip sa + 3) (mst_of sa) = sb) as Esb.
      { subst sa sb. unfold setm, setx, mst_of. vmcbn2. f_equal; lia. }
      cbn [negb] in Hstepj. rewrite Esb in Hstepj.
      assert (reaches orc prog s sb) as Hsb.
      { apply (reaches_trans orc prog s sa _ Hsimc). apply reaches_step. exact Hstepj. }
      assert (0 <= cur_start (c_loops st2)) as Hst2 by (rewrite Cs2; exact Hst).
      specialize (Hsimt prog lexit Et Hle Hst2 f sb eq_refl). rewrite Cs2 in Hsimt.
      unfold sb in Hsimt at 2. rewrite mst_of_setx in Hsimt. fold names in Hsimt.
      destruct (zstmts orc f names t VNull m1) as [v m2|m2|m2|e|y|]; cbn [zsim2] in *;
        try (destruct Hsimt as [fin2 Hsimt]; exists fin2; apply (reaches_trans orc prog s sb _ Hsb); exact Hsimt);
        try (apply (reaches_stops_at orc prog s sb _ _ Hsb eq_refl); exact Hsimt); try exact I.
      destruct Hsimt as [fin2 Hsimt].
      set (sc := setx sb (v :: v_stack sb) (v_slen sb + 1) (code_len st3) m2 fin2) in *.
      exists fin2. apply (reaches_trans orc prog s sb _ Hsb). apply (reaches_trans orc prog sb sc _ Hsimt).
      destruct Em as [Emc _ _]. cbn [brk_holes flat_map] in Emc.
      pose proof (code_x_at3 _ _ _ _ _ _ _ Emc (holes_free_nil _ _)) as Hjmp.
      apply reaches_step. rewrite (step_jump orc prog sc T2 [] Hjmp Rt2). f_equal. f_equal.
      subst sc sb. unfold setm, setx, mst_of. vmcbn2. rewrite L'. reflexivity.
    - (* the alternative *)
      set (sb := setx s (v_stack s) (v_slen s) (code_len st5) m1 fin1).
      assert (setm sa (v_stack s) (v_slen sa - 1) T1 (mst_of sa) = sb) as Esb.
      { subst sa sb. unfold setm, setx, mst_of. vmcbn2. rewrite L5. f_equal; lia. }
      cbn [negb] in Hstepj. rewrite Esb in Hstepj.
      assert (reaches orc prog s sb) as Hsb.
      { apply (reaches_trans orc prog s sa _ Hsimc). apply reaches_step. exact Hstepj. }
      assert (0 <= cur_start (c_loops st5)) as Hst5 by (rewrite Cs5; exact Hst).
      specialize (Hsima prog lexit Ea Hle Hst5 f sb eq_refl). rewrite Cs5 in Hsima.
      unfold sb in Hsima at 2 3. rewrite !mst_of_setx in Hsima. rewrite L'.
      destruct (match alt with
                | Some bl => zstmts orc f names bl VNull m1
                | None => ZOk VNull m1
                end) as [v m2|m2|m2|e|y|]; cbn [zsim2] in *;
        try (destruct Hsima as [fin2 Hsima]; exists fin2; apply (reaches_trans orc prog s sb _ Hsb); exact Hsima);
        try (apply (reaches_stops_at orc prog s sb _ _ Hsb eq_refl); exact Hsima); exact I.
  Qed.

  Definition zsim_full (prog : program) (s : vm) (pop : bool) (ipend lstart lexit : Z) (r : zres val) : Prop :=
    match r with
    | ZOk v m' => exists fin', reaches orc prog s (setx s (v_stack s) (v_slen s) ipend m' fin')
                               /\ (pop = true -> fin' = v)
    | ZBrk m' => exists fin', reaches orc prog s (setx s (VNull :: v_stack s) (v_slen s + 1) lexit m' fin')
    | ZCnt m' => exists fin', reaches orc prog s (setx s (VNull :: v_stack s) (v_slen s + 1) lstart m' fin')
    | ZErr k mf => stops_at orc prog s (Err k) mf
    | ZFault f mf => stops_at orc prog s (Fault f) mf
    | ZFuel => True
    end.

  Lemma zstmt_mode : forall l st st' outer cur ce nb, zlconcl l st st' outer cur ce nb ->
    forall prog lexit, env_ok prog st st' ce nb lexit -> 0 <= lexit < 65536 ->
    0 <= cur_start (c_loops st) ->
    forall fuel s last, v_ip s = code_len st ->
    zsim_full prog s (ends_pop l) (code_len st') (cur_start (c_loops st)) lexit
             (zstmts orc fuel (flat outer cur) l last (mst_of s)).
  Proof.
    intros l st st' outer cur ce nb [CF [Hlast [Hpop Hsim]]] prog lexit E Hle Hst fuel s last Hip.
    destruct (ends_pop l) eqn:Ep.
    - destruct (Hpop eq_refl) as [[ce' Hce'] Bp].
      pose proof (cf_code _ _ _ _ _ _ CF) as Hcode. rewrite Hce', app_assoc in Hcode.
      destruct (code_len_remove_last st' _ Hcode) as [Hcm Hlm].
      set (stm := remove_last_instruction st') in *.
      assert (code_len stm = code_len st + zlength ce') as Hlen.
      { unfold code_len at 1. rewrite Hcm, zlength_app. reflexivity. }
      rewrite <- Hlm in Bp. rewrite <- (app_nil_r nb), Hce' in E.
      destruct (env_split prog st stm st' ce' _ nb [] lexit (code_len st') Hlen Bp
                  ltac:(cbn [brk_ok]; lia) (cext_eq stm st' eq_refl) E) as [Ec Ep'].
      assert (env_ok prog st st' (canon true ce) nb lexit) as E0.
      { unfold canon. rewrite Hce', removelast_last. exact (env_consts_eq _ _ stm st' _ _ _ eq_refl Ec). }
      specialize (Hsim prog lexit E0 Hle Hst fuel s last Hip).
      destruct (zstmts orc fuel (flat outer cur) l last (mst_of s)) as [v m'|m'|m'|e|y|]; try exact Hsim.
      cbn [zsim_l zsim_full] in *. destruct Hsim as [fin1 Hsim].
      set (sa := setx s (v :: v_stack s) (v_slen s + 1) (code_len st' - 1) m' fin1) in *.
      exists v. split; [|reflexivity]. apply (reaches_trans orc prog s sa _ Hsim). apply reaches_step.
      destruct Ep' as [Epc _ _]. cbn [brk_holes flat_map] in Epc. rewrite Hlm in Epc.
      pose proof (code_x_at1 _ _ _ _ _ Epc (fun x => x)) as Hat.
      rewrite (step_pop orc prog sa v (v_stack s) [] Hat eq_refl). f_equal. f_equal.
      subst sa. unfold setx. vmcbn2. f_equal; lia.
    - specialize (Hsim prog lexit E Hle Hst fuel s last Hip).
      destruct (zstmts orc fuel (flat outer cur) l last (mst_of s)) as [v m'|m'|m'|e|y|]; try exact Hsim.
      cbn [zsim_l zsim_full] in *. destruct Hsim as [fin1 Hsim]. exists fin1. split; [exact Hsim|discriminate].
  Qed.

  (** ** Statement lists *)

  Lemma zlsim_nil : zlsim [].
  Proof.
    intros lp st st' k outer cur HF Hs Hc. cbn [compile_statements] in Hc. inversion Hc; subst st'; clear Hc.
    exists [], []. split; [|split; [intros N; contradiction|split; [intros N; discriminate N|]]].
    - cbn [decl_names]. rewrite app_nil_r. apply (cfacts_emit _ _ outer cur k); auto. rewrite app_nil_r. reflexivity.
    - intros prog lexit _ _ _ fuel s last Hip. destruct fuel as [|f]; [exact I|]. rewrite zs_nil.
      cbn [ends_pop zsim_l]. exists (v_final s). exists O. cbn [steps]. f_equal.
      destruct s; unfold setx, mst_of; cbn in *. subst. reflexivity.
  Qed.


  (** ** One statement in front of a list: the generic step *)

  (* the canonical simulation of something that evaluates as R *)
  Definition zgconcl (pop : bool) (R : nat -> mst -> zres val) (st st' : cstate) (ce nb : list Z) : Prop :=
    (pop = true -> (exists ce', ce = ce' ++ [byte_of_opcode OPop]) /\
                   brk_ok (code_len st) nb (code_len st' - 1)) /\
    forall prog lexit, env_ok prog st st' (canon pop ce) nb lexit -> 0 <= lexit < 65536 ->
    0 <= cur_start (c_loops st) ->
    forall fuel s, v_ip s = code_len st ->
    zsim_l prog s pop (code_len st') (cur_start (c_loops st)) lexit (R fuel (mst_of s)).

  Lemma zstmt_mode_g : forall pop R st st' outer cur ce nb, cfacts st st' outer cur ce nb ->
    zgconcl pop R st st' ce nb ->
    forall prog lexit, env_ok prog st st' ce nb lexit -> 0 <= lexit < 65536 ->
    0 <= cur_start (c_loops st) ->
    forall fuel s, v_ip s = code_len st ->
    zsim_full prog s pop (code_len st') (cur_start (c_loops st)) lexit (R fuel (mst_of s)).
  Proof.
    intros pop R st st' outer cur ce nb CF [Hpop Hsim] prog lexit E Hle Hst fuel s Hip.
    destruct pop.
    - destruct (Hpop eq_refl) as [[ce' Hce'] Bp].
      pose proof (cf_code _ _ _ _ _ _ CF) as Hcode. rewrite Hce', app_assoc in Hcode.
      destruct (code_len_remove_last st' _ Hcode) as [Hcm Hlm].
      set (stm := remove_last_instruction st') in *.
      assert (code_len stm = code_len st + zlength ce') as Hlen.
      { unfold code_len at 1. rewrite Hcm, zlength_app. reflexivity. }
      rewrite <- Hlm in Bp. rewrite <- (app_nil_r nb), Hce' in E.
      destruct (env_split prog st stm st' ce' _ nb [] lexit (code_len st') Hlen Bp
                  ltac:(cbn [brk_ok]; lia) (cext_eq stm st' eq_refl) E) as [Ec Ep'].
      assert (env_ok prog st st' (canon true ce) nb lexit) as E0.
      { unfold canon. rewrite Hce', removelast_last. exact (env_consts_eq _ _ stm st' _ _ _ eq_refl Ec). }
      specialize (Hsim prog lexit E0 Hle Hst fuel s Hip).
      destruct (R fuel (mst_of s)) as [v m'|m'|m'|e|y|]; try exact Hsim.
      cbn [zsim_l zsim_full] in *. destruct Hsim as [fin1 Hsim].
      set (sa := setx s (v :: v_stack s) (v_slen s + 1) (code_len st' - 1) m' fin1) in *.
      exists v. split; [|reflexivity]. apply (reaches_trans orc prog s sa _ Hsim). apply reaches_step.
      destruct Ep' as [Epc _ _]. cbn [brk_holes flat_map] in Epc. rewrite Hlm in Epc.
      pose proof (code_x_at1 _ _ _ _ _ Epc (fun x => x)) as Hat.
      rewrite (step_pop orc prog sa v (v_stack s) [] Hat eq_refl). f_equal. f_equal.
      subst sa. unfold setx. vmcbn2. f_equal; lia.
    - specialize (Hsim prog lexit E Hle Hst fuel s Hip).
      destruct (R fuel (mst_of s)) as [v m'|m'|m'|e|y|]; try exact Hsim.
      cbn [zsim_l zsim_full] in *. destruct Hsim as [fin1 Hsim]. exists fin1. split; [exact Hsim|discriminate].
  Qed.

  Lemma zcons_sim : forall s0 r ph Hd st st1 st' outer cur ce_h nb_h lp,
    cfacts st st1 outer (cur ++ decl_names [s0]) ce_h nb_h ->
    last_instruction_is OPop st1 = ph -> ph = stmt_pop s0 ->
    zgconcl ph Hd st st1 ce_h nb_h ->
    (forall f last m, zstmts orc (S f) (flat outer cur) (s0 :: r) last m =
                      zbind (Hd f m) (fun v m1 => zstmts orc f (flat outer (cur ++ decl_names [s0])) r v m1)) ->
    zlsim r -> f2b lp r = true -> compile_statements r st1 = Ok st' ->
    exists ce nb, zlconcl (s0 :: r) st st' outer cur ce nb.
  Proof.
    intros s0 r ph Hd st st1 st' outer cur ce_h nb_h lp CFh Hlast Hph Gh Heq IHr HFr Hc.
    destruct (cf_syms _ _ _ _ _ _ CFh) as [k1 Hs1].
    destruct r as [|s1 r'].
    - (* the last statement: its canonical form is the list's *)
      cbn [compile_statements] in Hc. inversion Hc; subst st'; clear Hc.
      exists ce_h, nb_h. destruct Gh as [Gpop Gsim].
      split; [|split; [|split]].
      + rewrite decl_names_cons. cbn [decl_names]. rewrite app_nil_r. exact CFh.
      + intros _. cbn [ends_pop]. rewrite Hlast. exact Hph.
      + cbn [ends_pop]. rewrite <- Hph. exact Gpop.
      + intros prog lexit E Hle Hst fuel s last Hip. cbn [ends_pop] in *. rewrite <- Hph in *.
        destruct fuel as [|f]; [exact I|]. rewrite Heq.
        specialize (Gsim prog lexit E Hle Hst f s Hip).
        destruct (Hd f (mst_of s)) as [v m1|m1|m1|e|y|]; cbn [zbind]; try exact Gsim.
        destruct f as [|f']; [exact I|]. rewrite zs_nil. exact Gsim.
    - (* more statements follow: the head in statement mode, then the rest *)
      destruct (IHr lp st1 st' k1 outer (cur ++ decl_names [s0]) HFr Hs1 Hc) as [ce_r [nb_r Lr]].
      pose proof Lr as [CFr [Hlastr [Hpopr Hsimr]]].
      exists (ce_h ++ ce_r), (nb_h ++ nb_r).
      pose proof (cfacts_trans _ _ _ _ _ _ _ _ _ _ CFh CFr) as CF.
      split; [|split; [|split]].
      + rewrite decl_names_cons, app_assoc. exact CF.
      + intros _. rewrite ends_pop_cons2. apply Hlastr. discriminate.
      + rewrite ends_pop_cons2. intros Ep. destruct (Hpopr Ep) as [[ce' Hce'] Bp]. split.
        * exists (ce_h ++ ce'). rewrite Hce', app_assoc. reflexivity.
        * apply (brk_ok_app _ _ _ (code_len st1)); [exact (cf_brk _ _ _ _ _ _ CFh)|exact Bp].
      + intros prog lexit E Hle Hst fuel s last Hip. rewrite ends_pop_cons2 in *.
        assert (canon (ends_pop (s1 :: r')) (ce_h ++ ce_r) = ce_h ++ canon (ends_pop (s1 :: r')) ce_r) as Ecanon.
        { unfold canon. destruct (ends_pop (s1 :: r')) eqn:Ep; [|reflexivity].
          destruct (Hpopr eq_refl) as [[ce' Hce'] _]. apply removelast_app. rewrite Hce'.
          destruct ce'; discriminate. }
        rewrite Ecanon in E.
        destruct (env_split prog st st1 st' ce_h _ nb_h nb_r lexit _ (cfacts_len _ _ _ _ _ _ CFh)
                    (cf_brk _ _ _ _ _ _ CFh) (cf_brk _ _ _ _ _ _ CFr) (cext_cfacts _ _ _ _ _ _ CFr) E) as [Eh Er].
        destruct fuel as [|f]; [exact I|]. rewrite Heq.
        pose proof (zstmt_mode_g ph Hd st st1 outer _ ce_h nb_h CFh Gh prog lexit Eh Hle Hst f s Hip) as Hh.
        destruct (Hd f (mst_of s)) as [v m1|m1|m1|e|y|]; cbn [zbind]; try exact Hh.
        cbn [zsim_full] in Hh. destruct Hh as [fin1 [Hh _]].
        set (sb := setx s (v_stack s) (v_slen s) (code_len st1) m1 fin1) in *.
        assert (0 <= cur_start (c_loops st1)) as Hst1.
        { rewrite (cf_loops _ _ _ _ _ _ CFh), cur_start_add. exact Hst. }
        specialize (Hsimr prog lexit Er Hle Hst1 f sb v eq_refl).
        rewrite (cf_loops _ _ _ _ _ _ CFh), cur_start_add in Hsimr.
        unfold sb in Hsimr at 2. rewrite mst_of_setx in Hsimr.
        destruct (zstmts orc f (flat outer (cur ++ decl_names [s0])) (s1 :: r') v m1) as [v2 m2|m2|m2|e|y|];
          cbn [zsim_l] in *;
          try (destruct Hsimr as [fin2 Hsimr]; exists fin2; apply (reaches_trans orc prog s sb _ Hh); exact Hsimr);
          try (apply (reaches_stops_at orc prog s sb _ _ Hh eq_refl); exact Hsimr); try exact I.
        destruct (ends_pop (s1 :: r')); destruct Hsimr as [fin2 Hsimr]; exists fin2;
          apply (reaches_trans orc prog s sb _ Hh); exact Hsimr.
  Qed.

  Lemma zssim_expr : forall e, zesim e -> zssim (SExpr e).
  Proof.
    intros e IHe r IHr lp st st' k outer cur HF Hs Hc.
    rewrite f2b_cons in HF. apply andb_prop in HF. destruct HF as [HFe HFr]. cbn [f2s] in HFe.
    cbn [compile_statements] in Hc. apply bind_ok in Hc. destruct Hc as [st2 [H2 Hc]].
    rewrite cs_expr in H2. apply bind_ok in H2. destruct H2 as [st1 [H1 H2]]. inversion H2; subst st2; clear H2.
    destruct (IHe lp st st1 k outer cur HFe Hs H1) as [ce_e [nb_e [CFe Hsime]]].
    destruct (cf_syms _ _ _ _ _ _ CFe) as [k1 Hs1].
    pose proof (cfacts_emit_opcode OPop st1 outer cur k1 Hs1) as CFp.
    pose proof (cfacts_trans _ _ _ _ _ _ _ _ _ _ CFe CFp) as CFh. rewrite app_nil_r in CFh.
    apply (zcons_sim (SExpr e) r true (fun f m => zeval orc f (flat outer cur) e m)
                    st (emit_opcode OPop st1) st' outer cur (ce_e ++ [byte_of_opcode OPop]) nb_e lp);
      try assumption; try reflexivity.
    - cbn [decl_names]. rewrite app_nil_r. exact CFh.
    - split.
      + intros _. split; [exists ce_e; reflexivity|]. rewrite code_len_emit_opcode.
        replace (code_len st1 + 1 - 1) with (code_len st1) by lia. exact (cf_brk _ _ _ _ _ _ CFe).
      + intros prog lexit E Hle Hst fuel s Hip. unfold canon in E. rewrite removelast_last in E.
        assert (env_ok prog st st1 ce_e nb_e lexit) as Ee.
        { destruct E as [A1 A2 A3]. constructor; assumption. }
        specialize (Hsime prog lexit Ee Hle Hst fuel s Hip). rewrite code_len_emit_opcode.
        destruct (zeval orc fuel (flat outer cur) e (mst_of s)); try exact Hsime.
        cbn [zsim_l zsim2] in *. replace (code_len st1 + 1 - 1) with (code_len st1) by lia. exact Hsime.
    - intros f last m. rewrite zs_expr. cbn [decl_names]. rewrite app_nil_r. reflexivity.
  Qed.

  Lemma zssim_let : forall x e, zesim e -> zssim (SLet x e).
  Proof.
    intros x e IHe r IHr lp st st' k outer cur HF Hs Hc.
    rewrite f2b_cons in HF. apply andb_prop in HF. destruct HF as [HFe HFr]. cbn [f2s] in HFe.
    apply andb_prop in HFe. destruct HFe as [HFe _].
    cbn [compile_statements] in Hc. apply bind_ok in Hc. destruct Hc as [st2 [H2 Hc]].
    rewrite cs_let, Hs, define_stab in H2.
    set (st0 := set_symbols st (stab (S k) outer (cur ++ [x]))) in *.
    apply bind_ok in H2. destruct H2 as [st1 [H1 H2]]. unfold scoped in H2. cbn [s_scope] in H2.
    destruct (IHe false st0 st1 (S k) outer (cur ++ [x]) HFe eq_refl H1) as [ce_e [nb_e [CFe0 Hsime]]].
    pose proof (cfacts_in _ _ _ _ _ _ _ CFe0) as CFe.
    destruct (cf_syms _ _ _ _ _ _ CFe) as [k1 Hs1].
    destruct (cfacts_emit_sym _ _ _ _ outer (cur ++ [x]) k1 Hs1 H2) as [Hr CFs]. cbn [s_index] in Hr, CFs.
    set (n := length (flat outer cur)) in *. set (idx := Z.of_nat n) in *.
    pose proof (cfacts_trans _ _ _ _ _ _ _ _ _ _ CFe CFs) as CFh. rewrite app_nil_r in CFh.
    set (names := flat outer cur) in *.
    apply (zcons_sim (SLet x e) r false
             (fun f m => zbind (zeval orc f (names ++ [x]) e m) (fun v m1 => ZOk VNull (set_global_m n v m1)))
             st st2 st' outer cur
             (ce_e ++ [byte_of_opcode OSetGlobal; idx mod 256; (idx / 256) mod 256]) nb_e lp);
      try assumption; try reflexivity.
    - unfold last_instruction_is. rewrite (emit_sym_last _ _ _ _ H2). reflexivity.
    - split; [intros N; discriminate N|].
      intros prog lexit E Hle Hst fuel s Hip. unfold canon in E.
      rewrite <- (app_nil_r nb_e) in E.
      destruct (env_split prog st st1 st2 ce_e _ nb_e [] lexit (code_len st2) (cfacts_len _ _ _ _ _ _ CFe)
                  (cf_brk _ _ _ _ _ _ CFe) (cf_brk _ _ _ _ _ _ CFs) (cext_cfacts _ _ _ _ _ _ CFs) E) as [Ee Es].
      specialize (Hsime prog lexit (env_in _ _ _ _ _ _ _ Ee) Hle Hst fuel s Hip).
      change (cur_start (c_loops st0)) with (cur_start (c_loops st)) in Hsime.
      rewrite flat_snoc in Hsime. fold names in Hsime.
      destruct (zeval orc fuel (names ++ [x]) e (mst_of s)) as [v m1|m1|m1|e1|y|] eqn:E1; cbn [zbind];
        try exact Hsime; try (znosig_contra fuel e (names ++ [x]) (mst_of s) HFe E1).
      cbn [zsim2 zsim_l] in *. destruct Hsime as [fin1 Hsime].
      set (sa := setx s (v :: v_stack s) (v_slen s + 1) (code_len st1) m1 fin1) in *.
      exists fin1. apply (reaches_trans orc prog s sa _ Hsime). apply reaches_step.
      destruct Es as [Esc _ _]. cbn [brk_holes flat_map] in Esc.
      pose proof (code_x_at3 _ _ _ _ _ _ _ Esc (holes_free_nil _ _)) as Hat.
      rewrite (step_set_global orc prog sa idx v (v_stack s) [] Hat Hr eq_refl). f_equal. f_equal.
      pose proof (cfacts_len _ _ _ _ _ _ CFs) as Ls. rewrite zlength3 in Ls.
      subst sa idx. unfold setm, setx, mst_of, set_global_m. vmcbn2. rewrite Nat2Z.id, Ls. f_equal; lia.
    - intros f last m. rewrite zs_let. cbn [decl_names]. rewrite flat_snoc. fold names. fold n.
      destruct (zeval orc f (names ++ [x]) e m); reflexivity.
  Qed.

  Lemma zssim_break : zssim SBreak.
  Proof.
    intros r IHr lp st st' k outer cur HF Hs Hc.
    rewrite f2b_cons in HF. apply andb_prop in HF. destruct HF as [_ HFr].
    cbn [compile_statements] in Hc. apply bind_ok in Hc. destruct Hc as [st2 [H2 Hc]].
    pose proof (break_last _ _ H2) as Hlast.
    destruct (break_innermost _ _ H2) as [outer_l [ctx [Hl [Hl2 [Hcode [Hsy Hk]]]]]].
    set (ip := code_len st + 1) in *.
    assert (code_len st2 = code_len st + 4) as L2.
    { rewrite (code_len_app _ _ _ Hcode). reflexivity. }
    assert (cfacts st st2 outer cur break_code [ip]) as CFh.
    { constructor.
      - exists k. congruence.
      - exact Hcode.
      - apply cext_eq. exact Hk.
      - rewrite Hl2, Hl, add_breaks_snoc. reflexivity.
      - intros N. rewrite N in Hl. destruct outer_l; discriminate Hl.
      - cbn [brk_ok]. unfold ip. lia. }
    apply (zcons_sim SBreak r false (fun f m => ZBrk m) st st2 st' outer cur break_code [ip] lp);
      try assumption; try reflexivity.
    - cbn [decl_names]. rewrite app_nil_r. exact CFh.
    - unfold last_instruction_is. rewrite Hlast. reflexivity.
    - split; [intros N; discriminate N|].
      intros prog lexit [E1 _ E3] Hle _ fuel s Hip. cbn [zsim_l]. unfold canon in E1.
      destruct E1 as [E0 E1]. rewrite <- Hip in E1.
      assert (~ In (v_ip s) (brk_holes [ip])) as Hn0.
      { cbn [brk_holes flat_map app In]. unfold ip. rewrite Hip. lia. }
      assert (~ In (v_ip s + 1) (brk_holes [ip])) as Hn1.
      { cbn [brk_holes flat_map app In]. unfold ip. rewrite Hip. lia. }
      pose proof (E1 0%nat _ eq_refl) as B0. rewrite Z.add_0_r in B0. specialize (B0 Hn0).
      pose proof (E1 1%nat _ eq_refl Hn1) as B1. change (Z.of_nat 1) with 1 in B1.
      destruct (E3 ip (or_introl eq_refl)) as [B2 B3].
      exists (v_final s).
      pose proof (step_null orc prog s [] (code_at_bytes1 _ _ _ B0)) as Hstep1.
      apply (reaches_trans orc prog s _ _ (reaches_step orc prog _ _ Hstep1)).
      set (sa := setm s (VNull :: v_stack s) (v_slen s + 1) (v_ip s + 1) (mst_of s)) in *.
      assert (ip = v_ip sa) as Hipa by (unfold ip; rewrite <- Hip; reflexivity).
      rewrite Hipa in B2, B3. change (v_ip s + 1) with (v_ip sa) in B1.
      apply reaches_step. rewrite (step_jump orc prog sa lexit [] (code_at_bytes3 _ _ _ _ _ B1 B2 B3) Hle).
      reflexivity.
  Qed.

  Lemma zssim_continue : zssim SContinue.
  Proof.
    intros r IHr lp st st' k outer cur HF Hs Hc.
    rewrite f2b_cons in HF. apply andb_prop in HF. destruct HF as [_ HFr].
    cbn [compile_statements] in Hc. apply bind_ok in Hc. destruct Hc as [st2 [H2 Hc]].
    pose proof (continue_last _ _ H2) as Hlast.
    destruct (continue_innermost _ _ H2) as [outer_l [ctx [Hl [Hl2 [Hlt [Hcode [Hsy Hk]]]]]]].
    assert (cur_start (c_loops st) = l_start ctx) as Hcs by (rewrite Hl; apply cur_start_snoc).
    set (T := l_start ctx) in *.
    pose proof (cfacts_emit st st2 outer cur k _ Hs Hsy Hk Hl2 Hcode) as CFh.
    apply (zcons_sim SContinue r false (fun f m => ZCnt m) st st2 st' outer cur
             [byte_of_opcode ONull; byte_of_opcode OJump; T mod 256; (T / 256) mod 256] [] lp);
      try assumption; try reflexivity.
    - cbn [decl_names]. rewrite app_nil_r. exact CFh.
    - unfold last_instruction_is. rewrite Hlast. reflexivity.
    - split; [intros N; discriminate N|].
      intros prog lexit [E1 _ _] _ Hst fuel s Hip. cbn [zsim_l]. unfold canon in E1.
      cbn [brk_holes flat_map] in E1. rewrite <- Hip in E1.
      change [byte_of_opcode ONull; byte_of_opcode OJump; T mod 256; (T / 256) mod 256]
        with ([byte_of_opcode ONull] ++ [byte_of_opcode OJump; T mod 256; (T / 256) mod 256]) in E1.
      apply code_x_app in E1. destruct E1 as [Ea Eb].
      exists (v_final s).
      pose proof (step_null orc prog s [] (code_x_at1 _ _ _ _ _ Ea (fun x => x))) as Hstep1.
      apply (reaches_trans orc prog s _ _ (reaches_step orc prog _ _ Hstep1)).
      set (sa := setm s (VNull :: v_stack s) (v_slen s + 1) (v_ip s + 1) (mst_of s)) in *.
      change (v_ip s + zlength [byte_of_opcode ONull]) with (v_ip sa) in Eb.
      assert (0 <= T < 65536) as RT by (rewrite <- Hcs; change (2 ^ 16) with 65536 in Hlt; rewrite Hcs; lia).
      apply reaches_step.
      rewrite (step_jump orc prog sa T [] (code_x_at3 _ _ _ _ _ _ _ Eb (holes_free_nil _ _)) RT).
      rewrite Hcs. reflexivity.
  Qed.

  Lemma zssim_block : forall b, zlsim b -> zssim (SBlock b).
  Proof.
    intros b IHb r IHr lp st st' k outer cur HF Hs Hc.
    rewrite f2b_cons in HF. apply andb_prop in HF. destruct HF as [HFb HFr]. rewrite f2s_block in HFb.
    cbn [compile_statements] in Hc. apply bind_ok in Hc. destruct Hc as [st2 [H2 Hc]].
    rewrite cs_block in H2. set (names := flat outer cur) in *.
    destruct b as [|s0 b'].
    - (* the empty block: Null; Pop *)
      cbn [is_nil] in H2. inversion H2; subst st2; clear H2.
      pose proof (cfacts_emit_opcode ONull st outer cur k Hs) as CF1.
      pose proof (cfacts_emit_opcode OPop (emit_opcode ONull st) outer cur k Hs) as CF2.
      pose proof (cfacts_trans _ _ _ _ _ _ _ _ _ _ CF1 CF2) as CFh. cbn [app] in CFh.
      apply (zcons_sim (SBlock []) r true (fun f m => zstmts orc f names [] VNull m)
               st (emit_opcode OPop (emit_opcode ONull st)) st' outer cur
               [byte_of_opcode ONull; byte_of_opcode OPop] [] lp);
        try assumption; try reflexivity.
      + cbn [decl_names]. rewrite app_nil_r. exact CFh.
      + split.
        * intros _. split; [exists [byte_of_opcode ONull]; reflexivity|]. cbn [brk_ok].
          rewrite !code_len_emit_opcode. lia.
        * intros prog lexit [E1 _ _] _ _ fuel s Hip. destruct fuel as [|f]; [exact I|]. rewrite zs_nil.
          cbn [zsim_l]. unfold canon in E1. cbn [removelast brk_holes flat_map] in E1. rewrite <- Hip in E1.
          exists (v_final s). apply reaches_step.
          rewrite (step_null orc prog s [] (code_x_at1 _ _ _ _ _ E1 (fun x => x))), setm_setx.
          f_equal. f_equal. apply setx_eq; [reflexivity|]. rewrite !code_len_emit_opcode, Hip. lia.
      + intros f last m. rewrite zs_block. cbn [decl_names]. rewrite app_nil_r. reflexivity.
    - cbn [is_nil] in H2. apply bind_ok in H2. destruct H2 as [st1 [H1 H2]]. inversion H2; subst st2; clear H2.
      set (st0 := set_symbols st (enter_scope (c_symbols st))) in *.
      assert (c_symbols st0 = stab k (outer ++ [cur]) []) as Hs0
        by (unfold st0; cbn [set_symbols c_symbols]; rewrite Hs; reflexivity).
      destruct (IHb lp st0 st1 k (outer ++ [cur]) [] HFb Hs0 H1) as [ce [nb [CFb [Hlastb [Hpopb Hsimb]]]]].
      destruct (cf_syms _ _ _ _ _ _ CFb) as [k1 S1]. cbn [app] in S1.
      set (st1' := set_symbols st1 (leave_scope (c_symbols st1))) in *.
      assert (leave_scope (c_symbols st1) = stab k1 outer cur) as Hleave by (rewrite S1; apply leave_stab).
      pose proof (cfacts_out _ _ _ _ _ outer cur k1 _ _ (cfacts_in _ _ _ _ _ _ _ CFb) Hleave) as CFh.
      fold st1' in CFh.
      apply (zcons_sim (SBlock (s0 :: b')) r (ends_pop (s0 :: b'))
               (fun f m => zstmts orc f names (s0 :: b') VNull m) st st1' st' outer cur ce nb lp);
        try assumption.
      + cbn [decl_names]. rewrite app_nil_r. exact CFh.
      + rewrite <- Hlastb by discriminate. reflexivity.
      + rewrite stmt_pop_block. reflexivity.
      + split.
        * intros Ep. exact (Hpopb Ep).
        * intros prog lexit E Hle Hst fuel s Hip.
          specialize (Hsimb prog lexit (env_in _ _ _ _ _ _ _ (env_out _ _ _ _ _ _ _ E)) Hle Hst fuel s VNull Hip).
          rewrite flat_enter in Hsimb. exact Hsimb.
      + intros f last m. rewrite zs_block. cbn [decl_names]. rewrite app_nil_r. reflexivity.
  Qed.

  Definition zloop_post (prog : program) (s sh : vm) (lexit : Z) (r : zres val) : Prop :=
    match r with
    | ZOk v m' => exists fin', reaches orc prog sh (setx s (v :: v_stack s) (v_slen s + 1) lexit m' fin')
    | ZBrk _ | ZCnt _ => False
    | ZErr k mf => stops_at orc prog sh (Err k) mf
    | ZFault f mf => stops_at orc prog sh (Fault f) mf
    | ZFuel => True
    end.

  Lemma zesim_while : forall c body, zesim c -> zlsim body -> zesim (EWhile c body).
  Proof.
    intros c body IHc IHb lp st st' k outer cur HF Hs Hc.
    rewrite f2e_while in HF. apply andb_prop in HF. destruct HF as [Hfc Hfb].
    rewrite ce_while in Hc. cbv zeta in Hc.
    set (st1 := emit_opcode ONull st) in *.
    pose proof (code_len_emit_opcode ONull st) as L1. fold st1 in L1.
    set (start := code_len st1) in *.
    set (st2 := set_loops st1 (c_loops st1 ++ [mkLoop start []])) in *.
    apply bind_ok in Hc. destruct Hc as [st3 [H3 Hc]].
    apply bind_ok in Hc. destruct Hc as [st5 [H5 Hc]].
    apply bind_ok in Hc. destruct Hc as [back [Hb Hc]].
    apply bind_ok in Hc. destruct Hc as [target [Ht Hc]].
    apply bind_ok in Hc. destruct Hc as [st8 [H8 Hc]].
    assert (c_symbols st2 = stab k outer cur) as Hs2 by exact Hs.
    destruct (IHc false st2 st3 k outer cur Hfc Hs2 H3) as [ce_c [nb_c [CF3 Hsimc]]].
    destruct (cf_syms _ _ _ _ _ _ CF3) as [k3 Hs3].
    set (PHlo := JUMP_PLACEHOLDER mod 256) in *. set (PHhi := (JUMP_PLACEHOLDER / 256) mod 256) in *.
    set (st4 := emit_opcode OPop (emit_u16 JUMP_PLACEHOLDER (emit_opcode OJumpIfFalse st3))) in *.
    assert (cfacts st3 st4 outer cur [byte_of_opcode OJumpIfFalse; PHlo; PHhi; byte_of_opcode OPop] []) as CF34.
    { apply (cfacts_emit _ _ outer cur k3); auto. unfold st4. cbn [emit_opcode emit_u16 c_code].
      rewrite <- !app_assoc. reflexivity. }
    assert (c_symbols st4 = stab k3 outer cur) as Hs4 by exact Hs3.
    destruct (zbv_sim body IHb true st4 st5 k3 outer cur Hfb Hs4 H5) as [ce_b [nb_b [CF5 Hsimb]]].
    destruct (cf_syms _ _ _ _ _ _ CF5) as [k5 Hs5].
    destruct (operand16_code_len _ _ Hb) as [-> Rs]. clear Hb.
    set (st7 := emit_u16 start (emit_opcode OJump st5)) in *.
    pose proof (cfacts_emit_u16op OJump start st5 outer cur k5 Hs5) as CF57. fold st7 in CF57.
    destruct (operand16_code_len _ _ Ht) as [-> Re]. clear Ht.
    set (lexit_in := code_len st7) in *.
    pose proof (cfacts_trans _ _ _ _ _ _ _ _ _ _ CF3 (cfacts_trans _ _ _ _ _ _ _ _ _ _ CF34
                 (cfacts_trans _ _ _ _ _ _ _ _ _ _ CF5 CF57))) as CF27.
    set (jmp3 := [byte_of_opcode OJump; start mod 256; (start / 256) mod 256]) in *.
    set (nbi := nb_c ++ nb_b).
    assert (cfacts st2 st7 outer cur
              (ce_c ++ byte_of_opcode OJumpIfFalse :: PHlo :: PHhi :: (byte_of_opcode OPop :: ce_b ++ jmp3)) nbi) as CF27'.
    { apply (cfacts_eq _ _ _ _ _ _ _ _ CF27); unfold nbi; cbn [app]; rewrite ?app_nil_r; reflexivity. }
    clear CF27.
    pose proof (cfacts_len _ _ _ _ _ _ CF3) as L3. rewrite L3 in H8.
    destruct (cfacts_patch_at _ _ _ _ _ _ _ _ _ _ _ lexit_in CF27' H8) as [CF28 [L8 _]].
    set (jif4 := [byte_of_opcode OJumpIfFalse; lexit_in mod 256; (lexit_in / 256) mod 256; byte_of_opcode OPop]) in *.
    set (W8 := ce_c ++ jif4 ++ ce_b ++ jmp3).
    assert (cfacts st2 st8 outer cur W8 nbi) as CF28' by exact CF28. clear CF28.
    (* the innermost context is popped *)
    pose proof (cf_loops _ _ _ _ _ _ CF28') as Lp8.
    assert (c_loops st2 = c_loops st ++ [mkLoop start []]) as Lp2 by reflexivity.
    rewrite Lp2, add_breaks_snoc in Lp8. cbn [l_start l_breaks app] in Lp8.
    rewrite Lp8, rev_unit in Hc. cbn [l_breaks] in Hc. rewrite rev_involutive in Hc.
    pose proof (cf_brk _ _ _ _ _ _ CF28') as B28.
    assert (0 <= code_len st2) as Hpos2 by apply code_len_nonneg.
    assert (Forall (fun ip => 0 <= ip) nbi) as Hposn.
    { apply Forall_forall. intros ip Hin. destruct (brk_ok_in _ _ _ _ B28 Hin). lia. }
    destruct (patch_breaks_spec _ _ _ Hposn Hc) as [P1 [P2 [P3 [P4 [P5 [_ P7]]]]]].
    cbn [set_loops c_symbols c_constants c_loops c_last c_code] in P1, P2, P3, P5, P7.
    assert (code_len (set_loops st8 (c_loops st)) = lexit_in) as Lx by (unfold lexit_in; rewrite <- L8; reflexivity).
    rewrite Lx in P7.
    pose proof (cf_code _ _ _ _ _ _ CF28') as C8.
    assert (c_code st2 = c_code st ++ [byte_of_opcode ONull]) as C2 by reflexivity.
    rewrite C2, <- app_assoc in C8. set (W8f := [byte_of_opcode ONull] ++ W8) in *.
    assert (code_len st2 = code_len st + 1) as L2 by exact L1.
    assert (forall ip, In ip nbi -> (length (c_code st) <= Z.to_nat ip)%nat) as Hpre.
    { intros ip Hin. destruct (brk_ok_in _ _ _ _ B28 Hin) as [Q _]. unfold code_len, zlength in L2, Q. lia. }
    rewrite C8 in P7. destruct (wt_prefix lexit_in nbi (c_code st) W8f Hpre) as [W' [EW' LW']].
    rewrite EW' in P7.
    assert (code_len st' = lexit_in) as L'.
    { rewrite <- Lx. apply code_len_length. exact P5. }
    (* constants *)
    assert (cext st2 st8) as X28 by exact (cext_cfacts _ _ _ _ _ _ CF28').
    assert (cext st8 st') as X8' by (apply cext_eq; exact P2).
    assert (cext st2 st') as X2' by exact (cext_trans _ _ _ X28 X8').
    exists W', []. split.
    { constructor.
      - destruct (cf_syms _ _ _ _ _ _ CF28') as [k8 Hs8]. exists k8. congruence.
      - exact P7.
      - exact (cext_trans st st2 st' (cext_eq st st2 eq_refl) X2').
      - rewrite add_breaks_nil. exact P3.
      - reflexivity.
      - cbn [brk_ok]. rewrite L'. unfold lexit_in. rewrite (cfacts_len _ _ _ _ _ _ CF57).
        pose proof (brk_ok_le _ _ _ (cf_brk _ _ _ _ _ _ CF5)). pose proof (brk_ok_le _ _ _ (cf_brk _ _ _ _ _ _ CF34)).
        pose proof (brk_ok_le _ _ _ (cf_brk _ _ _ _ _ _ CF3)). unfold jmp3. rewrite zlength3. lia. }
    (* the run *)
    intros prog lexit E Hle Hst fuel s Hip. destruct fuel as [|f]; [exact I|].
    rewrite ze_while. set (names := flat outer cur) in *.
    destruct E as [[E0 Ecode] Econsts _].
    (* the final program, seen as the unpatched loop code with the stop jumps pending *)
    assert (forall i b, nth_error W8f i = Some b -> ~ In (code_len st + Z.of_nat i) (brk_holes nbi) ->
                        byte_at prog (code_len st + Z.of_nat i) = Some b) as Hbytes.
    { intros i b Hi Hn. apply Ecode; [|intros []].
      assert (nth_error (c_code st') (length (c_code st) + i) = Some b) as Hc'.
      { rewrite P7, <- EW'. rewrite wt_other.
        - rewrite nth_error_app2 by lia. replace (length (c_code st) + i - length (c_code st))%nat with i by lia.
          exact Hi.
        - intros ip Hin. pose proof (Hpre ip Hin) as Q. destruct (brk_ok_in _ _ _ _ B28 Hin) as [Q1 _].
          assert (~ (code_len st + Z.of_nat i = ip + 1 \/ code_len st + Z.of_nat i = ip + 2)) as Hn'.
          { intros Hor. apply Hn. apply in_brk_holes. exists ip. split; [exact Hin|exact Hor]. }
          unfold code_len, zlength in Hn'. lia. }
      rewrite P7, nth_error_app2 in Hc' by lia.
      replace (length (c_code st) + i - length (c_code st))%nat with i in Hc' by lia. exact Hc'. }
    assert (brk_target prog nbi lexit_in) as Htarget.
    { intros ip Hin. destruct (brk_ok_in _ _ _ _ B28 Hin) as [Q1 Q2]. pose proof (Hpre ip Hin) as Q.
      assert (lexit_in <= Z.of_nat (length (c_code st ++ W8f))) as Hhi.
      { rewrite <- C8. unfold lexit_in. rewrite <- L8. unfold code_len, zlength. lia. }
      rewrite L8 in B28. fold lexit_in in B28.
      destruct (wt_at lexit_in nbi _ _ (c_code st ++ W8f) ip B28 Hpos2 Hhi Hin) as [A1 A2].
      rewrite EW' in A1, A2.
      rewrite nth_error_app2 in A1, A2 by lia.
      pose proof (Ecode _ _ A1 (fun x => match x with end)) as B1.
      pose proof (Ecode _ _ A2 (fun x => match x with end)) as B2.
      unfold code_len, zlength in B1, B2, L2, Q1.
      replace (Z.of_nat (length (c_code st)) + Z.of_nat (Z.to_nat ip + 1 - length (c_code st))) with (ip + 1) in B1 by lia.
      replace (Z.of_nat (length (c_code st)) + Z.of_nat (Z.to_nat ip + 2 - length (c_code st))) with (ip + 2) in B2 by lia.
      split; assumption. }
    assert (env_ok prog st st' W8f ([] ++ nbi) lexit_in) as E8.
    { constructor; [split; [exact E0|exact Hbytes]|exact Econsts|exact Htarget]. }
    (* the pieces *)
    pose proof (cf_brk _ _ _ _ _ _ CF3) as B3. pose proof (cf_brk _ _ _ _ _ _ CF5) as B5.
    pose proof (cfacts_len _ _ _ _ _ _ CF34) as L4. pose proof (cfacts_len _ _ _ _ _ _ CF5) as L5.
    pose proof (cfacts_len _ _ _ _ _ _ CF57) as L7. unfold jmp3 in L7. rewrite zlength3 in L7.
    change (zlength [byte_of_opcode OJumpIfFalse; PHlo; PHhi; byte_of_opcode OPop]) with 4 in L4.
    assert (brk_ok (code_len st2) nbi (code_len st5)) as B25.
    { apply (brk_ok_app _ _ _ (code_len st3) _ B3). apply (brk_ok_widen _ _ _ _ _ B5); lia. }
    assert (code_len st2 = code_len st + zlength [byte_of_opcode ONull]) as L2' by exact L2.
    destruct (env_split prog st st2 st' [byte_of_opcode ONull] W8 [] nbi lexit_in _ L2'
                ltac:(cbn [brk_ok]; lia) B25 X2' E8) as [Enull E2].
    assert (0 <= code_len st2 + zlength ce_c) as Hp8 by (rewrite <- L3; apply code_len_nonneg).
    assert (cext st3 st') as X3'.
    { apply (cext_trans _ st4); [exact (cext_cfacts _ _ _ _ _ _ CF34)|].
      apply (cext_trans _ st5); [exact (cext_cfacts _ _ _ _ _ _ CF5)|].
      apply (cext_trans _ st7); [exact (cext_cfacts _ _ _ _ _ _ CF57)|].
      apply (cext_trans _ st8); [apply cext_eq|exact X8'].
      exact (proj1 (proj2 (change_jump_spec _ _ _ _ Hp8 H8))). }
    assert (cext st4 st') as X4'.
    { destruct X3' as [kx [A B]]. exists kx. split; [exact A|exact B]. }
    assert (cext st5 st') as X5'.
    { apply (cext_trans _ st7); [exact (cext_cfacts _ _ _ _ _ _ CF57)|].
      apply (cext_trans _ st8); [apply cext_eq|exact X8'].
      exact (proj1 (proj2 (change_jump_spec _ _ _ _ Hp8 H8))). }
    assert (brk_ok (code_len st3) nb_b (code_len st5)) as B35 by (apply (brk_ok_widen _ _ _ _ _ B5); lia).
    destruct (env_split prog st2 st3 st' ce_c _ nb_c nb_b lexit_in _ L3 B3 B35 X3' E2) as [Ec E3].
    assert (code_len st4 = code_len st3 + zlength jif4) as L4' by exact L4.
    destruct (env_split prog st3 st4 st' jif4 _ [] nb_b lexit_in _ L4'
                ltac:(cbn [brk_ok]; lia) B5 X4' E3) as [Ejif E4].
    rewrite <- (app_nil_r nb_b) in E4.
    destruct (env_split prog st4 st5 st' ce_b jmp3 nb_b [] lexit_in (code_len st') L5 B5
                ltac:(cbn [brk_ok]; lia) X5' E4) as [Eb Ejmp].
    (* instructions of the loop skeleton *)
    destruct Enull as [Enullc _ _]. cbn [brk_holes flat_map] in Enullc.
    pose proof (code_x_at1 _ _ _ _ _ Enullc (fun x => x)) as Hnull.
    destruct Ejif as [Ejifc _ _]. cbn [brk_holes flat_map] in Ejifc.
    change jif4 with ([byte_of_opcode OJumpIfFalse; lexit_in mod 256; (lexit_in / 256) mod 256] ++ [byte_of_opcode OPop]) in Ejifc.
    apply code_x_app in Ejifc. destruct Ejifc as [Ejc Epc]. rewrite zlength3 in Epc.
    pose proof (code_x_at3 _ _ _ _ _ _ _ Ejc (holes_free_nil _ _)) as Hjif.
    pose proof (code_x_at1 _ _ _ _ _ Epc (fun x => x)) as Hpop.
    destruct Ejmp as [Ejmpc _ _]. cbn [brk_holes flat_map] in Ejmpc.
    pose proof (code_x_at3 _ _ _ _ _ _ _ Ejmpc (holes_free_nil _ _)) as Hjmp.
    (* loop contexts of the pieces *)
    assert (cur_start (c_loops st2) = start) as Cs2 by (rewrite Lp2; apply cur_start_snoc).
    assert (cur_start (c_loops st4) = start) as Cs4.
    { change (c_loops st4) with (c_loops st3). rewrite (cf_loops _ _ _ _ _ _ CF3), cur_start_add. exact Cs2. }
    assert (0 <= start) as Hstart by lia.
    (* the loop invariant *)
    set (stk := v_stack s). set (n := v_slen s).
    assert (forall fuel lastv m fin,
              zloop_post prog s (setx s (lastv :: stk) (n + 1) start m fin) lexit_in
                        (zwhile orc fuel names c body lastv m)) as Hloop.
    { induction fuel as [|f' IHf]; intros lastv m fin; [exact I|].
      rewrite zw_step. set (sh := setx s (lastv :: stk) (n + 1) start m fin).
      pose proof (Hsimc prog lexit_in Ec Re ltac:(rewrite Cs2; exact Hstart) f' sh eq_refl) as Hc1.
      rewrite Cs2 in Hc1. unfold sh in Hc1 at 2. rewrite mst_of_setx in Hc1. fold names in Hc1.
      destruct (zeval orc f' names c m) as [b m1|m1|m1|e|y|] eqn:E1; cbn [zbind zloop_post];
        try exact Hc1; try (znosig_contra f' c names m Hfc E1).
      cbn [zsim2] in Hc1. destruct Hc1 as [fin1 Hc1].
      set (sa := setx sh (b :: v_stack sh) (v_slen sh + 1) (code_len st3) m1 fin1) in *.
      pose proof (step_jif orc prog sa lexit_in b (lastv :: stk) [] Hjif Re eq_refl) as Hstepj.
      destruct b as [|bb| | | | |];
        try (cbn [zloop_post]; apply (reaches_stops_at orc prog sh sa _ _ Hc1 eq_refl); apply (stops_at_now' orc prog sa _ _ Hstepj (mst_of_setx _ _ _ _ _ _))).
      destruct bb.
      - (* another iteration: Pop the previous value, run the body *)
        set (sp := setm sa (lastv :: stk) (v_slen sa - 1) (v_ip sa + 3) (mst_of sa)) in *.
        assert (code_at prog (v_ip sp) [byte_of_opcode OPop]) as Hpop' by exact Hpop.
        pose proof (step_pop orc prog sp lastv stk [] Hpop' eq_refl) as Hstepp.
        set (sb := setx s stk n (code_len st4) m1 lastv).
        assert (mkVM stk (v_slen sp - 1) (v_globals sp) (v_frames sp) (v_ip sp + 1) (v_bp sp) lastv
                     (v_heap sp) (v_gc sp) (v_out sp) = sb) as Esb.
        { subst sp sa sh sb. unfold setm, setx, mst_of. vmcbn2. f_equal; lia. }
        rewrite Esb in Hstepp.
        assert (reaches orc prog sh sb) as Hsb.
        { apply (reaches_trans orc prog sh sa _ Hc1).
          apply (reaches_trans orc prog sa sp _ (reaches_step orc prog _ _ Hstepj)).
          apply reaches_step. exact Hstepp. }
        pose proof (Hsimb prog lexit_in Eb Re ltac:(rewrite Cs4; exact Hstart) f' sb eq_refl) as Hb1.
        rewrite Cs4 in Hb1. unfold sb in Hb1 at 2. rewrite mst_of_setx in Hb1. fold names in Hb1.
        destruct (zstmts orc f' names body VNull m1) as [v m2|m2|m2|e|y|]; cbn [zsim2 zloop_post] in *.
        + destruct Hb1 as [fin2 Hb1].
          set (sc := setx sb (v :: v_stack sb) (v_slen sb + 1) (code_len st5) m2 fin2) in *.
          pose proof (step_jump orc prog sc start [] Hjmp Rs) as Hstepm.
          assert (setm sc (v_stack sc) (v_slen sc) start (mst_of sc) = setx s (v :: stk) (n + 1) start m2 fin2) as Esc.
          { subst sc sb. unfold setm, setx, mst_of. vmcbn2. reflexivity. }
          rewrite Esc in Hstepm.
          specialize (IHf v m2 fin2).
          assert (reaches orc prog sh (setx s (v :: stk) (n + 1) start m2 fin2)) as Hback.
          { apply (reaches_trans orc prog sh sb _ Hsb). apply (reaches_trans orc prog sb sc _ Hb1).
            apply reaches_step. exact Hstepm. }
          destruct (zwhile orc f' names c body v m2) as [v3 m3|m3|m3|e|y|]; cbn [zloop_post] in *;
            try contradiction; try exact I.
          * destruct IHf as [fin3 IHf]. exists fin3. exact (reaches_trans orc prog _ _ _ Hback IHf).
          * exact (reaches_stops_at orc prog _ _ _ _ Hback eq_refl IHf).
          * exact (reaches_stops_at orc prog _ _ _ _ Hback eq_refl IHf).
        + (* stop *)
          destruct Hb1 as [fin2 Hb1]. exists fin2. exact (reaches_trans orc prog sh sb _ Hsb Hb1).
        + (* volgende *)
          destruct Hb1 as [fin2 Hb1].
          specialize (IHf VNull m2 fin2).
          assert (reaches orc prog sh (setx s (VNull :: stk) (n + 1) start m2 fin2)) as Hback
            by exact (reaches_trans orc prog sh sb _ Hsb Hb1).
          destruct (zwhile orc f' names c body VNull m2) as [v3 m3|m3|m3|e|y|]; cbn [zloop_post] in *;
            try contradiction; try exact I.
          * destruct IHf as [fin3 IHf]. exists fin3. exact (reaches_trans orc prog _ _ _ Hback IHf).
          * exact (reaches_stops_at orc prog _ _ _ _ Hback eq_refl IHf).
          * exact (reaches_stops_at orc prog _ _ _ _ Hback eq_refl IHf).
        + exact (reaches_stops_at orc prog sh sb _ _ Hsb eq_refl Hb1).
        + exact (reaches_stops_at orc prog sh sb _ _ Hsb eq_refl Hb1).
        + exact I.
      - (* the condition is false: the loop's value is the value of the last iteration *)
        exists fin1. apply (reaches_trans orc prog sh sa _ Hc1). apply reaches_step. rewrite Hstepj.
        f_equal. f_equal. subst sa sh. unfold setm, setx, mst_of. vmcbn2. f_equal; lia. }
    (* enter the loop *)
    rewrite <- Hip in Hnull.
    pose proof (step_null orc prog s [] Hnull) as Hstep0.
    assert (setm s (VNull :: v_stack s) (v_slen s + 1) (v_ip s + 1) (mst_of s)
            = setx s (VNull :: stk) (n + 1) start (mst_of s) (v_final s)) as Es0.
    { unfold setm, setx, mst_of. vmcbn2. rewrite L1, Hip. reflexivity. }
    rewrite Es0 in Hstep0.
    specialize (Hloop f VNull (mst_of s) (v_final s)). rewrite L'.
    destruct (zwhile orc f names c body VNull (mst_of s)) as [v3 m3|m3|m3|e|y|]; cbn [zloop_post zsim2] in *;
      try contradiction; try exact I.
    - destruct Hloop as [fin3 Hloop]. exists fin3.
      exact (reaches_trans orc prog _ _ _ (reaches_step orc prog _ _ Hstep0) Hloop).
    - exact (reaches_stops_at orc prog _ _ _ _ (reaches_step orc prog _ _ Hstep0) eq_refl Hloop).
    - exact (reaches_stops_at orc prog _ _ _ _ (reaches_step orc prog _ _ Hstep0) eq_refl Hloop).
  Qed.

  Lemma zlsim_of_forall : forall l, Forall zssim l -> zlsim l.
  Proof. intros l H. induction H as [|s r Hs Hr IH]; [exact zlsim_nil|exact (Hs r IH)]. Qed.

  Lemma zesim_outside : forall e, (forall lp, f2e lp e = false) -> zesim e.
  Proof. intros e H lp st st' k outer cur HF. rewrite H in HF. discriminate HF. Qed.

  Theorem zsim_all : (forall e, zesim e) /\ (forall s, zssim s).
  Proof.
    apply expr_stmt_ind.
    - intros l o r Hl Hr. exact (zesim_infix l o r Hl Hr).
    - intros o r Hr. exact (zesim_prefix o r Hr).
    - exact zesim_int.
    - intros x. apply zesim_outside. reflexivity.
    - exact zesim_bool.
    - intros c t alt Hc Ht Ha. apply (zesim_if c t alt Hc (zlsim_of_forall t Ht)).
      destruct alt as [b|]; [exact (zlsim_of_forall b Ha)|exact I].
    - exact zesim_ident.
    - intros n ps body _. apply zesim_outside. reflexivity.
    - intros h args _ _. apply zesim_outside. reflexivity.
    - intros l r _ Hr. destruct l; try (apply zesim_outside; reflexivity). exact (zesim_assign s r Hr).
    - intros s. apply zesim_outside. reflexivity.
    - intros vs _. apply zesim_outside. reflexivity.
    - intros b i _ _. apply zesim_outside. reflexivity.
    - intros c b Hc Hb. exact (zesim_while c b Hc (zlsim_of_forall b Hb)).
    - intros n e He. exact (zssim_let n e He).
    - intros e _ r _ lp st st' k outer cur HF. rewrite f2b_cons in HF. discriminate HF.
    - intros e He. exact (zssim_expr e He).
    - intros b Hb. exact (zssim_block b (zlsim_of_forall b Hb)).
    - exact zssim_break.
    - exact zssim_continue.
  Qed.

  Theorem zlsim_all : forall l, zlsim l.
  Proof. intros l. apply zlsim_of_forall. apply Forall_forall. intros s _. apply (proj2 zsim_all). Qed.

  Definition zsc_res (m : mst) (r : zres val) : Prop :=
    match r with
    | ZOk v m' => scalar v = true /\ scalar_m m' /\ m_heap m' = m_heap m /\ m_gc m' = m_gc m
    | ZBrk m' | ZCnt m' | ZErr _ m' | ZFault _ m' => scalar_m m' /\ m_heap m' = m_heap m /\ m_gc m' = m_gc m
    | ZFuel => True
    end.

  Lemma zsc_res_bind : forall m (x : zres val) (k : val -> mst -> zres val),
    zsc_res m x ->
    (forall a m1, scalar a = true -> scalar_m m1 -> m_heap m1 = m_heap m -> m_gc m1 = m_gc m -> zsc_res m (k a m1)) ->
    zsc_res m (zbind x k).
  Proof.
    intros m x k Hx Hk. destruct x as [a m1|m1|m1|e m1|y m1|]; cbn [zbind zsc_res] in *; auto.
    destruct Hx as [A [B [C D]]]. apply Hk; assumption.
  Qed.

  Lemma zsc_res_shift : forall m m1 r, m_heap m1 = m_heap m -> m_gc m1 = m_gc m -> zsc_res m1 r -> zsc_res m r.
  Proof.
    intros m m1 r H1 H2 H. destruct r as [a m2|m2|m2|e m2|y m2|]; cbn [zsc_res] in *; auto.
    - destruct H as [A [B [C D]]]. repeat split; congruence.
    - destruct H as [B [C D]]. repeat split; congruence.
    - destruct H as [B [C D]]. repeat split; congruence.
    - destruct H as [B [C D]]. repeat split; congruence.
    - destruct H as [B [C D]]. repeat split; congruence.
  Qed.

  Lemma zsc_here : forall m, scalar_m m -> scalar_m m /\ m_heap m = m_heap m /\ m_gc m = m_gc m.
  Proof. intros m H. auto. Qed.

  Lemma zsc_lift_sres : forall m sr, sres_ok sr -> scalar_m m -> zsc_res m (zlift_h m (lift_sres (m_heap m) sr)).
  Proof.
    intros m sr Hok Hm. destruct sr as [z|b|x|]; cbn [sres_ok lift_sres zlift_h zsc_res fst] in *; try contradiction;
      try (apply zsc_here; exact Hm); rewrite with_new_m_same; repeat split; auto.
  Qed.

  Lemma zeval_scalar : forall fuel,
    (forall lp e names m, f2e lp e = true -> scalar_m m -> zsc_res m (zeval orc fuel names e m)) /\
    (forall c body names last m, f2e false c = true -> f2b true body = true -> scalar last = true ->
       scalar_m m -> zsc_res m (zwhile orc fuel names c body last m)) /\
    (forall lp l names last m, f2b lp l = true -> scalar last = true -> scalar_m m ->
       zsc_res m (zstmts orc fuel names l last m)).
  Proof.
    induction fuel as [|f [IHe [IHw IHs]]].
    - repeat split; intros; exact I.
    - split; [|split].
      + intros lp e names m HF Hm. destruct e; try discriminate HF.
        * (* EInfix *) rewrite ze_infix. rewrite f2e_infix in HF.
          apply andb_prop in HF. destruct HF as [HF Hr]. apply andb_prop in HF. destruct HF as [_ Hl].
          apply zsc_res_bind; [apply (IHe false); assumption|]. intros a m1 Sa Sm1 H1 G1.
          apply (zsc_res_shift m m1); try assumption.
          apply zsc_res_bind; [apply (IHe false); assumption|]. intros b m2 Sb Sm2 H2 G2.
          apply (zsc_res_shift m1 m2); try assumption.
          destruct (Sem.method_of o) as [mth|] eqn:Em; [|apply zsc_here; exact Sm2].
          destruct (binop_scalar orc o mth a b Em Sa Sb) as [sr [Hok Hbin]]. rewrite Hbin.
          apply zsc_lift_sres; assumption.
        * (* EPrefix *) rewrite ze_prefix. rewrite f2e_prefix in HF. apply andb_prop in HF. destruct HF as [Hop Hr].
          apply zsc_res_bind; [apply (IHe false); assumption|]. intros a m1 Sa Sm1 H1 G1.
          apply (zsc_res_shift m m1); try assumption.
          assert (zsc_res m1 (zlift_h m1 (negate (m_heap m1) a))) as Hneg.
          { destruct (negate_scalar a Sa) as [sr [Hok Hn]]. rewrite Hn. apply zsc_lift_sres; assumption. }
          destruct o; try discriminate Hop; try exact Hneg.
          destruct a; try discriminate Sa; cbn [lognot zlift_p zsc_res]; auto.
        * (* EInt *) rewrite ze_int. cbn [zsc_res]. cbn [f2e] in HF. split; [apply scalar_lit; exact HF|auto].
        * (* EBool *) rewrite ze_bool. cbn [zsc_res]. auto.
        * (* EIf *) rewrite ze_if. rewrite f2e_if in HF.
          apply andb_prop in HF. destruct HF as [HF Ha]. apply andb_prop in HF. destruct HF as [Hc Ht].
          apply zsc_res_bind; [apply (IHe false); assumption|]. intros b m1 Sb Sm1 H1 G1.
          apply (zsc_res_shift m m1); try assumption.
          destruct b as [|[|]| | | | |]; try (apply zsc_here; exact Sm1).
          -- apply (IHs lp); auto.
          -- destruct e0 as [bl|]; [apply (IHs lp); auto|cbn [zsc_res]; auto].
        * (* EIdent *) rewrite ze_ident. destruct (rposition s names); [|apply zsc_here; exact Hm].
          cbn [zsc_res]. split; [apply scalar_nth; exact Hm|auto].
        * (* EAssign *) cbn [f2e] in HF. destruct e1; try discriminate HF. rewrite ze_assign.
          destruct (rposition s names) as [i|]; [|apply zsc_here; exact Hm].
          apply zsc_res_bind; [apply (IHe false); assumption|]. intros a m1 Sa Sm1 H1 G1.
          cbn [zsc_res]. split; [exact Sa|]. split; [apply scalar_set_global; assumption|]. auto.
        * (* EWhile *) rewrite ze_while. rewrite f2e_while in HF. apply andb_prop in HF. destruct HF as [Hc Hb].
          apply IHw; auto.
      + intros c body names last m Hc Hb Sl Hm. rewrite zw_step.
        apply zsc_res_bind; [apply (IHe false); assumption|]. intros b m1 Sb Sm1 H1 G1.
        destruct b as [|[|]| | | | |]; try (cbn [zsc_res]; repeat split; assumption).
        pose proof (IHs true body names VNull m1 Hb eq_refl Sm1) as Hbody.
          destruct (zstmts orc f names body VNull m1) as [v m2|m2|m2|e m2|y m2|]; cbn [zsc_res] in Hbody; try exact I.
          -- destruct Hbody as [Sv [Sm2 [H2 G2]]].
             apply (zsc_res_shift m m2); try congruence. apply IHw; assumption.
          -- destruct Hbody as [Sm2 [H2 G2]]. cbn [zsc_res]. repeat split; auto; congruence.
          -- destruct Hbody as [Sm2 [H2 G2]].
             apply (zsc_res_shift m m2); try congruence. apply IHw; auto.
          -- destruct Hbody as [Sm2 [H2 G2]]. cbn [zsc_res]. repeat split; auto; congruence.
          -- destruct Hbody as [Sm2 [H2 G2]]. cbn [zsc_res]. repeat split; auto; congruence.
      + intros lp l names last m HF Sl Hm. destruct l as [|s r]; [rewrite zs_nil; cbn [zsc_res]; auto|].
        rewrite f2b_cons in HF. apply andb_prop in HF. destruct HF as [Hs Hr].
        destruct s as [x e|e|e|b| |]; try discriminate Hs.
        * rewrite zs_let. cbn [f2s] in Hs. apply andb_prop in Hs. destruct Hs as [He _].
          apply zsc_res_bind; [apply (IHe false); assumption|]. intros a m1 Sa Sm1 H1 G1.
          apply (zsc_res_shift m (set_global_m (length names) a m1)); try assumption.
          apply (IHs lp); auto. apply scalar_set_global; assumption.
        * rewrite zs_expr. cbn [f2s] in Hs.
          apply zsc_res_bind; [apply (IHe lp); assumption|]. intros a m1 Sa Sm1 H1 G1.
          apply (zsc_res_shift m m1); try assumption. apply (IHs lp); auto.
        * rewrite zs_block. rewrite f2s_block in Hs.
          apply zsc_res_bind; [apply (IHs lp); auto|]. intros a m1 Sa Sm1 H1 G1.
          apply (zsc_res_shift m m1); try assumption. apply (IHs lp); auto.
        * rewrite zs_break. cbn [zsc_res]. auto.
        * rewrite zs_continue. cbn [zsc_res]. auto.
  Qed.


End Sim.

Print Assumptions zeval_erase.
Print Assumptions zsim_all.
Print Assumptions zlsim_all.
Print Assumptions zeval_scalar.
