(* VMIndexProofs.v - property C13: arrays and strings are shared by reference, indexed exactly,
   measured in characters.  Machine-level theorems about index_get / index_set / call_length and
   about the instructions that move values.  Proofs only. *)
From NL.Model Require Import VM.
From NL.Proofs Require Import VMStepProofs.
Open Scope Z_scope.

(** * 0. Heap facts *)

(* locations from next_loc on have never been handed out *)
Definition heap_wf (h : heap) : Prop :=
  forall k, (next_loc h <= k)%positive -> PM.find k (cells h) = None.

(* overwrite the contents of a box *)
Definition set_cell (h : heap) (l : positive) (o : obj) : heap :=
  mkHeap (PM.add l (true, o) (cells h)) (next_loc h) (n_alloc h) (n_freed h).

Lemma heap_wf_empty : heap_wf empty_heap.
Proof. intros k _. apply PM.gempty. Qed.

Lemma heap_wf_alloc : forall h o, heap_wf h -> heap_wf (snd (h_alloc h o)).
Proof.
  intros h o W k Hk. cbn in *. rewrite PM.gso by lia. apply W. lia.
Qed.

Lemma h_set_ok : forall h l o o0, h_get h l = Ok o0 -> h_set h l o = Ok (set_cell h l o).
Proof.
  intros h l o o0 H. unfold h_get in H. unfold h_set, set_cell.
  destruct (PM.find l (cells h)) as [[[|] x]|]; try discriminate H. reflexivity.
Qed.

Lemma h_get_set_cell_same : forall h l o, h_get (set_cell h l o) l = Ok o.
Proof. intros. unfold h_get, set_cell. cbn [cells]. rewrite PM.gss. reflexivity. Qed.

Lemma h_get_set_cell_other : forall h l o k, k <> l -> h_get (set_cell h l o) k = h_get h k.
Proof. intros. unfold h_get, set_cell. cbn [cells]. rewrite PM.gso by assumption. reflexivity. Qed.

Lemma heap_wf_set_cell : forall h l o o0, heap_wf h -> h_get h l = Ok o0 -> heap_wf (set_cell h l o).
Proof.
  intros h l o o0 W G k Hk. unfold set_cell in *. cbn [cells next_loc] in *.
  destruct (Pos.eq_dec k l) as [->|N].
  - unfold h_get in G. rewrite (W l Hk) in G. discriminate G.
  - rewrite PM.gso by assumption. apply W. exact Hk.
Qed.

Lemma h_get_alloc_new : forall h o, h_get (snd (h_alloc h o)) (next_loc h) = Ok o.
Proof. intros. unfold h_get, h_alloc. cbn [snd cells]. rewrite PM.gss. reflexivity. Qed.

Lemma h_get_alloc_other : forall h o k, k <> next_loc h -> h_get (snd (h_alloc h o)) k = h_get h k.
Proof. intros. unfold h_get, h_alloc. cbn [snd cells]. rewrite PM.gso by assumption. reflexivity. Qed.

(* a location that can be read is not the next one to be handed out *)
Lemma readable_not_fresh : forall h l o, heap_wf h -> h_get h l = Ok o -> l <> next_loc h.
Proof.
  intros h l o W G ->. unfold h_get in G. rewrite (W (next_loc h)) in G by lia. discriminate G.
Qed.

Lemma get_str_inv : forall h l t, get_str h l = Ok t -> h_get h l = Ok (OStr t).
Proof.
  intros h l t H. unfold get_str in H. destruct (h_get h l) as [[]| | |]; try discriminate H.
  cbn in H. inversion H; subst. reflexivity.
Qed.
Lemma get_arr_inv : forall h l vs, get_arr h l = Ok vs -> h_get h l = Ok (OArr vs).
Proof.
  intros h l t H. unfold get_arr in H. destruct (h_get h l) as [[]| | |]; try discriminate H.
  cbn in H. inversion H; subst. reflexivity.
Qed.
Lemma get_str_of : forall h l t, h_get h l = Ok (OStr t) -> get_str h l = Ok t.
Proof. intros h l t H. unfold get_str. rewrite H. reflexivity. Qed.
Lemma get_arr_of : forall h l vs, h_get h l = Ok (OArr vs) -> get_arr h l = Ok vs.
Proof. intros h l t H. unfold get_arr. rewrite H. reflexivity. Qed.

Lemma get_str_not_err : forall h l k, get_str h l <> Err k.
Proof.
  intros h l k. unfold get_str, h_get. destruct (PM.find l (cells h)) as [[[|] []]|]; discriminate.
Qed.
Lemma get_arr_not_err : forall h l k, get_arr h l <> Err k.
Proof.
  intros h l k. unfold get_arr, h_get. destruct (PM.find l (cells h)) as [[[|] []]|]; discriminate.
Qed.

Lemma succ_neq : forall p, Pos.eqb (Pos.succ p) p = false.
Proof. intro p. apply Pos.eqb_neq. lia. Qed.

(* with_new on a genuinely new object registers it with the collector *)
Lemma with_new_alloc : forall s o v,
  with_new s (v, snd (h_alloc (v_heap s) o)) = upd_heap s (snd (h_alloc (v_heap s) o)) (trace (v_gc s) v).
Proof. intros. unfold with_new. cbn [h_alloc snd next_loc]. rewrite succ_neq. reflexivity. Qed.

(** * 1. C1: index normalisation *)

Definition in_range (z len : Z) : bool := (- len <=? z) && (z <? len).
Definition norm (z len : Z) : Z := if z <? 0 then len + z else z.

Theorem norm_index_spec : forall z len, 0 <= len -> - WORD <= z ->
  norm_index z len = if in_range z len then Ok (norm z len) else Err EIndexError.
Proof.
  intros z len Hlen Hz. unfold norm_index, in_range, norm.
  assert (HW : 0 < WORD) by (unfold WORD; lia).
  destruct (Z.ltb_spec z 0).
  - destruct (Z.ltb_spec (z + len) 0).
    + destruct (Z.leb_spec len (z + len + WORD)); [|lia].
      destruct (Z.leb_spec (- len) z); [lia|]. reflexivity.
    + destruct (Z.leb_spec len (z + len)); [lia|].
      destruct (Z.leb_spec (- len) z); [|lia]. destruct (Z.ltb_spec z len); [|lia].
      cbn [andb]. f_equal. lia.
  - destruct (Z.ltb_spec z 0); [lia|].
    destruct (Z.leb_spec (- len) z); [|lia]. cbn [andb].
    destruct (Z.leb_spec len z); destruct (Z.ltb_spec z len); try lia; reflexivity.
Qed.

(* readable corollaries *)
Corollary norm_index_nonneg : forall z len, 0 <= z < len -> norm_index z len = Ok z.
Proof.
  intros z len H. rewrite norm_index_spec by (unfold WORD; lia). unfold in_range, norm.
  destruct (Z.leb_spec (- len) z); [|lia]. destruct (Z.ltb_spec z len); [|lia].
  destruct (Z.ltb_spec z 0); [lia|]. reflexivity.
Qed.
Corollary norm_index_negative : forall z len, - WORD <= z -> - len <= z < 0 -> norm_index z len = Ok (len + z).
Proof.
  intros z len Hz H. rewrite norm_index_spec by lia. unfold in_range, norm.
  destruct (Z.leb_spec (- len) z); [|lia]. destruct (Z.ltb_spec z len); [|lia].
  destruct (Z.ltb_spec z 0); [|lia]. reflexivity.
Qed.
Corollary norm_index_out : forall z len, 0 <= len -> - WORD <= z -> z < - len \/ len <= z ->
  norm_index z len = Err EIndexError.
Proof.
  intros z len H0 H1 H. rewrite norm_index_spec by assumption. unfold in_range.
  destruct (Z.leb_spec (- len) z); [|reflexivity]. destruct (Z.ltb_spec z len); [lia|reflexivity].
Qed.

Lemma in_range_norm : forall z len, in_range z len = true -> 0 <= norm z len < len.
Proof.
  intros z len H. unfold in_range in H. apply andb_true_iff in H. destruct H as [A B].
  apply Z.leb_le in A. apply Z.ltb_lt in B. unfold norm. destruct (Z.ltb_spec z 0); lia.
Qed.

(* the lower bound on z is needed by the model (it holds for every integer of the language,
   whose values lie in [MIN_INT, MAX_INT], and for every isize) *)
Example norm_index_needs_bound : norm_index (- WORD - 1) 1 = Ok (- WORD).
Proof. vm_compute. reflexivity. Qed.

Lemma wf_int_bound : forall z, wf_val (VInt z) = true -> - WORD <= z.
Proof.
  intros z H. cbn [wf_val] in H. unfold in_int_range in H. apply andb_true_iff in H. destruct H as [A _].
  apply Z.leb_le in A. assert (- WORD <= MIN_INT) by (vm_compute; discriminate). lia.
Qed.

Lemma nth_error_in_range : forall {A} (l : list A) z, in_range z (zlength l) = true ->
  exists v, nth_error l (Z.to_nat (norm z (zlength l))) = Some v.
Proof.
  intros A l z H. apply in_range_norm in H.
  destruct (nth_error l (Z.to_nat (norm z (zlength l)))) as [v|] eqn:E; [eauto|].
  apply nth_error_None in E. unfold zlength in *. lia.
Qed.

(** * 2. C2: index_get *)

Section IndexGet.
  Variable s : vm.

  Theorem index_get_array_ok : forall l vs z,
    get_arr (v_heap s) l = Ok vs -> - WORD <= z -> in_range z (zlength vs) = true ->
    exists v, nth_error vs (Z.to_nat (norm z (zlength vs))) = Some v
              /\ index_get s (VArr l) (VInt z) = Ok (push v s).
  Proof.
    intros l vs z G Hz R. destruct (nth_error_in_range vs z R) as [v E]. exists v. split; [exact E|].
    unfold index_get. rewrite G. vmsimpl.
    rewrite norm_index_spec by (auto using zlength_nonneg). rewrite R. vmsimpl. rewrite E. reflexivity.
  Qed.

  Theorem index_get_array_oob : forall l vs z,
    get_arr (v_heap s) l = Ok vs -> - WORD <= z -> in_range z (zlength vs) = false ->
    index_get s (VArr l) (VInt z) = Err EIndexError.
  Proof.
    intros l vs z G Hz R. unfold index_get. rewrite G. vmsimpl.
    rewrite norm_index_spec by (auto using zlength_nonneg). rewrite R. reflexivity.
  Qed.

  (* the character is the i-th CODE POINT of the text, and the result is a new one-character
     string object at the location next_loc, registered with the collector; the indexed string
     and every other box are unchanged *)
  Theorem index_get_string_ok : forall l t z,
    get_str (v_heap s) l = Ok t -> - WORD <= z -> in_range z (zlength t) = true ->
    exists c, nth_error t (Z.to_nat (norm z (zlength t))) = Some c
      /\ let l' := next_loc (v_heap s) in
         let h' := snd (h_alloc (v_heap s) (OStr [c])) in
         index_get s (VStr l) (VInt z) = Ok (push (VStr l') (upd_heap s h' (trace (v_gc s) (VStr l'))))
         /\ get_str h' l' = Ok [c]
         /\ (forall k, k <> l' -> h_get h' k = h_get (v_heap s) k)
         /\ (heap_wf (v_heap s) -> l' <> l /\ h_alive (v_heap s) l' = false /\ get_str h' l = Ok t).
  Proof.
    intros l t z G Hz R. destruct (nth_error_in_range t z R) as [c E]. exists c. split; [exact E|].
    intros l' h'. split; [|split; [|split]].
    - unfold index_get. rewrite G. vmsimpl.
      rewrite norm_index_spec by (auto using zlength_nonneg). rewrite R. vmsimpl. rewrite E.
      unfold alloc_str. cbn [h_alloc fst].
      change (mkHeap _ _ _ _) with (snd (h_alloc (v_heap s) (OStr [c]))).
      rewrite with_new_alloc. reflexivity.
    - apply get_str_of. apply h_get_alloc_new.
    - intros k Hk. apply h_get_alloc_other. exact Hk.
    - intro W. pose proof (get_str_inv _ _ _ G) as G'.
      pose proof (readable_not_fresh _ _ _ W G') as N. split; [exact (fun X => N (eq_sym X))|]. split.
      + unfold h_alive, l'. rewrite (W (next_loc (v_heap s))) by lia. reflexivity.
      + apply get_str_of. unfold h'. rewrite h_get_alloc_other by exact N. exact G'.
  Qed.

  Theorem index_get_string_oob : forall l t z,
    get_str (v_heap s) l = Ok t -> - WORD <= z -> in_range z (zlength t) = false ->
    index_get s (VStr l) (VInt z) = Err EIndexError.
  Proof.
    intros l t z G Hz R. unfold index_get. rewrite G. vmsimpl.
    rewrite norm_index_spec by (auto using zlength_nonneg). rewrite R. reflexivity.
  Qed.

  Theorem index_get_bad_index : forall lhs idx, (forall z, idx <> VInt z) ->
    index_get s lhs idx = Err ETypeError.
  Proof. intros lhs idx H. destruct idx; try reflexivity. exfalso. exact (H _ eq_refl). Qed.

  Theorem index_get_bad_base : forall lhs z, (forall l, lhs <> VArr l) -> (forall l, lhs <> VStr l) ->
    index_get s lhs (VInt z) = Err ETypeError.
  Proof.
    intros lhs z Ha Hs. destruct lhs; try reflexivity; exfalso; [exact (Hs _ eq_refl)|exact (Ha _ eq_refl)].
  Qed.

  (* exactly when index_get reports an error (an error is an outcome without a state: nothing
     can have changed) *)
  Theorem index_get_err_iff : forall lhs idx k, wf_val idx = true ->
    (index_get s lhs idx = Err k <->
     (k = ETypeError /\ ((forall z, idx <> VInt z)
                         \/ ((forall l, lhs <> VArr l) /\ (forall l, lhs <> VStr l))))
     \/ (k = EIndexError /\ exists z, idx = VInt z
         /\ ((exists l vs, lhs = VArr l /\ get_arr (v_heap s) l = Ok vs /\ in_range z (zlength vs) = false)
             \/ (exists l t, lhs = VStr l /\ get_str (v_heap s) l = Ok t /\ in_range z (zlength t) = false)))).
  Proof.
    intros lhs idx k Hwf. split.
    - intro H. destruct idx as [| |z| | | |];
        try (cbn in H; inversion H; left; split; [reflexivity|left; intros z; discriminate]).
      apply wf_int_bound in Hwf.
      destruct lhs as [| | | | |l|l];
        try (cbn in H; inversion H; left; split; [reflexivity|right; split; intros; discriminate]).
      + unfold index_get in H. destruct (get_str (v_heap s) l) as [t|k0| |] eqn:G; try discriminate H;
          [|exfalso; exact (get_str_not_err _ _ _ G)].
        vmsimpl_in H. rewrite norm_index_spec in H by (auto using zlength_nonneg).
        destruct (in_range z (zlength t)) eqn:R.
        * vmsimpl_in H. destruct (nth_error t _); discriminate H.
        * inversion H. right. split; [reflexivity|]. exists z. split; [reflexivity|]. right. eauto.
      + unfold index_get in H. destruct (get_arr (v_heap s) l) as [vs|k0| |] eqn:G; try discriminate H;
          [|exfalso; exact (get_arr_not_err _ _ _ G)].
        vmsimpl_in H. rewrite norm_index_spec in H by (auto using zlength_nonneg).
        destruct (in_range z (zlength vs)) eqn:R.
        * vmsimpl_in H. destruct (nth_error vs _); discriminate H.
        * inversion H. right. split; [reflexivity|]. exists z. split; [reflexivity|]. left. eauto.
    - intros [[-> [H|[Ha Hs]]]|[-> (z & -> & [(l & vs & -> & G & R)|(l & t & -> & G & R)])]].
      + apply index_get_bad_index. exact H.
      + destruct idx; try reflexivity. apply index_get_bad_base; assumption.
      + apply (index_get_array_oob l vs z G (wf_int_bound _ Hwf) R).
      + apply (index_get_string_oob l t z G (wf_int_bound _ Hwf) R).
  Qed.
End IndexGet.

(** * 3. C3: index_set *)

Section IndexSet.
  Variable s : vm.

  (* a successful array write: cell l of the heap becomes the array with element i replaced,
     nothing else in the heap changes (set_cell), the stack gets `value` pushed, everything else
     (globals, frames, collector, output) is as before *)
  Theorem index_set_array_ok : forall l vs z value,
    get_arr (v_heap s) l = Ok vs -> - WORD <= z -> in_range z (zlength vs) = true ->
    let i := Z.to_nat (norm z (zlength vs)) in
    let h' := set_cell (v_heap s) l (OArr (replace_nth i value vs)) in
    index_set s (VArr l) (VInt z) value = Ok (push value (upd_heap s h' (v_gc s)))
    /\ get_arr h' l = Ok (replace_nth i value vs)
    /\ (forall k, k <> l -> h_get h' k = h_get (v_heap s) k)
    /\ nth_error (replace_nth i value vs) i = Some value
    /\ (forall j, j <> i -> nth_error (replace_nth i value vs) j = nth_error vs j)
    /\ length (replace_nth i value vs) = length vs.
  Proof.
    intros l vs z value G Hz R i h'. pose proof (in_range_norm _ _ R) as B.
    split; [|split; [|split; [|split; [|split]]]].
    - unfold index_set. rewrite G. vmsimpl.
      rewrite norm_index_spec by (auto using zlength_nonneg). rewrite R. vmsimpl.
      rewrite (h_set_ok _ _ _ _ (get_arr_inv _ _ _ G)). reflexivity.
    - apply get_arr_of. apply h_get_set_cell_same.
    - intros k Hk. apply h_get_set_cell_other. exact Hk.
    - apply replace_nth_same. unfold i, zlength in *. lia.
    - intros j Hj. apply replace_nth_other. congruence.
    - apply replace_nth_length.
  Qed.

  (* a successful string write: character i of string l is replaced by the WHOLE text of the
     value string k (which may be empty or longer than one character) *)
  Theorem index_set_string_ok : forall l t z k repl,
    get_str (v_heap s) l = Ok t -> - WORD <= z -> in_range z (zlength t) = true ->
    get_str (v_heap s) k = Ok repl ->
    let n := Z.to_nat (norm z (zlength t)) in
    let t' := firstn n t ++ repl ++ skipn (S n) t in
    let h' := set_cell (v_heap s) l (OStr t') in
    index_set s (VStr l) (VInt z) (VStr k) = Ok (push (VStr k) (upd_heap s h' (v_gc s)))
    /\ get_str h' l = Ok t'
    /\ (forall j, j <> l -> h_get h' j = h_get (v_heap s) j)
    /\ zlength t' = zlength t - 1 + zlength repl.
  Proof.
    intros l t z k repl G Hz R Gk n t' h'. pose proof (in_range_norm _ _ R) as B.
    split; [|split; [|split]].
    - unfold index_set. rewrite G. vmsimpl.
      rewrite norm_index_spec by (auto using zlength_nonneg). rewrite R. vmsimpl.
      rewrite Gk. vmsimpl. rewrite (h_set_ok _ _ _ _ (get_str_inv _ _ _ G)). reflexivity.
    - apply get_str_of. apply h_get_set_cell_same.
    - intros j Hj. apply h_get_set_cell_other. exact Hj.
    - unfold t'. rewrite !zlength_app. unfold zlength in *. rewrite firstn_length, skipn_length.
      unfold n. lia.
  Qed.

  (* the aliasing case: the value is the target string itself.  The replacement text is the text
     the string had BEFORE the write ("copied before the target changes"), so s[i] = s inserts
     the old text in place of character i *)
  Corollary index_set_string_self : forall l t z,
    get_str (v_heap s) l = Ok t -> - WORD <= z -> in_range z (zlength t) = true ->
    let n := Z.to_nat (norm z (zlength t)) in
    let t' := firstn n t ++ t ++ skipn (S n) t in
    index_set s (VStr l) (VInt z) (VStr l)
    = Ok (push (VStr l) (upd_heap s (set_cell (v_heap s) l (OStr t')) (v_gc s)))
    /\ get_str (set_cell (v_heap s) l (OStr t')) l = Ok t'.
  Proof.
    intros l t z G Hz R n t'.
    destruct (index_set_string_ok l t z l t G Hz R G) as (A & B & _). split; assumption.
  Qed.

  (* exactly when index_set reports an error *)
  Inductive set_error (lhs idx value : val) : errkind -> Prop :=
  | SE_index_not_int : (forall z, idx <> VInt z) -> set_error lhs idx value ETypeError
  | SE_not_indexable : forall z, idx = VInt z -> (forall l, lhs <> VArr l) -> (forall l, lhs <> VStr l) ->
      set_error lhs idx value ETypeError
  | SE_array_range : forall z l vs, idx = VInt z -> lhs = VArr l -> get_arr (v_heap s) l = Ok vs ->
      in_range z (zlength vs) = false -> set_error lhs idx value EIndexError
  | SE_string_range : forall z l t, idx = VInt z -> lhs = VStr l -> get_str (v_heap s) l = Ok t ->
      in_range z (zlength t) = false -> set_error lhs idx value EIndexError
  | SE_string_value : forall z l t, idx = VInt z -> lhs = VStr l -> get_str (v_heap s) l = Ok t ->
      in_range z (zlength t) = true -> (forall k, value <> VStr k) -> set_error lhs idx value ETypeError.

  Theorem set_failure_unchanged : forall lhs idx value k, wf_val idx = true ->
    (index_set s lhs idx value = Err k <-> set_error lhs idx value k).
  Proof.
    intros lhs idx value k Hwf. split.
    - intro H. destruct idx as [| |z| | | |];
        try (cbn in H; inversion H; apply SE_index_not_int; intros z; discriminate).
      apply wf_int_bound in Hwf.
      destruct lhs as [| | | | |l|l];
        try (cbn in H; inversion H; apply (SE_not_indexable _ _ _ z eq_refl); intros; discriminate).
      + unfold index_set in H. destruct (get_str (v_heap s) l) as [t|k0| |] eqn:G; try discriminate H;
          [|exfalso; exact (get_str_not_err _ _ _ G)].
        vmsimpl_in H. rewrite norm_index_spec in H by (auto using zlength_nonneg).
        destruct (in_range z (zlength t)) eqn:R.
        * vmsimpl_in H.
          destruct value as [| | | | |k'|];
            try (inversion H; apply (SE_string_value _ _ _ z l t eq_refl eq_refl G R); intros; discriminate).
          destruct (get_str (v_heap s) k') as [repl|k1| |] eqn:Gk; try discriminate H;
            [|exfalso; exact (get_str_not_err _ _ _ Gk)].
          vmsimpl_in H. rewrite (h_set_ok _ _ _ _ (get_str_inv _ _ _ G)) in H. discriminate H.
        * inversion H. apply (SE_string_range _ _ _ z l t eq_refl eq_refl G R).
      + unfold index_set in H. destruct (get_arr (v_heap s) l) as [vs|k0| |] eqn:G; try discriminate H;
          [|exfalso; exact (get_arr_not_err _ _ _ G)].
        vmsimpl_in H. rewrite norm_index_spec in H by (auto using zlength_nonneg).
        destruct (in_range z (zlength vs)) eqn:R.
        * vmsimpl_in H. rewrite (h_set_ok _ _ _ _ (get_arr_inv _ _ _ G)) in H. discriminate H.
        * inversion H. apply (SE_array_range _ _ _ z l vs eq_refl eq_refl G R).
    - intro H. destruct H as [H|z -> Ha Hs|z l vs -> -> G R|z l t -> -> G R|z l t -> -> G R Hv].
      + destruct idx; try reflexivity. exfalso. exact (H _ eq_refl).
      + destruct lhs; try reflexivity; exfalso; [exact (Hs _ eq_refl)|exact (Ha _ eq_refl)].
      + unfold index_set. rewrite G. vmsimpl.
        rewrite norm_index_spec by (auto using zlength_nonneg, wf_int_bound). rewrite R. reflexivity.
      + unfold index_set. rewrite G. vmsimpl.
        rewrite norm_index_spec by (auto using zlength_nonneg, wf_int_bound). rewrite R. reflexivity.
      + unfold index_set. rewrite G. vmsimpl.
        rewrite norm_index_spec by (auto using zlength_nonneg, wf_int_bound). rewrite R. vmsimpl.
        destruct value; try reflexivity. exfalso. exact (Hv _ eq_refl).
  Qed.

  (* whatever index_set does, a successful one changes the heap at the target location only and
     keeps stack-below, globals, frames, registers, collector and output *)
  Theorem index_set_frame : forall lhs idx value s',
    index_set s lhs idx value = Ok s' ->
    exists l o, (lhs = VArr l \/ lhs = VStr l) /\ v_heap s' = set_cell (v_heap s) l o
      /\ v_stack s' = value :: v_stack s /\ v_slen s' = v_slen s + 1
      /\ v_globals s' = v_globals s /\ v_frames s' = v_frames s /\ v_ip s' = v_ip s /\ v_bp s' = v_bp s
      /\ v_final s' = v_final s /\ v_gc s' = v_gc s /\ v_out s' = v_out s.
  Proof.
    intros lhs idx value s' H. unfold index_set in H.
    destruct idx as [| |z| | | |]; try discriminate H.
    destruct lhs as [| | | | |l|l]; try discriminate H.
    - destruct (get_str (v_heap s) l) as [t| | |] eqn:G; try discriminate H. vmsimpl_in H.
      destruct (norm_index z (zlength t)) as [i| | |]; try discriminate H. vmsimpl_in H.
      destruct value as [| | | | |k|]; try discriminate H.
      destruct (get_str (v_heap s) k) as [repl| | |]; try discriminate H. vmsimpl_in H.
      rewrite (h_set_ok _ _ _ _ (get_str_inv _ _ _ G)) in H. vmsimpl_in H. inversion H; subst s'.
      eexists l, _. vmsimpl. repeat split; auto.
    - destruct (get_arr (v_heap s) l) as [vs| | |] eqn:G; try discriminate H. vmsimpl_in H.
      destruct (norm_index z (zlength vs)) as [i| | |]; try discriminate H. vmsimpl_in H.
      rewrite (h_set_ok _ _ _ _ (get_arr_inv _ _ _ G)) in H. vmsimpl_in H. inversion H; subst s'.
      eexists l, _. vmsimpl. repeat split; auto.
  Qed.
End IndexSet.

(** * 4. C4: values are moved, never copied *)

Lemma pop_n_app : forall n a rest s acc,
  v_stack s = a ++ rest -> length a = n ->
  pop_n n s acc = Ok (rev a ++ acc, upd_stack s rest (v_slen s - Z.of_nat n)).
Proof.
  induction n; intros a rest s acc Hst Hn.
  - destruct a; [|discriminate Hn]. cbn [pop_n rev app]. rewrite Z.sub_0_r.
    cbn [app] in Hst. rewrite <- Hst. destruct s; reflexivity.
  - destruct a as [|x a]; [discriminate Hn|]. cbn [pop_n]. unfold pop. rewrite Hst. cbn [app]. vmsimpl.
    rewrite (IHn a rest _ (x :: acc)); [|reflexivity|cbn in Hn; lia].
    cbn [rev]. rewrite <- app_assoc. cbn [app]. do 2 f_equal. unfold upd_stack. vmsimpl. f_equal. lia.
Qed.

Lemma nth_replace_nth_same : forall {A} n (v d : A) l, (n < length l)%nat -> nth n (replace_nth n v l) d = v.
Proof. induction n; destruct l; cbn; intro H; try lia; [reflexivity|]. apply IHn. lia. Qed.
Lemma nth_replace_nth_other : forall {A} n j (v d : A) l, n <> j -> nth j (replace_nth n v l) d = nth j l d.
Proof.
  induction n; destruct l; intro H; cbn; try reflexivity.
  - destruct j; [congruence|reflexivity].
  - destruct j; [reflexivity|]. apply IHn. congruence.
Qed.

Section NoCopy.
  Variable orc : oracle.
  Variable prog : program.

  (* GetGlobal pushes the very value stored in the global slot *)
  Theorem getglobal_no_copy : forall s lo hi r,
    code_at prog (v_ip s) (byte_of_opcode OGetGlobal :: lo :: hi :: r) ->
    step orc prog s
    = Ok (Continue (upd_ip (push (nth (Z.to_nat (lo + 256 * hi)) (v_globals s) VNull) s) (v_ip s + 3))).
  Proof.
    intros s lo hi r H. rewrite (step_GetGlobal_raw orc prog s (code_at_head _ _ _ _ H)). unfold cont.
    rewrite (read_u16_code _ (upd_ip s (v_ip s + 1)) lo hi r (code_at_tail _ _ _ _ H)).
    vmsimpl. rewrite !upd_ip_upd_ip. replace (v_ip s + 1 + 2) with (v_ip s + 3) by lia. reflexivity.
  Qed.

  (* SetGlobal stores the very value popped; other globals, the heap, the rest of the stack are
     unchanged *)
  Theorem setglobal_no_copy : forall s lo hi r v st,
    code_at prog (v_ip s) (byte_of_opcode OSetGlobal :: lo :: hi :: r) ->
    v_stack s = v :: st ->
    exists s', step orc prog s = Ok (Continue s')
      /\ nth (Z.to_nat (lo + 256 * hi)) (v_globals s') VNull = v
      /\ (forall j, j <> Z.to_nat (lo + 256 * hi) -> nth j (v_globals s') VNull = nth j (v_globals s) VNull)
      /\ v_stack s' = st /\ v_heap s' = v_heap s /\ v_gc s' = v_gc s.
  Proof.
    intros s lo hi r v st H Hst. rewrite (step_SetGlobal_raw orc prog s (code_at_head _ _ _ _ H)). unfold cont.
    rewrite (read_u16_code _ (upd_ip s (v_ip s + 1)) lo hi r (code_at_tail _ _ _ _ H)).
    vmsimpl. unfold pop. vmsimpl. rewrite Hst. vmsimpl. eexists. split; [reflexivity|]. vmsimpl.
    set (n := Z.to_nat (lo + 256 * hi)). set (gl := v_globals s).
    split; [|split; [|auto]].
    - apply nth_replace_nth_same. destruct (Nat.ltb_spec n (length gl)); [assumption|].
      rewrite app_length, repeat_val_length. lia.
    - intros j Hj. rewrite nth_replace_nth_other by congruence.
      destruct (Nat.ltb_spec n (length gl)); [reflexivity|].
      destruct (Nat.lt_ge_cases j (length gl)) as [L|L].
      + apply app_nth1. exact L.
      + rewrite app_nth2 by exact L. rewrite (nth_overflow gl) by exact L.
        destruct (Nat.lt_ge_cases (j - length gl) (S n - length gl)) as [L2|L2].
        * assert (E : nth_error (repeat_val VNull (S n - length gl)) (j - length gl) = Some VNull)
            by (apply repeat_val_nth; exact L2).
          apply (nth_error_nth _ _ VNull) in E. exact E.
        * apply nth_overflow. rewrite repeat_val_length. exact L2.
  Qed.

  (* GetLocal: see step_GetLocal (the value pushed is the one get_local reads). *)

  (* SetLocal stores the very value popped in the addressed slot *)
  Theorem setlocal_no_copy : forall s lo hi r v st s',
    code_at prog (v_ip s) (byte_of_opcode OSetLocal :: lo :: hi :: r) ->
    v_stack s = v :: st -> v_slen s = zlength (v_stack s) -> 0 <= v_bp s + (lo + 256 * hi) ->
    step orc prog s = Ok (Continue s') ->
    get_local (lo + 256 * hi) s' = Ok v /\ v_heap s' = v_heap s /\ v_globals s' = v_globals s
    /\ length (v_stack s') = length st.
  Proof.
    intros s lo hi r v st s' H Hst Hlen Hpos Hstep.
    rewrite (step_SetLocal_raw orc prog s (code_at_head _ _ _ _ H)) in Hstep. unfold cont in Hstep.
    rewrite (read_u16_code _ (upd_ip s (v_ip s + 1)) lo hi r (code_at_tail _ _ _ _ H)) in Hstep.
    vmsimpl_in Hstep. unfold pop in Hstep. vmsimpl_in Hstep. rewrite Hst in Hstep. vmsimpl_in Hstep.
    unfold set_local in Hstep. vmsimpl_in Hstep.
    rewrite Hst, zlength_cons in Hlen.
    destruct (Z.ltb_spec (v_bp s + (lo + 256 * hi)) (v_slen s - 1)) as [L|L]; [|discriminate Hstep].
    vmsimpl_in Hstep. inversion Hstep; subst s'; clear Hstep.
    unfold get_local. vmsimpl.
    destruct (Z.ltb_spec (v_bp s + (lo + 256 * hi)) (v_slen s - 1)); [|lia].
    rewrite replace_nth_same by (unfold zlength in *; lia).
    rewrite replace_nth_length. auto.
  Qed.

  (* Pop keeps the very value popped as the final result *)
  Theorem pop_no_copy : forall s v st,
    byte_at prog (v_ip s) = Some (byte_of_opcode OPop) -> v_stack s = v :: st ->
    step orc prog s = Ok (Continue (upd_final (upd_stack (upd_ip s (v_ip s + 1)) st (v_slen s - 1)) v)).
  Proof.
    intros s v st H Hst. rewrite (step_Pop_raw orc prog s H). unfold cont, pop. vmsimpl. rewrite Hst. reflexivity.
  Qed.

  (* Const of a non-string constant pushes the pooled value itself (floats and functions
     included: a float constant is shared between all its uses; floats are immutable) *)
  Theorem const_no_copy : forall s lo hi r k,
    code_at prog (v_ip s) (byte_of_opcode OConst :: lo :: hi :: r) ->
    get_const prog (lo + 256 * hi) = Ok k -> (forall l, k <> VStr l) ->
    step orc prog s = Ok (Continue (upd_ip (push k s) (v_ip s + 3))).
  Proof.
    intros s lo hi r k H Hk Hns. rewrite (step_Const orc prog s lo hi r H). rewrite Hk. vmsimpl.
    destruct k; try reflexivity. exfalso. exact (Hns _ eq_refl).
  Qed.

  (* ... whereas a string constant is copied: a write through the copy cannot reach the pool *)
  Theorem const_string_copied : forall s lo hi r l t,
    code_at prog (v_ip s) (byte_of_opcode OConst :: lo :: hi :: r) ->
    get_const prog (lo + 256 * hi) = Ok (VStr l) -> get_str (v_heap s) l = Ok t ->
    let l' := next_loc (v_heap s) in
    let h' := snd (h_alloc (v_heap s) (OStr t)) in
    step orc prog s
    = Ok (Continue (upd_ip (push (VStr l') (upd_heap s h' (trace (v_gc s) (VStr l')))) (v_ip s + 3)))
    /\ get_str h' l' = Ok t /\ (heap_wf (v_heap s) -> l' <> l).
  Proof.
    intros s lo hi r l t H Hk G l' h'. split; [|split].
    - rewrite (step_Const orc prog s lo hi r H). rewrite Hk. vmsimpl. rewrite G. vmsimpl.
      unfold alloc_str. cbn [h_alloc fst].
      change (mkHeap _ _ _ _) with (snd (h_alloc (v_heap s) (OStr t))).
      rewrite with_new_alloc. reflexivity.
    - apply get_str_of. apply h_get_alloc_new.
    - intros W E. apply (readable_not_fresh _ _ _ W (get_str_inv _ _ _ G)). symmetry. exact E.
  Qed.

  (* Array construction stores the very element values, first pushed first *)
  Theorem array_no_copy : forall s lo hi r elems_rev rest,
    code_at prog (v_ip s) (byte_of_opcode OArray :: lo :: hi :: r) ->
    v_stack s = elems_rev ++ rest -> zlength elems_rev = lo + 256 * hi ->
    let l := next_loc (v_heap s) in
    let h' := snd (h_alloc (v_heap s) (OArr (rev elems_rev))) in
    step orc prog s
    = Ok (Continue (push (VArr l) (upd_heap (upd_stack (upd_ip s (v_ip s + 3)) rest (v_slen s - (lo + 256 * hi)))
                                            h' (trace (v_gc s) (VArr l)))))
    /\ get_arr h' l = Ok (rev elems_rev).
  Proof.
    intros s lo hi r elems_rev rest H Hst Hn l h'. split.
    - rewrite (step_Array_raw orc prog s (code_at_head _ _ _ _ H)). unfold cont.
      rewrite (read_u16_code _ (upd_ip s (v_ip s + 1)) lo hi r (code_at_tail _ _ _ _ H)).
      vmsimpl. rewrite !upd_ip_upd_ip. replace (v_ip s + 1 + 2) with (v_ip s + 3) by lia.
      rewrite (pop_n_app _ elems_rev rest _ []); [|exact Hst|unfold zlength in Hn; lia].
      vmsimpl. rewrite app_nil_r. cbn [h_alloc]. vmsimpl.
      replace (Z.of_nat (Z.to_nat (lo + 256 * hi))) with (lo + 256 * hi) by (unfold zlength in Hn; lia).
      reflexivity.
    - apply get_arr_of. apply h_get_alloc_new.
  Qed.

  (* Call passes the very argument values (call_frame / call_binds_by_position of VMStepProofs),
     ReturnValue hands back the very result value (return_restores). *)
End NoCopy.

(* hence aliases see each other's writes: after a write through one reference to array l, a
   read through any reference to l - the values are equal, `VArr l` - returns the new element *)
Theorem alias_sees_write : forall s l z value s',
  - WORD <= z ->
  index_set s (VArr l) (VInt z) value = Ok s' ->
  index_get s' (VArr l) (VInt z) = Ok (push value s').
Proof.
  intros s l z value s' Hz H.
  assert (G : exists vs, get_arr (v_heap s) l = Ok vs).
  { unfold index_set in H. destruct (get_arr (v_heap s) l); try discriminate H. eauto. }
  destruct G as [vs G].
  destruct (in_range z (zlength vs)) eqn:R.
  - destruct (index_set_array_ok s l vs z value G Hz R) as (E & G' & _ & Hn & _ & Hl).
    rewrite E in H. inversion H; subst s'; clear H.
    assert (Hzl : zlength (replace_nth (Z.to_nat (norm z (zlength vs))) value vs) = zlength vs)
      by (unfold zlength; f_equal; exact Hl).
    destruct (index_get_array_ok (push value (upd_heap s _ (v_gc s))) l _ z G' Hz) as (v & Hv & Eg).
    { rewrite Hzl. exact R. }
    rewrite Hzl in Hv. rewrite Hn in Hv. inversion Hv; subst v. exact Eg.
  - assert (E : index_set s (VArr l) (VInt z) value = Err EIndexError).
    { unfold index_set. rewrite G. vmsimpl. rewrite norm_index_spec by (auto using zlength_nonneg).
      rewrite R. reflexivity. }
    rewrite E in H. discriminate H.
Qed.

(* the same through two global variables (or any two places) holding the same array *)
Corollary alias_sees_write_globals : forall s g1 g2 l z value s',
  - WORD <= z ->
  nth g1 (v_globals s) VNull = VArr l -> nth g2 (v_globals s) VNull = VArr l ->
  index_set s (nth g1 (v_globals s) VNull) (VInt z) value = Ok s' ->
  nth g2 (v_globals s') VNull = VArr l
  /\ index_get s' (nth g2 (v_globals s') VNull) (VInt z) = Ok (push value s').
Proof.
  intros s g1 g2 l z value s' Hz H1 H2 H. rewrite H1 in H.
  destruct (index_set_frame s _ _ _ _ H) as (l0 & o & _ & _ & _ & _ & Hg & _).
  rewrite Hg, H2. split; [reflexivity|]. apply (alias_sees_write s l z value s' Hz H).
Qed.

(* other arrays are not affected *)
Theorem write_does_not_leak : forall s l k z value s' vs,
  index_set s (VArr l) (VInt z) value = Ok s' -> k <> l ->
  get_arr (v_heap s) k = Ok vs -> get_arr (v_heap s') k = Ok vs.
Proof.
  intros s l k z value s' vs H Hk G.
  destruct (index_set_frame s _ _ _ _ H) as (l0 & o & [E|E] & Hh & _); inversion E; subst l0.
  apply get_arr_of. rewrite Hh, h_get_set_cell_other by exact Hk. apply get_arr_inv. exact G.
Qed.

(** * 5. C5: length in characters *)

Theorem length_chars : forall h l t, get_str h l = Ok t ->
  call_length h [VStr l] = Ok (VInt (zlength t), h).
Proof. intros h l t G. unfold call_length, one_arg. rewrite G. reflexivity. Qed.

Theorem length_elements : forall h l vs, get_arr h l = Ok vs ->
  call_length h [VArr l] = Ok (VInt (zlength vs), h).
Proof. intros h l vs G. unfold call_length, one_arg. rewrite G. reflexivity. Qed.

Theorem length_other : forall h v, (forall l, v <> VStr l) -> (forall l, v <> VArr l) ->
  call_length h [v] = Err ETypeError.
Proof.
  intros h v Hs Ha. destruct v; try reflexivity; exfalso; [exact (Hs _ eq_refl)|exact (Ha _ eq_refl)].
Qed.

Lemma with_new_same : forall s v, with_new s (v, v_heap s) = s.
Proof. intros s v. unfold with_new. rewrite Pos.eqb_refl. destruct s; reflexivity. Qed.
Lemma upd_out_nil : forall s, upd_out s (v_out s ++ []) = s.
Proof. intros s. rewrite app_nil_r. destruct s; reflexivity. Qed.

(* the instruction: CallBuiltin lengte 1 on a string pushes its number of code points and
   allocates nothing *)
Theorem length_step : forall orc prog s l t st r,
  code_at prog (v_ip s) (byte_of_opcode OCallBuiltin :: byte_of_builtin BLength :: 1 :: r) ->
  v_stack s = VStr l :: st -> get_str (v_heap s) l = Ok t ->
  step orc prog s
  = Ok (Continue (upd_ip (upd_stack s (VInt (zlength t) :: st) (v_slen s - 1 + 1)) (v_ip s + 3))).
Proof.
  intros orc prog s l t st r H Hst G.
  rewrite (step_CallBuiltin_raw orc prog s (code_at_head _ _ _ _ H)). unfold cont.
  rewrite (read_u8_code prog (upd_ip s (v_ip s + 1)) _ _ (code_at_tail _ _ _ _ H)). cbn [bind].
  rewrite upd_ip_upd_ip. cbn [v_ip upd_ip].
  assert (H2 : code_at prog (v_ip (upd_ip s (v_ip s + 1 + 1))) (1 :: r)).
  { cbn [v_ip upd_ip]. apply (code_at_tail _ _ (byte_of_builtin BLength)). apply (code_at_tail _ _ _ _ H). }
  rewrite (read_u8_code prog _ _ _ H2). cbn [bind]. rewrite upd_ip_upd_ip. cbn [v_ip upd_ip].
  replace (v_ip s + 1 + 1 + 1) with (v_ip s + 3) by lia.
  change (Z.to_nat 1) with 1%nat. cbn [pop_n]. unfold pop.
  change (v_stack (upd_ip s (v_ip s + 3))) with (v_stack s). rewrite Hst. cbn [bind].
  change (builtin_of_byte (byte_of_builtin BLength)) with (Some BLength). cbv iota.
  set (s3 := upd_stack (upd_ip s (v_ip s + 3)) st (v_slen (upd_ip s (v_ip s + 3)) - 1)).
  assert (G3 : get_str (v_heap s3) l = Ok t) by exact G.
  cbn [call_builtin]. rewrite (length_chars _ _ _ G3). cbn [bind fst].
  rewrite with_new_same, upd_out_nil. reflexivity.
Qed.

(** * 6. Examples (non-vacuity) *)

(* "hé!" : 3 code points, 4 UTF-8 bytes *)
Definition ex_text : text := [104%N; 233%N; 33%N].
Definition ex_heap : heap :=
  snd (h_alloc (snd (h_alloc empty_heap (OStr ex_text))) (OArr [VInt 1; VInt 2; VInt 3])).
Definition ex_s : vm := mkVM [] 0 [VArr 2; VArr 2] [mkFrame 0 0] 0 0 VNull ex_heap gc_new [].

Example length_counts_code_points :
  utf8_len ex_text = 4 /\ call_length ex_heap [VStr 1] = Ok (VInt 3, ex_heap)
  /\ call_length ex_heap [VArr 2] = Ok (VInt 3, ex_heap).
Proof. vm_compute. auto. Qed.

Example index_get_examples :
  heap_wf ex_heap
  /\ index_get ex_s (VArr 2) (VInt (-1)) = Ok (push (VInt 3) ex_s)
  /\ index_get ex_s (VArr 2) (VInt 3) = Err EIndexError
  /\ index_get ex_s (VArr 2) (VInt (-4)) = Err EIndexError
  /\ index_get ex_s (VArr 2) (VBool true) = Err ETypeError
  /\ index_get ex_s (VInt 2) (VInt 0) = Err ETypeError
  /\ match index_get ex_s (VStr 1) (VInt 1) with
     | Ok s' => v_stack s' = [VStr 3] /\ get_str (v_heap s') 3 = Ok [233%N]
     | _ => False
     end.
Proof.
  split; [apply heap_wf_alloc, heap_wf_alloc, heap_wf_empty|].
  vm_compute. repeat split; reflexivity.
Qed.

Example index_set_examples :
  match index_set ex_s (VArr 2) (VInt (-3)) (VInt 9) with
  | Ok s' => get_arr (v_heap s') 2 = Ok [VInt 9; VInt 2; VInt 3]
             /\ index_get s' (nth 1 (v_globals s') VNull) (VInt 0) = Ok (push (VInt 9) s')
  | _ => False
  end
  /\ match index_set ex_s (VStr 1) (VInt 1) (VStr 1) with           (* s[1] = s *)
     | Ok s' => get_str (v_heap s') 1 = Ok [104%N; 104%N; 233%N; 33%N; 33%N]
     | _ => False
     end
  /\ index_set ex_s (VStr 1) (VInt 1) (VInt 5) = Err ETypeError
  /\ index_set ex_s (VStr 1) (VInt 3) (VInt 5) = Err EIndexError
  /\ index_set ex_s (VArr 2) (VInt 3) (VInt 5) = Err EIndexError.
Proof. vm_compute. repeat split; reflexivity. Qed.

Print Assumptions norm_index_spec.
Print Assumptions index_get_array_ok.
Print Assumptions index_get_string_ok.
Print Assumptions index_get_err_iff.
Print Assumptions index_set_array_ok.
Print Assumptions index_set_string_ok.
Print Assumptions index_set_string_self.
Print Assumptions set_failure_unchanged.
Print Assumptions index_set_frame.
Print Assumptions getglobal_no_copy.
Print Assumptions setglobal_no_copy.
Print Assumptions setlocal_no_copy.
Print Assumptions pop_no_copy.
Print Assumptions const_no_copy.
Print Assumptions const_string_copied.
Print Assumptions array_no_copy.
Print Assumptions alias_sees_write.
Print Assumptions alias_sees_write_globals.
Print Assumptions write_does_not_leak.
Print Assumptions length_chars.
Print Assumptions length_step.
