(* SessionRefineG.v - property C17 for sessions whose lines are in fragment F2, last part:

   - `session_equals_single_program_F2`: if every line of a session of F2 lines succeeds, what the
     retained (Compiler, VM) pair answers for the last line is what `sem_program` answers for the single
     program made of all the lines (SessionRefineE.session_refines_program_F2 for the model side,
     SessionRefineF.sem_session_is_program_F2 inside Sem).
   - F1 lines whose declarations do not read themselves are F2 lines (`in_F1_in_F2`).
   - Examples by computation: a session with a loop (stop / volgende), an als-chain, block scopes, a
     rejected line and a line that fails while running, meeting every hypothesis; the exclusion of
     finding D30 is necessary (and the finding itself, on the model and on Sem). *)
From Coq Require Import ZArith Lia Bool List String.
From NL.Model Require Import VM Session.
From NL.Spec Require Import Sem SemSession Fragment Fragment2 ArithSpec ScopeSpec.
From NL.Proofs Require Import WordProofs OpsProofs CompileCorrectA CompileCorrectB CompileCorrectC CompileCorrectD
  SessionProofs SessionRefine SessionRefineB SessionRefineC SessionRefineD SessionRefineE SessionRefineF.
From NL.Proofs Require CompilerNames.
Open Scope Z_scope.

(** * 1. The model session whose lines all succeed, read as one program *)

Theorem session_equals_single_program_F2 : forall u orc fuel srcs asts,
  Forall2 (fun src a => parse u (parse_float orc) src = Ok a) srcs asts ->
  session_hyps2 orc fuel compiler_new sem_session_new asts ->
  (forall r, In r (sem_session_run orc fuel sem_session_new asts) -> exists v h out, r = LValue v h out) ->
  asts <> [] -> ends_expr (last asts []) = true -> last asts [] <> [] ->
  exists v h N F, forall budget fuel', (N <= budget)%nat -> (F <= fuel')%nat ->
    sem_program orc fuel' (concat asts) = SemValue v h [] /\
    let o := last (run_session u orc budget session_new srcs) (front_obs session_new OutOfFuel) in
    lo_result o = Ok v /\ lo_out o = [].
Proof.
  intros u orc fuel srcs asts HP HH Hall Hne HE Hlast.
  destruct (session_refines_program_F2 u orc fuel srcs asts HP HH) as [N HN].
  destruct (sem_session_is_program_F2 orc fuel asts (session_hyps2_F2 _ _ _ _ _ HH) Hall Hne Hlast) as [v [h [F [Hl HF]]]].
  exists v, h, N, F. intros budget fuel' Hb Hf. split; [exact (HF fuel' Hf)|].
  pose proof (lines_corr2_last _ _ _ (HN budget Hb) Hne (front_obs session_new OutOfFuel) LFuel) as Hc.
  rewrite Hl in Hc. destruct Hc as [Ho [_ [_ [_ [v' [Hr Hv]]]]]].
  cbv zeta. split; [rewrite Hr, (proj1 (Hv HE)); reflexivity|exact Ho].
Qed.

(** * 2. F1 inside F2 *)

Lemma in_F1e_f2e : forall e lp, in_F1e e = true -> f2e lp e = true.
Proof.
  intros e. induction e as [l IHl op r IHr|op r IHr|z| |b| |x| | |l IHl r IHr| | | |];
    intros lp HF; try discriminate HF; cbn [in_F1e] in HF.
  - apply andb_prop in HF. destruct HF as [HF Hr]. apply andb_prop in HF. destruct HF as [Hop Hl].
    rewrite f2e_infix, Hop, (IHl false Hl), (IHr false Hr). reflexivity.
  - apply andb_prop in HF. destruct HF as [Hop Hr]. rewrite f2e_prefix, Hop, (IHr false Hr). reflexivity.
  - exact HF.
  - reflexivity.
  - reflexivity.
  - destruct l as [| | | | | |x| | | | | | |]; try discriminate HF. rewrite f2e_assign. exact (IHr false HF).
Qed.

(* no declaration of the line reads the variable it declares (F2 excludes `stel x = x`: DESIGN 4.3.7) *)
Definition no_self_init (l : list stmt) : bool :=
  forallb (fun s => match s with SLet x e => negb (mentions x e) | _ => true end) l.

Lemma in_F1_in_F2 : forall l, in_F1 l = true -> no_self_init l = true -> in_F2 l = true.
Proof.
  intros l. unfold in_F2. induction l as [|s r IH]; intros HF HN; [reflexivity|].
  cbn [in_F1 forallb] in HF. apply andb_prop in HF. destruct HF as [H0 Hr].
  unfold no_self_init in HN. cbn [forallb] in HN. apply andb_prop in HN. destruct HN as [N0 Nr].
  rewrite f2b_cons, (IH Hr Nr), andb_true_r.
  destruct s as [x e|e|e| | |]; try discriminate H0; cbn [in_F1s] in H0; cbn [f2s].
  - rewrite (in_F1e_f2e e false H0), N0. reflexivity.
  - exact (in_F1e_f2e e false H0).
Qed.

(** * 2b. A syntactic criterion for the two exclusions *)

Lemma SRel2_static_dyn : forall s sem, SRel2 s sem -> static_of_dyn (sm_dyn sem) = sm_static sem.
Proof. intros s sem [ds [k W]]. rewrite (S2_dyn _ _ _ _ W), (S2_static _ _ _ _ W). apply static_of_dyn_top. Qed.

Lemma f2_not_named_function : forall lp e (c : dctx) (st1 : sstate), f2e lp e = true ->
  match e with
  | EFunction (ch :: name) _ _ => d_declare c (ch :: name) (Pos.pred (st_next st1))
  | _ => c
  end = c.
Proof. intros lp e c st1 H. destruct e; try discriminate H; reflexivity. Qed.

Lemma exec_top_nodecl_ctx : forall orc l, f2b false l = true -> decl_names l = [] -> forall fuel c last st,
  fst (exec_top orc fuel c l last st) = c.
Proof.
  intros orc l. induction l as [|s0 l IH]; intros HF HN fuel c last st; [reflexivity|].
  rewrite f2b_cons in HF. apply andb_prop in HF. destruct HF as [H0 Hl].
  destruct s0 as [x e|e|e|b| |]; try discriminate H0; cbn [decl_names] in HN; [discriminate HN| |].
  - rewrite et_expr. destruct (eval_expr orc fuel c e st) as [v st1| | | |]; try reflexivity.
    cbv zeta. rewrite (f2_not_named_function false e c st1 H0). apply (IH Hl HN).
  - rewrite et_block. destruct (exec_block orc fuel (d_push c) b VNull st) as [v st1| | | |]; try reflexivity.
    apply (IH Hl HN).
Qed.

Lemma static_after_nodecl : forall l, f2b false l = true -> decl_names l = [] -> forall c, static_after c l = c.
Proof.
  intros l. induction l as [|s0 l IH]; intros HF HN c; [reflexivity|].
  rewrite f2b_cons in HF. apply andb_prop in HF. destruct HF as [H0 Hl].
  destruct s0 as [x e|e|e|b| |]; try discriminate H0; cbn [decl_names] in HN; [discriminate HN| |]; cbn [static_after].
  - assert (stmt_declares (SExpr e) = None) as -> by (destruct e; try discriminate H0; reflexivity).
    apply (IH Hl HN).
  - cbn [stmt_declares]. apply (IH Hl HN).
Qed.

(* a line without a top-level `stel` (declarations inside its blocks are fine) is in neither class *)
Theorem decls_done_no_top_decl : forall orc fuel sem ast,
  static_of_dyn (sm_dyn sem) = sm_static sem -> in_F2 ast = true -> decl_names ast = [] ->
  decls_done orc fuel sem ast.
Proof.
  intros orc fuel sem ast Hsd HF HN. unfold decls_done.
  pose proof (exec_top_nodecl_ctx orc ast HF HN fuel (sm_dyn sem) VNull (clear_out (sm_state sem))) as Hc.
  destruct (exec_top orc fuel (sm_dyn sem) ast VNull (clear_out (sm_state sem))) as [c' r]. cbn [fst] in Hc. subst c'.
  rewrite (static_after_nodecl ast HF HN). destruct r; try exact Hsd. exact I.
Qed.

Theorem init_done_no_top_decl : forall orc fuel sem ast, in_F2 ast = true -> decl_names ast = [] ->
  init_done orc fuel sem ast.
Proof.
  intros orc fuel sem ast HF HN. unfold init_done.
  generalize (sm_dyn sem) (clear_out (sm_state sem)). revert HF HN. unfold in_F2.
  induction ast as [|s0 l IH]; intros HF HN c st; [reflexivity|].
  rewrite f2b_cons in HF. apply andb_prop in HF. destruct HF as [H0 Hl].
  destruct s0 as [x e|e|e|b| |]; try discriminate H0; cbn [decl_names] in HN; [discriminate HN| |]; cbn [init_fail].
  - destruct (eval_expr orc fuel c e st) as [v st1| | | |]; try reflexivity.
    cbv zeta. rewrite (f2_not_named_function false e c st1 H0). apply (IH Hl HN).
  - destruct (exec_block orc fuel (d_push c) b VNull st) as [v st1| | | |]; try reflexivity. apply (IH Hl HN).
Qed.

(** * 3. Examples (by computation) *)

Module SRGExamples.
  Import SRExamples.
  Local Open Scope string_scope.

  (* block scopes, a loop with volgende / stop inside an als - anders als - anders chain, an als as a value,
     a line the compiler rejects, a line that fails while running inside a block after an assignment,
     a redeclaration that takes over the slot of a dead block-local variable *)
  Definition ex_srcs : list text :=
    map str_cps
      [ "stel i = 0; stel t = 0; { stel d = 7; t = d }";        (* a block-local d: slot 2 stays behind *)
        "zolang ja { i = i + 1; als i == 3 { volgende } anders als i > 6 { stop } anders { { stel d = i * 2; t = t + d } } }; i";
        "stel u = als t > 10 { t - 10 } anders { 0 }; u";      (* u takes slot 2 over; 33 *)
        "u + v";                                               (* ReferenceError: nothing changes *)
        "t = 1; { stel q = t / 0; t = 2 }; t = 3";             (* TypeError inside the block, after t = 1 *)
        "t + u" ].                                             (* 34 *)
  Definition ex_asts : list block := Eval vm_compute in map ast_of ex_srcs.

  Example ex_parses : Forall2 (fun src a => parse u0 (parse_float orc0) src = Ok a) ex_srcs ex_asts.
  Proof. repeat constructor. Qed.

  Example ex_hyps : session_hyps2 orc0 100 compiler_new sem_session_new ex_asts.
  Proof.
    vm_compute. repeat split; try (apply Nat.leb_le; reflexivity); try discriminate.
  Qed.

  Example ex_model : map lo_result (run_session u0 orc0 1000 session_new ex_srcs)
    = [Ok (VInt 7); Ok (VInt 7); Ok (VInt 33); Err EReferenceError; Err ETypeError; Ok (VInt 34)].
  Proof. vm_compute. reflexivity. Qed.

  Example ex_sem : exists h1 h2 h3 h4, sem_session_run orc0 100 sem_session_new ex_asts
    = [LValue (VInt 7) h1 []; LValue (VInt 7) h2 []; LValue (VInt 33) h3 []; LRejected EReferenceError;
       LError ETypeError []; LValue (VInt 34) h4 []].
  Proof. vm_compute. eexists. eexists. eexists. eexists. reflexivity. Qed.

  Example ex_by_theorem : exists N, forall budget, (N <= budget)%nat ->
    lines_corr2 ex_asts (run_session u0 orc0 budget session_new ex_srcs)
                (sem_session_run orc0 100 sem_session_new ex_asts).
  Proof. exact (session_refines_program_F2 u0 orc0 100 ex_srcs ex_asts ex_parses ex_hyps). Qed.

  (* one growing program: three lines with a loop and an als-chain that all succeed *)
  Definition one_srcs : list text :=
    map str_cps
      [ "stel i = 0; stel t = 0";
        "zolang ja { i = i + 1; als i == 3 { volgende } anders als i > 6 { stop } anders { { stel d = i * 2; t = t + d } } }; i";
        "als t > 10 { t - 10 } anders { 0 }" ].
  Definition one_asts : list block := Eval vm_compute in map ast_of one_srcs.
  Example one_parses : Forall2 (fun src a => parse u0 (parse_float orc0) src = Ok a) one_srcs one_asts.
  Proof. repeat constructor. Qed.
  Example one_hyps : session_hyps2 orc0 100 compiler_new sem_session_new one_asts.
  Proof. vm_compute. repeat split; try (apply Nat.leb_le; reflexivity); try discriminate. Qed.
  Example one_all_succeed : forall r, In r (sem_session_run orc0 100 sem_session_new one_asts) ->
    exists v h out, r = LValue v h out.
  Proof. vm_compute. intros r [<-|[<-|[<-|[]]]]; eexists; eexists; eexists; reflexivity. Qed.
  Example one_by_theorem : exists v h N F, forall budget fuel', (N <= budget)%nat -> (F <= fuel')%nat ->
    sem_program orc0 fuel' (concat one_asts) = SemValue v h [] /\
    let o := last (run_session u0 orc0 budget session_new one_srcs) (front_obs session_new OutOfFuel) in
    lo_result o = Ok v /\ lo_out o = [].
  Proof.
    apply (session_equals_single_program_F2 u0 orc0 100 one_srcs one_asts one_parses one_hyps one_all_succeed);
      [discriminate|reflexivity|discriminate].
  Qed.
  Example one_computed :
    lo_result (last (run_session u0 orc0 1000 session_new one_srcs) (front_obs session_new OutOfFuel)) = Ok (VInt 26) /\
    exists h, sem_program orc0 100 (concat one_asts) = SemValue (VInt 26) h [].
  Proof. split; [vm_compute; reflexivity|]. vm_compute. eexists. reflexivity. Qed.

  (* Finding D30 (class stale_slot_after_failed_initialiser): the hypothesis init_done is necessary.
     `{ stel a = 5 }` leaves 5 in slot 0; `stel b = 1 / 0` compiles (b gets slot 0), fails before its
     SetGlobal, and the compiler keeps b; the line `b` then reads 5 on the model (and on the Rust binary),
     null in the meaning of the session (Sem's fresh cell of b was never assigned).
     Every other hypothesis of line_refines_F2 holds for the second line - in particular decls_done:
     b is declared on both sides. *)
  Definition d30_srcs : list text := map str_cps [ "{ stel a = 5 }"; "stel b = 1 / 0"; "b" ].
  Definition d30_asts : list block := Eval vm_compute in map ast_of d30_srcs.
  Definition d30_a1 : block := Eval vm_compute in nth 0 d30_asts [].
  Definition d30_a2 : block := Eval vm_compute in nth 1 d30_asts [].

  Example d30_differs :
    map lo_result (run_session u0 orc0 100 session_new d30_srcs) = [Ok VNull; Err ETypeError; Ok (VInt 5)] /\
    exists h1 h3, sem_session_run orc0 100 sem_session_new d30_asts
                  = [LValue VNull h1 []; LError ETypeError []; LValue VNull h3 []].
  Proof. split; [vm_compute; reflexivity|]. vm_compute. eexists. eexists. reflexivity. Qed.

  Example d30_only_init_done_fails :
    let st1 := fst (compile_ast d30_a1 compiler_new) in
    let sem1 := fst (sem_line' orc0 100 sem_session_new d30_a1) in
    in_F2 d30_a2 = true /\ (CompilerNames.bsize d30_a2 <= 100)%nat /\
    snd (sem_line' orc0 100 sem1 d30_a2) <> LFuel /\
    snd (compile_ast d30_a2 st1) <> Err ESyntaxError /\
    decls_done orc0 100 sem1 d30_a2 /\
    ~ init_done orc0 100 sem1 d30_a2.
  Proof.
    cbv zeta. split; [reflexivity|]. split; [apply Nat.leb_le; reflexivity|].
    split; [vm_compute; discriminate|]. split; [vm_compute; discriminate|].
    split; [vm_compute; reflexivity|].
    intros H. vm_compute in H. discriminate H.
  Qed.

  (* the same inside one line: the block and the failing declaration on the same line *)
  Definition d30b_srcs : list text := map str_cps [ "{ stel a = 5 }; stel b = 1 / 0"; "b" ].
  Definition d30b_asts : list block := Eval vm_compute in map ast_of d30b_srcs.
  Example d30b_differs :
    map lo_result (run_session u0 orc0 100 session_new d30b_srcs) = [Err ETypeError; Ok (VInt 5)] /\
    exists h, sem_session_run orc0 100 sem_session_new d30b_asts = [LError ETypeError []; LValue VNull h []].
  Proof. split; [vm_compute; reflexivity|]. vm_compute. eexists. reflexivity. Qed.

  (* with a fresh slot the same failing declaration is harmless: null on both sides *)
  Definition fresh_srcs : list text := map str_cps [ "stel b = 1 / 0"; "b" ].
  Definition fresh_asts : list block := Eval vm_compute in map ast_of fresh_srcs.
  Example fresh_agrees :
    map lo_result (run_session u0 orc0 100 session_new fresh_srcs) = [Err ETypeError; Ok VNull] /\
    exists h, sem_session_run orc0 100 sem_session_new fresh_asts = [LError ETypeError []; LValue VNull h []].
  Proof. split; [vm_compute; reflexivity|]. vm_compute. eexists. reflexivity. Qed.

  (* block-local declarations never outlive their line, on either side: after a line that fails inside a
     block, the block's variable is undeclared for the compiler and for the meaning of the session *)
  Definition blk_srcs : list text := map str_cps [ "{ stel q = 1; q / 0 }"; "q" ].
  Definition blk_asts : list block := Eval vm_compute in map ast_of blk_srcs.
  Example blk_hyps : session_hyps2 orc0 100 compiler_new sem_session_new blk_asts.
  Proof. vm_compute. repeat split; try (apply Nat.leb_le; reflexivity); try discriminate. Qed.
  Example blk_agrees :
    map lo_result (run_session u0 orc0 100 session_new blk_srcs) = [Err ETypeError; Err EReferenceError] /\
    sem_session_run orc0 100 sem_session_new blk_asts = [LError ETypeError []; LRejected EReferenceError].
  Proof. split; vm_compute; reflexivity. Qed.
End SRGExamples.

Print Assumptions session_equals_single_program_F2.
Print Assumptions in_F1_in_F2.
Print Assumptions decls_done_no_top_decl.
Print Assumptions init_done_no_top_decl.
