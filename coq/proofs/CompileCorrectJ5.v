(* CompileCorrectJ5.v - compiler correctness for the fragment F4 (functions + heap values + builtins),
   part J5: the function literals of a program (CompileCorrectH.v redone for F4).

   Part J4 relates Sem's closures to the evaluator's table entries under two hypotheses on the set
   `Sall` of entries that may ever be created: the entries of a literal's body are again in the set
   (`Sclosed`) and two entries with the same entry point are the same entry (`Suniq`).  Here both are
   proved for the set of the literals that occur in a compiled program (`occ_l p compiler_new`): the
   entry point of a literal lies strictly inside the code range of every construct around it and
   the ranges of sibling constructs do not overlap.  `fun_table p` is the table "entry point, number
   of locals |-> number of parameters" of those literals (used by Fragment4.hits_excluded4). *)
From Coq Require Import ZArith Lia Bool List String.
From NL.Model Require Import VM.
From NL.Spec Require Import Sem Fragment Fragment2 Fragment2h Fragment3 Fragment4 ArithSpec.
From NL.Spec Require ScopeSpec.
From NL.Proofs Require VMStepProofs CompilerNames SymbolsProofs PoolProofs.
From NL.Proofs Require Import WordProofs OpsProofs AstInduction ControlProofs VMGCLedger
  CompileCorrectA CompileCorrectB CompileCorrectC CompileCorrectD CompileCorrectH1
  CompileCorrectJ1 CompileCorrectJ2 CompileCorrectJ3 CompileCorrectJ4.
Open Scope Z_scope.

Scheme occ_e_ind2 := Induction for occ_e Sort Prop
  with occ_es_ind2 := Induction for occ_es Sort Prop
  with occ_blk_ind2 := Induction for occ_blk Sort Prop
  with occ_l_ind2 := Induction for occ_l Sort Prop
  with occ_s_ind2 := Induction for occ_s Sort Prop.
Combined Scheme occ_mutind from occ_e_ind2, occ_es_ind2, occ_blk_ind2, occ_l_ind2, occ_s_ind2.

(** * The literals inside a literal of the program are literals of the program *)

Lemma occ_closed :
  (forall e st fe, occ_e e st fe -> forall fe', occ_blk (fe_body fe) (fe_st fe) fe' -> occ_e e st fe') /\
  (forall l st fe, occ_es l st fe -> forall fe', occ_blk (fe_body fe) (fe_st fe) fe' -> occ_es l st fe') /\
  (forall b st fe, occ_blk b st fe -> forall fe', occ_blk (fe_body fe) (fe_st fe) fe' -> occ_blk b st fe') /\
  (forall l st fe, occ_l l st fe -> forall fe', occ_blk (fe_body fe) (fe_st fe) fe' -> occ_l l st fe') /\
  (forall s st fe, occ_s s st fe -> forall fe', occ_blk (fe_body fe) (fe_st fe) fe' -> occ_s s st fe').
Proof.
  apply (occ_mutind
    (fun e st fe _ => forall fe', occ_blk (fe_body fe) (fe_st fe) fe' -> occ_e e st fe')
    (fun l st fe _ => forall fe', occ_blk (fe_body fe) (fe_st fe) fe' -> occ_es l st fe')
    (fun b st fe _ => forall fe', occ_blk (fe_body fe) (fe_st fe) fe' -> occ_blk b st fe')
    (fun l st fe _ => forall fe', occ_blk (fe_body fe) (fe_st fe) fe' -> occ_l l st fe')
    (fun s st fe _ => forall fe', occ_blk (fe_body fe) (fe_st fe) fe' -> occ_s s st fe')).
  all: intros.
  (* goal by goal: backtracking across goals makes the constructor search exponential *)
  all: [> (solve [econstructor; solve [eauto]]) .. ].
Qed.

(** * Code lengths *)

Definition wfs (st : cstate) : Prop := exists pre sc k outer cur, wfshape st pre sc k outer cur.

Lemma code_len_emit_u16 : forall v st, code_len (emit_u16 v st) = code_len st + 2.
Proof. intros. unfold code_len, emit_u16. cbn [c_code]. rewrite zlength_app. reflexivity. Qed.

Lemma len_expr : forall e lp fa fn st st', f4e lp fa fn e = true -> compile_expression e st = Ok st' -> wfs st ->
  wfs st' /\ code_len st <= code_len st'.
Proof.
  intros e lp fa fn st st' HF Hc [pre [sc [k [outer [cur [Hs [Hp Hw]]]]]]].
  destruct (esim_all dummy_pl dummy_orc e lp fa fn st st' pre sc k outer cur HF Hs Hp Hw Hc) as [ce [nb [k' [CF _]]]].
  split.
  - exists pre, sc, k', outer, cur. split; [exact (cf3_syms _ _ _ _ _ _ _ _ _ CF)|]. split; [exact Hp|exact (cf3_wf _ _ _ _ _ _ _ _ _ CF)].
  - rewrite (cfacts3_len _ _ _ _ _ _ _ _ _ CF). pose proof (zlength_nonneg _ ce). lia.
Qed.

Lemma len_bv : forall b lp fa fn st st', f4b lp fa fn b = true -> c_block_value b st = Ok st' -> wfs st ->
  wfs st' /\ code_len st <= code_len st'.
Proof.
  intros b lp fa fn st st' HF Hc [pre [sc [k [outer [cur [Hs [Hp Hw]]]]]]].
  destruct (bv_sim dummy_pl dummy_orc b (lsim_all dummy_pl dummy_orc b) lp fa fn st st' pre sc k outer cur HF Hs Hp Hw Hc) as [ce [nb [k' [CF _]]]].
  split.
  - exists pre, sc, k', outer, cur. split; [exact (cf3_syms _ _ _ _ _ _ _ _ _ CF)|]. split; [exact Hp|exact (cf3_wf _ _ _ _ _ _ _ _ _ CF)].
  - rewrite (cfacts3_len _ _ _ _ _ _ _ _ _ CF). pose proof (zlength_nonneg _ ce). lia.
Qed.

Lemma len_exprs : forall args fa fn st st', f4es fa fn args = true -> CompilerNames.compile_exprs args st = Ok st' -> wfs st ->
  wfs st' /\ code_len st <= code_len st'.
Proof.
  intros args fa fn st st' HF Hc [pre [sc [k [outer [cur [Hs [Hp Hw]]]]]]].
  assert (Forall (esim dummy_pl dummy_orc) args) as Ha by (apply Forall_forall; intros x _; apply esim_all).
  destruct (asim_all dummy_pl dummy_orc args Ha fa fn st st' pre sc k outer cur HF Hs Hp Hw Hc) as [ce [nb [k' [CF _]]]].
  split.
  - exists pre, sc, k', outer, cur. split; [exact (cf3_syms _ _ _ _ _ _ _ _ _ CF)|]. split; [exact Hp|exact (cf3_wf _ _ _ _ _ _ _ _ _ CF)].
  - rewrite (cfacts3_len _ _ _ _ _ _ _ _ _ CF). pose proof (zlength_nonneg _ ce). lia.
Qed.

Lemma len_stmts : forall l lp fa fn st st', f4b lp fa fn l = true -> compile_statements l st = Ok st' -> wfs st ->
  wfs st' /\ code_len st <= code_len st'.
Proof.
  intros l lp fa fn st st' HF Hc [pre [sc [k [outer [cur [Hs [Hp Hw]]]]]]].
  destruct (lsim_all dummy_pl dummy_orc l lp fa fn st st' pre sc k outer cur HF Hs Hp Hw Hc) as [ce [nb [k' [[CF _] _]]]].
  split.
  - exists pre, sc, k', outer, (cur ++ decl_names3 l). split; [exact (cf3_syms _ _ _ _ _ _ _ _ _ CF)|].
    split; [exact Hp|exact (cf3_wf _ _ _ _ _ _ _ _ _ CF)].
  - rewrite (cfacts3_len _ _ _ _ _ _ _ _ _ CF). pose proof (zlength_nonneg _ ce). lia.
Qed.

Lemma len_stmt : forall s lp fa fn st st', f4s lp fa fn s = true -> compile_statement s st = Ok st' -> wfs st ->
  wfs st' /\ code_len st <= code_len st'.
Proof.
  intros s lp fa fn st st' HF Hc W. apply (len_stmts [s] lp fa fn st st'); [rewrite f4b_cons, HF; reflexivity| |exact W].
  cbn [compile_statements]. rewrite Hc. reflexivity.
Qed.

Definition enter (st : cstate) : cstate := set_symbols st (enter_scope (c_symbols st)).

Lemma wfs_enter : forall st, wfs st -> wfs (enter st).
Proof.
  intros st [pre [sc [k [outer [cur [Hs [Hp Hw]]]]]]]. exists pre, sc, k, (outer ++ [cur]), [].
  split; [unfold enter; cbn [set_symbols c_symbols]; rewrite Hs; apply enter_ltab|]. split; [exact Hp|]. rewrite flat_enter. exact Hw.
Qed.

Lemma wfs_syms : forall st st1, c_symbols st1 = c_symbols st -> wfs st -> wfs st1.
Proof.
  intros st st1 E [pre [sc [k [outer [cur W]]]]]. exists pre, sc, k, outer, cur. exact (wfshape_eq _ _ _ _ _ _ _ W E).
Qed.

Lemma wfs_fun_st3 : forall ps st1, wfs st1 -> wfs (fun_st3 ps st1).
Proof.
  intros ps st1 [pre [sc [k [outer [cur [Hs [Hp Hw]]]]]]].
  exists (ltab pre sc k outer cur), SLocal, (length ps), [], ps.
  split; [exact (fun_st3_syms ps st1 _ _ _ _ _ Hs)|]. split; [exact (pre_ok_new pre sc k outer cur Hp Hw)|].
  rewrite flat_nil. lia.
Qed.

(* a function literal after its name has been declared: the body, then at least Const idx *)
Lemma fun_tail_len : forall ps body sym st1 st', f4b false true true body = true -> wfs st1 ->
  fun_tail ps body sym st1 = Ok st' ->
  exists st4, c_block_statement body (fun_st3 ps st1) = Ok st4 /\ code_len (fun_st3 ps st1) = code_len st1 + 3 /\
    code_len (fun_st3 ps st1) <= code_len st4 /\ code_len st4 + 3 <= code_len st'.
Proof.
  intros ps body sym st1 st' HFb [pre [sc [k1 [outer [cur1 [Hs1 [Hp Hw1]]]]]]] Hc. unfold fun_tail in Hc.
  set (st2 := emit_u16 JUMP_PLACEHOLDER (emit_opcode OJump st1)) in *.
  set (pre' := ltab pre sc k1 outer cur1).
  assert (fold_left (fun t p => fst (define t p)) ps (new_context (c_symbols st2)) = ltab pre' SLocal (length ps) [] ps) as Et3.
  { change (c_symbols st2) with (c_symbols st1). rewrite Hs1, new_context_ltab, defines_ltab.
    rewrite Nat.add_0_r. reflexivity. }
  rewrite Et3 in Hc.
  assert (fun_st3 ps st1 = set_loops (set_symbols st2 (ltab pre' SLocal (length ps) [] ps)) []) as Est3.
  { unfold fun_st3. fold st2. rewrite Et3. reflexivity. }
  set (st3 := set_loops (set_symbols st2 (ltab pre' SLocal (length ps) [] ps)) []) in *.
  cbv zeta in Hc.
  apply bind_ok in Hc. destruct Hc as [st4 [H4 Hc]].
  assert (pre_ok pre' SLocal) as Hp'. { unfold pre'. apply pre_ok_new; assumption. }
  destruct (body_all dummy_pl dummy_orc body (lsim_all dummy_pl dummy_orc body) HFb st3 st4 pre' (length ps) ps eq_refl Hp' (Nat.le_refl _) eq_refl H4)
    as [ce_b [k4 [Hs4 [Hk4 [Hcode4 [Hx4 [Hl4 [Hpop4 _]]]]]]]].
  change (c_loops (set_symbols st2 (ltab pre' SLocal (length ps) [] ps))) with (c_loops st1) in Hc.
  set (st5 := set_loops st4 (c_loops st1)) in *.
  set (pop := last_instruction_is OPop st4). set (ret := last_instruction_is OReturnValue st4).
  change (last_instruction_is OPop st5) with pop in Hc. change (last_instruction_is OReturnValue st5) with ret in Hc.
  set (st6 := if pop then emit_opcode OReturnValue (remove_last_instruction st5)
              else if ret then st5 else emit_opcode OReturn st5) in *.
  assert (code_len st4 <= code_len st6) as L6.
  { pose proof (code_len_app _ _ _ Hcode4) as L4. unfold st6. destruct pop eqn:Epop.
    - destruct (Hpop4 Epop) as [ce' Hce'].
      assert (c_code (emit_opcode OReturnValue (remove_last_instruction st5)) = c_code st3 ++ ce' ++ [byte_of_opcode OReturnValue]) as Hc6.
      { cbn [emit_opcode remove_last_instruction c_code]. unfold st5. cbn [set_loops c_code].
        rewrite Hcode4, Hce', app_assoc, !removelast_last, <- app_assoc. reflexivity. }
      rewrite (code_len_app _ _ _ Hc6), L4, Hce'. unfold zlength. rewrite !app_length. cbn [length]. lia.
    - destruct ret; [unfold st5, code_len; cbn [set_loops c_code]; lia|].
      rewrite code_len_emit_opcode. unfold st5, code_len. cbn [set_loops c_code]. lia. }
  apply bind_ok in Hc. destruct Hc as [target [Ht Hc]].
  apply bind_ok in Hc. destruct Hc as [st7 [H7 Hc]].
  destruct (change_jump_spec _ _ _ _ (code_len_nonneg st1) H7) as [_ [_ [_ [_ [_ [A6 _]]]]]].
  pose proof (code_len_length _ _ A6) as L7.
  destruct (leave_context (c_symbols st7)) as [t8 num_locals].
  apply bind_ok in Hc. destruct Hc as [ip [Hip Hc]].
  apply bind_ok in Hc. destruct Hc as [nl [Hnl Hc]].
  destruct (add_constant (KFun ip nl) (set_symbols st7 t8)) as [st9 r] eqn:E9.
  destruct (add_constant_k3 _ _ st9 r (or_intror (ex_intro _ _ (ex_intro _ _ eq_refl))) E9) as [_ [Hcode9 _]].
  apply bind_ok in Hc. destruct Hc as [idx [-> Hc]].
  assert (code_len st9 = code_len st7) as L9 by (unfold code_len; rewrite Hcode9; reflexivity).
  exists st4. rewrite Est3. split; [exact H4|].
  assert (code_len st3 = code_len st1 + 3) as L3.
  { unfold st3, st2, code_len. cbn [set_loops set_symbols emit_u16 emit_opcode c_code]. unfold zlength. rewrite !app_length. cbn [length]. lia. }
  split; [exact L3|]. split; [rewrite (code_len_app _ _ _ Hcode4); pose proof (zlength_nonneg _ ce_b); lia|].
  destruct sym as [s|].
  - apply bind_ok in Hc. destruct Hc as [st11 [H11 Hc]]. inversion Hc; subst st'.
    destruct (emit_sym_spec _ _ _ _ H11) as [_ [_ [_ Hc11]]].
    rewrite code_len_emit_u16, code_len_emit_opcode, (code_len_app _ _ _ Hc11), zlength3,
            code_len_emit_u16, code_len_emit_opcode. lia.
  - inversion Hc; subst st'. rewrite code_len_emit_u16, code_len_emit_opcode. lia.
Qed.

Lemma change_jump_len : forall idx v st st', change_jump_operand_at idx v st = Ok st' -> code_len st' = code_len st.
Proof.
  intros idx v st st' H. unfold change_jump_operand_at in H.
  destruct (nth_error (c_code st) (Z.to_nat idx)) as [b|]; [|discriminate H].
  destruct ((b =? byte_of_opcode OJump) || (b =? byte_of_opcode OJumpIfFalse)); [|discriminate H].
  inversion H. unfold code_len, zlength. cbn [c_code]. rewrite !length_replace_nth. reflexivity.
Qed.

Lemma patch_breaks_len : forall bs st st', patch_breaks bs st = Ok st' -> code_len st' = code_len st.
Proof.
  intros bs. unfold patch_breaks.
  change (fun acc ip => do s <- acc; do tg <- operand 16 (code_len s); change_jump_operand_at ip tg s) with patch_step.
  induction bs as [|ip bs IH]; intros st st' H; cbn [fold_left] in H; [inversion H; reflexivity|].
  destruct (patch_step (Ok st) ip) as [s1| | |] eqn:E1;
    try (rewrite patch_fold_stuck in H by (intros s; discriminate); discriminate H).
  unfold patch_step in E1. cbn [bind] in E1. apply bind_ok in E1. destruct E1 as [tg [_ E1]].
  rewrite (IH s1 st' H). exact (change_jump_len _ _ _ _ E1).
Qed.

(** * Compiled constructs of the fragment and their parts *)

Definition okE (e : expr) (st st' : cstate) : Prop :=
  (exists lp fa fn, f4s lp fa fn (SExpr e) = true) /\ wfs st /\ compile_expression e st = Ok st'.
Definition okA (l : list expr) (st st' : cstate) : Prop :=
  (exists fa fn, f4es fa fn l = true) /\ wfs st /\ CompilerNames.compile_exprs l st = Ok st'.
Definition okL (l : list stmt) (st st' : cstate) : Prop :=
  (exists lp fa fn, f4b lp fa fn l = true) /\ wfs st /\ compile_statements l st = Ok st'.
Definition okS (s : stmt) (st st' : cstate) : Prop :=
  (exists lp fa fn, f4s lp fa fn s = true) /\ wfs st /\ compile_statement s st = Ok st'.
Definition okV (b : list stmt) (st st' : cstate) : Prop :=
  (exists lp fa fn, f4b lp fa fn b = true) /\ wfs st /\ c_block_value b st = Ok st'.

Lemma f4e_f4s : forall lp fa fn e, f4e lp fa fn e = true -> f4s lp fa fn (SExpr e) = true.
Proof.
  intros lp fa fn e H. rewrite f4s_expr_other; [exact H|]. intros c nm ps body ->.
  rewrite f4e_function in H. cbn [is_nil] in H. rewrite andb_false_r in H. discriminate H.
Qed.

Lemma okE_of : forall lp fa fn e st st', f4e lp fa fn e = true -> wfs st -> compile_expression e st = Ok st' -> okE e st st'.
Proof. intros lp fa fn e st st' H W C. split; [exists lp, fa, fn; apply f4e_f4s; exact H|auto]. Qed.

Ltac bok H a Ha := apply bind_ok in H; destruct H as [a [Ha H]].

(* a function literal, named or not *)
Lemma ch_function : forall name ps body st st', okE (EFunction name ps body) st st' ->
  let st3 := fun_st3 ps (fst (fun_st1 name st)) in
  f4b false true true body = true /\ wfs st3 /\ wfs st' /\
  exists st4, c_block_statement body st3 = Ok st4 /\ code_len st3 = code_len st + 3 /\
    code_len st3 <= code_len st4 /\ code_len st4 + 3 <= code_len st'.
Proof.
  intros name ps body st st' [[lp [fa [fn HF]]] [W Hc]] st3.
  assert (f4b false true true body = true) as HFb.
  { destruct name as [|c0 nm].
    - rewrite f4s_expr_other in HF by (intros; discriminate). rewrite f4e_function in HF.
      apply andb_prop in HF. exact (proj2 HF).
    - rewrite f4s_expr_named in HF. apply andb_prop in HF. exact (proj2 HF). }
  rewrite ce_function3 in Hc. unfold st3. destruct (fun_st1 name st) as [st1 sym] eqn:E1. cbn [fst].
  assert (wfs st1 /\ code_len st1 = code_len st) as [W1 L1].
  { unfold fun_st1 in E1. destruct (is_nil name); [inversion E1; subst; auto|].
    destruct (define (c_symbols st) name) as [t s] eqn:Ed. inversion E1; subst st1 sym. split; [|reflexivity].
    destruct W as [pre [sc [k [outer [cur [Hs [Hp Hw]]]]]]]. rewrite Hs, define_ltab in Ed. inversion Ed; subst t s.
    exists pre, sc, (S k), outer, (cur ++ [name]). split; [reflexivity|]. split; [exact Hp|].
    rewrite flat_snoc, app_length. cbn [length]. lia. }
  destruct (fun_tail_len ps body sym st1 st' HFb W1 Hc) as [st4 [H4 [L3 [L4 L5]]]].
  split; [exact HFb|]. split; [exact (wfs_fun_st3 ps st1 W1)|]. split.
  - destruct W1 as [pre [sc [k [outer [cur [Hs [Hp Hw]]]]]]].
    assert (forall s, sym = Some s -> s_scope s = sc /\ (s_index s < k)%nat) as Hsym.
    { intros s ->. unfold fun_st1 in E1. destruct (is_nil name); [discriminate E1|].
      destruct (define (c_symbols st) name) as [t s'] eqn:Ed. inversion E1; subst st1 s'.
      destruct W as [pre0 [sc0 [k0 [outer0 [cur0 [Hs0 [Hp0 Hw0]]]]]]]. rewrite Hs0, define_ltab in Ed. inversion Ed; subst t s.
      cbn [set_symbols c_symbols] in Hs. apply ltab_inj in Hs. destruct Hs as [-> [-> [<- [-> <-]]]].
      cbn [s_scope s_index]. split; [reflexivity|lia]. }
    destruct (function_tail_sim dummy_pl dummy_orc ps body sym (lsim_all dummy_pl dummy_orc body) HFb st1 st' pre sc k outer cur Hs Hp Hw Hsym Hc)
      as [ce [CF _]].
    exists pre, sc, k, outer, cur. split; [exact (cf3_syms _ _ _ _ _ _ _ _ _ CF)|]. split; [exact Hp|exact (cf3_wf _ _ _ _ _ _ _ _ _ CF)].
  - exists st4. split; [exact H4|]. split; [lia|]. split; [exact L4|exact L5].
Qed.

Lemma okE_len : forall e st st', okE e st st' -> wfs st' /\ code_len st <= code_len st'.
Proof.
  intros e st st' H.
  assert ((exists c0 nm ps body, e = EFunction (c0 :: nm) ps body) \/
          (forall c0 nm ps body, e <> EFunction (c0 :: nm) ps body)) as [[c0 [nm [ps [body ->]]]]|Hne].
  { destruct e; try (right; intros; discriminate). destruct name as [|c0 nm]; [right; intros; discriminate|left; eauto]. }
  - destruct (ch_function _ _ _ _ _ H) as [_ [_ [W' [st4 [_ [L3 [L4 L5]]]]]]]. split; [exact W'|lia].
  - destruct H as [[lp [fa [fn HF]]] [W Hc]]. rewrite (f4s_expr_other _ _ _ e Hne) in HF.
    exact (len_expr e lp fa fn st st' HF Hc W).
Qed.

Lemma okA_len : forall l st st', okA l st st' -> wfs st' /\ code_len st <= code_len st'.
Proof. intros l st st' [[fa [fn HF]] [W Hc]]. exact (len_exprs l fa fn st st' HF Hc W). Qed.
Lemma okL_len : forall l st st', okL l st st' -> wfs st' /\ code_len st <= code_len st'.
Proof. intros l st st' [[lp [fa [fn HF]]] [W Hc]]. exact (len_stmts l lp fa fn st st' HF Hc W). Qed.
Lemma okS_len : forall s st st', okS s st st' -> wfs st' /\ code_len st <= code_len st'.
Proof. intros s st st' [[lp [fa [fn HF]]] [W Hc]]. exact (len_stmt s lp fa fn st st' HF Hc W). Qed.
Lemma okV_len : forall b st st', okV b st st' -> wfs st' /\ code_len st <= code_len st'.
Proof. intros b st st' [[lp [fa [fn HF]]] [W Hc]]. exact (len_bv b lp fa fn st st' HF Hc W). Qed.

Lemma ch_prefix : forall op r st st', okE (EPrefix op r) st st' ->
  exists st1, okE r st st1 /\ code_len st1 <= code_len st'.
Proof.
  intros op r st st' [[lp [fa [fn HF]]] [W Hc]]. rewrite f4s_expr_other in HF by (intros; discriminate).
  rewrite f4e_prefix in HF. apply andb_prop in HF. destruct HF as [Hop HF]. rewrite ce_prefix in Hc. bok Hc st1 H1.
  exists st1. split; [exact (okE_of _ _ _ _ _ _ HF W H1)|].
  destruct op; try discriminate Hop; inversion Hc; rewrite code_len_emit_opcode; lia.
Qed.

Lemma ch_assign : forall x r st st', okE (EAssign (EIdent x) r) st st' ->
  exists st1, okE r st st1 /\ code_len st1 <= code_len st'.
Proof.
  intros x r st st' [[lp [fa [fn HF]]] [W Hc]]. rewrite f4s_expr_other in HF by (intros; discriminate).
  rewrite f4e_assign in HF. rewrite ce_assign_ident in Hc.
  destruct (resolve (c_symbols st) x) as [sy|]; [|discriminate Hc]. bok Hc st1 H1. bok Hc st2 H2.
  exists st1. split; [exact (okE_of _ _ _ _ _ _ HF W H1)|].
  destruct (emit_sym_spec _ _ _ _ H2) as [_ [_ [_ C2]]]. destruct (emit_sym_spec _ _ _ _ Hc) as [_ [_ [_ C3]]].
  rewrite (code_len_app _ _ _ C3), (code_len_app _ _ _ C2), !zlength3. lia.
Qed.

Lemma ch_infix : forall l op r st st', okE (EInfix l op r) st st' ->
  (exists name v, (l = EIdent name /\ r = EInt v) \/ (l = EInt v /\ r = EIdent name)) \/
  (infix_st0 l op r st = st /\ exists st1 st2, okE l st st1 /\ okE r st1 st2 /\ code_len st2 <= code_len st').
Proof.
  intros l op r st st' [[lp [fa [fn HF]]] [W Hc]]. rewrite f4s_expr_other in HF by (intros; discriminate).
  rewrite f4e_infix in HF. apply andb_prop in HF. destruct HF as [HF Hr]. apply andb_prop in HF. destruct HF as [Hop Hl].
  rewrite ce_infix in Hc. destruct (fused_candidate l r op) as [[[name v] op']|] eqn:Ef.
  - left. exists name, v.
    destruct (PoolProofs.fused_selection_sound _ _ _ _ _ _ Ef) as [(-> & -> & _)|(-> & -> & _)]; auto.
  - right. split; [unfold infix_st0; rewrite Ef; reflexivity|].
    unfold generic_infix in Hc. bok Hc st1 H1. bok Hc st2 H2.
    destruct (assoc operator_eqb op compile_operator_table) as [opc|]; [|discriminate Hc]. inversion Hc; subst st'.
    exists st1, st2. split; [exact (okE_of _ _ _ _ _ _ Hl W H1)|].
    split; [exact (okE_of _ _ _ _ _ _ Hr (proj1 (len_expr _ _ _ _ _ _ Hl H1 W)) H2)|]. rewrite code_len_emit_opcode. lia.
Qed.

Lemma ch_if : forall c t alt st st', okE (EIf c t alt) st st' ->
  exists st1 st3, okE c st st1 /\ okV t (if_st2 st1) st3 /\ code_len (if_st2 st1) = code_len st1 + 3 /\
    match alt with
    | Some bl => exists st5 st6, if_st5 st1 t = Ok st5 /\ code_len st5 = code_len st3 + 3 /\ okV bl st5 st6 /\
                                 code_len st6 <= code_len st'
    | None => code_len st3 <= code_len st'
    end.
Proof.
  intros c t alt st st' [[lp [fa [fn HF]]] [W Hc]]. rewrite f4s_expr_other in HF by (intros; discriminate).
  rewrite f4e_if in HF. apply andb_prop in HF. destruct HF as [HF Hfa]. apply andb_prop in HF. destruct HF as [Hfc Hft].
  rewrite ce_if in Hc. cbv zeta in Hc.
  bok Hc st1 H1. bok Hc st3 H3. bok Hc t1 Ht1. bok Hc st5 H5. bok Hc st6 H6. bok Hc t2 Ht2.
  change (emit_u16 JUMP_PLACEHOLDER (emit_opcode OJumpIfFalse st1)) with (if_st2 st1) in *.
  assert (if_st5 st1 t = Ok st5) as Hif5.
  { unfold if_st5. rewrite H3. cbn [bind]. destruct (operand16_cl _ _ Ht1) as [-> _]. exact H5. }
  pose proof (proj1 (len_expr _ _ _ _ _ _ Hfc H1 W)) as W1.
  assert (wfs (if_st2 st1)) as W2 by (apply (wfs_syms st1); [reflexivity|exact W1]).
  pose proof (proj1 (len_bv _ _ _ _ _ _ Hft H3 W2)) as W3.
  assert (code_len (if_st2 st1) = code_len st1 + 3) as L2.
  { unfold if_st2. rewrite code_len_emit_u16, code_len_emit_opcode. lia. }
  assert (code_len st5 = code_len st3 + 3) as L5.
  { rewrite (change_jump_len _ _ _ _ H5), code_len_emit_u16, code_len_emit_opcode. lia. }
  pose proof (change_jump_len _ _ _ _ Hc) as L'.
  exists st1, st3. split; [exact (okE_of _ _ _ _ _ _ Hfc W H1)|].
  split; [split; [exists lp, fn, fn; exact Hft|split; [exact W2|exact H3]]|]. split; [exact L2|].
  destruct alt as [bl|].
  - exists st5, st6. split; [exact Hif5|]. split; [exact L5|]. split; [|lia].
    split; [exists lp, fn, fn; exact Hfa|]. split; [|exact H6].
    apply (wfs_syms st3); [|exact W3]. rewrite (proj1 (change_jump_spec _ _ _ _ (code_len_nonneg st1) H5)). reflexivity.
  - inversion H6; subst st6. rewrite code_len_emit_opcode in L'. lia.
Qed.

Lemma ch_bv : forall s b st st', okV (s :: b) st st' ->
  exists stb, okL (s :: b) (enter st) stb /\ code_len stb <= code_len st' + 1.
Proof.
  intros s b st st' [[lp [fa [fn HF]]] [W Hc]]. unfold c_block_value, c_block_statement in Hc. cbn [is_nil] in Hc.
  bok Hc st1 H1. bok H1 stb Hb. inversion H1; subst st1; clear H1.
  exists stb. split; [split; [exists lp, fa, fn; exact HF|split; [apply wfs_enter; exact W|exact Hb]]|].
  destruct (last_instruction_is OPop (set_symbols stb (leave_scope (c_symbols stb)))); inversion Hc; subst st'.
  - unfold remove_last_instruction, code_len, zlength. cbn [c_code set_symbols].
    destruct (c_code stb) as [|z l] eqn:Ec; [cbn [removelast length]; lia|].
    assert (z :: l <> []) as Hne by discriminate. rewrite (app_removelast_last 0 Hne) at 1.
    rewrite app_length. cbn [length]. lia.
  - rewrite code_len_emit_opcode. unfold code_len. cbn [set_symbols c_code]. lia.
Qed.

Lemma ch_while : forall c b st st', okE (EWhile c b) st st' ->
  exists st3 st5, okE c (wh_st2 st) st3 /\ code_len (wh_st2 st) = code_len st + 1 /\
    okV b (wh_st4 st3) st5 /\ code_len (wh_st4 st3) = code_len st3 + 4 /\ code_len st5 <= code_len st'.
Proof.
  intros c b st st' [[lp [fa [fn HF]]] [W Hc]]. rewrite f4s_expr_other in HF by (intros; discriminate).
  rewrite f4e_while in HF. apply andb_prop in HF. destruct HF as [Hfc Hfb].
  rewrite ce_while in Hc. cbv zeta in Hc.
  change (set_loops (emit_opcode ONull st) (c_loops (emit_opcode ONull st) ++ [mkLoop (code_len (emit_opcode ONull st)) []]))
    with (wh_st2 st) in Hc.
  bok Hc st3 H3.
  change (emit_opcode OPop (emit_u16 JUMP_PLACEHOLDER (emit_opcode OJumpIfFalse st3))) with (wh_st4 st3) in Hc.
  bok Hc st5 H5. bok Hc back Hb. bok Hc target Ht. bok Hc st8 H8.
  destruct (rev (c_loops st8)) as [|ctx rest]; [discriminate Hc|].
  assert (wfs (wh_st2 st)) as W2 by (apply (wfs_syms st); [reflexivity|exact W]).
  pose proof (proj1 (len_expr _ _ _ _ _ _ Hfc H3 W2)) as W3.
  assert (wfs (wh_st4 st3)) as W4 by (apply (wfs_syms st3); [reflexivity|exact W3]).
  exists st3, st5. split; [exact (okE_of _ _ _ _ _ _ Hfc W2 H3)|].
  split; [unfold wh_st2, code_len; cbn [set_loops c_code]; fold (code_len (emit_opcode ONull st)); apply code_len_emit_opcode|].
  split; [split; [exists true, fn, fn; exact Hfb|split; [exact W4|exact H5]]|].
  split; [unfold wh_st4; rewrite code_len_emit_opcode, code_len_emit_u16, code_len_emit_opcode; lia|].
  rewrite (patch_breaks_len _ _ _ Hc). unfold code_len at 2. cbn [set_loops c_code]. fold (code_len st8).
  rewrite (change_jump_len _ _ _ _ H8), code_len_emit_u16, code_len_emit_opcode. lia.
Qed.

Lemma code_len_emit_u8 : forall v st, code_len (emit_u8 v st) = code_len st + 1.
Proof. intros. unfold code_len, emit_u8. cbn [c_code]. rewrite zlength_app. reflexivity. Qed.

(* a call: the arguments; the callee when it is not a builtin name *)
Lemma ch_call : forall f args st st', okE (ECall f args) st st' ->
  exists st1, okA args st st1 /\ code_len st1 <= code_len st' /\
    (builtin_of f = None -> exists st2, okE f st1 st2 /\ code_len st2 <= code_len st').
Proof.
  intros f args st st' [[lp [fa [fn HF]]] [W Hc]]. rewrite f4s_expr_other in HF by (intros; discriminate).
  rewrite f4e_call in HF. apply andb_prop in HF. destruct HF as [HFa HFf].
  rewrite CompilerNames.ce_call in Hc. bok Hc st1 H1. cbv zeta in Hc.
  change (match f with EIdent name => assoc_text name builtin_names | _ => None end) with (builtin_of f) in Hc.
  exists st1. split; [split; [exists fa, fn; exact HFa|auto]|].
  destruct (builtin_of f) as [b|] eqn:Eb.
  - bok Hc n Hn. inversion Hc; subst st'; clear Hc. split; [|intros Hx; discriminate Hx].
    rewrite !code_len_emit_u8, code_len_emit_opcode. lia.
  - bok Hc st2 H2. bok Hc n Hn. inversion Hc; subst st'; clear Hc.
    assert (f4e false fa fn f = true) as HFf'.
    { apply orb_prop in HFf. destruct HFf as [Hb|Hf]; [|exact Hf].
      destruct f; try discriminate Hb. cbn [is_builtin_callee] in Hb. unfold is_builtin_name in Hb.
      cbn [builtin_of] in Eb. rewrite Eb in Hb. discriminate Hb. }
    pose proof (okE_of _ _ _ _ _ _ HFf' (proj1 (len_exprs _ _ _ _ _ HFa H1 W)) H2) as Hk2.
    pose proof (proj2 (okE_len _ _ _ Hk2)) as L2.
    split; [rewrite code_len_emit_u8, code_len_emit_opcode; lia|].
    intros _. exists st2. split; [exact Hk2|]. rewrite code_len_emit_u8, code_len_emit_opcode. lia.
Qed.

Lemma ch_array : forall vs st st', okE (EArray vs) st st' ->
  exists st1, okA vs st st1 /\ code_len st1 <= code_len st'.
Proof.
  intros vs st st' [[lp [fa [fn HF]]] [W Hc]]. rewrite f4s_expr_other in HF by (intros; discriminate).
  rewrite f4e_array in HF. rewrite CompilerNames.ce_array in Hc. bok Hc st1 H1. cbv zeta in Hc. bok Hc n Hn.
  inversion Hc; subst st'; clear Hc.
  exists st1. split; [split; [exists fa, fn; exact HF|auto]|]. rewrite code_len_emit_u16, code_len_emit_opcode. lia.
Qed.

Lemma ch_index : forall l i st st', okE (EIndex l i) st st' ->
  exists st1 st2, okE l st st1 /\ okE i st1 st2 /\ code_len st2 <= code_len st'.
Proof.
  intros l i st st' [[lp [fa [fn HF]]] [W Hc]]. rewrite f4s_expr_other in HF by (intros; discriminate).
  rewrite f4e_index in HF. apply andb_prop in HF. destruct HF as [Hl Hi].
  rewrite CompilerNames.ce_index in Hc. bok Hc st1 H1. bok Hc st2 H2. inversion Hc; subst st'; clear Hc.
  exists st1, st2. split; [exact (okE_of _ _ _ _ _ _ Hl W H1)|].
  split; [exact (okE_of _ _ _ _ _ _ Hi (proj1 (len_expr _ _ _ _ _ _ Hl H1 W)) H2)|]. rewrite code_len_emit_opcode. lia.
Qed.

Lemma ch_aidx : forall l i r st st', okE (EAssign (EIndex l i) r) st st' ->
  exists st1 st2 st3, okE l st st1 /\ okE i st1 st2 /\ okE r st2 st3 /\ code_len st3 <= code_len st'.
Proof.
  intros l i r st st' [[lp [fa [fn HF]]] [W Hc]]. rewrite f4s_expr_other in HF by (intros; discriminate).
  rewrite f4e_assign_index in HF. apply andb_prop in HF. destruct HF as [HF Hr]. apply andb_prop in HF. destruct HF as [Hl Hi].
  rewrite ce_assign_index in Hc. bok Hc st1 H1. bok Hc st2 H2. bok Hc st3 H3. inversion Hc; subst st'; clear Hc.
  pose proof (proj1 (len_expr _ _ _ _ _ _ Hl H1 W)) as W1. pose proof (proj1 (len_expr _ _ _ _ _ _ Hi H2 W1)) as W2.
  exists st1, st2, st3. split; [exact (okE_of _ _ _ _ _ _ Hl W H1)|].
  split; [exact (okE_of _ _ _ _ _ _ Hi W1 H2)|]. split; [exact (okE_of _ _ _ _ _ _ Hr W2 H3)|].
  rewrite code_len_emit_opcode. lia.
Qed.

Lemma ch_es : forall x r st st', okA (x :: r) st st' -> exists st1, okE x st st1 /\ okA r st1 st'.
Proof.
  intros x r st st' [[fa [fn HF]] [W Hc]]. rewrite f4es_cons in HF. apply andb_prop in HF. destruct HF as [Hx Hr].
  cbn [CompilerNames.compile_exprs] in Hc. bok Hc st1 H1.
  exists st1. split; [exact (okE_of _ _ _ _ _ _ Hx W H1)|].
  split; [exists fa, fn; exact Hr|]. split; [exact (proj1 (len_expr _ _ _ _ _ _ Hx H1 W))|exact Hc].
Qed.

Lemma ch_l : forall s r st st', okL (s :: r) st st' -> exists st1, okS s st st1 /\ okL r st1 st'.
Proof.
  intros s r st st' [[lp [fa [fn HF]]] [W Hc]]. rewrite f4b_cons in HF. apply andb_prop in HF. destruct HF as [Hs Hr].
  cbn [compile_statements] in Hc. bok Hc st1 H1.
  exists st1. split; [split; [exists lp, fa, fn; exact Hs|auto]|].
  split; [exists lp, fa, fn; exact Hr|]. split; [exact (proj1 (len_stmt _ _ _ _ _ _ Hs H1 W))|exact Hc].
Qed.

Lemma ch_let : forall x e st st', okS (SLet x e) st st' ->
  exists st1, okE e (set_symbols st (fst (define (c_symbols st) x))) st1 /\ code_len st' = code_len st1 + 3.
Proof.
  intros x e st st' [[lp [fa [fn HF]]] [W Hc]]. rewrite f4s_let in HF. apply andb_prop in HF. destruct HF as [HF _].
  rewrite CompilerNames.cs_let in Hc. destruct (define (c_symbols st) x) as [t sym] eqn:Ed. cbn [fst]. bok Hc st1 H1.
  exists st1. split.
  - apply (okE_of _ _ _ _ _ _ HF); [|exact H1].
    destruct W as [pre [sc [k [outer [cur [Hs [Hp Hw]]]]]]]. rewrite Hs, define_ltab in Ed. inversion Ed; subst t sym.
    exists pre, sc, (S k), outer, (cur ++ [x]). split; [reflexivity|]. split; [exact Hp|].
    rewrite flat_snoc, app_length. cbn [length]. lia.
  - destruct (emit_sym_spec _ _ _ _ Hc) as [_ [_ [_ C]]]. rewrite (code_len_app _ _ _ C), zlength3. reflexivity.
Qed.

Lemma ch_expr : forall e st st', okS (SExpr e) st st' -> exists st1, okE e st st1 /\ code_len st' = code_len st1 + 1.
Proof.
  intros e st st' [HF [W Hc]]. rewrite CompilerNames.cs_expr in Hc. bok Hc st1 H1. inversion Hc; subst st'.
  exists st1. split; [split; [exact HF|auto]|apply code_len_emit_opcode].
Qed.

Lemma ch_return : forall e st st', okS (SReturn e) st st' -> exists st1, okE e st st1 /\ code_len st' = code_len st1 + 1.
Proof.
  intros e st st' [[lp [fa [fn HF]]] [W Hc]]. rewrite f4s_return in HF. rewrite CompilerNames.cs_return in Hc.
  destruct (in_global_context (c_symbols st)); [discriminate Hc|]. bok Hc st1 H1. inversion Hc; subst st'.
  exists st1. split; [exact (okE_of _ _ _ _ _ _ HF W H1)|apply code_len_emit_opcode].
Qed.

Lemma ch_block : forall s b st st', okS (SBlock (s :: b)) st st' ->
  exists stb, okL (s :: b) (enter st) stb /\ code_len st' = code_len stb.
Proof.
  intros s b st st' [[lp [fa [fn HF]]] [W Hc]]. rewrite f4s_block in HF. rewrite CompilerNames.cs_block in Hc.
  cbn [is_nil] in Hc. bok Hc stb Hb. inversion Hc; subst st'.
  exists stb. split; [|reflexivity]. split; [exists lp, fn, fn; exact HF|]. split; [apply wfs_enter; exact W|exact Hb].
Qed.

(* the body of a function literal *)
Lemma ch_body : forall s b st3 st4, f4b false true true (s :: b) = true -> wfs st3 -> c_block_statement (s :: b) st3 = Ok st4 ->
  exists stb, okL (s :: b) (enter st3) stb /\ code_len st4 = code_len stb.
Proof.
  intros s b st3 st4 HF W Hc. unfold c_block_statement in Hc. cbn [is_nil] in Hc. bok Hc stb Hb. inversion Hc; subst st4.
  exists stb. split; [|reflexivity]. split; [exists false, true, true; exact HF|]. split; [apply wfs_enter; exact W|exact Hb].
Qed.

Lemma occ_not_builtin : forall f st fe, occ_e f st fe -> builtin_of f = None.
Proof. intros f st fe H. destruct f; try reflexivity. inversion H. Qed.

(** * The entry point of a literal lies inside the code of every construct around it *)

Lemma occ_range :
  (forall e st fe, occ_e e st fe -> forall st', okE e st st' -> code_len st < fe_ip fe < code_len st') /\
  (forall l st fe, occ_es l st fe -> forall st', okA l st st' -> code_len st < fe_ip fe < code_len st') /\
  (forall b st fe, occ_blk b st fe -> forall stb, okL b (enter st) stb -> code_len st < fe_ip fe /\ fe_ip fe + 1 < code_len stb) /\
  (forall l st fe, occ_l l st fe -> forall st', okL l st st' -> code_len st < fe_ip fe /\ fe_ip fe + 1 < code_len st') /\
  (forall s st fe, occ_s s st fe -> forall st', okS s st st' -> code_len st < fe_ip fe /\ fe_ip fe + 1 < code_len st').
Proof.
  apply (occ_mutind
    (fun e st fe _ => forall st', okE e st st' -> code_len st < fe_ip fe < code_len st')
    (fun l st fe _ => forall st', okA l st st' -> code_len st < fe_ip fe < code_len st')
    (fun b st fe _ => forall stb, okL b (enter st) stb -> code_len st < fe_ip fe /\ fe_ip fe + 1 < code_len stb)
    (fun l st fe _ => forall st', okL l st st' -> code_len st < fe_ip fe /\ fe_ip fe + 1 < code_len st')
    (fun s st fe _ => forall st', okS s st st' -> code_len st < fe_ip fe /\ fe_ip fe + 1 < code_len st')).
  - (* the literal itself *)
    intros name ps body st st4 H4 st' Hok.
    destruct (ch_function _ _ _ _ _ Hok) as [_ [_ [_ [st4' [H4' [L3 [L4 L5]]]]]]].
    rewrite H4 in H4'. inversion H4'; subst st4'. unfold lit_entry. cbn [fe_ip]. lia.
  - (* inside the body *)
    intros name ps body st fe Ho IH st' Hok.
    destruct (ch_function _ _ _ _ _ Hok) as [HFb [W3 [_ [st4 [H4 [L3 [L4 L5]]]]]]].
    inversion Ho; subst. destruct (ch_body _ _ _ _ HFb W3 H4) as [stb [Hb Lb]].
    specialize (IH stb Hb). lia.
  - intros op r st fe Ho IH st' Hok. destruct (ch_prefix _ _ _ _ Hok) as [st1 [H1 L1]]. specialize (IH st1 H1). lia.
  - intros x r st fe Ho IH st' Hok. destruct (ch_assign _ _ _ _ Hok) as [st1 [H1 L1]]. specialize (IH st1 H1). lia.
  - intros l op r st fe Ho IH st' Hok.
    destruct (ch_infix _ _ _ _ _ Hok) as [[name [v [[-> _]|[-> _]]]]|[E0 [st1 [st2 [H1 [H2 L2]]]]]]; try (inversion Ho; fail).
    rewrite E0 in IH. specialize (IH st1 H1). pose proof (proj2 (okE_len _ _ _ H2)). lia.
  - intros l op r st st1 fe Hc Ho IH st' Hok.
    destruct (ch_infix _ _ _ _ _ Hok) as [[name [v [[_ ->]|[_ ->]]]]|[E0 [st1' [st2 [H1 [H2 L2]]]]]]; try (inversion Ho; fail).
    rewrite E0 in Hc. rewrite (proj2 (proj2 H1)) in Hc. inversion Hc; subst st1'.
    specialize (IH st2 H2). pose proof (proj2 (okE_len _ _ _ H1)). lia.
  - intros c t alt st fe Ho IH st' Hok. destruct (ch_if _ _ _ _ _ Hok) as [st1 [st3 [H1 [H3 [L2 Ha]]]]].
    specialize (IH st1 H1). pose proof (proj2 (okV_len _ _ _ H3)).
    destruct alt as [bl|]; [destruct Ha as [st5 [st6 [_ [L5 [H6 L6]]]]]; pose proof (proj2 (okV_len _ _ _ H6))|]; lia.
  - intros c t alt st st1 fe Hc Ho IH st' Hok. destruct (ch_if _ _ _ _ _ Hok) as [st1' [st3 [H1 [H3 [L2 Ha]]]]].
    rewrite (proj2 (proj2 H1)) in Hc. inversion Hc; subst st1'. inversion Ho; subst.
    destruct (ch_bv _ _ _ _ H3) as [stb [Hb Lb]]. specialize (IH stb Hb). pose proof (proj2 (okE_len _ _ _ H1)).
    destruct alt as [bl|]; [destruct Ha as [st5 [st6 [_ [L5 [H6 L6]]]]]; pose proof (proj2 (okV_len _ _ _ H6))|]; lia.
  - intros c t bl st st1 st5 fe Hc H5 Ho IH st' Hok. destruct (ch_if _ _ _ _ _ Hok) as [st1' [st3 [H1 [H3 [L2 Ha]]]]].
    rewrite (proj2 (proj2 H1)) in Hc. inversion Hc; subst st1'. destruct Ha as [st5' [st6 [H5' [L5 [H6 L6]]]]].
    rewrite H5 in H5'. inversion H5'; subst st5'. inversion Ho; subst.
    destruct (ch_bv _ _ _ _ H6) as [stb [Hb Lb]]. specialize (IH stb Hb). pose proof (proj2 (okE_len _ _ _ H1)).
    pose proof (proj2 (okV_len _ _ _ H3)). lia.
  - intros c b st fe Ho IH st' Hok. destruct (ch_while _ _ _ _ Hok) as [st3 [st5 [H3 [L2 [H5 [L4 L5]]]]]].
    specialize (IH st3 H3). pose proof (proj2 (okV_len _ _ _ H5)). lia.
  - intros c b st st3 fe Hc Ho IH st' Hok. destruct (ch_while _ _ _ _ Hok) as [st3' [st5 [H3 [L2 [H5 [L4 L5]]]]]].
    rewrite (proj2 (proj2 H3)) in Hc. inversion Hc; subst st3'. inversion Ho; subst.
    destruct (ch_bv _ _ _ _ H5) as [stb [Hb Lb]]. specialize (IH stb Hb). pose proof (proj2 (okE_len _ _ _ H3)). lia.
  - intros f args st fe Ho IH st' Hok. destruct (ch_call _ _ _ _ Hok) as [st1 [H1 [L1 _]]].
    specialize (IH st1 H1). lia.
  - intros f args st st1 fe Hc Ho IH st' Hok. destruct (ch_call _ _ _ _ Hok) as [st1' [H1 [L1 Hf]]].
    rewrite (proj2 (proj2 H1)) in Hc. inversion Hc; subst st1'.
    destruct (Hf (occ_not_builtin _ _ _ Ho)) as [st2 [H2 L2]].
    specialize (IH st2 H2). pose proof (proj2 (okA_len _ _ _ H1)). lia.
  - intros vs st fe Ho IH st' Hok. destruct (ch_array _ _ _ Hok) as [st1 [H1 L1]]. specialize (IH st1 H1). lia.
  - intros l i st fe Ho IH st' Hok. destruct (ch_index _ _ _ _ Hok) as [st1 [st2 [H1 [H2 L2]]]].
    specialize (IH st1 H1). pose proof (proj2 (okE_len _ _ _ H2)). lia.
  - intros l i st st1 fe Hc Ho IH st' Hok. destruct (ch_index _ _ _ _ Hok) as [st1' [st2 [H1 [H2 L2]]]].
    rewrite (proj2 (proj2 H1)) in Hc. inversion Hc; subst st1'.
    specialize (IH st2 H2). pose proof (proj2 (okE_len _ _ _ H1)). lia.
  - intros l i r st fe Ho IH st' Hok. destruct (ch_aidx _ _ _ _ _ Hok) as [st1 [st2 [st3 [H1 [H2 [H3 L3]]]]]].
    specialize (IH st1 H1). pose proof (proj2 (okE_len _ _ _ H2)). pose proof (proj2 (okE_len _ _ _ H3)). lia.
  - intros l i r st st1 fe Hc Ho IH st' Hok. destruct (ch_aidx _ _ _ _ _ Hok) as [st1' [st2 [st3 [H1 [H2 [H3 L3]]]]]].
    rewrite (proj2 (proj2 H1)) in Hc. inversion Hc; subst st1'.
    specialize (IH st2 H2). pose proof (proj2 (okE_len _ _ _ H1)). pose proof (proj2 (okE_len _ _ _ H3)). lia.
  - intros l i r st st1 st2 fe Hc Hc2 Ho IH st' Hok. destruct (ch_aidx _ _ _ _ _ Hok) as [st1' [st2' [st3 [H1 [H2 [H3 L3]]]]]].
    rewrite (proj2 (proj2 H1)) in Hc. inversion Hc; subst st1'. rewrite (proj2 (proj2 H2)) in Hc2. inversion Hc2; subst st2'.
    specialize (IH st3 H3). pose proof (proj2 (okE_len _ _ _ H1)). pose proof (proj2 (okE_len _ _ _ H2)). lia.
  - intros x r st fe Ho IH st' Hok. destruct (ch_es _ _ _ _ Hok) as [st1 [H1 H2]].
    specialize (IH st1 H1). pose proof (proj2 (okA_len _ _ _ H2)). lia.
  - intros x r st st1 fe Hc Ho IH st' Hok. destruct (ch_es _ _ _ _ Hok) as [st1' [H1 H2]].
    rewrite (proj2 (proj2 H1)) in Hc. inversion Hc; subst st1'.
    specialize (IH st' H2). pose proof (proj2 (okE_len _ _ _ H1)). lia.
  - intros s b st fe Ho IH stb Hok. specialize (IH stb Hok). unfold enter, code_len in *. cbn [set_symbols c_code] in IH. exact IH.
  - intros s r st fe Ho IH st' Hok. destruct (ch_l _ _ _ _ Hok) as [st1 [H1 H2]].
    specialize (IH st1 H1). pose proof (proj2 (okL_len _ _ _ H2)). lia.
  - intros s r st st1 fe Hc Ho IH st' Hok. destruct (ch_l _ _ _ _ Hok) as [st1' [H1 H2]].
    rewrite (proj2 (proj2 H1)) in Hc. inversion Hc; subst st1'.
    specialize (IH st' H2). pose proof (proj2 (okS_len _ _ _ H1)). lia.
  - intros x e st fe Ho IH st' Hok. destruct (ch_let _ _ _ _ Hok) as [st1 [H1 L1]]. specialize (IH st1 H1).
    unfold code_len in IH at 1. cbn [set_symbols c_code] in IH. fold (code_len st) in IH. lia.
  - intros e st fe Ho IH st' Hok. destruct (ch_expr _ _ _ Hok) as [st1 [H1 L1]]. specialize (IH st1 H1). lia.
  - intros b st fe Ho IH st' Hok. inversion Ho; subst. destruct (ch_block _ _ _ _ Hok) as [stb [Hb Lb]].
    specialize (IH stb Hb). lia.
  - intros e st fe Ho IH st' Hok. destruct (ch_return _ _ _ Hok) as [st1 [H1 L1]]. specialize (IH st1 H1). lia.
Qed.

(** * Two literals with the same entry point are the same literal *)

Ltac same_st := repeat match goal with
  | H1 : ?x = Ok ?a, H2 : ?x = Ok ?b |- _ => rewrite H1 in H2; inversion H2; subst; clear H2
  end.

Ltac pose_new P :=
  let T := type of P in
  lazymatch goal with
  | _ : T |- _ => fail
  | _ => pose proof P
  end.

Ltac ranges := repeat match goal with
  | Ho : occ_e ?e ?st ?fe, Hk : okE ?e ?st ?st' |- _ => pose_new (proj1 occ_range e st fe Ho st' Hk)
  | Ho : occ_es ?e ?st ?fe, Hk : okA ?e ?st ?st' |- _ => pose_new (proj1 (proj2 occ_range) e st fe Ho st' Hk)
  | Ho : occ_blk ?e ?st ?fe, Hk : okL ?e (enter ?st) ?st' |- _ => pose_new (proj1 (proj2 (proj2 occ_range)) e st fe Ho st' Hk)
  | Ho : occ_l ?e ?st ?fe, Hk : okL ?e ?st ?st' |- _ => pose_new (proj1 (proj2 (proj2 (proj2 occ_range))) e st fe Ho st' Hk)
  | Ho : occ_s ?e ?st ?fe, Hk : okS ?e ?st ?st' |- _ => pose_new (proj2 (proj2 (proj2 (proj2 occ_range))) e st fe Ho st' Hk)
  end.

Ltac lens := repeat match goal with
  | Hk : okE ?e ?st ?st' |- _ => pose_new (proj2 (okE_len e st st' Hk))
  | Hk : okA ?e ?st ?st' |- _ => pose_new (proj2 (okA_len e st st' Hk))
  | Hk : okL ?e ?st ?st' |- _ => pose_new (proj2 (okL_len e st st' Hk))
  | Hk : okS ?e ?st ?st' |- _ => pose_new (proj2 (okS_len e st st' Hk))
  | Hk : okV ?e ?st ?st' |- _ => pose_new (proj2 (okV_len e st st' Hk))
  end.

Ltac by_ranges := exfalso; ranges; lens; unfold lit_entry in *; cbn [fe_ip] in *; lia.

Lemma code_len_enter : forall st, code_len (enter st) = code_len st.
Proof. reflexivity. Qed.

Lemma occ_uniq :
  (forall e st fe, occ_e e st fe -> forall st', okE e st st' -> forall fe', occ_e e st fe' -> fe_ip fe' = fe_ip fe -> fe' = fe) /\
  (forall l st fe, occ_es l st fe -> forall st', okA l st st' -> forall fe', occ_es l st fe' -> fe_ip fe' = fe_ip fe -> fe' = fe) /\
  (forall b st fe, occ_blk b st fe -> forall stb, okL b (enter st) stb ->
     forall fe', occ_blk b st fe' -> fe_ip fe' = fe_ip fe -> fe' = fe) /\
  (forall l st fe, occ_l l st fe -> forall st', okL l st st' -> forall fe', occ_l l st fe' -> fe_ip fe' = fe_ip fe -> fe' = fe) /\
  (forall s st fe, occ_s s st fe -> forall st', okS s st st' -> forall fe', occ_s s st fe' -> fe_ip fe' = fe_ip fe -> fe' = fe).
Proof.
  apply (occ_mutind
    (fun e st fe _ => forall st', okE e st st' -> forall fe', occ_e e st fe' -> fe_ip fe' = fe_ip fe -> fe' = fe)
    (fun l st fe _ => forall st', okA l st st' -> forall fe', occ_es l st fe' -> fe_ip fe' = fe_ip fe -> fe' = fe)
    (fun b st fe _ => forall stb, okL b (enter st) stb -> forall fe', occ_blk b st fe' -> fe_ip fe' = fe_ip fe -> fe' = fe)
    (fun l st fe _ => forall st', okL l st st' -> forall fe', occ_l l st fe' -> fe_ip fe' = fe_ip fe -> fe' = fe)
    (fun s st fe _ => forall st', okS s st st' -> forall fe', occ_s s st fe' -> fe_ip fe' = fe_ip fe -> fe' = fe)).
  - (* the literal itself *)
    intros name ps body st st4 H4 st' Hok fe' Ho' Hip.
    destruct (ch_function _ _ _ _ _ Hok) as [HFb [W3 [_ [st4' [H4' [L3 [L4 L5]]]]]]]. same_st.
    inversion Ho'; subst.
    + same_st. reflexivity.
    + match goal with H : occ_blk _ _ _ |- _ => inversion H; subst end.
      destruct (ch_body _ _ _ _ HFb W3 H4) as [stb [Hb Lb]]. by_ranges.
  - (* inside the body *)
    intros name ps body st fe Ho IH st' Hok fe' Ho' Hip.
    destruct (ch_function _ _ _ _ _ Hok) as [HFb [W3 [_ [st4 [H4 [L3 [L4 L5]]]]]]].
    inversion Ho; subst. destruct (ch_body _ _ _ _ HFb W3 H4) as [stb [Hb Lb]].
    inversion Ho'; subst.
    + same_st. by_ranges.
    + exact (IH stb Hb fe' ltac:(assumption) Hip).
  - intros op r st fe Ho IH st' Hok fe' Ho' Hip. destruct (ch_prefix _ _ _ _ Hok) as [st1 [H1 L1]].
    inversion Ho'; subst. exact (IH st1 H1 fe' ltac:(assumption) Hip).
  - intros x r st fe Ho IH st' Hok fe' Ho' Hip. destruct (ch_assign _ _ _ _ Hok) as [st1 [H1 L1]].
    inversion Ho'; subst. exact (IH st1 H1 fe' ltac:(assumption) Hip).
  - intros l op r st fe Ho IH st' Hok fe' Ho' Hip.
    destruct (ch_infix _ _ _ _ _ Hok) as [[name [v [[-> _]|[-> _]]]]|[E0 [st1 [st2 [H1 [H2 L2]]]]]]; try (inversion Ho; fail).
    rewrite E0 in *. inversion Ho'; subst.
    + rewrite E0 in *. exact (IH st1 H1 fe' ltac:(assumption) Hip).
    + rewrite E0 in *. pose proof (proj2 (proj2 H1)). same_st. by_ranges.
  - intros l op r st st1 fe Hc Ho IH st' Hok fe' Ho' Hip.
    destruct (ch_infix _ _ _ _ _ Hok) as [[name [v [[_ ->]|[_ ->]]]]|[E0 [st1' [st2 [H1 [H2 L2]]]]]]; try (inversion Ho; fail).
    rewrite E0 in *. pose proof (proj2 (proj2 H1)). same_st. inversion Ho'; subst.
    + rewrite E0 in *. by_ranges.
    + rewrite E0 in *. same_st. exact (IH st2 H2 fe' ltac:(assumption) Hip).
  - (* als: the condition *)
    intros c t alt st fe Ho IH st' Hok fe' Ho' Hip. destruct (ch_if _ _ _ _ _ Hok) as [st1 [st3 [H1 [H3 [L2 Ha]]]]].
    pose proof (proj2 (proj2 H1)). inversion Ho'; subst; same_st.
    + exact (IH st1 H1 fe' ltac:(assumption) Hip).
    + match goal with H : occ_blk _ _ _ |- _ => inversion H; subst end.
      destruct (ch_bv _ _ _ _ H3) as [stb [Hb Lb]]. by_ranges.
    + destruct Ha as [st5' [st6 [H5' [L5 [H6 L6]]]]]. same_st.
      match goal with H : occ_blk _ _ _ |- _ => inversion H; subst end.
      destruct (ch_bv _ _ _ _ H6) as [stb [Hb Lb]]. by_ranges.
  - (* als: the first block *)
    intros c t alt st st1 fe Hc Ho IH st' Hok fe' Ho' Hip. destruct (ch_if _ _ _ _ _ Hok) as [st1' [st3 [H1 [H3 [L2 Ha]]]]].
    pose proof (proj2 (proj2 H1)). same_st. inversion Ho; subst. destruct (ch_bv _ _ _ _ H3) as [stb [Hb Lb]].
    inversion Ho'; subst; same_st.
    + by_ranges.
    + exact (IH stb Hb fe' ltac:(assumption) Hip).
    + destruct Ha as [st5' [st6 [H5' [L5 [H6 L6]]]]]. same_st.
      match goal with H : occ_blk _ _ fe' |- _ => inversion H; subst end.
      destruct (ch_bv _ _ _ _ H6) as [stb6 [Hb6 Lb6]]. by_ranges.
  - (* als: the second block *)
    intros c t bl st st1 st5 fe Hc H5 Ho IH st' Hok fe' Ho' Hip.
    destruct (ch_if _ _ _ _ _ Hok) as [st1' [st3 [H1 [H3 [L2 Ha]]]]].
    pose proof (proj2 (proj2 H1)). same_st. destruct Ha as [st5' [st6 [H5' [L5 [H6 L6]]]]]. same_st.
    inversion Ho; subst. destruct (ch_bv _ _ _ _ H6) as [stb [Hb Lb]].
    inversion Ho'; subst; same_st.
    + by_ranges.
    + match goal with H : occ_blk t _ _ |- _ => inversion H; subst end.
      destruct (ch_bv _ _ _ _ H3) as [stb3 [Hb3 Lb3]]. by_ranges.
    + exact (IH stb Hb fe' ltac:(assumption) Hip).
  - (* zolang: the condition *)
    intros c b st fe Ho IH st' Hok fe' Ho' Hip. destruct (ch_while _ _ _ _ Hok) as [st3 [st5 [H3 [L2 [H5 [L4 L5]]]]]].
    pose proof (proj2 (proj2 H3)). inversion Ho'; subst; same_st.
    + exact (IH st3 H3 fe' ltac:(assumption) Hip).
    + match goal with H : occ_blk _ _ _ |- _ => inversion H; subst end.
      destruct (ch_bv _ _ _ _ H5) as [stb [Hb Lb]]. by_ranges.
  - (* zolang: the body *)
    intros c b st st3 fe Hc Ho IH st' Hok fe' Ho' Hip. destruct (ch_while _ _ _ _ Hok) as [st3' [st5 [H3 [L2 [H5 [L4 L5]]]]]].
    pose proof (proj2 (proj2 H3)). same_st. inversion Ho; subst. destruct (ch_bv _ _ _ _ H5) as [stb [Hb Lb]].
    inversion Ho'; subst; same_st.
    + by_ranges.
    + exact (IH stb Hb fe' ltac:(assumption) Hip).
  - (* call: the arguments *)
    intros f args st fe Ho IH st' Hok fe' Ho' Hip. destruct (ch_call _ _ _ _ Hok) as [st1 [H1 [L1 Hf]]].
    pose proof (proj2 (proj2 H1)). inversion Ho'; subst; same_st.
    + exact (IH st1 H1 fe' ltac:(assumption) Hip).
    + match goal with H : occ_e _ _ fe' |- _ => destruct (Hf (occ_not_builtin _ _ _ H)) as [stx [Hx Lx]] end. by_ranges.
  - (* call: the callee *)
    intros f args st st1 fe Hc Ho IH st' Hok fe' Ho' Hip. destruct (ch_call _ _ _ _ Hok) as [st1' [H1 [L1 Hf]]].
    pose proof (proj2 (proj2 H1)). same_st. destruct (Hf (occ_not_builtin _ _ _ Ho)) as [st2 [H2 L2]].
    inversion Ho'; subst; same_st.
    + by_ranges.
    + exact (IH st2 H2 fe' ltac:(assumption) Hip).
  - (* array *)
    intros vs st fe Ho IH st' Hok fe' Ho' Hip. destruct (ch_array _ _ _ Hok) as [st1 [H1 L1]].
    inversion Ho'; subst. exact (IH st1 H1 fe' ltac:(assumption) Hip).
  - (* index: the array *)
    intros l i st fe Ho IH st' Hok fe' Ho' Hip. destruct (ch_index _ _ _ _ Hok) as [st1 [st2 [H1 [H2 L2]]]].
    pose proof (proj2 (proj2 H1)). inversion Ho'; subst; same_st.
    + exact (IH st1 H1 fe' ltac:(assumption) Hip).
    + by_ranges.
  - (* index: the index *)
    intros l i st st1 fe Hc Ho IH st' Hok fe' Ho' Hip. destruct (ch_index _ _ _ _ Hok) as [st1' [st2 [H1 [H2 L2]]]].
    pose proof (proj2 (proj2 H1)). same_st. inversion Ho'; subst; same_st.
    + by_ranges.
    + exact (IH st2 H2 fe' ltac:(assumption) Hip).
  - (* index assignment: the array *)
    intros l i r st fe Ho IH st' Hok fe' Ho' Hip. destruct (ch_aidx _ _ _ _ _ Hok) as [st1 [st2 [st3 [H1 [H2 [H3 L3]]]]]].
    pose proof (proj2 (proj2 H1)). pose proof (proj2 (proj2 H2)). inversion Ho'; subst; same_st.
    + exact (IH st1 H1 fe' ltac:(assumption) Hip).
    + by_ranges.
    + by_ranges.
  - (* index assignment: the index *)
    intros l i r st st1 fe Hc Ho IH st' Hok fe' Ho' Hip. destruct (ch_aidx _ _ _ _ _ Hok) as [st1' [st2 [st3 [H1 [H2 [H3 L3]]]]]].
    pose proof (proj2 (proj2 H1)). pose proof (proj2 (proj2 H2)). same_st. inversion Ho'; subst; same_st.
    + by_ranges.
    + exact (IH st2 H2 fe' ltac:(assumption) Hip).
    + by_ranges.
  - (* index assignment: the value *)
    intros l i r st st1 st2 fe Hc Hc2 Ho IH st' Hok fe' Ho' Hip.
    destruct (ch_aidx _ _ _ _ _ Hok) as [st1' [st2' [st3 [H1 [H2 [H3 L3]]]]]].
    pose proof (proj2 (proj2 H1)). same_st. pose proof (proj2 (proj2 H2)). same_st. inversion Ho'; subst; same_st.
    + by_ranges.
    + by_ranges.
    + exact (IH st3 H3 fe' ltac:(assumption) Hip).
  - intros x r st fe Ho IH st' Hok fe' Ho' Hip. destruct (ch_es _ _ _ _ Hok) as [st1 [H1 H2]].
    pose proof (proj2 (proj2 H1)). inversion Ho'; subst; same_st.
    + exact (IH st1 H1 fe' ltac:(assumption) Hip).
    + by_ranges.
  - intros x r st st1 fe Hc Ho IH st' Hok fe' Ho' Hip. destruct (ch_es _ _ _ _ Hok) as [st1' [H1 H2]].
    pose proof (proj2 (proj2 H1)). same_st. inversion Ho'; subst; same_st.
    + by_ranges.
    + exact (IH st' H2 fe' ltac:(assumption) Hip).
  - intros s b st fe Ho IH stb Hok fe' Ho' Hip. inversion Ho'; subst. exact (IH stb Hok fe' ltac:(assumption) Hip).
  - intros s r st fe Ho IH st' Hok fe' Ho' Hip. destruct (ch_l _ _ _ _ Hok) as [st1 [H1 H2]].
    pose proof (proj2 (proj2 H1)). inversion Ho'; subst; same_st.
    + exact (IH st1 H1 fe' ltac:(assumption) Hip).
    + by_ranges.
  - intros s r st st1 fe Hc Ho IH st' Hok fe' Ho' Hip. destruct (ch_l _ _ _ _ Hok) as [st1' [H1 H2]].
    pose proof (proj2 (proj2 H1)). same_st. inversion Ho'; subst; same_st.
    + by_ranges.
    + exact (IH st' H2 fe' ltac:(assumption) Hip).
  - intros x e st fe Ho IH st' Hok fe' Ho' Hip. destruct (ch_let _ _ _ _ Hok) as [st1 [H1 L1]].
    inversion Ho'; subst. exact (IH st1 H1 fe' ltac:(assumption) Hip).
  - intros e st fe Ho IH st' Hok fe' Ho' Hip. destruct (ch_expr _ _ _ Hok) as [st1 [H1 L1]].
    inversion Ho'; subst. exact (IH st1 H1 fe' ltac:(assumption) Hip).
  - intros b st fe Ho IH st' Hok fe' Ho' Hip. inversion Ho; subst. destruct (ch_block _ _ _ _ Hok) as [stb [Hb Lb]].
    inversion Ho'; subst. exact (IH stb Hb fe' ltac:(assumption) Hip).
  - intros e st fe Ho IH st' Hok fe' Ho' Hip. destruct (ch_return _ _ _ Hok) as [st1 [H1 L1]].
    inversion Ho'; subst. exact (IH st1 H1 fe' ltac:(assumption) Hip).
Qed.

(** * The literals of a program *)

Definition lits (p : block) : fentry -> Prop := occ_l p compiler_new.

Theorem lits_closed : forall p fe, lits p fe -> forall fe', occ_blk (fe_body fe) (fe_st fe) fe' -> lits p fe'.
Proof. intros p fe H fe' H'. exact (proj1 (proj2 (proj2 (proj2 occ_closed))) p compiler_new fe H fe' H'). Qed.

Lemma wfs_new : wfs compiler_new.
Proof.
  exists [], SGlobal, O, [], []. split; [reflexivity|]. split; [split; [reflexivity|constructor]|]. apply Nat.le_refl.
Qed.

Theorem lits_uniq : forall p st1, in_F4 p = true -> compile_statements p compiler_new = Ok st1 ->
  forall fe fe', lits p fe -> lits p fe' -> fe_ip fe = fe_ip fe' -> fe = fe'.
Proof.
  intros p st1 HF Hc fe fe' H H' Hip.
  assert (okL p compiler_new st1) as Hok by (split; [exists false, true, false; exact HF|split; [exact wfs_new|exact Hc]]).
  exact (proj1 (proj2 (proj2 (proj2 occ_uniq))) p compiler_new fe' H' st1 Hok fe H Hip).
Qed.

(* the table of Fragment4.at_overcall: "the function literal of p with entry point ip and n locals has
   np parameters" *)
Definition fun_table (p : block) (ip n : Z) (np : nat) : Prop :=
  exists fe, lits p fe /\ fe_ip fe = ip /\ fe_n fe = n /\ length (fe_ps fe) = np.

(* by lits_uniq the table is a partial function *)
Theorem fun_table_fun : forall p st1, in_F4 p = true -> compile_statements p compiler_new = Ok st1 ->
  forall ip n np n' np', fun_table p ip n np -> fun_table p ip n' np' -> n = n' /\ np = np'.
Proof.
  intros p st1 HF Hc ip n np n' np' [fe [H [E1 [E2 E3]]]] [fe' [H' [E1' [E2' E3']]]].
  assert (fe = fe') as <- by (apply (lits_uniq p st1 HF Hc); [exact H|exact H'|congruence]).
  split; congruence.
Qed.

Print Assumptions lits_closed.
Print Assumptions lits_uniq.
Print Assumptions fun_table_fun.
