(* CompileCorrectJ6.v - compiler correctness for the fragment F4, part J6: the correspondence between
   the heap of the evaluator under the policy "a literal allocates a fresh box" and its heap under
   the policy "constant pool" (= the heap of the collection-free machine), and its preservation by
   the value-level operations both sides share.

   CompileCorrectH3.v redone with FUNCTION VALUES: a function value is the same word (entry point,
   number of locals) on both sides (`VM_fun`); they occur in variables and inside arrays.  Nothing
   else changes: `HRm K R hs hm` = related graphs through a relation R on locations that grows, the
   allocator facts, and n_alloc hm <= n_alloc hs + K.  The lemmas that do not mention values
   (allocator facts, `extend`, `frame`, `nalloc_le`, ...) are those of part H3. *)
From Coq Require Import ZArith Lia Bool List String.
From NL.Model Require Import VM.
From NL.Spec Require Import Sem Fragment Fragment2 Fragment2h Fragment4 ArithSpec GCInv.
From NL.Proofs Require Import WordProofs OpsProofs VMGCLedger VMIndexProofs BuiltinsProofs CompileCorrectH3.
Open Scope Z_scope.

(** * Values, boxes and graphs related; function values are the same on both sides *)

Inductive vrm (R : loc_rel) : val -> val -> Prop :=
| VM_null : vrm R VNull VNull
| VM_bool : forall b, vrm R (VBool b) (VBool b)
| VM_int : forall z, vrm R (VInt z) (VInt z)
| VM_float : forall l l', R l l' -> vrm R (VFloat l) (VFloat l')
| VM_str : forall l l', R l l' -> vrm R (VStr l) (VStr l')
| VM_arr : forall l l', R l l' -> vrm R (VArr l) (VArr l')
| VM_fun : forall ip n, vrm R (VFun ip n) (VFun ip n).

Definition orm (R : loc_rel) (o o' : obj) : Prop :=
  match o, o' with
  | OFloat f, OFloat f' => f = f'
  | OStr s, OStr s' => s = s'
  | OArr vs, OArr vs' => Forall2 (vrm R) vs vs'
  | _, _ => False
  end.

Record grm (R : loc_rel) (hs hm : heap) : Prop := mkGRm {
  gm_obj : forall l l', R l l' ->
             exists o o', h_get hs l = Ok o /\ h_get hm l' = Ok o' /\ orm R o o';
  gm_fun : forall l l1 l2, R l l1 -> R l l2 -> l1 = l2;
  gm_inj : forall l1 l2 l', R l1 l' -> R l2 l' ->
             l1 = l2 \/ exists f, h_get hm l' = Ok (OFloat f)
}.

Lemma vrm_mono : forall R R' v v', rel_incl R R' -> vrm R v v' -> vrm R' v v'.
Proof. intros R R' v v' Hi H. destruct H; constructor; auto. Qed.

Lemma vrms_mono : forall R R' vs vs', rel_incl R R' -> Forall2 (vrm R) vs vs' -> Forall2 (vrm R') vs vs'.
Proof. intros R R' vs vs' Hi H. induction H; constructor; [eapply vrm_mono; eassumption|assumption]. Qed.

Lemma orm_mono : forall R R' o o', rel_incl R R' -> orm R o o' -> orm R' o o'.
Proof.
  intros R R' o o' Hi H. destruct o; destruct o'; cbn [orm] in *; try contradiction; auto.
  eapply vrms_mono; eassumption.
Qed.

Lemma vrm_tag : forall R v v', vrm R v v' -> val_tag v = val_tag v'.
Proof. intros R v v' H. destruct H; reflexivity. Qed.

(* a scalar is related to itself *)
Lemma vrm_scalar : forall R v, is_heap_val v = false -> vrm R v v.
Proof. intros R v H. destruct v; try discriminate H; constructor. Qed.


Record HRm (K : Z) (R : loc_rel) (hs hm : heap) : Prop := mkHRm {
  hm_graph : grm R hs hm;
  hm_oks : heap_ok hs;
  hm_okm : heap_ok hm;
  hm_K : 0 <= K;
  hm_cnt : n_alloc hm <= n_alloc hs + K
}.


Lemma HRm_get : forall K R hs hm l l', HRm K R hs hm -> R l l' ->
  exists o o', h_get hs l = Ok o /\ h_get hm l' = Ok o' /\ orm R o o'.
Proof. intros K R hs hm l l' H Hr. exact (gm_obj _ _ _ (hm_graph _ _ _ _ H) l l' Hr). Qed.

Lemma HRm_dom : forall K R hs hm l l', HRm K R hs hm -> R l l' ->
  (l < next_loc hs)%positive /\ (l' < next_loc hm)%positive.
Proof.
  intros K R hs hm l l' H Hr. destruct (HRm_get _ _ _ _ _ _ H Hr) as [o [o' [G1 [G2 _]]]].
  split; [exact (h_get_lt _ _ _ (hm_oks _ _ _ _ H) G1)|exact (h_get_lt _ _ _ (hm_okm _ _ _ _ H) G2)].
Qed.

Lemma HRm_small : forall K R hs hm l l', HRm K R hs hm -> small K hs -> R l l' ->
  Zpos l <? 2 ^ 60 = true /\ Zpos l' <? 2 ^ 60 = true.
Proof.
  intros K R hs hm l l' H Hs Hr. destruct (HRm_dom _ _ _ _ _ _ H Hr) as [D1 D2].
  pose proof (ho_next _ (hm_oks _ _ _ _ H)) as N1. pose proof (ho_next _ (hm_okm _ _ _ _ H)) as N2.
  pose proof (hm_K _ _ _ _ H) as HK. pose proof (hm_cnt _ _ _ _ H) as Hc. unfold small in Hs.
  split; apply Z.ltb_lt; lia.
Qed.

Lemma vrm_small : forall K R hs hm v v', HRm K R hs hm -> small K hs -> vrm R v v' ->
  loc_small v /\ loc_small v'.
Proof.
  intros K R hs hm v v' H Hs Hv.
  destruct Hv; (split; intros k Hk; cbn [val_loc] in Hk; try discriminate Hk; inversion Hk; subst k);
    match goal with Hr : R _ _ |- _ => destruct (HRm_small _ _ _ _ _ _ H Hs Hr) as [S1 S2]; assumption end.
Qed.


(* both sides allocate related objects *)
Lemma HRm_alloc2 : forall K R hs hm o o', HRm K R hs hm -> orm R o o' ->
  HRm K (extend R (next_loc hs) (next_loc hm)) (snd (h_alloc hs o)) (snd (h_alloc hm o')).
Proof.
  intros K R hs hm o o' H Ho. set (R' := extend R (next_loc hs) (next_loc hm)).
  pose proof (extend_incl R (next_loc hs) (next_loc hm)) as Hi. fold R' in Hi.
  assert (forall l l', R l l' -> l <> next_loc hs /\ l' <> next_loc hm) as Hne.
  { intros l l' Hr. destruct (HRm_dom _ _ _ _ _ _ H Hr) as [D1 D2]. split; lia. }
  destruct H as [[G1 G2 G3] O1 O2 HK Hc]. constructor; try assumption.
  - constructor.
    + intros l l' [Hr|[-> ->]].
      * destruct (Hne _ _ Hr) as [N1 N2]. destruct (G1 _ _ Hr) as [x [x' [A [B C]]]].
        exists x, x'. rewrite (h_get_alloc_other hs o l N1), (h_get_alloc_other hm o' l' N2).
        split; [exact A|split; [exact B|exact (orm_mono _ _ _ _ Hi C)]].
      * exists o, o'. rewrite !h_get_alloc_new. split; [reflexivity|split; [reflexivity|exact (orm_mono _ _ _ _ Hi Ho)]].
    + intros l l1 l2 [Hr1|[E1 E1']] [Hr2|[E2 E2']].
      * exact (G2 _ _ _ Hr1 Hr2).
      * exfalso. exact (proj1 (Hne _ _ Hr1) E2).
      * exfalso. exact (proj1 (Hne _ _ Hr2) E1).
      * congruence.
    + intros l1 l2 l' [Hr1|[E1 E1']] [Hr2|[E2 E2']].
      * destruct (G3 _ _ _ Hr1 Hr2) as [E|[f Hf]]; [left; exact E|right].
        exists f. rewrite (h_get_alloc_other hm o' l' (proj2 (Hne _ _ Hr1))). exact Hf.
      * exfalso. exact (proj2 (Hne _ _ Hr1) E2').
      * exfalso. exact (proj2 (Hne _ _ Hr2) E1').
      * left. congruence.
  - apply heap_ok_alloc. exact O1.
  - apply heap_ok_alloc. exact O2.
  - rewrite !n_alloc_alloc. lia.
Qed.

(* Sem allocates a float that the machine already holds in a (pooled, immutable) box *)
Lemma HRm_alloc_s : forall K R hs hm f lp, HRm K R hs hm -> h_get hm lp = Ok (OFloat f) ->
  HRm K (extend R (next_loc hs) lp) (snd (h_alloc hs (OFloat f))) hm.
Proof.
  intros K R hs hm f lp H Hp. set (R' := extend R (next_loc hs) lp).
  pose proof (extend_incl R (next_loc hs) lp) as Hi. fold R' in Hi.
  assert (forall l l', R l l' -> l <> next_loc hs) as Hne.
  { intros l l' Hr. destruct (HRm_dom _ _ _ _ _ _ H Hr) as [D1 D2]. lia. }
  destruct H as [[G1 G2 G3] O1 O2 HK Hc]. constructor; try assumption.
  - constructor.
    + intros l l' [Hr|[-> ->]].
      * destruct (G1 _ _ Hr) as [x [x' [A [B C]]]].
        exists x, x'. rewrite (h_get_alloc_other hs (OFloat f) l (Hne _ _ Hr)).
        split; [exact A|split; [exact B|exact (orm_mono _ _ _ _ Hi C)]].
      * exists (OFloat f), (OFloat f). rewrite h_get_alloc_new. split; [reflexivity|split; [exact Hp|reflexivity]].
    + intros l l1 l2 [Hr1|[E1 E1']] [Hr2|[E2 E2']].
      * exact (G2 _ _ _ Hr1 Hr2).
      * exfalso. exact (Hne _ _ Hr1 E2).
      * exfalso. exact (Hne _ _ Hr2 E1).
      * congruence.
    + intros l1 l2 l' [Hr1|[E1 E1']] [Hr2|[E2 E2']].
      * exact (G3 _ _ _ Hr1 Hr2).
      * right. exists f. rewrite E2'. exact Hp.
      * right. exists f. rewrite E1'. exact Hp.
      * left. congruence.
  - apply heap_ok_alloc. exact O1.
  - rewrite n_alloc_alloc. lia.
Qed.

(* related boxes (mutable ones: not floats) are overwritten by related objects *)
Lemma HRm_set : forall K R hs hm l l' o0 o0' o o', HRm K R hs hm -> R l l' ->
  h_get hs l = Ok o0 -> h_get hm l' = Ok o0' -> (forall f, o0' <> OFloat f) -> orm R o o' ->
  HRm K R (VMIndexProofs.set_cell hs l o) (VMIndexProofs.set_cell hm l' o').
Proof.
  intros K R hs hm l l' o0 o0' o o' H Hr Gs Gm Hnf Ho.
  destruct H as [[G1 G2 G3] O1 O2 HK Hc]. constructor; try assumption.
  - constructor.
    + intros a a' Ha. destruct (Pos.eq_dec a l) as [->|Na].
      * rewrite (G2 _ _ _ Ha Hr). exists o, o'. rewrite !h_get_set_cell_same. auto.
      * assert (a' <> l') as Na'.
        { intros ->. destruct (G3 _ _ _ Ha Hr) as [E|[f Hf]]; [exact (Na E)|].
          rewrite Gm in Hf. inversion Hf. exact (Hnf f H0). }
        destruct (G1 _ _ Ha) as [x [x' [A [B C]]]]. exists x, x'.
        rewrite (h_get_set_cell_other hs l o a Na), (h_get_set_cell_other hm l' o' a' Na'). auto.
    + exact G2.
    + intros l1 l2 l'' H1 H2. destruct (G3 _ _ _ H1 H2) as [E|[f Hf]]; [left; exact E|right].
      exists f. rewrite h_get_set_cell_other; [exact Hf|].
      intros ->. rewrite Gm in Hf. inversion Hf. exact (Hnf f H0).
  - exact (heap_ok_set_cell _ _ _ _ O1 Gs).
  - exact (heap_ok_set_cell _ _ _ _ O2 Gm).
Qed.

(** * Reading related boxes *)

Lemma get_float_rm : forall K R hs hm l l', HRm K R hs hm -> R l l' ->
  orel eq (get_float hs l) (get_float hm l').
Proof.
  intros K R hs hm l l' H Hr. destruct (HRm_get _ _ _ _ _ _ H Hr) as [o [o' [A [B C]]]].
  unfold get_float. rewrite A, B. cbn [bind].
  destruct o; destruct o'; cbn [orm orel] in *; try contradiction; auto.
Qed.

Lemma get_str_rm : forall K R hs hm l l', HRm K R hs hm -> R l l' ->
  orel eq (get_str hs l) (get_str hm l').
Proof.
  intros K R hs hm l l' H Hr. destruct (HRm_get _ _ _ _ _ _ H Hr) as [o [o' [A [B C]]]].
  unfold get_str. rewrite A, B. cbn [bind].
  destruct o; destruct o'; cbn [orm orel] in *; try contradiction; auto.
Qed.

Lemma get_arr_rm : forall K R hs hm l l', HRm K R hs hm -> R l l' ->
  orel (Forall2 (vrm R)) (get_arr hs l) (get_arr hm l').
Proof.
  intros K R hs hm l l' H Hr. destruct (HRm_get _ _ _ _ _ _ H Hr) as [o [o' [A [B C]]]].
  unfold get_arr. rewrite A, B. cbn [bind].
  destruct o; destruct o'; cbn [orm orel] in *; try contradiction; auto.
Qed.


(* value and new heap *)
Definition resm (K : Z) (R : loc_rel) (hm : heap) : outcome (val * heap) -> outcome (val * heap) -> Prop :=
  orel (fun x y => exists R', rel_incl R R' /\ vrm R' (fst x) (fst y) /\ HRm K R' (snd x) (snd y)
                              /\ frame R R' hm (snd y)).

Lemma resm_same : forall K R hs hm v v', HRm K R hs hm -> vrm R v v' ->
  resm K R hm (Ok (v, hs)) (Ok (v', hm)).
Proof.
  intros K R hs hm v v' H Hv. exists R. split; [apply rel_incl_refl|]. split; [exact Hv|].
  split; [exact H|apply frame_refl].
Qed.

Lemma resm_alloc_str : forall K R hs hm s, HRm K R hs hm ->
  resm K R hm (Ok (alloc_str hs s)) (Ok (alloc_str hm s)).
Proof.
  intros K R hs hm s H. rewrite !alloc_str_eq. exists (extend R (next_loc hs) (next_loc hm)). cbn [fst snd].
  split; [apply extend_incl|]. split; [constructor; apply extend_new|].
  split; [apply HRm_alloc2; [exact H|reflexivity]|apply frame_alloc; exact (hm_okm _ _ _ _ H)].
Qed.

Lemma resm_alloc_float : forall K R hs hm x, HRm K R hs hm ->
  resm K R hm (Ok (alloc_float hs x)) (Ok (alloc_float hm x)).
Proof.
  intros K R hs hm x H. rewrite !alloc_float_eq. exists (extend R (next_loc hs) (next_loc hm)). cbn [fst snd].
  split; [apply extend_incl|]. split; [constructor; apply extend_new|].
  split; [apply HRm_alloc2; [exact H|reflexivity]|apply frame_alloc; exact (hm_okm _ _ _ _ H)].
Qed.


(** ** lognot, negate *)

Lemma lognot_rm : forall R v v', vrm R v v' -> orel (vrm R) (lognot v) (lognot v').
Proof. intros R v v' H. destruct H; cbn [lognot orel]; auto. constructor. Qed.

Lemma negate_rm : forall K R hs hm v v', HRm K R hs hm -> vrm R v v' ->
  resm K R hm (negate hs v) (negate hm v').
Proof.
  intros K R hs hm v v' H Hv. destruct Hv; cbn [negate]; try exact eq_refl.
  - destruct (checked_int (if fits_isize (- z) then Some (- z) else None)) as [w|] eqn:Ec; [|exact eq_refl].
    destruct (checked_int_some _ _ Ec) as [z' [Hz' ->]]. rewrite (decode_w_int z' Hz').
    apply resm_same; [exact H|constructor].
  - pose proof (get_float_rm _ _ _ _ _ _ H H0) as Hg.
    destruct (get_float hs l) as [x| | |]; destruct (get_float hm l') as [y| | |]; cbn [orel bind] in *;
      try contradiction; try assumption. subst y.
    apply (resm_alloc_float K R hs hm (- x)%float H).
Qed.

(** ** binop: all methods *)

(* what a heap word points to, on both sides *)
Lemma deref_rm : forall K R hs hm v v' l l', HRm K R hs hm -> small K hs -> vrm R v v' ->
  val_loc v = Some l -> val_loc v' = Some l' -> R l l' ->
  exists o o', deref_heap hs (encode v) = Some o /\ deref_heap hm (encode v') = Some o' /\ orm R o o'.
Proof.
  intros K R hs hm v v' l l' H Hs Hv Hl Hl' Hr.
  destruct (vrm_small _ _ _ _ _ _ H Hs Hv) as [S1 S2].
  rewrite (deref_small hs v l S1 Hl), (deref_small hm v' l' S2 Hl').
  destruct (HRm_get _ _ _ _ _ _ H Hr) as [o [o' [A [B C]]]]. rewrite A, B. exists o, o'. auto.
Qed.

Section Methods.
  Variable orc : oracle.
  Variables (K : Z) (R : loc_rel) (hs hm : heap).
  Hypothesis H : HRm K R hs hm.
  Hypothesis Hsmall : small K hs.

  Lemma w_arith_rm : forall sym chk a a' b b', vrm R a a' -> vrm R b b' ->
    w_arith (deref_heap hs) orc sym chk (encode a) (encode b)
    = w_arith (deref_heap hm) orc sym chk (encode a') (encode b').
  Proof.
    intros sym chk a a' b b' Ha Hb. unfold w_arith. rewrite !tag_encode_all.
    rewrite <- (vrm_tag _ _ _ Ha), <- (vrm_tag _ _ _ Hb).
    destruct (tag_eqb (val_tag a) (val_tag b)) eqn:Et; cbn [negb]; [|reflexivity].
    apply tag_eqb_iff in Et.
    destruct Ha as [|x|x|l l' Hl|l l' Hl|l l' Hl|fi fj]; cbn [val_tag] in *; try reflexivity.
    - (* ints: the same words *)
      destruct Hb; cbn [val_tag] in Et; try discriminate Et. reflexivity.
    - (* floats *)
      destruct Hb as [|y|y|k k' Hk|k k' Hk|k k' Hk|gi gj]; cbn [val_tag] in Et; try discriminate Et.
      destruct (deref_rm K R hs hm (VFloat l) (VFloat l') l l' H Hsmall (VM_float R l l' Hl) eq_refl eq_refl Hl)
        as [o [o' [A1 [A2 A3]]]].
      destruct (deref_rm K R hs hm (VFloat k) (VFloat k') k k' H Hsmall (VM_float R k k' Hk) eq_refl eq_refl Hk)
        as [p [p' [B1 [B2 B3]]]].
      rewrite A1, A2, B1, B2.
      destruct o; destruct o'; cbn [orm] in A3; try contradiction; try reflexivity.
      subst f0.
      destruct p; destruct p'; cbn [orm] in B3; try contradiction; try reflexivity.
      subst f1. reflexivity.
  Qed.

  Lemma w_eq_rm : forall a a' b b', vrm R a a' -> vrm R b b' -> val_tag a = val_tag b ->
    w_eq (deref_heap hs) (val_tag a) (encode a) (encode b)
    = w_eq (deref_heap hm) (val_tag a) (encode a') (encode b').
  Proof.
    intros a a' b b' Ha Hb Et.
    destruct Ha as [|x|x|l l' Hl|l l' Hl|l l' Hl|fi fj]; cbn [val_tag] in *;
      destruct Hb as [|y|y|k k' Hk|k k' Hk|k k' Hk|gi gj]; cbn [val_tag] in Et; try discriminate Et;
      cbn [w_eq]; try reflexivity.
    - destruct (deref_rm K R hs hm (VFloat l) (VFloat l') l l' H Hsmall (VM_float R l l' Hl) eq_refl eq_refl Hl)
        as [o [o' [A1 [A2 A3]]]].
      destruct (deref_rm K R hs hm (VFloat k) (VFloat k') k k' H Hsmall (VM_float R k k' Hk) eq_refl eq_refl Hk)
        as [p [p' [B1 [B2 B3]]]].
      rewrite A1, A2, B1, B2.
      destruct o; destruct o'; cbn [orm] in A3; try contradiction; try reflexivity.
      subst f0.
      destruct p; destruct p'; cbn [orm] in B3; try contradiction; try reflexivity.
      subst f1. reflexivity.
    - destruct (deref_rm K R hs hm (VStr l) (VStr l') l l' H Hsmall (VM_str R l l' Hl) eq_refl eq_refl Hl)
        as [o [o' [A1 [A2 A3]]]].
      destruct (deref_rm K R hs hm (VStr k) (VStr k') k k' H Hsmall (VM_str R k k' Hk) eq_refl eq_refl Hk)
        as [p [p' [B1 [B2 B3]]]].
      rewrite A1, A2, B1, B2.
      destruct o; destruct o'; cbn [orm] in A3; try contradiction; try reflexivity.
      subst s0.
      destruct p; destruct p'; cbn [orm] in B3; try contradiction; try reflexivity.
      subst s1. reflexivity.
  Qed.

  Lemma w_pcmp_rm : forall a a' b b', vrm R a a' -> vrm R b b' -> val_tag a = val_tag b ->
    w_partial_cmp (deref_heap hs) (val_tag a) (encode a) (encode b)
    = w_partial_cmp (deref_heap hm) (val_tag a) (encode a') (encode b').
  Proof.
    intros a a' b b' Ha Hb Et.
    destruct Ha as [|x|x|l l' Hl|l l' Hl|l l' Hl|fi fj]; cbn [val_tag] in *;
      destruct Hb as [|y|y|k k' Hk|k k' Hk|k k' Hk|gi gj]; cbn [val_tag] in Et; try discriminate Et;
      cbn [w_partial_cmp]; try reflexivity.
    - destruct (deref_rm K R hs hm (VFloat l) (VFloat l') l l' H Hsmall (VM_float R l l' Hl) eq_refl eq_refl Hl)
        as [o [o' [A1 [A2 A3]]]].
      destruct (deref_rm K R hs hm (VFloat k) (VFloat k') k k' H Hsmall (VM_float R k k' Hk) eq_refl eq_refl Hk)
        as [p [p' [B1 [B2 B3]]]].
      rewrite A1, A2, B1, B2.
      destruct o; destruct o'; cbn [orm] in A3; try contradiction; try reflexivity.
      subst f0.
      destruct p; destruct p'; cbn [orm] in B3; try contradiction; try reflexivity.
      subst f1. reflexivity.
    - destruct (deref_rm K R hs hm (VStr l) (VStr l') l l' H Hsmall (VM_str R l l' Hl) eq_refl eq_refl Hl)
        as [o [o' [A1 [A2 A3]]]].
      destruct (deref_rm K R hs hm (VStr k) (VStr k') k k' H Hsmall (VM_str R k k' Hk) eq_refl eq_refl Hk)
        as [p [p' [B1 [B2 B3]]]].
      rewrite A1, A2, B1, B2.
      destruct o; destruct o'; cbn [orm] in A3; try contradiction; try reflexivity.
      subst s0.
      destruct p; destruct p'; cbn [orm] in B3; try contradiction; try reflexivity.
      subst s1. reflexivity.
  Qed.

  Lemma w_cmp_rm : forall sym ord a a' b b', vrm R a a' -> vrm R b b' ->
    w_cmp (deref_heap hs) sym ord (encode a) (encode b)
    = w_cmp (deref_heap hm) sym ord (encode a') (encode b').
  Proof.
    intros sym ord a a' b b' Ha Hb. unfold w_cmp. rewrite !tag_encode_all.
    rewrite <- (vrm_tag _ _ _ Ha), <- (vrm_tag _ _ _ Hb).
    destruct (tag_eqb (val_tag a) (val_tag b)) eqn:Et; cbn [negb]; [|reflexivity].
    apply tag_eqb_iff in Et.
    destruct (tag_eqb (val_tag a) TArray || (ord && tag_eqb (val_tag a) TFunction)); [reflexivity|].
    unfold cmp_sym. rewrite (w_eq_rm a a' b b' Ha Hb Et), (w_pcmp_rm a a' b b' Ha Hb Et). reflexivity.
  Qed.

  Lemma w_logical_rm : forall sym a a' b b', vrm R a a' -> vrm R b b' ->
    w_logical sym (encode a) (encode b) = w_logical sym (encode a') (encode b').
  Proof.
    intros sym a a' b b' Ha Hb. unfold w_logical. rewrite !tag_encode_all.
    rewrite <- (vrm_tag _ _ _ Ha), <- (vrm_tag _ _ _ Hb).
    destruct Ha; cbn [val_tag]; try reflexivity. destruct Hb; cbn [val_tag]; reflexivity.
  Qed.

  Lemma w_method_rm : forall m a a' b b', vrm R a a' -> vrm R b b' ->
    w_method (deref_heap hs) orc m (encode a) (encode b)
    = w_method (deref_heap hm) orc m (encode a') (encode b').
  Proof.
    intros m a a' b b' Ha Hb. unfold w_method.
    destruct (assoc3 m arith_methods) as [[sym chk]|]; [apply w_arith_rm; assumption|].
    destruct (assoc3 m cmp_methods) as [[sym ord]|]; [apply w_cmp_rm; assumption|].
    destruct (assoc2 m logical_methods) as [sym|]; [apply w_logical_rm; assumption|reflexivity].
  Qed.


  Theorem binop_rm : forall m a a' b b', vrm R a a' -> vrm R b b' ->
    resm K R hm (binop orc m hs a b) (binop orc m hm a' b').
  Proof.
    intros m a a' b b' Ha Hb. unfold binop. rewrite <- (w_method_rm m a a' b b' Ha Hb).
    destruct (w_method (deref_heap hs) orc m (encode a) (encode b)) as [w|f|k|f] eqn:E;
      cbn [lift_wres]; try exact eq_refl.
    - destruct (w_method_word orc _ _ _ _ _ E) as [[z [Hz ->]]|[bb ->]].
      + rewrite (decode_w_int z Hz). apply resm_same; [exact H|constructor].
      + assert (decode (w_bool bb) = Some (VBool bb)) as -> by (destruct bb; reflexivity).
        apply resm_same; [exact H|constructor].
    - exact (resm_alloc_float K R hs hm f H).
  Qed.
End Methods.

(** ** display, print *)

Section Display.
  Variable orc : oracle.
  Variables (K : Z) (R : loc_rel) (hs hm : heap).
  Hypothesis H : HRm K R hs hm.

  Lemma show_list_rm : forall f,
    (forall v v', vrm R v v' -> orel eq (show_val orc f hs v) (show_val orc f hm v')) ->
    forall vs vs' first, Forall2 (vrm R) vs vs' ->
    orel eq (show_list orc f hs vs first) (show_list orc f hm vs' first).
  Proof.
    intros f IH vs vs' first HF. revert first. induction HF as [|v v' r r' Hv Hr IHr]; intros first.
    - reflexivity.
    - rewrite !show_list_cons.
      apply (orel_bind _ _ _ _ eq eq); [apply IH; exact Hv|]. intros t t' <-.
      apply (orel_bind _ _ _ _ eq eq); [apply IHr|]. intros rest rest' <-. reflexivity.
  Qed.

  Theorem show_val_rm : forall fuel v v', vrm R v v' ->
    orel eq (show_val orc fuel hs v) (show_val orc fuel hm v').
  Proof.
    induction fuel as [|f IH]; intros v v' Hv; [exact I|].
    rewrite !show_val_S. destruct Hv as [|b|z|l l' Hl|l l' Hl|l l' Hl|fi fj]; try reflexivity.
    - apply (orel_bind _ _ _ _ eq eq); [exact (get_float_rm _ _ _ _ _ _ H Hl)|]. intros x x' <-. reflexivity.
    - exact (get_str_rm _ _ _ _ _ _ H Hl).
    - apply (orel_bind _ _ _ _ (Forall2 (vrm R)) eq); [exact (get_arr_rm _ _ _ _ _ _ H Hl)|].
      intros vs vs' Hvs.
      apply (orel_bind _ _ _ _ eq eq); [apply show_list_rm; [exact IH|exact Hvs]|]. intros t t' <-. reflexivity.
  Qed.

  Lemma display_rm : forall v v', vrm R v v' -> orel eq (display orc hs v) (display orc hm v').
  Proof. intros v v' Hv. apply show_val_rm. exact Hv. Qed.

  Lemma fill_rm : forall args args', Forall2 (vrm R) args args' ->
    forall rest, orel eq (fill orc hs rest args) (fill orc hm rest args').
  Proof.
    intros args args' HF. induction HF as [|a a' r r' Ha Hr IH]; intros rest; cbn [fill]; [reflexivity|].
    destruct (find_placeholder rest) as [[before after]|]; [|reflexivity].
    apply (orel_bind _ _ _ _ eq eq); [exact (display_rm a a' Ha)|]. intros t t' <-.
    apply (orel_bind _ _ _ _ eq eq); [apply IH|]. intros tl tl' <-. reflexivity.
  Qed.

  Theorem call_print_rm : forall args args', Forall2 (vrm R) args args' ->
    orel eq (call_print orc hs args) (call_print orc hm args').
  Proof.
    intros args args' HF. destruct HF as [|a a' r r' Ha Hr]; cbn [call_print]; [reflexivity|].
    apply (orel_bind _ _ _ _ eq eq); [exact (display_rm a a' Ha)|]. intros t t' <-.
    apply (orel_bind _ _ _ _ eq eq); [exact (fill_rm r r' Hr t)|]. intros s s' <-. reflexivity.
  Qed.
End Display.

(** ** the other builtins *)

Section Builtins.
  Variable orc : oracle.
  Variables (K : Z) (R : loc_rel) (hs hm : heap).
  Hypothesis H : HRm K R hs hm.

  Lemma one_arg_rm : forall A B (P : A -> B -> Prop) args args' (k : val -> outcome A) (k' : val -> outcome B),
    Forall2 (vrm R) args args' ->
    (forall a a', vrm R a a' -> orel P (k a) (k' a')) ->
    orel P (one_arg args k) (one_arg args' k').
  Proof.
    intros A B P args args' k k' HF Hk. unfold one_arg.
    destruct HF as [|a a' r r' Ha Hr]; [reflexivity|]. destruct Hr; [apply Hk; exact Ha|reflexivity].
  Qed.

  Lemma call_type_rm : forall args args', Forall2 (vrm R) args args' ->
    resm K R hm (call_type hs args) (call_type hm args').
  Proof.
    intros args args' HF. unfold call_type. apply one_arg_rm; [exact HF|]. intros a a' Ha.
    rewrite <- (vrm_tag _ _ _ Ha). exact (resm_alloc_str K R hs hm _ H).
  Qed.

  Lemma call_string_rm : forall args args', Forall2 (vrm R) args args' ->
    resm K R hm (call_string orc hs args) (call_string orc hm args').
  Proof.
    intros args args' HF. unfold call_string. apply one_arg_rm; [exact HF|]. intros a a' Ha.
    destruct Ha as [|b|z|l l' Hl|l l' Hl|l l' Hl|fi fj]; try exact (resm_alloc_str K R hs hm _ H); try exact eq_refl.
    - pose proof (get_float_rm _ _ _ _ _ _ H Hl) as Hg.
      destruct (get_float hs l) as [x| | |]; destruct (get_float hm l') as [y| | |]; cbn [orel bind] in *;
        try contradiction; try assumption. subst y. exact (resm_alloc_str K R hs hm _ H).
    - apply resm_same; [exact H|constructor; exact Hl].
  Qed.

  Lemma resm_bool : forall b, resm K R hm (Ok (VBool b, hs)) (Ok (VBool b, hm)).
  Proof. intros b. apply resm_same; [exact H|constructor]. Qed.

  Lemma call_bool_rm : forall args args', Forall2 (vrm R) args args' ->
    resm K R hm (call_bool hs args) (call_bool hm args').
  Proof.
    intros args args' HF. unfold call_bool. apply one_arg_rm; [exact HF|]. intros a a' Ha.
    destruct Ha as [|b|z|l l' Hl|l l' Hl|l l' Hl|fi fj]; try apply resm_bool.
    - pose proof (get_float_rm _ _ _ _ _ _ H Hl) as Hg.
      destruct (get_float hs l) as [x| | |]; destruct (get_float hm l') as [y| | |]; cbn [orel bind] in *;
        try contradiction; try assumption. subst y. apply resm_bool.
    - pose proof (get_str_rm _ _ _ _ _ _ H Hl) as Hg.
      destruct (get_str hs l) as [x| | |]; destruct (get_str hm l') as [y| | |]; cbn [orel bind] in *;
        try contradiction; try assumption. subst y. apply resm_bool.
    - pose proof (get_arr_rm _ _ _ _ _ _ H Hl) as Hg.
      destruct (get_arr hs l) as [x| | |]; destruct (get_arr hm l') as [y| | |]; cbn [orel bind] in *;
        try contradiction; try assumption.
      destruct Hg; apply resm_bool.
    - exact eq_refl.
  Qed.

  Lemma ranged_int_rm : forall z, resm K R hm (ranged_int hs z) (ranged_int hm z).
  Proof.
    intros z. unfold ranged_int. destruct (in_int_range z); [|exact eq_refl].
    apply resm_same; [exact H|constructor].
  Qed.

  Lemma call_int_rm : forall args args', Forall2 (vrm R) args args' ->
    resm K R hm (call_int hs args) (call_int hm args').
  Proof.
    intros args args' HF. unfold call_int. apply one_arg_rm; [exact HF|]. intros a a' Ha.
    destruct Ha as [|b|z|l l' Hl|l l' Hl|l l' Hl|fi fj]; try apply ranged_int_rm; try exact eq_refl.
    - apply resm_same; [exact H|constructor].
    - pose proof (get_float_rm _ _ _ _ _ _ H Hl) as Hg.
      destruct (get_float hs l) as [x| | |]; destruct (get_float hm l') as [y| | |]; cbn [orel bind] in *;
        try contradiction; try assumption. subst y. apply ranged_int_rm.
    - pose proof (get_str_rm _ _ _ _ _ _ H Hl) as Hg.
      destruct (get_str hs l) as [x| | |]; destruct (get_str hm l') as [y| | |]; cbn [orel bind] in *;
        try contradiction; try assumption. subst y.
      destruct (parse_isize (trim x)); [apply ranged_int_rm|exact eq_refl].
  Qed.

  Lemma call_float_rm : forall args args', Forall2 (vrm R) args args' ->
    resm K R hm (call_float orc hs args) (call_float orc hm args').
  Proof.
    intros args args' HF. unfold call_float. apply one_arg_rm; [exact HF|]. intros a a' Ha.
    destruct Ha as [|b|z|l l' Hl|l l' Hl|l l' Hl|fi fj]; try exact (resm_alloc_float K R hs hm _ H); try exact eq_refl.
    - apply resm_same; [exact H|constructor; exact Hl].
    - pose proof (get_str_rm _ _ _ _ _ _ H Hl) as Hg.
      destruct (get_str hs l) as [x| | |]; destruct (get_str hm l') as [y| | |]; cbn [orel bind] in *;
        try contradiction; try assumption. subst y.
      destruct (parse_float orc x); [exact (resm_alloc_float K R hs hm _ H)|exact eq_refl].
  Qed.


  Lemma call_length_rm : forall args args', Forall2 (vrm R) args args' ->
    resm K R hm (call_length hs args) (call_length hm args').
  Proof.
    intros args args' HF. unfold call_length. apply one_arg_rm; [exact HF|]. intros a a' Ha.
    destruct Ha as [|b|z|l l' Hl|l l' Hl|l l' Hl|fi fj]; try exact eq_refl.
    - pose proof (get_str_rm _ _ _ _ _ _ H Hl) as Hg.
      destruct (get_str hs l) as [x| | |]; destruct (get_str hm l') as [y| | |]; cbn [orel bind] in *;
        try contradiction; try assumption. subst y. apply resm_same; [exact H|constructor].
    - pose proof (get_arr_rm _ _ _ _ _ _ H Hl) as Hg.
      destruct (get_arr hs l) as [x| | |]; destruct (get_arr hm l') as [y| | |]; cbn [orel bind] in *;
        try contradiction; try assumption.
      rewrite (Forall2_zlength _ _ _ _ _ Hg). apply resm_same; [exact H|constructor].
  Qed.

  (* result, new heap, printed text *)
  Definition bresm : outcome (val * heap * text) -> outcome (val * heap * text) -> Prop :=
    orel (fun x y => snd x = snd y /\
            exists R', rel_incl R R' /\ vrm R' (fst (fst x)) (fst (fst y)) /\ HRm K R' (snd (fst x)) (snd (fst y))
                       /\ frame R R' hm (snd (fst y))).

  Lemma wrap_rm : forall (rs rm : outcome (val * heap)), resm K R hm rs rm ->
    bresm (do r <- rs; Ok (r, [])) (do r <- rm; Ok (r, [])).
  Proof.
    intros rs rm Hr. destruct rs as [[v h1]| | |]; destruct rm as [[v' h2]| | |]; cbn [resm orel bind bresm] in *;
      try contradiction; try assumption. split; [reflexivity|exact Hr].
  Qed.

  Theorem call_builtin_rm : forall b args args', Forall2 (vrm R) args args' ->
    bresm (call_builtin orc b hs args) (call_builtin orc b hm args').
  Proof.
    intros b args args' HF. destruct b; cbn [call_builtin].
    - pose proof (call_print_rm orc K R hs hm H args args' HF) as Hp.
      destruct (call_print orc hs args) as [t| | |]; destruct (call_print orc hm args') as [t'| | |];
        cbn [orel bind bresm] in *; try contradiction; try assumption.
      split; [exact Hp|]. exists R. split; [apply rel_incl_refl|]. split; [constructor|].
      split; [exact H|apply frame_refl].
    - apply wrap_rm. apply call_type_rm. exact HF.
    - apply wrap_rm. apply call_bool_rm. exact HF.
    - apply wrap_rm. apply call_float_rm. exact HF.
    - apply wrap_rm. apply call_int_rm. exact HF.
    - apply wrap_rm. apply call_string_rm. exact HF.
    - apply wrap_rm. apply call_length_rm. exact HF.
  Qed.
End Builtins.


Print Assumptions binop_rm.
Print Assumptions call_builtin_rm.
