(* PrinterFinal.v - C07 at token level for the parser entry point with its fixed fuel:
   Parser.parse_tokens (print_program b) = Ok b, from PrinterProofs (some fuel suffices),
   ParserFuel (results agree across fuels) and ParserTermination (the fixed fuel is never exhausted). *)
From NL.Model Require Import Parser.
From NL.Spec Require Import Printer.
From NL.Proofs Require Import ParserFuel ParserTermination PrinterProofs.
Open Scope Z_scope.

(* general form: `fok` says which float literals are admitted *)
Theorem parse_tokens_print_gen_final : forall pf show_f fok b,
  (forall x, fok x = true -> pf (show_f x) = Some x) ->
  wf_tree_gen fok b = true ->
  parse_tokens pf (print_program show_f b) = Ok b.
Proof.
  intros pf show_f fok b Hf Hwf.
  apply (parse_tokens_print_gen pf show_f fok b Hf Hwf). apply parse_terminates.
Qed.

(* every tree of the parser's image, float literals included, under the oracle hypothesis *)
Theorem parse_tokens_print : forall pf show_f b,
  wf_tree b = true -> (forall x, pf (show_f x) = Some x) ->
  parse_tokens pf (print_program show_f b) = Ok b.
Proof.
  intros pf show_f b Hwf Hf.
  exact (parse_tokens_print_gen_final pf show_f (fun _ => true) b (fun x _ => Hf x) Hwf).
Qed.

(* trees without float literals: unconditional *)
Theorem parse_tokens_print_nofloat : forall pf show_f b,
  wf_tree_nofloat b = true -> parse_tokens pf (print_program show_f b) = Ok b.
Proof.
  intros pf show_f b Hwf.
  refine (parse_tokens_print_gen_final pf show_f (fun _ => false) b _ Hwf).
  intros x Hx. discriminate Hx.
Qed.

(* non-vacuity: a non-trivial tree satisfying the hypothesis *)
Example parse_tokens_print_ex :
  let a := EIdent [97%N] in let b := EIdent [98%N] in
  let t := [SLet [120%N] (EInfix (EPrefix OpSubtract a) OpMultiply (EInfix b OpSubtract (EInfix a OpSubtract b)));
            SExpr (EIf (EPrefix OpNot (EInfix a OpEq b)) [SReturn (ECall (EIdent [102%N]) [EInt 1; EArray [a; b]])]
                     (Some [SExpr (EIf b [SBreak] None)]))] in
  wf_tree_nofloat t = true /\
  parse_tokens (fun _ => None) (print_program (fun _ => []) t) = Ok t.
Proof. vm_compute. split; reflexivity. Qed.

Print Assumptions parse_tokens_print_gen_final.
Print Assumptions parse_tokens_print.
Print Assumptions parse_tokens_print_nofloat.
