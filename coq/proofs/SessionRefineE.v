(* SessionRefineE.v - property C17 for sessions whose lines are in fragment F2 (F1 + nested block scopes,
   blocks, als / anders als / anders as statement and as value, zolang with stop / volgende; scalars only).

   - `line_refines_F2`: one more line fed to a retained (Compiler, VM) pair behaves as the meaning of
     the session says (SemSession.sem_line'): (a) accepted and runs to a value, (b) rejected by the
     compiler (both sides keep their state), (c) fails while running (the assignments completed before
     the failure persist on both sides).  Exclusions: finding D29 (`decls_done`, as for F1) and
     finding D30 (`init_done`: the line does not fail inside the initialiser of a top-level `stel`).
   - `session_refines_program_F2`: whole sessions, by induction on the lines.
   - the invariant `SRel2` weakens SessionRefine.SRel: the globals vector may be LONGER than the list
     of visible declarations (dead block-local variables leave their slots behind; slots are reused). *)
From Coq Require Import ZArith Lia Bool List String.
From NL.Model Require Import VM Session.
From NL.Spec Require Import Sem SemSession Fragment Fragment2 ArithSpec ScopeSpec.
From NL.Proofs Require Import WordProofs OpsProofs AstInduction ControlProofs SymbolsProofs SessionProofs
  CompileCorrectA CompileCorrectB CompileCorrectC CompileCorrectD SessionRefine SessionRefineB SessionRefineC
  SessionRefineD.
From NL.Proofs Require CompilerNames CompilerTotal PrinterProofs.
Open Scope Z_scope.

(** * 1. The compiler on a line of F2: no TypeError, no fault *)

Definition nte {A} (x : outcome A) : Prop := x <> Err ETypeError.

Lemma nte_bind : forall A B (x : outcome A) (k : A -> outcome B),
  nte x -> (forall a, x = Ok a -> nte (k a)) -> nte (bind x k).
Proof.
  intros A B x k Hx Hk. destruct x as [a|e|f|]; cbn [bind].
  - apply Hk. reflexivity.
  - intros E. apply Hx. inversion E. reflexivity.
  - discriminate.
  - discriminate.
Qed.

Lemma nte_ok : forall A (a : A), nte (Ok a).
Proof. intros A a. discriminate. Qed.

Lemma nte_operand : forall bits v, nte (operand bits v).
Proof. intros bits v. unfold operand. destruct (v <? 2 ^ bits); discriminate. Qed.

Lemma nte_emit_const : forall k st, nte (emit_const k st).
Proof.
  intros k st. unfold emit_const, add_constant. destruct (const_position k (c_constants st));
    (apply nte_bind; [apply nte_operand|intros; apply nte_ok]).
Qed.

Lemma nte_emit_sym : forall op sy st, nte (emit_sym op sy st).
Proof. intros op sy st. unfold emit_sym. apply nte_bind; [apply nte_operand|intros; apply nte_ok]. Qed.

Lemma nte_change_jump : forall idx v st, nte (change_jump_operand_at idx v st).
Proof.
  intros idx v st. unfold change_jump_operand_at. destruct (nth_error (c_code st) (Z.to_nat idx)); [|discriminate].
  destruct ((z =? byte_of_opcode OJump) || (z =? byte_of_opcode OJumpIfFalse)); discriminate.
Qed.

Lemma nte_patch_breaks : forall l st, nte (patch_breaks l st).
Proof.
  intros l st. unfold patch_breaks.
  assert (forall x : outcome cstate, nte x ->
            nte (fold_left (fun acc ip => do s <- acc; do tg <- operand 16 (code_len s); change_jump_operand_at ip tg s) l x)) as H.
  { induction l as [|ip l IH]; intros x Hx; cbn [fold_left]; [exact Hx|]. apply IH.
    apply nte_bind; [exact Hx|]. intros s _. apply nte_bind; [apply nte_operand|]. intros tg _. apply nte_change_jump. }
  apply H. apply nte_ok.
Qed.

Definition nteE (e : expr) : Prop := forall lp st, f2e lp e = true -> nte (compile_expression e st).
Definition nteS (s : stmt) : Prop := forall lp st, f2s lp s = true -> nte (compile_statement s st).

Lemma nte_stmts : forall l, Forall nteS l -> forall lp st, f2b lp l = true -> nte (compile_statements l st).
Proof.
  intros l H. induction H as [|s r Hs _ IH]; intros lp st HF; [apply nte_ok|].
  rewrite f2b_cons in HF. apply andb_prop in HF. destruct HF as [H1 H2].
  cbn [compile_statements]. apply nte_bind; [exact (Hs lp st H1)|]. intros st' _. exact (IH lp st' H2).
Qed.

Lemma nte_block_value : forall l, Forall nteS l -> forall lp st, f2b lp l = true -> nte (c_block_value l st).
Proof.
  intros l H lp st HF. unfold c_block_value, c_block_statement. apply nte_bind.
  - destruct (is_nil l); [apply nte_ok|]. apply nte_bind; [exact (nte_stmts l H lp _ HF)|intros; apply nte_ok].
  - intros st1 _. destruct (is_nil l); [apply nte_ok|]. destruct (last_instruction_is OPop st1); apply nte_ok.
Qed.

Lemma nte_all : (forall e, nteE e) /\ (forall s, nteS s).
Proof.
  apply expr_stmt_ind.
  - (* EInfix *)
    intros l o r IHl IHr lp st HF. rewrite f2e_infix in HF. apply andb_prop in HF. destruct HF as [HF Hr].
    apply andb_prop in HF. destruct HF as [Hop Hl]. rewrite ce_infix.
    assert (forall st0, nte (generic_infix l o r st0)) as Hgen.
    { intros st0. unfold generic_infix. apply nte_bind; [exact (IHl false st0 Hl)|]. intros st1 _.
      apply nte_bind; [exact (IHr false st1 Hr)|]. intros st2 _.
      destruct (assoc operator_eqb o compile_operator_table); discriminate. }
    destruct (fused_candidate l r o) as [[[name v] op']|]; [|apply Hgen].
    destruct (compile_const_var_infix name v op' st) as [st1 done]. destruct done; [apply nte_ok|apply Hgen].
  - (* EPrefix *)
    intros o r IHr lp st HF. rewrite f2e_prefix in HF. apply andb_prop in HF. destruct HF as [Hop Hr].
    rewrite ce_prefix. apply nte_bind; [exact (IHr false st Hr)|]. intros st1 _.
    destruct o; try discriminate Hop; apply nte_ok.
  - intros z lp st _. rewrite ce_int. apply nte_emit_const.
  - intros x lp st HF. discriminate HF.
  - intros b lp st _. rewrite ce_bool. apply nte_ok.
  - (* EIf *)
    intros c t alt IHc IHt IHa lp st HF. rewrite f2e_if in HF. apply andb_prop in HF. destruct HF as [HF Hfa].
    apply andb_prop in HF. destruct HF as [Hfc Hft]. rewrite ce_if. cbv zeta.
    apply nte_bind; [exact (IHc false st Hfc)|]. intros st1 _.
    apply nte_bind; [exact (nte_block_value t IHt lp _ Hft)|]. intros st3 _.
    apply nte_bind; [apply nte_operand|]. intros t1 _.
    apply nte_bind; [apply nte_change_jump|]. intros st5 _.
    apply nte_bind.
    { destruct alt as [bl|]; [exact (nte_block_value bl IHa lp _ Hfa)|apply nte_ok]. }
    intros st6 _. apply nte_bind; [apply nte_operand|]. intros t2 _. apply nte_change_jump.
  - (* EIdent *)
    intros x lp st _. rewrite ce_ident. destruct (resolve (c_symbols st) x); [apply nte_emit_sym|discriminate].
  - intros n ps body _ lp st HF. discriminate HF.
  - intros h args _ _ lp st HF. discriminate HF.
  - (* EAssign *)
    intros l r _ IHr lp st HF. destruct l as [| | | | | |x| | | | | | |]; try discriminate HF.
    rewrite f2e_assign in HF. rewrite ce_assign_ident.
    destruct (resolve (c_symbols st) x); [|discriminate].
    apply nte_bind; [exact (IHr false st HF)|]. intros st1 _.
    apply nte_bind; [apply nte_emit_sym|]. intros st2 _. apply nte_emit_sym.
  - intros s lp st HF. discriminate HF.
  - intros vs _ lp st HF. discriminate HF.
  - intros b i _ _ lp st HF. discriminate HF.
  - (* EWhile *)
    intros c body IHc IHb lp st HF. rewrite f2e_while in HF. apply andb_prop in HF. destruct HF as [Hfc Hfb].
    rewrite ce_while. cbv zeta.
    apply nte_bind; [exact (IHc false _ Hfc)|]. intros st3 _.
    apply nte_bind; [exact (nte_block_value body IHb true _ Hfb)|]. intros st5 _.
    apply nte_bind; [apply nte_operand|]. intros back _.
    apply nte_bind; [apply nte_operand|]. intros target _.
    apply nte_bind; [apply nte_change_jump|]. intros st8 _.
    destruct (rev (c_loops st8)); [discriminate|apply nte_patch_breaks].
  - (* SLet *)
    intros x e IHe lp st HF. cbn [f2s] in HF. apply andb_prop in HF. destruct HF as [He _].
    rewrite cs_let. destruct (define (c_symbols st) x) as [t sy].
    apply nte_bind; [exact (IHe false _ He)|]. intros st1 _. apply nte_emit_sym.
  - intros e _ lp st HF. discriminate HF.
  - (* SExpr *)
    intros e IHe lp st HF. cbn [f2s] in HF. rewrite cs_expr.
    apply nte_bind; [exact (IHe lp st HF)|]. intros; apply nte_ok.
  - (* SBlock *)
    intros b IHb lp st HF. rewrite f2s_block in HF. rewrite cs_block.
    destruct (is_nil b); [apply nte_ok|]. apply nte_bind; [exact (nte_stmts b IHb lp _ HF)|intros; apply nte_ok].
  - (* SBreak *)
    intros lp st _. cbn [compile_statement]. destruct (rev (c_loops _)); discriminate.
  - (* SContinue *)
    intros lp st _. cbn [compile_statement]. destruct (rev (c_loops _)); [discriminate|].
    apply nte_bind; [apply nte_operand|intros; apply nte_ok].
Qed.

(* a line of F2 is never rejected with a TypeError by the compiler *)
Theorem f2_compile_no_type_error : forall l lp st, f2b lp l = true -> compile_statements l st <> Err ETypeError.
Proof.
  intros l lp st HF. apply (nte_stmts l) with (lp := lp); [|exact HF]. apply Forall_forall. intros s _. apply (proj2 nte_all).
Qed.

(** * 2. The static pass and the retained compiler (CompilerNames.v, from a retained state) *)

Lemma f2_fn_ok : (forall e, forall lp flag, f2e lp e = true -> CompilerNames.fn_ok flag e = true) /\
                 (forall s, forall lp, f2s lp s = true -> CompilerNames.fn_ok_stmt s = true).
Proof.
  assert (forall l, Forall (fun s => forall lp, f2s lp s = true -> CompilerNames.fn_ok_stmt s = true) l ->
            forall lp, f2b lp l = true -> forallb CompilerNames.fn_ok_stmt l = true) as Hlist.
  { intros l H. induction H as [|s r Hs _ IH]; intros lp HF; [reflexivity|].
    rewrite f2b_cons in HF. apply andb_prop in HF. destruct HF as [H1 H2]. cbn [forallb].
    rewrite (Hs lp H1), (IH lp H2). reflexivity. }
  apply expr_stmt_ind.
  - intros l o r IHl IHr lp flag HF. rewrite f2e_infix in HF. apply andb_prop in HF. destruct HF as [HF Hr].
    apply andb_prop in HF. destruct HF as [_ Hl]. cbn [CompilerNames.fn_ok]. rewrite (IHl false false Hl), (IHr false false Hr). reflexivity.
  - intros o r IHr lp flag HF. rewrite f2e_prefix in HF. apply andb_prop in HF. destruct HF as [_ Hr].
    cbn [CompilerNames.fn_ok]. exact (IHr false false Hr).
  - reflexivity.
  - intros x lp flag HF. discriminate HF.
  - reflexivity.
  - intros c t alt IHc IHt IHa lp flag HF. rewrite f2e_if in HF. apply andb_prop in HF. destruct HF as [HF Hfa].
    apply andb_prop in HF. destruct HF as [Hfc Hft]. cbn [CompilerNames.fn_ok].
    rewrite (IHc false false Hfc), (Hlist t IHt lp Hft). cbn [andb].
    destruct alt as [bl|]; [exact (Hlist bl IHa lp Hfa)|reflexivity].
  - reflexivity.
  - intros n ps body _ lp flag HF. discriminate HF.
  - intros h args _ _ lp flag HF. discriminate HF.
  - intros l r _ IHr lp flag HF. destruct l as [| | | | | |x| | | | | | |]; try discriminate HF.
    rewrite f2e_assign in HF. cbn [CompilerNames.fn_ok]. exact (IHr false false HF).
  - intros s lp flag HF. discriminate HF.
  - intros vs _ lp flag HF. discriminate HF.
  - intros b i _ _ lp flag HF. discriminate HF.
  - intros c body IHc IHb lp flag HF. rewrite f2e_while in HF. apply andb_prop in HF. destruct HF as [Hfc Hfb].
    cbn [CompilerNames.fn_ok]. rewrite (IHc false false Hfc). exact (Hlist body IHb true Hfb).
  - intros x e IHe lp HF. cbn [f2s] in HF. apply andb_prop in HF. destruct HF as [He _].
    cbn [CompilerNames.fn_ok_stmt]. exact (IHe false false He).
  - intros e _ lp HF. discriminate HF.
  - intros e IHe lp HF. cbn [f2s] in HF. cbn [CompilerNames.fn_ok_stmt]. exact (IHe lp true HF).
  - intros b IHb lp HF. rewrite f2s_block in HF. cbn [CompilerNames.fn_ok_stmt]. exact (Hlist b IHb lp HF).
  - reflexivity.
  - reflexivity.
Qed.

Lemma f2_fn_ok_block : forall l lp, f2b lp l = true -> CompilerNames.fn_ok_block l = true.
Proof.
  intros l. induction l as [|s r IH]; intros lp HF; [reflexivity|].
  rewrite f2b_cons in HF. apply andb_prop in HF. destruct HF as [H1 H2].
  unfold CompilerNames.fn_ok_block. cbn [forallb]. rewrite (proj2 f2_fn_ok s lp H1).
  exact (IH lp H2).
Qed.

Lemma wf_stab : forall k names, (length names <= k)%nat -> wf_tab (stab k [] names).
Proof.
  intros k names H. unfold wf_tab, stab. cbn [app global hd tl c_scope].
  split; [discriminate|]. split; [reflexivity|]. split; [constructor|].
  constructor; [|constructor]. split; [discriminate|].
  rewrite total_len_concat. cbn [concat c_max]. rewrite app_nil_r. exact H.
Qed.

Lemma wf_stab_inv : forall k names, wf_tab (stab k [] names) -> (length names <= k)%nat.
Proof.
  intros k names [_ [_ [_ H]]]. inversion H as [|c r [_ Hc] _]; subst.
  rewrite total_len_concat in Hc. cbn [concat c_max] in Hc. rewrite app_nil_r in Hc. exact Hc.
Qed.

(* the retained compiler between two lines and Sem's static context show the same names *)
Lemma session_sim : forall st k names, c_symbols st = stab k [] names -> (length names <= k)%nat ->
  c_loops st = [] -> CompilerNames.sim st (top_sctx names).
Proof.
  intros st k names Hs Hk Hl. unfold CompilerNames.sim. rewrite Hs, Hl.
  constructor; cbn [top_sctx s_local s_global s_loops length].
  - apply wf_stab. exact Hk.
  - intros x. unfold CompilerNames.names_agree, current, current_context, stab, ScopeSpec.flat.
    cbn [app last c_syms concat]. rewrite app_nil_r. unfold in_senv. cbn [existsb]. rewrite orb_false_r.
    rewrite CompilerNames.in_scope_In. symmetry. apply in_rev.
  - reflexivity.
  - reflexivity.
Qed.

(* what the compiler answers for a line of F2, against the static pass *)
Lemma line_static : forall ast st k names fuel, in_F2 ast = true ->
  c_symbols st = stab k [] names -> (length names <= k)%nat -> c_loops st = [] ->
  (CompilerNames.bsize ast <= fuel)%nat ->
  match compile_statements ast st with
  | Ok st1 => check_block fuel (top_sctx names) ast = None /\ wf_tab (c_symbols st1)
  | Err e => e = ESyntaxError \/ check_block fuel (top_sctx names) ast = Some e
  | _ => True
  end.
Proof.
  intros ast st k names fuel HF Hs Hk Hl Hsz.
  pose proof (session_sim st k names Hs Hk Hl) as Hsim.
  pose proof (f2_fn_ok_block ast false HF) as Hfn.
  destruct (compile_statements ast st) as [st1|e|f|] eqn:Ec; [| |exact I..].
  - destruct (CompilerNames.stmts_ok ast (CompilerNames.all_Qc ast) st st1 _ fuel Ec Hsim Hfn Hsz) as [K [G _]].
    split; [exact K|]. apply (CompilerNames.grows_wf _ _ _ (CompilerNames.sim_wf _ _ _ Hsim) G).
  - assert (Forall CompilerNames.Qr ast) as HQ.
    { apply Forall_forall. intros s _. apply (proj2 CompilerNames.compile_errors). }
    destruct (CompilerNames.stmts_err ast HQ st _ fuel e Ec Hsim Hfn Hsz) as [H|[H|H]].
    + right. exact H.
    + left. exact H.
    + exfalso. subst e. exact (f2_compile_no_type_error ast false st HF Ec).
Qed.

(* a tree of the parser, compiled by a compiler between two lines: bytecode or an error kind, never a panic *)
Lemma line_no_panic : forall u orc src ast st, parse u (parse_float orc) src = Ok ast -> c_loops st = [] ->
  match compile_statements ast st with Ok _ | Err _ => True | _ => False end.
Proof.
  intros u orc src ast st Hp Hl. unfold parse, parse_tokens in Hp.
  pose proof (PrinterProofs.wf_complete _ _ _ _ Hp) as W.
  exact (CompilerTotal.compile_statements_no_panic ast st W (CompilerTotal.code_inv_no_loops st Hl)).
Qed.

(** * 3. One run of the retained machine on the code of a line *)

Lemma step_halt_gcnew : forall orc prog s rest,
  code_at prog (v_ip s) (byte_of_opcode OHalt :: rest) -> v_gc s = gc_new ->
  step orc prog s = Ok (Halted (v_final s) (upd_heap (upd_ip s (v_ip s + 1)) (v_heap s) gc_new)).
Proof.
  intros orc prog s rest Hc Hg.
  unfold step; rewrite (code_at_0 _ _ _ _ Hc); rewrite (opcode_roundtrip OHalt); cbv beta iota zeta.
  cbn [v_final v_heap v_gc upd_ip]. rewrite Hg. reflexivity.
Qed.

(* scalars only: neither the heap nor the collector is touched, also in the state a failure leaves *)
Lemma ztop_scalar : forall orc l, f2b false l = true -> forall fuel names last m,
  scalar last = true -> scalar_m m -> zsc_res m (ztop orc fuel names l last m).
Proof.
  intros orc l. induction l as [|s r IH]; intros HF fuel names last m Sl Hm.
  - cbn [ztop zsc_res]. auto.
  - rewrite f2b_cons in HF. apply andb_prop in HF. destruct HF as [Hs Hr].
    destruct s as [x e|e|e|b| |]; try discriminate Hs; cbn [ztop].
    + cbn [f2s] in Hs. apply andb_prop in Hs. destruct Hs as [He _].
      apply zsc_res_bind; [apply (proj1 (zeval_scalar orc fuel) false); assumption|]. intros a m1 Sa Sm1 H1 G1.
      apply (zsc_res_shift m (set_global_m (length names) a m1)); try assumption.
      apply (IH Hr); auto. apply scalar_set_global; assumption.
    + cbn [f2s] in Hs.
      apply zsc_res_bind; [apply (proj1 (zeval_scalar orc fuel) false); assumption|]. intros a m1 Sa Sm1 H1 G1.
      apply (zsc_res_shift m m1); try assumption. apply (IH Hr); auto.
    + rewrite f2s_block in Hs.
      apply zsc_res_bind; [apply (proj2 (proj2 (zeval_scalar orc fuel)) false); auto|]. intros a m1 Sa Sm1 H1 G1.
      apply (zsc_res_shift m m1); try assumption. apply (IH Hr); auto.
Qed.

Lemma vm_line_run2 : forall orc ast st st1 s0 k names,
  in_F2 ast = true -> c_symbols st = stab k [] names -> c_code st = [] -> c_loops st = [] ->
  compile_statements ast st = Ok st1 ->
  v_ip s0 = 0 -> v_final s0 = VNull -> scalar_m (mst_of s0) -> v_gc s0 = gc_new ->
  let prog := mkProgram (c_code st1 ++ [byte_of_opcode OHalt]) (map kval (c_constants st1)) in
  forall fuel,
  match ztop orc fuel names ast VNull (mst_of s0) with
  | ZOk v m' =>
      exists n sF fin, (forall b, run_loop orc prog (n + S b) s0 = (Ok fin, sF, b)) /\ mst_of sF = m' /\
                       v_out sF = v_out s0 /\ (ends_expr ast = true -> fin = v)
  | ZErr e mf =>
      exists n sF, (forall b, run_loop orc prog (n + S b) s0 = (Err e, sF, b)) /\ mst_of sF = mf /\ v_out sF = v_out s0
  | ZFault f mf =>
      exists n sF, (forall b, run_loop orc prog (n + S b) s0 = (Fault f, sF, b)) /\ mst_of sF = mf /\ v_out sF = v_out s0
  | _ => True
  end.
Proof.
  intros orc ast st st1 s0 k names HF Hs Hcode0 Hloops Hc Hip Hfin Hsc Hgc prog fuel.
  destruct ast as [|a0 ar].
  - (* the empty line: Halt *)
    cbn [compile_statements] in Hc. inversion Hc; subst st1. cbn [ztop].
    assert (code_at prog (v_ip s0) [byte_of_opcode OHalt]) as Hh.
    { exists [], []. split; [unfold prog; cbn [p_code]; rewrite Hcode0; reflexivity|rewrite Hip; reflexivity]. }
    exists O, (upd_heap (upd_ip s0 (v_ip s0 + 1)) (v_heap s0) gc_new), VNull.
    split; [|split; [|split]].
    + intros b. cbn [Nat.add run_loop]. rewrite (step_halt_gcnew orc prog s0 [] Hh Hgc), Hfin. reflexivity.
    + unfold mst_of, upd_heap, upd_ip. cbn [v_heap v_gc v_globals]. rewrite Hgc. reflexivity.
    + reflexivity.
    + reflexivity.
  - set (l := a0 :: ar) in *.
    pose proof (ztop_zstmts orc l HF fuel (fuel + length l + 1) names VNull (mst_of s0) (le_n _)) as Hz.
    pose proof (ztop_scalar orc l HF fuel names VNull (mst_of s0) eq_refl Hsc) as Hscal.
    destruct (zlsim_all orc l false st st1 k [] names HF Hs Hc) as [ce [nb L]].
    pose proof L as [CF _].
    pose proof (cf_nbnil _ _ _ _ _ _ CF Hloops) as ->.
    pose proof (cf_code _ _ _ _ _ _ CF) as Hce. rewrite Hcode0 in Hce. cbn [app] in Hce.
    assert (code_len st = 0) as L0 by (unfold code_len; rewrite Hcode0; reflexivity).
    assert (code_len st1 = zlength ce) as Lce by (unfold code_len; rewrite Hce; reflexivity).
    assert (env_ok prog st st1 ce [] 0) as E.
    { constructor.
      - split; [rewrite L0; lia|]. intros i b Hi _. unfold byte_at. rewrite L0. cbn [Z.add].
        destruct (Z.of_nat i <? 0) eqn:Ei; [apply Z.ltb_lt in Ei; lia|].
        rewrite Nat2Z.id. unfold prog. cbn [p_code]. rewrite Hce, nth_error_app1; [exact Hi|].
        apply nth_error_Some. rewrite Hi. discriminate.
      - apply consts_ok_kval.
      - intros ip []. }
    assert (0 <= cur_start (c_loops st)) as Hcs by (rewrite Hloops; cbn; lia).
    assert (v_ip s0 = code_len st) as Hip' by (rewrite L0; exact Hip).
    pose proof (zstmt_mode orc l st st1 [] names ce [] L prog 0 E ltac:(lia) Hcs (fuel + length l + 1)%nat s0 VNull Hip')
      as Hsim.
    change (flat [] names) with names in Hsim.
    unfold zsame in Hz.
    destruct (ztop orc fuel names l VNull (mst_of s0)) as [v m'|m'|m'|e mf|f mf|] eqn:Ez; try exact I;
      rewrite Hz in Hsim by discriminate; cbn [zsim_full zsc_res] in Hsim, Hscal.
    + destruct Hsim as [fin' [[n Hn] Hfin']]. destruct Hscal as [_ [_ [_ G]]].
      set (sF := setx s0 (v_stack s0) (v_slen s0) (code_len st1) m' fin') in *.
      assert (code_at prog (v_ip sF) [byte_of_opcode OHalt]) as Hh.
      { exists ce, []. split; [unfold prog; cbn [p_code]; rewrite Hce; reflexivity|symmetry; exact Lce]. }
      assert (v_gc sF = gc_new) as HgF by (unfold sF; cbn [setx v_gc]; rewrite G; exact Hgc).
      exists n, (upd_heap (upd_ip sF (v_ip sF + 1)) (v_heap sF) gc_new), fin'.
      split; [|split; [|split]].
      * intros b. rewrite (run_loop_reach orc prog n s0 sF (S b) Hn). cbn [run_loop].
        rewrite (step_halt_gcnew orc prog sF [] Hh HgF). reflexivity.
      * unfold mst_of, upd_heap, upd_ip. cbn [v_heap v_gc v_globals]. rewrite <- HgF.
        unfold sF, setx. cbn [v_heap v_gc v_globals]. apply mst_eta.
      * reflexivity.
      * intros HE. apply Hfin'. apply ends_expr_pop; [discriminate|exact HE].
    + destruct Hsim as [n [s1 [Hn [Hst [Ho Hm]]]]]. exists n, s1. split; [|split; assumption].
      intros b. rewrite (run_loop_reach orc prog n s0 s1 (S b) Hn). cbn [run_loop]. rewrite Hst. reflexivity.
    + destruct Hsim as [n [s1 [Hn [Hst [Ho Hm]]]]]. exists n, s1. split; [|split; assumption].
      intros b. rewrite (run_loop_reach orc prog n s0 s1 (S b) Hn). cbn [run_loop]. rewrite Hst. reflexivity.
Qed.

(** * 4. The simulation relation for sessions with block scopes *)

(* as SessionRefine.SRelW, except that the globals vector may be longer than the list ds of visible
   declarations (no R_len: RelH instead of Rel): a top-level block leaves the slots of its local variables
   behind, and the next declaration - of this line or of a later one - takes the first of them over.
   Slot i < length ds belongs to the i-th visible declaration. *)
Record SRel2W (ds : decls) (k : nat) (s : session) (sem : sem_session) : Prop := mkSRel2 {
  S2_syms : c_symbols (ss_compiler s) = stab k [] (map fst ds);    (* one context, one scope *)
  S2_max : (length ds <= k)%nat;                                   (* max_size counts every declaration ever made *)
  S2_code : c_code (ss_compiler s) = [];
  S2_loops : c_loops (ss_compiler s) = [];
  S2_kint : Forall is_kint (c_constants (ss_compiler s));
  S2_pool : ss_pool s = map kval (c_constants (ss_compiler s));
  S2_dyn : sm_dyn sem = mkD [rev ds] None;
  S2_static : sm_static sem = top_sctx (map fst ds);
  S2_rel : RelH [] ds (sm_state sem) (mkM (v_heap (ss_vm s)) gc_new (v_globals (ss_vm s)));
  S2_scalar : Forall (fun v => scalar v = true) (v_globals (ss_vm s))
}.

Definition SRel2 (s : session) (sem : sem_session) : Prop := exists ds k, SRel2W ds k s sem.

Lemma Rel_RelH : forall ds sst m, Rel ds sst m -> RelH [] ds sst m.
Proof.
  intros ds sst m [R1 R2 R3 R4 R5 R6]. constructor; auto.
  intros i y c Hi _. exact (R4 i y c Hi).
Qed.

Lemma SRel2_init : SRel2 session_new sem_session_new.
Proof.
  exists [], O. constructor; try reflexivity.
  - constructor.
  - exact RelH_init.
  - constructor.
Qed.

(* SRel (F1 sessions) is the special case without dead slots *)
Lemma SRel_SRel2 : forall s sem, SRel s sem -> wf_tab (c_symbols (ss_compiler s)) -> SRel2 s sem.
Proof.
  intros s sem [ds [k W]] Hwf. exists ds, k.
  pose proof (SR_syms _ _ _ _ W) as Hs. change (names_tab k (map fst ds)) with (stab k [] (map fst ds)) in Hs.
  constructor; try exact Hs.
  - rewrite Hs in Hwf. apply wf_stab_inv in Hwf. rewrite map_length in Hwf. exact Hwf.
  - exact (SR_code _ _ _ _ W).
  - exact (SR_loops _ _ _ _ W).
  - exact (SR_kint _ _ _ _ W).
  - exact (SR_pool _ _ _ _ W).
  - exact (SR_dyn _ _ _ _ W).
  - exact (SR_static _ _ _ _ W).
  - apply Rel_RelH. exact (SR_rel _ _ _ _ W).
  - exact (SR_scalar _ _ _ _ W).
Qed.

Lemma RelH_clear_out : forall holes ds sst m, RelH holes ds sst m -> RelH holes ds (clear_out sst) m.
Proof. intros holes ds sst m [R1 R2 R4 R5 R6]. constructor; auto. Qed.

(* "every line sees the global variables declared by earlier lines with their current values" *)
Theorem SRel2_sees : forall s sem x, SRel2 s sem ->
  match resolve (c_symbols (ss_compiler s)) x with
  | Some sy => s_scope sy = SGlobal /\
               exists cell, d_lookup (sm_dyn sem) x = Some cell /\
                            get_cell cell (sm_state sem) = nth (s_index sy) (v_globals (ss_vm s)) VNull
  | None => d_lookup (sm_dyn sem) x = None
  end.
Proof.
  intros s sem x [ds [k W]]. rewrite (S2_syms _ _ _ _ W), (S2_dyn _ _ _ _ W), resolve_stab, d_lookup_top.
  change (flat [] (map fst ds)) with (map fst ds).
  pose proof (lookup_agree ds x) as HL.
  destruct (rposition x (map fst ds)) as [i|]; cbn [option_map].
  - destruct HL as [y [c [Hi Hc]]]. split; [reflexivity|]. exists c. split; [exact Hc|].
    exact (RH_val _ _ _ _ (S2_rel _ _ _ _ W) i y c Hi (fun H => H)).
  - exact HL.
Qed.

Lemma SRel2_after_run : forall ds' k' st1 sF sst' mf,
  c_symbols st1 = stab k' [] (map fst ds') -> (length ds' <= k')%nat -> c_loops st1 = [] ->
  Forall is_kint (c_constants st1) ->
  RelH [] ds' sst' mf -> mst_of sF = mf -> scalar_m mf -> m_gc mf = gc_new ->
  SRel2 (mkSession (mkC (c_symbols st1) (c_constants st1) [] (Some OHalt) (c_loops st1) (c_lit_allocs st1))
                   (map kval (c_constants st1))
                   (mkVM (v_stack sF) (v_slen sF) (v_globals sF) (v_frames sF) 0 0 VNull (v_heap sF) gc_new []))
        (mkSemS (static_of_dyn (mkD [rev ds'] None)) (mkD [rev ds'] None) sst').
Proof.
  intros ds' k' st1 sF sst' mf Hs Hk Hl Hki HR Hm Hsc Hgc. exists ds', k'.
  constructor; cbn [ss_compiler ss_pool ss_vm c_symbols c_code c_loops c_constants sm_dyn sm_static sm_state
                    v_heap v_globals]; auto.
  - apply static_of_dyn_top.
  - subst mf. unfold mst_of in *. cbn [m_gc] in Hgc. rewrite <- Hgc. exact HR.
  - subst mf. exact Hsc.
Qed.

(** * 5. One line *)

(* as SessionRefine.obs_corr; the value of a line that does not end in an expression statement is not
   compared (DESIGN.md excludes the value of a program that ends in a declaration) *)
Definition obs_corr2 (ast : block) (o : line_obs) (r : line_result) : Prop :=
  lo_out o = [] /\ lo_code o = 0 /\ lo_loops o = 0 /\
  match r with
  | LRejected k => lo_result o = Err k
  | LValue v _ out =>
      out = [] /\ exists v', lo_result o = Ok v' /\ (ends_expr ast = true -> v' = v /\ scalar v' = true)
  | LError k out => out = [] /\ lo_result o = Err k
  | LFault f out => out = [] /\ lo_result o = Fault f
  | LFuel => False
  end.

Lemma obs_corr_obs_corr2 : forall ast o r, obs_corr ast o r -> obs_corr2 ast o r.
Proof.
  intros ast o r [A [B [C D]]]. split; [exact A|]. split; [exact B|]. split; [exact C|].
  destruct r as [k|v h out|k out|f out|]; try exact D.
  destruct D as [D1 [v' [D2 [D3 D4]]]]. split; [exact D1|]. exists v'. split; [exact D2|].
  intros HE. split; [exact (D4 HE)|exact D3].
Qed.

(* the names a line of F2 adds to the static context: its top-level declarations *)
Lemma static_after_F2 : forall l, f2b false l = true -> forall names,
  static_after (top_sctx names) l = top_sctx (names ++ decl_names l).
Proof.
  intros l. induction l as [|s0 l IH]; intros HF names.
  - cbn [static_after decl_names]. rewrite app_nil_r. reflexivity.
  - rewrite f2b_cons in HF. apply andb_prop in HF. destruct HF as [H0 Hl].
    destruct s0 as [x e|e|e|b| |]; try discriminate H0; cbn [static_after decl_names].
    + cbn [stmt_declares]. rewrite declare_top, (IH Hl), <- app_assoc. reflexivity.
    + assert (stmt_declares (SExpr e) = None) as -> by (destruct e; try discriminate H0; reflexivity).
      apply (IH Hl).
    + cbn [stmt_declares]. apply (IH Hl).
Qed.

Lemma top_level_stab : forall k names, top_level (stab k [] names).
Proof. intros k names. exact (top_level_names k names). Qed.

Theorem line_refines_F2 : forall u orc fuel s sem src ast,
  SRel2 s sem ->
  parse u (parse_float orc) src = Ok ast -> in_F2 ast = true ->
  (CompilerNames.bsize ast <= fuel)%nat ->                          (* fuel for Sem's static pass *)
  snd (sem_line' orc fuel sem ast) <> LFuel ->                      (* ... and for its dynamic pass *)
  snd (compile_ast ast (ss_compiler s)) <> Err ESyntaxError ->      (* the line fits the bytecode format *)
  decls_done orc fuel sem ast ->                                    (* not in class D29 *)
  init_done orc fuel sem ast ->                                     (* not in class D30 *)
  exists n s' o,
    (forall budget, (n <= budget)%nat -> run_line u orc budget s src = (s', o)) /\
    SRel2 s' (fst (sem_line' orc fuel sem ast)) /\
    obs_corr2 ast o (snd (sem_line' orc fuel sem ast)) /\
    ss_compiler s' = fst (compile_ast ast (ss_compiler s)).
Proof.
  intros u orc fuel s sem src ast [ds [k W]] Hp HF Hsz Hnf Hfmt Hdd Hid.
  assert (length (map fst ds) <= k)%nat as Hk by (rewrite map_length; exact (S2_max _ _ _ _ W)).
  pose proof (line_static ast (ss_compiler s) k (map fst ds) fuel HF (S2_syms _ _ _ _ W) Hk (S2_loops _ _ _ _ W) Hsz)
    as Hstat.
  pose proof (line_no_panic u orc src ast (ss_compiler s) Hp (S2_loops _ _ _ _ W)) as Hnp.
  unfold compile_ast in Hfmt |- *.
  destruct (compile_statements ast (ss_compiler s)) as [st1|e|f|] eqn:Ec; [| |contradiction..].
  - (* the compiler accepts the line *)
    destruct Hstat as [Hck Hwf1]. rewrite <- (S2_static _ _ _ _ W) in Hck.
    rewrite (sem_line'_accepted orc fuel sem ast Hck) in *. cbv zeta in *. cbn [fst snd] in *.
    unfold decls_done in Hdd. unfold init_done in Hid.
    set (st0 := clear_out (sm_state sem)) in *.
    set (m := mkM (v_heap (ss_vm s)) gc_new (v_globals (ss_vm s))).
    pose proof (sem_ztop orc ast HF fuel ds st0 m VNull (RelH_clear_out _ _ _ _ (S2_rel _ _ _ _ W))) as Htop.
    rewrite <- (S2_dyn _ _ _ _ W) in Htop.
    destruct (zlsim_all orc ast false (ss_compiler s) st1 k [] (map fst ds) HF (S2_syms _ _ _ _ W) Ec)
      as [ce [nb [CF _]]].
    pose proof (cf_nbnil _ _ _ _ _ _ CF (S2_loops _ _ _ _ W)) as ->.
    destruct (cf_syms _ _ _ _ _ _ CF) as [k' Hs1].
    destruct (cf_consts _ _ _ _ _ _ CF) as [kx [Hkx Hfx]].
    pose proof (cf_loops _ _ _ _ _ _ CF) as L1. rewrite add_breaks_nil, (S2_loops _ _ _ _ W) in L1.
    rewrite Hs1 in Hwf1. apply wf_stab_inv in Hwf1.
    set (s0 := mkVM [] 0 (v_globals (ss_vm s)) [mkFrame 0 0] 0 0 VNull (v_heap (ss_vm s)) gc_new []).
    assert (scalar_m m) as Hsc by exact (S2_scalar _ _ _ _ W).
    pose proof (vm_line_run2 orc ast (ss_compiler s) st1 s0 k (map fst ds) HF (S2_syms _ _ _ _ W) (S2_code _ _ _ _ W)
                  (S2_loops _ _ _ _ W) Ec eq_refl eq_refl Hsc eq_refl fuel) as Hrun.
    cbv zeta in Hrun. change (mst_of s0) with m in Hrun.
    pose proof (ztop_scalar orc ast HF fuel (map fst ds) VNull m eq_refl Hsc) as Hscal.
    assert (Forall is_kint (c_constants st1)) as Hk1.
    { rewrite Hkx. apply Forall_app. split; [exact (S2_kint _ _ _ _ W)|exact Hfx]. }
    destruct (exec_top orc fuel (sm_dyn sem) ast VNull st0) as [c' r] eqn:Eet.
    unfold agree_top2 in Htop. cbn [fst snd] in *.
    destruct Htop as [E|[ds' [Ec' [[ds2 Eds] H3]]]]; [subst r; exfalso; apply Hnf; reflexivity|]. subst c'.
    destruct (ztop orc fuel (map fst ds) ast VNull m) as [v m'|m'|m'|e mf|f mf|]; try contradiction.
    + (* (a) runs to a value *)
      destruct H3 as [sst' [Er [R' [O' Nm]]]]. subst r.
      destruct Hrun as [n [sF [fin [Hloop [HmF [HoF Hfin]]]]]].
      cbn [zsc_res] in Hscal. destruct Hscal as [Sv [Sm' [Hh' Hg']]].
      assert (v_gc sF = gc_new) as HgF.
      { assert (m_gc (mst_of sF) = gc_new) as G by (rewrite HmF, Hg'; reflexivity). exact G. }
      eexists (n + 1)%nat, _, _. split; [|split; [|split]].
      * intros budget Hb. replace budget with (n + S (budget - n - 1))%nat by lia.
        exact (run_line_ran u orc _ s src ast st1 kx _ sF _ Hp Ec (S2_pool _ _ _ _ W) (S2_kint _ _ _ _ W) Hkx Hfx
                            (Hloop _) HgF).
      * cbn [state_of]. apply (SRel2_after_run ds' k' st1 sF sst' m'); auto.
        all: try (rewrite Hs1, Nm; reflexivity); try (rewrite <- (map_length fst ds'), Nm; exact Hwf1);
          try (rewrite Hg'; reflexivity).
      * unfold obs_corr2. cbn [lo_out lo_code lo_loops lo_result line_res]. rewrite L1.
        split; [exact HoF|]. split; [reflexivity|]. split; [reflexivity|].
        split; [rewrite O'; reflexivity|]. exists fin. split; [reflexivity|].
        intros HE. rewrite (Hfin HE). split; [reflexivity|exact Sv].
      * reflexivity.
    + (* (c) fails while running: an error *)
      destruct H3 as [sst' [Er [O' R']]]. subst r. specialize (R' Hid).
      destruct Hrun as [n [sF [Hloop [HmF HoF]]]].
      cbn [zsc_res] in Hscal. destruct Hscal as [Sm' [Hh' Hg']].
      assert (v_gc sF = gc_new) as HgF.
      { assert (m_gc (mst_of sF) = gc_new) as G by (rewrite HmF, Hg'; reflexivity). exact G. }
      cbv beta iota in Hdd.
      rewrite (S2_static _ _ _ _ W), (static_after_F2 ast HF), static_of_dyn_top in Hdd.
      apply top_sctx_inj in Hdd.
      eexists (n + 1)%nat, _, _. split; [|split; [|split]].
      * intros budget Hb. replace budget with (n + S (budget - n - 1))%nat by lia.
        exact (run_line_ran u orc _ s src ast st1 kx _ sF _ Hp Ec (S2_pool _ _ _ _ W) (S2_kint _ _ _ _ W) Hkx Hfx
                            (Hloop _) HgF).
      * cbn [state_of]. apply (SRel2_after_run ds' k' st1 sF sst' mf); auto.
        all: try (rewrite Hs1, Hdd; reflexivity); try (rewrite <- (map_length fst ds'), Hdd; exact Hwf1);
          try (rewrite Hg'; reflexivity).
      * unfold obs_corr2. cbn [lo_out lo_code lo_loops lo_result line_res]. rewrite L1.
        split; [exact HoF|]. split; [reflexivity|]. split; [reflexivity|].
        split; [rewrite O'; reflexivity|reflexivity].
      * reflexivity.
    + (* (c) fails while running: a fault (does not happen on F2; the simulation does not need to know) *)
      destruct H3 as [sst' [Er [O' R']]]. subst r. specialize (R' Hid).
      destruct Hrun as [n [sF [Hloop [HmF HoF]]]].
      cbn [zsc_res] in Hscal. destruct Hscal as [Sm' [Hh' Hg']].
      assert (v_gc sF = gc_new) as HgF.
      { assert (m_gc (mst_of sF) = gc_new) as G by (rewrite HmF, Hg'; reflexivity). exact G. }
      cbv beta iota in Hdd.
      rewrite (S2_static _ _ _ _ W), (static_after_F2 ast HF), static_of_dyn_top in Hdd.
      apply top_sctx_inj in Hdd.
      eexists (n + 1)%nat, _, _. split; [|split; [|split]].
      * intros budget Hb. replace budget with (n + S (budget - n - 1))%nat by lia.
        exact (run_line_ran u orc _ s src ast st1 kx _ sF _ Hp Ec (S2_pool _ _ _ _ W) (S2_kint _ _ _ _ W) Hkx Hfx
                            (Hloop _) HgF).
      * cbn [state_of]. apply (SRel2_after_run ds' k' st1 sF sst' mf); auto.
        all: try (rewrite Hs1, Hdd; reflexivity); try (rewrite <- (map_length fst ds'), Hdd; exact Hwf1);
          try (rewrite Hg'; reflexivity).
      * unfold obs_corr2. cbn [lo_out lo_code lo_loops lo_result line_res]. rewrite L1.
        split; [exact HoF|]. split; [reflexivity|]. split; [reflexivity|].
        split; [rewrite O'; reflexivity|reflexivity].
      * reflexivity.
  - (* (b) the compiler rejects the line: Sem's static pass rejects it with the same error *)
    cbn [snd] in Hfmt. destruct Hstat as [->|Hck]; [exfalso; apply Hfmt; reflexivity|].
    rewrite <- (S2_static _ _ _ _ W) in Hck.
    rewrite (sem_line'_rejected orc fuel sem ast _ Hck). cbn [fst snd].
    eexists O, _, _. split; [|split; [|split]].
    + intros budget _. unfold run_line, compile_ast. rewrite Hp, Ec. reflexivity.
    + exists ds, k. rewrite (S2_dyn _ _ _ _ W).
      constructor; cbn [ss_compiler ss_pool ss_vm c_symbols c_code c_loops c_constants sm_dyn sm_static sm_state].
      * rewrite (S2_syms _ _ _ _ W). apply rollback_checkpoint_top. apply top_level_stab.
      * exact (S2_max _ _ _ _ W).
      * reflexivity.
      * reflexivity.
      * exact (S2_kint _ _ _ _ W).
      * exact (S2_pool _ _ _ _ W).
      * reflexivity.
      * apply static_of_dyn_top.
      * exact (S2_rel _ _ _ _ W).
      * exact (S2_scalar _ _ _ _ W).
    + unfold obs_corr2, front_obs. cbn [lo_out lo_code lo_loops lo_result ss_compiler c_code c_loops].
      repeat split; reflexivity.
    + reflexivity.
Qed.

(* case (b) spelled out: a line the compiler rejects (an undeclared name) leaves BOTH sides exactly as they were *)
Theorem rejected_line_keeps_both_states_F2 : forall u orc fuel budget s sem src ast st' e,
  SRel2 s sem -> parse u (parse_float orc) src = Ok ast -> in_F2 ast = true ->
  (CompilerNames.bsize ast <= fuel)%nat ->
  compile_ast ast (ss_compiler s) = (st', Err e) -> e <> ESyntaxError ->
  let s' := fst (run_line u orc budget s src) in
  ss_vm s' = ss_vm s /\ ss_pool s' = ss_pool s /\
  c_symbols (ss_compiler s') = c_symbols (ss_compiler s) /\ c_constants (ss_compiler s') = c_constants (ss_compiler s) /\
  c_code (ss_compiler s') = [] /\ c_loops (ss_compiler s') = [] /\
  sem_line' orc fuel sem ast = (sem, LRejected e).
Proof.
  intros u orc fuel budget s sem src ast st' e [ds [k W]] Hp HF Hsz Hc He s'.
  destruct (failed_compile_line_harmless u orc budget s src ast st' _ Hp Hc) as [A [B [C _]]].
  fold s' in A, B, C. rewrite C.
  destruct (failed_compile_harmless _ _ _ _ Hc) as [D [_ [E [F _]]]].
  assert (top_level (c_symbols (ss_compiler s))) as Ht by (rewrite (S2_syms _ _ _ _ W); apply top_level_stab).
  pose proof (failed_compile_restores_names _ _ _ _ Ht Hc) as G.
  repeat (split; [assumption|]).
  assert (length (map fst ds) <= k)%nat as Hk by (rewrite map_length; exact (S2_max _ _ _ _ W)).
  pose proof (line_static ast (ss_compiler s) k (map fst ds) fuel HF (S2_syms _ _ _ _ W) Hk (S2_loops _ _ _ _ W) Hsz)
    as Hstat.
  unfold compile_ast in Hc. destruct (compile_statements ast (ss_compiler s)) as [st1|e1|f|]; inversion Hc; subst.
  destruct Hstat as [->|Hck]; [exfalso; apply He; reflexivity|].
  rewrite <- (S2_static _ _ _ _ W) in Hck.
  rewrite (sem_line'_rejected orc fuel sem ast _ Hck). f_equal.
  rewrite (S2_dyn _ _ _ _ W), static_of_dyn_top, <- (S2_static _ _ _ _ W), <- (S2_dyn _ _ _ _ W).
  destruct sem; reflexivity.
Qed.

(** * 6. Whole sessions *)

(* the hypotheses of `line_refines_F2` for every line, each in the compiler state and the session meaning
   reached before that line (the retained compiler's state does not depend on the runs) *)
Fixpoint session_hyps2 (orc : oracle) (fuel : nat) (st : cstate) (sem : sem_session) (asts : list block) : Prop :=
  match asts with
  | [] => True
  | a :: r =>
      in_F2 a = true /\
      (CompilerNames.bsize a <= fuel)%nat /\ snd (sem_line' orc fuel sem a) <> LFuel /\   (* enough fuel for Sem *)
      snd (compile_ast a st) <> Err ESyntaxError /\                               (* the line fits the bytecode format *)
      decls_done orc fuel sem a /\                                                (* not in class D29 *)
      init_done orc fuel sem a /\                                                 (* not in class D30 *)
      session_hyps2 orc fuel (fst (compile_ast a st)) (fst (sem_line' orc fuel sem a)) r
  end.

Inductive lines_corr2 : list block -> list line_obs -> list line_result -> Prop :=
| LC2_nil : lines_corr2 [] [] []
| LC2_cons : forall a o r asts os rs, obs_corr2 a o r -> lines_corr2 asts os rs ->
    lines_corr2 (a :: asts) (o :: os) (r :: rs).

Theorem session_refines_from_F2 : forall u orc fuel srcs asts,
  Forall2 (fun src a => parse u (parse_float orc) src = Ok a) srcs asts ->
  forall s sem, SRel2 s sem -> session_hyps2 orc fuel (ss_compiler s) sem asts ->
  exists N, forall budget, (N <= budget)%nat ->
    lines_corr2 asts (run_session u orc budget s srcs) (sem_session_run orc fuel sem asts).
Proof.
  intros u orc fuel srcs asts HP. induction HP as [|src a srcs asts Hp HP IH]; intros s sem HR HH.
  - exists O. intros budget _. constructor.
  - cbn [session_hyps2] in HH. destruct HH as [HF [Hsz [Hnf [Hfmt [Hdd [Hid HH]]]]]].
    destruct (line_refines_F2 u orc fuel s sem src a HR Hp HF Hsz Hnf Hfmt Hdd Hid)
      as [n [s' [o [Hrun [HR' [Hobs Hcomp]]]]]].
    rewrite <- Hcomp in HH. destruct (IH s' _ HR' HH) as [N HN].
    exists (Nat.max n N). intros budget Hb. cbn [run_session sem_session_run].
    rewrite (Hrun budget ltac:(lia)).
    destruct (sem_line' orc fuel sem a) as [sem' res]. cbn [fst snd] in *.
    constructor; [exact Hobs|]. apply HN. lia.
Qed.

(* Property C17 on F2: a retained session, started fresh, behaves line by line as the meaning of the
   session says.  One machine budget N serves all lines (any larger one gives the same observations). *)
Theorem session_refines_program_F2 : forall u orc fuel srcs asts,
  Forall2 (fun src a => parse u (parse_float orc) src = Ok a) srcs asts ->
  session_hyps2 orc fuel compiler_new sem_session_new asts ->
  exists N, forall budget, (N <= budget)%nat ->
    lines_corr2 asts (run_session u orc budget session_new srcs) (sem_session_run orc fuel sem_session_new asts).
Proof.
  intros u orc fuel srcs asts HP HH.
  exact (session_refines_from_F2 u orc fuel srcs asts HP session_new sem_session_new SRel2_init HH).
Qed.

Lemma session_hyps2_F2 : forall orc fuel asts st sem, session_hyps2 orc fuel st sem asts ->
  Forall (fun a => in_F2 a = true) asts.
Proof.
  intros orc fuel asts. induction asts as [|a r IH]; intros st sem H; [constructor|].
  cbn [session_hyps2] in H. destruct H as [HF [_ [_ [_ [_ [_ H]]]]]]. constructor; [exact HF|exact (IH _ _ H)].
Qed.

Lemma lines_corr2_last : forall asts os rs, lines_corr2 asts os rs -> asts <> [] ->
  forall d1 d2, obs_corr2 (last asts []) (last os d1) (last rs d2).
Proof.
  intros asts os rs H. induction H as [|a o r asts os rs Ho H IH]; intros Hne d1 d2; [contradiction|].
  destruct H as [|a' o' r' asts' os' rs' Ho' H'].
  - exact Ho.
  - apply (IH ltac:(discriminate) d1 d2).
Qed.

Print Assumptions f2_compile_no_type_error.
Print Assumptions line_refines_F2.
Print Assumptions rejected_line_keeps_both_states_F2.
Print Assumptions session_refines_program_F2.
Print Assumptions SRel2_sees.
